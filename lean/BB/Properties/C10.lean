/-
  Property C10 — channel delays shift exactly the addressed channel, identically in every path.

  `delayBP` is the blueprint part of `Element._applyDelays` (and of the copy of that logic in
  `Sequence._prepareForOutputting`); `padArr` the raw-array part; `Sequence.delaysFor` looks the
  delay of every channel of an element up by the channel's own id.
-/
import BB.Proofs.Paths
import BB.Proofs.Consistent
import BB.Proofs.Delay
import BB.Proofs.Basic
import BB.Model.Sequence
import BB.Proofs.G4ZeroSeq
import BB.Proofs.G4Wave
import BB.Proofs.G4Prep
import BB.Proofs.G4Example
import BB.Proofs.G4Frame
import BB.Proofs.G4Built

namespace BB.C10
open BB BP Element

theorem countsGo_append (sr : ℚ) (a c : List ℚ) (na nc : List ℕ)
    (ha : countsGo sr a = .ok na) (hc : countsGo sr c = .ok nc) : countsGo sr (a ++ c) = .ok (na ++ nc) := by
  induction a generalizing na with
  | nil => simp [countsGo] at ha; subst ha; simpa using hc
  | cons d ds ih =>
    simp only [List.cons_append, countsGo] at ha ⊢
    by_cases hs : Gen.segTooShort (segCount d sr) = true
    · simp [hs] at ha
    · simp only [hs, Bool.false_eq_true, if_false] at ha ⊢
      cases hr : countsGo sr ds with
      | error e => simp [hr] at ha
      | ok ms =>
        simp only [hr, Except.ok.injEq] at ha
        subst ha
        rw [ih ms hr]; rfl

theorem countsGo_single (sr d : ℚ) (h : 2 ≤ rhe (d * sr)) : countsGo sr [d] = .ok [(rhe (d * sr)).toNat] := by
  have : Gen.segTooShort (rhe (d * sr)) = false := by simp [Gen.segTooShort]; omega
  simp [countsGo, segCount, this]

theorem mkBlocks_append (sr : ℚ) (a c : List Seg) (na nc : List ℕ) (h : na.length = a.length) :
    mkBlocks sr (a ++ c) (na ++ nc) = mkBlocks sr a na ++ mkBlocks sr c nc := by
  induction a generalizing na with
  | nil => cases na with
    | nil => rfl
    | cons n ns => simp at h
  | cons s ss ih =>
    cases na with
    | nil => simp at h
    | cons n ns => simp only [List.cons_append, mkBlocks, ih ns (by simpa using h)]

/-- the sample counts a delayed blueprint is forged with -/
def delayedCounts (sr delay maxdelay : ℚ) (ns : List ℕ) : List ℕ :=
  (if 0 < delay then [(rhe (delay * sr)).toNat] else []) ++ ns ++
    (if 0 < maxdelay - delay then [(rhe ((maxdelay - delay) * sr)).toNat] else [])

/-- **The delayed channel.**  If the undelayed blueprint forges (sample rate `sr`, resolved
    durations `ds`, counts `ns`) and front and back padding are each absent or at least two
    samples, the delayed blueprint forges as well, from the explicit segment list
    `waituntil(delay) ++ (original segments, waituntil targets moved by delay) ++ zero ramp`,
    with counts `round(delay·SR) ++ ns ++ round((maxdelay − delay)·SR)`. -/
theorem delayed_forge (b : BP) (sr delay maxdelay : ℚ) (ds : List ℚ) (ns : List ℕ)
    (hsr : b.SR = .num sr) (hd : b.resolveWaits = .ok ds) (hn : countsGo sr ds = .ok ns)
    (hb : badSpecial b = false) (h0 : 0 ≤ delay)
    (hfront : 0 < delay → 2 ≤ rhe (delay * sr))
    (hback : 0 < maxdelay - delay → 2 ≤ rhe ((maxdelay - delay) * sr)) :
    forgeBP (delayBP b delay maxdelay).st =
      .ok (assemble { b with segs := delayedSegs b.segs delay maxdelay } sr (delayedCounts sr delay maxdelay ns)) := by
  obtain ⟨_, hbody, hm1, hm2, hS⟩ := delayBP_spec b delay maxdelay
  rw [forgeBP_body (delayBP b delay maxdelay).st { b with segs := delayedSegs b.segs delay maxdelay } hbody hm1 hm2 hS]
  apply (forge_ok_iff _ _).mpr
  refine ⟨sr, _, delayedCounts sr delay maxdelay ns, hsr, delayed_resolve b.segs delay maxdelay ds hd h0, ?_, ?_, rfl⟩
  · -- counts
    unfold delayedCounts
    apply countsGo_append
    · apply countsGo_append
      · by_cases hp : 0 < delay
        · simp only [hp, if_true]; exact countsGo_single sr delay (hfront hp)
        · simp [hp, countsGo]
      · exact hn
    · by_cases hp : 0 < maxdelay - delay
      · simp only [hp, if_true]; exact countsGo_single sr _ (hback hp)
      · simp [hp, countsGo]
  · -- no uncallable special segment appears
    unfold badSpecial delayedSegs at *
    simp only [List.any_append, Bool.or_eq_false_iff]
    refine ⟨⟨?_, ?_⟩, ?_⟩
    · by_cases hp : 0 < delay
      · simp [hp, delayHead, Fn.waitSpecial, Fn.isWait]
      · simp [hp]
    · rw [List.any_map]
      have : ((fun s : Seg => s.fn.special && !s.fn.isWait) ∘ shiftWait delay) = (fun s : Seg => s.fn.special && !s.fn.isWait) := by
        funext s; simp [Function.comp, shiftWait_isWait]
      rw [this]; exact hb
    · by_cases hp : 0 < maxdelay - delay
      · simp [hp, delayTail, Fn.rampFn]
      · simp [hp]

/-- ... so the delayed waveform is: one block of `round(delay·SR)` zeros (`PulseAtoms.waituntil`),
    the original blocks (same function, arguments and sample count; a waituntil block only has its
    irrelevant dummy argument changed), one zero ramp of `round((maxdelay − delay)·SR)` samples. -/
theorem delayed_blocks (b : BP) (sr delay maxdelay : ℚ) (ns : List ℕ) (hl : ns.length = b.segs.length) :
    (assemble { b with segs := delayedSegs b.segs delay maxdelay } sr (delayedCounts sr delay maxdelay ns)).blocks =
      (if 0 < delay then [Blk.call Fn.waitCallable [.num delay] sr (rhe (delay * sr)).toNat] else []) ++
      mkBlocks sr (b.segs.map (shiftWait delay)) ns ++
      (if 0 < maxdelay - delay then [Blk.call Fn.rampFn [.num 0, .num 0] sr (rhe ((maxdelay - delay) * sr)).toNat] else []) := by
  simp only [assemble, delayedSegs, delayedCounts]
  rw [mkBlocks_append, mkBlocks_append]
  · congr 1
    · congr 1
      by_cases hp : 0 < delay
      · simp only [hp, if_true, mkBlocks, delayHead]; rfl
      · simp [hp, mkBlocks]
    · by_cases hp : 0 < maxdelay - delay
      · simp only [hp, if_true, mkBlocks, delayTail]; rfl
      · simp [hp, mkBlocks]
  · by_cases hp : 0 < delay <;> simp [hp]
  · by_cases hp : 0 < delay <;> simp [hp, hl]

/-- the shifted segments forge to the very same blocks except that a waituntil block's argument
    (the unused `dummy` of `PulseAtoms.waituntil`) is moved by the delay -/
theorem shifted_blocks (sr delay : ℚ) (segs : List Seg) (ns : List ℕ) (i : ℕ)
    (h1 : i < (mkBlocks sr (segs.map (shiftWait delay)) ns).length) (h2 : i < (mkBlocks sr segs ns).length) :
    (mkBlocks sr (segs.map (shiftWait delay)) ns)[i] = (mkBlocks sr segs ns)[i] ∨
      ∃ a a' n, (mkBlocks sr (segs.map (shiftWait delay)) ns)[i] = Blk.call Fn.waitCallable a' sr n ∧
        (mkBlocks sr segs ns)[i] = Blk.call Fn.waitCallable a sr n := by
  induction segs generalizing ns i with
  | nil => simp [mkBlocks] at h2
  | cons s ss ih =>
    cases ns with
    | nil => simp [mkBlocks] at h2
    | cons n ns =>
      cases i with
      | zero =>
        simp only [List.map_cons, mkBlocks, List.getElem_cons_zero, shiftWait_isWait]
        by_cases hw : s.fn.isWait = true
        · right
          exact ⟨s.args, (shiftWait delay s).args, n, by simp [forgeFn, hw], by simp [forgeFn, hw]⟩
        · left; rw [shiftWait_nonwait delay s hw]
      | succ i =>
        simp only [List.map_cons, mkBlocks, List.getElem_cons_succ]
        exact ih ns i _ _

/-- total length: every channel of the element ends up with `front + original + back` samples -/
theorem delayed_length (sr delay maxdelay : ℚ) (ns : List ℕ) :
    sumN (delayedCounts sr delay maxdelay ns) =
      (if 0 < delay then (rhe (delay * sr)).toNat else 0) + sumN ns +
        (if 0 < maxdelay - delay then (rhe ((maxdelay - delay) * sr)).toNat else 0) := by
  unfold delayedCounts
  rw [sumN_append, sumN_append]
  by_cases h0 : 0 < delay <;> by_cases h1 : 0 < maxdelay - delay <;> simp [h0, h1, sumN]

/-- with whole-sample delays the common length is `original + maxdelay·SR` -/
theorem delayed_length_whole (sr delay maxdelay : ℚ) (ns : List ℕ) (D M : ℕ) (hsr : 0 < sr)
    (hD : delay * sr = D) (hM : maxdelay * sr = M) (hle : D ≤ M) :
    sumN (delayedCounts sr delay maxdelay ns) = sumN ns + M := by
  rw [delayed_length]
  have e1 : rhe (delay * sr) = (D : ℤ) := by rw [hD]; exact_mod_cast rhe_int (D : ℤ)
  have hMD : (maxdelay - delay) * sr = ((M - D : ℕ) : ℚ) := by
    rw [sub_mul, hD, hM]; push_cast [Nat.cast_sub hle]; ring
  have e2 : rhe ((maxdelay - delay) * sr) = ((M - D : ℕ) : ℤ) := by
    rw [hMD]; exact_mod_cast rhe_int ((M - D : ℕ) : ℤ)
  rw [e1, e2]
  have f1 : (if 0 < delay then ((D : ℤ)).toNat else 0) = D := by
    by_cases h0 : 0 < delay
    · simp [h0]
    · simp only [h0, if_false]
      have : (D : ℚ) ≤ 0 := by rw [← hD]; exact mul_nonpos_of_nonpos_of_nonneg (not_lt.mp h0) hsr.le
      have : D = 0 := by
        have : (D : ℚ) = 0 := le_antisymm this (by exact_mod_cast Nat.zero_le D)
        exact_mod_cast this
      omega
  have f2 : (if 0 < maxdelay - delay then (((M - D : ℕ) : ℤ)).toNat else 0) = M - D := by
    by_cases h1 : 0 < maxdelay - delay
    · simp [h1]
    · simp only [h1, if_false]
      have : ((M - D : ℕ) : ℚ) ≤ 0 := by rw [← hMD]; exact mul_nonpos_of_nonpos_of_nonneg (not_lt.mp h1) hsr.le
      have : ((M - D : ℕ) : ℚ) = 0 := le_antisymm this (by exact_mod_cast Nat.zero_le _)
      have : M - D = 0 := by exact_mod_cast this
      omega
  rw [f1, f2]; omega

/-! ### markers -/

/-- segment-bound markers move with the waveform: if every segment starts `D` samples later, each
    segment-bound marker's ON time is later by exactly `D/SR` and its length is unchanged -/
theorem segment_markers_move (sr : ℚ) (sel : Seg → Mark) (segs : List Seg) (sts : List ℕ) (D : ℕ) :
    segMarks sr sel segs (sts.map (· + D)) =
      (segMarks sr sel segs sts).map (fun m => (m.1 + ((D : ℤ) : ℚ) / sr, m.2)) := by
  induction segs generalizing sts with
  | nil => cases sts <;> simp [segMarks]
  | cons s ss ih =>
    cases sts with
    | nil => simp [segMarks]
    | cons st sts =>
      simp only [List.map_cons, segMarks, ih sts]
      split
      · simp only [List.map_cons, List.cons.injEq, Prod.mk.injEq, and_true]
        push_cast
        ring
      · rfl

/-- the delayed blueprint keeps every segment's marker specification and the absolute markers:
    absolute-time markers keep their absolute times -/
theorem delay_keeps_marker_specs (b : BP) (delay maxdelay : ℚ) :
    (delayBP b delay maxdelay).st.marker1 = b.marker1 ∧ (delayBP b delay maxdelay).st.marker2 = b.marker2 ∧
    (b.segs.map (shiftWait delay)).map (fun s => (s.m1, s.m2)) = b.segs.map (fun s => (s.m1, s.m2)) := by
  obtain ⟨_, _, h1, h2, _⟩ := delayBP_spec b delay maxdelay
  refine ⟨h1, h2, ?_⟩
  simp only [List.map_map]
  apply List.map_congr_left
  intro s _
  simp only [Function.comp, shiftWait]
  split
  · split <;> rfl
  · rfl

/-- the segments inserted for the delay carry no marker -/
theorem padding_has_no_marker (d : ℚ) :
    (delayHead d).m1 = (0, 0) ∧ (delayHead d).m2 = (0, 0) ∧ (delayTail d).m1 = (0, 0) ∧ (delayTail d).m2 = (0, 0) :=
  ⟨rfl, rfl, rfl, rfl⟩

/-! ### raw arrays -/

/-- every array of a raw-array channel (waveform and markers) is padded with `pre` zeros in front
    and `post` zeros behind -/
theorem raw_padded (pre post : ℕ) (xs : List ℚ) :
    padArr pre post xs = List.replicate pre 0 ++ xs ++ List.replicate post 0 ∧
    (padArr pre post xs).length = pre + xs.length + post :=
  ⟨rfl, padArr_length pre post xs⟩

/-! ### each delay goes to the channel it was set for -/

/-- `forge` looks every delay up by the id of the channel it is applied to, so the order in which
    an element lists its channels is irrelevant -/
theorem delays_by_channel_id (s : Sequence) (e : Element) (dl : List ℚ) (h : s.delaysFor e = .ok dl)
    (i : ℕ) (hi : i < e.channels.length) (hj : i < dl.length) : s.delayOf e.channels[i] = .ok dl[i] := by
  unfold Sequence.delaysFor at h
  exact mapM_ok_getElem _ _ _ h i hi hj

/-- a channel without a delay setting is delayed by 0 -/
theorem no_setting_no_delay (s : Sequence) (ch : Chan) (h : Dict.get? s.awgspecs (keyOf ch "delay") = none) :
    s.delayOf ch = .ok 0 := by
  simp [SeqCore.delayOf, h]

/-! ### delays disabled or all zero -/

/-- with delay 0 and maximum 0 nothing is inserted and no count changes -/
theorem zero_delay_counts (sr : ℚ) (ns : List ℕ) : delayedCounts sr 0 0 ns = ns := by
  simp [delayedCounts]

theorem zero_delay_segs (segs : List Seg) : delayedSegs segs 0 0 = segs.map (shiftWait 0) := by
  simp [delayedSegs]

/-! ### forge() and both AWG output methods apply the delays identically -/

/-- for one element: `Element._applyDelays` with the delays of the element's own channels (forge)
    and the delay loop of `_prepareForOutputting` with the delays of element 1's channels (AWG /
    SEQX output) leave elements that deliver the same arrays -/
theorem element_delay_paths_agree (s : Sequence) (e e' e'' : Element) (chans : List Chan) (delays : List ℚ)
    (srv : Val) (t : Bool) (hwf : Dict.WF e.chans) (hperm : chans.Perm e.channels)
    (h1 : s.delayElement e = .ok e') (hd : chans.mapM s.delayOf = .ok delays)
    (hsr : e.getSR = .ok srv) (h2 : Sequence.prepDelayElement srv e chans delays = .ok e'') :
    e'.getArrays t = e''.getArrays t :=
  (Paths.element_paths_agree s e e' e'' chans delays srv t hwf hperm h1 hd hsr h2).1

/-- **the output path equals forge**: whenever both succeed on a sequence of elements,
    `_prepareForOutputting` — the common front end of `outputForAWGFile` and
    `outputForSEQXFile` — delivers at every position exactly the per-channel arrays (delayed
    waveform with its filter annotation, both markers, flags) of
    `forge(apply_delays=True, apply_filters=True)`.  The only hypothesis beyond success is that
    no element lists a channel twice (true of everything `addBluePrint`/`addArray` build). -/
theorem output_path_equals_forge (s : Sequence) (F : List (ℕ × ForgedPos)) (P : List (Dict Chan ChOutF))
    (hF : s.forge true true false = .ok F) (hP : s.prepareForOutputting = .ok P)
    (hwf : ∀ p e, Dict.get? s.data p = some (.el e) → Dict.WF e.chans) :
    P.length = F.length ∧
    ∀ i (h1 : i < F.length) (h2 : i < P.length), ∃ sq, Dict.get? s.sequencing ((i + 1 : ℕ) : ℤ) = some sq ∧
      F[i] = (i + 1, { sequencing := sq, isSub := false, content := [(1, P[i], none)] }) := by
  have hc : s.checkConsistency = .ok true := by
    unfold Sequence.prepareForOutputting at hP
    split at hP
    · cases hP
    · cases hP
    · assumption
  exact Paths.paths_agree s F P hF hP hwf
    (fun e1 p e h1 h2 => consistent_channels_perm s hc 1 p e1 e h1 h2)

/-! ### all delays zero: the undelayed output -/

/-- **a blueprint delayed by 0 out of 0 forges to the undelayed waveform**: same exception, or —
    on success — the same number of samples, both marker arrays, sample rate, segment durations,
    and block by block the same samples (`eval?`) and lengths.  (The only thing `_applyDelays`
    rewrites is the unused `dummy` argument of `waituntil` blocks.) -/
theorem zero_delay_blueprint (b : BP) :
    (∀ e, forgeBP b = .error e → forgeBP (delayBP b 0 0).st = .error e) ∧
    (∀ f, forgeBP b = .ok f → ∃ f', forgeBP (delayBP b 0 0).st = .ok f' ∧
      f'.N = f.N ∧ f'.m1 = f.m1 ∧ f'.m2 = f.m2 ∧ f'.SR = f.SR ∧ f'.newdurations = f.newdurations ∧
      f'.blocks.map Blk.eval? = f.blocks.map Blk.eval? ∧ f'.blocks.map Blk.len = f.blocks.map Blk.len) := by
  have h := forgeBP_zero_delay b
  constructor
  · intro e he
    rw [he] at h
    cases h' : forgeBP (delayBP b 0 0).st with
    | error e' => rw [h'] at h; simp only [Except.map, Except.error.injEq] at h; rw [h]
    | ok f' => rw [h'] at h; simp [Except.map] at h
  · intro f hf
    rw [hf] at h
    cases h' : forgeBP (delayBP b 0 0).st with
    | error e' => rw [h'] at h; simp [Except.map] at h
    | ok f' =>
      rw [h'] at h
      simp only [Except.map, Except.ok.injEq] at h
      obtain ⟨a1, a2, a3, a4, a5, a6, a7⟩ := Forged.norm_observables f'
      obtain ⟨b1, b2, b3, b4, b5, b6, b7⟩ := Forged.norm_observables f
      rw [h] at a1 a2 a3 a4 a5 a6 a7
      exact ⟨f', rfl, a1.symm.trans b1, a2.symm.trans b2, a3.symm.trans b3, a4.symm.trans b4, a5.symm.trans b5,
        a6.symm.trans b6, a7.symm.trans b7⟩

/-! the literal blocks can differ: `_applyDelays` replaces the argument tuple of a `waituntil`
    segment by `(oldwait + delay,)` even for `delay = 0`, dropping further (unused) arguments -/
def exWaitBP : BP :=
  { segs := [ { name := "waituntil", fn := Fn.waitSpecial, args := [.num 1, .num 7], dur := .none } ],
    SR := .num 10 }

example : forgeBP (delayBP exWaitBP 0 0).st ≠ forgeBP exWaitBP := by
  decide +kernel

/-- "every delay is 0" in terms of the settings: no delay key, or the value 0 -/
theorem delays_zero_of_specs (s : Sequence)
    (h : ∀ ch, Dict.get? s.awgspecs (keyOf ch "delay") = none ∨
      Dict.get? s.awgspecs (keyOf ch "delay") = some (.val (.num 0))) : ∀ ch, s.delayOf ch = .ok 0 := by
  intro ch
  rcases h ch with h | h <;> simp [SeqCore.delayOf, h]

/-- **with all delays zero, `forge` with delays on is `forge` with delays off**: the same
    exception, or the same forged structure — positions, sequencing, types, channel ids and order,
    markers, flags, time axis, filter annotations, blocks with their pulse functions, sample rates
    and sample counts — up to `normOut`, which erases the unused argument of `waituntil` blocks
    (see `norm_keeps_output`: nothing that reaches the instrument depends on it) -/
theorem forge_all_delays_zero (s : Sequence) (hz : ∀ ch, s.delayOf ch = .ok 0) (f t : Bool) :
    (s.forge true f t).map Sequence.normOut = (s.forge false f t).map Sequence.normOut :=
  Sequence.forge_zero_delays s hz f t

/-- erasing the unused argument of `waituntil` blocks changes nothing the output methods read
    from a forged channel: evaluated waveform, length, both markers, flags, filter annotation -/
theorem norm_keeps_output (c : ChOutF) :
    (Sequence.chWave (Sequence.ChOutF.norm c)).map Sequence.Wave.eval? = (Sequence.chWave c).map Sequence.Wave.eval? ∧
    (Sequence.chWave (Sequence.ChOutF.norm c)).map Sequence.Wave.len = (Sequence.chWave c).map Sequence.Wave.len ∧
    (∀ w, Sequence.chMarker (Sequence.ChOutF.norm c) w = Sequence.chMarker c w) ∧
    Sequence.chFlags (Sequence.ChOutF.norm c) = Sequence.chFlags c ∧ (Sequence.ChOutF.norm c).filt = c.filt := by
  obtain ⟨o, fl⟩ := c
  cases o with
  | forged f flg t =>
    obtain ⟨_, _, _, _, _, h6, h7⟩ := Forged.norm_observables f
    refine ⟨?_, ?_, fun w => rfl, rfl, rfl⟩
    · simp only [Sequence.ChOutF.norm, ChOut.norm, Sequence.chWave, Except.map, Sequence.Wave.eval?]
      cases fl with
      | some _ => rfl
      | none =>
        simp only [Except.ok.injEq]
        rw [g4_mapM_option_congr Blk.eval? _ _ h6]
    · simp only [Sequence.ChOutF.norm, ChOut.norm, Sequence.chWave, Except.map, Sequence.Wave.len, h7]
  | arrays a flg tm => exact ⟨rfl, rfl, fun w => rfl, rfl, rfl⟩

/-- the hypothesis of `forge_all_delays_zero` is satisfiable: a sequence without delay settings -/
example : ∀ ch, G4Ex.exFlatNoDelay.delayOf ch = .ok 0 := by
  apply delays_zero_of_specs
  intro ch
  left
  have h1 : keyOf ch "delay" ≠ "SR" := Sequence.g4_keyOf_ne_SR ch _
  have h2 : keyOf ch "delay" ≠ "channelA_filtercompensation" := by
    have : "channelA_filtercompensation" = keyOf (.str "A") "filtercompensation" := by decide
    rw [this]
    exact Sequence.g4_keyOf_delay_ne_filter _ _
  simp [G4Ex.exFlatNoDelay, Dict.get?, List.find?, h1.symm, h2.symm]

/-- ... on which both forges succeed -/
example : (G4Ex.exFlatNoDelay.forge true true false).toOption.isSome = true ∧
    (G4Ex.exFlatNoDelay.forge false true false).toOption.isSome = true := by
  constructor <;> decide +kernel

/-! ### the delayed waveform, evaluated -/

/-- helper (C10, whole-sample delays): rounding a whole number of samples is exact -/
theorem rhe_natCast (n : ℕ) : rhe (n : ℚ) = (n : ℤ) := by
  have := rhe_int (n : ℤ)
  simpa using this

/-- helper (C10, whole-sample delays): a delay of `D` whole samples at a positive rate is non-negative, and positive iff `D > 0` -/
theorem pos_of_whole (sr x : ℚ) (D : ℕ) (hsr : 0 < sr) (h : x * sr = D) : (0 < x ↔ 0 < D) ∧ 0 ≤ x := by
  have hD0 : (0 : ℚ) ≤ D := by exact_mod_cast Nat.zero_le D
  have hx0 : 0 ≤ x := by
    by_contra hn
    have : x * sr < 0 := mul_neg_of_neg_of_pos (not_le.mp hn) hsr
    linarith
  refine ⟨⟨fun hx => ?_, fun hD => ?_⟩, hx0⟩
  · have : 0 < x * sr := mul_pos hx hsr
    rw [h] at this
    exact_mod_cast this
  · by_contra hn
    have hx : x = 0 := le_antisymm (not_lt.mp hn) hx0
    rw [hx, zero_mul] at h
    have : (D : ℚ) = 0 := h.symm
    have : D = 0 := by exact_mod_cast this
    omega

/-- **the delayed waveform is `zeros(D) ++ original ++ zeros(M − D)`**: if the undelayed blueprint
    forges to `f` and its blocks evaluate to the samples `ys`, and delay and maximum delay are the
    whole sample counts `D ≤ M` (each padding absent or at least two samples), then the delayed
    blueprint forges, has `f.N + M` samples, and evaluates to `D` zeros, `ys`, `M − D` zeros -/
theorem delayed_waveform_eval (b : BP) (sr delay maxdelay : ℚ) (f : Forged) (ys : List ℚ) (D M : ℕ)
    (hsr : b.SR = .num sr) (hf : forgeBP b = .ok f) (hev : Sequence.Wave.eval? { blocks := f.blocks } = some ys)
    (hsr0 : 0 < sr) (hD : delay * sr = D) (hM : maxdelay * sr = M) (hle : D ≤ M)
    (hfront : D = 0 ∨ 2 ≤ D) (hback : M - D = 0 ∨ 2 ≤ M - D) :
    ∃ f', forgeBP (delayBP b delay maxdelay).st = .ok f' ∧ f'.N = f.N + M ∧ f'.SR = f.SR ∧
      Sequence.Wave.eval? { blocks := f'.blocks } =
        some (List.replicate D 0 ++ ys ++ List.replicate (M - D) 0) := by
  obtain ⟨sr', ds, ns, hsr', hd, hn, hb, rfl⟩ := (forge_ok_iff b f).mp hf
  rw [hsr] at hsr'
  cases hsr'
  have hl : ns.length = b.segs.length := by
    rw [countsGo_length sr ds ns hn]; exact resolveGo_length _ _ _ hd
  obtain ⟨hdpos, h0⟩ := pos_of_whole sr delay D hsr0 hD
  have hMD : (maxdelay - delay) * sr = ((M - D : ℕ) : ℚ) := by
    rw [sub_mul, hD, hM]; push_cast [Nat.cast_sub hle]; ring
  obtain ⟨hbpos, _⟩ := pos_of_whole sr (maxdelay - delay) (M - D) hsr0 hMD
  have e1 : rhe (delay * sr) = (D : ℤ) := by rw [hD]; exact rhe_natCast D
  have e2 : rhe ((maxdelay - delay) * sr) = ((M - D : ℕ) : ℤ) := by rw [hMD]; exact rhe_natCast _
  have hfr : 0 < delay → 2 ≤ rhe (delay * sr) := by
    intro hp
    have := hdpos.mp hp
    rw [e1]; omega
  have hbk : 0 < maxdelay - delay → 2 ≤ rhe ((maxdelay - delay) * sr) := by
    intro hp
    have := hbpos.mp hp
    rw [e2]; omega
  refine ⟨_, delayed_forge b sr delay maxdelay ds ns hsr hd hn hb h0 hfr hbk, ?_, rfl, ?_⟩
  · show sumN (delayedCounts sr delay maxdelay ns) = sumN ns + M
    exact delayed_length_whole sr delay maxdelay ns D M hsr0 hD hM hle
  · rw [delayed_blocks b sr delay maxdelay ns hl]
    -- the original blocks evaluate to `ys`
    simp only [Sequence.Wave.eval?, assemble] at hev
    cases hxs : (mkBlocks sr b.segs ns).mapM Blk.eval? with
    | none => rw [hxs] at hev; simp at hev
    | some xs =>
      rw [hxs] at hev
      simp only [Option.map_some, Option.some.injEq] at hev
      simp only [Sequence.Wave.eval?, List.mapM_append, eval_shifted_blocks, hxs, e1, e2, Int.toNat_natCast]
      have hA : (if 0 < delay then [Blk.call Fn.waitCallable [.num delay] sr D] else []).mapM Blk.eval? =
          some (if 0 < delay then [List.replicate D 0] else []) := by
        split
        · simp [List.mapM_cons, g4_eval_wait_block]
        · rfl
      have hC : (if 0 < maxdelay - delay then [Blk.call Fn.rampFn [.num 0, .num 0] sr (M - D)] else []).mapM Blk.eval? =
          some (if 0 < maxdelay - delay then [List.replicate (M - D) 0] else []) := by
        split
        · simp [List.mapM_cons, g4_eval_zero_ramp_block]
        · rfl
      rw [hA, hC]
      simp only [bind, Option.bind, pure, Option.map_some, Option.some.injEq, List.flatten_append, hev]
      congr 1
      · congr 1
        by_cases hp : 0 < delay
        · simp [hp]
        · have : D = 0 := by
            by_contra hne
            exact hp (hdpos.mpr (by omega))
          simp [hp, this]
      · by_cases hp : 0 < maxdelay - delay
        · simp [hp]
        · have : M - D = 0 := by
            by_contra hne
            exact hp (hbpos.mpr (by omega))
          simp [hp, this]

/-! ### end to end: one element through `forge`'s delay step and `getArrays` -/

/-- what a successful delay step knows: the delays handed to `_applyDelays` are the ones looked up
    per channel, none is negative, the element has a numeric sample rate -/
theorem delay_step_facts (s : Sequence) (e e' : Element) (ds : List ℚ) (hds : e.channels.mapM s.delayOf = .ok ds)
    (hde : s.delayElement e = .ok e') :
    (e.applyDelays ds).err = none ∧ (e.applyDelays ds).st = e' ∧ ∀ d ∈ ds, 0 ≤ d := by
  obtain ⟨ds', h1, h2, h3⟩ := Sequence.g4_delayElement_ok s e e' hde
  rw [hds] at h1
  cases h1
  refine ⟨h2, h3, ?_⟩
  unfold Element.applyDelays at h2
  split at h2
  · simp at h2
  · split at h2
    · simp at h2
    · rename_i hneg
      intro d hd
      by_contra hn
      apply hneg
      simp only [List.any_eq_true, decide_eq_true_eq]
      exact ⟨d, hd, not_le.mp hn⟩

/-- helper (C10): the sample rate `validateDurations` reads off a blueprint channel is the blueprint's -/
theorem chanSR_bp (ent : ChEntry) (b : BP) (h : ent.data = .bp b) : chanSR ent = .ok b.SR := by
  obtain ⟨d, fl⟩ := ent
  simp only at h
  subst h
  rfl

/-- **a blueprint channel, end to end**: after `forge`'s delay step (`delayElement`: the delays
    looked up by the element's own channel ids, handed to `_applyDelays`), channel `k` of
    `getArrays` — same channel id, same flags — holds the undelayed waveform moved later by exactly
    `D = delay·SR` samples: `D` zeros, the original samples, `M − D` zeros, where `M = maxdelay·SR`;
    its length is the original length plus `M` -/
theorem delayed_element_bp_channel (s : Sequence) (e e' : Element) (ds : List ℚ)
    (hds : e.channels.mapM s.delayOf = .ok ds) (hde : s.delayElement e = .ok e')
    (sr : ℚ) (hsr : e.getSR = .ok (.num sr)) (hsr0 : 0 < sr)
    (k : ℕ) (hk : k < e.chans.length) (hkd : k < ds.length) (b : BP) (hb : (e.chans[k]).2.data = .bp b)
    (f : Forged) (hf : forgeBP b = .ok f) (ys : List ℚ) (hev : Sequence.Wave.eval? { blocks := f.blocks } = some ys)
    (D M : ℕ) (hD : ds[k] * sr = D) (hM : maxR ds * sr = M)
    (hfront : D = 0 ∨ 2 ≤ D) (hback : M - D = 0 ∨ 2 ≤ M - D) (t : Bool) :
    ∃ f', f'.N = f.N + M ∧ f'.SR = f.SR ∧
      Sequence.Wave.eval? { blocks := f'.blocks } = some (List.replicate D 0 ++ ys ++ List.replicate (M - D) 0) ∧
      ∀ arr, e'.getArrays t = .ok arr → ∀ (h : k < arr.length),
        arr[k] = ((e.chans[k]).1, ChOut.forged f' (e.chans[k]).2.flags t) := by
  obtain ⟨herr, hst, hnn⟩ := delay_step_facts s e e' ds hds hde
  obtain ⟨m, sr', hv, hm, hlen, hl, hall⟩ := g4_applyDelays_getElem e ds herr
  have hsr' : sr' = sr := by
    unfold Element.getSR at hsr
    rw [hv] at hsr
    simp only [Except.map, Except.ok.injEq] at hsr
    rw [hm] at hsr
    cases hsr; rfl
  subst hsr'
  have hbsr : b.SR = .num sr' := by
    have := (g4_validate_SR e m hv).2 _ (List.getElem_mem hk)
    rw [chanSR_bp _ b hb, hm] at this
    exact Except.ok.inj this
  have hle : D ≤ M := by
    have h1 : ds[k] ≤ maxR ds := Paths.le_maxR ds _ (List.getElem_mem hkd)
    have : ds[k] * sr' ≤ maxR ds * sr' := mul_le_mul_of_nonneg_right h1 hsr0.le
    rw [hD, hM] at this
    exact_mod_cast this
  obtain ⟨f', hf', hN, hS, hE⟩ := delayed_waveform_eval b sr' ds[k] (maxR ds) f ys D M hbsr hf hev hsr0 hD hM hle hfront hback
  refine ⟨f', hN, hS, hE, fun arr harr h => ?_⟩
  subst hst
  obtain ⟨h1, h2⟩ := hall k hk (by omega) hkd
  obtain ⟨hla, hga⟩ := g4_getArrays_getElem _ t arr harr
  obtain ⟨g1, g2⟩ := hga k (by omega) h
  have hdat := (g4_dEnt_data _ _ _ _ _ h2).1 b hb
  have hfl := g4_dEnt_flags _ _ _ _ _ h2
  obtain ⟨_, _, o3, _⟩ := g4_chanOut_spec t _ _ g2
  obtain ⟨f'', hf'', ho⟩ := o3 _ hdat
  rw [hf'] at hf''
  cases hf''
  have : arr[k] = ((arr[k]).1, (arr[k]).2) := rfl
  rw [this, g1, h1, ho, hfl]

/-- helper (C10, raw-array clause): looking an array up in a padded raw-array channel gives the padded array -/
theorem get_padAll (pre post : ℕ) (a : Dict String (List ℚ)) (key : String) :
    Dict.get? (Paths.padAll pre post a) key = (Dict.get? a key).map (padArr pre post) := by
  unfold Paths.padAll
  induction a with
  | nil => rfl
  | cons x xs ih =>
    unfold Dict.get? at *
    simp only [List.map_cons, List.find?_cons]
    by_cases hk : x.1 = key
    · simp [hk]
    · simp only [hk, decide_false]
      exact ih

/-- **a raw-array channel, end to end**: after the delay step, channel `k` of `getArrays` — same
    channel id, same flags — holds, under every array name of the channel ('wfm' and the marker
    arrays alike), the stored array with `D = delay·SR` zeros in front and `M − D` zeros behind -/
theorem delayed_element_raw_channel (s : Sequence) (e e' : Element) (ds : List ℚ)
    (hds : e.channels.mapM s.delayOf = .ok ds) (hde : s.delayElement e = .ok e')
    (sr : ℚ) (hsr : e.getSR = .ok (.num sr)) (hsr0 : 0 < sr)
    (k : ℕ) (hk : k < e.chans.length) (hkd : k < ds.length) (a : Dict String (List ℚ)) (sv : Val)
    (ha : (e.chans[k]).2.data = .arr a sv)
    (D M : ℕ) (hD : ds[k] * sr = D) (hM : maxR ds * sr = M) (t : Bool) :
    D ≤ M ∧
    ∀ arr, e'.getArrays t = .ok arr → ∀ (h : k < arr.length), ∃ a' tm,
      arr[k] = ((e.chans[k]).1, ChOut.arrays a' (e.chans[k]).2.flags tm) ∧ Dict.keys a' = Dict.keys a ∧
      ∀ key, Dict.get? a' key = (Dict.get? a key).map (padArr D (M - D)) := by
  obtain ⟨herr, hst, hnn⟩ := delay_step_facts s e e' ds hds hde
  obtain ⟨m, sr', hv, hm, hlen, hl, hall⟩ := g4_applyDelays_getElem e ds herr
  have hsr' : sr' = sr := by
    unfold Element.getSR at hsr
    rw [hv] at hsr
    simp only [Except.map, Except.ok.injEq] at hsr
    rw [hm] at hsr
    cases hsr; rfl
  subst hsr'
  have hle : D ≤ M := by
    have h1 : ds[k] ≤ maxR ds := Paths.le_maxR ds _ (List.getElem_mem hkd)
    have : ds[k] * sr' ≤ maxR ds * sr' := mul_le_mul_of_nonneg_right h1 hsr0.le
    rw [hD, hM] at this
    exact_mod_cast this
  refine ⟨hle, fun arr harr h => ?_⟩
  subst hst
  obtain ⟨h1, h2⟩ := hall k hk (by omega) hkd
  obtain ⟨hla, hga⟩ := g4_getArrays_getElem _ t arr harr
  obtain ⟨g1, g2⟩ := hga k (by omega) h
  have hdat := (g4_dEnt_data _ _ _ _ _ h2).2.1 a sv ha
  have hfl := g4_dEnt_flags _ _ _ _ _ h2
  obtain ⟨_, _, _, o4, _⟩ := g4_chanOut_spec t _ _ g2
  obtain ⟨tm, ho⟩ := o4 _ _ hdat
  have e1 : rhe (ds[k] * sr') = (D : ℤ) := by rw [hD]; exact rhe_natCast D
  have hMD : (maxR ds - ds[k]) * sr' = ((M - D : ℕ) : ℚ) := by
    rw [sub_mul, hD, hM]; push_cast [Nat.cast_sub hle]; ring
  have e2 : rhe ((maxR ds - ds[k]) * sr') = ((M - D : ℕ) : ℤ) := by rw [hMD]; exact rhe_natCast _
  rw [e1, e2] at ho
  simp only [Int.toNat_natCast] at ho
  refine ⟨_, tm, ?_, Sequence.g4_keys_padAll _ _ _, fun key => get_padAll D (M - D) a key⟩
  have : arr[k] = ((arr[k]).1, (arr[k]).2) := rfl
  rw [this, g1, h1, ho, hfl]

/-- non-vacuity of the two end-to-end theorems: the example element (blueprint channel 1 delayed by
    2 samples, raw channel "A" not delayed) under the example sequence's settings -/
example : G4Ex.exEl.channels.mapM G4Ex.exSeq.delayOf = .ok [1/5, 0] ∧
    (G4Ex.exSeq.delayElement G4Ex.exEl).toOption.isSome = true ∧ G4Ex.exEl.getSR = .ok (.num 10) ∧
    ((1 : ℚ) / 5) * 10 = (2 : ℕ) ∧ maxR [1/5, 0] * 10 = (2 : ℕ) ∧
    (forgeBP G4Ex.exBP).toOption.bind (fun f => Sequence.Wave.eval? { blocks := f.blocks }) =
      some [0, 1/10, 2/10, 3/10, 4/10, 5/10, 6/10, 7/10, 8/10, 9/10] := by
  refine ⟨by decide +kernel, by decide +kernel, by decide +kernel, by norm_num, by decide +kernel, by decide +kernel⟩

/-- ... and what comes out: channel 1 = 2 zeros ++ ramp, channel "A" = 10 zeros ++ 2 zeros -/
example : ((G4Ex.exSeq.delayElement G4Ex.exEl).toOption.bind (fun e' => (e'.getArrays false).toOption)).map
      (fun arr => arr.map (fun x => (x.1, (Sequence.chWave ⟨x.2, none⟩).toOption.bind Sequence.Wave.eval?))) =
    some [(.int 1, some [0, 0, 0, 1/10, 2/10, 3/10, 4/10, 5/10, 6/10, 7/10, 8/10, 9/10]),
          (.str "A", some [0, 0, 0, 0, 0, 0, 0, 0, 0, 0, 0, 0])] := by
  decide +kernel

/-! ### markers of the delayed blueprint -/

/-- the number of samples inserted in front -/
def frontCount (sr delay : ℚ) : ℕ := if 0 < delay then (rhe (delay * sr)).toNat else 0

/-- helper (C10, marker clause): with a whole-sample delay the number of samples inserted in front is `D` -/
theorem frontCount_whole (sr delay : ℚ) (D : ℕ) (hsr : 0 < sr) (hD : delay * sr = D) : frontCount sr delay = D := by
  unfold frontCount
  have e1 : rhe (delay * sr) = (D : ℤ) := by rw [hD]; exact rhe_natCast D
  obtain ⟨hpos, _⟩ := pos_of_whole sr delay D hsr hD
  by_cases h0 : 0 < delay
  · simp [h0, e1]
  · simp only [h0, if_false]
    by_contra hne
    exact h0 (hpos.mpr (by omega))

/-- **segment-bound markers of the delayed blueprint**: the padding segments carry no marker, and
    every original segment — starting `frontCount` samples later — contributes its marker
    `frontCount/SR` later, with unchanged length -/
theorem delayed_segment_marks (sr delay maxdelay : ℚ) (sel : Seg → Mark)
    (hh : sel (delayHead delay) = (0, 0)) (ht : sel (delayTail (maxdelay - delay)) = (0, 0))
    (hs : ∀ s, sel (shiftWait delay s) = sel s) (segs : List Seg) (ns : List ℕ) (hl : ns.length = segs.length) :
    segMarks sr sel (delayedSegs segs delay maxdelay) (starts (delayedCounts sr delay maxdelay ns) 0) =
      (segMarks sr sel segs (starts ns 0)).map (fun m => (m.1 + ((frontCount sr delay : ℤ) : ℚ) / sr, m.2)) := by
  unfold delayedSegs delayedCounts
  rw [g4_starts_append, g4_starts_append]
  have hA : (starts (if 0 < delay then [(rhe (delay * sr)).toNat] else []) 0).length =
      (if 0 < delay then [delayHead delay] else []).length := by
    by_cases hp : 0 < delay <;> simp [hp, starts]
  have hB : (starts (if 0 < delay then [(rhe (delay * sr)).toNat] else []) 0 ++
      starts ns (0 + sumN (if 0 < delay then [(rhe (delay * sr)).toNat] else []))).length =
      ((if 0 < delay then [delayHead delay] else []) ++ segs.map (shiftWait delay)).length := by
    rw [List.length_append, List.length_append, hA, starts_length, List.length_map, hl]
  rw [g4_segMarks_append _ _ _ _ _ _ hB, g4_segMarks_append _ _ _ _ _ _ hA]
  have h1 : segMarks sr sel (if 0 < delay then [delayHead delay] else [])
      (starts (if 0 < delay then [(rhe (delay * sr)).toNat] else []) 0) = [] := by
    by_cases hp : 0 < delay
    · simp [hp, starts, segMarks, hh]
    · simp [hp, starts, segMarks]
  have h3 : ∀ acc, segMarks sr sel (if 0 < maxdelay - delay then [delayTail (maxdelay - delay)] else [])
      (starts (if 0 < maxdelay - delay then [(rhe ((maxdelay - delay) * sr)).toNat] else []) acc) = [] := by
    intro acc
    by_cases hp : 0 < maxdelay - delay
    · simp [hp, starts, segMarks, ht]
    · simp [hp, starts, segMarks]
  have hsum : sumN (if 0 < delay then [(rhe (delay * sr)).toNat] else []) = frontCount sr delay := by
    unfold frontCount
    by_cases hp : 0 < delay <;> simp [hp, sumN]
  rw [h1, h3, hsum, List.nil_append, List.append_nil, g4_starts_shift, g4_segMarks_shift sr delay sel hs,
    segment_markers_move]

/-- **the marker array of the delayed blueprint**, whole-sample delays: with `abs` the absolute-time
    markers and `sel` the segment-bound marker specification (marker 1 or 2), the delayed marker
    array (length `N + M`) is ON exactly on the *unmoved* windows of the absolute-time markers and
    on the windows of the segment-bound markers *moved by `D` samples* — provided every window lay
    on the undelayed waveform (`MarkInside`) -/
theorem delayed_marker_array (sr delay maxdelay : ℚ) (D M : ℕ) (hsr0 : 0 < sr) (hD : delay * sr = D)
    (hM : maxdelay * sr = M) (hle : D ≤ M) (abs : List Mark) (sel : Seg → Mark)
    (hh : sel (delayHead delay) = (0, 0)) (ht : sel (delayTail (maxdelay - delay)) = (0, 0))
    (hs : ∀ s, sel (shiftWait delay s) = sel s) (segs : List Seg) (ns : List ℕ) (hl : ns.length = segs.length)
    (hin : ∀ m ∈ abs ++ segMarks sr sel segs (starts ns 0), MarkInside (sumN ns) sr m) :
    paint (sumN (delayedCounts sr delay maxdelay ns))
        ((abs ++ segMarks sr sel (delayedSegs segs delay maxdelay) (starts (delayedCounts sr delay maxdelay ns) 0)).map
          (window (sumN (delayedCounts sr delay maxdelay ns)) sr)) =
      paint (sumN ns + M)
        (abs.map (window (sumN ns) sr) ++
          (segMarks sr sel segs (starts ns 0)).map
            (fun m => ((window (sumN ns) sr m).1 + D, (window (sumN ns) sr m).2 + D))) := by
  rw [delayed_length_whole sr delay maxdelay ns D M hsr0 hD hM hle,
    delayed_segment_marks sr delay maxdelay sel hh ht hs segs ns hl, frontCount_whole sr delay D hsr0 hD]
  congr 1
  rw [List.map_append, List.map_map]
  congr 1
  · apply List.map_congr_left
    intro m hm
    exact g4_window_longer _ _ _ _ (hin m (by simp [hm]))
  · apply List.map_congr_left
    intro m hm
    simp only [Function.comp]
    exact g4_window_shift _ _ _ _ hsr0.ne' m (hin m (by simp [hm])) hle

/-- **marker lift, at the public forger**: if the undelayed blueprint forges to `f` and all its
    marker windows lie on the waveform, then the delayed blueprint (whole-sample delays `D ≤ M`)
    forges to `f'` whose marker arrays have length `f.N + M` and, sample by sample:
    `f'.m1[k] = 1` iff `k` lies in the (unmoved) window of an absolute-time marker, or `k ≥ D` and
    `k − D` lies in the window of a segment-bound marker of the undelayed blueprint — i.e.
    segment-bound markers move with the waveform, absolute-time markers keep their absolute times.
    The same for marker 2. -/
theorem delayed_forge_markers (b : BP) (sr delay maxdelay : ℚ) (f : Forged) (D M : ℕ)
    (hsr : b.SR = .num sr) (hf : forgeBP b = .ok f) (hsr0 : 0 < sr) (hD : delay * sr = D) (hM : maxdelay * sr = M)
    (hle : D ≤ M) (hfront : D = 0 ∨ 2 ≤ D) (hback : M - D = 0 ∨ 2 ≤ M - D)
    (ns : List ℕ) (hns : ns = f.blocks.map Blk.len)
    (hin1 : ∀ m ∈ b.marker1 ++ segMarks sr (·.m1) b.segs (starts ns 0), MarkInside f.N sr m)
    (hin2 : ∀ m ∈ b.marker2 ++ segMarks sr (·.m2) b.segs (starts ns 0), MarkInside f.N sr m) :
    ∃ f', forgeBP (delayBP b delay maxdelay).st = .ok f' ∧ f'.m1.length = f.N + M ∧ f'.m2.length = f.N + M ∧
      (∀ k (hk : k < f'.m1.length), f'.m1[k] = 1 ↔
        (∃ m ∈ b.marker1, inWindow k (window f.N sr m) = true) ∨
        (∃ m ∈ segMarks sr (·.m1) b.segs (starts ns 0), D ≤ k ∧ inWindow (k - D) (window f.N sr m) = true)) ∧
      (∀ k (hk : k < f'.m2.length), f'.m2[k] = 1 ↔
        (∃ m ∈ b.marker2, inWindow k (window f.N sr m) = true) ∨
        (∃ m ∈ segMarks sr (·.m2) b.segs (starts ns 0), D ≤ k ∧ inWindow (k - D) (window f.N sr m) = true)) := by
  obtain ⟨sr', ds, ns', hsr', hd, hn, hb, rfl⟩ := (forge_ok_iff b f).mp hf
  rw [hsr] at hsr'
  cases hsr'
  have hl : ns'.length = b.segs.length := by
    rw [countsGo_length sr ds ns' hn]; exact resolveGo_length _ _ _ hd
  have hns' : ns = ns' := by
    rw [hns]; exact mkBlocks_lens sr b.segs ns' hl
  subst hns'
  have hN : (assemble b sr ns).N = sumN ns := rfl
  rw [hN] at hin1 hin2 ⊢
  obtain ⟨hdpos, h0⟩ := pos_of_whole sr delay D hsr0 hD
  have hMD : (maxdelay - delay) * sr = ((M - D : ℕ) : ℚ) := by
    rw [sub_mul, hD, hM]; push_cast [Nat.cast_sub hle]; ring
  obtain ⟨hbpos, _⟩ := pos_of_whole sr (maxdelay - delay) (M - D) hsr0 hMD
  have e1 : rhe (delay * sr) = (D : ℤ) := by rw [hD]; exact rhe_natCast D
  have e2 : rhe ((maxdelay - delay) * sr) = ((M - D : ℕ) : ℤ) := by rw [hMD]; exact rhe_natCast _
  have hfr : 0 < delay → 2 ≤ rhe (delay * sr) := by
    intro hp
    have := hdpos.mp hp
    rw [e1]; omega
  have hbk : 0 < maxdelay - delay → 2 ≤ rhe ((maxdelay - delay) * sr) := by
    intro hp
    have := hbpos.mp hp
    rw [e2]; omega
  have hF := delayed_forge b sr delay maxdelay ds ns hsr hd hn hb h0 hfr hbk
  have hm1 := delayed_marker_array sr delay maxdelay D M hsr0 hD hM hle b.marker1 (·.m1) rfl rfl
    (g4_shiftWait_m1 delay) b.segs ns hl hin1
  have hm2 := delayed_marker_array sr delay maxdelay D M hsr0 hD hM hle b.marker2 (·.m2) rfl rfl
    (g4_shiftWait_m2 delay) b.segs ns hl hin2
  have key : ∀ (abs : List Mark) (sel : Seg → Mark) (arr : List ℕ)
      (harr : arr = paint (sumN ns + M) (abs.map (window (sumN ns) sr) ++
        (segMarks sr sel b.segs (starts ns 0)).map
          (fun m => ((window (sumN ns) sr m).1 + D, (window (sumN ns) sr m).2 + D)))),
      arr.length = sumN ns + M ∧ ∀ k (hk : k < arr.length), arr[k] = 1 ↔
        (∃ m ∈ abs, inWindow k (window (sumN ns) sr m) = true) ∨
        (∃ m ∈ segMarks sr sel b.segs (starts ns 0), D ≤ k ∧ inWindow (k - D) (window (sumN ns) sr m) = true) := by
    intro abs sel arr harr
    subst harr
    refine ⟨paint_length _ _, fun k hk => ?_⟩
    rw [paint_on_iff]
    constructor
    · rintro ⟨w, hw, h1, h2⟩
      rcases List.mem_append.mp hw with hw | hw
      · obtain ⟨m, hm, rfl⟩ := List.mem_map.mp hw
        exact Or.inl ⟨m, hm, by simp [inWindow, h1, h2]⟩
      · obtain ⟨m, hm, rfl⟩ := List.mem_map.mp hw
        simp only at h1 h2
        refine Or.inr ⟨m, hm, by omega, ?_⟩
        simp only [inWindow, Bool.and_eq_true, decide_eq_true_eq]
        omega
    · rintro (⟨m, hm, hw⟩ | ⟨m, hm, hDk, hw⟩)
      · simp only [inWindow, Bool.and_eq_true, decide_eq_true_eq] at hw
        exact ⟨_, List.mem_append_left _ (List.mem_map.mpr ⟨m, hm, rfl⟩), hw.1, hw.2⟩
      · simp only [inWindow, Bool.and_eq_true, decide_eq_true_eq] at hw
        refine ⟨_, List.mem_append_right _ (List.mem_map.mpr ⟨m, hm, rfl⟩), ?_, ?_⟩
        · simp only; omega
        · simp only; omega
  obtain ⟨l1, k1⟩ := key b.marker1 (·.m1) _ hm1
  obtain ⟨l2, k2⟩ := key b.marker2 (·.m2) _ hm2
  exact ⟨_, hF, l1, l2, k1, k2⟩

/-! non-vacuity: a 10-sample ramp with a segment-bound marker 1 (0.1 s after the segment start,
    0.2 s long) and an absolute-time marker 1 at 0.6 s (0.2 s long), delayed by 2 of 4 samples -/
def exMarkBP : BP :=
  { segs := [ { name := "ramp", fn := Fn.rampFn, args := [.num 0, .num 1], dur := .num 1, m1 := (1/10, 1/5) } ],
    marker1 := [(3/5, 1/5)], SR := .num 10 }

/-- the hypotheses of `delayed_forge_markers` hold (`N = 10`, `D = 2`, `M = 4`) -/
example : (forgeBP exMarkBP).toOption.map (fun f => (f.N, f.blocks.map Blk.len)) = some (10, [10]) ∧
    ((1 : ℚ) / 5) * 10 = (2 : ℕ) ∧ ((2 : ℚ) / 5) * 10 = (4 : ℕ) ∧
    (∀ m ∈ exMarkBP.marker1 ++ segMarks 10 (·.m1) exMarkBP.segs (starts [10] 0), MarkInside 10 10 m) ∧
    (∀ m ∈ exMarkBP.marker2 ++ segMarks 10 (·.m2) exMarkBP.segs (starts [10] 0), MarkInside 10 10 m) := by
  refine ⟨by decide +kernel, by norm_num, by norm_num, by decide +kernel, by decide +kernel⟩

/-- undelayed: segment-bound marker ON at samples 1,2; absolute marker ON at samples 6,7.
    delayed: the segment-bound one has moved to 3,4; the absolute one is still at 6,7 -/
example : (forgeBP exMarkBP).toOption.map (·.m1) = some [0, 1, 1, 0, 0, 0, 1, 1, 0, 0] ∧
    (forgeBP (delayBP exMarkBP (1/5) (2/5)).st).toOption.map (·.m1) = some [0, 0, 0, 1, 1, 0, 1, 1, 0, 0, 0, 0, 0, 0] := by
  constructor <;> decide +kernel

/-- a padding of exactly one sample is refused by the forger (SegmentDurationError): delays of 2 and
    3 samples on two channels cannot be forged, although each is "0 or at least 2 samples" — hence
    the hypotheses `D = 0 ∨ 2 ≤ D` and `M − D = 0 ∨ 2 ≤ M − D` -/
example : forgeBP (delayBP exMarkBP (1/5) (3/10)).st = .error .segdur := by decide +kernel

/-- a window that does not lie on the undelayed waveform is not simply moved: a segment-bound marker
    reaching beyond the end is clipped at the end of the undelayed waveform, but extends into the
    zero padding of the delayed one (so `MarkInside` cannot be dropped) -/
example :
    (forgeBP { exMarkBP with segs := [ { name := "ramp", fn := Fn.rampFn, args := [.num 0, .num 1], dur := .num 1, m1 := (4/5, 1/2) } ],
                             marker1 := [] }).toOption.map (·.m1) = some [0, 0, 0, 0, 0, 0, 0, 0, 1, 1] ∧
    (forgeBP (delayBP { exMarkBP with segs := [ { name := "ramp", fn := Fn.rampFn, args := [.num 0, .num 1], dur := .num 1, m1 := (4/5, 1/2) } ],
                                      marker1 := [] } 0 (2/5)).st).toOption.map (·.m1) =
      some [0, 0, 0, 0, 0, 0, 0, 0, 1, 1, 1, 1, 1, 0] := by
  constructor <;> decide +kernel

/-! ### delays inside subsequences -/

/-- **the subsequence case of `forge`'s delay step**: for a stored subsequence, `_applyDelays` is
    applied to every one of its elements — each with the delays looked up (in the *parent's*
    settings) by that element's own channel ids — and nothing else changes: same positions in the
    same order, same sequencing table, same settings -/
theorem delayEntry_subsequence (s : Sequence) (sub : SubSeq) (en : Entry)
    (h : s.delayEntry true (.sub sub) = .ok en) :
    ∃ sub' : SubSeq, en = .sub sub' ∧ sub'.sequencing = sub.sequencing ∧ sub'.awgspecs = sub.awgspecs ∧
      sub'.data.length = sub.data.length ∧
      ∀ j (hj : j < sub.data.length) (hj' : j < sub'.data.length),
        (sub'.data[j]).1 = (sub.data[j]).1 ∧ s.delayElement (sub.data[j]).2 = .ok (sub'.data[j]).2 := by
  simp only [Sequence.delayEntry, if_true] at h
  cases hm : sub.data.mapM (fun pe => (s.delayElement pe.2).map (fun e' => (pe.1, e'))) with
  | error er => rw [hm] at h; simp [Except.map] at h
  | ok d' =>
    rw [hm] at h
    simp only [Except.map, Except.ok.injEq] at h
    subst h
    have hl := mapM_ok_length _ _ _ hm
    refine ⟨{ sub with data := d' }, rfl, rfl, rfl, hl, fun j hj hj' => ?_⟩
    have := mapM_ok_getElem _ _ _ hm j hj hj'
    cases hd : s.delayElement (sub.data[j]).2 with
    | error er => rw [hd] at this; simp [Except.map] at this
    | ok e' =>
      rw [hd] at this
      simp only [Except.map, Except.ok.injEq] at this
      rw [← this]
      exact ⟨rfl, rfl⟩

/-- ... and with delays disabled a subsequence (like an element) is left as it is -/
theorem delayEntry_off (s : Sequence) (en : Entry) : s.delayEntry false en = .ok en := by
  cases en <;> rfl

/-- non-vacuity: the delay step succeeds on the example's subsequence -/
example : (G4Ex.exSeq.delayEntry true (.sub G4Ex.exSub)).toOption.isSome = true := by decide +kernel

/-! ### the delayed channel as `forge` delivers it -/

/-- **`forge` with delays on, a blueprint channel at an element position**: the forged channel `k`
    of position `i+1` — whatever filters and time option — is the stored element's `k`-th channel
    (same id, same flags) and holds that channel's undelayed waveform moved later by exactly
    `D = delay·SR` samples (`D` zeros in front, `M − D` zeros behind, `M = maxdelay·SR`), where the
    delay is the one declared for *that channel's id* (`ds[k] = delayOf (e.chans[k]).1`) -/
theorem forge_delayed_bp_channel (s : Sequence) (fl t : Bool) (out : List (ℕ × ForgedPos))
    (h : s.forge true fl t = .ok out) (i : ℕ) (hi : i < out.length) (e : Element)
    (he : Dict.get? s.data ((i + 1 : ℕ) : ℤ) = some (.el e)) (ds : List ℚ) (hds : e.channels.mapM s.delayOf = .ok ds)
    (sr : ℚ) (hsr : e.getSR = .ok (.num sr)) (hsr0 : 0 < sr)
    (k : ℕ) (hk : k < e.chans.length) (hkd : k < ds.length) (b : BP) (hb : (e.chans[k]).2.data = .bp b)
    (f : Forged) (hf : forgeBP b = .ok f) (ys : List ℚ) (hev : Sequence.Wave.eval? { blocks := f.blocks } = some ys)
    (D M : ℕ) (hD : ds[k] * sr = D) (hM : maxR ds * sr = M)
    (hfront : D = 0 ∨ 2 ≤ D) (hback : M - D = 0 ∨ 2 ≤ M - D) :
    s.delayOf (e.chans[k]).1 = .ok ds[k] ∧
    ∃ c sq f', out[i] = (i + 1, { sequencing := sq, isSub := false, content := [(1, c, none)] }) ∧
      f'.N = f.N + M ∧
      Sequence.Wave.eval? { blocks := f'.blocks } = some (List.replicate D 0 ++ ys ++ List.replicate (M - D) 0) ∧
      ∃ (hc : k < c.length), (c[k]).1 = (e.chans[k]).1 ∧ (c[k]).2.out = ChOut.forged f' (e.chans[k]).2.flags t := by
  constructor
  · have := delays_by_channel_id s e ds hds k (by simpa [Element.channels, Dict.keys] using hk) hkd
    simpa [Element.channels, Dict.keys] using this
  obtain ⟨en, hen, hpos⟩ := (Sequence.forge_pos s true fl t out h).2 i hi
  rw [he] at hen
  cases hen
  obtain ⟨e', arr, c, sq, h1, h2, h3, _, h5⟩ := Sequence.forgePos_element s true fl t (i + 1) e _ hpos
  have hde : s.delayElement e = .ok e' := by simpa [Sequence.delayedEl] using h1
  obtain ⟨f', hN, _, hE, harr⟩ := delayed_element_bp_channel s e e' ds hds hde sr hsr hsr0 k hk hkd b hb f hf ys hev D M hD hM
    hfront hback t
  obtain ⟨hl3, hw⟩ := Sequence.g4_withFilters_getElem s fl arr c h3
  obtain ⟨hl1, _⟩ := Sequence.delayedEl_frame s e e' hde
  obtain ⟨hl2, _⟩ := g4_getArrays_getElem e' t arr h2
  have ka : k < arr.length := by omega
  have hc : k < c.length := by omega
  obtain ⟨w1, w2, _, _⟩ := hw k ka hc
  have := harr arr h2 ka
  refine ⟨c, sq, f', h5, hN, hE, hc, ?_, ?_⟩
  · rw [w1, this]
  · rw [w2, this]

/-- **... and a raw-array channel**: every array of the forged channel (waveform and markers) is the
    stored array with `D` zeros in front and `M − D` zeros behind -/
theorem forge_delayed_raw_channel (s : Sequence) (fl t : Bool) (out : List (ℕ × ForgedPos))
    (h : s.forge true fl t = .ok out) (i : ℕ) (hi : i < out.length) (e : Element)
    (he : Dict.get? s.data ((i + 1 : ℕ) : ℤ) = some (.el e)) (ds : List ℚ) (hds : e.channels.mapM s.delayOf = .ok ds)
    (sr : ℚ) (hsr : e.getSR = .ok (.num sr)) (hsr0 : 0 < sr)
    (k : ℕ) (hk : k < e.chans.length) (hkd : k < ds.length) (a : Dict String (List ℚ)) (sv : Val)
    (ha : (e.chans[k]).2.data = .arr a sv) (D M : ℕ) (hD : ds[k] * sr = D) (hM : maxR ds * sr = M) :
    ∃ c sq, out[i] = (i + 1, { sequencing := sq, isSub := false, content := [(1, c, none)] }) ∧
      ∃ (hc : k < c.length) (a' : Dict String (List ℚ)) (tm : Option (ℕ × ℚ)),
        (c[k]).1 = (e.chans[k]).1 ∧ (c[k]).2.out = ChOut.arrays a' (e.chans[k]).2.flags tm ∧
        Dict.keys a' = Dict.keys a ∧ ∀ key, Dict.get? a' key = (Dict.get? a key).map (padArr D (M - D)) := by
  obtain ⟨en, hen, hpos⟩ := (Sequence.forge_pos s true fl t out h).2 i hi
  rw [he] at hen
  cases hen
  obtain ⟨e', arr, c, sq, h1, h2, h3, _, h5⟩ := Sequence.forgePos_element s true fl t (i + 1) e _ hpos
  have hde : s.delayElement e = .ok e' := by simpa [Sequence.delayedEl] using h1
  obtain ⟨_, harr⟩ := delayed_element_raw_channel s e e' ds hds hde sr hsr hsr0 k hk hkd a sv ha D M hD hM t
  obtain ⟨hl3, hw⟩ := Sequence.g4_withFilters_getElem s fl arr c h3
  obtain ⟨hl1, _⟩ := Sequence.delayedEl_frame s e e' hde
  obtain ⟨hl2, _⟩ := g4_getArrays_getElem e' t arr h2
  have ka : k < arr.length := by omega
  have hc : k < c.length := by omega
  obtain ⟨w1, w2, _, _⟩ := hw k ka hc
  obtain ⟨a', tm, h6, h7, h8⟩ := harr arr h2 ka
  refine ⟨c, sq, h5, hc, a', tm, ?_, ?_, h7, h8⟩
  · rw [w1, h6]
  · rw [w2, h6]

/-- **inside a subsequence**: content entry `j` of a subsequence position is the subsequence's
    element `j+1` after the same delay step (delays looked up in the parent's settings by that
    element's own channel ids) — so `delayed_element_bp_channel` / `delayed_element_raw_channel`
    describe each of its channels -/
theorem forge_delayed_subsequence (s : Sequence) (fl t : Bool) (out : List (ℕ × ForgedPos))
    (h : s.forge true fl t = .ok out) (i : ℕ) (hi : i < out.length) (sub : SubSeq)
    (he : Dict.get? s.data ((i + 1 : ℕ) : ℤ) = some (.sub sub)) (j : ℕ) (hj : j < (out[i]).2.content.length) :
    ∃ e e' arr c q2, Dict.get? sub.data ((j + 1 : ℕ) : ℤ) = some e ∧ s.delayElement e = .ok e' ∧
      e'.getArrays t = .ok arr ∧ (out[i]).2.content[j] = (j + 1, c, some q2) ∧ c.length = arr.length ∧
      ∀ k (hk : k < arr.length) (hc : k < c.length), (c[k]).1 = (arr[k]).1 ∧ (c[k]).2.out = (arr[k]).2 := by
  obtain ⟨en, hen, hpos⟩ := (Sequence.forge_pos s true fl t out h).2 i hi
  rw [he] at hen
  cases hen
  obtain ⟨_, _, _, _, _, _, hall⟩ := Sequence.forgePos_sub s true fl t (i + 1) sub _ hpos
  obtain ⟨e, e', arr, c, q2, hge, h1, h2, h3, _, hcj⟩ := hall j hj
  have hde : s.delayElement e = .ok e' := by simpa [Sequence.delayedEl] using h1
  obtain ⟨hl3, hw⟩ := Sequence.g4_withFilters_getElem s fl arr c h3
  exact ⟨e, e', arr, c, q2, hge, hde, h2, hcj, hl3, fun k hk hc => ⟨(hw k hk hc).1, (hw k hk hc).2.1⟩⟩

/-- non-vacuity of the three `forge_delayed_*` theorems: the example sequence forges with delays on,
    holds the example element at position 1 (blueprint channel index 0, raw channel index 1) and
    the example subsequence at position 2; the delays, sample rate and the undelayed waveform are
    those of the example after `delayed_element_raw_channel` -/
example : (G4Ex.exSeq.forge true true false).toOption.isSome = true ∧
    Dict.get? G4Ex.exSeq.data ((0 + 1 : ℕ) : ℤ) = some (.el G4Ex.exEl) ∧
    Dict.get? G4Ex.exSeq.data ((1 + 1 : ℕ) : ℤ) = some (.sub G4Ex.exSub) ∧
    (G4Ex.exEl.chans[0]'(by decide)).2.data = .bp G4Ex.exBP ∧
    (G4Ex.exEl.chans[1]'(by decide)).2.data = .arr [("wfm", List.replicate 10 0)] (.num 10) := by
  refine ⟨by decide +kernel, rfl, rfl, rfl, rfl⟩

/-- a caveat on "each delay is applied to the channel it was set for": the settings key is built
    from the *printed* channel id (`f"channel{chan}_delay"`), so the int channel `1` and the string
    channel `"1"` share one delay (and one filter, amplitude, offset) setting -/
example : keyOf (.int 1) "delay" = keyOf (.str "1") "delay" ∧ (Chan.int 1 ≠ Chan.str "1") := by
  constructor <;> decide

/-! ### "no channel id twice" is a reachable invariant -/

/-- **`Dict.WF` is an invariant of element construction**: whatever the public element API builds
    (`Element.ApiBuilt`: the empty element closed under `addBluePrint`, `addArray`, `addFlags`,
    `changeArg`, `changeDuration`, `validateDurations`, `_applyDelays`, `copy` — accepted or refused
    calls alike) lists no channel id twice -/
theorem built_element_wf (e : Element) (h : Element.ApiBuilt e) : Dict.WF e.chans := h.wf

/-- ... and so does every element stored in a sequence the public sequence API builds
    (`Sequence.ApiBuilt`: the empty sequence closed under `addElement` of built elements,
    `addSubSequence`, all settings and sequencing setters, `copy` and `+`) -/
theorem built_sequence_wf (s : Sequence) (h : Sequence.ApiBuilt s) (p : ℤ) (e : Element)
    (hg : Dict.get? s.data p = some (.el e)) : Dict.WF e.chans := h.elemsWF.get p e hg

/-- `element_delay_paths_agree` without the well-formedness hypothesis, for built elements -/
theorem element_delay_paths_agree_built (s : Sequence) (e e' e'' : Element) (chans : List Chan) (delays : List ℚ)
    (srv : Val) (t : Bool) (hb : Element.ApiBuilt e) (hperm : chans.Perm e.channels)
    (h1 : s.delayElement e = .ok e') (hd : chans.mapM s.delayOf = .ok delays)
    (hsr : e.getSR = .ok srv) (h2 : Sequence.prepDelayElement srv e chans delays = .ok e'') :
    e'.getArrays t = e''.getArrays t :=
  element_delay_paths_agree s e e' e'' chans delays srv t hb.wf hperm h1 hd hsr h2

/-- **the output path equals forge, for every sequence the public API builds** (no hypothesis on
    the channel stores): whenever both succeed, `_prepareForOutputting` — the common front end of
    `outputForAWGFile` and `outputForSEQXFile` — delivers at every position exactly the per-channel
    arrays of `forge(apply_delays=True, apply_filters=True)` -/
theorem output_path_equals_forge_built (s : Sequence) (hs : Sequence.ApiBuilt s) (F : List (ℕ × ForgedPos))
    (P : List (Dict Chan ChOutF)) (hF : s.forge true true false = .ok F) (hP : s.prepareForOutputting = .ok P) :
    P.length = F.length ∧
    ∀ i (h1 : i < F.length) (h2 : i < P.length), ∃ sq, Dict.get? s.sequencing ((i + 1 : ℕ) : ℤ) = some sq ∧
      F[i] = (i + 1, { sequencing := sq, isSub := false, content := [(1, P[i], none)] }) :=
  output_path_equals_forge s F P hF hP (fun p e h => hs.elemsWF.get p e h)

/-! non-vacuity: an element and a sequence built through the public API, with a delay on channel 1 -/

def exBuiltEl : Element :=
  ((({} : Element).addBluePrint (.int 1) G4Ex.exBP).st.addArray (.str "A") (List.replicate 10 0) (.num 10) []).st

/-- non-vacuity (C10, reachable invariant): the example element is built through the public API -/
theorem exBuiltEl_built : Element.ApiBuilt exBuiltEl := .addArray _ _ _ _ _ (.addBluePrint _ _ _ .empty)

def exBuilt0 : Sequence := SeqCore.setSR {} (.num 10)
def exBuilt1 : Sequence := (Sequence.addElement exBuilt0 1 exBuiltEl).st
def exBuilt2 : Sequence := (Sequence.addElement exBuilt1 2 exBuiltEl).st
def exBuilt3 : Sequence := SeqCore.setChannelDelay exBuilt2 (.int 1) (.num (1/5))
def exBuilt4 : Sequence := SeqCore.setChannelAmplitude exBuilt3 (.int 1) (.num 2)
def exBuiltSeq : Sequence := SeqCore.setChannelAmplitude exBuilt4 (.str "A") (.num 2)

/-- non-vacuity (C10, reachable invariant): the example sequence is built through the public API -/
theorem exBuiltSeq_built : Sequence.ApiBuilt exBuiltSeq :=
  .setSpec _ _ _ (.setSpec _ _ _ (.setSpec _ _ _
    (.addElement _ _ _ (.addElement _ _ _ (.setSpec _ _ _ .empty) exBuiltEl_built) exBuiltEl_built)))

/-- both paths succeed on it (so `output_path_equals_forge_built` applies) -/
example : (exBuiltSeq.forge true true false).toOption.isSome = true ∧ exBuiltSeq.prepareForOutputting.toOption.isSome = true := by
  constructor <;> decide +kernel

/-! ## G11 additions: the marker lift through `Sequence.forge`, delays disabled -/

/-- **what "the markers of the delayed channel" means** (the conclusion of `delayed_forge_markers`,
    named so that it can be stated at every level): `f` is the undelayed forged channel of
    blueprint `b`, `f'` the delayed one; both marker arrays of `f'` have `f.N + M` samples, and
    sample `k` is ON iff `k` lies in the *unmoved* window of an absolute-time marker, or `k ≥ D`
    and `k − D` lies in the window of a segment-bound marker of the undelayed blueprint
    (the window *moved by `D` samples*). -/
def DelayedMarkers (b : BP) (sr : ℚ) (f f' : Forged) (D M : ℕ) : Prop :=
  f'.m1.length = f.N + M ∧ f'.m2.length = f.N + M ∧
  (∀ k (hk : k < f'.m1.length), f'.m1[k] = 1 ↔
    (∃ m ∈ b.marker1, inWindow k (window f.N sr m) = true) ∨
    (∃ m ∈ segMarks sr (·.m1) b.segs (starts (f.blocks.map Blk.len) 0),
      D ≤ k ∧ inWindow (k - D) (window f.N sr m) = true)) ∧
  (∀ k (hk : k < f'.m2.length), f'.m2[k] = 1 ↔
    (∃ m ∈ b.marker2, inWindow k (window f.N sr m) = true) ∨
    (∃ m ∈ segMarks sr (·.m2) b.segs (starts (f.blocks.map Blk.len) 0),
      D ≤ k ∧ inWindow (k - D) (window f.N sr m) = true))

/-- all marker windows of the undelayed channel lie on the undelayed waveform (hypothesis of the
    marker lift, see the counterexample after `delayed_forge_markers`) -/
def MarkersInside (b : BP) (sr : ℚ) (f : Forged) : Prop :=
  (∀ m ∈ b.marker1 ++ segMarks sr (·.m1) b.segs (starts (f.blocks.map Blk.len) 0), MarkInside f.N sr m) ∧
  (∀ m ∈ b.marker2 ++ segMarks sr (·.m2) b.segs (starts (f.blocks.map Blk.len) 0), MarkInside f.N sr m)

/-- `delayed_forge_markers` in terms of `DelayedMarkers` -/
theorem delayed_forge_markers_named (b : BP) (sr delay maxdelay : ℚ) (f : Forged) (D M : ℕ)
    (hsr : b.SR = .num sr) (hf : forgeBP b = .ok f) (hsr0 : 0 < sr) (hD : delay * sr = D) (hM : maxdelay * sr = M)
    (hle : D ≤ M) (hfront : D = 0 ∨ 2 ≤ D) (hback : M - D = 0 ∨ 2 ≤ M - D) (hin : MarkersInside b sr f) :
    ∃ f', forgeBP (delayBP b delay maxdelay).st = .ok f' ∧ DelayedMarkers b sr f f' D M :=
  delayed_forge_markers b sr delay maxdelay f D M hsr hf hsr0 hD hM hle hfront hback _ rfl hin.1 hin.2

/-- **a blueprint channel through `forge`'s delay step, identified**: after `delayElement`, channel
    `k` of `getArrays` - same channel id, same flags - is the forged *delayed blueprint*
    `delayBP b ds[k] (max ds)` with `ds[k]` the delay declared for that channel's id. -/
theorem delayed_element_bp_forged (s : Sequence) (e e' : Element) (ds : List ℚ)
    (hds : e.channels.mapM s.delayOf = .ok ds) (hde : s.delayElement e = .ok e')
    (k : ℕ) (hk : k < e.chans.length) (hkd : k < ds.length) (b : BP) (hb : (e.chans[k]).2.data = .bp b)
    (t : Bool) (arr : Dict Chan ChOut) (harr : e'.getArrays t = .ok arr) (h : k < arr.length) :
    ∃ f', forgeBP (delayBP b ds[k] (maxR ds)).st = .ok f' ∧
      arr[k] = ((e.chans[k]).1, ChOut.forged f' (e.chans[k]).2.flags t) := by
  obtain ⟨herr, hst, _⟩ := delay_step_facts s e e' ds hds hde
  obtain ⟨m, sr', _, _, hlen, hl, hall⟩ := g4_applyDelays_getElem e ds herr
  subst hst
  obtain ⟨h1, h2⟩ := hall k hk (by omega) hkd
  obtain ⟨hla, hga⟩ := g4_getArrays_getElem _ t arr harr
  obtain ⟨g1, g2⟩ := hga k (by omega) h
  have hdat := (g4_dEnt_data _ _ _ _ _ h2).1 b hb
  have hfl := g4_dEnt_flags _ _ _ _ _ h2
  obtain ⟨_, _, o3, _⟩ := g4_chanOut_spec t _ _ g2
  obtain ⟨f', hf', ho⟩ := o3 _ hdat
  refine ⟨f', hf', ?_⟩
  have : arr[k] = ((arr[k]).1, (arr[k]).2) := rfl
  rw [this, g1, h1, ho, hfl]

/-- the sample rate of a blueprint channel of a validated element is the element's -/
theorem bp_channel_SR (e : Element) (sr : ℚ) (hsr : e.getSR = .ok (.num sr)) (k : ℕ) (hk : k < e.chans.length)
    (b : BP) (hb : (e.chans[k]).2.data = .bp b) : b.SR = .num sr := by
  unfold Element.getSR at hsr
  cases hv : e.validate with
  | error er => rw [hv] at hsr; simp [Except.map] at hsr
  | ok m =>
    rw [hv] at hsr
    simp only [Except.map, Except.ok.injEq] at hsr
    have := (g4_validate_SR e m hv).2 _ (List.getElem_mem hk)
    rw [chanSR_bp _ b hb, hsr] at this
    exact Except.ok.inj this

/-- `D ≤ M` for the whole-sample delay of one channel and the maximum delay -/
theorem whole_delay_le (ds : List ℚ) (sr : ℚ) (hsr0 : 0 < sr) (k : ℕ) (hkd : k < ds.length) (D M : ℕ)
    (hD : ds[k] * sr = D) (hM : maxR ds * sr = M) : D ≤ M := by
  have h1 : ds[k] ≤ maxR ds := Paths.le_maxR ds _ (List.getElem_mem hkd)
  have : ds[k] * sr ≤ maxR ds * sr := mul_le_mul_of_nonneg_right h1 hsr0.le
  rw [hD, hM] at this
  exact_mod_cast this

/-- **the marker lift, one element through the delay step**: for a blueprint channel `k` of an
    element whose delay step succeeds (whole-sample delays `D = ds[k]·SR ≤ M = max(ds)·SR`, every
    padding absent or at least two samples, all marker windows on the undelayed waveform), channel
    `k` of the delayed element's `getArrays` is a forged channel `f'` - same id, same flags - whose
    m1/m2 are ON exactly on the absolute-time windows *unmoved* and the segment-bound windows
    *moved by `D`* (`DelayedMarkers`). -/
theorem delayed_element_bp_markers (s : Sequence) (e e' : Element) (ds : List ℚ)
    (hds : e.channels.mapM s.delayOf = .ok ds) (hde : s.delayElement e = .ok e')
    (sr : ℚ) (hsr : e.getSR = .ok (.num sr)) (hsr0 : 0 < sr)
    (k : ℕ) (hk : k < e.chans.length) (hkd : k < ds.length) (b : BP) (hb : (e.chans[k]).2.data = .bp b)
    (f : Forged) (hf : forgeBP b = .ok f) (D M : ℕ) (hD : ds[k] * sr = D) (hM : maxR ds * sr = M)
    (hfront : D = 0 ∨ 2 ≤ D) (hback : M - D = 0 ∨ 2 ≤ M - D) (hin : MarkersInside b sr f)
    (t : Bool) (arr : Dict Chan ChOut) (harr : e'.getArrays t = .ok arr) (h : k < arr.length) :
    ∃ f', arr[k] = ((e.chans[k]).1, ChOut.forged f' (e.chans[k]).2.flags t) ∧ DelayedMarkers b sr f f' D M := by
  obtain ⟨f', hf', ha⟩ := delayed_element_bp_forged s e e' ds hds hde k hk hkd b hb t arr harr h
  obtain ⟨f'', hf'', hm⟩ := delayed_forge_markers_named b sr ds[k] (maxR ds) f D M
    (bp_channel_SR e sr hsr k hk b hb) hf hsr0 hD hM (whole_delay_le ds sr hsr0 k hkd D M hD hM) hfront hback hin
  rw [hf'] at hf''
  cases hf''
  exact ⟨f', ha, hm⟩

/-- **the marker lift through `Sequence.forge`, element position**: in `forge(apply_delays=True)`
    the forged channel `k` of element position `i+1` - the stored element's `k`-th channel, same id
    and flags, whatever filters and time option - is a forged blueprint channel `f'` with m1/m2 =
    absolute-time windows unmoved ∪ segment-bound windows moved by `D = delay·SR`
    (`DelayedMarkers`), and `chMarker` (what both output methods read) delivers exactly those
    arrays. -/
theorem forge_delayed_bp_markers (s : Sequence) (fl t : Bool) (out : List (ℕ × ForgedPos))
    (h : s.forge true fl t = .ok out) (i : ℕ) (hi : i < out.length) (e : Element)
    (he : Dict.get? s.data ((i + 1 : ℕ) : ℤ) = some (.el e)) (ds : List ℚ) (hds : e.channels.mapM s.delayOf = .ok ds)
    (sr : ℚ) (hsr : e.getSR = .ok (.num sr)) (hsr0 : 0 < sr)
    (k : ℕ) (hk : k < e.chans.length) (hkd : k < ds.length) (b : BP) (hb : (e.chans[k]).2.data = .bp b)
    (f : Forged) (hf : forgeBP b = .ok f) (D M : ℕ) (hD : ds[k] * sr = D) (hM : maxR ds * sr = M)
    (hfront : D = 0 ∨ 2 ≤ D) (hback : M - D = 0 ∨ 2 ≤ M - D) (hin : MarkersInside b sr f) :
    ∃ c sq f', out[i] = (i + 1, { sequencing := sq, isSub := false, content := [(1, c, none)] }) ∧
      DelayedMarkers b sr f f' D M ∧
      ∃ (hc : k < c.length), (c[k]).1 = (e.chans[k]).1 ∧ (c[k]).2.out = ChOut.forged f' (e.chans[k]).2.flags t ∧
        Sequence.chMarker (c[k]).2 1 = .ok (f'.m1.map (fun (n : ℕ) => ((n : ℤ) : ℚ))) ∧
        Sequence.chMarker (c[k]).2 2 = .ok (f'.m2.map (fun (n : ℕ) => ((n : ℤ) : ℚ))) := by
  obtain ⟨en, hen, hpos⟩ := (Sequence.forge_pos s true fl t out h).2 i hi
  rw [he] at hen
  cases hen
  obtain ⟨e', arr, c, sq, h1, h2, h3, _, h5⟩ := Sequence.forgePos_element s true fl t (i + 1) e _ hpos
  have hde : s.delayElement e = .ok e' := by simpa [Sequence.delayedEl] using h1
  obtain ⟨hl3, hw⟩ := Sequence.g4_withFilters_getElem s fl arr c h3
  obtain ⟨hl1, _⟩ := Sequence.delayedEl_frame s e e' hde
  obtain ⟨hl2, _⟩ := g4_getArrays_getElem e' t arr h2
  have ka : k < arr.length := by omega
  have hc : k < c.length := by omega
  obtain ⟨f', ha, hm⟩ := delayed_element_bp_markers s e e' ds hds hde sr hsr hsr0 k hk hkd b hb f hf D M hD hM
    hfront hback hin t arr h2 ka
  obtain ⟨w1, w2, _, _⟩ := hw k ka hc
  have ho : (c[k]).2.out = ChOut.forged f' (e.chans[k]).2.flags t := by rw [w2, ha]
  refine ⟨c, sq, f', h5, hm, hc, by rw [w1, ha], ho, ?_, ?_⟩
  · simp [Sequence.chMarker, ho]
  · simp [Sequence.chMarker, ho]

/-- **the marker lift through `Sequence.forge`, inside a subsequence**: content entry `j` of a
    subsequence position holds, for blueprint channel `k` of the subsequence's element `j+1`
    (delays looked up in the *parent's* settings by that element's own channel ids), a forged
    channel whose m1/m2 are again the absolute-time windows unmoved ∪ the segment-bound windows
    moved by `D`. -/
theorem forge_delayed_subsequence_bp_markers (s : Sequence) (fl t : Bool) (out : List (ℕ × ForgedPos))
    (h : s.forge true fl t = .ok out) (i : ℕ) (hi : i < out.length) (sub : SubSeq)
    (he : Dict.get? s.data ((i + 1 : ℕ) : ℤ) = some (.sub sub)) (j : ℕ) (hj : j < (out[i]).2.content.length)
    (e : Element) (hge : Dict.get? sub.data ((j + 1 : ℕ) : ℤ) = some e)
    (ds : List ℚ) (hds : e.channels.mapM s.delayOf = .ok ds)
    (sr : ℚ) (hsr : e.getSR = .ok (.num sr)) (hsr0 : 0 < sr)
    (k : ℕ) (hk : k < e.chans.length) (hkd : k < ds.length) (b : BP) (hb : (e.chans[k]).2.data = .bp b)
    (f : Forged) (hf : forgeBP b = .ok f) (D M : ℕ) (hD : ds[k] * sr = D) (hM : maxR ds * sr = M)
    (hfront : D = 0 ∨ 2 ≤ D) (hback : M - D = 0 ∨ 2 ≤ M - D) (hin : MarkersInside b sr f) :
    ∃ c q2 f', (out[i]).2.content[j] = (j + 1, c, some q2) ∧ DelayedMarkers b sr f f' D M ∧
      ∃ (hc : k < c.length), (c[k]).1 = (e.chans[k]).1 ∧ (c[k]).2.out = ChOut.forged f' (e.chans[k]).2.flags t ∧
        Sequence.chMarker (c[k]).2 1 = .ok (f'.m1.map (fun (n : ℕ) => ((n : ℤ) : ℚ))) ∧
        Sequence.chMarker (c[k]).2 2 = .ok (f'.m2.map (fun (n : ℕ) => ((n : ℤ) : ℚ))) := by
  obtain ⟨e0, e', arr, c, q2, hge0, hde, h2, hcj, hl3, hw⟩ := forge_delayed_subsequence s fl t out h i hi sub he j hj
  rw [hge] at hge0
  cases hge0
  obtain ⟨hl1, _⟩ := Sequence.delayedEl_frame s e e' hde
  obtain ⟨hl2, _⟩ := g4_getArrays_getElem e' t arr h2
  have ka : k < arr.length := by omega
  have hc : k < c.length := by omega
  obtain ⟨f', ha, hm⟩ := delayed_element_bp_markers s e e' ds hds hde sr hsr hsr0 k hk hkd b hb f hf D M hD hM
    hfront hback hin t arr h2 ka
  obtain ⟨w1, w2⟩ := hw k ka hc
  have ho : (c[k]).2.out = ChOut.forged f' (e.chans[k]).2.flags t := by rw [w2, ha]
  refine ⟨c, q2, f', hcj, hm, hc, by rw [w1, ha], ho, ?_, ?_⟩
  · simp [Sequence.chMarker, ho]
  · simp [Sequence.chMarker, ho]

/-- what `chMarker` reads from a padded raw-array channel -/
theorem chMarker_padded (c : ChOutF) (a a' : Dict String (List ℚ)) (flg : Option (List ℕ)) (tm : Option (ℕ × ℚ))
    (pre post : ℕ) (ho : c.out = ChOut.arrays a' flg tm)
    (hget : ∀ key, Dict.get? a' key = (Dict.get? a key).map (padArr pre post)) (w : ℕ) (xs : List ℚ)
    (hx : Dict.get? a (if w = 1 then "m1" else "m2") = some xs) :
    Sequence.chMarker c w = .ok (padArr pre post xs) := by
  simp only [Sequence.chMarker, ho, hget, hx, Option.map_some]

/-- **raw-array markers through `Sequence.forge`, element position**: for a raw-array channel `k`
    of element position `i+1`, the marker arrays the output methods read (`chMarker`, arrays 'm1'
    and 'm2') are the *stored* marker arrays padded by `D = delay·SR` zeros in front and `M − D`
    zeros behind - exactly like the waveform ('wfm'), so raw-array markers move with the waveform. -/
theorem forge_delayed_raw_markers (s : Sequence) (fl t : Bool) (out : List (ℕ × ForgedPos))
    (h : s.forge true fl t = .ok out) (i : ℕ) (hi : i < out.length) (e : Element)
    (he : Dict.get? s.data ((i + 1 : ℕ) : ℤ) = some (.el e)) (ds : List ℚ) (hds : e.channels.mapM s.delayOf = .ok ds)
    (sr : ℚ) (hsr : e.getSR = .ok (.num sr)) (hsr0 : 0 < sr)
    (k : ℕ) (hk : k < e.chans.length) (hkd : k < ds.length) (a : Dict String (List ℚ)) (sv : Val)
    (ha : (e.chans[k]).2.data = .arr a sv) (D M : ℕ) (hD : ds[k] * sr = D) (hM : maxR ds * sr = M) :
    ∃ c sq, out[i] = (i + 1, { sequencing := sq, isSub := false, content := [(1, c, none)] }) ∧
      ∃ (hc : k < c.length), (c[k]).1 = (e.chans[k]).1 ∧
        (∀ w xs, Dict.get? a (if w = 1 then "m1" else "m2") = some xs →
          Sequence.chMarker (c[k]).2 w = .ok (padArr D (M - D) xs)) ∧
        (∀ xs, Dict.get? a "wfm" = some xs →
          (Sequence.chWave (c[k]).2).map (·.blocks) = .ok [Blk.raw (padArr D (M - D) xs)]) := by
  obtain ⟨c, sq, h5, hc, a', tm, h6, h7, _, h9⟩ := forge_delayed_raw_channel s fl t out h i hi e he ds hds sr hsr hsr0
    k hk hkd a sv ha D M hD hM
  refine ⟨c, sq, h5, hc, h6, fun w xs hx => chMarker_padded _ a a' _ tm D (M - D) h7 h9 w xs hx, fun xs hx => ?_⟩
  simp only [Sequence.chWave, h7, h9, hx, Option.map_some, Except.map]

/-- **raw-array channels inside a subsequence**: content entry `j` of a subsequence position holds,
    for raw-array channel `k` of the subsequence's element `j+1`, every stored array (waveform and
    markers) padded by `D` zeros in front and `M − D` behind; `chMarker` reads the padded marker
    arrays. -/
theorem forge_delayed_subsequence_raw_markers (s : Sequence) (fl t : Bool) (out : List (ℕ × ForgedPos))
    (h : s.forge true fl t = .ok out) (i : ℕ) (hi : i < out.length) (sub : SubSeq)
    (he : Dict.get? s.data ((i + 1 : ℕ) : ℤ) = some (.sub sub)) (j : ℕ) (hj : j < (out[i]).2.content.length)
    (e : Element) (hge : Dict.get? sub.data ((j + 1 : ℕ) : ℤ) = some e)
    (ds : List ℚ) (hds : e.channels.mapM s.delayOf = .ok ds)
    (sr : ℚ) (hsr : e.getSR = .ok (.num sr)) (hsr0 : 0 < sr)
    (k : ℕ) (hk : k < e.chans.length) (hkd : k < ds.length) (a : Dict String (List ℚ)) (sv : Val)
    (ha : (e.chans[k]).2.data = .arr a sv) (D M : ℕ) (hD : ds[k] * sr = D) (hM : maxR ds * sr = M) :
    ∃ c q2, (out[i]).2.content[j] = (j + 1, c, some q2) ∧
      ∃ (hc : k < c.length) (a' : Dict String (List ℚ)) (tm : Option (ℕ × ℚ)),
        (c[k]).1 = (e.chans[k]).1 ∧ (c[k]).2.out = ChOut.arrays a' (e.chans[k]).2.flags tm ∧
        Dict.keys a' = Dict.keys a ∧ (∀ key, Dict.get? a' key = (Dict.get? a key).map (padArr D (M - D))) ∧
        (∀ w xs, Dict.get? a (if w = 1 then "m1" else "m2") = some xs →
          Sequence.chMarker (c[k]).2 w = .ok (padArr D (M - D) xs)) := by
  obtain ⟨e0, e', arr, c, q2, hge0, hde, h2, hcj, hl3, hw⟩ := forge_delayed_subsequence s fl t out h i hi sub he j hj
  rw [hge] at hge0
  cases hge0
  obtain ⟨hl1, _⟩ := Sequence.delayedEl_frame s e e' hde
  obtain ⟨hl2, _⟩ := g4_getArrays_getElem e' t arr h2
  have ka : k < arr.length := by omega
  have hc : k < c.length := by omega
  obtain ⟨_, harr⟩ := delayed_element_raw_channel s e e' ds hds hde sr hsr hsr0 k hk hkd a sv ha D M hD hM t
  obtain ⟨a', tm, h6, h7, h8⟩ := harr arr h2 ka
  obtain ⟨w1, w2⟩ := hw k ka hc
  have ho : (c[k]).2.out = ChOut.arrays a' (e.chans[k]).2.flags tm := by rw [w2, h6]
  exact ⟨c, q2, hcj, hc, a', tm, by rw [w1, h6], ho, h7, h8,
    fun w xs hx => chMarker_padded _ a a' _ tm D (M - D) ho h8 w xs hx⟩

/-! ### delays disabled: the output is the undelayed one -/

/-- **with delays disabled, an element position of `forge` is the stored element's own
    `getArrays`**: `forge(apply_delays=False, f, t)` delivers at element position `i+1` one content
    entry whose channels are - id by id, in order - exactly the arrays `e.getArrays t` of the
    *stored, undelayed* element (only the filter annotation is attached beside them). -/
theorem forge_undelayed_element (s : Sequence) (fl t : Bool) (out : List (ℕ × ForgedPos))
    (h : s.forge false fl t = .ok out) (i : ℕ) (hi : i < out.length) (e : Element)
    (he : Dict.get? s.data ((i + 1 : ℕ) : ℤ) = some (.el e)) :
    ∃ arr c sq, e.getArrays t = .ok arr ∧
      out[i] = (i + 1, { sequencing := sq, isSub := false, content := [(1, c, none)] }) ∧
      c.length = arr.length ∧ c.map (fun x => (x.1, x.2.out)) = arr := by
  obtain ⟨en, hen, hpos⟩ := (Sequence.forge_pos s false fl t out h).2 i hi
  rw [he] at hen
  cases hen
  obtain ⟨e', arr, c, sq, h1, h2, h3, _, h5⟩ := Sequence.forgePos_element s false fl t (i + 1) e _ hpos
  have hee : e' = e := by
    simp only [Sequence.delayedEl, Bool.false_eq_true, if_false, Except.ok.injEq] at h1
    exact h1.symm
  subst hee
  obtain ⟨hl3, hw⟩ := Sequence.g4_withFilters_getElem s fl arr c h3
  refine ⟨arr, c, sq, h2, h5, hl3, ?_⟩
  apply List.ext_getElem (by simp [hl3])
  intro n h1 h2
  simp only [List.getElem_map]
  have hn : n < arr.length := h2
  have hn' : n < c.length := by omega
  obtain ⟨w1, w2, _, _⟩ := hw n hn hn'
  rw [w1, w2]

/-- **... and inside a subsequence**: content entry `j` of a subsequence position of
    `forge(apply_delays=False)` is the `getArrays` of the subsequence's stored element `j+1`. -/
theorem forge_undelayed_subsequence (s : Sequence) (fl t : Bool) (out : List (ℕ × ForgedPos))
    (h : s.forge false fl t = .ok out) (i : ℕ) (hi : i < out.length) (sub : SubSeq)
    (he : Dict.get? s.data ((i + 1 : ℕ) : ℤ) = some (.sub sub)) (j : ℕ) (hj : j < (out[i]).2.content.length) :
    ∃ e arr c q2, Dict.get? sub.data ((j + 1 : ℕ) : ℤ) = some e ∧ e.getArrays t = .ok arr ∧
      (out[i]).2.content[j] = (j + 1, c, some q2) ∧ c.length = arr.length ∧
      c.map (fun x => (x.1, x.2.out)) = arr := by
  obtain ⟨en, hen, hpos⟩ := (Sequence.forge_pos s false fl t out h).2 i hi
  rw [he] at hen
  cases hen
  obtain ⟨_, _, _, _, _, _, hall⟩ := Sequence.forgePos_sub s false fl t (i + 1) sub _ hpos
  obtain ⟨e, e', arr, c, q2, hge, h1, h2, h3, _, hcj⟩ := hall j hj
  have hee : e' = e := by
    simp only [Sequence.delayedEl, Bool.false_eq_true, if_false, Except.ok.injEq] at h1
    exact h1.symm
  subst hee
  obtain ⟨hl3, hw⟩ := Sequence.g4_withFilters_getElem s fl arr c h3
  refine ⟨e', arr, c, q2, hge, h2, hcj, hl3, ?_⟩
  apply List.ext_getElem (by simp [hl3])
  intro n h1 h2
  simp only [List.getElem_map]
  have hn : n < arr.length := h2
  have hn' : n < c.length := by omega
  obtain ⟨w1, w2, _, _⟩ := hw n hn hn'
  rw [w1, w2]

/-- **delays on vs. off, one blueprint channel**: at the same element position, the channel
    delivered with delays on is the channel delivered with delays off (`f`, the stored blueprint's
    own forge) with its segment-bound marker windows moved by `D` and its absolute-time windows
    unmoved - the two `forge` calls compared directly. -/
theorem forge_on_vs_off_bp_markers (s : Sequence) (fl t : Bool) (on off : List (ℕ × ForgedPos))
    (hon : s.forge true fl t = .ok on) (hoff : s.forge false fl t = .ok off) (i : ℕ) (hi : i < on.length)
    (hi' : i < off.length) (e : Element)
    (he : Dict.get? s.data ((i + 1 : ℕ) : ℤ) = some (.el e)) (ds : List ℚ) (hds : e.channels.mapM s.delayOf = .ok ds)
    (sr : ℚ) (hsr : e.getSR = .ok (.num sr)) (hsr0 : 0 < sr)
    (k : ℕ) (hk : k < e.chans.length) (hkd : k < ds.length) (b : BP) (hb : (e.chans[k]).2.data = .bp b)
    (D M : ℕ) (hD : ds[k] * sr = D) (hM : maxR ds * sr = M)
    (hfront : D = 0 ∨ 2 ≤ D) (hback : M - D = 0 ∨ 2 ≤ M - D)
    (hin : ∀ f, forgeBP b = .ok f → MarkersInside b sr f) :
    ∃ c c' sq f f', off[i] = (i + 1, { sequencing := sq, isSub := false, content := [(1, c, none)] }) ∧
      on[i] = (i + 1, { sequencing := sq, isSub := false, content := [(1, c', none)] }) ∧
      ∃ (hc : k < c.length) (hc' : k < c'.length),
        (c[k]).2.out = ChOut.forged f (e.chans[k]).2.flags t ∧
        (c'[k]).2.out = ChOut.forged f' (e.chans[k]).2.flags t ∧ DelayedMarkers b sr f f' D M := by
  obtain ⟨arr, c, sq, harr, hoi, hlc, hmap⟩ := forge_undelayed_element s fl t off hoff i hi' e he
  obtain ⟨hla, hga⟩ := g4_getArrays_getElem e t arr harr
  have ka : k < arr.length := by omega
  have hc : k < c.length := by omega
  obtain ⟨_, g2⟩ := hga k hk ka
  obtain ⟨_, _, o3, _⟩ := g4_chanOut_spec t _ _ g2
  obtain ⟨f, hf, ho⟩ := o3 b hb
  obtain ⟨c', sq', f', hoi', hm, hc', _, ho', _⟩ := forge_delayed_bp_markers s fl t on hon i hi e he ds hds sr hsr hsr0
    k hk hkd b hb f hf D M hD hM hfront hback (hin f hf)
  -- both positions carry the sequence's own sequencing entry
  obtain ⟨en, hen, hpos⟩ := (Sequence.forge_pos s false fl t off hoff).2 i hi'
  rw [he] at hen; cases hen
  obtain ⟨_, _, _, sq0, _, _, _, hs0, h50⟩ := Sequence.forgePos_element s false fl t (i + 1) e _ hpos
  obtain ⟨en, hen, hpos'⟩ := (Sequence.forge_pos s true fl t on hon).2 i hi
  rw [he] at hen; cases hen
  obtain ⟨_, _, _, sq1, _, _, _, hs1, h51⟩ := Sequence.forgePos_element s true fl t (i + 1) e _ hpos'
  have hsq : sq' = sq := by
    rw [hoi] at h50
    rw [hoi'] at h51
    simp only [Prod.mk.injEq, true_and, ForgedPos.mk.injEq] at h50 h51
    rw [h50.1, h51.1]
    rw [hs0] at hs1
    exact (Option.some.inj hs1).symm
  subst hsq
  refine ⟨c, c', sq', f, f', hoi, hoi', hc, hc', ?_, ho', hm⟩
  have : (c.map (fun x => (x.1, x.2.out)))[k]'(by simpa using hc) = arr[k] := by simp only [hmap]
  simp only [List.getElem_map] at this
  have h2 := congrArg Prod.snd this
  simp only at h2
  rw [h2, ho]

/-! non-vacuity of the G11 theorems: an element with a marked blueprint channel (`exMarkBP`:
    segment-bound marker 1 at samples 1,2; absolute marker 1 at samples 6,7) and a raw-array channel
    with an 'm1' array, at position 1 and inside a subsequence at position 2; channel 1 delayed by
    2 samples -/
def exMarkEl : Element :=
  { chans := [(.int 1, { data := .bp exMarkBP }),
              (.str "A", { data := .arr [("m1", [1, 1, 0, 0, 0, 0, 0, 0, 0, 1]), ("wfm", List.replicate 10 0)] (.num 10) })] }

def exMarkSeq : Sequence :=
  { data := [(1, .el exMarkEl),
             (2, .sub { data := [(1, exMarkEl)], sequencing := [(1, ⟨0, 2, 0, 0, 0⟩)], awgspecs := [("SR", .val (.num 10))] })],
    sequencing := [(1, ⟨0, 1, 0, 0, 0⟩), (2, ⟨0, 3, 0, 0, 1⟩)],
    awgspecs := [("SR", .val (.num 10)), ("channel1_delay", .val (.num (1/5)))] }

/-- the hypotheses hold: both forges succeed, delays `[1/5, 0]` (2 and 0 of max 2 samples), the
    marker windows of `exMarkBP` lie on its 10 samples -/
example : (exMarkSeq.forge true false false).toOption.isSome = true ∧
    (exMarkSeq.forge false false false).toOption.isSome = true ∧
    exMarkEl.channels.mapM exMarkSeq.delayOf = .ok [1/5, 0] ∧ exMarkEl.getSR = .ok (.num 10) ∧
    ((1 : ℚ) / 5) * 10 = (2 : ℕ) ∧ maxR [1/5, 0] * 10 = (2 : ℕ) ∧ (0 : ℚ) * 10 = (0 : ℕ) := by
  refine ⟨by decide +kernel, by decide +kernel, by decide +kernel, by decide +kernel, by norm_num,
    by decide +kernel, by norm_num⟩

example : ∀ f, forgeBP exMarkBP = .ok f → MarkersInside exMarkBP 10 f := by
  intro f hf
  have : forgeBP exMarkBP = .ok (assemble exMarkBP 10 [10]) := by decide +kernel
  rw [this] at hf
  cases hf
  constructor <;> decide +kernel

/-- `forge_delayed_bp_markers` and `forge_delayed_subsequence_raw_markers` applied to the example:
    every hypothesis is discharged -/
example (out : List (ℕ × ForgedPos)) (h : exMarkSeq.forge true false false = .ok out) :
    ∃ (hi : 0 < out.length) (c : Dict Chan ChOutF) (sq : SeqSet) (f' : Forged),
      out[0] = (0 + 1, { sequencing := sq, isSub := false, content := [(1, c, none)] }) ∧
      DelayedMarkers exMarkBP 10 (assemble exMarkBP 10 [10]) f' 2 2 := by
  have hl := (Sequence.forge_pos _ _ _ _ out h).1
  have hi : 0 < out.length := by rw [hl]; decide
  obtain ⟨c, sq, f', h1, h2, _⟩ := forge_delayed_bp_markers exMarkSeq false false out h 0 hi exMarkEl rfl [1/5, 0]
    (by decide +kernel) 10 (by decide +kernel) (by norm_num) 0 (by decide) (by decide) exMarkBP rfl
    (assemble exMarkBP 10 [10]) (by decide +kernel) 2 2 (by norm_num) (by decide +kernel) (Or.inr le_rfl) (Or.inl rfl)
    ⟨by decide +kernel, by decide +kernel⟩
  exact ⟨hi, c, sq, f', h1, h2⟩

example (out : List (ℕ × ForgedPos)) (h : exMarkSeq.forge true false false = .ok out) (hi : 1 < out.length)
    (hj : 0 < (out[1]).2.content.length) :
    ∃ c q2, (out[1]).2.content[0] = (0 + 1, c, some q2) ∧ ∃ (hc : 1 < c.length),
      Sequence.chMarker (c[1]).2 1 = .ok (padArr 0 (2 - 0) [1, 1, 0, 0, 0, 0, 0, 0, 0, 1]) := by
  obtain ⟨c, q2, h1, hc, a', tm, _, _, _, _, hm⟩ := forge_delayed_subsequence_raw_markers exMarkSeq false false out h 1 hi
    { data := [(1, exMarkEl)], sequencing := [(1, ⟨0, 2, 0, 0, 0⟩)], awgspecs := [("SR", .val (.num 10))] } rfl 0 hj
    exMarkEl rfl [1/5, 0] (by decide +kernel) 10 (by decide +kernel) (by norm_num) 1 (by decide) (by decide)
    [("m1", [1, 1, 0, 0, 0, 0, 0, 0, 0, 1]), ("wfm", List.replicate 10 0)] (.num 10) rfl 0 2 (by norm_num)
    (by decide +kernel)
  exact ⟨c, q2, h1, hc, hm 1 _ (by decide +kernel)⟩

/-- what comes out: m1 of channel 1 (segment-bound window moved from 1,2 to 3,4; absolute window
    still 6,7; two samples longer) and m1 of raw channel "A" (padded by 0 in front, 2 behind), at
    the element position and inside the subsequence; with delays off the stored arrays -/
example :
    (exMarkSeq.forge true false false).toOption.map (fun out => out.map (fun p => p.2.content.map (fun c =>
        c.2.1.map (fun x => (Sequence.chMarker x.2 1).toOption)))) =
      some [[[some [0, 0, 0, 1, 1, 0, 1, 1, 0, 0, 0, 0], some [1, 1, 0, 0, 0, 0, 0, 0, 0, 1, 0, 0]]],
            [[some [0, 0, 0, 1, 1, 0, 1, 1, 0, 0, 0, 0], some [1, 1, 0, 0, 0, 0, 0, 0, 0, 1, 0, 0]]]] ∧
    (exMarkSeq.forge false false false).toOption.map (fun out => out.map (fun p => p.2.content.map (fun c =>
        c.2.1.map (fun x => (Sequence.chMarker x.2 1).toOption)))) =
      some [[[some [0, 1, 1, 0, 0, 0, 1, 1, 0, 0], some [1, 1, 0, 0, 0, 0, 0, 0, 0, 1]]],
            [[some [0, 1, 1, 0, 0, 0, 1, 1, 0, 0], some [1, 1, 0, 0, 0, 0, 0, 0, 0, 1]]]] := by
  constructor <;> decide +kernel

end BB.C10
