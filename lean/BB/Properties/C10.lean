/-
  Property C10 — channel delays shift exactly the addressed channel, identically in every path.

  `delayBP` is the blueprint part of `Element._applyDelays` (and of the copy of that logic in
  `Sequence._prepareForOutputting`); `padArr` the raw-array part; `Sequence.delaysFor` looks the
  delay of every channel of an element up by the channel's own id.
-/
import BB.Proofs.Paths
import BB.Proofs.Consistent
import BB.Proofs.Delay
import BB.Proofs.Basic
import BB.Model.Sequence

namespace BB.C10
open BB BP Element

theorem countsGo_append (sr : ℚ) (a c : List ℚ) (na nc : List ℕ)
    (ha : countsGo sr a = .ok na) (hc : countsGo sr c = .ok nc) : countsGo sr (a ++ c) = .ok (na ++ nc) := by
  induction a generalizing na with
  | nil => simp [countsGo] at ha; subst ha; simpa using hc
  | cons d ds ih =>
    simp only [List.cons_append, countsGo] at ha ⊢
    by_cases hs : Gen.segTooShort (segCount d sr) = true
    · simp [hs] at ha
    · simp only [hs, Bool.false_eq_true, if_false] at ha ⊢
      cases hr : countsGo sr ds with
      | error e => simp [hr] at ha
      | ok ms =>
        simp only [hr, Except.ok.injEq] at ha
        subst ha
        rw [ih ms hr]; rfl

theorem countsGo_single (sr d : ℚ) (h : 2 ≤ rhe (d * sr)) : countsGo sr [d] = .ok [(rhe (d * sr)).toNat] := by
  have : Gen.segTooShort (rhe (d * sr)) = false := by simp [Gen.segTooShort]; omega
  simp [countsGo, segCount, this]

theorem mkBlocks_append (sr : ℚ) (a c : List Seg) (na nc : List ℕ) (h : na.length = a.length) :
    mkBlocks sr (a ++ c) (na ++ nc) = mkBlocks sr a na ++ mkBlocks sr c nc := by
  induction a generalizing na with
  | nil => cases na with
    | nil => rfl
    | cons n ns => simp at h
  | cons s ss ih =>
    cases na with
    | nil => simp at h
    | cons n ns => simp only [List.cons_append, mkBlocks, ih ns (by simpa using h)]

/-- the sample counts a delayed blueprint is forged with -/
def delayedCounts (sr delay maxdelay : ℚ) (ns : List ℕ) : List ℕ :=
  (if 0 < delay then [(rhe (delay * sr)).toNat] else []) ++ ns ++
    (if 0 < maxdelay - delay then [(rhe ((maxdelay - delay) * sr)).toNat] else [])

/-- **The delayed channel.**  If the undelayed blueprint forges (sample rate `sr`, resolved
    durations `ds`, counts `ns`) and front and back padding are each absent or at least two
    samples, the delayed blueprint forges as well, from the explicit segment list
    `waituntil(delay) ++ (original segments, waituntil targets moved by delay) ++ zero ramp`,
    with counts `round(delay·SR) ++ ns ++ round((maxdelay − delay)·SR)`. -/
theorem delayed_forge (b : BP) (sr delay maxdelay : ℚ) (ds : List ℚ) (ns : List ℕ)
    (hsr : b.SR = .num sr) (hd : b.resolveWaits = .ok ds) (hn : countsGo sr ds = .ok ns)
    (hb : badSpecial b = false) (h0 : 0 ≤ delay)
    (hfront : 0 < delay → 2 ≤ rhe (delay * sr))
    (hback : 0 < maxdelay - delay → 2 ≤ rhe ((maxdelay - delay) * sr)) :
    forgeBP (delayBP b delay maxdelay).st =
      .ok (assemble { b with segs := delayedSegs b.segs delay maxdelay } sr (delayedCounts sr delay maxdelay ns)) := by
  obtain ⟨_, hbody, hm1, hm2, hS⟩ := delayBP_spec b delay maxdelay
  rw [forgeBP_body (delayBP b delay maxdelay).st { b with segs := delayedSegs b.segs delay maxdelay } hbody hm1 hm2 hS]
  apply (forge_ok_iff _ _).mpr
  refine ⟨sr, _, delayedCounts sr delay maxdelay ns, hsr, delayed_resolve b.segs delay maxdelay ds hd h0, ?_, ?_, rfl⟩
  · -- counts
    unfold delayedCounts
    apply countsGo_append
    · apply countsGo_append
      · by_cases hp : 0 < delay
        · simp only [hp, if_true]; exact countsGo_single sr delay (hfront hp)
        · simp [hp, countsGo]
      · exact hn
    · by_cases hp : 0 < maxdelay - delay
      · simp only [hp, if_true]; exact countsGo_single sr _ (hback hp)
      · simp [hp, countsGo]
  · -- no uncallable special segment appears
    unfold badSpecial delayedSegs at *
    simp only [List.any_append, Bool.or_eq_false_iff]
    refine ⟨⟨?_, ?_⟩, ?_⟩
    · by_cases hp : 0 < delay
      · simp [hp, delayHead, Fn.waitSpecial, Fn.isWait]
      · simp [hp]
    · rw [List.any_map]
      have : ((fun s : Seg => s.fn.special && !s.fn.isWait) ∘ shiftWait delay) = (fun s : Seg => s.fn.special && !s.fn.isWait) := by
        funext s; simp [Function.comp, shiftWait_isWait]
      rw [this]; exact hb
    · by_cases hp : 0 < maxdelay - delay
      · simp [hp, delayTail, Fn.rampFn]
      · simp [hp]

/-- ... so the delayed waveform is: one block of `round(delay·SR)` zeros (`PulseAtoms.waituntil`),
    the original blocks (same function, arguments and sample count; a waituntil block only has its
    irrelevant dummy argument changed), one zero ramp of `round((maxdelay − delay)·SR)` samples. -/
theorem delayed_blocks (b : BP) (sr delay maxdelay : ℚ) (ns : List ℕ) (hl : ns.length = b.segs.length) :
    (assemble { b with segs := delayedSegs b.segs delay maxdelay } sr (delayedCounts sr delay maxdelay ns)).blocks =
      (if 0 < delay then [Blk.call Fn.waitCallable [.num delay] sr (rhe (delay * sr)).toNat] else []) ++
      mkBlocks sr (b.segs.map (shiftWait delay)) ns ++
      (if 0 < maxdelay - delay then [Blk.call Fn.rampFn [.num 0, .num 0] sr (rhe ((maxdelay - delay) * sr)).toNat] else []) := by
  simp only [assemble, delayedSegs, delayedCounts]
  rw [mkBlocks_append, mkBlocks_append]
  · congr 1
    · congr 1
      by_cases hp : 0 < delay
      · simp only [hp, if_true, mkBlocks, delayHead]; rfl
      · simp [hp, mkBlocks]
    · by_cases hp : 0 < maxdelay - delay
      · simp only [hp, if_true, mkBlocks, delayTail]; rfl
      · simp [hp, mkBlocks]
  · by_cases hp : 0 < delay <;> simp [hp]
  · by_cases hp : 0 < delay <;> simp [hp, hl]

/-- the shifted segments forge to the very same blocks except that a waituntil block's argument
    (the unused `dummy` of `PulseAtoms.waituntil`) is moved by the delay -/
theorem shifted_blocks (sr delay : ℚ) (segs : List Seg) (ns : List ℕ) (i : ℕ)
    (h1 : i < (mkBlocks sr (segs.map (shiftWait delay)) ns).length) (h2 : i < (mkBlocks sr segs ns).length) :
    (mkBlocks sr (segs.map (shiftWait delay)) ns)[i] = (mkBlocks sr segs ns)[i] ∨
      ∃ a a' n, (mkBlocks sr (segs.map (shiftWait delay)) ns)[i] = Blk.call Fn.waitCallable a' sr n ∧
        (mkBlocks sr segs ns)[i] = Blk.call Fn.waitCallable a sr n := by
  induction segs generalizing ns i with
  | nil => simp [mkBlocks] at h2
  | cons s ss ih =>
    cases ns with
    | nil => simp [mkBlocks] at h2
    | cons n ns =>
      cases i with
      | zero =>
        simp only [List.map_cons, mkBlocks, List.getElem_cons_zero, shiftWait_isWait]
        by_cases hw : s.fn.isWait = true
        · right
          exact ⟨s.args, (shiftWait delay s).args, n, by simp [forgeFn, hw], by simp [forgeFn, hw]⟩
        · left; rw [shiftWait_nonwait delay s hw]
      | succ i =>
        simp only [List.map_cons, mkBlocks, List.getElem_cons_succ]
        exact ih ns i _ _

/-- total length: every channel of the element ends up with `front + original + back` samples -/
theorem delayed_length (sr delay maxdelay : ℚ) (ns : List ℕ) :
    sumN (delayedCounts sr delay maxdelay ns) =
      (if 0 < delay then (rhe (delay * sr)).toNat else 0) + sumN ns +
        (if 0 < maxdelay - delay then (rhe ((maxdelay - delay) * sr)).toNat else 0) := by
  unfold delayedCounts
  rw [sumN_append, sumN_append]
  by_cases h0 : 0 < delay <;> by_cases h1 : 0 < maxdelay - delay <;> simp [h0, h1, sumN]

/-- with whole-sample delays the common length is `original + maxdelay·SR` -/
theorem delayed_length_whole (sr delay maxdelay : ℚ) (ns : List ℕ) (D M : ℕ) (hsr : 0 < sr)
    (hD : delay * sr = D) (hM : maxdelay * sr = M) (hle : D ≤ M) :
    sumN (delayedCounts sr delay maxdelay ns) = sumN ns + M := by
  rw [delayed_length]
  have e1 : rhe (delay * sr) = (D : ℤ) := by rw [hD]; exact_mod_cast rhe_int (D : ℤ)
  have hMD : (maxdelay - delay) * sr = ((M - D : ℕ) : ℚ) := by
    rw [sub_mul, hD, hM]; push_cast [Nat.cast_sub hle]; ring
  have e2 : rhe ((maxdelay - delay) * sr) = ((M - D : ℕ) : ℤ) := by
    rw [hMD]; exact_mod_cast rhe_int ((M - D : ℕ) : ℤ)
  rw [e1, e2]
  have f1 : (if 0 < delay then ((D : ℤ)).toNat else 0) = D := by
    by_cases h0 : 0 < delay
    · simp [h0]
    · simp only [h0, if_false]
      have : (D : ℚ) ≤ 0 := by rw [← hD]; exact mul_nonpos_of_nonpos_of_nonneg (not_lt.mp h0) hsr.le
      have : D = 0 := by
        have : (D : ℚ) = 0 := le_antisymm this (by exact_mod_cast Nat.zero_le D)
        exact_mod_cast this
      omega
  have f2 : (if 0 < maxdelay - delay then (((M - D : ℕ) : ℤ)).toNat else 0) = M - D := by
    by_cases h1 : 0 < maxdelay - delay
    · simp [h1]
    · simp only [h1, if_false]
      have : ((M - D : ℕ) : ℚ) ≤ 0 := by rw [← hMD]; exact mul_nonpos_of_nonpos_of_nonneg (not_lt.mp h1) hsr.le
      have : ((M - D : ℕ) : ℚ) = 0 := le_antisymm this (by exact_mod_cast Nat.zero_le _)
      have : M - D = 0 := by exact_mod_cast this
      omega
  rw [f1, f2]; omega

/-! ### markers -/

/-- segment-bound markers move with the waveform: if every segment starts `D` samples later, each
    segment-bound marker's ON time is later by exactly `D/SR` and its length is unchanged -/
theorem segment_markers_move (sr : ℚ) (sel : Seg → Mark) (segs : List Seg) (sts : List ℕ) (D : ℕ) :
    segMarks sr sel segs (sts.map (· + D)) =
      (segMarks sr sel segs sts).map (fun m => (m.1 + ((D : ℤ) : ℚ) / sr, m.2)) := by
  induction segs generalizing sts with
  | nil => cases sts <;> simp [segMarks]
  | cons s ss ih =>
    cases sts with
    | nil => simp [segMarks]
    | cons st sts =>
      simp only [List.map_cons, segMarks, ih sts]
      split
      · simp only [List.map_cons, List.cons.injEq, Prod.mk.injEq, and_true]
        push_cast
        ring
      · rfl

/-- the delayed blueprint keeps every segment's marker specification and the absolute markers:
    absolute-time markers keep their absolute times -/
theorem delay_keeps_marker_specs (b : BP) (delay maxdelay : ℚ) :
    (delayBP b delay maxdelay).st.marker1 = b.marker1 ∧ (delayBP b delay maxdelay).st.marker2 = b.marker2 ∧
    (b.segs.map (shiftWait delay)).map (fun s => (s.m1, s.m2)) = b.segs.map (fun s => (s.m1, s.m2)) := by
  obtain ⟨_, _, h1, h2, _⟩ := delayBP_spec b delay maxdelay
  refine ⟨h1, h2, ?_⟩
  simp only [List.map_map]
  apply List.map_congr_left
  intro s _
  simp only [Function.comp, shiftWait]
  split
  · split <;> rfl
  · rfl

/-- the segments inserted for the delay carry no marker -/
theorem padding_has_no_marker (d : ℚ) :
    (delayHead d).m1 = (0, 0) ∧ (delayHead d).m2 = (0, 0) ∧ (delayTail d).m1 = (0, 0) ∧ (delayTail d).m2 = (0, 0) :=
  ⟨rfl, rfl, rfl, rfl⟩

/-! ### raw arrays -/

/-- every array of a raw-array channel (waveform and markers) is padded with `pre` zeros in front
    and `post` zeros behind -/
theorem raw_padded (pre post : ℕ) (xs : List ℚ) :
    padArr pre post xs = List.replicate pre 0 ++ xs ++ List.replicate post 0 ∧
    (padArr pre post xs).length = pre + xs.length + post :=
  ⟨rfl, padArr_length pre post xs⟩

/-! ### each delay goes to the channel it was set for -/

/-- `forge` looks every delay up by the id of the channel it is applied to, so the order in which
    an element lists its channels is irrelevant -/
theorem delays_by_channel_id (s : Sequence) (e : Element) (dl : List ℚ) (h : s.delaysFor e = .ok dl)
    (i : ℕ) (hi : i < e.channels.length) (hj : i < dl.length) : s.delayOf e.channels[i] = .ok dl[i] := by
  unfold Sequence.delaysFor at h
  exact mapM_ok_getElem _ _ _ h i hi hj

/-- a channel without a delay setting is delayed by 0 -/
theorem no_setting_no_delay (s : Sequence) (ch : Chan) (h : Dict.get? s.awgspecs (keyOf ch "delay") = none) :
    s.delayOf ch = .ok 0 := by
  simp [SeqCore.delayOf, h]

/-! ### delays disabled or all zero -/

/-- with delay 0 and maximum 0 nothing is inserted and no count changes -/
theorem zero_delay_counts (sr : ℚ) (ns : List ℕ) : delayedCounts sr 0 0 ns = ns := by
  simp [delayedCounts]

theorem zero_delay_segs (segs : List Seg) : delayedSegs segs 0 0 = segs.map (shiftWait 0) := by
  simp [delayedSegs]

/-! ### forge() and both AWG output methods apply the delays identically -/

/-- for one element: `Element._applyDelays` with the delays of the element's own channels (forge)
    and the delay loop of `_prepareForOutputting` with the delays of element 1's channels (AWG /
    SEQX output) leave elements that deliver the same arrays -/
theorem element_delay_paths_agree (s : Sequence) (e e' e'' : Element) (chans : List Chan) (delays : List ℚ)
    (srv : Val) (t : Bool) (hwf : Dict.WF e.chans) (hperm : chans.Perm e.channels)
    (h1 : s.delayElement e = .ok e') (hd : chans.mapM s.delayOf = .ok delays)
    (hsr : e.getSR = .ok srv) (h2 : Sequence.prepDelayElement srv e chans delays = .ok e'') :
    e'.getArrays t = e''.getArrays t :=
  (Paths.element_paths_agree s e e' e'' chans delays srv t hwf hperm h1 hd hsr h2).1

/-- **the output path equals forge**: whenever both succeed on a sequence of elements,
    `_prepareForOutputting` — the common front end of `outputForAWGFile` and
    `outputForSEQXFile` — delivers at every position exactly the per-channel arrays (delayed
    waveform with its filter annotation, both markers, flags) of
    `forge(apply_delays=True, apply_filters=True)`.  The only hypothesis beyond success is that
    no element lists a channel twice (true of everything `addBluePrint`/`addArray` build). -/
theorem output_path_equals_forge (s : Sequence) (F : List (ℕ × ForgedPos)) (P : List (Dict Chan ChOutF))
    (hF : s.forge true true false = .ok F) (hP : s.prepareForOutputting = .ok P)
    (hwf : ∀ p e, Dict.get? s.data p = some (.el e) → Dict.WF e.chans) :
    P.length = F.length ∧
    ∀ i (h1 : i < F.length) (h2 : i < P.length), ∃ sq, Dict.get? s.sequencing ((i + 1 : ℕ) : ℤ) = some sq ∧
      F[i] = (i + 1, { sequencing := sq, isSub := false, content := [(1, P[i], none)] }) := by
  have hc : s.checkConsistency = .ok true := by
    unfold Sequence.prepareForOutputting at hP
    split at hP
    · cases hP
    · cases hP
    · assumption
  exact Paths.paths_agree s F P hF hP hwf
    (fun e1 p e h1 h2 => consistent_channels_perm s hc 1 p e1 e h1 h2)

end BB.C10
