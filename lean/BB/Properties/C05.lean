/-
  Property C05 — segment names stay unique and name-addressed edits touch only their target.

  Theorems are about the executable model `BB.BP` (tied to /repo by the correspondence check and
  the generated guards `BB.Gen.durNonPositive`, `durSubSample`, `insertPosBad`).
  `Hist` is every way of obtaining a blueprint through the public API from the empty one:
  any mutator (accepted or rejected), `copy`, and `+` of two such blueprints.
-/
import BB.Proofs.Blueprint

namespace BB.C05
open BB BB.BP

/-- After any history, the name list is the canonical renumbering of its own base names. -/
theorem names_canonical (h : Hist) : makeNamesUnique h.eval.names = h.eval.names :=
  inv_reachable h

/-- After any history, segment names are pairwise distinct. -/
theorem names_distinct (h : Hist) : h.eval.names.Nodup :=
  inv_nodup (inv_reachable h)

/-- The naming rule: the segment at index `i` is called `base` if no earlier segment shares its
    base name, and `base ++ str(r+1)` if `r ≥ 1` earlier segments do (`renderL`). -/
theorem name_rule (h : Hist) (i : Nat) (hi : i < h.eval.names.length) :
    (h.eval.names[i]).toList =
      renderL (basenameL (h.eval.names[i]).toList)
        ((((h.eval.names.map String.toList).map basenameL).take i).count
          (basenameL (h.eval.names[i]).toList)) := by
  have hinv := inv_reachable h
  unfold BP.Inv at hinv
  generalize h.eval.names = ns at *
  have hlen : i < (ns.map String.toList).length := by simpa using hi
  have key := makeNamesUniqueL_getElem (ns.map String.toList) i hlen
  have e : ns[i] = String.ofList ((makeNamesUniqueL (ns.map String.toList))[i]'(by
      rw [makeNamesUniqueL_length]; exact hlen)) := by
    have : ns[i] = (makeNamesUnique ns)[i]'(by rw [makeNamesUnique_length]; exact hi) := by
      simp only [hinv]
    rw [this]
    simp [makeNamesUnique]
  have e2 := congrArg String.toList e
  rw [String.toList_ofList, key] at e2
  simpa using e2

/-- A base name never ends in a digit, so the suffix of a name can always be told apart. -/
theorem base_no_trailing_digit (s : String) : NoTrailingDigit (basenameL s.toList) :=
  basenameL_noTrailing _

/-- The number of segments and every per-segment record stay in step: names are a field of the
    segment record, so a name, function, argument tuple, duration and marker pair exist per segment
    by construction; renumbering changes names only. -/
theorem renumber_changes_names_only (segs : List Seg) :
    (renumber segs).map Seg.body = segs.map Seg.body ∧ (renumber segs).length = segs.length :=
  ⟨renumber_body segs, renumber_length segs⟩

/-! ### rejected single-segment edits leave the blueprint unchanged -/

theorem targets_false (b : BP) (name : String) : b.targets name false = (name, [name]) := rfl

theorem insert_rejected_unchanged (b : BP) (pos : Int) (fn : Fn) (args : List Val) (dur name : Val)
    (h : (b.insertSegment pos fn args dur name).err ≠ none) :
    (b.insertSegment pos fn args dur name).st = b := by
  unfold insertSegment at *
  grind

theorem remove_rejected_unchanged (b : BP) (name : String)
    (h : (b.removeSegment name).err ≠ none) : (b.removeSegment name).st = b := by
  unfold removeSegment at *
  grind

theorem changeArgOne_rejected_unchanged (b : BP) (nm : String) (arg value : Val)
    (h : (b.changeArgOne nm arg value).err ≠ none) : (b.changeArgOne nm arg value).st = b := by
  unfold changeArgOne at *
  grind

/-- `changeArg` on one segment (no `replaceeverywhere`): a rejected call changes nothing. -/
theorem changeArg_rejected_unchanged (b : BP) (name : String) (arg value : Val)
    (h : (b.changeArg name arg value false).err ≠ none) :
    (b.changeArg name arg value false).st = b := by
  have := changeArgOne_rejected_unchanged b name arg value
  unfold changeArg at *
  simp only [targets_false] at *
  unfold changeArgLoop at *
  unfold changeArgLoop at *
  grind

/-- `changeDuration` (with or without `replaceeverywhere`): a rejected call changes nothing. -/
theorem changeDuration_rejected_unchanged (b : BP) (name : String) (dur : Val) (all : Bool)
    (h : (b.changeDuration name dur all).err ≠ none) : (b.changeDuration name dur all).st = b := by
  unfold changeDuration at *
  grind

theorem setSegmentMarker_rejected_unchanged (b : BP) (name : String) (m : Mark) (mid : Int)
    (h : (b.setSegmentMarker name m mid).err ≠ none) : (b.setSegmentMarker name m mid).st = b := by
  unfold setSegmentMarker at *
  grind

theorem removeSegmentMarker_rejected_unchanged (b : BP) (name : String) (mid : Int)
    (h : (b.removeSegmentMarker name mid).err ≠ none) : (b.removeSegmentMarker name mid).st = b := by
  unfold removeSegmentMarker at *
  grind

/-! ### which durations are rejected (generated guards) -/

/-- `changeDuration` accepts exactly: a number, addressed at an existing segment (base), strictly
    positive, and at least one sample long when the blueprint has a sample rate. -/
theorem changeDuration_accepts_iff (b : BP) (name : String) (dur : Val) (all : Bool) :
    (b.changeDuration name dur all).err = none ↔
      ∃ d, dur = .num d ∧ b.names.contains (b.targets name all).1 = true ∧ 0 < d ∧
        (∀ r, b.SR = .num r → 1 ≤ d * r) := by
  unfold changeDuration
  constructor
  · intro h
    split at h
    · rename_i d
      split at h
      · simp at h
      · split at h
        · simp at h
        · split at h
          · simp at h
          · rename_i h1 h2 h3
            refine ⟨d, rfl, by simpa using h1, ?_, ?_⟩
            · simpa [Gen.durNonPositive, Rat.not_le] using h2
            · intro r hr
              simp only [durTooShort, hr, Gen.durSubSample, decide_eq_true_eq, Rat.not_lt] at h3
              exact h3
    · simp at h
  · rintro ⟨d, rfl, h1, h2, h3⟩
    simp only [h1, not_true_eq_false, if_false]
    have : Gen.durNonPositive d = false := by
      simp [Gen.durNonPositive, Rat.not_le]; exact h2
    simp only [this]
    have : durTooShort b.SR d = false := by
      unfold durTooShort
      split
      · rename_i r hr
        simp [Gen.durSubSample, Rat.not_lt]; exact h3 r hr
      · rfl
    simp [this]

/-- a position below -1 is rejected (generated guard) -/
theorem insert_pos_rejected (b : BP) (pos : Int) (fn : Fn) (args : List Val) (dur name : Val)
    (h : pos < -1) : (b.insertSegment pos fn args dur name).err = some .value := by
  unfold insertSegment
  have : Gen.insertPosBad pos = true := by simp [Gen.insertPosBad]; omega
  simp [this]

/-- a given name ending in a digit is rejected -/
theorem insert_digit_name_rejected (b : BP) (pos : Int) (fn : Fn) (args : List Val) (dur : Val)
    (s : String) (hs : s ≠ "") (hd : endsInDigit s = true) (hf : fn.special = false) (hp : ¬ pos < -1) :
    (b.insertSegment pos fn args dur (.str s)).err = some .value ∧
    (b.insertSegment pos fn args dur (.str s)).st = b := by
  unfold insertSegment
  have : Gen.insertPosBad pos = false := by simp [Gen.insertPosBad]; omega
  simp [this, insertName, hf, hs, hd]

/-! ### accepted edits change exactly the addressed attribute -/

/-- two segments with the same name are the same segment -/
theorem unique_target (h : Hist) (i j : Nat) (hi : i < h.eval.segs.length) (hj : j < h.eval.segs.length)
    (e : (h.eval.segs[i]).name = (h.eval.segs[j]).name) : i = j := by
  have nd := names_distinct h
  have hi' : i < h.eval.names.length := by simpa [names] using hi
  have hj' : j < h.eval.names.length := by simpa [names] using hj
  have e' : h.eval.names[i] = h.eval.names[j] := by simpa [names] using e
  exact (List.getElem_inj nd).mp e'

/-- `changeDuration(name, d)` accepted: the segment list is the old one with the duration of the
    segment(s) addressed set to `d` — same length, same order, every other field and every other
    segment untouched; markers and sample rate untouched. -/
theorem changeDuration_frame (b : BP) (name : String) (d : Rat) (all : Bool)
    (h : (b.changeDuration name (.num d) all).err = none) :
    (b.changeDuration name (.num d) all).st =
      { b with segs := b.segs.map (setDur (b.targets name all).2 d) } := by
  unfold changeDuration at *
  grind

/-- what `setDur` does to one segment: the duration of an addressed segment, nothing else -/
theorem setDur_spec (tgts : List String) (d : Rat) (s : Seg) :
    setDur tgts d s = if tgts.contains s.name then { s with dur := .num d } else s := rfl

/-- without `replaceeverywhere` the addressed set is the single segment called `name` -/
theorem targets_single (b : BP) (name : String) : (b.targets name false).2 = [name] := rfl

/-- with `replaceeverywhere` it is every segment sharing `name`'s base name -/
theorem targets_all (b : BP) (name : String) :
    (b.targets name true).2 = b.names.filter (fun nm => basename nm == basename name) := rfl

/-- `changeArg(name, arg, value)` on one segment, accepted: exactly argument `k` of exactly the
    segment `i` called `name` is replaced, where `k` is `arg` resolved against that segment's own
    function signature; nothing else changes. -/
theorem changeArg_frame (b : BP) (name : String) (arg value : Val)
    (h : (b.changeArg name arg value false).err = none) :
    ∃ i k seg, b.indexOf? name = some i ∧ b.segs[i]? = some seg ∧ argIndex seg arg = .ok k ∧
      k < seg.args.length ∧
      (b.changeArg name arg value false).st = b.modifySeg i (setArg k value) := by
  unfold changeArg at *
  simp only [targets_false] at *
  unfold changeArgLoop at *
  unfold changeArgLoop at *
  unfold changeArgOne at *
  grind

/-- what `modifySeg i (setArg k v)` does: only `args[k]` of segment `i` -/
theorem modifySeg_setArg_frame (b : BP) (i k : Nat) (v : Val) :
    (b.modifySeg i (setArg k v)).segs.length = b.segs.length ∧
    (∀ j (hj : j < b.segs.length), j ≠ i →
        (b.modifySeg i (setArg k v)).segs[j]'(by simp [modifySeg]; exact hj) = b.segs[j]) ∧
    (∀ (hi : i < b.segs.length),
        (b.modifySeg i (setArg k v)).segs[i]'(by simp [modifySeg]; exact hi) =
          { b.segs[i] with args := (b.segs[i]).args.set k v }) ∧
    (b.modifySeg i (setArg k v)).marker1 = b.marker1 ∧ (b.modifySeg i (setArg k v)).marker2 = b.marker2 ∧
    (b.modifySeg i (setArg k v)).SR = b.SR := by
  refine ⟨by simp [modifySeg], ?_, ?_, rfl, rfl, rfl⟩
  · intro j hj hne
    simp [modifySeg, List.getElem_modify, Ne.symm hne]
  · intro hi
    simp [modifySeg, List.getElem_modify, setArg]

/-- `setSegmentMarker(name, specs, id)` accepted: only that marker of that segment changes. -/
theorem setSegmentMarker_frame (b : BP) (name : String) (m : Mark) (mid : Int)
    (h : (b.setSegmentMarker name m mid).err = none) :
    ∃ i, b.indexOf? name = some i ∧ (mid = 1 ∨ mid = 2) ∧
      (b.setSegmentMarker name m mid).st = b.modifySeg i (setMark mid m) := by
  unfold setSegmentMarker at *
  grind

/-- `removeSegmentMarker(name, id)` is `setSegmentMarker(name, (0, 0), id)` on existing segments -/
theorem removeSegmentMarker_eq_set_zero (b : BP) (name : String) (mid : Int)
    (h : (b.removeSegmentMarker name mid).err = none) :
    (b.removeSegmentMarker name mid).st = (b.setSegmentMarker name (0, 0) mid).st := by
  unfold removeSegmentMarker setSegmentMarker at *
  grind

/-! ### Element delegation -/

/-! ### satisfiability of the hypotheses (non-vacuity) -/

/-- a concrete non-trivial history: names a, a2, b, a1b, a3 — bases with digits inside -/
def exampleHist : Hist :=
  let f : Fn := Fn.rampFn
  (((((Hist.empty.op (.insert (-1) f [.num 0, .num 1] (.num 1) (.str "a"))).op
      (.insert (-1) f [.num 0, .num 1] (.num 1) (.str "a"))).op
      (.insert (-1) f [.num 0, .num 1] (.num 1) (.str "b"))).op
      (.insert (-1) f [.num 0, .num 1] (.num 1) (.str "a1b"))).op
      (.insert 0 f [.num 0, .num 1] (.num 1) (.str "a")))

example : exampleHist.eval.names = ["a", "a2", "a3", "b", "a1b"] := by decide +kernel

example : ((exampleHist.eval.changeDuration "a2" (.num 3) false).err = none) := by decide +kernel
example : ((exampleHist.eval.changeArg "a3" (.str "stop") (.num 5) false).err = none) := by
  decide +kernel
example : ((exampleHist.eval.changeArg "zz" (.str "stop") (.num 5) false).err ≠ none) := by
  decide +kernel

end BB.C05
