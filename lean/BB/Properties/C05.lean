/-
  Property C05 — segment names stay unique and name-addressed edits touch only their target.

  Theorems are about the executable model `BB.BP` (tied to /repo by the correspondence check and
  the generated guards `BB.Gen.durNonPositive`, `durSubSample`, `insertPosBad`).
  `Hist` is every way of obtaining a blueprint through the public API from the empty one:
  any mutator (accepted or rejected), `copy`, and `+` of two such blueprints.
-/
import BB.Proofs.Blueprint
import BB.Proofs.G2Blueprint
import BB.Proofs.G2Describe
import BB.Proofs.DictEq
import BB.Proofs.Copy
import Mathlib.Logic.ExistsUnique
import BB.Proofs.G12Names
import BB.Proofs.G12Loop

namespace BB.C05
open BB BB.BP
open BB.G2

/-- After any history, the name list is the canonical renumbering of its own base names. -/
theorem names_canonical (h : Hist) : makeNamesUnique h.eval.names = h.eval.names :=
  inv_reachable h

/-- After any history, segment names are pairwise distinct. -/
theorem names_distinct (h : Hist) : h.eval.names.Nodup :=
  inv_nodup (inv_reachable h)

/-- The naming rule: the segment at index `i` is called `base` if no earlier segment shares its
    base name, and `base ++ str(r+1)` if `r ≥ 1` earlier segments do (`renderL`). -/
theorem name_rule (h : Hist) (i : Nat) (hi : i < h.eval.names.length) :
    (h.eval.names[i]).toList =
      renderL (basenameL (h.eval.names[i]).toList)
        ((((h.eval.names.map String.toList).map basenameL).take i).count
          (basenameL (h.eval.names[i]).toList)) := by
  have hinv := inv_reachable h
  unfold BP.Inv at hinv
  generalize h.eval.names = ns at *
  have hlen : i < (ns.map String.toList).length := by simpa using hi
  have key := makeNamesUniqueL_getElem (ns.map String.toList) i hlen
  have e : ns[i] = String.ofList ((makeNamesUniqueL (ns.map String.toList))[i]'(by
      rw [makeNamesUniqueL_length]; exact hlen)) := by
    have : ns[i] = (makeNamesUnique ns)[i]'(by rw [makeNamesUnique_length]; exact hi) := by
      simp only [hinv]
    rw [this]
    simp [makeNamesUnique]
  have e2 := congrArg String.toList e
  rw [String.toList_ofList, key] at e2
  simpa using e2

/-- A base name never ends in a digit, so the suffix of a name can always be told apart. -/
theorem base_no_trailing_digit (s : String) : NoTrailingDigit (basenameL s.toList) :=
  basenameL_noTrailing _

/-- The number of segments and every per-segment record stay in step: names are a field of the
    segment record, so a name, function, argument tuple, duration and marker pair exist per segment
    by construction; renumbering changes names only. -/
theorem renumber_changes_names_only (segs : List Seg) :
    (renumber segs).map Seg.body = segs.map Seg.body ∧ (renumber segs).length = segs.length :=
  ⟨renumber_body segs, renumber_length segs⟩

/-! ### rejected single-segment edits leave the blueprint unchanged -/

theorem targets_false (b : BP) (name : String) : b.targets name false = (name, [name]) := rfl

theorem insert_rejected_unchanged (b : BP) (pos : Int) (fn : Fn) (args : List Val) (dur name : Val)
    (h : (b.insertSegment pos fn args dur name).err ≠ none) :
    (b.insertSegment pos fn args dur name).st = b := by
  unfold insertSegment at *
  grind

theorem remove_rejected_unchanged (b : BP) (name : String)
    (h : (b.removeSegment name).err ≠ none) : (b.removeSegment name).st = b := by
  unfold removeSegment at *
  grind

theorem changeArgOne_rejected_unchanged (b : BP) (nm : String) (arg value : Val)
    (h : (b.changeArgOne nm arg value).err ≠ none) : (b.changeArgOne nm arg value).st = b := by
  unfold changeArgOne at *
  grind

/-- `changeArg` on one segment (no `replaceeverywhere`): a rejected call changes nothing. -/
theorem changeArg_rejected_unchanged (b : BP) (name : String) (arg value : Val)
    (h : (b.changeArg name arg value false).err ≠ none) :
    (b.changeArg name arg value false).st = b := by
  have := changeArgOne_rejected_unchanged b name arg value
  unfold changeArg at *
  simp only [targets_false] at *
  unfold changeArgLoop at *
  unfold changeArgLoop at *
  grind

/-- `changeDuration` (with or without `replaceeverywhere`): a rejected call changes nothing. -/
theorem changeDuration_rejected_unchanged (b : BP) (name : String) (dur : Val) (all : Bool)
    (h : (b.changeDuration name dur all).err ≠ none) : (b.changeDuration name dur all).st = b := by
  unfold changeDuration at *
  grind

theorem setSegmentMarker_rejected_unchanged (b : BP) (name : String) (m : Mark) (mid : Int)
    (h : (b.setSegmentMarker name m mid).err ≠ none) : (b.setSegmentMarker name m mid).st = b := by
  unfold setSegmentMarker at *
  grind

theorem removeSegmentMarker_rejected_unchanged (b : BP) (name : String) (mid : Int)
    (h : (b.removeSegmentMarker name mid).err ≠ none) : (b.removeSegmentMarker name mid).st = b := by
  unfold removeSegmentMarker at *
  grind

/-! ### which durations are rejected (generated guards) -/

/-- `changeDuration` accepts exactly: a number, addressed at an existing segment (base), strictly
    positive, and at least one sample long when the blueprint has a sample rate. -/
theorem changeDuration_accepts_iff (b : BP) (name : String) (dur : Val) (all : Bool) :
    (b.changeDuration name dur all).err = none ↔
      ∃ d, dur = .num d ∧ b.names.contains (b.targets name all).1 = true ∧ 0 < d ∧
        (∀ r, b.SR = .num r → 1 ≤ d * r) := by
  unfold changeDuration
  constructor
  · intro h
    split at h
    · rename_i d
      split at h
      · simp at h
      · split at h
        · simp at h
        · split at h
          · simp at h
          · rename_i h1 h2 h3
            refine ⟨d, rfl, by simpa using h1, ?_, ?_⟩
            · simpa [Gen.durNonPositive, Rat.not_le] using h2
            · intro r hr
              simp only [durTooShort, hr, Gen.durSubSample, decide_eq_true_eq, Rat.not_lt] at h3
              exact h3
    · simp at h
  · rintro ⟨d, rfl, h1, h2, h3⟩
    simp only [h1, not_true_eq_false, if_false]
    have : Gen.durNonPositive d = false := by
      simp [Gen.durNonPositive, Rat.not_le]; exact h2
    simp only [this]
    have : durTooShort b.SR d = false := by
      unfold durTooShort
      split
      · rename_i r hr
        simp [Gen.durSubSample, Rat.not_lt]; exact h3 r hr
      · rfl
    simp [this]

/-- a position below -1 is rejected (generated guard) -/
theorem insert_pos_rejected (b : BP) (pos : Int) (fn : Fn) (args : List Val) (dur name : Val)
    (h : pos < -1) : (b.insertSegment pos fn args dur name).err = some .value := by
  unfold insertSegment
  have : Gen.insertPosBad pos = true := by simp [Gen.insertPosBad]; omega
  simp [this]

/-- a given name ending in a digit is rejected -/
theorem insert_digit_name_rejected (b : BP) (pos : Int) (fn : Fn) (args : List Val) (dur : Val)
    (s : String) (hs : s ≠ "") (hd : endsInDigit s = true) (hf : fn.special = false) (hp : ¬ pos < -1) :
    (b.insertSegment pos fn args dur (.str s)).err = some .value ∧
    (b.insertSegment pos fn args dur (.str s)).st = b := by
  unfold insertSegment
  have : Gen.insertPosBad pos = false := by simp [Gen.insertPosBad]; omega
  simp [this, insertName, hf, hs, hd]

/-! ### accepted edits change exactly the addressed attribute -/

/-- two segments with the same name are the same segment -/
theorem unique_target (h : Hist) (i j : Nat) (hi : i < h.eval.segs.length) (hj : j < h.eval.segs.length)
    (e : (h.eval.segs[i]).name = (h.eval.segs[j]).name) : i = j := by
  have nd := names_distinct h
  have hi' : i < h.eval.names.length := by simpa [names] using hi
  have hj' : j < h.eval.names.length := by simpa [names] using hj
  have e' : h.eval.names[i] = h.eval.names[j] := by simpa [names] using e
  exact (List.getElem_inj nd).mp e'

/-- `changeDuration(name, d)` accepted: the segment list is the old one with the duration of the
    segment(s) addressed set to `d` — same length, same order, every other field and every other
    segment untouched; markers and sample rate untouched. -/
theorem changeDuration_frame (b : BP) (name : String) (d : Rat) (all : Bool)
    (h : (b.changeDuration name (.num d) all).err = none) :
    (b.changeDuration name (.num d) all).st =
      { b with segs := b.segs.map (setDur (b.targets name all).2 d) } := by
  unfold changeDuration at *
  grind

/-- what `setDur` does to one segment: the duration of an addressed segment, nothing else -/
theorem setDur_spec (tgts : List String) (d : Rat) (s : Seg) :
    setDur tgts d s = if tgts.contains s.name then { s with dur := .num d } else s := rfl

/-- without `replaceeverywhere` the addressed set is the single segment called `name` -/
theorem targets_single (b : BP) (name : String) : (b.targets name false).2 = [name] := rfl

/-- with `replaceeverywhere` it is every segment sharing `name`'s base name -/
theorem targets_all (b : BP) (name : String) :
    (b.targets name true).2 = b.names.filter (fun nm => basename nm == basename name) := rfl

/-- `changeArg(name, arg, value)` on one segment, accepted: exactly argument `k` of exactly the
    segment `i` called `name` is replaced, where `k` is `arg` resolved against that segment's own
    function signature; nothing else changes. -/
theorem changeArg_frame (b : BP) (name : String) (arg value : Val)
    (h : (b.changeArg name arg value false).err = none) :
    ∃ i k seg, b.indexOf? name = some i ∧ b.segs[i]? = some seg ∧ argIndex seg arg = .ok k ∧
      k < seg.args.length ∧
      (b.changeArg name arg value false).st = b.modifySeg i (setArg k value) := by
  unfold changeArg at *
  simp only [targets_false] at *
  unfold changeArgLoop at *
  unfold changeArgLoop at *
  unfold changeArgOne at *
  grind

/-- what `modifySeg i (setArg k v)` does: only `args[k]` of segment `i` -/
theorem modifySeg_setArg_frame (b : BP) (i k : Nat) (v : Val) :
    (b.modifySeg i (setArg k v)).segs.length = b.segs.length ∧
    (∀ j (hj : j < b.segs.length), j ≠ i →
        (b.modifySeg i (setArg k v)).segs[j]'(by simp [modifySeg]; exact hj) = b.segs[j]) ∧
    (∀ (hi : i < b.segs.length),
        (b.modifySeg i (setArg k v)).segs[i]'(by simp [modifySeg]; exact hi) =
          { b.segs[i] with args := (b.segs[i]).args.set k v }) ∧
    (b.modifySeg i (setArg k v)).marker1 = b.marker1 ∧ (b.modifySeg i (setArg k v)).marker2 = b.marker2 ∧
    (b.modifySeg i (setArg k v)).SR = b.SR := by
  refine ⟨by simp [modifySeg], ?_, ?_, rfl, rfl, rfl⟩
  · intro j hj hne
    simp [modifySeg, List.getElem_modify, Ne.symm hne]
  · intro hi
    simp [modifySeg, List.getElem_modify, setArg]

/-- `setSegmentMarker(name, specs, id)` accepted: only that marker of that segment changes. -/
theorem setSegmentMarker_frame (b : BP) (name : String) (m : Mark) (mid : Int)
    (h : (b.setSegmentMarker name m mid).err = none) :
    ∃ i, b.indexOf? name = some i ∧ (mid = 1 ∨ mid = 2) ∧
      (b.setSegmentMarker name m mid).st = b.modifySeg i (setMark mid m) := by
  unfold setSegmentMarker at *
  grind

/-- `removeSegmentMarker(name, id)` is `setSegmentMarker(name, (0, 0), id)` on existing segments -/
theorem removeSegmentMarker_eq_set_zero (b : BP) (name : String) (mid : Int)
    (h : (b.removeSegmentMarker name mid).err = none) :
    (b.removeSegmentMarker name mid).st = (b.setSegmentMarker name (0, 0) mid).st := by
  unfold removeSegmentMarker setSegmentMarker at *
  grind

/-! ### Element delegation -/

/-! ### satisfiability of the hypotheses (non-vacuity) -/

/-- a concrete non-trivial history: names a, a2, b, a1b, a3 — bases with digits inside -/
def exampleHist : Hist :=
  let f : Fn := Fn.rampFn
  (((((Hist.empty.op (.insert (-1) f [.num 0, .num 1] (.num 1) (.str "a"))).op
      (.insert (-1) f [.num 0, .num 1] (.num 1) (.str "a"))).op
      (.insert (-1) f [.num 0, .num 1] (.num 1) (.str "b"))).op
      (.insert (-1) f [.num 0, .num 1] (.num 1) (.str "a1b"))).op
      (.insert 0 f [.num 0, .num 1] (.num 1) (.str "a")))

example : exampleHist.eval.names = ["a", "a2", "a3", "b", "a1b"] := by decide +kernel

example : ((exampleHist.eval.changeDuration "a2" (.num 3) false).err = none) := by decide +kernel
example : ((exampleHist.eval.changeArg "a3" (.str "stop") (.num 5) false).err = none) := by
  decide +kernel
example : ((exampleHist.eval.changeArg "zz" (.str "stop") (.num 5) false).err ≠ none) := by
  decide +kernel

/-! ## G2 additions -/

/-! ### unknown segment names are rejected, for every blueprint and every other input -/

/-- the name the implementation looks up first: `name`, or its base with `replaceeverywhere` -/
theorem targets_fst (b : BP) (name : String) (all : Bool) :
    (b.targets name all).1 = if all then basename name else name := by
  unfold targets; cases all <;> rfl

/-- **unknown segment, `changeArg`** (clause "An unknown segment ... is rejected with an exception"):
    for every blueprint, argument, value and both settings of `replaceeverywhere`, a name (base
    name) that is not in the name list raises ValueError and leaves the blueprint unchanged. -/
theorem changeArg_unknown_segment_rejected (b : BP) (name : String) (arg value : Val) (all : Bool)
    (h : (if all then basename name else name) ∉ b.names) :
    (b.changeArg name arg value all).err = some .value ∧ (b.changeArg name arg value all).st = b := by
  unfold changeArg
  rw [targets_fst]
  simp [h]

/-- **unknown segment, `changeDuration`**: for every blueprint, every duration value (numeric or
    not) and both settings of `replaceeverywhere`: ValueError, blueprint unchanged. -/
theorem changeDuration_unknown_segment_rejected (b : BP) (name : String) (dur : Val) (all : Bool)
    (h : (if all then basename name else name) ∉ b.names) :
    (b.changeDuration name dur all).err = some .value ∧ (b.changeDuration name dur all).st = b := by
  unfold changeDuration
  rw [targets_fst]
  cases dur <;> simp [h]

/-- **unknown segment, `setSegmentMarker`**: ValueError (from `list.index`), blueprint unchanged,
    for every marker spec and marker id. -/
theorem setSegmentMarker_unknown_segment_rejected (b : BP) (name : String) (m : Mark) (mid : Int)
    (h : name ∉ b.names) :
    (b.setSegmentMarker name m mid).err = some .value ∧ (b.setSegmentMarker name m mid).st = b := by
  unfold setSegmentMarker
  rw [(indexOf?_eq_none_iff b name).mpr h]
  split <;> simp

/-- **unknown segment, `removeSegmentMarker`**: rejected and blueprint unchanged for every marker
    id; with a valid id (1 or 2) the exception is the KeyError the code re-raises. -/
theorem removeSegmentMarker_unknown_segment_rejected (b : BP) (name : String) (mid : Int)
    (h : name ∉ b.names) :
    (b.removeSegmentMarker name mid).err ≠ none ∧ (b.removeSegmentMarker name mid).st = b ∧
    ((mid = 1 ∨ mid = 2) → (b.removeSegmentMarker name mid).err = some .key) := by
  unfold removeSegmentMarker
  rw [(indexOf?_eq_none_iff b name).mpr h]
  split
  · rename_i hm
    refine ⟨by simp, rfl, ?_⟩
    intro h12; omega
  · simp

/-- **unknown segment, `removeSegment`**: KeyError, blueprint unchanged. -/
theorem removeSegment_unknown_segment_rejected (b : BP) (name : String) (h : name ∉ b.names) :
    (b.removeSegment name).err = some .key ∧ (b.removeSegment name).st = b := by
  unfold removeSegment
  rw [(indexOf?_eq_none_iff b name).mpr h]
  simp

/-- conversely the three name-addressed marker/removal calls accept every existing name -/
theorem name_addressed_accept_iff (b : BP) (name : String) (m : Mark) (mid : Int) :
    ((b.removeSegment name).err = none ↔ name ∈ b.names) ∧
    ((b.setSegmentMarker name m mid).err = none ↔ (mid = 1 ∨ mid = 2) ∧ name ∈ b.names) ∧
    ((b.removeSegmentMarker name mid).err = none ↔ (mid = 1 ∨ mid = 2) ∧ name ∈ b.names) := by
  have hn := indexOf?_eq_none_iff b name
  refine ⟨?_, ?_, ?_⟩
  · unfold removeSegment
    cases hx : b.indexOf? name with
    | none => simp [hn.mp hx]
    | some i =>
      have : name ∈ b.names := (mem_names_iff_indexOf? b name).mpr ⟨i, hx⟩
      simp [this]
  · unfold setSegmentMarker
    cases hx : b.indexOf? name with
    | none =>
      have := hn.mp hx
      split <;> simp [this]
    | some i =>
      have : name ∈ b.names := (mem_names_iff_indexOf? b name).mpr ⟨i, hx⟩
      split
      · rename_i hm; simp; omega
      · rename_i hm; simp [this]; omega
  · unfold removeSegmentMarker
    cases hx : b.indexOf? name with
    | none =>
      have := hn.mp hx
      split <;> simp [this]
    | some i =>
      have : name ∈ b.names := (mem_names_iff_indexOf? b name).mpr ⟨i, hx⟩
      split
      · rename_i hm; simp; omega
      · rename_i hm; simp [this]; omega

example : "zz" ∉ exampleHist.eval.names ∧ basename "zz7" ∉ exampleHist.eval.names := by decide +kernel

/-! ### unknown arguments are rejected -/

/-- **`changeArg` on one segment is accepted exactly when** the name exists, the segment's
    function is a callable, the argument resolves against that function's signature and the
    resolved position exists in the stored argument tuple (`argOk`). -/
theorem changeArg_accepts_iff (b : BP) (name : String) (arg value : Val) :
    (b.changeArg name arg value false).err = none ↔
      ∃ i, ∃ hi : i < b.segs.length, b.indexOf? name = some i ∧ argOk arg b.segs[i] = true := by
  constructor
  · intro h
    obtain ⟨i, k, seg, hidx, hget, hk, hlt, _⟩ := changeArg_frame b name arg value h
    obtain ⟨hi, _⟩ := indexOf?_some b name i hidx
    refine ⟨i, hi, hidx, ?_⟩
    have hs : b.segs[i] = seg := by
      rw [List.getElem?_eq_getElem hi] at hget
      exact Option.some.inj hget
    rw [hs, argOk_iff]
    refine ⟨?_, k, hk, hlt⟩
    -- special functions raise
    unfold changeArg at h
    simp only [targets_false] at h
    unfold changeArgLoop at h
    unfold changeArgLoop at h
    unfold changeArgOne at h
    rw [hidx] at h
    simp only [hget] at h
    by_cases hsp : seg.fn.special = true
    · simp [hsp] at h
      split at h <;> simp at h
    · simpa using hsp
  · rintro ⟨i, hi, hidx, hok⟩
    have hone := (changeArgOne_of_index b name arg value i hi hidx).1 hok
    have hmem : name ∈ b.names := (mem_names_iff_indexOf? b name).mpr ⟨i, hidx⟩
    unfold changeArg
    simp only [targets_false]
    have : b.names.contains name = true := by simpa using hmem
    simp only [this, not_true_eq_false, if_false]
    unfold changeArgLoop
    rw [hone]
    simp [changeArgLoop]

/-- an argument *name* that is not a parameter of the segment's function does not resolve -/
theorem argOk_unknown_name (s : Seg) (a : String) (h : a ∉ s.fn.params) :
    argOk (.str a) s = false ∧ argIndex s (.str a) = .error .value := by
  unfold argOk argIndex
  simp [h]

/-- an argument *position* outside `range(len(signature) - 2)` does not resolve -/
theorem argOk_position_out_of_range (s : Seg) (n : Int)
    (h : n < 0 ∨ ((s.fn.params.length - 2 : Nat) : Int) ≤ n) :
    argOk (.num n) s = false ∧ argIndex s (.num n) = .error .value := by
  have hd : (n : Rat).den = 1 := Rat.den_intCast n
  have hn : (n : Rat).num = n := Rat.num_intCast n
  have : ¬ (0 ≤ n ∧ n.toNat < s.fn.params.length - 2) := by omega
  unfold argOk argIndex
  simp [hd, hn, this]

/-- **unknown argument name, `changeArg`** (clause "An unknown ... argument ... is rejected with an
    exception and a single-segment edit that is rejected leaves the blueprint unchanged"): for every
    blueprint, every existing segment `name` with a callable function, every string `a` that is not
    one of that function's parameters and every value: ValueError, blueprint unchanged. -/
theorem changeArg_unknown_argument_name_rejected (b : BP) (name a : String) (value : Val) (i : Nat)
    (hi : i < b.segs.length) (hidx : b.indexOf? name = some i)
    (hsp : (b.segs[i]).fn.special = false) (ha : a ∉ (b.segs[i]).fn.params) :
    (b.changeArg name (.str a) value false).err = some .value ∧
    (b.changeArg name (.str a) value false).st = b := by
  have hmem : name ∈ b.names := (mem_names_iff_indexOf? b name).mpr ⟨i, hidx⟩
  have hc : b.names.contains name = true := by simpa using hmem
  have hget : b.segs[i]? = some b.segs[i] := List.getElem?_eq_getElem hi
  have hk := (argOk_unknown_name b.segs[i] a ha).2
  unfold changeArg
  simp only [targets_false, hc, not_true_eq_false, if_false]
  unfold changeArgLoop changeArgOne
  simp [hidx, hget, hsp, hk]

/-- **out-of-range argument position, `changeArg`**: for every blueprint, every existing segment
    with a callable function and every integer position outside `range(#parameters - 2)`
    (negative positions included): ValueError, blueprint unchanged. -/
theorem changeArg_argument_position_rejected (b : BP) (name : String) (n : Int) (value : Val) (i : Nat)
    (hi : i < b.segs.length) (hidx : b.indexOf? name = some i)
    (hsp : (b.segs[i]).fn.special = false)
    (hn : n < 0 ∨ (((b.segs[i]).fn.params.length - 2 : Nat) : Int) ≤ n) :
    (b.changeArg name (.num n) value false).err = some .value ∧
    (b.changeArg name (.num n) value false).st = b := by
  have hmem : name ∈ b.names := (mem_names_iff_indexOf? b name).mpr ⟨i, hidx⟩
  have hc : b.names.contains name = true := by simpa using hmem
  have hget : b.segs[i]? = some b.segs[i] := List.getElem?_eq_getElem hi
  have hk := (argOk_position_out_of_range b.segs[i] n hn).2
  unfold changeArg
  simp only [targets_false, hc, not_true_eq_false, if_false]
  unfold changeArgLoop changeArgOne
  simp [hidx, hget, hsp, hk]

example : exampleHist.eval.indexOf? "a3" = some 2 ∧
    (exampleHist.eval.segs[2]!).fn.special = false ∧ "nope" ∉ (exampleHist.eval.segs[2]!).fn.params ∧
    (((exampleHist.eval.segs[2]!).fn.params.length - 2 : Nat) : Int) ≤ 2 := by decide +kernel

/-! ### `changeArg` with `replaceeverywhere = True` -/

/-- what an accepted `changeArg` does to an addressed segment: only `args[k]`, where `k` is `arg`
    resolved against that segment's own signature -/
theorem setArgOf_spec (arg value : Val) (s : Seg) (h : argOk arg s = true) :
    ∃ k, argIndex s arg = .ok k ∧ k < s.args.length ∧
      setArgOf arg value s = { s with args := s.args.set k value } := by
  obtain ⟨_, k, hk, hlt⟩ := (argOk_iff arg s).mp h
  exact ⟨k, hk, hlt, by simp [setArgOf, hk, setArg]⟩

/-- **`changeArg(name, arg, value, replaceeverywhere=True)`, acceptance**: for every blueprint with pairwise distinct names (in particular after any history) the
    call is accepted exactly when the base name is a segment name and *every* segment sharing the
    base name passes the per-segment checks (callable, argument known to its own signature). -/
theorem changeArg_all_accepts_iff_of_distinct (b : BP) (hnd : b.names.Nodup) (name : String) (arg value : Val) :
    (b.changeArg name arg value true).err = none ↔
      basename name ∈ b.names ∧
      ∀ s ∈ b.segs, basename s.name = basename name → argOk arg s = true := by
  have hl : (b.names.filter (fun nm => basename nm == basename name)).Nodup := hnd.filter _
  have hsub : ∀ nm ∈ b.names.filter (fun nm => basename nm == basename name), nm ∈ b.names :=
    fun nm hm => (List.mem_filter.mp hm).1
  have hspec := (changeArgLoop_spec b hnd _ hl hsub arg value).1
  have hcond : (∀ s ∈ b.segs, s.name ∈ b.names.filter (fun nm => basename nm == basename name) →
        argOk arg s = true) ↔ (∀ s ∈ b.segs, basename s.name = basename name → argOk arg s = true) := by
    constructor
    · intro hh s hs hb
      exact hh s hs (List.mem_filter.mpr ⟨mem_names_of_mem_segs b s hs, by simpa using hb⟩)
    · intro hh s hs hm
      exact hh s hs (by simpa using (List.mem_filter.mp hm).2)
  unfold changeArg
  rw [targets_all, targets_fst]
  by_cases hm : basename name ∈ b.names
  · simp only [if_true, List.contains_iff_mem, hm, not_true_eq_false, if_false, true_and]
    rw [hspec, hcond]
  · simp [hm]

/-- **`changeArg(name, arg, value, replaceeverywhere=True)`, effect** (clause "... of all segments
    with the same base name when replaceeverywhere is set ... to exactly the given value and change
    nothing else"): for every blueprint with pairwise distinct names (in particular after any history), an accepted call returns the old blueprint in which exactly
    the segments whose base name equals `name`'s base had `arg` (resolved against each segment's own
    signature) overwritten; all other segments, the order, the markers and the sample rate are the
    old ones. -/
theorem changeArg_all_frame_of_distinct (b : BP) (hnd : b.names.Nodup) (name : String) (arg value : Val)
    (hacc : (b.changeArg name arg value true).err = none) :
    (b.changeArg name arg value true).st =
      { b with segs := b.segs.map (fun s =>
          if basename s.name = basename name then setArgOf arg value s else s) } := by
  have hl : (b.names.filter (fun nm => basename nm == basename name)).Nodup := hnd.filter _
  have hsub : ∀ nm ∈ b.names.filter (fun nm => basename nm == basename name), nm ∈ b.names :=
    fun nm hm => (List.mem_filter.mp hm).1
  have hspec := (changeArgLoop_spec b hnd _ hl hsub arg value).2
  unfold changeArg at hacc ⊢
  rw [targets_all, targets_fst] at *
  by_cases hm : basename name ∈ b.names
  · simp only [if_true, List.contains_iff_mem, hm, not_true_eq_false, if_false] at hacc ⊢
    rw [hspec hacc]
    congr 1
    apply List.map_congr_left
    intro s hs
    have : s.name ∈ b.names.filter (fun nm => basename nm == basename name) ↔
        basename s.name = basename name := by
      rw [List.mem_filter]
      simp [mem_names_of_mem_segs b s hs]
    by_cases e : basename s.name = basename name
    · simp [e, this.mpr e]
    · simp [e, mt this.mp e]
  · simp [hm] at hacc

/-- the same, segment by segment: same number of segments; segment `j` is untouched unless its
    base name is `name`'s, in which case only `args[k_j]` changed, to `value`. -/
theorem changeArg_all_frame_pointwise_of_distinct (b : BP) (hnd : b.names.Nodup) (name : String) (arg value : Val)
    (hacc : (b.changeArg name arg value true).err = none) :
    (b.changeArg name arg value true).st.segs.length = b.segs.length ∧
    (b.changeArg name arg value true).st.marker1 = b.marker1 ∧
    (b.changeArg name arg value true).st.marker2 = b.marker2 ∧
    (b.changeArg name arg value true).st.SR = b.SR ∧
    ∀ j (hj : j < b.segs.length) (hj2 : j < (b.changeArg name arg value true).st.segs.length),
      (basename (b.segs[j]).name ≠ basename name →
        (b.changeArg name arg value true).st.segs[j] = b.segs[j]) ∧
      (basename (b.segs[j]).name = basename name →
        ∃ k, argIndex b.segs[j] arg = .ok k ∧ k < (b.segs[j]).args.length ∧
          (b.changeArg name arg value true).st.segs[j] =
            { b.segs[j] with args := (b.segs[j]).args.set k value }) := by
  have hfr := changeArg_all_frame_of_distinct b hnd name arg value hacc
  have hall := ((changeArg_all_accepts_iff_of_distinct b hnd name arg value).mp hacc).2
  generalize (b.changeArg name arg value true).st = r at *
  subst hfr
  refine ⟨by simp, rfl, rfl, rfl, ?_⟩
  intro j hj hj2
  constructor
  · intro hne
    simp [hne]
  · intro he
    obtain ⟨k, hk, hlt, hs⟩ := setArgOf_spec arg value _ (hall _ (List.getElem_mem hj) he)
    exact ⟨k, hk, hlt, by simp [he, hs]⟩

/-- non-vacuity: three segments share the base "a"; all get `stop := 5`, the other two stay -/
example : (exampleHist.eval.changeArg "a2" (.str "stop") (.num 5) true).err = none ∧
    ((exampleHist.eval.changeArg "a2" (.str "stop") (.num 5) true).st.segs.map (·.args)) =
      [[.num 0, .num 5], [.num 0, .num 5], [.num 0, .num 5], [.num 0, .num 1], [.num 0, .num 1]] := by
  decide +kernel

/-! ### exactly one segment is addressed -/

/-- for every blueprint with pairwise distinct names (in particular after any history) a name addresses exactly one position: `_namelist.index(name)` returns `i`
    iff segment `i` carries that name -/
theorem target_unique_of_distinct (b : BP) (hnd : b.names.Nodup) (name : String) (i : Nat) :
    b.indexOf? name = some i ↔ ∃ hi : i < b.segs.length, (b.segs[i]).name = name :=
  indexOf?_iff_of_nodup _ hnd name i

/-- **`changeDuration(name, d)` accepted, `∃!` form** (clause "set exactly the addressed attribute
    of exactly that segment ... and change nothing else"): for every blueprint with pairwise distinct names (in particular after any history) there is exactly one
    position `i` carrying `name`, and the new blueprint is the old one with the duration at `i`
    replaced by `d` (`List.set`: every other position, every other field, markers, SR untouched). -/
theorem changeDuration_single_existsUnique_of_distinct (b : BP) (hnd : b.names.Nodup) (name : String) (d : Rat)
    (hacc : (b.changeDuration name (.num d) false).err = none) :
    ∃! i, ∃ hi : i < b.segs.length, (b.segs[i]).name = name ∧
      (b.changeDuration name (.num d) false).st =
        { b with segs := b.segs.set i { b.segs[i] with dur := .num d } } := by
  have hfr := changeDuration_frame b name d false hacc
  obtain ⟨_, _, hmem, _⟩ := (changeDuration_accepts_iff b name (.num d) false).mp hacc
  have hmem' : name ∈ b.names := by simpa [targets_false] using hmem
  obtain ⟨i, hidx⟩ := (mem_names_iff_indexOf? b name).mp hmem'
  obtain ⟨hi, hname⟩ := indexOf?_some b name i hidx
  refine ⟨i, ⟨hi, hname, ?_⟩, ?_⟩
  · rw [hfr, targets_single]
    congr 1
    rw [← modify_eq_set b.segs i hi (fun s => { s with dur := .num d }),
      modify_eq_map_of_nodup b.segs (by simpa [names] using hnd) i hi, hname]
    apply List.map_congr_left
    intro s _
    simp [setDur]
  · rintro j ⟨hj, hjn, _⟩
    have := (indexOf?_iff_of_nodup b hnd name j).mpr ⟨hj, hjn⟩
    rw [hidx] at this
    exact (Option.some.inj this).symm

/-- **`changeArg(name, arg, value)` accepted, `∃!` form**: exactly one position carries `name`,
    exactly `args[k]` of that segment changes. -/
theorem changeArg_single_existsUnique_of_distinct (b : BP) (hnd : b.names.Nodup) (name : String) (arg value : Val)
    (hacc : (b.changeArg name arg value false).err = none) :
    ∃! i, ∃ hi : i < b.segs.length, (b.segs[i]).name = name ∧
      ∃ k, argIndex b.segs[i] arg = .ok k ∧ k < (b.segs[i]).args.length ∧
        (b.changeArg name arg value false).st =
          { b with
            segs := b.segs.set i { b.segs[i] with args := (b.segs[i]).args.set k value } } := by
  obtain ⟨i, k, seg, hidx, hget, hk, hlt, hst⟩ := changeArg_frame b name arg value hacc
  obtain ⟨hi, hname⟩ := indexOf?_some b name i hidx
  have hs : b.segs[i] = seg := by
    rw [List.getElem?_eq_getElem hi] at hget
    exact Option.some.inj hget
  subst hs
  refine ⟨i, ⟨hi, hname, k, hk, hlt, ?_⟩, ?_⟩
  · rw [hst]
    unfold modifySeg
    rw [modify_eq_set _ _ hi]
    rfl
  · rintro j ⟨hj, hjn, _⟩
    have := (indexOf?_iff_of_nodup b hnd name j).mpr ⟨hj, hjn⟩
    rw [hidx] at this
    exact (Option.some.inj this).symm

/-- **`setSegmentMarker(name, specs, id)` accepted, `∃!` form**: exactly one position carries `name`;
    exactly the marker `id` of that segment is set to `specs`. -/
theorem setSegmentMarker_existsUnique_of_distinct (b : BP) (hnd : b.names.Nodup) (name : String) (m : Mark) (mid : Int)
    (hacc : (b.setSegmentMarker name m mid).err = none) :
    ∃! i, ∃ hi : i < b.segs.length, (b.segs[i]).name = name ∧
      (b.setSegmentMarker name m mid).st =
        { b with
          segs := b.segs.set i
                    (if mid = 1 then { b.segs[i] with m1 := m } else { b.segs[i] with m2 := m }) } := by
  obtain ⟨i, hidx, _, hst⟩ := setSegmentMarker_frame b name m mid hacc
  obtain ⟨hi, hname⟩ := indexOf?_some b name i hidx
  refine ⟨i, ⟨hi, hname, ?_⟩, ?_⟩
  · rw [hst]
    unfold modifySeg
    rw [modify_eq_set _ _ hi]
    rfl
  · rintro j ⟨hj, hjn, _⟩
    have := (indexOf?_iff_of_nodup b hnd name j).mpr ⟨hj, hjn⟩
    rw [hidx] at this
    exact (Option.some.inj this).symm

example : (exampleHist.eval.setSegmentMarker "a1b" (1, 2) 2).err = none := by decide +kernel

/-! ### Element delegation (`Element.changeArg` / `Element.changeDuration`) -/

/-- the common body of `Element.changeArg` and `Element.changeDuration`: on a channel holding a
    blueprint the operation `f` is run on that blueprint — the exception raised is `f`'s, the
    channel's new blueprint is `f`'s result (flags kept), every other channel, the channel order and
    the cached `(SR, duration)` are untouched -/
theorem element_withBP_delegates (e : Element) (ch : Chan) (f : BP → Res BP) (ent : ChEntry) (b : BP)
    (hget : Dict.get? e.chans ch = some ent) (hb : ent.data = .bp b) :
    (e.withBP ch f).err = (f b).err ∧
    Dict.get? (e.withBP ch f).st.chans ch = some { ent with data := .bp (f b).st } ∧
    (∀ ch2, ch2 ≠ ch → Dict.get? (e.withBP ch f).st.chans ch2 = Dict.get? e.chans ch2) ∧
    Dict.keys (e.withBP ch f).st.chans = Dict.keys e.chans ∧
    (e.withBP ch f).st.cache = e.cache := by
  have hk : ch ∈ Dict.keys e.chans := by
    rw [← Dict.get?_isSome_iff, hget]; rfl
  unfold Element.withBP
  simp only [hget, hb]
  exact ⟨trivial, Dict.get?_upsert_self _ _ _, fun ch2 hne => Dict.get?_upsert_other _ _ _ _ hne,
    Dict.keys_upsert_of_mem _ _ _ hk, trivial⟩

/-- **`Element.changeArg` delegates** (clause "... also when issued through an Element"): for every
    element, channel holding a blueprint `b`, and all arguments: the call raises exactly what
    `b.changeArg` raises and the channel then holds exactly `b.changeArg`'s result; nothing else in
    the element changes. -/
theorem element_changeArg_delegates (e : Element) (ch : Chan) (name : String) (arg value : Val) (all : Bool)
    (ent : ChEntry) (b : BP) (hget : Dict.get? e.chans ch = some ent) (hb : ent.data = .bp b) :
    (e.changeArg ch name arg value all).err = (b.changeArg name arg value all).err ∧
    Dict.get? (e.changeArg ch name arg value all).st.chans ch =
      some { ent with data := .bp (b.changeArg name arg value all).st } ∧
    (∀ ch2, ch2 ≠ ch → Dict.get? (e.changeArg ch name arg value all).st.chans ch2 = Dict.get? e.chans ch2) ∧
    Dict.keys (e.changeArg ch name arg value all).st.chans = Dict.keys e.chans ∧
    (e.changeArg ch name arg value all).st.cache = e.cache :=
  element_withBP_delegates e ch (fun b => b.changeArg name arg value all) ent b hget hb

/-- **`Element.changeDuration` delegates**: same statement for `changeDuration`. -/
theorem element_changeDuration_delegates (e : Element) (ch : Chan) (name : String) (dur : Val) (all : Bool)
    (ent : ChEntry) (b : BP) (hget : Dict.get? e.chans ch = some ent) (hb : ent.data = .bp b) :
    (e.changeDuration ch name dur all).err = (b.changeDuration name dur all).err ∧
    Dict.get? (e.changeDuration ch name dur all).st.chans ch =
      some { ent with data := .bp (b.changeDuration name dur all).st } ∧
    (∀ ch2, ch2 ≠ ch → Dict.get? (e.changeDuration ch name dur all).st.chans ch2 = Dict.get? e.chans ch2) ∧
    Dict.keys (e.changeDuration ch name dur all).st.chans = Dict.keys e.chans ∧
    (e.changeDuration ch name dur all).st.cache = e.cache :=
  element_withBP_delegates e ch (fun b => b.changeDuration name dur all) ent b hget hb

/-- a channel that does not exist or holds no blueprint: ValueError, element unchanged -/
theorem element_edit_no_blueprint_rejected (e : Element) (ch : Chan) (f : BP → Res BP)
    (h : ∀ ent, Dict.get? e.chans ch = some ent → ∀ b, ent.data ≠ .bp b) :
    (e.withBP ch f).err = some .value ∧ (e.withBP ch f).st = e := by
  unfold Element.withBP
  cases hg : Dict.get? e.chans ch with
  | none => simp
  | some ent =>
    have := h ent hg
    cases hd : ent.data with
    | bp b => exact absurd hd (this b)
    | arr a s => simp
    | broken => simp

/-- consequently a rejected single-segment edit issued through an Element leaves the element's
    channel entry as it was, and an accepted one changes exactly the addressed attribute of the
    addressed segment of that channel's blueprint (combine with `changeArg_frame`,
    `changeDuration_frame`, `changeArg_all_frame`). -/
theorem element_changeArg_rejected_unchanged (e : Element) (ch : Chan) (name : String) (arg value : Val)
    (ent : ChEntry) (b : BP) (hget : Dict.get? e.chans ch = some ent) (hb : ent.data = .bp b)
    (hrej : (e.changeArg ch name arg value false).err ≠ none) :
    Dict.get? (e.changeArg ch name arg value false).st.chans ch = some ent := by
  obtain ⟨herr, hst, _⟩ := element_changeArg_delegates e ch name arg value false ent b hget hb
  rw [herr] at hrej
  rw [hst, changeArg_rejected_unchanged b name arg value hrej, ← hb]

/-- clause "a single-segment edit that is rejected leaves the blueprint unchanged", issued through
    `Element.changeDuration`: the channel entry is exactly the old one -/
theorem element_changeDuration_rejected_unchanged (e : Element) (ch : Chan) (name : String) (dur : Val)
    (all : Bool) (ent : ChEntry) (b : BP) (hget : Dict.get? e.chans ch = some ent) (hb : ent.data = .bp b)
    (hrej : (e.changeDuration ch name dur all).err ≠ none) :
    Dict.get? (e.changeDuration ch name dur all).st.chans ch = some ent := by
  obtain ⟨herr, hst, _⟩ := element_changeDuration_delegates e ch name dur all ent b hget hb
  rw [herr] at hrej
  rw [hst, changeDuration_rejected_unchanged b name dur all hrej, ← hb]

/-- non-vacuity: an element with a blueprint on channel 1 and a raw array on channel "x" -/
def exampleElement : Element :=
  ((({} : Element).addBluePrint (.int 1) exampleHist.eval).st.addArray (.str "x") [1, 2] (.num 1) []).st

example : Dict.get? exampleElement.chans (.int 1) = some { data := .bp exampleHist.eval } ∧
    (exampleElement.changeArg (.int 1) "a3" (.str "stop") (.num 5) false).err = none ∧
    (exampleElement.changeDuration (.int 1) "zz" (.num 5) false).err = some .value ∧
    (exampleElement.changeDuration (.str "x") "a" (.num 5) false).err = some .value := by
  decide +kernel

/-! ### the description holds one record per segment, in order -/

/-- the record `BluePrint.description` holds for one segment -/
def segRecord (s : Seg) : J :=
  J.obj
    [ ("name", .str s.name)
    , ("function", .str s.fn.qual)
    , ("durations", J.ofVal s.dur)
    , ("arguments",
        if s.fn.isWait then J.obj [("waittime", .arr (s.args.map J.ofVal))]
        else J.obj ((s.fn.params.zip s.args).map (fun (p, a) => (p, J.ofVal a)))) ]

/-- **description** (clause "the description holds exactly one name, function, argument tuple,
    duration and pair of segment markers per segment, in order"): for every blueprint the description
    is the list of `length_segments` segment records — the `i`-th under the key `segment_{i+1:02d}`
    carrying segment `i`'s name, function, duration and arguments — followed by the two absolute
    marker lists and the two segment-marker lists, which hold segment `i`'s marker pair at index `i`. -/
theorem toDesc_one_record_per_segment (b : BP) :
    ∃ recs : List (String × J), ∃ r1 r2 : List J,
      b.toDesc = J.obj (recs ++
        [ ("marker1_abs", .arr (b.marker1.map J.ofMark)), ("marker2_abs", .arr (b.marker2.map J.ofMark))
        , ("marker1_rel", .arr r1), ("marker2_rel", .arr r2) ]) ∧
      recs.length = b.segs.length ∧ r1.length = b.segs.length ∧ r2.length = b.segs.length ∧
      ∀ i (hi : i < b.segs.length) (h0 : i < recs.length) (h1 : i < r1.length) (h2 : i < r2.length),
        recs[i] = (segKey (i + 1), segRecord b.segs[i]) ∧
        r1[i] = J.ofMark (b.segs[i]).m1 ∧ r2[i] = J.ofMark (b.segs[i]).m2 := by
  refine ⟨_, _, _, rfl, by simp, by simp, by simp, ?_⟩
  intro i hi h0 h1 h2
  simp [segRecord]

/-- the segment keys `segment_01, segment_02, ...` are pairwise distinct, so "one record per
    segment" is not blurred by a dict-key collision (for every number of segments) -/
theorem segment_keys_distinct (n m : Nat) (h : segKey n = segKey m) : n = m :=
  segKey_injective n m h

/-! ### the same statements for blueprints reached through the public API -/

/-- **`changeArg(..., replaceeverywhere=True)` after any history: acceptance** -/
theorem changeArg_all_accepts_iff (h : Hist) (name : String) (arg value : Val) :
    (h.eval.changeArg name arg value true).err = none ↔
      basename name ∈ h.eval.names ∧
      ∀ s ∈ h.eval.segs, basename s.name = basename name → argOk arg s = true :=
  changeArg_all_accepts_iff_of_distinct _ (names_distinct h) name arg value

/-- **`changeArg(..., replaceeverywhere=True)` after any history: effect** — exactly the segments
    sharing `name`'s base name get `arg` (resolved per segment) set to `value`; nothing else changes. -/
theorem changeArg_all_frame (h : Hist) (name : String) (arg value : Val)
    (hacc : (h.eval.changeArg name arg value true).err = none) :
    (h.eval.changeArg name arg value true).st =
      { h.eval with segs := h.eval.segs.map (fun s =>
          if basename s.name = basename name then setArgOf arg value s else s) } :=
  changeArg_all_frame_of_distinct _ (names_distinct h) name arg value hacc

/-- after any history a name addresses exactly one position -/
theorem target_unique (h : Hist) (name : String) (i : Nat) :
    h.eval.indexOf? name = some i ↔ ∃ hi : i < h.eval.segs.length, (h.eval.segs[i]).name = name :=
  target_unique_of_distinct _ (names_distinct h) name i

/-- **accepted `changeDuration(name, d)` after any history, `∃!` form** -/
theorem changeDuration_single_existsUnique (h : Hist) (name : String) (d : Rat)
    (hacc : (h.eval.changeDuration name (.num d) false).err = none) :
    ∃! i, ∃ hi : i < h.eval.segs.length, (h.eval.segs[i]).name = name ∧
      (h.eval.changeDuration name (.num d) false).st =
        { h.eval with segs := h.eval.segs.set i { h.eval.segs[i] with dur := .num d } } :=
  changeDuration_single_existsUnique_of_distinct _ (names_distinct h) name d hacc

/-- **accepted `changeArg(name, arg, value)` after any history, `∃!` form** -/
theorem changeArg_single_existsUnique (h : Hist) (name : String) (arg value : Val)
    (hacc : (h.eval.changeArg name arg value false).err = none) :
    ∃! i, ∃ hi : i < h.eval.segs.length, (h.eval.segs[i]).name = name ∧
      ∃ k, argIndex h.eval.segs[i] arg = .ok k ∧ k < (h.eval.segs[i]).args.length ∧
        (h.eval.changeArg name arg value false).st =
          { h.eval with
            segs := h.eval.segs.set i { h.eval.segs[i] with args := (h.eval.segs[i]).args.set k value } } :=
  changeArg_single_existsUnique_of_distinct _ (names_distinct h) name arg value hacc

/-- **accepted `setSegmentMarker(name, specs, id)` after any history, `∃!` form** -/
theorem setSegmentMarker_existsUnique (h : Hist) (name : String) (m : Mark) (mid : Int)
    (hacc : (h.eval.setSegmentMarker name m mid).err = none) :
    ∃! i, ∃ hi : i < h.eval.segs.length, (h.eval.segs[i]).name = name ∧
      (h.eval.setSegmentMarker name m mid).st =
        { h.eval with
          segs := h.eval.segs.set i
                    (if mid = 1 then { h.eval.segs[i] with m1 := m } else { h.eval.segs[i] with m2 := m }) } :=
  setSegmentMarker_existsUnique_of_distinct _ (names_distinct h) name m mid hacc

/-- after any history, "the base name is a segment name" (what the code tests with
    `replaceeverywhere`) means exactly "some segment has this base name" -/
theorem base_known_iff (h : Hist) (name : String) :
    basename name ∈ h.eval.names ↔ ∃ s ∈ h.eval.segs, basename s.name = basename name := by
  constructor
  · intro hm
    obtain ⟨s, hs, e⟩ := List.mem_map.mp hm
    exact ⟨s, hs, by rw [e, basename_idem]⟩
  · rintro ⟨s, hs, e⟩
    rw [← e]
    exact base_mem_names (inv_reachable h) _ (mem_names_of_mem_segs _ s hs)

/-- **unknown base name with `replaceeverywhere`** (clause "An unknown segment ... is rejected"):
    after any history, if no segment has `name`'s base name then `changeArg` and `changeDuration`
    with `replaceeverywhere=True` raise ValueError and leave the blueprint unchanged — for every
    argument, value and duration. -/
theorem replaceeverywhere_unknown_base_rejected (h : Hist) (name : String) (arg value dur : Val)
    (hno : ∀ s ∈ h.eval.segs, basename s.name ≠ basename name) :
    ((h.eval.changeArg name arg value true).err = some .value ∧
      (h.eval.changeArg name arg value true).st = h.eval) ∧
    ((h.eval.changeDuration name dur true).err = some .value ∧
      (h.eval.changeDuration name dur true).st = h.eval) := by
  have hn : basename name ∉ h.eval.names := by
    intro hm
    obtain ⟨s, hs, e⟩ := (base_known_iff h name).mp hm
    exact hno s hs e
  exact ⟨changeArg_unknown_segment_rejected _ name arg value true (by simpa using hn),
    changeDuration_unknown_segment_rejected _ name dur true (by simpa using hn)⟩

example : ∀ s ∈ exampleHist.eval.segs, basename s.name ≠ basename "zz7" := by decide +kernel

/-! ### `BluePrint.__init__` from lists -/

/-- `BluePrint(funlist, argslist, namelist, marker1, marker2, segmentmarker1, segmentmarker2, SR,
    durslist)` for input lists of equal length, given as a list of segment records whose `name`
    field is the name *passed in*: a non-empty name ending in a digit is a ValueError; special
    segments take their protected name, empty names the function's `__name__`; then
    `_make_names_unique`.  (Lists of unequal lengths raise ValueError before anything else and have
    no counterpart here.) -/
def initFromLists (segs : List Seg) (m1 m2 : List Mark) (sr : Val) : Except Err BP :=
  if segs.any (fun s => s.name ≠ "" && endsInDigit s.name) then .error .value
  else .ok { segs := renumber (segs.map (fun s => { s with name := initName s s.name }))
             marker1 := m1, marker2 := m2, SR := sr }

/-- histories that may also start from (or add, or continue from) a blueprint constructed from
    lists; a constructor call that raises produces no object, modelled as the empty blueprint -/
inductive HistI where
  | empty
  | init (segs : List Seg) (m1 m2 : List Mark) (sr : Val)
  | op (h : HistI) (o : Op)
  | copy (h : HistI)
  | add (h₁ h₂ : HistI)

/-- the blueprint a history with constructor calls produces -/
def HistI.eval : HistI → BP
  | .empty => {}
  | .init segs m1 m2 sr => match initFromLists segs m1 m2 sr with | .ok b => b | .error _ => {}
  | .op h o => (h.eval.step o).st
  | .copy h => h.eval.copy
  | .add h₁ h₂ => h₁.eval.add h₂.eval

/-- every `Hist` is a `HistI` -/
def HistI.ofHist : Hist → HistI
  | .empty => .empty
  | .op h o => .op (ofHist h) o
  | .copy h => .copy (ofHist h)
  | .add h₁ h₂ => .add (ofHist h₁) (ofHist h₂)

/-- ... and evaluates to the same blueprint, so `HistI` only adds blueprints -/
theorem histI_eval_ofHist (h : Hist) : (HistI.ofHist h).eval = h.eval := by
  induction h with
  | empty => rfl
  | op h o ih => simp [HistI.ofHist, HistI.eval, Hist.eval, ih]
  | copy h ih => simp [HistI.ofHist, HistI.eval, Hist.eval, ih]
  | add h₁ h₂ ih₁ ih₂ => simp [HistI.ofHist, HistI.eval, Hist.eval, ih₁, ih₂]

/-- the constructor produces canonically numbered names -/
theorem inv_initFromLists (segs : List Seg) (m1 m2 : List Mark) (sr : Val) (b : BP)
    (h : initFromLists segs m1 m2 sr = .ok b) : Inv b := by
  unfold initFromLists at h
  split at h
  · simp at h
  · simp only [Except.ok.injEq] at h
    subst h
    exact inv_renumber { segs := [], marker1 := m1, marker2 := m2, SR := sr } _

/-- **names stay canonical / distinct for histories that include `BluePrint.__init__` from lists**
    (clause "After any history ... segment names are pairwise distinct"). -/
theorem names_canonical_with_init (h : HistI) :
    makeNamesUnique h.eval.names = h.eval.names ∧ h.eval.names.Nodup := by
  have hinv : Inv h.eval := by
    induction h with
    | empty => exact inv_empty
    | init segs m1 m2 sr =>
      unfold HistI.eval
      cases hi : initFromLists segs m1 m2 sr with
      | ok b => exact inv_initFromLists segs m1 m2 sr b hi
      | error e => exact inv_empty
    | op h o ih => exact inv_step ih o
    | copy h _ => exact inv_copy _
    | add h₁ h₂ _ _ => exact inv_add _ _
  exact ⟨hinv, inv_nodup hinv⟩

/-- what the constructor produces besides the names: one segment per input record, every field
    except the name as given, in order; markers and SR as given -/
theorem initFromLists_body (segs : List Seg) (m1 m2 : List Mark) (sr : Val) (b : BP)
    (h : initFromLists segs m1 m2 sr = .ok b) :
    b.segs.map Seg.body = segs.map Seg.body ∧ b.segs.length = segs.length ∧
    b.marker1 = m1 ∧ b.marker2 = m2 ∧ b.SR = sr := by
  unfold initFromLists at h
  split at h
  · simp at h
  · simp only [Except.ok.injEq] at h
    subst h
    refine ⟨?_, by simp [renumber_length], rfl, rfl, rfl⟩
    rw [renumber_body]
    simp [Seg.body, Function.comp_def]

/-- a given name ending in a digit is refused by the constructor -/
theorem initFromLists_digit_name_rejected (segs : List Seg) (m1 m2 : List Mark) (sr : Val) (s : Seg)
    (hs : s ∈ segs) (hne : s.name ≠ "") (hd : endsInDigit s.name = true) :
    initFromLists segs m1 m2 sr = .error .value := by
  unfold initFromLists
  have : segs.any (fun s => s.name ≠ "" && endsInDigit s.name) = true := by
    rw [List.any_eq_true]
    exact ⟨s, hs, by simp [hne, hd]⟩
  rw [if_pos this]

/-- non-vacuity: names ["a", "", "a", "b"] with ramp functions become a, ramp, a2, b; every
    `_of_distinct` theorem above applies to such blueprints through `names_canonical_with_init` -/
example : (HistI.init
      [ { name := "a", fn := Fn.rampFn, args := [.num 0, .num 1], dur := .num 1 }
      , { name := "", fn := Fn.rampFn, args := [.num 0, .num 1], dur := .num 1 }
      , { name := "a", fn := Fn.rampFn, args := [.num 0, .num 1], dur := .num 1 }
      , { name := "b", fn := Fn.rampFn, args := [.num 0, .num 1], dur := .num 1 } ] [] [] (.num 10)).eval.names
    = ["a", "ramp", "a2", "b"] := by decide +kernel


/-- **`Element.description`** (observation point of the property): the entry of a blueprint channel
    is exactly that blueprint's `description` — hence one record per segment, in order, by
    `toDesc_one_record_per_segment` — with the channel's flags appended as a last field when set. -/
theorem element_description_of_blueprint_channel (b : BP) (fl : List Nat) :
    Element.chanDesc { data := .bp b, flags := none } = .ok b.toDesc ∧
    ∃ fields, b.toDesc = J.obj fields ∧
      Element.chanDesc { data := .bp b, flags := some fl } =
        .ok (J.obj (fields ++ [("flags", Element.flagsJ fl)])) := by
  constructor
  · simp [Element.chanDesc, BP.toDesc, pure, Except.pure]
  · exact ⟨_, rfl, by simp [Element.chanDesc, BP.toDesc, pure, Except.pure]⟩

end BB.C05

/-! ## G12: the name invariant for blueprints held by elements and sequences; rejected
    `replaceeverywhere` edits -/

namespace BB.C05
open BB BB.BP
open BB.G2

/-- **`addBluePrint` stores a copy with canonical names, whatever it is given** (clause "After any
    history of ... copying segments, segment names are pairwise distinct", for the copy an Element
    takes): for every element, channel and *every* blueprint value `b` with at least one segment
    (canonically named or not), the call is accepted, the channel then holds `b.copy`, and the
    stored blueprint's names are canonical and pairwise distinct. -/
theorem addBluePrint_stores_canonical_copy (e : Element) (ch : Chan) (b : BP) (hne : b.segs.isEmpty = false) :
    (e.addBluePrint ch b).err = none ∧
    Dict.get? (e.addBluePrint ch b).st.chans ch = some { data := .bp b.copy } ∧
    makeNamesUnique b.copy.names = b.copy.names ∧ b.copy.names.Nodup := by
  unfold Element.addBluePrint
  simp only [hne, Bool.false_eq_true, if_false]
  exact ⟨trivial, Dict.get?_upsert_self _ _ _, inv_copy b, inv_nodup (inv_copy b)⟩

/-- **the name invariant for every blueprint an API-built element holds** (clause "After any history
    ... segment names are pairwise distinct - the k-th segment sharing a base name is called base for
    k=1 and base+str(k) otherwise ..., also when issued through an Element"): for every element built
    through the public element API (`Element.ApiBuilt`: `addBluePrint` of *arbitrary* blueprint
    values, `addArray`, `addFlags`, `Element.changeArg`, `Element.changeDuration` - accepted or
    rejected -, `validateDurations`, `_applyDelays`, `copy`) and every channel holding a blueprint
    `b`: `b`'s name list is its own canonical renumbering, and pairwise distinct.  Hence every
    `..._of_distinct` theorem above applies to `b`. -/
theorem element_blueprints_canonical (e : Element) (h : Element.ApiBuilt e) (ch : Chan) (ent : ChEntry) (b : BP)
    (hget : Dict.get? e.chans ch = some ent) (hb : ent.data = .bp b) :
    makeNamesUnique b.names = b.names ∧ b.names.Nodup := by
  have hinv : Inv b := G12.apiBuilt_elInv h (ch, ent) (Dict.mem_of_get?_eq_some ch ent hget) b hb
  exact ⟨hinv, inv_nodup hinv⟩

/-- **... and for every blueprint inside an API-built sequence**: for every sequence built through
    the public sequence API (`Sequence.ApiBuilt`), every element stored at a position and every
    element inside a stored subsequence, every channel holding a blueprint `b`: `b`'s names are
    canonical and pairwise distinct. -/
theorem sequence_blueprints_canonical (s : Sequence) (h : Sequence.ApiBuilt s) :
    (∀ p e ch ent b, Dict.get? s.data p = some (.el e) → Dict.get? e.chans ch = some ent → ent.data = .bp b →
      makeNamesUnique b.names = b.names ∧ b.names.Nodup) ∧
    (∀ p (sub : SubSeq) q e ch ent b, Dict.get? s.data p = some (.sub sub) → Dict.get? sub.data q = some e →
      Dict.get? e.chans ch = some ent → ent.data = .bp b →
      makeNamesUnique b.names = b.names ∧ b.names.Nodup) := by
  have hi := G12.apiBuilt_seq_elInv h
  refine ⟨fun p e ch ent b hp hc hb => ?_, fun p sub q e ch ent b hp hq hc hb => ?_⟩
  · have hinv : Inv b :=
      (hi _ (Dict.mem_of_get?_eq_some p _ hp)).1 e rfl (ch, ent) (Dict.mem_of_get?_eq_some ch ent hc) b hb
    exact ⟨hinv, inv_nodup hinv⟩
  · have hinv : Inv b :=
      (hi _ (Dict.mem_of_get?_eq_some p _ hp)).2 sub rfl _ (Dict.mem_of_get?_eq_some q e hq) (ch, ent)
        (Dict.mem_of_get?_eq_some ch ent hc) b hb
    exact ⟨hinv, inv_nodup hinv⟩

/-- **`Element.changeArg(..., replaceeverywhere=True)` on an API-built element** (clause "... of all
    segments with the same base name when replaceeverywhere is set ... and change nothing else, also
    when issued through an Element"): the call raises exactly when the blueprint call does; when
    accepted, the channel holds the old blueprint in which exactly the segments sharing `name`'s base
    name had `arg` set to `value`; every other channel, the channel order and the flags are untouched. -/
theorem element_changeArg_all_frame (e : Element) (h : Element.ApiBuilt e) (ch : Chan) (name : String)
    (arg value : Val) (ent : ChEntry) (b : BP) (hget : Dict.get? e.chans ch = some ent) (hb : ent.data = .bp b)
    (hacc : (e.changeArg ch name arg value true).err = none) :
    Dict.get? (e.changeArg ch name arg value true).st.chans ch =
      some { ent with data := .bp { b with segs := b.segs.map (fun s =>
          if basename s.name = basename name then setArgOf arg value s else s) } } ∧
    (∀ ch2, ch2 ≠ ch → Dict.get? (e.changeArg ch name arg value true).st.chans ch2 = Dict.get? e.chans ch2) ∧
    Dict.keys (e.changeArg ch name arg value true).st.chans = Dict.keys e.chans := by
  obtain ⟨herr, hst, hoth, hkeys, _⟩ := element_changeArg_delegates e ch name arg value true ent b hget hb
  rw [herr] at hacc
  have hnd := (element_blueprints_canonical e h ch ent b hget hb).2
  rw [changeArg_all_frame_of_distinct b hnd name arg value hacc] at hst
  exact ⟨hst, hoth, hkeys⟩

/-- **what a rejected `changeArg(name, arg, value, replaceeverywhere=True)` leaves behind** (the
    property promises "unchanged" only for a rejected *single-segment* edit; this is what the loop
    over several segments does).  For every blueprint with pairwise distinct names: either `name`'s
    base name is no segment name - ValueError, nothing changed -, or there is a first segment `j`
    (in blueprint order) sharing the base name that does not take the argument.  Then the exception
    is the one the loop step on segment `j` raises, every segment sharing the base name *in front
    of* `j` already carries `value` (they all took the argument), and segment `j`, every segment
    behind it and every segment with another base name are exactly the old ones; the number of
    segments, the markers and the sample rate are unchanged. -/
theorem changeArg_all_rejected_changes_only_front (b : BP) (hnd : b.names.Nodup) (name : String) (arg value : Val)
    (hrej : (b.changeArg name arg value true).err ≠ none) :
    (basename name ∉ b.names ∧ (b.changeArg name arg value true).st = b) ∨
    ∃ (j : ℕ) (hj : j < b.segs.length),
      basename (b.segs[j]).name = basename name ∧ argOk arg b.segs[j] = false ∧
      (∀ i (hi : i < b.segs.length), i < j → basename (b.segs[i]).name = basename name →
        argOk arg b.segs[i] = true) ∧
      (b.changeArg name arg value true).err = (b.changeArgOne (b.segs[j]).name arg value).err ∧
      (b.changeArg name arg value true).st.segs.length = b.segs.length ∧
      (b.changeArg name arg value true).st.marker1 = b.marker1 ∧
      (b.changeArg name arg value true).st.marker2 = b.marker2 ∧
      (b.changeArg name arg value true).st.SR = b.SR ∧
      ∀ i (hi : i < b.segs.length) (hi2 : i < (b.changeArg name arg value true).st.segs.length),
        (b.changeArg name arg value true).st.segs[i] =
          if i < j ∧ basename (b.segs[i]).name = basename name then setArgOf arg value b.segs[i]
          else b.segs[i] := by
  rcases G12.changeArg_all_rejected b hnd name arg value hrej with h | ⟨j, hj, hbase, hbad, hmin, herr, hst⟩
  · exact .inl h
  · right
    refine ⟨j, hj, hbase, hbad, hmin, herr, ?_⟩
    generalize (b.changeArg name arg value true).st = r at hst
    subst hst
    refine ⟨by simp, rfl, rfl, rfl, ?_⟩
    intro i hi hi2
    simp only [List.getElem_map]
    have hin : i < b.names.length := by rw [names_length]; exact hi
    have hni : b.names[i] = (b.segs[i]).name := names_getElem b i hi
    have hiff : (b.segs[i]).name ∈ (b.names.take j).filter (fun nm => basename nm == basename name) ↔
        i < j ∧ basename (b.segs[i]).name = basename name := by
      rw [List.mem_filter, ← hni, G12.getElem_mem_take_iff b.names hnd i j hin]
      simp
    by_cases hc : i < j ∧ basename (b.segs[i]).name = basename name
    · rw [if_pos (hiff.mpr hc), if_pos hc]
    · rw [if_neg (fun hm => hc (hiff.mp hm)), if_neg hc]

/-- the same after any history of public blueprint calls -/
theorem changeArg_all_rejected_after_history (h : Hist) (name : String) (arg value : Val)
    (hrej : (h.eval.changeArg name arg value true).err ≠ none) :
    (basename name ∉ h.eval.names ∧ (h.eval.changeArg name arg value true).st = h.eval) ∨
    ∃ (j : ℕ) (hj : j < h.eval.segs.length),
      basename (h.eval.segs[j]).name = basename name ∧ argOk arg h.eval.segs[j] = false ∧
      ∀ i (hi : i < h.eval.segs.length) (hi2 : i < (h.eval.changeArg name arg value true).st.segs.length),
        (h.eval.changeArg name arg value true).st.segs[i] =
          if i < j ∧ basename (h.eval.segs[i]).name = basename name then setArgOf arg value h.eval.segs[i]
          else h.eval.segs[i] := by
  rcases changeArg_all_rejected_changes_only_front h.eval (names_distinct h) name arg value hrej with
    h1 | ⟨j, hj, hb, hbad, _, _, _, _, _, _, hall⟩
  · exact .inl h1
  · exact .inr ⟨j, hj, hb, hbad, hall⟩

/-- a callable with sine's signature (no parameter called "stop") -/
def g12Sine : Fn :=
  { special := false, name := "sine", qual := "function PulseAtoms.sine",
    params := ["freq", "ampl", "off", "phase", "SR", "npts"], shape := .call }

/-- ramp "a", sine "a2", ramp "a3": the three share the base name "a" -/
def g12Hist : Hist :=
  ((Hist.empty.op (.insert (-1) Fn.rampFn [.num 0, .num 1] (.num 1) (.str "a"))).op
      (.insert (-1) g12Sine [.num 1, .num 1, .num 0, .num 0] (.num 1) (.str "a"))).op
      (.insert (-1) Fn.rampFn [.num 0, .num 1] (.num 1) (.str "a"))

/-- **witness: a rejected `replaceeverywhere` edit does change the blueprint.**  `changeArg("a",
    "stop", 5, replaceeverywhere=True)` on ramp a / sine a2 / ramp a3 raises ValueError at `a2`
    (sine has no `stop`), after `a` has already been given `stop = 5`; `a3` behind the failing
    segment keeps `stop = 1`.  So "a rejected edit leaves the blueprint unchanged" is true for
    single-segment edits only, as the property says. -/
theorem changeArg_all_rejected_witness :
    g12Hist.eval.names = ["a", "a2", "a3"] ∧
    (g12Hist.eval.changeArg "a" (.str "stop") (.num 5) true).err = some .value ∧
    (g12Hist.eval.changeArg "a" (.str "stop") (.num 5) true).st ≠ g12Hist.eval ∧
    (g12Hist.eval.changeArg "a" (.str "stop") (.num 5) true).st.segs.map (·.args) =
      [[.num 0, .num 5], [.num 1, .num 1, .num 0, .num 0], [.num 0, .num 1]] := by
  refine ⟨by decide +kernel, by decide +kernel, by decide +kernel, by decide +kernel⟩

/-- non-vacuity of `element_blueprints_canonical` / `element_changeArg_all_frame` /
    `sequence_blueprints_canonical`: an API-built element whose blueprint came in with
    *non-canonical* names (a, a, b7 - never produced by the blueprint API) holds it as a, a2, b;
    and an API-built sequence storing that element -/
def g12RawBP : BP :=
  { segs := [ { name := "a", fn := Fn.rampFn, args := [.num 0, .num 1], dur := .num 1 },
              { name := "a", fn := Fn.rampFn, args := [.num 0, .num 1], dur := .num 1 },
              { name := "b7", fn := Fn.rampFn, args := [.num 0, .num 1], dur := .num 1 } ],
    SR := .num 10 }
def g12Element : Element := (({} : Element).addBluePrint (.int 1) g12RawBP).st

theorem g12Element_built : Element.ApiBuilt g12Element := .addBluePrint _ _ _ .empty

example : g12RawBP.names = ["a", "a", "b7"] ∧
    (match Dict.get? g12Element.chans (.int 1) with
      | some ⟨.bp b, _⟩ => b.names
      | _ => []) = ["a", "a2", "b"] ∧
    (g12Element.changeArg (.int 1) "a2" (.str "stop") (.num 5) true).err = none ∧
    Sequence.ApiBuilt (Sequence.addElement (SeqCore.setSR {} (.num 10)) 1 g12Element).st ∧
    (Sequence.addElement (SeqCore.setSR {} (.num 10)) 1 g12Element).err = none := by
  refine ⟨by decide +kernel, by decide +kernel, by decide +kernel,
    .addElement _ _ _ (.setSpec _ _ _ .empty) g12Element_built, by decide +kernel⟩

/-! ### edits issued through `sequence.element(pos)` -/

/-- **`sequence.element(pos).changeArg(...)` delegates** (`Tools.modifyElement`, the model of editing
    the stored element in place): at a position holding an element `e` the call raises exactly what
    `e.changeArg` raises, the position then holds `e.changeArg`'s result, every other position is
    untouched (combine with `element_changeArg_delegates` for the channel's blueprint) -/
theorem sequence_element_changeArg_delegates (s : Sequence) (pos : ℤ) (e : Element)
    (hg : Dict.get? s.data pos = some (.el e)) (ch : Chan) (name : String) (arg value : Val) (all : Bool) :
    (Tools.modifyElement s pos (fun e => e.changeArg ch name arg value all)).err =
      (e.changeArg ch name arg value all).err ∧
    Dict.get? (Tools.modifyElement s pos (fun e => e.changeArg ch name arg value all)).st.data pos =
      some (.el (e.changeArg ch name arg value all).st) ∧
    ∀ p, p ≠ pos →
      Dict.get? (Tools.modifyElement s pos (fun e => e.changeArg ch name arg value all)).st.data p =
        Dict.get? s.data p := by
  unfold Tools.modifyElement
  simp only [hg]
  exact ⟨trivial, Dict.get?_upsert_self _ _ _, fun p hp => Dict.get?_upsert_other _ _ _ _ hp⟩

/-- **`sequence.element(pos).changeDuration(...)` delegates**: same statement -/
theorem sequence_element_changeDuration_delegates (s : Sequence) (pos : ℤ) (e : Element)
    (hg : Dict.get? s.data pos = some (.el e)) (ch : Chan) (name : String) (dur : Val) (all : Bool) :
    (Tools.modifyElement s pos (fun e => e.changeDuration ch name dur all)).err =
      (e.changeDuration ch name dur all).err ∧
    Dict.get? (Tools.modifyElement s pos (fun e => e.changeDuration ch name dur all)).st.data pos =
      some (.el (e.changeDuration ch name dur all).st) ∧
    ∀ p, p ≠ pos →
      Dict.get? (Tools.modifyElement s pos (fun e => e.changeDuration ch name dur all)).st.data p =
        Dict.get? s.data p := by
  unfold Tools.modifyElement
  simp only [hg]
  exact ⟨trivial, Dict.get?_upsert_self _ _ _, fun p hp => Dict.get?_upsert_other _ _ _ _ hp⟩

/-- **the name invariant with in-place edits of stored elements**: for every sequence built through
    the public sequence API *and* any number of `sequence.element(pos).changeArg / changeDuration`
    calls in between (`G12.SeqBuiltE`; accepted or rejected, with or without `replaceeverywhere`),
    every blueprint inside a stored element - at an element position or inside a stored subsequence -
    has canonical, pairwise distinct names -/
theorem sequence_blueprints_canonical_with_element_edits (s : Sequence) (h : G12.SeqBuiltE s) :
    (∀ p e ch ent b, Dict.get? s.data p = some (.el e) → Dict.get? e.chans ch = some ent → ent.data = .bp b →
      makeNamesUnique b.names = b.names ∧ b.names.Nodup) ∧
    (∀ p (sub : SubSeq) q e ch ent b, Dict.get? s.data p = some (.sub sub) → Dict.get? sub.data q = some e →
      Dict.get? e.chans ch = some ent → ent.data = .bp b →
      makeNamesUnique b.names = b.names ∧ b.names.Nodup) := by
  have hi := G12.seqBuiltE_elInv h
  refine ⟨fun p e ch ent b hp hc hb => ?_, fun p sub q e ch ent b hp hq hc hb => ?_⟩
  · have hinv : Inv b :=
      (hi _ (Dict.mem_of_get?_eq_some p _ hp)).1 e rfl (ch, ent) (Dict.mem_of_get?_eq_some ch ent hc) b hb
    exact ⟨hinv, inv_nodup hinv⟩
  · have hinv : Inv b :=
      (hi _ (Dict.mem_of_get?_eq_some p _ hp)).2 sub rfl _ (Dict.mem_of_get?_eq_some q e hq) (ch, ent)
        (Dict.mem_of_get?_eq_some ch ent hc) b hb
    exact ⟨hinv, inv_nodup hinv⟩

/-- non-vacuity: the API-built sequence above with its stored element edited in place
    (`element(1).changeArg(1, "a2", "stop", 5)`, accepted), then a second element added -/
example : G12.SeqBuiltE
      (Sequence.addElement
        (Tools.modifyElement (Sequence.addElement (SeqCore.setSR {} (.num 10)) 1 g12Element).st 1
          (fun e => e.changeArg (.int 1) "a2" (.str "stop") (.num 5) false)).st 2 g12Element).st ∧
    (Tools.modifyElement (Sequence.addElement (SeqCore.setSR {} (.num 10)) 1 g12Element).st 1
      (fun e => e.changeArg (.int 1) "a2" (.str "stop") (.num 5) false)).err = none :=
  ⟨.addElement _ _ _ (.elementChangeArg _ _ _ _ _ _ _ (.addElement _ _ _ (.setSpec _ _ _ .empty) g12Element_built))
      g12Element_built, by decide +kernel⟩

end BB.C05
