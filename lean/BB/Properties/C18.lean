/-
  Property C18 — forged structure is schema-valid; subsequences forge like stand-alone sequences;
  nested / wrong-rate subsequences are refused; points and duration recurse into subsequences.

  The model's forged structure is typed (`ForgedPos`: sequencing, type flag, content list with an
  optional inner sequencing), so the *shape* clauses of the published schema are carried by the
  type; what the theorems add is which entries there are and where their values come from.  That
  the real dictionary (flags included) validates against `fs_schema` is decided on the
  implementation by the correspondence check, which runs `fs_schema.validate` on every forged
  result.
-/
import Mathlib.Tactic.Ring
import BB.Proofs.DictEq
import BB.Model.Sequence
import BB.Proofs.ForgeSeq
import BB.Proofs.G4Seq
import BB.Proofs.G4Frame
import BB.Proofs.G4Schema
import BB.Proofs.G4Example
import BB.Proofs.G13Seq

namespace BB.C18
open BB BB.Sequence

/-! ### the forged structure, position by position -/

/-- `forge` returns one entry per position, labelled 1..N in order -/
theorem forge_positions (s : Sequence) (d f t : Bool) (out : List (Nat × ForgedPos)) (h : s.forge d f t = .ok out) :
    out.length = s.data.length ∧ ∀ i (hi : i < out.length), (out[i]).1 = i + 1 :=
  ⟨(forge_pos s d f t out h).1, fun i hi => forge_labels s d f t out h i hi⟩

/-- an element position: the position's sequencing entry, type 'element', exactly one content entry
    (numbered 1, no sequencing of its own) with the arrays of the — delayed, if requested — element
    and the declared filters attached where requested -/
theorem forge_element_position (s : Sequence) (d f t : Bool) (out : List (Nat × ForgedPos)) (h : s.forge d f t = .ok out)
    (i : Nat) (hi : i < out.length) (e : Element) (he : Dict.get? s.data ((i + 1 : Nat) : Int) = some (.el e)) :
    ∃ e' arr c sq, delayedEl s d e = .ok e' ∧ e'.getArrays t = .ok arr ∧ s.withFilters f arr = .ok c ∧
      Dict.get? s.sequencing ((i + 1 : Nat) : Int) = some sq ∧
      out[i] = (i + 1, { sequencing := sq, isSub := false, content := [(1, c, none)] }) := by
  obtain ⟨en, hen, hpos⟩ := (forge_pos s d f t out h).2 i hi
  rw [he] at hen
  cases hen
  exact forgePos_element s d f t (i + 1) e _ hpos

/-- a subsequence position: the position's sequencing entry, type 'subsequence', one content
    entry per subsequence position 1..n with that position's own sequencing entry -/
theorem forge_subsequence_position (s : Sequence) (d f t : Bool) (out : List (Nat × ForgedPos)) (h : s.forge d f t = .ok out)
    (i : Nat) (hi : i < out.length) (sub : SubSeq) (he : Dict.get? s.data ((i + 1 : Nat) : Int) = some (.sub sub)) :
    ∃ sq, Dict.get? s.sequencing ((i + 1 : Nat) : Int) = some sq ∧ (out[i]).2.sequencing = sq ∧ (out[i]).2.isSub = true ∧
      (out[i]).2.content.length = sub.data.length ∧
      ∀ j (hj : j < (out[i]).2.content.length), ∃ c q2,
        Dict.get? sub.sequencing ((j + 1 : Nat) : Int) = some q2 ∧ (out[i]).2.content[j] = (j + 1, c, some q2) := by
  obtain ⟨en, hen, hpos⟩ := (forge_pos s d f t out h).2 i hi
  rw [he] at hen
  cases hen
  obtain ⟨sq, h1, _, h3, h4, h5, h6⟩ := forgePos_sub s d f t (i + 1) sub _ hpos
  refine ⟨sq, h1, h3, h4, h5, fun j hj => ?_⟩
  obtain ⟨_, _, _, c, q2, _, _, _, _, hq, hc⟩ := h6 j hj
  exact ⟨c, q2, hq, hc⟩

theorem get?_map_el (d : Dict Int Element) (k : Int) :
    Dict.get? (d.map (fun pe => (pe.1, Entry.el pe.2))) k = (Dict.get? d k).map Entry.el := by
  induction d with
  | nil => rfl
  | cons x xs ih =>
    unfold Dict.get? at *
    simp only [List.map_cons, List.find?_cons]
    by_cases hk : x.1 = k
    · simp [hk]
    · simp only [hk, decide_false]
      exact ih

/-- **a subsequence forges exactly like the same subsequence forged on its own under the parent's
    delay and filter settings**: if both forge, content entry `j` of the subsequence position is
    (position `j+1`, the arrays of the stand-alone result's position `j+1`, its sequencing entry) -/
theorem forge_subsequence_standalone (s : Sequence) (d f t : Bool) (out : List (Nat × ForgedPos))
    (h : s.forge d f t = .ok out) (i : Nat) (hi : i < out.length) (sub : SubSeq)
    (he : Dict.get? s.data ((i + 1 : Nat) : Int) = some (.sub sub))
    (out' : List (Nat × ForgedPos)) (h' : (asSequence s sub).forge d f t = .ok out') :
    (out[i]).2.content.length = out'.length ∧
    ∀ j (hj : j < (out[i]).2.content.length) (hj' : j < out'.length), ∃ c q2,
      (out[i]).2.content[j] = (j + 1, c, some q2) ∧
      out'[j] = (j + 1, { sequencing := q2, isSub := false, content := [(1, c, none)] }) := by
  obtain ⟨en, hen, hpos⟩ := (forge_pos s d f t out h).2 i hi
  rw [he] at hen
  cases hen
  obtain ⟨_, _, _, _, _, hlen, _⟩ := forgePos_sub s d f t (i + 1) sub _ hpos
  obtain ⟨hl', hpos'⟩ := forge_pos (asSequence s sub) d f t out' h'
  have hl'' : out'.length = sub.data.length := by simpa [asSequence] using hl'
  refine ⟨by omega, fun j hj hj' => ?_⟩
  obtain ⟨e, c, q2, hge, hc, hst⟩ := sub_content_standalone s d f t (i + 1) sub _ hpos j hj
  obtain ⟨en', hen', hp'⟩ := hpos' j hj'
  have : Dict.get? (asSequence s sub).data ((j + 1 : Nat) : Int) = some (.el e) := by
    simp only [asSequence]
    rw [get?_map_el, hge]; rfl
  rw [this] at hen'
  cases hen'
  rw [hst] at hp'
  exact ⟨c, q2, hc, (Except.ok.inj hp').symm⟩

/-! ### addSubSequence: what is refused, what is stored -/

/-- the argument's own store holds a subsequence -/
def Nested (sub : Sequence) : Prop := ∃ p s, (p, Entry.sub s) ∈ sub.data

theorem elementsOnly_none_iff (d : Dict Int Entry) :
    elementsOnly d = none ↔ ∃ p s, (p, Entry.sub s) ∈ d := by
  induction d with
  | nil => simp [elementsOnly]
  | cons x xs ih =>
    obtain ⟨p, en⟩ := x
    cases en with
    | el e =>
      simp only [elementsOnly, Option.map_eq_none_iff, ih, List.mem_cons, Prod.mk.injEq, reduceCtorEq, and_false,
        false_or]
    | sub s =>
      simp only [elementsOnly, List.mem_cons, Prod.mk.injEq, true_iff]
      exact ⟨p, s, Or.inl ⟨rfl, rfl⟩⟩

theorem elementsOnly_some (d : Dict Int Entry) (l : Dict Int Element) (h : elementsOnly d = some l) :
    d = l.map (fun (p, e) => (p, Entry.el e)) := by
  induction d generalizing l with
  | nil => simp [elementsOnly] at h; subst h; rfl
  | cons x xs ih =>
    obtain ⟨p, en⟩ := x
    cases en with
    | sub _ => simp [elementsOnly] at h
    | el e =>
      simp only [elementsOnly, Option.map_eq_some_iff] at h
      obtain ⟨l', hl', rfl⟩ := h
      simp [ih l' hl']

/-- a nested subsequence is refused with ValueError and the store is unchanged -/
theorem addSub_nested_refused (s : Sequence) (pos : Int) (sub : Sequence) (h : Nested sub) :
    (s.addSubSequence pos sub).err = some .value ∧ (s.addSubSequence pos sub).st = s := by
  unfold addSubSequence
  rw [(elementsOnly_none_iff sub.data).mpr h]
  exact ⟨rfl, rfl⟩

/-- a subsequence with a different sample rate is refused with ValueError, store unchanged -/
theorem addSub_SR_refused (s : Sequence) (pos : Int) (sub : Sequence) (h : sub.getSR ≠ s.getSR) :
    (s.addSubSequence pos sub).err = some .value ∧ (s.addSubSequence pos sub).st = s := by
  unfold addSubSequence
  split
  · exact ⟨rfl, rfl⟩
  · simp [h]

/-- acceptance is exactly: no nesting and the same sample rate -/
theorem addSub_accepted_iff (s : Sequence) (pos : Int) (sub : Sequence) :
    (s.addSubSequence pos sub).err = none ↔ ¬ Nested sub ∧ sub.getSR = s.getSR := by
  constructor
  · intro h
    constructor
    · intro hn; rw [(addSub_nested_refused s pos sub hn).1] at h; cases h
    · by_contra hsr; rw [(addSub_SR_refused s pos sub hsr).1] at h; cases h
  · rintro ⟨hn, hsr⟩
    unfold addSubSequence
    split
    · rename_i h; exact absurd ((elementsOnly_none_iff _).mp h) hn
    · simp [hsr]

/-- an accepted subsequence is stored (as a copy: elements, sequencing, settings; not the name)
    at the position, with the default sequencing entry; nothing else changes -/
theorem addSub_accepted (s : Sequence) (pos : Int) (sub : Sequence)
    (h : (s.addSubSequence pos sub).err = none) :
    ∃ d : Dict Int Element,
      sub.data = d.map (fun (p, e) => (p, Entry.el e)) ∧
      Dict.get? (s.addSubSequence pos sub).st.data pos = some (.sub (storedSub sub d)) ∧
      Dict.get? (s.addSubSequence pos sub).st.sequencing pos = some defaultSeqSub ∧
      (s.addSubSequence pos sub).st.awgspecs = s.awgspecs ∧
      (∀ p, p ≠ pos → Dict.get? (s.addSubSequence pos sub).st.data p = Dict.get? s.data p) := by
  obtain ⟨hn, hsr⟩ := (addSub_accepted_iff s pos sub).mp h
  unfold addSubSequence
  cases hd : elementsOnly sub.data with
  | none => exact absurd ((elementsOnly_none_iff _).mp hd) hn
  | some d =>
    simp only [hsr, ne_eq, not_true_eq_false, if_false]
    exact ⟨d, elementsOnly_some _ _ hd, Dict.get?_upsert_self _ _ _, Dict.get?_upsert_self _ _ _, trivial,
      fun p hp => Dict.get?_upsert_other _ _ _ _ hp⟩

/-! ### points and duration account for subsequence content -/

/-- summing with `foldlM`: every entry must succeed, the result is the sum -/
theorem foldlM_add_int {α} (f : α → Except Err Int) (l : List α) (acc : Int) (vals : List Int)
    (h : l.mapM f = .ok vals) (g : Int → α → Except Err Int)
    (hg : ∀ a x, g a x = (f x).map (fun v => a + v)) :
    l.foldlM g acc = .ok (acc + vals.sum) := by
  induction l generalizing acc vals with
  | nil =>
    simp only [List.mapM_nil, pure, Except.pure, Except.ok.injEq] at h
    subst h; simp [List.foldlM, pure, Except.pure]
  | cons x xs ih =>
    simp only [List.mapM_cons, bind, Except.bind] at h
    cases hx : f x with
    | error e => simp [hx] at h
    | ok v =>
      simp only [hx] at h
      cases hxs : xs.mapM f with
      | error e => simp [hxs] at h
      | ok vs =>
        simp only [hxs, pure, Except.pure, Except.ok.injEq] at h
        subst h
        simp only [List.foldlM_cons, bind, Except.bind, hg, hx, Except.map]
        rw [ih _ vs hxs]
        simp only [List.sum_cons]
        congr 1; ring

theorem step_eq_map {α} (f : α → Except Err Int) (a : Int) (x : α) :
    (do pure (a + (← f x)) : Except Err Int) = (f x).map (fun v => a + v) := by
  cases h : f x <;> simp [h, bind, Except.bind, Except.map, pure, Except.pure]

/-- `Sequence.points` is the sum of the points of every entry — an element's points, or
    recursively the points of a subsequence's elements -/
theorem points_sum (s : Sequence) (vals : List Int) (h : (Dict.vals s.data).mapM Entry.points = .ok vals) :
    s.points = .ok vals.sum := by
  unfold Sequence.points
  have := foldlM_add_int Entry.points (Dict.vals s.data) 0 vals h _ (fun a x => step_eq_map Entry.points a x)
  simpa using this

theorem subseq_points_sum (s : SubSeq) (vals : List Int) (h : (Dict.vals s.data).mapM Element.points = .ok vals) :
    s.points = .ok vals.sum := by
  unfold SubSeq.points
  have := foldlM_add_int Element.points (Dict.vals s.data) 0 vals h _ (fun a x => step_eq_map Element.points a x)
  simpa using this

theorem foldlM_add_rat {α} (f : α → Except Err Rat) (l : List α) (acc : Rat) (vals : List Rat)
    (h : l.mapM f = .ok vals) (g : Rat → α → Except Err Rat)
    (hg : ∀ a x, g a x = (f x).map (fun v => a + v)) :
    l.foldlM g acc = .ok (acc + vals.sum) := by
  induction l generalizing acc vals with
  | nil =>
    simp only [List.mapM_nil, pure, Except.pure, Except.ok.injEq] at h
    subst h; simp [List.foldlM, pure, Except.pure]
  | cons x xs ih =>
    simp only [List.mapM_cons, bind, Except.bind] at h
    cases hx : f x with
    | error e => simp [hx] at h
    | ok v =>
      simp only [hx] at h
      cases hxs : xs.mapM f with
      | error e => simp [hxs] at h
      | ok vs =>
        simp only [hxs, pure, Except.pure, Except.ok.injEq] at h
        subst h
        simp only [List.foldlM_cons, bind, Except.bind, hg, hx, Except.map]
        rw [ih _ vs hxs]
        simp only [List.sum_cons]
        congr 1; ring

/-- `Sequence.duration` is the sum over positions of repetitions × entry duration, recursing into
    subsequences -/
theorem duration_sum (s : Sequence) (vals : List Rat) (h : s.data.mapM (posDuration s) = .ok vals) :
    s.duration = .ok vals.sum := by
  unfold Sequence.duration
  have := foldlM_add_rat (posDuration s) s.data 0 vals h _ (fun a x => rfl)
  simpa using this

/-- what one position contributes: `nrep · duration(entry)` -/
theorem posDuration_spec (s : Sequence) (pos : Int) (en : Entry) (q : SeqSet) (d : Rat)
    (hq : Dict.get? s.sequencing pos = some q) (hd : en.duration = .ok d) :
    posDuration s (pos, en) = .ok ((q.nrep : Rat) * d) := by
  simp [posDuration, hq, hd, Except.map]

/-! ### the stand-alone forge of a subsequence succeeds whenever the parent's does -/

/-- **parent forge ok ⇒ stand-alone forge ok**: whenever `forge` succeeds on a sequence that holds
    a subsequence at position `i+1`, forging that subsequence on its own — as a sequence under the
    parent's AWG settings, with the same options — succeeds as well -/
theorem forge_subsequence_standalone_ok (s : Sequence) (d f t : Bool) (out : List (Nat × ForgedPos))
    (h : s.forge d f t = .ok out) (i : Nat) (hi : i < out.length) (sub : SubSeq)
    (he : Dict.get? s.data ((i + 1 : Nat) : Int) = some (.sub sub)) :
    ∃ out', (asSequence s sub).forge d f t = .ok out' := by
  obtain ⟨hc, _⟩ := g4_forge_ok_consistent s d f t out h
  obtain ⟨hsr, hsc, e1, he1⟩ := g4_sub_consistent s hc _ sub he
  obtain ⟨en, hen, hpos⟩ := (forge_pos s d f t out h).2 i hi
  rw [he] at hen
  cases hen
  obtain ⟨_, _, _, _, _, hlen, _⟩ := forgePos_sub s d f t (i + 1) sub _ hpos
  have hcs := asSequence_consistent s sub hsr hsc
  -- the result: one element position per content entry
  refine ⟨(out[i]).2.content.map (fun c =>
    (c.1, ({ sequencing := c.2.2.getD default, isSub := false, content := [(1, c.2.1, none)] } : ForgedPos))), ?_⟩
  apply g4_forge_intro _ _ _ _ _ hcs
  · unfold Sequence.channels
    simp only [hcs, bind, Except.bind, Bool.not_true, Bool.false_eq_true, if_false]
    have : Dict.get? (asSequence s sub).data 1 = some (.el e1) := by
      simp only [asSequence]
      rw [get_map_el_g4, he1]; rfl
    rw [this]
    exact ⟨_, rfl⟩
  · simp [asSequence, hlen]
  · intro j hj
    have hj' : j < (out[i]).2.content.length := by simpa using hj
    obtain ⟨e, c, q2, hge, hcj, hst⟩ := sub_content_standalone s d f t (i + 1) sub _ hpos j hj'
    refine ⟨.el e, ?_, ?_⟩
    · simp only [asSequence]
      rw [get_map_el_g4, hge]; rfl
    · rw [hst]
      simp only [List.getElem_map, hcj, Option.getD_some]

/-- **a subsequence forges exactly like the same subsequence forged on its own** (no hypothesis
    on the stand-alone forge): the stand-alone forge under the parent's settings succeeds, and
    content entry `j` of the subsequence position is (position `j+1`, the arrays of the
    stand-alone result's position `j+1`, its sequencing entry) -/
theorem forge_subsequence_is_standalone (s : Sequence) (d f t : Bool) (out : List (Nat × ForgedPos))
    (h : s.forge d f t = .ok out) (i : Nat) (hi : i < out.length) (sub : SubSeq)
    (he : Dict.get? s.data ((i + 1 : Nat) : Int) = some (.sub sub)) :
    ∃ out', (asSequence s sub).forge d f t = .ok out' ∧
      (out[i]).2.content.length = out'.length ∧
      ∀ j (hj : j < (out[i]).2.content.length) (hj' : j < out'.length), ∃ c q2,
        (out[i]).2.content[j] = (j + 1, c, some q2) ∧
        out'[j] = (j + 1, { sequencing := q2, isSub := false, content := [(1, c, none)] }) := by
  obtain ⟨out', h'⟩ := forge_subsequence_standalone_ok s d f t out h i hi sub he
  exact ⟨out', h', forge_subsequence_standalone s d f t out h i hi sub he out' h'⟩

/-! ### flags and the time option -/

/-- **flags survive delays and filters; the time axis is there exactly when requested** (element
    position): forged channel `k` is the stored element's `k`-th channel, carries exactly the flags
    stored for that channel — whether or not delays and filters are applied —, and carries the
    time axis (and segment durations) iff `includetime` was requested -/
theorem forge_element_flags_time (s : Sequence) (d f t : Bool) (out : List (Nat × ForgedPos)) (h : s.forge d f t = .ok out)
    (i : Nat) (hi : i < out.length) (e : Element) (he : Dict.get? s.data ((i + 1 : Nat) : Int) = some (.el e)) :
    ∃ c sq, out[i] = (i + 1, { sequencing := sq, isSub := false, content := [(1, c, none)] }) ∧
      c.length = e.chans.length ∧
      ∀ k (hk : k < e.chans.length) (hc : k < c.length),
        (c[k]).1 = (e.chans[k]).1 ∧ chFlags (c[k]).2 = (e.chans[k]).2.flags ∧ (c[k]).2.out.timeAsRequested t := by
  obtain ⟨e', arr, c, sq, h1, h2, h3, _, h5⟩ := forge_element_position s d f t out h i hi e he
  obtain ⟨hl, hall⟩ := element_output_frame s d f t e e' arr c h1 h2 h3
  refine ⟨c, sq, h5, hl, fun k hk hc => ?_⟩
  obtain ⟨a1, a2, a3, _⟩ := hall k hk hc
  refine ⟨a1, ?_, a3⟩
  rw [← a2]
  unfold chFlags Element.ChOut.flags
  cases (c[k]).2.out <;> rfl

/-- the same inside a subsequence: content entry `j` holds the channels of the subsequence's
    element `j+1`, each with its stored flags and the time axis as requested -/
theorem forge_subsequence_flags_time (s : Sequence) (d f t : Bool) (out : List (Nat × ForgedPos)) (h : s.forge d f t = .ok out)
    (i : Nat) (hi : i < out.length) (sub : SubSeq) (he : Dict.get? s.data ((i + 1 : Nat) : Int) = some (.sub sub))
    (j : Nat) (hj : j < (out[i]).2.content.length) :
    ∃ e c q2, Dict.get? sub.data ((j + 1 : Nat) : Int) = some e ∧ (out[i]).2.content[j] = (j + 1, c, some q2) ∧
      c.length = e.chans.length ∧
      ∀ k (hk : k < e.chans.length) (hc : k < c.length),
        (c[k]).1 = (e.chans[k]).1 ∧ chFlags (c[k]).2 = (e.chans[k]).2.flags ∧ (c[k]).2.out.timeAsRequested t := by
  obtain ⟨en, hen, hpos⟩ := (forge_pos s d f t out h).2 i hi
  rw [he] at hen
  cases hen
  obtain ⟨_, _, _, _, _, _, hall⟩ := forgePos_sub s d f t (i + 1) sub _ hpos
  obtain ⟨e, e', arr, c, q2, hge, h1, h2, h3, _, hcj⟩ := hall j hj
  obtain ⟨hl, hfr⟩ := element_output_frame s d f t e e' arr c h1 h2 h3
  refine ⟨e, c, q2, hge, hcj, hl, fun k hk hc => ?_⟩
  obtain ⟨a1, a2, a3, _⟩ := hfr k hk hc
  refine ⟨a1, ?_, a3⟩
  rw [← a2]
  unfold chFlags Element.ChOut.flags
  cases (c[k]).2.out <;> rfl

/-! ### duration of a subsequence, and of a position holding one -/

/-- what one position of a subsequence contributes to its duration -/
def subPosDuration (sub : SubSeq) (x : Int × Element) : Except Err Rat :=
  match Dict.get? sub.sequencing x.1 with
  | none => .error .key
  | some q => x.2.duration.map (fun d => (q.nrep : Rat) * d)

/-- the duration of a subsequence is the sum over its positions of repetitions × element duration -/
theorem subseq_duration_sum (sub : SubSeq) (vals : List Rat) (h : sub.data.mapM (subPosDuration sub) = .ok vals) :
    sub.duration = .ok vals.sum := by
  unfold SubSeq.duration
  rw [foldlM_add_rat (subPosDuration sub) sub.data 0 vals h]
  · simp
  · rintro a ⟨pos, e⟩
    simp only [subPosDuration]
    cases Dict.get? sub.sequencing pos with
    | none => rfl
    | some q => cases e.duration <;> rfl

/-- **duration is weighted by repetitions at both levels**: a position holding a subsequence
    contributes (its own repetitions) × Σ over the subsequence's positions of (that position's
    repetitions × element duration) -/
theorem posDuration_subsequence (s : Sequence) (pos : Int) (sub : SubSeq) (q : SeqSet) (vals : List Rat)
    (hq : Dict.get? s.sequencing pos = some q) (h : sub.data.mapM (subPosDuration sub) = .ok vals) :
    posDuration s (pos, .sub sub) = .ok ((q.nrep : Rat) * vals.sum) :=
  posDuration_spec s pos (.sub sub) q vals.sum hq (subseq_duration_sum sub vals h)

/-- an element position contributes repetitions × element duration -/
theorem posDuration_element (s : Sequence) (pos : Int) (e : Element) (q : SeqSet) (m : Val × Rat)
    (hq : Dict.get? s.sequencing pos = some q) (h : e.validate = .ok m) :
    posDuration s (pos, .el e) = .ok ((q.nrep : Rat) * m.2) :=
  posDuration_spec s pos (.el e) q m.2 hq (by simp [Entry.duration, Element.duration, h, Except.map])

/-! ### the result validates against the published schema -/

/-- every raw-array channel anywhere in the sequence holds at least one array -/
def RawNonempty (s : Sequence) : Prop :=
  (∀ p e, Dict.get? s.data p = some (.el e) → FsSchema.RawNonempty e) ∧
  (∀ p sub q e, Dict.get? s.data p = some (.sub sub) → Dict.get? sub.data q = some e → FsSchema.RawNonempty e)

/-- **`forge ok ⇒ schemaValid`**: whatever `forge` returns — for any option combination, with
    subsequences, flags, delays and filters — validates against `fs_schema`
    (src/broadbean/sequence.py lines 24-37), provided no raw-array channel is an empty dictionary
    (true of everything `addArray` builds, see `addArray_raw_nonempty`) -/
theorem forge_schema_valid (s : Sequence) (d f t : Bool) (out : List (Nat × ForgedPos)) (h : s.forge d f t = .ok out)
    (hraw : RawNonempty s) : FsSchema.schemaValid out := by
  obtain ⟨hc, c0, hch⟩ := g4_forge_ok_consistent s d f t out h
  obtain ⟨hlen, hpos⟩ := forge_pos s d f t out h
  unfold FsSchema.schemaValid FsSchema.fsSchema FsSchema.forgeJ
  apply FsSchema.dictOk_single _ _ rfl
  · intro kv hkv
    simp only [List.mem_map] at hkv
    obtain ⟨x, hx, rfl⟩ := hkv
    refine ⟨rfl, ?_⟩
    obtain ⟨i, hi, rfl⟩ := List.getElem_of_mem hx
    obtain ⟨en, hen, hp⟩ := hpos i hi
    apply FsSchema.posJ_ok
    cases en with
    | el e =>
      obtain ⟨e', arr, c, sq, h1, h2, h3, _, h5⟩ := forgePos_element s d f t (i + 1) e _ hp
      obtain ⟨m, hm⟩ := g4_consistent_element_validates s hc _ e hen
      rw [h5]
      unfold FsSchema.contentSch FsSchema.contentJ
      apply FsSchema.dictOk_single _ _ rfl
      · intro kv hkv
        simp only [List.map_cons, List.map_nil, List.mem_singleton] at hkv
        subst hkv
        refine ⟨rfl, FsSchema.contentEntryJ_ok _ ?_⟩
        exact FsSchema.dataJ_ok s d f t e e' arr c h1 h2 h3 (g4_validate_chans_ne_nil e m hm) (hraw.1 _ e hen)
      · simp
    | sub sub =>
      obtain ⟨_, hsc, e1, he1⟩ := g4_sub_consistent s hc _ sub hen
      obtain ⟨_, _, _, _, _, hl, hall⟩ := forgePos_sub s d f t (i + 1) sub _ hp
      unfold FsSchema.contentSch FsSchema.contentJ
      apply FsSchema.dictOk_single _ _ rfl
      · intro kv hkv
        simp only [List.mem_map] at hkv
        obtain ⟨y, hy, rfl⟩ := hkv
        refine ⟨rfl, FsSchema.contentEntryJ_ok _ ?_⟩
        obtain ⟨j, hj, rfl⟩ := List.getElem_of_mem hy
        obtain ⟨e, e', arr, c, q2, hge, h1, h2, h3, _, hcj⟩ := hall j hj
        obtain ⟨m, hm⟩ := g4_subseq_element_validates sub hsc _ e hge
        rw [hcj]
        exact FsSchema.dataJ_ok s d f t e e' arr c h1 h2 h3 (g4_validate_chans_ne_nil e m hm) (hraw.2 _ sub _ e hen hge)
      · intro h0
        have h1 : (out[i]).2.content.length = 0 := by simpa using congrArg List.length h0
        have : sub.data = [] := List.eq_nil_of_length_eq_zero (by omega)
        rw [this] at he1
        simp [Dict.get?] at he1
  · intro h0
    have h1 : out.length = 0 := by simpa using congrArg List.length h0
    have : s.data = [] := List.eq_nil_of_length_eq_zero (by omega)
    unfold Sequence.channels at hch
    simp only [hc, bind, Except.bind, Bool.not_true, Bool.false_eq_true, if_false, this, Dict.get?,
      List.find?_nil, Option.map_none] at hch
    simp [throw, throwThe, MonadExceptOf.throw] at hch

/-- helper (C18, schema clause): an entry of `d[k] = v` is the new pair or an old entry -/
theorem g4_mem_upsert_cases {κ α : Type} [DecidableEq κ] (d : Dict κ α) (k : κ) (v : α) (x : κ × α)
    (h : x ∈ Dict.upsert d k v) : x = (k, v) ∨ x ∈ d := by
  induction d with
  | nil => simp only [Dict.upsert, List.mem_singleton] at h; exact Or.inl h
  | cons y ys ih =>
    obtain ⟨k', v'⟩ := y
    unfold Dict.upsert at h
    split at h
    · simp only [List.mem_cons] at h
      rcases h with h | h
      · exact Or.inl h
      · exact Or.inr (by simp [h])
    · simp only [List.mem_cons] at h
      rcases h with h | h
      · exact Or.inr (by simp [h])
      · rcases ih h with h | h
        · exact Or.inl h
        · exact Or.inr (by simp [h])

/-- `addArray` always stores 'wfm', so what it builds meets the guard of `forge_schema_valid` -/
theorem addArray_raw_nonempty (e : Element) (ch : Chan) (wfm : List Rat) (sr : Val) (kw : Dict String (List Rat))
    (he : FsSchema.RawNonempty e) (hok : (e.addArray ch wfm sr kw).err = none) :
    FsSchema.RawNonempty (e.addArray ch wfm sr kw).st := by
  unfold Element.addArray at hok ⊢
  split at hok
  · rename_i hall
    simp only [hall, if_true]
    intro x hx a sv hd
    rcases g4_mem_upsert_cases _ _ _ _ hx with hm | hm
    · rw [hm] at hd
      simp only [ChData.arr.injEq] at hd
      rw [← hd.1]
      exact FsSchema.g4_upsert_ne_nil _ _ _
    · exact he x hm a sv hd
  · simp at hok

/-- ... and so do `addBluePrint` and the empty element -/
theorem addBluePrint_raw_nonempty (e : Element) (ch : Chan) (b : BP) (he : FsSchema.RawNonempty e) :
    FsSchema.RawNonempty (e.addBluePrint ch b).st := by
  unfold Element.addBluePrint
  split
  · exact he
  · intro x hx a sv hd
    rcases g4_mem_upsert_cases _ _ _ _ hx with hm | hm
    · rw [hm] at hd; cases hd
    · exact he x hm a sv hd

/-- (C18, schema clause) the empty element meets the guard of `forge_schema_valid` -/
theorem empty_raw_nonempty : FsSchema.RawNonempty {} := by
  intro x hx; cases hx

/-! ### non-vacuity: a sequence holding an element and a two-position subsequence; a blueprint
    channel with flags and a delay of two samples, a raw-array channel with a filter -/

open BB.G4Ex

/-- forging a sequence that contains a subsequence: positions, types, repetitions, number of
    content entries -/
example : (exSeq.forge true true false).toOption.map
      (fun out => out.map (fun p => (p.1, p.2.isSub, p.2.sequencing.nrep, p.2.content.length))) =
    some [(1, false, 1, 1), (2, true, 3, 2)] := by
  decide +kernel

/-- the content of the subsequence position: inner positions with their own repetitions -/
example : (exSeq.forge true true false).toOption.map
      (fun out => (out.drop 1).flatMap (fun p => p.2.content.map (fun c => (c.1, c.2.2.map (·.nrep))))) =
    some [(1, some 2), (2, some 4)] := by
  decide +kernel

/-- ... and per channel (id, filter attached?, flags): flags survive the delay and the filter -/
example : (exSeq.forge true true false).toOption.map
      (fun out => (out.drop 1).flatMap (fun p => p.2.content.flatMap (fun c =>
        c.2.1.map (fun x => (x.1, x.2.filt.isSome, chFlags x.2))))) =
    some [(.int 1, false, some [1, 0, 0, 1]), (.str "A", true, none),
          (.int 1, false, some [1, 0, 0, 1]), (.str "A", true, none)] := by
  decide +kernel

/-- the hypotheses of `forge_subsequence_standalone_ok` / `forge_subsequence_is_standalone` /
    `forge_subsequence_flags_time` hold for position 2 of the example -/
example : (exSeq.forge true true false).toOption.isSome = true ∧
    Dict.get? exSeq.data ((1 + 1 : Nat) : Int) = some (.sub exSub) := by
  constructor
  · decide +kernel
  · rfl

/-- ... and the stand-alone forge indeed succeeds, with two element positions -/
example : ((asSequence exSeq exSub).forge true true false).toOption.map (fun out => out.map (fun p => (p.1, p.2.isSub))) =
    some [(1, false), (2, false)] := by
  decide +kernel

/-- the example validates against the schema (all options on, time axis included) -/
example : (exSeq.forge true true true).toOption.map (fun out => decide (FsSchema.schemaValid out)) = some true := by
  decide +kernel

/-- the guard of `forge_schema_valid` holds for the example -/
example : RawNonempty exSeq := by
  have hel : FsSchema.RawNonempty exEl := by
    intro x hx a sv hd
    simp only [exEl, List.mem_cons, List.not_mem_nil, or_false] at hx
    rcases hx with rfl | rfl
    · cases hd
    · simp only [ChData.arr.injEq] at hd
      rw [← hd.1]; simp
  constructor
  · intro p e hp
    have := Dict.mem_of_get?_eq_some p _ hp
    simp only [exSeq, List.mem_cons, Prod.mk.injEq, List.not_mem_nil, or_false, reduceCtorEq, and_false] at this
    obtain ⟨_, h⟩ := this
    cases h
    exact hel
  · intro p sub q e hp hq
    have := Dict.mem_of_get?_eq_some p _ hp
    simp only [exSeq, List.mem_cons, Prod.mk.injEq, List.not_mem_nil, or_false, reduceCtorEq, and_false, false_or] at this
    obtain ⟨_, h⟩ := this
    cases h
    have := Dict.mem_of_get?_eq_some q _ hq
    simp only [exSub, List.mem_cons, Prod.mk.injEq, List.not_mem_nil, or_false] at this
    rcases this with ⟨_, rfl⟩ | ⟨_, rfl⟩ <;> exact hel

/-- a dictionary the schema refuses: a position without content entries (`int` is a required key) -/
example : FsSchema.fsSchema (FsSchema.forgeJ [(1, { sequencing := ⟨0, 1, 0, 0, 0⟩, isSub := false, content := [] })]) = false := by
  decide +kernel

/-- duration with a subsequence: 1·1 + 3·(2·1 + 4·1) seconds; points: 10 + (10 + 10) -/
example : exSeq.duration = .ok (1 * 1 + 3 * (2 * 1 + 4 * 1)) := by decide +kernel
example : exSeq.points = .ok 30 := by decide +kernel
example : exSub.data.mapM (subPosDuration exSub) = .ok [2 * 1, 4 * 1] := by decide +kernel
example : Dict.get? exSeq.sequencing 2 = some ⟨0, 3, 0, 0, 1⟩ := by decide

/-! ## G13: closed forms of `Sequence.points` and `Sequence.duration`, with the exact guards -/

/-- the value `Element.points` returns (0 where it raises - never used under the guards below) -/
def elPoints (e : Element) : ℤ := match e.points with | .ok p => p | .error _ => 0

/-- the value `Element.duration` returns (0 where it raises) -/
def elDuration (e : Element) : ℚ := match e.duration with | .ok d => d | .error _ => 0

/-- the repetition count stored for a position (0 where the table has no entry) -/
def nrepAt (tbl : Dict ℤ SeqSet) (pos : ℤ) : ℤ := match Dict.get? tbl pos with | some q => q.nrep | none => 0

/-- points of a stored subsequence: Σ over its positions of the element's points -/
def subPoints (sub : SubSeq) : ℤ := ((Dict.vals sub.data).map elPoints).sum

/-- duration of a stored subsequence: Σ_j nrep_j · duration_j over its positions -/
def subDuration (sub : SubSeq) : ℚ := (sub.data.map (fun x => (nrepAt sub.sequencing x.1 : ℚ) * elDuration x.2)).sum

/-- what one position contributes to `Sequence.points` -/
def entryPoints : Entry → ℤ
  | .el e => elPoints e
  | .sub sub => subPoints sub

/-- the duration of what sits at one position (before weighting by the position's repetitions) -/
def entryDuration : Entry → ℚ
  | .el e => elDuration e
  | .sub sub => subDuration sub

/-- **the guard of `Sequence.points`**: `Element.points` succeeds on every stored element - at an
    element position and inside every stored subsequence (equivalently: every stored element
    passes `validateDurations`, see `points_guard_iff_validated`) -/
def PointsGuard (s : Sequence) : Prop :=
  ∀ x ∈ s.data, (∀ e, x.2 = .el e → ∃ p, e.points = .ok p) ∧
    (∀ sub : SubSeq, x.2 = .sub sub → ∀ y ∈ sub.data, ∃ p, y.2.points = .ok p)

/-- **the guard of `Sequence.duration`**: every stored position has a sequencing entry and every
    stored element has a duration - at the top level and inside every stored subsequence -/
def DurationGuard (s : Sequence) : Prop :=
  ∀ x ∈ s.data, (∃ q, Dict.get? s.sequencing x.1 = some q) ∧ (∀ e, x.2 = .el e → ∃ d, e.duration = .ok d) ∧
    (∀ sub : SubSeq, x.2 = .sub sub → ∀ y ∈ sub.data,
      (∃ q, Dict.get? sub.sequencing y.1 = some q) ∧ ∃ d, y.2.duration = .ok d)

/-- helper (C18 points): `elPoints` is the value `Element.points` returns -/
theorem elPoints_of_ok (e : Element) (p : ℤ) (h : e.points = .ok p) : elPoints e = p := by
  simp [elPoints, h]

/-- helper (C18 duration): `elDuration` is the value `Element.duration` returns -/
theorem elDuration_of_ok (e : Element) (d : ℚ) (h : e.duration = .ok d) : elDuration e = d := by
  simp [elDuration, h]

/-- helper (C18 duration): `nrepAt` is the `nrep` of the stored sequencing entry -/
theorem nrepAt_of_get (tbl : Dict ℤ SeqSet) (pos : ℤ) (q : SeqSet) (h : Dict.get? tbl pos = some q) :
    nrepAt tbl pos = q.nrep := by
  simp [nrepAt, h]

/-- points of a stored subsequence whose elements all have points -/
theorem subseq_points_closed_form (sub : SubSeq) (h : ∀ y ∈ sub.data, ∃ p, y.2.points = .ok p) :
    sub.points = .ok (subPoints sub) := by
  apply subseq_points_sum
  apply mapM_ok_of_forall
  intro e he
  obtain ⟨y, hy, rfl⟩ := List.mem_map.mp he
  obtain ⟨p, hp⟩ := h y hy
  rw [hp, elPoints_of_ok _ p hp]

/-- **`Sequence.points` in closed form**: under the guard, `points` returns the sum over the
    stored positions of the element's points - for a position holding a subsequence, the sum over
    its inner positions of the inner elements' points (repetitions are not counted) -/
theorem points_closed_form (s : Sequence) (hg : PointsGuard s) :
    s.points = .ok ((Dict.vals s.data).map entryPoints).sum := by
  apply points_sum
  apply mapM_ok_of_forall
  intro en hen
  obtain ⟨x, hx, rfl⟩ := List.mem_map.mp hen
  obtain ⟨h1, h2⟩ := hg x hx
  cases hx2 : x.2 with
  | el e =>
    obtain ⟨p, hp⟩ := h1 e hx2
    simp only [Entry.points, entryPoints, hp, elPoints_of_ok _ p hp]
  | sub sub => exact subseq_points_closed_form sub (h2 sub hx2)

/-- **the guard is exact**: `Sequence.points` returns a value iff `Element.points` succeeds on every
    stored element (top level and inside subsequences) -/
theorem points_ok_iff_guard (s : Sequence) : (∃ p, s.points = .ok p) ↔ PointsGuard s := by
  constructor
  · rintro ⟨p, hp⟩
    unfold Sequence.points at hp
    obtain ⟨vals, hv⟩ := G13.foldlM_add_int_inv Entry.points (Dict.vals s.data) 0 p _
      (fun a x => step_eq_map Entry.points a x) hp
    intro x hx
    obtain ⟨v, _, hxv⟩ := G2.mapM_ok_mem _ _ _ hv x.2 (List.mem_map.mpr ⟨x, hx, rfl⟩)
    refine ⟨fun e he => ?_, fun sub hs y hy => ?_⟩
    · rw [he] at hxv
      exact ⟨v, hxv⟩
    · rw [hs] at hxv
      simp only [Entry.points] at hxv
      unfold SubSeq.points at hxv
      obtain ⟨vals', hv'⟩ := G13.foldlM_add_int_inv Element.points (Dict.vals sub.data) 0 v _
        (fun a x => step_eq_map Element.points a x) hxv
      obtain ⟨w, _, hw⟩ := G2.mapM_ok_mem _ _ _ hv' y.2 (List.mem_map.mpr ⟨y, hy, rfl⟩)
      exact ⟨w, hw⟩
  · intro hg
    exact ⟨_, points_closed_form s hg⟩

/-- the points guard says: every stored element validates -/
theorem points_guard_iff_validated (s : Sequence) : PointsGuard s ↔ G11.InnerValidated s := by
  constructor
  · intro hg x hx
    refine ⟨fun e he => ?_, fun sub hs y hy => ?_⟩
    · obtain ⟨p, hp⟩ := (hg x hx).1 e he
      exact G13.points_ok_validated e p hp
    · obtain ⟨p, hp⟩ := (hg x hx).2 sub hs y hy
      exact G13.points_ok_validated y.2 p hp
  · intro hv x hx
    refine ⟨fun e he => ?_, fun sub hs y hy => ?_⟩
    · obtain ⟨m, hm⟩ := (hv x hx).1 e he
      exact (G13.validated_points_duration e m hm).1
    · obtain ⟨m, hm⟩ := (hv x hx).2 sub hs y hy
      exact (G13.validated_points_duration y.2 m hm).1

/-- duration of a stored subsequence whose positions all have a sequencing entry and whose
    elements all have a duration: Σ_j nrep_j · duration_j -/
theorem subseq_duration_closed_form (sub : SubSeq)
    (h : ∀ y ∈ sub.data, (∃ q, Dict.get? sub.sequencing y.1 = some q) ∧ ∃ d, y.2.duration = .ok d) :
    sub.duration = .ok (subDuration sub) := by
  apply subseq_duration_sum
  apply mapM_ok_of_forall
  intro y hy
  obtain ⟨⟨q, hq⟩, d, hd⟩ := h y hy
  simp only [subPosDuration, hq, hd, Except.map, nrepAt_of_get _ _ q hq, elDuration_of_ok _ d hd]

/-- **`Sequence.duration` in closed form**: under the guard, `duration` returns
    `Σ_p nrep_p · D_p` over the stored positions, where `D_p` is the element's duration or, for a
    position holding a subsequence, `Σ_j nrep_j · duration_j` over its inner positions -/
theorem duration_closed_form (s : Sequence) (hg : DurationGuard s) :
    s.duration = .ok (s.data.map (fun x => (nrepAt s.sequencing x.1 : ℚ) * entryDuration x.2)).sum := by
  apply duration_sum
  apply mapM_ok_of_forall
  intro x hx
  obtain ⟨⟨q, hq⟩, h1, h2⟩ := hg x hx
  obtain ⟨pos, en⟩ := x
  simp only at hq h1 h2 ⊢
  rw [nrepAt_of_get _ _ q hq]
  cases en with
  | el e =>
    obtain ⟨d, hd⟩ := h1 e rfl
    rw [posDuration_spec s pos (.el e) q d hq hd]
    simp only [entryDuration, elDuration_of_ok _ d hd]
  | sub sub =>
    rw [posDuration_spec s pos (.sub sub) q (subDuration sub) hq (subseq_duration_closed_form sub (h2 sub rfl))]
    rfl

/-- helper: a successful `posDuration` means: sequencing entry present, entry duration available -/
theorem posDuration_ok_inv (s : Sequence) (x : ℤ × Entry) (v : ℚ) (h : posDuration s x = .ok v) :
    (∃ q, Dict.get? s.sequencing x.1 = some q) ∧ ∃ d, x.2.duration = .ok d := by
  unfold posDuration at h
  cases hq : Dict.get? s.sequencing x.1 with
  | none => rw [hq] at h; cases h
  | some q =>
    rw [hq] at h
    cases hd : x.2.duration with
    | error e => rw [hd] at h; simp [Except.map] at h
    | ok d => exact ⟨⟨q, rfl⟩, d, rfl⟩

/-- **the guard is exact**: `Sequence.duration` returns a value iff every stored position (top
    level and inside subsequences) has a sequencing entry and every stored element a duration -/
theorem duration_ok_iff_guard (s : Sequence) : (∃ d, s.duration = .ok d) ↔ DurationGuard s := by
  constructor
  · rintro ⟨d, hd⟩
    unfold Sequence.duration at hd
    obtain ⟨vals, hv⟩ := G13.foldlM_add_rat_inv (posDuration s) s.data 0 d _ (fun a x => rfl) hd
    intro x hx
    obtain ⟨v, _, hxv⟩ := G2.mapM_ok_mem _ _ _ hv x hx
    obtain ⟨hq, dd, hdd⟩ := posDuration_ok_inv s x v hxv
    refine ⟨hq, fun e he => ?_, fun sub hs y hy => ?_⟩
    · rw [he] at hdd
      exact ⟨dd, hdd⟩
    · rw [hs] at hdd
      simp only [Entry.duration] at hdd
      unfold SubSeq.duration at hdd
      obtain ⟨vals', hv'⟩ := G13.foldlM_add_rat_inv (subPosDuration sub) sub.data 0 dd _ (by
        rintro a ⟨pos, e⟩
        simp only [subPosDuration]
        cases Dict.get? sub.sequencing pos with
        | none => rfl
        | some q => cases e.duration <;> rfl) hdd
      obtain ⟨w, _, hw⟩ := G2.mapM_ok_mem _ _ _ hv' y hy
      unfold subPosDuration at hw
      cases hq2 : Dict.get? sub.sequencing y.1 with
      | none => rw [hq2] at hw; cases hw
      | some q2 =>
        rw [hq2] at hw
        cases hd2 : y.2.duration with
        | error e => rw [hd2] at hw; simp [Except.map] at hw
        | ok d2 => exact ⟨⟨q2, rfl⟩, d2, rfl⟩
  · intro hg
    exact ⟨_, duration_closed_form s hg⟩

/-- **both guards hold for every sequence built through the public API** (`Sequence.ApiBuilt`):
    every stored element validated when it was added (hence has points and a duration), and every
    stored position got its sequencing entry together with its content -/
theorem built_guards (s : Sequence) (h : Sequence.ApiBuilt s) : PointsGuard s ∧ DurationGuard s := by
  have hv := G11.apiBuilt_innerValidated h
  have hq := G13.apiBuilt_sequenced h
  refine ⟨(points_guard_iff_validated s).mpr hv, fun x hx => ⟨?_, fun e he => ?_, fun sub hs y hy => ⟨?_, ?_⟩⟩⟩
  · cases hg : Dict.get? s.sequencing x.1 with
    | none => have := (hq x hx).1; rw [hg] at this; cases this
    | some q => exact ⟨q, rfl⟩
  · obtain ⟨m, hm⟩ := (hv x hx).1 e he
    exact ⟨m.2, (G13.validated_points_duration e m hm).2⟩
  · cases hg : Dict.get? sub.sequencing y.1 with
    | none => have := (hq x hx).2 sub hs y hy; rw [hg] at this; cases this
    | some q => exact ⟨q, rfl⟩
  · obtain ⟨m, hm⟩ := (hv x hx).2 sub hs y hy
    exact ⟨m.2, (G13.validated_points_duration y.2 m hm).2⟩

/-- **`Sequence.points` of an API-built sequence** never raises and is the sum over the positions
    of the element's points (for a subsequence position: the sum over its inner positions) -/
theorem points_built (s : Sequence) (h : Sequence.ApiBuilt s) :
    s.points = .ok ((Dict.vals s.data).map entryPoints).sum :=
  points_closed_form s (built_guards s h).1

/-- **`Sequence.duration` of an API-built sequence** never raises and is
    `Σ_p nrep_p · (element duration | Σ_j nrep_j · duration_j)` -/
theorem duration_built (s : Sequence) (h : Sequence.ApiBuilt s) :
    s.duration = .ok (s.data.map (fun x => (nrepAt s.sequencing x.1 : ℚ) * entryDuration x.2)).sum :=
  duration_closed_form s (built_guards s h).2

/-- **a position with `nrep = 0` contributes 0 to the duration** - as the code computes it: the
    summand is `0 · duration(entry)`, so the entry's duration is still *evaluated* and must not
    raise (see the example below: with `nrep = 0` and an element that does not validate,
    `Sequence.duration` raises) -/
theorem nrep_zero_contributes_zero (s : Sequence) (pos : ℤ) (en : Entry) (q : SeqSet) (d : ℚ)
    (hq : Dict.get? s.sequencing pos = some q) (h0 : q.nrep = 0) (hd : en.duration = .ok d) :
    posDuration s (pos, en) = .ok 0 ∧ (nrepAt s.sequencing pos : ℚ) * entryDuration en = 0 := by
  constructor
  · rw [posDuration_spec s pos en q d hq hd, h0]; simp
  · rw [nrepAt_of_get _ _ q hq, h0]; simp

/-- the same inside a subsequence: an inner position with `nrep = 0` contributes 0 to the
    subsequence's duration -/
theorem inner_nrep_zero_contributes_zero (sub : SubSeq) (pos : ℤ) (e : Element) (q : SeqSet) (d : ℚ)
    (hq : Dict.get? sub.sequencing pos = some q) (h0 : q.nrep = 0) (hd : e.duration = .ok d) :
    subPosDuration sub (pos, e) = .ok 0 ∧ (nrepAt sub.sequencing pos : ℚ) * elDuration e = 0 := by
  constructor
  · simp [subPosDuration, hq, hd, Except.map, h0]
  · rw [nrepAt_of_get _ _ q hq, h0]; simp

/-! ### non-vacuity of the closed forms -/

/-- the example sequence (an element at position 1, a two-position subsequence at position 2)
    satisfies both guards -/
theorem exSeq_guards : PointsGuard exSeq ∧ DurationGuard exSeq := by
  have hp : exEl.points = .ok 10 := by decide +kernel
  have hd : exEl.duration = .ok 1 := by decide +kernel
  constructor
  · intro x hx
    simp only [exSeq, List.mem_cons, List.not_mem_nil, or_false] at hx
    rcases hx with rfl | rfl
    · refine ⟨fun e he => ?_, fun sub hs => ?_⟩
      · cases he; exact ⟨10, hp⟩
      · cases hs
    · refine ⟨fun e he => ?_, fun sub hs y hy => ?_⟩
      · cases he
      · cases hs
        simp only [exSub, List.mem_cons, List.not_mem_nil, or_false] at hy
        rcases hy with rfl | rfl <;> exact ⟨10, hp⟩
  · intro x hx
    simp only [exSeq, List.mem_cons, List.not_mem_nil, or_false] at hx
    rcases hx with rfl | rfl
    · refine ⟨⟨_, rfl⟩, fun e he => ?_, fun sub hs => ?_⟩
      · cases he; exact ⟨1, hd⟩
      · cases hs
    · refine ⟨⟨_, rfl⟩, fun e he => ?_, fun sub hs y hy => ?_⟩
      · cases he
      · cases hs
        simp only [exSub, List.mem_cons, List.not_mem_nil, or_false] at hy
        rcases hy with rfl | rfl <;> exact ⟨⟨_, rfl⟩, 1, hd⟩

/-- the closed forms on the example: points `10 + (10 + 10)`, duration `1·1 + 3·(2·1 + 4·1)` -/
example : ((Dict.vals exSeq.data).map entryPoints).sum = 30 ∧
    (exSeq.data.map (fun x => (nrepAt exSeq.sequencing x.1 : ℚ) * entryDuration x.2)).sum = 19 := by
  constructor <;> decide +kernel

/-- a sequence built through the public API (one element, repetitions set to 0 afterwards): both
    closed forms apply without any guard, and the position with `nrep = 0` contributes nothing -/
def exBuiltZero : Sequence :=
  (SeqCore.setSequencing (Sequence.addElement (SeqCore.setSR {} (.num 10)) 1
    (({} : Element).addBluePrint (.int 1) exBP).st).st 1 (fun q => { q with nrep := 0 })).st

/-- non-vacuity (C18 points/duration of API-built sequences): the example is built through the public API -/
theorem exBuiltZero_built : Sequence.ApiBuilt exBuiltZero :=
  .setSequencing _ _ _ (.addElement _ _ _ (.setSpec _ _ _ .empty) (.addBluePrint _ _ _ .empty))

example : exBuiltZero.points = .ok 10 ∧ exBuiltZero.duration = .ok 0 ∧
    (Dict.get? exBuiltZero.sequencing 1).map (·.nrep) = some 0 := by
  refine ⟨by decide +kernel, by decide +kernel, by decide +kernel⟩

/-- "as the code computes it": with `nrep = 0` the element's duration is still evaluated - a stored
    element that does not validate makes `Sequence.duration` (and `points`) raise although its
    weight is 0 -/
example :
    let bad : Sequence :=
      { data := [(1, .el { chans := [(.int 1, { data := .broken })] })],
        sequencing := [(1, ⟨0, 0, 0, 0, 0⟩)], awgspecs := [("SR", .val (.num 10))] }
    bad.duration.toOption = none ∧ bad.points.toOption = none := by
  decide +kernel

end BB.C18
