/-
  Property C18 — forged structure is schema-valid; subsequences forge like stand-alone sequences;
  nested / wrong-rate subsequences are refused; points and duration recurse into subsequences.

  The model's forged structure is typed (`ForgedPos`: sequencing, type flag, content list with an
  optional inner sequencing), so the *shape* clauses of the published schema are carried by the
  type; what the theorems add is which entries there are and where their values come from.  That
  the real dictionary (flags included) validates against `fs_schema` is decided on the
  implementation by the correspondence check, which runs `fs_schema.validate` on every forged
  result.
-/
import Mathlib.Tactic.Ring
import BB.Proofs.DictEq
import BB.Model.Sequence
import BB.Proofs.ForgeSeq
import BB.Proofs.G4Seq
import BB.Proofs.G4Frame
import BB.Proofs.G4Schema
import BB.Proofs.G4Example

namespace BB.C18
open BB BB.Sequence

/-! ### the forged structure, position by position -/

/-- `forge` returns one entry per position, labelled 1..N in order -/
theorem forge_positions (s : Sequence) (d f t : Bool) (out : List (Nat × ForgedPos)) (h : s.forge d f t = .ok out) :
    out.length = s.data.length ∧ ∀ i (hi : i < out.length), (out[i]).1 = i + 1 :=
  ⟨(forge_pos s d f t out h).1, fun i hi => forge_labels s d f t out h i hi⟩

/-- an element position: the position's sequencing entry, type 'element', exactly one content entry
    (numbered 1, no sequencing of its own) with the arrays of the — delayed, if requested — element
    and the declared filters attached where requested -/
theorem forge_element_position (s : Sequence) (d f t : Bool) (out : List (Nat × ForgedPos)) (h : s.forge d f t = .ok out)
    (i : Nat) (hi : i < out.length) (e : Element) (he : Dict.get? s.data ((i + 1 : Nat) : Int) = some (.el e)) :
    ∃ e' arr c sq, delayedEl s d e = .ok e' ∧ e'.getArrays t = .ok arr ∧ s.withFilters f arr = .ok c ∧
      Dict.get? s.sequencing ((i + 1 : Nat) : Int) = some sq ∧
      out[i] = (i + 1, { sequencing := sq, isSub := false, content := [(1, c, none)] }) := by
  obtain ⟨en, hen, hpos⟩ := (forge_pos s d f t out h).2 i hi
  rw [he] at hen
  cases hen
  exact forgePos_element s d f t (i + 1) e _ hpos

/-- a subsequence position: the position's sequencing entry, type 'subsequence', one content
    entry per subsequence position 1..n with that position's own sequencing entry -/
theorem forge_subsequence_position (s : Sequence) (d f t : Bool) (out : List (Nat × ForgedPos)) (h : s.forge d f t = .ok out)
    (i : Nat) (hi : i < out.length) (sub : SubSeq) (he : Dict.get? s.data ((i + 1 : Nat) : Int) = some (.sub sub)) :
    ∃ sq, Dict.get? s.sequencing ((i + 1 : Nat) : Int) = some sq ∧ (out[i]).2.sequencing = sq ∧ (out[i]).2.isSub = true ∧
      (out[i]).2.content.length = sub.data.length ∧
      ∀ j (hj : j < (out[i]).2.content.length), ∃ c q2,
        Dict.get? sub.sequencing ((j + 1 : Nat) : Int) = some q2 ∧ (out[i]).2.content[j] = (j + 1, c, some q2) := by
  obtain ⟨en, hen, hpos⟩ := (forge_pos s d f t out h).2 i hi
  rw [he] at hen
  cases hen
  obtain ⟨sq, h1, _, h3, h4, h5, h6⟩ := forgePos_sub s d f t (i + 1) sub _ hpos
  refine ⟨sq, h1, h3, h4, h5, fun j hj => ?_⟩
  obtain ⟨_, _, _, c, q2, _, _, _, _, hq, hc⟩ := h6 j hj
  exact ⟨c, q2, hq, hc⟩

theorem get?_map_el (d : Dict Int Element) (k : Int) :
    Dict.get? (d.map (fun pe => (pe.1, Entry.el pe.2))) k = (Dict.get? d k).map Entry.el := by
  induction d with
  | nil => rfl
  | cons x xs ih =>
    unfold Dict.get? at *
    simp only [List.map_cons, List.find?_cons]
    by_cases hk : x.1 = k
    · simp [hk]
    · simp only [hk, decide_false]
      exact ih

/-- **a subsequence forges exactly like the same subsequence forged on its own under the parent's
    delay and filter settings**: if both forge, content entry `j` of the subsequence position is
    (position `j+1`, the arrays of the stand-alone result's position `j+1`, its sequencing entry) -/
theorem forge_subsequence_standalone (s : Sequence) (d f t : Bool) (out : List (Nat × ForgedPos))
    (h : s.forge d f t = .ok out) (i : Nat) (hi : i < out.length) (sub : SubSeq)
    (he : Dict.get? s.data ((i + 1 : Nat) : Int) = some (.sub sub))
    (out' : List (Nat × ForgedPos)) (h' : (asSequence s sub).forge d f t = .ok out') :
    (out[i]).2.content.length = out'.length ∧
    ∀ j (hj : j < (out[i]).2.content.length) (hj' : j < out'.length), ∃ c q2,
      (out[i]).2.content[j] = (j + 1, c, some q2) ∧
      out'[j] = (j + 1, { sequencing := q2, isSub := false, content := [(1, c, none)] }) := by
  obtain ⟨en, hen, hpos⟩ := (forge_pos s d f t out h).2 i hi
  rw [he] at hen
  cases hen
  obtain ⟨_, _, _, _, _, hlen, _⟩ := forgePos_sub s d f t (i + 1) sub _ hpos
  obtain ⟨hl', hpos'⟩ := forge_pos (asSequence s sub) d f t out' h'
  have hl'' : out'.length = sub.data.length := by simpa [asSequence] using hl'
  refine ⟨by omega, fun j hj hj' => ?_⟩
  obtain ⟨e, c, q2, hge, hc, hst⟩ := sub_content_standalone s d f t (i + 1) sub _ hpos j hj
  obtain ⟨en', hen', hp'⟩ := hpos' j hj'
  have : Dict.get? (asSequence s sub).data ((j + 1 : Nat) : Int) = some (.el e) := by
    simp only [asSequence]
    rw [get?_map_el, hge]; rfl
  rw [this] at hen'
  cases hen'
  rw [hst] at hp'
  exact ⟨c, q2, hc, (Except.ok.inj hp').symm⟩

/-! ### addSubSequence: what is refused, what is stored -/

/-- the argument's own store holds a subsequence -/
def Nested (sub : Sequence) : Prop := ∃ p s, (p, Entry.sub s) ∈ sub.data

theorem elementsOnly_none_iff (d : Dict Int Entry) :
    elementsOnly d = none ↔ ∃ p s, (p, Entry.sub s) ∈ d := by
  induction d with
  | nil => simp [elementsOnly]
  | cons x xs ih =>
    obtain ⟨p, en⟩ := x
    cases en with
    | el e =>
      simp only [elementsOnly, Option.map_eq_none_iff, ih, List.mem_cons, Prod.mk.injEq, reduceCtorEq, and_false,
        false_or]
    | sub s =>
      simp only [elementsOnly, List.mem_cons, Prod.mk.injEq, true_iff]
      exact ⟨p, s, Or.inl ⟨rfl, rfl⟩⟩

theorem elementsOnly_some (d : Dict Int Entry) (l : Dict Int Element) (h : elementsOnly d = some l) :
    d = l.map (fun (p, e) => (p, Entry.el e)) := by
  induction d generalizing l with
  | nil => simp [elementsOnly] at h; subst h; rfl
  | cons x xs ih =>
    obtain ⟨p, en⟩ := x
    cases en with
    | sub _ => simp [elementsOnly] at h
    | el e =>
      simp only [elementsOnly, Option.map_eq_some_iff] at h
      obtain ⟨l', hl', rfl⟩ := h
      simp [ih l' hl']

/-- a nested subsequence is refused with ValueError and the store is unchanged -/
theorem addSub_nested_refused (s : Sequence) (pos : Int) (sub : Sequence) (h : Nested sub) :
    (s.addSubSequence pos sub).err = some .value ∧ (s.addSubSequence pos sub).st = s := by
  unfold addSubSequence
  rw [(elementsOnly_none_iff sub.data).mpr h]
  exact ⟨rfl, rfl⟩

/-- a subsequence with a different sample rate is refused with ValueError, store unchanged -/
theorem addSub_SR_refused (s : Sequence) (pos : Int) (sub : Sequence) (h : sub.getSR ≠ s.getSR) :
    (s.addSubSequence pos sub).err = some .value ∧ (s.addSubSequence pos sub).st = s := by
  unfold addSubSequence
  split
  · exact ⟨rfl, rfl⟩
  · simp [h]

/-- acceptance is exactly: no nesting and the same sample rate -/
theorem addSub_accepted_iff (s : Sequence) (pos : Int) (sub : Sequence) :
    (s.addSubSequence pos sub).err = none ↔ ¬ Nested sub ∧ sub.getSR = s.getSR := by
  constructor
  · intro h
    constructor
    · intro hn; rw [(addSub_nested_refused s pos sub hn).1] at h; cases h
    · by_contra hsr; rw [(addSub_SR_refused s pos sub hsr).1] at h; cases h
  · rintro ⟨hn, hsr⟩
    unfold addSubSequence
    split
    · rename_i h; exact absurd ((elementsOnly_none_iff _).mp h) hn
    · simp [hsr]

/-- an accepted subsequence is stored (as a copy: elements, sequencing, settings; not the name)
    at the position, with the default sequencing entry; nothing else changes -/
theorem addSub_accepted (s : Sequence) (pos : Int) (sub : Sequence)
    (h : (s.addSubSequence pos sub).err = none) :
    ∃ d : Dict Int Element,
      sub.data = d.map (fun (p, e) => (p, Entry.el e)) ∧
      Dict.get? (s.addSubSequence pos sub).st.data pos = some (.sub (storedSub sub d)) ∧
      Dict.get? (s.addSubSequence pos sub).st.sequencing pos = some defaultSeqSub ∧
      (s.addSubSequence pos sub).st.awgspecs = s.awgspecs ∧
      (∀ p, p ≠ pos → Dict.get? (s.addSubSequence pos sub).st.data p = Dict.get? s.data p) := by
  obtain ⟨hn, hsr⟩ := (addSub_accepted_iff s pos sub).mp h
  unfold addSubSequence
  cases hd : elementsOnly sub.data with
  | none => exact absurd ((elementsOnly_none_iff _).mp hd) hn
  | some d =>
    simp only [hsr, ne_eq, not_true_eq_false, if_false]
    exact ⟨d, elementsOnly_some _ _ hd, Dict.get?_upsert_self _ _ _, Dict.get?_upsert_self _ _ _, trivial,
      fun p hp => Dict.get?_upsert_other _ _ _ _ hp⟩

/-! ### points and duration account for subsequence content -/

/-- summing with `foldlM`: every entry must succeed, the result is the sum -/
theorem foldlM_add_int {α} (f : α → Except Err Int) (l : List α) (acc : Int) (vals : List Int)
    (h : l.mapM f = .ok vals) (g : Int → α → Except Err Int)
    (hg : ∀ a x, g a x = (f x).map (fun v => a + v)) :
    l.foldlM g acc = .ok (acc + vals.sum) := by
  induction l generalizing acc vals with
  | nil =>
    simp only [List.mapM_nil, pure, Except.pure, Except.ok.injEq] at h
    subst h; simp [List.foldlM, pure, Except.pure]
  | cons x xs ih =>
    simp only [List.mapM_cons, bind, Except.bind] at h
    cases hx : f x with
    | error e => simp [hx] at h
    | ok v =>
      simp only [hx] at h
      cases hxs : xs.mapM f with
      | error e => simp [hxs] at h
      | ok vs =>
        simp only [hxs, pure, Except.pure, Except.ok.injEq] at h
        subst h
        simp only [List.foldlM_cons, bind, Except.bind, hg, hx, Except.map]
        rw [ih _ vs hxs]
        simp only [List.sum_cons]
        congr 1; ring

theorem step_eq_map {α} (f : α → Except Err Int) (a : Int) (x : α) :
    (do pure (a + (← f x)) : Except Err Int) = (f x).map (fun v => a + v) := by
  cases h : f x <;> simp [h, bind, Except.bind, Except.map, pure, Except.pure]

/-- `Sequence.points` is the sum of the points of every entry — an element's points, or
    recursively the points of a subsequence's elements -/
theorem points_sum (s : Sequence) (vals : List Int) (h : (Dict.vals s.data).mapM Entry.points = .ok vals) :
    s.points = .ok vals.sum := by
  unfold Sequence.points
  have := foldlM_add_int Entry.points (Dict.vals s.data) 0 vals h _ (fun a x => step_eq_map Entry.points a x)
  simpa using this

theorem subseq_points_sum (s : SubSeq) (vals : List Int) (h : (Dict.vals s.data).mapM Element.points = .ok vals) :
    s.points = .ok vals.sum := by
  unfold SubSeq.points
  have := foldlM_add_int Element.points (Dict.vals s.data) 0 vals h _ (fun a x => step_eq_map Element.points a x)
  simpa using this

theorem foldlM_add_rat {α} (f : α → Except Err Rat) (l : List α) (acc : Rat) (vals : List Rat)
    (h : l.mapM f = .ok vals) (g : Rat → α → Except Err Rat)
    (hg : ∀ a x, g a x = (f x).map (fun v => a + v)) :
    l.foldlM g acc = .ok (acc + vals.sum) := by
  induction l generalizing acc vals with
  | nil =>
    simp only [List.mapM_nil, pure, Except.pure, Except.ok.injEq] at h
    subst h; simp [List.foldlM, pure, Except.pure]
  | cons x xs ih =>
    simp only [List.mapM_cons, bind, Except.bind] at h
    cases hx : f x with
    | error e => simp [hx] at h
    | ok v =>
      simp only [hx] at h
      cases hxs : xs.mapM f with
      | error e => simp [hxs] at h
      | ok vs =>
        simp only [hxs, pure, Except.pure, Except.ok.injEq] at h
        subst h
        simp only [List.foldlM_cons, bind, Except.bind, hg, hx, Except.map]
        rw [ih _ vs hxs]
        simp only [List.sum_cons]
        congr 1; ring

/-- `Sequence.duration` is the sum over positions of repetitions × entry duration, recursing into
    subsequences -/
theorem duration_sum (s : Sequence) (vals : List Rat) (h : s.data.mapM (posDuration s) = .ok vals) :
    s.duration = .ok vals.sum := by
  unfold Sequence.duration
  have := foldlM_add_rat (posDuration s) s.data 0 vals h _ (fun a x => rfl)
  simpa using this

/-- what one position contributes: `nrep · duration(entry)` -/
theorem posDuration_spec (s : Sequence) (pos : Int) (en : Entry) (q : SeqSet) (d : Rat)
    (hq : Dict.get? s.sequencing pos = some q) (hd : en.duration = .ok d) :
    posDuration s (pos, en) = .ok ((q.nrep : Rat) * d) := by
  simp [posDuration, hq, hd, Except.map]

/-! ### the stand-alone forge of a subsequence succeeds whenever the parent's does -/

/-- **parent forge ok ⇒ stand-alone forge ok**: whenever `forge` succeeds on a sequence that holds
    a subsequence at position `i+1`, forging that subsequence on its own — as a sequence under the
    parent's AWG settings, with the same options — succeeds as well -/
theorem forge_subsequence_standalone_ok (s : Sequence) (d f t : Bool) (out : List (Nat × ForgedPos))
    (h : s.forge d f t = .ok out) (i : Nat) (hi : i < out.length) (sub : SubSeq)
    (he : Dict.get? s.data ((i + 1 : Nat) : Int) = some (.sub sub)) :
    ∃ out', (asSequence s sub).forge d f t = .ok out' := by
  obtain ⟨hc, _⟩ := g4_forge_ok_consistent s d f t out h
  obtain ⟨hsr, hsc, e1, he1⟩ := g4_sub_consistent s hc _ sub he
  obtain ⟨en, hen, hpos⟩ := (forge_pos s d f t out h).2 i hi
  rw [he] at hen
  cases hen
  obtain ⟨_, _, _, _, _, hlen, _⟩ := forgePos_sub s d f t (i + 1) sub _ hpos
  have hcs := asSequence_consistent s sub hsr hsc
  -- the result: one element position per content entry
  refine ⟨(out[i]).2.content.map (fun c =>
    (c.1, ({ sequencing := c.2.2.getD default, isSub := false, content := [(1, c.2.1, none)] } : ForgedPos))), ?_⟩
  apply g4_forge_intro _ _ _ _ _ hcs
  · unfold Sequence.channels
    simp only [hcs, bind, Except.bind, Bool.not_true, Bool.false_eq_true, if_false]
    have : Dict.get? (asSequence s sub).data 1 = some (.el e1) := by
      simp only [asSequence]
      rw [get_map_el_g4, he1]; rfl
    rw [this]
    exact ⟨_, rfl⟩
  · simp [asSequence, hlen]
  · intro j hj
    have hj' : j < (out[i]).2.content.length := by simpa using hj
    obtain ⟨e, c, q2, hge, hcj, hst⟩ := sub_content_standalone s d f t (i + 1) sub _ hpos j hj'
    refine ⟨.el e, ?_, ?_⟩
    · simp only [asSequence]
      rw [get_map_el_g4, hge]; rfl
    · rw [hst]
      simp only [List.getElem_map, hcj, Option.getD_some]

/-- **a subsequence forges exactly like the same subsequence forged on its own** (no hypothesis
    on the stand-alone forge): the stand-alone forge under the parent's settings succeeds, and
    content entry `j` of the subsequence position is (position `j+1`, the arrays of the
    stand-alone result's position `j+1`, its sequencing entry) -/
theorem forge_subsequence_is_standalone (s : Sequence) (d f t : Bool) (out : List (Nat × ForgedPos))
    (h : s.forge d f t = .ok out) (i : Nat) (hi : i < out.length) (sub : SubSeq)
    (he : Dict.get? s.data ((i + 1 : Nat) : Int) = some (.sub sub)) :
    ∃ out', (asSequence s sub).forge d f t = .ok out' ∧
      (out[i]).2.content.length = out'.length ∧
      ∀ j (hj : j < (out[i]).2.content.length) (hj' : j < out'.length), ∃ c q2,
        (out[i]).2.content[j] = (j + 1, c, some q2) ∧
        out'[j] = (j + 1, { sequencing := q2, isSub := false, content := [(1, c, none)] }) := by
  obtain ⟨out', h'⟩ := forge_subsequence_standalone_ok s d f t out h i hi sub he
  exact ⟨out', h', forge_subsequence_standalone s d f t out h i hi sub he out' h'⟩

/-! ### flags and the time option -/

/-- **flags survive delays and filters; the time axis is there exactly when requested** (element
    position): forged channel `k` is the stored element's `k`-th channel, carries exactly the flags
    stored for that channel — whether or not delays and filters are applied —, and carries the
    time axis (and segment durations) iff `includetime` was requested -/
theorem forge_element_flags_time (s : Sequence) (d f t : Bool) (out : List (Nat × ForgedPos)) (h : s.forge d f t = .ok out)
    (i : Nat) (hi : i < out.length) (e : Element) (he : Dict.get? s.data ((i + 1 : Nat) : Int) = some (.el e)) :
    ∃ c sq, out[i] = (i + 1, { sequencing := sq, isSub := false, content := [(1, c, none)] }) ∧
      c.length = e.chans.length ∧
      ∀ k (hk : k < e.chans.length) (hc : k < c.length),
        (c[k]).1 = (e.chans[k]).1 ∧ chFlags (c[k]).2 = (e.chans[k]).2.flags ∧ (c[k]).2.out.timeAsRequested t := by
  obtain ⟨e', arr, c, sq, h1, h2, h3, _, h5⟩ := forge_element_position s d f t out h i hi e he
  obtain ⟨hl, hall⟩ := element_output_frame s d f t e e' arr c h1 h2 h3
  refine ⟨c, sq, h5, hl, fun k hk hc => ?_⟩
  obtain ⟨a1, a2, a3, _⟩ := hall k hk hc
  refine ⟨a1, ?_, a3⟩
  rw [← a2]
  unfold chFlags Element.ChOut.flags
  cases (c[k]).2.out <;> rfl

/-- the same inside a subsequence: content entry `j` holds the channels of the subsequence's
    element `j+1`, each with its stored flags and the time axis as requested -/
theorem forge_subsequence_flags_time (s : Sequence) (d f t : Bool) (out : List (Nat × ForgedPos)) (h : s.forge d f t = .ok out)
    (i : Nat) (hi : i < out.length) (sub : SubSeq) (he : Dict.get? s.data ((i + 1 : Nat) : Int) = some (.sub sub))
    (j : Nat) (hj : j < (out[i]).2.content.length) :
    ∃ e c q2, Dict.get? sub.data ((j + 1 : Nat) : Int) = some e ∧ (out[i]).2.content[j] = (j + 1, c, some q2) ∧
      c.length = e.chans.length ∧
      ∀ k (hk : k < e.chans.length) (hc : k < c.length),
        (c[k]).1 = (e.chans[k]).1 ∧ chFlags (c[k]).2 = (e.chans[k]).2.flags ∧ (c[k]).2.out.timeAsRequested t := by
  obtain ⟨en, hen, hpos⟩ := (forge_pos s d f t out h).2 i hi
  rw [he] at hen
  cases hen
  obtain ⟨_, _, _, _, _, _, hall⟩ := forgePos_sub s d f t (i + 1) sub _ hpos
  obtain ⟨e, e', arr, c, q2, hge, h1, h2, h3, _, hcj⟩ := hall j hj
  obtain ⟨hl, hfr⟩ := element_output_frame s d f t e e' arr c h1 h2 h3
  refine ⟨e, c, q2, hge, hcj, hl, fun k hk hc => ?_⟩
  obtain ⟨a1, a2, a3, _⟩ := hfr k hk hc
  refine ⟨a1, ?_, a3⟩
  rw [← a2]
  unfold chFlags Element.ChOut.flags
  cases (c[k]).2.out <;> rfl

/-! ### duration of a subsequence, and of a position holding one -/

/-- what one position of a subsequence contributes to its duration -/
def subPosDuration (sub : SubSeq) (x : Int × Element) : Except Err Rat :=
  match Dict.get? sub.sequencing x.1 with
  | none => .error .key
  | some q => x.2.duration.map (fun d => (q.nrep : Rat) * d)

/-- the duration of a subsequence is the sum over its positions of repetitions × element duration -/
theorem subseq_duration_sum (sub : SubSeq) (vals : List Rat) (h : sub.data.mapM (subPosDuration sub) = .ok vals) :
    sub.duration = .ok vals.sum := by
  unfold SubSeq.duration
  rw [foldlM_add_rat (subPosDuration sub) sub.data 0 vals h]
  · simp
  · rintro a ⟨pos, e⟩
    simp only [subPosDuration]
    cases Dict.get? sub.sequencing pos with
    | none => rfl
    | some q => cases e.duration <;> rfl

/-- **duration is weighted by repetitions at both levels**: a position holding a subsequence
    contributes (its own repetitions) × Σ over the subsequence's positions of (that position's
    repetitions × element duration) -/
theorem posDuration_subsequence (s : Sequence) (pos : Int) (sub : SubSeq) (q : SeqSet) (vals : List Rat)
    (hq : Dict.get? s.sequencing pos = some q) (h : sub.data.mapM (subPosDuration sub) = .ok vals) :
    posDuration s (pos, .sub sub) = .ok ((q.nrep : Rat) * vals.sum) :=
  posDuration_spec s pos (.sub sub) q vals.sum hq (subseq_duration_sum sub vals h)

/-- an element position contributes repetitions × element duration -/
theorem posDuration_element (s : Sequence) (pos : Int) (e : Element) (q : SeqSet) (m : Val × Rat)
    (hq : Dict.get? s.sequencing pos = some q) (h : e.validate = .ok m) :
    posDuration s (pos, .el e) = .ok ((q.nrep : Rat) * m.2) :=
  posDuration_spec s pos (.el e) q m.2 hq (by simp [Entry.duration, Element.duration, h, Except.map])

/-! ### the result validates against the published schema -/

/-- every raw-array channel anywhere in the sequence holds at least one array -/
def RawNonempty (s : Sequence) : Prop :=
  (∀ p e, Dict.get? s.data p = some (.el e) → FsSchema.RawNonempty e) ∧
  (∀ p sub q e, Dict.get? s.data p = some (.sub sub) → Dict.get? sub.data q = some e → FsSchema.RawNonempty e)

/-- **`forge ok ⇒ schemaValid`**: whatever `forge` returns — for any option combination, with
    subsequences, flags, delays and filters — validates against `fs_schema`
    (src/broadbean/sequence.py lines 24-37), provided no raw-array channel is an empty dictionary
    (true of everything `addArray` builds, see `addArray_raw_nonempty`) -/
theorem forge_schema_valid (s : Sequence) (d f t : Bool) (out : List (Nat × ForgedPos)) (h : s.forge d f t = .ok out)
    (hraw : RawNonempty s) : FsSchema.schemaValid out := by
  obtain ⟨hc, c0, hch⟩ := g4_forge_ok_consistent s d f t out h
  obtain ⟨hlen, hpos⟩ := forge_pos s d f t out h
  unfold FsSchema.schemaValid FsSchema.fsSchema FsSchema.forgeJ
  apply FsSchema.dictOk_single _ _ rfl
  · intro kv hkv
    simp only [List.mem_map] at hkv
    obtain ⟨x, hx, rfl⟩ := hkv
    refine ⟨rfl, ?_⟩
    obtain ⟨i, hi, rfl⟩ := List.getElem_of_mem hx
    obtain ⟨en, hen, hp⟩ := hpos i hi
    apply FsSchema.posJ_ok
    cases en with
    | el e =>
      obtain ⟨e', arr, c, sq, h1, h2, h3, _, h5⟩ := forgePos_element s d f t (i + 1) e _ hp
      obtain ⟨m, hm⟩ := g4_consistent_element_validates s hc _ e hen
      rw [h5]
      unfold FsSchema.contentSch FsSchema.contentJ
      apply FsSchema.dictOk_single _ _ rfl
      · intro kv hkv
        simp only [List.map_cons, List.map_nil, List.mem_singleton] at hkv
        subst hkv
        refine ⟨rfl, FsSchema.contentEntryJ_ok _ ?_⟩
        exact FsSchema.dataJ_ok s d f t e e' arr c h1 h2 h3 (g4_validate_chans_ne_nil e m hm) (hraw.1 _ e hen)
      · simp
    | sub sub =>
      obtain ⟨_, hsc, e1, he1⟩ := g4_sub_consistent s hc _ sub hen
      obtain ⟨_, _, _, _, _, hl, hall⟩ := forgePos_sub s d f t (i + 1) sub _ hp
      unfold FsSchema.contentSch FsSchema.contentJ
      apply FsSchema.dictOk_single _ _ rfl
      · intro kv hkv
        simp only [List.mem_map] at hkv
        obtain ⟨y, hy, rfl⟩ := hkv
        refine ⟨rfl, FsSchema.contentEntryJ_ok _ ?_⟩
        obtain ⟨j, hj, rfl⟩ := List.getElem_of_mem hy
        obtain ⟨e, e', arr, c, q2, hge, h1, h2, h3, _, hcj⟩ := hall j hj
        obtain ⟨m, hm⟩ := g4_subseq_element_validates sub hsc _ e hge
        rw [hcj]
        exact FsSchema.dataJ_ok s d f t e e' arr c h1 h2 h3 (g4_validate_chans_ne_nil e m hm) (hraw.2 _ sub _ e hen hge)
      · intro h0
        have h1 : (out[i]).2.content.length = 0 := by simpa using congrArg List.length h0
        have : sub.data = [] := List.eq_nil_of_length_eq_zero (by omega)
        rw [this] at he1
        simp [Dict.get?] at he1
  · intro h0
    have h1 : out.length = 0 := by simpa using congrArg List.length h0
    have : s.data = [] := List.eq_nil_of_length_eq_zero (by omega)
    unfold Sequence.channels at hch
    simp only [hc, bind, Except.bind, Bool.not_true, Bool.false_eq_true, if_false, this, Dict.get?,
      List.find?_nil, Option.map_none] at hch
    simp [throw, throwThe, MonadExceptOf.throw] at hch

/-- helper (C18, schema clause): an entry of `d[k] = v` is the new pair or an old entry -/
theorem g4_mem_upsert_cases {κ α : Type} [DecidableEq κ] (d : Dict κ α) (k : κ) (v : α) (x : κ × α)
    (h : x ∈ Dict.upsert d k v) : x = (k, v) ∨ x ∈ d := by
  induction d with
  | nil => simp only [Dict.upsert, List.mem_singleton] at h; exact Or.inl h
  | cons y ys ih =>
    obtain ⟨k', v'⟩ := y
    unfold Dict.upsert at h
    split at h
    · simp only [List.mem_cons] at h
      rcases h with h | h
      · exact Or.inl h
      · exact Or.inr (by simp [h])
    · simp only [List.mem_cons] at h
      rcases h with h | h
      · exact Or.inr (by simp [h])
      · rcases ih h with h | h
        · exact Or.inl h
        · exact Or.inr (by simp [h])

/-- `addArray` always stores 'wfm', so what it builds meets the guard of `forge_schema_valid` -/
theorem addArray_raw_nonempty (e : Element) (ch : Chan) (wfm : List Rat) (sr : Val) (kw : Dict String (List Rat))
    (he : FsSchema.RawNonempty e) (hok : (e.addArray ch wfm sr kw).err = none) :
    FsSchema.RawNonempty (e.addArray ch wfm sr kw).st := by
  unfold Element.addArray at hok ⊢
  split at hok
  · rename_i hall
    simp only [hall, if_true]
    intro x hx a sv hd
    rcases g4_mem_upsert_cases _ _ _ _ hx with hm | hm
    · rw [hm] at hd
      simp only [ChData.arr.injEq] at hd
      rw [← hd.1]
      exact FsSchema.g4_upsert_ne_nil _ _ _
    · exact he x hm a sv hd
  · simp at hok

/-- ... and so do `addBluePrint` and the empty element -/
theorem addBluePrint_raw_nonempty (e : Element) (ch : Chan) (b : BP) (he : FsSchema.RawNonempty e) :
    FsSchema.RawNonempty (e.addBluePrint ch b).st := by
  unfold Element.addBluePrint
  split
  · exact he
  · intro x hx a sv hd
    rcases g4_mem_upsert_cases _ _ _ _ hx with hm | hm
    · rw [hm] at hd; cases hd
    · exact he x hm a sv hd

/-- (C18, schema clause) the empty element meets the guard of `forge_schema_valid` -/
theorem empty_raw_nonempty : FsSchema.RawNonempty {} := by
  intro x hx; cases hx

/-! ### non-vacuity: a sequence holding an element and a two-position subsequence; a blueprint
    channel with flags and a delay of two samples, a raw-array channel with a filter -/

open BB.G4Ex

/-- forging a sequence that contains a subsequence: positions, types, repetitions, number of
    content entries -/
example : (exSeq.forge true true false).toOption.map
      (fun out => out.map (fun p => (p.1, p.2.isSub, p.2.sequencing.nrep, p.2.content.length))) =
    some [(1, false, 1, 1), (2, true, 3, 2)] := by
  decide +kernel

/-- the content of the subsequence position: inner positions with their own repetitions -/
example : (exSeq.forge true true false).toOption.map
      (fun out => (out.drop 1).flatMap (fun p => p.2.content.map (fun c => (c.1, c.2.2.map (·.nrep))))) =
    some [(1, some 2), (2, some 4)] := by
  decide +kernel

/-- ... and per channel (id, filter attached?, flags): flags survive the delay and the filter -/
example : (exSeq.forge true true false).toOption.map
      (fun out => (out.drop 1).flatMap (fun p => p.2.content.flatMap (fun c =>
        c.2.1.map (fun x => (x.1, x.2.filt.isSome, chFlags x.2))))) =
    some [(.int 1, false, some [1, 0, 0, 1]), (.str "A", true, none),
          (.int 1, false, some [1, 0, 0, 1]), (.str "A", true, none)] := by
  decide +kernel

/-- the hypotheses of `forge_subsequence_standalone_ok` / `forge_subsequence_is_standalone` /
    `forge_subsequence_flags_time` hold for position 2 of the example -/
example : (exSeq.forge true true false).toOption.isSome = true ∧
    Dict.get? exSeq.data ((1 + 1 : Nat) : Int) = some (.sub exSub) := by
  constructor
  · decide +kernel
  · rfl

/-- ... and the stand-alone forge indeed succeeds, with two element positions -/
example : ((asSequence exSeq exSub).forge true true false).toOption.map (fun out => out.map (fun p => (p.1, p.2.isSub))) =
    some [(1, false), (2, false)] := by
  decide +kernel

/-- the example validates against the schema (all options on, time axis included) -/
example : (exSeq.forge true true true).toOption.map (fun out => decide (FsSchema.schemaValid out)) = some true := by
  decide +kernel

/-- the guard of `forge_schema_valid` holds for the example -/
example : RawNonempty exSeq := by
  have hel : FsSchema.RawNonempty exEl := by
    intro x hx a sv hd
    simp only [exEl, List.mem_cons, List.not_mem_nil, or_false] at hx
    rcases hx with rfl | rfl
    · cases hd
    · simp only [ChData.arr.injEq] at hd
      rw [← hd.1]; simp
  constructor
  · intro p e hp
    have := Dict.mem_of_get?_eq_some p _ hp
    simp only [exSeq, List.mem_cons, Prod.mk.injEq, List.not_mem_nil, or_false, reduceCtorEq, and_false] at this
    obtain ⟨_, h⟩ := this
    cases h
    exact hel
  · intro p sub q e hp hq
    have := Dict.mem_of_get?_eq_some p _ hp
    simp only [exSeq, List.mem_cons, Prod.mk.injEq, List.not_mem_nil, or_false, reduceCtorEq, and_false, false_or] at this
    obtain ⟨_, h⟩ := this
    cases h
    have := Dict.mem_of_get?_eq_some q _ hq
    simp only [exSub, List.mem_cons, Prod.mk.injEq, List.not_mem_nil, or_false] at this
    rcases this with ⟨_, rfl⟩ | ⟨_, rfl⟩ <;> exact hel

/-- a dictionary the schema refuses: a position without content entries (`int` is a required key) -/
example : FsSchema.fsSchema (FsSchema.forgeJ [(1, { sequencing := ⟨0, 1, 0, 0, 0⟩, isSub := false, content := [] })]) = false := by
  decide +kernel

/-- duration with a subsequence: 1·1 + 3·(2·1 + 4·1) seconds; points: 10 + (10 + 10) -/
example : exSeq.duration = .ok (1 * 1 + 3 * (2 * 1 + 4 * 1)) := by decide +kernel
example : exSeq.points = .ok 30 := by decide +kernel
example : exSub.data.mapM (subPosDuration exSub) = .ok [2 * 1, 4 * 1] := by decide +kernel
example : Dict.get? exSeq.sequencing 2 = some ⟨0, 3, 0, 0, 1⟩ := by decide

end BB.C18
