/-
  Property C18 — forged structure is schema-valid; subsequences forge like stand-alone sequences;
  nested / wrong-rate subsequences are refused; points and duration recurse into subsequences.

  The model's forged structure is typed (`ForgedPos`: sequencing, type flag, content list with an
  optional inner sequencing), so the *shape* clauses of the published schema are carried by the
  type; what the theorems add is which entries there are and where their values come from.  That
  the real dictionary (flags included) validates against `fs_schema` is decided on the
  implementation by the correspondence check, which runs `fs_schema.validate` on every forged
  result.
-/
import Mathlib.Tactic.Ring
import BB.Proofs.DictEq
import BB.Model.Sequence
import BB.Proofs.ForgeSeq

namespace BB.C18
open BB BB.Sequence

/-! ### the forged structure, position by position -/

/-- `forge` returns one entry per position, labelled 1..N in order -/
theorem forge_positions (s : Sequence) (d f t : Bool) (out : List (Nat × ForgedPos)) (h : s.forge d f t = .ok out) :
    out.length = s.data.length ∧ ∀ i (hi : i < out.length), (out[i]).1 = i + 1 :=
  ⟨(forge_pos s d f t out h).1, fun i hi => forge_labels s d f t out h i hi⟩

/-- an element position: the position's sequencing entry, type 'element', exactly one content entry
    (numbered 1, no sequencing of its own) with the arrays of the — delayed, if requested — element
    and the declared filters attached where requested -/
theorem forge_element_position (s : Sequence) (d f t : Bool) (out : List (Nat × ForgedPos)) (h : s.forge d f t = .ok out)
    (i : Nat) (hi : i < out.length) (e : Element) (he : Dict.get? s.data ((i + 1 : Nat) : Int) = some (.el e)) :
    ∃ e' arr c sq, delayedEl s d e = .ok e' ∧ e'.getArrays t = .ok arr ∧ s.withFilters f arr = .ok c ∧
      Dict.get? s.sequencing ((i + 1 : Nat) : Int) = some sq ∧
      out[i] = (i + 1, { sequencing := sq, isSub := false, content := [(1, c, none)] }) := by
  obtain ⟨en, hen, hpos⟩ := (forge_pos s d f t out h).2 i hi
  rw [he] at hen
  cases hen
  exact forgePos_element s d f t (i + 1) e _ hpos

/-- a subsequence position: the position's sequencing entry, type 'subsequence', one content
    entry per subsequence position 1..n with that position's own sequencing entry -/
theorem forge_subsequence_position (s : Sequence) (d f t : Bool) (out : List (Nat × ForgedPos)) (h : s.forge d f t = .ok out)
    (i : Nat) (hi : i < out.length) (sub : SubSeq) (he : Dict.get? s.data ((i + 1 : Nat) : Int) = some (.sub sub)) :
    ∃ sq, Dict.get? s.sequencing ((i + 1 : Nat) : Int) = some sq ∧ (out[i]).2.sequencing = sq ∧ (out[i]).2.isSub = true ∧
      (out[i]).2.content.length = sub.data.length ∧
      ∀ j (hj : j < (out[i]).2.content.length), ∃ c q2,
        Dict.get? sub.sequencing ((j + 1 : Nat) : Int) = some q2 ∧ (out[i]).2.content[j] = (j + 1, c, some q2) := by
  obtain ⟨en, hen, hpos⟩ := (forge_pos s d f t out h).2 i hi
  rw [he] at hen
  cases hen
  obtain ⟨sq, h1, _, h3, h4, h5, h6⟩ := forgePos_sub s d f t (i + 1) sub _ hpos
  refine ⟨sq, h1, h3, h4, h5, fun j hj => ?_⟩
  obtain ⟨_, _, _, c, q2, _, _, _, _, hq, hc⟩ := h6 j hj
  exact ⟨c, q2, hq, hc⟩

theorem get?_map_el (d : Dict Int Element) (k : Int) :
    Dict.get? (d.map (fun pe => (pe.1, Entry.el pe.2))) k = (Dict.get? d k).map Entry.el := by
  induction d with
  | nil => rfl
  | cons x xs ih =>
    unfold Dict.get? at *
    simp only [List.map_cons, List.find?_cons]
    by_cases hk : x.1 = k
    · simp [hk]
    · simp only [hk, decide_false]
      exact ih

/-- **a subsequence forges exactly like the same subsequence forged on its own under the parent's
    delay and filter settings**: if both forge, content entry `j` of the subsequence position is
    (position `j+1`, the arrays of the stand-alone result's position `j+1`, its sequencing entry) -/
theorem forge_subsequence_standalone (s : Sequence) (d f t : Bool) (out : List (Nat × ForgedPos))
    (h : s.forge d f t = .ok out) (i : Nat) (hi : i < out.length) (sub : SubSeq)
    (he : Dict.get? s.data ((i + 1 : Nat) : Int) = some (.sub sub))
    (out' : List (Nat × ForgedPos)) (h' : (asSequence s sub).forge d f t = .ok out') :
    (out[i]).2.content.length = out'.length ∧
    ∀ j (hj : j < (out[i]).2.content.length) (hj' : j < out'.length), ∃ c q2,
      (out[i]).2.content[j] = (j + 1, c, some q2) ∧
      out'[j] = (j + 1, { sequencing := q2, isSub := false, content := [(1, c, none)] }) := by
  obtain ⟨en, hen, hpos⟩ := (forge_pos s d f t out h).2 i hi
  rw [he] at hen
  cases hen
  obtain ⟨_, _, _, _, _, hlen, _⟩ := forgePos_sub s d f t (i + 1) sub _ hpos
  obtain ⟨hl', hpos'⟩ := forge_pos (asSequence s sub) d f t out' h'
  have hl'' : out'.length = sub.data.length := by simpa [asSequence] using hl'
  refine ⟨by omega, fun j hj hj' => ?_⟩
  obtain ⟨e, c, q2, hge, hc, hst⟩ := sub_content_standalone s d f t (i + 1) sub _ hpos j hj
  obtain ⟨en', hen', hp'⟩ := hpos' j hj'
  have : Dict.get? (asSequence s sub).data ((j + 1 : Nat) : Int) = some (.el e) := by
    simp only [asSequence]
    rw [get?_map_el, hge]; rfl
  rw [this] at hen'
  cases hen'
  rw [hst] at hp'
  exact ⟨c, q2, hc, (Except.ok.inj hp').symm⟩

/-! ### addSubSequence: what is refused, what is stored -/

/-- the argument's own store holds a subsequence -/
def Nested (sub : Sequence) : Prop := ∃ p s, (p, Entry.sub s) ∈ sub.data

theorem elementsOnly_none_iff (d : Dict Int Entry) :
    elementsOnly d = none ↔ ∃ p s, (p, Entry.sub s) ∈ d := by
  induction d with
  | nil => simp [elementsOnly]
  | cons x xs ih =>
    obtain ⟨p, en⟩ := x
    cases en with
    | el e =>
      simp only [elementsOnly, Option.map_eq_none_iff, ih, List.mem_cons, Prod.mk.injEq, reduceCtorEq, and_false,
        false_or]
    | sub s =>
      simp only [elementsOnly, List.mem_cons, Prod.mk.injEq, true_iff]
      exact ⟨p, s, Or.inl ⟨rfl, rfl⟩⟩

theorem elementsOnly_some (d : Dict Int Entry) (l : Dict Int Element) (h : elementsOnly d = some l) :
    d = l.map (fun (p, e) => (p, Entry.el e)) := by
  induction d generalizing l with
  | nil => simp [elementsOnly] at h; subst h; rfl
  | cons x xs ih =>
    obtain ⟨p, en⟩ := x
    cases en with
    | sub _ => simp [elementsOnly] at h
    | el e =>
      simp only [elementsOnly, Option.map_eq_some_iff] at h
      obtain ⟨l', hl', rfl⟩ := h
      simp [ih l' hl']

/-- a nested subsequence is refused with ValueError and the store is unchanged -/
theorem addSub_nested_refused (s : Sequence) (pos : Int) (sub : Sequence) (h : Nested sub) :
    (s.addSubSequence pos sub).err = some .value ∧ (s.addSubSequence pos sub).st = s := by
  unfold addSubSequence
  rw [(elementsOnly_none_iff sub.data).mpr h]
  exact ⟨rfl, rfl⟩

/-- a subsequence with a different sample rate is refused with ValueError, store unchanged -/
theorem addSub_SR_refused (s : Sequence) (pos : Int) (sub : Sequence) (h : sub.getSR ≠ s.getSR) :
    (s.addSubSequence pos sub).err = some .value ∧ (s.addSubSequence pos sub).st = s := by
  unfold addSubSequence
  split
  · exact ⟨rfl, rfl⟩
  · simp [h]

/-- acceptance is exactly: no nesting and the same sample rate -/
theorem addSub_accepted_iff (s : Sequence) (pos : Int) (sub : Sequence) :
    (s.addSubSequence pos sub).err = none ↔ ¬ Nested sub ∧ sub.getSR = s.getSR := by
  constructor
  · intro h
    constructor
    · intro hn; rw [(addSub_nested_refused s pos sub hn).1] at h; cases h
    · by_contra hsr; rw [(addSub_SR_refused s pos sub hsr).1] at h; cases h
  · rintro ⟨hn, hsr⟩
    unfold addSubSequence
    split
    · rename_i h; exact absurd ((elementsOnly_none_iff _).mp h) hn
    · simp [hsr]

/-- an accepted subsequence is stored (as a copy: elements, sequencing, settings; not the name)
    at the position, with the default sequencing entry; nothing else changes -/
theorem addSub_accepted (s : Sequence) (pos : Int) (sub : Sequence)
    (h : (s.addSubSequence pos sub).err = none) :
    ∃ d : Dict Int Element,
      sub.data = d.map (fun (p, e) => (p, Entry.el e)) ∧
      Dict.get? (s.addSubSequence pos sub).st.data pos = some (.sub (storedSub sub d)) ∧
      Dict.get? (s.addSubSequence pos sub).st.sequencing pos = some defaultSeqSub ∧
      (s.addSubSequence pos sub).st.awgspecs = s.awgspecs ∧
      (∀ p, p ≠ pos → Dict.get? (s.addSubSequence pos sub).st.data p = Dict.get? s.data p) := by
  obtain ⟨hn, hsr⟩ := (addSub_accepted_iff s pos sub).mp h
  unfold addSubSequence
  cases hd : elementsOnly sub.data with
  | none => exact absurd ((elementsOnly_none_iff _).mp hd) hn
  | some d =>
    simp only [hsr, ne_eq, not_true_eq_false, if_false]
    exact ⟨d, elementsOnly_some _ _ hd, Dict.get?_upsert_self _ _ _, Dict.get?_upsert_self _ _ _, trivial,
      fun p hp => Dict.get?_upsert_other _ _ _ _ hp⟩

/-! ### points and duration account for subsequence content -/

/-- summing with `foldlM`: every entry must succeed, the result is the sum -/
theorem foldlM_add_int {α} (f : α → Except Err Int) (l : List α) (acc : Int) (vals : List Int)
    (h : l.mapM f = .ok vals) (g : Int → α → Except Err Int)
    (hg : ∀ a x, g a x = (f x).map (fun v => a + v)) :
    l.foldlM g acc = .ok (acc + vals.sum) := by
  induction l generalizing acc vals with
  | nil =>
    simp only [List.mapM_nil, pure, Except.pure, Except.ok.injEq] at h
    subst h; simp [List.foldlM, pure, Except.pure]
  | cons x xs ih =>
    simp only [List.mapM_cons, bind, Except.bind] at h
    cases hx : f x with
    | error e => simp [hx] at h
    | ok v =>
      simp only [hx] at h
      cases hxs : xs.mapM f with
      | error e => simp [hxs] at h
      | ok vs =>
        simp only [hxs, pure, Except.pure, Except.ok.injEq] at h
        subst h
        simp only [List.foldlM_cons, bind, Except.bind, hg, hx, Except.map]
        rw [ih _ vs hxs]
        simp only [List.sum_cons]
        congr 1; ring

theorem step_eq_map {α} (f : α → Except Err Int) (a : Int) (x : α) :
    (do pure (a + (← f x)) : Except Err Int) = (f x).map (fun v => a + v) := by
  cases h : f x <;> simp [h, bind, Except.bind, Except.map, pure, Except.pure]

/-- `Sequence.points` is the sum of the points of every entry — an element's points, or
    recursively the points of a subsequence's elements -/
theorem points_sum (s : Sequence) (vals : List Int) (h : (Dict.vals s.data).mapM Entry.points = .ok vals) :
    s.points = .ok vals.sum := by
  unfold Sequence.points
  have := foldlM_add_int Entry.points (Dict.vals s.data) 0 vals h _ (fun a x => step_eq_map Entry.points a x)
  simpa using this

theorem subseq_points_sum (s : SubSeq) (vals : List Int) (h : (Dict.vals s.data).mapM Element.points = .ok vals) :
    s.points = .ok vals.sum := by
  unfold SubSeq.points
  have := foldlM_add_int Element.points (Dict.vals s.data) 0 vals h _ (fun a x => step_eq_map Element.points a x)
  simpa using this

theorem foldlM_add_rat {α} (f : α → Except Err Rat) (l : List α) (acc : Rat) (vals : List Rat)
    (h : l.mapM f = .ok vals) (g : Rat → α → Except Err Rat)
    (hg : ∀ a x, g a x = (f x).map (fun v => a + v)) :
    l.foldlM g acc = .ok (acc + vals.sum) := by
  induction l generalizing acc vals with
  | nil =>
    simp only [List.mapM_nil, pure, Except.pure, Except.ok.injEq] at h
    subst h; simp [List.foldlM, pure, Except.pure]
  | cons x xs ih =>
    simp only [List.mapM_cons, bind, Except.bind] at h
    cases hx : f x with
    | error e => simp [hx] at h
    | ok v =>
      simp only [hx] at h
      cases hxs : xs.mapM f with
      | error e => simp [hxs] at h
      | ok vs =>
        simp only [hxs, pure, Except.pure, Except.ok.injEq] at h
        subst h
        simp only [List.foldlM_cons, bind, Except.bind, hg, hx, Except.map]
        rw [ih _ vs hxs]
        simp only [List.sum_cons]
        congr 1; ring

/-- `Sequence.duration` is the sum over positions of repetitions × entry duration, recursing into
    subsequences -/
theorem duration_sum (s : Sequence) (vals : List Rat) (h : s.data.mapM (posDuration s) = .ok vals) :
    s.duration = .ok vals.sum := by
  unfold Sequence.duration
  have := foldlM_add_rat (posDuration s) s.data 0 vals h _ (fun a x => rfl)
  simpa using this

/-- what one position contributes: `nrep · duration(entry)` -/
theorem posDuration_spec (s : Sequence) (pos : Int) (en : Entry) (q : SeqSet) (d : Rat)
    (hq : Dict.get? s.sequencing pos = some q) (hd : en.duration = .ok d) :
    posDuration s (pos, en) = .ok ((q.nrep : Rat) * d) := by
  simp [posDuration, hq, hd, Except.map]

end BB.C18
