/-
  Property C18 — forged structure is schema-valid; subsequences forge like stand-alone sequences;
  nested / wrong-rate subsequences are refused; points and duration recurse into subsequences.

  The model's forged structure is typed (`ForgedPos`: sequencing, type flag, content list with an
  optional inner sequencing), so the *shape* clauses of the published schema are carried by the
  type; what the theorems add is which entries there are and where their values come from.  That
  the real dictionary (flags included) validates against `fs_schema` is decided on the
  implementation by the correspondence check, which runs `fs_schema.validate` on every forged
  result.
-/
import Mathlib.Tactic.Ring
import BB.Proofs.DictEq
import BB.Model.Sequence

namespace BB.C18
open BB BB.Sequence

/-! ### addSubSequence: what is refused, what is stored -/

/-- the argument's own store holds a subsequence -/
def Nested (sub : Sequence) : Prop := ∃ p s, (p, Entry.sub s) ∈ sub.data

theorem elementsOnly_none_iff (d : Dict Int Entry) :
    elementsOnly d = none ↔ ∃ p s, (p, Entry.sub s) ∈ d := by
  induction d with
  | nil => simp [elementsOnly]
  | cons x xs ih =>
    obtain ⟨p, en⟩ := x
    cases en with
    | el e =>
      simp only [elementsOnly, Option.map_eq_none_iff, ih, List.mem_cons, Prod.mk.injEq, reduceCtorEq, and_false,
        false_or]
    | sub s =>
      simp only [elementsOnly, List.mem_cons, Prod.mk.injEq, true_iff]
      exact ⟨p, s, Or.inl ⟨rfl, rfl⟩⟩

theorem elementsOnly_some (d : Dict Int Entry) (l : Dict Int Element) (h : elementsOnly d = some l) :
    d = l.map (fun (p, e) => (p, Entry.el e)) := by
  induction d generalizing l with
  | nil => simp [elementsOnly] at h; subst h; rfl
  | cons x xs ih =>
    obtain ⟨p, en⟩ := x
    cases en with
    | sub _ => simp [elementsOnly] at h
    | el e =>
      simp only [elementsOnly, Option.map_eq_some_iff] at h
      obtain ⟨l', hl', rfl⟩ := h
      simp [ih l' hl']

/-- a nested subsequence is refused with ValueError and the store is unchanged -/
theorem addSub_nested_refused (s : Sequence) (pos : Int) (sub : Sequence) (h : Nested sub) :
    (s.addSubSequence pos sub).err = some .value ∧ (s.addSubSequence pos sub).st = s := by
  unfold addSubSequence
  rw [(elementsOnly_none_iff sub.data).mpr h]
  exact ⟨rfl, rfl⟩

/-- a subsequence with a different sample rate is refused with ValueError, store unchanged -/
theorem addSub_SR_refused (s : Sequence) (pos : Int) (sub : Sequence) (h : sub.getSR ≠ s.getSR) :
    (s.addSubSequence pos sub).err = some .value ∧ (s.addSubSequence pos sub).st = s := by
  unfold addSubSequence
  split
  · exact ⟨rfl, rfl⟩
  · simp [h]

/-- acceptance is exactly: no nesting and the same sample rate -/
theorem addSub_accepted_iff (s : Sequence) (pos : Int) (sub : Sequence) :
    (s.addSubSequence pos sub).err = none ↔ ¬ Nested sub ∧ sub.getSR = s.getSR := by
  constructor
  · intro h
    constructor
    · intro hn; rw [(addSub_nested_refused s pos sub hn).1] at h; cases h
    · by_contra hsr; rw [(addSub_SR_refused s pos sub hsr).1] at h; cases h
  · rintro ⟨hn, hsr⟩
    unfold addSubSequence
    split
    · rename_i h; exact absurd ((elementsOnly_none_iff _).mp h) hn
    · simp [hsr]

/-- an accepted subsequence is stored (as a copy: elements, sequencing, settings; not the name)
    at the position, with the default sequencing entry; nothing else changes -/
theorem addSub_accepted (s : Sequence) (pos : Int) (sub : Sequence)
    (h : (s.addSubSequence pos sub).err = none) :
    ∃ d : Dict Int Element,
      sub.data = d.map (fun (p, e) => (p, Entry.el e)) ∧
      Dict.get? (s.addSubSequence pos sub).st.data pos = some (.sub (storedSub sub d)) ∧
      Dict.get? (s.addSubSequence pos sub).st.sequencing pos = some defaultSeqSub ∧
      (s.addSubSequence pos sub).st.awgspecs = s.awgspecs ∧
      (∀ p, p ≠ pos → Dict.get? (s.addSubSequence pos sub).st.data p = Dict.get? s.data p) := by
  obtain ⟨hn, hsr⟩ := (addSub_accepted_iff s pos sub).mp h
  unfold addSubSequence
  cases hd : elementsOnly sub.data with
  | none => exact absurd ((elementsOnly_none_iff _).mp hd) hn
  | some d =>
    simp only [hsr, ne_eq, not_true_eq_false, if_false]
    exact ⟨d, elementsOnly_some _ _ hd, Dict.get?_upsert_self _ _ _, Dict.get?_upsert_self _ _ _, trivial,
      fun p hp => Dict.get?_upsert_other _ _ _ _ hp⟩

/-! ### points and duration account for subsequence content -/

/-- summing with `foldlM`: every entry must succeed, the result is the sum -/
theorem foldlM_add_int {α} (f : α → Except Err Int) (l : List α) (acc : Int) (vals : List Int)
    (h : l.mapM f = .ok vals) (g : Int → α → Except Err Int)
    (hg : ∀ a x, g a x = (f x).map (fun v => a + v)) :
    l.foldlM g acc = .ok (acc + vals.sum) := by
  induction l generalizing acc vals with
  | nil =>
    simp only [List.mapM_nil, pure, Except.pure, Except.ok.injEq] at h
    subst h; simp [List.foldlM, pure, Except.pure]
  | cons x xs ih =>
    simp only [List.mapM_cons, bind, Except.bind] at h
    cases hx : f x with
    | error e => simp [hx] at h
    | ok v =>
      simp only [hx] at h
      cases hxs : xs.mapM f with
      | error e => simp [hxs] at h
      | ok vs =>
        simp only [hxs, pure, Except.pure, Except.ok.injEq] at h
        subst h
        simp only [List.foldlM_cons, bind, Except.bind, hg, hx, Except.map]
        rw [ih _ vs hxs]
        simp only [List.sum_cons]
        congr 1; ring

theorem step_eq_map {α} (f : α → Except Err Int) (a : Int) (x : α) :
    (do pure (a + (← f x)) : Except Err Int) = (f x).map (fun v => a + v) := by
  cases h : f x <;> simp [h, bind, Except.bind, Except.map, pure, Except.pure]

/-- `Sequence.points` is the sum of the points of every entry — an element's points, or
    recursively the points of a subsequence's elements -/
theorem points_sum (s : Sequence) (vals : List Int) (h : (Dict.vals s.data).mapM Entry.points = .ok vals) :
    s.points = .ok vals.sum := by
  unfold Sequence.points
  have := foldlM_add_int Entry.points (Dict.vals s.data) 0 vals h _ (fun a x => step_eq_map Entry.points a x)
  simpa using this

theorem subseq_points_sum (s : SubSeq) (vals : List Int) (h : (Dict.vals s.data).mapM Element.points = .ok vals) :
    s.points = .ok vals.sum := by
  unfold SubSeq.points
  have := foldlM_add_int Element.points (Dict.vals s.data) 0 vals h _ (fun a x => step_eq_map Element.points a x)
  simpa using this

theorem foldlM_add_rat {α} (f : α → Except Err Rat) (l : List α) (acc : Rat) (vals : List Rat)
    (h : l.mapM f = .ok vals) (g : Rat → α → Except Err Rat)
    (hg : ∀ a x, g a x = (f x).map (fun v => a + v)) :
    l.foldlM g acc = .ok (acc + vals.sum) := by
  induction l generalizing acc vals with
  | nil =>
    simp only [List.mapM_nil, pure, Except.pure, Except.ok.injEq] at h
    subst h; simp [List.foldlM, pure, Except.pure]
  | cons x xs ih =>
    simp only [List.mapM_cons, bind, Except.bind] at h
    cases hx : f x with
    | error e => simp [hx] at h
    | ok v =>
      simp only [hx] at h
      cases hxs : xs.mapM f with
      | error e => simp [hxs] at h
      | ok vs =>
        simp only [hxs, pure, Except.pure, Except.ok.injEq] at h
        subst h
        simp only [List.foldlM_cons, bind, Except.bind, hg, hx, Except.map]
        rw [ih _ vs hxs]
        simp only [List.sum_cons]
        congr 1; ring

/-- `Sequence.duration` is the sum over positions of repetitions × entry duration, recursing into
    subsequences -/
theorem duration_sum (s : Sequence) (vals : List Rat) (h : s.data.mapM (posDuration s) = .ok vals) :
    s.duration = .ok vals.sum := by
  unfold Sequence.duration
  have := foldlM_add_rat (posDuration s) s.data 0 vals h _ (fun a x => rfl)
  simpa using this

/-- what one position contributes: `nrep · duration(entry)` -/
theorem posDuration_spec (s : Sequence) (pos : Int) (en : Entry) (q : SeqSet) (d : Rat)
    (hq : Dict.get? s.sequencing pos = some q) (hd : en.duration = .ok d) :
    posDuration s (pos, en) = .ok ((q.nrep : Rat) * d) := by
  simp [posDuration, hq, hd, Except.map]

end BB.C18
