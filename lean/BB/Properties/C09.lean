/-
  Property C09 — copies and stored/derived objects are independent of their source.

  The model has value semantics: an object *is* its state, so "mutating one side does not change
  the other" cannot even be mis-stated in it.  What the theorems establish is the other half of
  the property — that the derived object *initially* has the same description and forged output
  as its source — which is real content, because `BluePrint.copy` (and everything that stores a
  blueprint) goes through `_basename`, `__init__` and `_make_names_unique`.
  Independence of the Python objects (a dropped `.copy()`, a shallow copy) is runtime aliasing; it
  is decided by the refinement check of this property (harness/props/c09.py), which mutates either
  side after every deriving operation and compares every object's public state with the
  value-semantics model after every step.  Level: proof (equality at creation) + refinement check
  (independence) — partial.
-/
import BB.Proofs.Copy
import BB.Proofs.Body
import BB.Proofs.DictEq
import BB.Model.Describe
import BB.Model.Tools
import BB.Proofs.Heap
import BB.Proofs.G8Examples
import BB.Proofs.G8Value09

namespace BB.C09
open BB BB.BP

/-! ### blueprints -/

/-- `copy()` of any blueprint obtained through the public API is that very blueprint: same
    names, functions, arguments, durations, markers, sample rate -/
theorem bp_copy_eq (h : Hist) : h.eval.copy = h.eval := copy_reachable h

/-- hence the same description … -/
theorem bp_copy_desc (h : Hist) : h.eval.copy.toDesc = h.eval.toDesc := by rw [bp_copy_eq]

/-- … and — for *every* blueprint value, reachable or not — the same forged output, duration
    and number of points (a copy changes names at most) -/
theorem bp_copy_forge (b : BP) :
    forgeBP b.copy = forgeBP b ∧ b.copy.duration = b.duration ∧ b.copy.points = b.points :=
  ⟨forge_copy b, duration_copy b, points_copy b⟩

/-- `b₁ + b₂` keeps every segment of both operands (names aside) and forges from those -/
theorem bp_add_body (a b : BP) : (a.add b).segs.map Seg.body = (a.segs ++ b.segs).map Seg.body :=
  add_body a b

/-! ### elements -/

/-- `addBluePrint` stores a copy of the blueprint — which for a reachable blueprint is equal to
    it — under the channel, and leaves every other channel alone -/
theorem addBluePrint_stores (e : Element) (ch : Chan) (h : Hist) (hne : h.eval.segs ≠ []) :
    Dict.get? (e.addBluePrint ch h.eval).st.chans ch = some { data := .bp h.eval } ∧
    (∀ ch2, ch2 ≠ ch → Dict.get? (e.addBluePrint ch h.eval).st.chans ch2 = Dict.get? e.chans ch2) ∧
    (e.addBluePrint ch h.eval).err = none := by
  unfold Element.addBluePrint
  have : h.eval.segs.isEmpty = false := by
    cases hs : h.eval.segs with
    | nil => exact absurd hs hne
    | cons _ _ => rfl
  simp only [this, Bool.false_eq_true, if_false, bp_copy_eq]
  exact ⟨Dict.get?_upsert_self _ _ _, fun ch2 hc => Dict.get?_upsert_other _ _ _ _ hc, trivial⟩

/-- what the stored channel describes and forges is what the source blueprint does -/
theorem addBluePrint_same_output (h : Hist) (t : Bool) :
    Element.chanDesc { data := .bp h.eval.copy } = Element.chanDesc { data := .bp h.eval } ∧
    Element.chanOut t { data := .bp h.eval.copy } = Element.chanOut t { data := .bp h.eval } := by
  rw [bp_copy_eq]; exact ⟨rfl, rfl⟩

/-- `Element.copy()` is a deep copy: the same value -/
theorem el_copy_eq (e : Element) : e.copy = e := rfl

/-! ### sequences -/

/-- `addElement` stores the (validated) element under the position with the default sequencing
    entry and leaves every other position alone -/
theorem addElement_stores (s : Sequence) (pos : Int) (e : Element) (m : Val × Rat) (hv : e.validate = .ok m) :
    Dict.get? (s.addElement pos e).st.data pos = some (.el { e with cache := some m }) ∧
    Dict.get? (s.addElement pos e).st.sequencing pos = some Sequence.defaultSeqEl ∧
    (∀ p, p ≠ pos → Dict.get? (s.addElement pos e).st.data p = Dict.get? s.data p) ∧
    (s.addElement pos e).st.awgspecs = s.awgspecs := by
  unfold Sequence.addElement
  simp only [hv]
  exact ⟨Dict.get?_upsert_self _ _ _, Dict.get?_upsert_self _ _ _, fun p hp => Dict.get?_upsert_other _ _ _ _ hp, trivial⟩

/-- the stored element describes and forges like the source element (the validation cache is
    not part of either) -/
theorem stored_element_same_output (e : Element) (m : Val × Rat) (t : Bool) :
    ({ e with cache := some m } : Element).toDesc = e.toDesc ∧
    ({ e with cache := some m } : Element).getArrays t = e.getArrays t ∧
    ({ e with cache := some m } : Element).validate = e.validate := ⟨rfl, rfl, rfl⟩

/-- a rejected element is not stored -/
theorem addElement_rejected (s : Sequence) (pos : Int) (e : Element) (er : Err) (hv : e.validate = .error er) :
    (s.addElement pos e).st = s ∧ (s.addElement pos e).err = some er := by
  unfold Sequence.addElement
  simp [hv]

/-- `Sequence.copy()` has the same store, sequencing and settings (only the name is dropped) … -/
theorem seq_copy_fields (s : Sequence) :
    s.copy.data = s.data ∧ s.copy.sequencing = s.sequencing ∧ s.copy.awgspecs = s.awgspecs := ⟨rfl, rfl, rfl⟩

/-- … hence the same description, consistency verdict, channels, points, duration and forged
    output under every option combination -/
theorem seq_copy_same_output (s : Sequence) (d f t : Bool) :
    s.copy.toDesc = s.toDesc ∧ s.copy.checkConsistency = s.checkConsistency ∧
    s.copy.channels = s.channels ∧ s.copy.points = s.points ∧ s.copy.duration = s.duration ∧
    s.copy.forge d f t = s.forge d f t := ⟨rfl, rfl, rfl, rfl, rfl, rfl⟩

/-- a copy of a stored entry is that entry, up to a subsequence's name -/
theorem copyEntry_el (e : Element) : Sequence.copyEntry (.el e) = .el e := rfl

/-! ### the sweep tools start from copies of their input -/

/-- position `k+1 … k+n` of `addCopies` each hold the base element itself -/
theorem addCopies_get (base : Element) (m : Val × Rat) (hv : base.validate = .ok m) (n k : Nat) (s s' : Sequence)
    (h : Tools.addCopies base n k s = .ok s') (i : Nat) (hi : i < n) :
    Dict.get? s'.data (((k + i + 1 : Nat)) : Int) = some (.el { base with cache := some m }) := by
  induction n generalizing k s i with
  | zero => omega
  | succ n ih =>
    unfold Tools.addCopies at h
    have hadd : (s.addElement ((k + 1 : Nat) : Int) base).toExcept =
        .ok (s.addElement ((k + 1 : Nat) : Int) base).st := by
      unfold Res.toExcept Sequence.addElement; simp [hv]
    rw [hadd] at h
    simp only at h
    cases i with
    | zero =>
      -- stored at k+1 now; later additions go to other positions
      have key : ∀ (n k' : Nat) (s1 s2 : Sequence), k < k' → Tools.addCopies base n k' s1 = .ok s2 →
          Dict.get? s2.data ((k + 1 : Nat) : Int) = Dict.get? s1.data ((k + 1 : Nat) : Int) := by
        intro n
        induction n with
        | zero => intro k' s1 s2 _ h2; simp [Tools.addCopies] at h2; subst h2; rfl
        | succ n ih2 =>
          intro k' s1 s2 hk h2
          unfold Tools.addCopies at h2
          have hadd2 : (s1.addElement ((k' + 1 : Nat) : Int) base).toExcept =
              .ok (s1.addElement ((k' + 1 : Nat) : Int) base).st := by
            unfold Res.toExcept Sequence.addElement; simp [hv]
          rw [hadd2] at h2
          simp only at h2
          rw [ih2 (k' + 1) _ s2 (by omega) h2]
          exact (addElement_stores s1 _ base m hv).2.2.1 _ (by omega)
      rw [show k + 0 + 1 = k + 1 by omega, key n (k + 1) _ s' (by omega) h]
      exact (addElement_stores s _ base m hv).1
    | succ j =>
      have := ih (k + 1) _ h j (by omega)
      rw [show k + (j + 1) + 1 = k + 1 + j + 1 by omega]
      exact this

/-! ### the reference level: who owns what (BB.Model.Heap)

The theorems above are about values; aliasing cannot even be expressed there.  `BB.Model.Heap`
models the object graph itself — every list, dict, array and object a BluePrint / Element /
Sequence is made of, with the copies (deep, shallow, none) each storing or deriving method makes —
as programs over two checked primitives.  The statements below hold for *every* program over those
primitives, hence for the programs that model broadbean's methods; that those programs produce
the sharing the real methods produce is what the correspondence check observes with `id()`. -/

open BB.Heap in
/-- after any history of public calls: references never leave their owner except to frozen cells
    (nested filter dicts, arrays — kinds no method writes into), every cell has an owner that was
    handed out, every user-held object is live, and differently named user-held objects have
    different owners -/
theorem heap_separation (calls : List Call) : Inv (calls.foldl State.call {}) := inv_history calls

open BB.Heap in
/-- **independence**: after any history, whatever is then called on *other* objects — mutators,
    deriving calls binding other names, read-only calls on anything — everything observable of the
    object named `ty` (the whole tree hanging from it, validation caches aside) stays what it was -/
theorem heap_independent (hist later : List Call) (ty : String) (y : Addr)
    (hy : (ty, y) ∈ (hist.foldl State.call {}).vars)
    (hother : ∀ c ∈ later, match c with | .act tx _ => tx ≠ ty | .derive nm _ => nm ≠ ty | .query _ _ => True) (n : Nat) :
    unfold n (later.foldl State.call (hist.foldl State.call {})).heap y = unfold n (hist.foldl State.call {}).heap y :=
  independent hist later ty y hy hother n

open BB.Heap in
/-- a deriving call (copy, `+`, addBluePrint's stored copy, the sweep tools) leaves its sources —
    every object that existed — exactly as they were -/
theorem heap_derive_leaves_sources (st : State) (hi : Inv st) (name : String) (p : Prog Addr) (y : Addr)
    (cy : Cell) (hy : st.heap[y]? = some cy) (n : Nat) :
    unfold n (st.derive name p).heap y = unfold n st.heap y := derive_frame st hi name p y cy hy n

/-! non-vacuity: a concrete history through the modelled methods (blueprint, element, stored copy,
    element copy edited, sequence, forge) runs without fault and ends with four user-held objects -/

open BB.Heap in
def exHist : List Call :=
  [ .derive "b" bpNew, .act "b" (bpMutate 1), .derive "e" elNew,
    .act "e" (fun e => elAddBP e "1" 8), .derive "e2" (elCopy 11), .act "e2" (fun e => elMutateBP 2 e "1"),
    .derive "s" sqNew, .act "s" (fun s => sqAddElement 3 s "1" 11), .query "s" (sqForge 4) ]

open BB.Heap in
example : (exHist.foldl State.call {}).fault = false ∧
    (exHist.foldl State.call {}).vars = [("b", 8), ("e", 11), ("e2", 34), ("s", 39)] := by decide

/-! ### the reference level, for the library's own programs: no call faults (G8)

`heap_separation` / `heap_independent` hold for every program over the checked primitives — but a
program that breaks the ownership discipline *faults*, and then they say nothing about what the
Python method does.  The theorems below close that gap for the programs that model broadbean's
methods: `BB.Heap.LibCall` has one constructor per method program of BB.Model.Heap (constructors,
`copy`, `+`, the blueprint / element / sequence mutators, `addBluePrint` / `addArray` / `addFlags`,
`addElement` / `addSubSequence`, the three sweep tools, and the read-only calls), made on
user-held variables.  `BB.Heap.Shaped` is the shape invariant: `Inv`, every cell holds what its
kind allows (`Typed`: kinds of the referenced cells, fixed attribute keys; with `Closed`:
ownership, frozen cells referencing frozen cells), every variable points to a BluePrint / Element /
Sequence whose stored subsequences hold elements only (so everything fits into `depth`), unique
names, no fault so far.  `LibCall.ok` is the explicit, decidable guard: the named variables are
live objects of the right class, and the keys exist on which the Python raises (`KeyError` for a
channel / position, `ValueError` for a nested subsequence, an unknown marker list).
Proofs: BB/Proofs/G8*.lean (bottom-up: `cellAt`/`refAt`/`setKey`, `shallowCopy`/`deepCopy`,
blueprint, element, sequence programs, tools). -/

open BB.Heap in
/-- the shape invariant holds for the empty state -/
theorem heap_shaped_init : Shaped {} := shaped_init

open BB.Heap in
/-- **no library program faults on a shaped state**: whichever call of the vocabulary — storing
    (`addBluePrint`, `addArray`, `addElement`, `addSubSequence`), deriving (`copy`, `+`, the sweep
    tools, the constructors), mutating, or read-only — if its guard holds, the call does not fault
    and the state is shaped again -/
theorem heap_lib_call_nofault (st : State) (c : LibCall) (hs : Shaped st) (hok : c.ok st = true) :
    Shaped (c.run st) ∧ (c.run st).fault = false :=
  ⟨lib_step st c hs hok, (lib_step st c hs hok).nofault⟩

open BB.Heap in
example : Shaped (runLib {} exLibC) ∧ (LibCall.sqAddSub "s2" "3" "sub").ok (runLib {} exLibC) = true :=
  ⟨(lib_history exLibC exLibC_guarded).1, by decide +kernel⟩

open BB.Heap in
/-- the guard of `addSubSequence` is not idle: a sequence that itself holds a subsequence is
    refused (the Python raises `ValueError`) -/
example : (LibCall.sqAddSub "sub" "2" "s").ok (runLib {} exLibC) = false := by decide +kernel

open BB.Heap in
/-- the guards are needed — the model programs DO fault outside them.  (1) a marker-list
    assignment under a key that is not one of the blueprint's lists, followed by `+`: the sum would
    hold a reference to a list of its left operand.  (2) editing "the element" at a position that
    holds a subsequence. -/
theorem heap_guards_needed :
    ([ Call.derive "a" bpNew, .derive "b" bpNew, .act "b" (fun b => bpSetMarker 1 b "foo"),
       .derive "c" (bpAdd 17 8) ].foldl State.call {}).fault = true ∧
    (runLib {} [ .bpNew "b", .elNew "e", .elAddBP "e" "1" "b", .sqNew "s", .sqNew "sub",
       .sqAddElement 1 "sub" "1" "e", .sqAddSub "s" "1" "sub", .sqElMutate 2 "s" "1" "1" ]).fault = true ∧
    guarded {} [ .bpNew "b", .elNew "e", .elAddBP "e" "1" "b", .sqNew "s", .sqNew "sub",
       .sqAddElement 1 "sub" "1" "e", .sqAddSub "s" "1" "sub", .sqElMutate 2 "s" "1" "1" ] = false := by
  decide +kernel

open BB.Heap in
/-- **no history of guarded library calls ever faults** -/
theorem heap_lib_history_nofault (cs : List LibCall) (hg : guarded {} cs = true) :
    Shaped (runLib {} cs) ∧ (runLib {} cs).fault = false := lib_history cs hg

open BB.Heap in
example : guarded {} exLibA = true ∧ guarded {} exLibD = true := ⟨exLibA_guarded, exLibD_guarded⟩

open BB.Heap in
/-- **independence over library histories, without a no-fault assumption**: after any guarded
    history of library calls, any further guarded library calls that do not target the variable
    `ty` — any public mutator of another object (the source of a copy, the copy of a source, a
    container the object was stored into), deriving calls bound to other names, read-only calls on
    anything — leave everything observable of the object `ty` names unchanged; and no call of
    either history faults -/
theorem heap_lib_independent (hist later : List LibCall) (hg : guarded {} (hist ++ later) = true)
    (ty : String) (y : Addr) (hy : (ty, y) ∈ (runLib {} hist).vars)
    (hother : ∀ c ∈ later, c.target ≠ some ty) (n : Nat) :
    (runLib {} (hist ++ later)).fault = false ∧
    unfold n (runLib {} (hist ++ later)).heap y = unfold n (runLib {} hist).heap y :=
  lib_independent hist later hg ty y hy hother n

open BB.Heap in
/-- an instance: after `e2 = e.copy()` and `s.addElement(1, e)`, mutating the source `e` (a new
    channel, its stored blueprint) and the copy `e2` leaves the sequence `s` as it was -/
example : guarded {} (exLibB ++ [.elCopy "e" "e2", .elAddArray 20 "e" "2" ["wfm"], .elMutateBP 21 "e" "1",
      .elMutateBP 22 "e2" "1"]) = true ∧
    (∀ c ∈ [LibCall.elCopy "e" "e2", .elAddArray 20 "e" "2" ["wfm"], .elMutateBP 21 "e" "1", .elMutateBP 22 "e2" "1"],
      c.target ≠ some "s") ∧
    ("s", 26) ∈ (runLib {} exLibB).vars := by decide +kernel

open BB.Heap in
/-- **`BluePrint.copy()` initially equals its source**: the call does not fault and the returned
    object unfolds, to every depth, to the same tree as the source -/
theorem heap_bpCopy_same (st : State) (hs : Shaped st) (b dst : String) (hok : (LibCall.bpCopy b dst).ok st = true) :
    ∃ x y : Addr, st.vars.lookup b = some x ∧ ((LibCall.bpCopy b dst).run st).vars.lookup dst = some y ∧
      ((LibCall.bpCopy b dst).run st).fault = false ∧
      ∀ n, unfold n ((LibCall.bpCopy b dst).run st).heap y = unfold n st.heap x := lib_bpCopy_same st hs b dst hok

open BB.Heap in
example : (LibCall.bpCopy "b" "b9").ok (runLib {} exLibA) = true := by decide +kernel

open BB.Heap in
/-- **`Element.copy()` initially equals its source** (deep copies of the channel store and of the
    cache; same tree to every depth) -/
theorem heap_elCopy_same (st : State) (hs : Shaped st) (e dst : String) (hok : (LibCall.elCopy e dst).ok st = true) :
    ∃ x y : Addr, st.vars.lookup e = some x ∧ ((LibCall.elCopy e dst).run st).vars.lookup dst = some y ∧
      ((LibCall.elCopy e dst).run st).fault = false ∧
      ∀ n, unfold n ((LibCall.elCopy e dst).run st).heap y = unfold n st.heap x := lib_elCopy_same st hs e dst hok

open BB.Heap in
example : (LibCall.elCopy "e" "e9").ok (runLib {} exLibA) = true := by decide +kernel

open BB.Heap in
/-- **`Sequence.copy()` initially equals its source** in its element store, sequencing and
    settings (the name is not copied) -/
theorem heap_sqCopy_same (st : State) (hs : Shaped st) (s dst : String) (hok : (LibCall.sqCopy s dst).ok st = true) :
    ∃ x y : Addr, st.vars.lookup s = some x ∧ ((LibCall.sqCopy s dst).run st).vars.lookup dst = some y ∧
      ((LibCall.sqCopy s dst).run st).fault = false ∧
      ∀ key ∈ ["_data", "_sequencing", "_awgspecs"], ∃ a a' : Addr, follow st.heap x key = some a ∧
        follow ((LibCall.sqCopy s dst).run st).heap y key = some a' ∧
        ∀ n, unfold n ((LibCall.sqCopy s dst).run st).heap a' = unfold n st.heap a := lib_sqCopy_same st hs s dst hok

open BB.Heap in
example : (LibCall.sqCopy "s" "s9").ok (runLib {} exLibC) = true := by decide +kernel

open BB.Heap in
/-- **`deepCopy` is correct**: on a closed, well-typed heap the deep copy of a graph at most
    `depth` cells high does not fault, allocates only cells of the running owner, rewrites nothing,
    returns a fresh cell that unfolds to every depth to the same tree as the source, and leaves the
    unfolding of everything that existed as it was -/
theorem heap_deepCopy_correct (r : Owner) (h : Heap) (a : Addr) (hg : Good h) (hf : Fits depth h a) :
    ∃ (a' : Addr) (h' : Heap), exec r (deepCopyAddr a) h = some (a', h') ∧ h.length ≤ a' ∧
      (∀ (x : Addr) (c : Cell), h.length ≤ x → h'[x]? = some c → c.owner = r) ∧
      (∀ (x : Addr) (c : Cell), h[x]? = some c → h'[x]? = some c) ∧
      (∀ n, unfold n h' a' = unfold n h a) ∧
      (∀ (n : Nat) (x : Addr) (c : Cell), h[x]? = some c → unfold n h' x = unfold n h x) :=
  deepCopy_correct r h a hg hf

open BB.Heap in
example : ∃ a, Good (runLib {} exLibB).heap ∧ Fits depth (runLib {} exLibB).heap a := by
  have hs := (lib_history exLibB exLibB_guarded).1
  obtain ⟨x, c, _, hc, hk⟩ := isVar_spec (st := runLib {} exLibB) (name := "e") (k := .elObj) (by decide +kernel)
  exact ⟨x, hs.good, fits_low hs.good ⟨c, hc, hk⟩ rfl⟩

open BB.Heap in
/-- `deepCopy` of a graph of any height `n` (the general statement): no fault, nothing rewritten,
    and a cell-by-cell copy (`CopyRel`) hangs from the returned fresh cell -/
theorem heap_deepCopy_runs (base : Nat) (r : Owner) (n : Nat) (h : Heap) (a : Addr) (hg : Good h) (hf : Fits n h a) :
    ∃ (a' : Addr) (h' : Heap), execB base r (deepCopy n a) h = some (.ref a', h') ∧ h.length ≤ a' ∧
      Evo r pNone h h' ∧ CopyRel h' n a a' := by
  obtain ⟨s, h', hx, a', hs, h1, h2, h3⟩ := deepCopy_spec (base := base) (r := r) n h a hg hf
  subst hs
  exact ⟨a', h', hx, h1, h2, h3⟩

open BB.Heap in
example : ∃ a, Fits 5 (runLib {} exLibB).heap a := by
  have hs := (lib_history exLibB exLibB_guarded).1
  obtain ⟨x, c, _, hc, hk⟩ := isVar_spec (st := runLib {} exLibB) (name := "e") (k := .elObj) (by decide +kernel)
  exact ⟨x, fits_of_rank hs.typed 5 x c hc (by rw [hk]; rfl) (by rw [hk]; decide)⟩

/-! ### `addSubSequence` stores a copy; other positions untouched (G8, value level) -/

/-- **`addSubSequence` stores `storedSub`** (the argument's elements, sequencing and settings,
    without the name) under the position with the default sequencing entry, and leaves every other
    position of the store and of the sequencing table, the settings and the name untouched —
    whenever the argument holds elements only and has the receiver's sample rate -/
theorem addSubSequence_stores (s : Sequence) (pos : Int) (sub : Sequence) (d : Dict Int Element)
    (hd : Sequence.elementsOnly sub.data = some d) (hsr : sub.getSR = s.getSR) :
    (s.addSubSequence pos sub).err = none ∧
    Dict.get? (s.addSubSequence pos sub).st.data pos = some (.sub (Sequence.storedSub sub d)) ∧
    Dict.get? (s.addSubSequence pos sub).st.sequencing pos = some Sequence.defaultSeqSub ∧
    (∀ p, p ≠ pos → Dict.get? (s.addSubSequence pos sub).st.data p = Dict.get? s.data p) ∧
    (∀ p, p ≠ pos → Dict.get? (s.addSubSequence pos sub).st.sequencing p = Dict.get? s.sequencing p) ∧
    (s.addSubSequence pos sub).st.awgspecs = s.awgspecs ∧
    (s.addSubSequence pos sub).st.name = s.name := C09V.addSubSequence_stores s pos sub d hd hsr

example : Sequence.elementsOnly C09V.exSub.data = some [(1, C09V.exEl)] ∧ C09V.exSub.getSR = C09V.exHost.getSR := by
  decide

/-- `addSubSequence` is accepted exactly in that case; otherwise (a nested subsequence, another
    sample rate) the receiver is exactly what it was and a `ValueError` is raised -/
theorem addSubSequence_refusals (s : Sequence) (pos : Int) (sub : Sequence) :
    ((s.addSubSequence pos sub).err = none ↔
      (∃ d, Sequence.elementsOnly sub.data = some d) ∧ sub.getSR = s.getSR) ∧
    (Sequence.elementsOnly sub.data = none →
      (s.addSubSequence pos sub).st = s ∧ (s.addSubSequence pos sub).err = some .value) ∧
    (sub.getSR ≠ s.getSR → (s.addSubSequence pos sub).st = s ∧ (s.addSubSequence pos sub).err = some .value) :=
  ⟨C09V.addSubSequence_ok_iff s pos sub, C09V.addSubSequence_nested_refused s pos sub,
    C09V.addSubSequence_SR_refused s pos sub⟩

/-- the stored copy describes and answers the queries like its source -/
theorem storedSub_same_output (sub : Sequence) (d : Dict Int Element) (hd : Sequence.elementsOnly sub.data = some d) :
    Sequence.subToDesc (Sequence.storedSub sub d) = sub.toDesc ∧
    SubSeq.channels (Sequence.storedSub sub d) = sub.channels ∧
    SubSeq.points (Sequence.storedSub sub d) = sub.points ∧
    SubSeq.duration (Sequence.storedSub sub d) = sub.duration :=
  ⟨C09V.storedSub_toDesc sub d hd, C09V.storedSub_queries sub d hd⟩

/-! ### `a + b`: the entries are copies, `b`'s at shifted keys (G8, value level) -/

/-- **`a.add b = .ok c`: the entries of `c` are `copyEntry` of `a`'s entries at their own keys and
    of `b`'s at keys shifted by `len(a)`** — key by key, as two halves, and as a list; `c` has
    `len(a) + len(b)` positions -/
theorem add_entries (a b c : Sequence) (h : a.add b = .ok c) :
    (∀ k : Int, Dict.get? c.data k =
      if k ∈ Dict.keys a.data then (Dict.get? a.data k).map Sequence.copyEntry
      else (Dict.get? b.data (k - (a.data.length : Int))).map Sequence.copyEntry) ∧
    (∀ k en, Dict.get? a.data k = some en → Dict.get? c.data k = some (Sequence.copyEntry en)) ∧
    (∀ k en, Dict.get? b.data k = some en →
      Dict.get? c.data (k + (a.data.length : Int)) = some (Sequence.copyEntry en)) ∧
    c.data.length = a.data.length + b.data.length ∧
    c.data = a.data.map (fun p => (p.1, Sequence.copyEntry p.2)) ++
      b.data.map (fun p => (p.1 + (a.data.length : Int), Sequence.copyEntry p.2)) :=
  ⟨C09V.add_entries a b c h, C09V.add_entries_split a b c h⟩

example : (C09V.exHost.add C09V.exHost).toOption.isSome = true := by decide +kernel

/-- the exact guard of `+`, the settings and name of the result, and what a copied entry is -/
theorem add_guard_and_settings (a b c : Sequence) :
    (a.add b = .ok c ↔ a.checkConsistency = .ok true ∧ b.checkConsistency = .ok true ∧
      Dict.eqBy (· == ·) a.awgspecs b.awgspecs = true ∧ c = Sequence.addCore a b) ∧
    (a.add b = .ok c → c.awgspecs = b.awgspecs ∧ Dict.eqBy (· == ·) a.awgspecs c.awgspecs = true ∧ c.name = "") ∧
    (∀ e, Sequence.copyEntry (.el e) = .el e) ∧
    (∀ sub, Sequence.copyEntry (.sub sub) = .sub { sub with name := "" }) :=
  ⟨C09V.add_guard a b c, C09V.add_settings a b c, fun _ => rfl, fun _ => rfl⟩

/-- the sequencing table of `a + b`, key by key: `b`'s entry for `k - len(a)` with goto / jump
    target retargeted if `b` has one there, else `a`'s own entry -/
theorem add_sequencing (a b c : Sequence) (h : a.add b = .ok c) (hwf : Dict.WF b.sequencing) (k : Int) :
    Dict.get? c.sequencing k =
      ((Dict.get? b.sequencing (k - (a.data.length : Int))).map (Sequence.retargetSeq (a.data.length : Int))).or
        (Dict.get? a.sequencing k) := C09V.add_sequencing_get a b c h hwf k

example : Dict.WF C09V.exHost.sequencing := by unfold Dict.WF; decide

/-! ### the sweep tools store edited copies (G8, value level) -/

open BB.Tools in
/-- **`linLoop`: position `ind+j+1` holds `applyChange` of a copy of the base element for value
    `j`** (accepted, validated, cache filled) with the default sequencing entry; every position
    outside `ind+1 … ind+len`, the settings and the name are untouched -/
theorem linLoop_positions (base : Element) (ch : Chan) (name : String) (arg : Val) (vals : List Rat) (ind : Nat)
    (s r : Sequence) (h : linLoop base ch name arg vals ind s = .ok r) :
    (∀ j (hj : j < vals.length), ∃ m,
      (applyChange base.copy ch name arg (.num vals[j])).err = none ∧
      (applyChange base.copy ch name arg (.num vals[j])).st.validate = .ok m ∧
      Dict.get? r.data ((ind + j + 1 : Nat) : Int) =
        some (.el { (applyChange base.copy ch name arg (.num vals[j])).st with cache := some m }) ∧
      Dict.get? r.sequencing ((ind + j + 1 : Nat) : Int) = some Sequence.defaultSeqEl) ∧
    (∀ p : Int, (p ≤ (ind : Int) ∨ ((ind + vals.length : Nat) : Int) < p) →
      Dict.get? r.data p = Dict.get? s.data p ∧ Dict.get? r.sequencing p = Dict.get? s.sequencing p) ∧
    r.awgspecs = s.awgspecs ∧ r.name = s.name := C09V.linLoop_positions base ch name arg vals ind s r h

open BB.Tools in
example : (linLoop C09V.exBase (.int 1) "ramp" (.str "stop") [1, 2] 0 (({} : Sequence).setSR (.num 10))).toOption.isSome = true := by
  decide +kernel

open BB.Tools in
/-- **`repeatLoop`: block `i` of the result holds `copyEntry` of the input's entries with the
    changes of step `i` applied** (`G5.stepEntry`), at keys shifted by `len(acc) + i·len(seq)`;
    the settings are kept -/
theorem repeatLoop_blocks (seq : Sequence) (pv : List (Int × Variation)) (steps : List Nat) (acc r : Sequence)
    (h : repeatLoop seq pv steps acc = .ok r) (hsp : acc.awgspecs = seq.awgspecs) :
    r.data.length = acc.data.length + steps.length * seq.data.length ∧ r.awgspecs = acc.awgspecs ∧
    ∀ i (hi : i < steps.length) (p : Int) (en : Entry), Dict.get? seq.copy.data p = some en →
      Dict.get? r.data (p + ((acc.data.length + i * seq.data.length : Nat) : Int)) =
        some (Sequence.copyEntry (G5.stepEntry steps[i] pv p en)) := C09V.repeatLoop_blocks seq pv steps acc r h hsp

open BB.Tools in
/-- the same for the public tool `repeatAndVarySequence`, with its guards -/
theorem repeatAndVary_blocks (seq : Sequence) (lens : List Nat) (poss : List Int) (vars : List Variation)
    (r : Sequence) (h : repeatAndVarySequence seq lens poss vars = .ok r) :
    ∃ n, sweepSteps lens vars = .ok n ∧ seq.checkConsistency = .ok true ∧
      r.data.length = n * seq.data.length ∧ r.awgspecs = seq.awgspecs ∧
      ∀ i (_ : i < n) (p : Int) (en : Entry), Dict.get? seq.copy.data p = some en →
        Dict.get? r.data (p + ((i * seq.data.length : Nat) : Int)) =
          some (Sequence.copyEntry (G5.stepEntry i (poss.zip vars) p en)) :=
  C09V.repeatAndVary_blocks seq lens poss vars r h

end BB.C09
