/-
  Property C09 — copies and stored/derived objects are independent of their source.

  The model has value semantics: an object *is* its state, so "mutating one side does not change
  the other" cannot even be mis-stated in it.  What the theorems establish is the other half of
  the property — that the derived object *initially* has the same description and forged output
  as its source — which is real content, because `BluePrint.copy` (and everything that stores a
  blueprint) goes through `_basename`, `__init__` and `_make_names_unique`.
  Independence of the Python objects (a dropped `.copy()`, a shallow copy) is runtime aliasing; it
  is decided by the refinement check of this property (harness/props/c09.py), which mutates either
  side after every deriving operation and compares every object's public state with the
  value-semantics model after every step.  Level: proof (equality at creation) + refinement check
  (independence) — partial.
-/
import BB.Proofs.Copy
import BB.Proofs.Body
import BB.Proofs.DictEq
import BB.Model.Describe
import BB.Model.Tools
import BB.Proofs.Heap

namespace BB.C09
open BB BB.BP

/-! ### blueprints -/

/-- `copy()` of any blueprint obtained through the public API is that very blueprint: same
    names, functions, arguments, durations, markers, sample rate -/
theorem bp_copy_eq (h : Hist) : h.eval.copy = h.eval := copy_reachable h

/-- hence the same description … -/
theorem bp_copy_desc (h : Hist) : h.eval.copy.toDesc = h.eval.toDesc := by rw [bp_copy_eq]

/-- … and — for *every* blueprint value, reachable or not — the same forged output, duration
    and number of points (a copy changes names at most) -/
theorem bp_copy_forge (b : BP) :
    forgeBP b.copy = forgeBP b ∧ b.copy.duration = b.duration ∧ b.copy.points = b.points :=
  ⟨forge_copy b, duration_copy b, points_copy b⟩

/-- `b₁ + b₂` keeps every segment of both operands (names aside) and forges from those -/
theorem bp_add_body (a b : BP) : (a.add b).segs.map Seg.body = (a.segs ++ b.segs).map Seg.body :=
  add_body a b

/-! ### elements -/

/-- `addBluePrint` stores a copy of the blueprint — which for a reachable blueprint is equal to
    it — under the channel, and leaves every other channel alone -/
theorem addBluePrint_stores (e : Element) (ch : Chan) (h : Hist) (hne : h.eval.segs ≠ []) :
    Dict.get? (e.addBluePrint ch h.eval).st.chans ch = some { data := .bp h.eval } ∧
    (∀ ch2, ch2 ≠ ch → Dict.get? (e.addBluePrint ch h.eval).st.chans ch2 = Dict.get? e.chans ch2) ∧
    (e.addBluePrint ch h.eval).err = none := by
  unfold Element.addBluePrint
  have : h.eval.segs.isEmpty = false := by
    cases hs : h.eval.segs with
    | nil => exact absurd hs hne
    | cons _ _ => rfl
  simp only [this, Bool.false_eq_true, if_false, bp_copy_eq]
  exact ⟨Dict.get?_upsert_self _ _ _, fun ch2 hc => Dict.get?_upsert_other _ _ _ _ hc, trivial⟩

/-- what the stored channel describes and forges is what the source blueprint does -/
theorem addBluePrint_same_output (h : Hist) (t : Bool) :
    Element.chanDesc { data := .bp h.eval.copy } = Element.chanDesc { data := .bp h.eval } ∧
    Element.chanOut t { data := .bp h.eval.copy } = Element.chanOut t { data := .bp h.eval } := by
  rw [bp_copy_eq]; exact ⟨rfl, rfl⟩

/-- `Element.copy()` is a deep copy: the same value -/
theorem el_copy_eq (e : Element) : e.copy = e := rfl

/-! ### sequences -/

/-- `addElement` stores the (validated) element under the position with the default sequencing
    entry and leaves every other position alone -/
theorem addElement_stores (s : Sequence) (pos : Int) (e : Element) (m : Val × Rat) (hv : e.validate = .ok m) :
    Dict.get? (s.addElement pos e).st.data pos = some (.el { e with cache := some m }) ∧
    Dict.get? (s.addElement pos e).st.sequencing pos = some Sequence.defaultSeqEl ∧
    (∀ p, p ≠ pos → Dict.get? (s.addElement pos e).st.data p = Dict.get? s.data p) ∧
    (s.addElement pos e).st.awgspecs = s.awgspecs := by
  unfold Sequence.addElement
  simp only [hv]
  exact ⟨Dict.get?_upsert_self _ _ _, Dict.get?_upsert_self _ _ _, fun p hp => Dict.get?_upsert_other _ _ _ _ hp, trivial⟩

/-- the stored element describes and forges like the source element (the validation cache is
    not part of either) -/
theorem stored_element_same_output (e : Element) (m : Val × Rat) (t : Bool) :
    ({ e with cache := some m } : Element).toDesc = e.toDesc ∧
    ({ e with cache := some m } : Element).getArrays t = e.getArrays t ∧
    ({ e with cache := some m } : Element).validate = e.validate := ⟨rfl, rfl, rfl⟩

/-- a rejected element is not stored -/
theorem addElement_rejected (s : Sequence) (pos : Int) (e : Element) (er : Err) (hv : e.validate = .error er) :
    (s.addElement pos e).st = s ∧ (s.addElement pos e).err = some er := by
  unfold Sequence.addElement
  simp [hv]

/-- `Sequence.copy()` has the same store, sequencing and settings (only the name is dropped) … -/
theorem seq_copy_fields (s : Sequence) :
    s.copy.data = s.data ∧ s.copy.sequencing = s.sequencing ∧ s.copy.awgspecs = s.awgspecs := ⟨rfl, rfl, rfl⟩

/-- … hence the same description, consistency verdict, channels, points, duration and forged
    output under every option combination -/
theorem seq_copy_same_output (s : Sequence) (d f t : Bool) :
    s.copy.toDesc = s.toDesc ∧ s.copy.checkConsistency = s.checkConsistency ∧
    s.copy.channels = s.channels ∧ s.copy.points = s.points ∧ s.copy.duration = s.duration ∧
    s.copy.forge d f t = s.forge d f t := ⟨rfl, rfl, rfl, rfl, rfl, rfl⟩

/-- a copy of a stored entry is that entry, up to a subsequence's name -/
theorem copyEntry_el (e : Element) : Sequence.copyEntry (.el e) = .el e := rfl

/-! ### the sweep tools start from copies of their input -/

/-- position `k+1 … k+n` of `addCopies` each hold the base element itself -/
theorem addCopies_get (base : Element) (m : Val × Rat) (hv : base.validate = .ok m) (n k : Nat) (s s' : Sequence)
    (h : Tools.addCopies base n k s = .ok s') (i : Nat) (hi : i < n) :
    Dict.get? s'.data (((k + i + 1 : Nat)) : Int) = some (.el { base with cache := some m }) := by
  induction n generalizing k s i with
  | zero => omega
  | succ n ih =>
    unfold Tools.addCopies at h
    have hadd : (s.addElement ((k + 1 : Nat) : Int) base).toExcept =
        .ok (s.addElement ((k + 1 : Nat) : Int) base).st := by
      unfold Res.toExcept Sequence.addElement; simp [hv]
    rw [hadd] at h
    simp only at h
    cases i with
    | zero =>
      -- stored at k+1 now; later additions go to other positions
      have key : ∀ (n k' : Nat) (s1 s2 : Sequence), k < k' → Tools.addCopies base n k' s1 = .ok s2 →
          Dict.get? s2.data ((k + 1 : Nat) : Int) = Dict.get? s1.data ((k + 1 : Nat) : Int) := by
        intro n
        induction n with
        | zero => intro k' s1 s2 _ h2; simp [Tools.addCopies] at h2; subst h2; rfl
        | succ n ih2 =>
          intro k' s1 s2 hk h2
          unfold Tools.addCopies at h2
          have hadd2 : (s1.addElement ((k' + 1 : Nat) : Int) base).toExcept =
              .ok (s1.addElement ((k' + 1 : Nat) : Int) base).st := by
            unfold Res.toExcept Sequence.addElement; simp [hv]
          rw [hadd2] at h2
          simp only at h2
          rw [ih2 (k' + 1) _ s2 (by omega) h2]
          exact (addElement_stores s1 _ base m hv).2.2.1 _ (by omega)
      rw [show k + 0 + 1 = k + 1 by omega, key n (k + 1) _ s' (by omega) h]
      exact (addElement_stores s _ base m hv).1
    | succ j =>
      have := ih (k + 1) _ h j (by omega)
      rw [show k + (j + 1) + 1 = k + 1 + j + 1 by omega]
      exact this

/-! ### the reference level: who owns what (BB.Model.Heap)

The theorems above are about values; aliasing cannot even be expressed there.  `BB.Model.Heap`
models the object graph itself — every list, dict, array and object a BluePrint / Element /
Sequence is made of, with the copies (deep, shallow, none) each storing or deriving method makes —
as programs over two checked primitives.  The statements below hold for *every* program over those
primitives, hence for the programs that model broadbean's methods; that those programs produce
the sharing the real methods produce is what the correspondence check observes with `id()`. -/

open BB.Heap in
/-- after any history of public calls: references never leave their owner except to frozen cells
    (nested filter dicts, arrays — kinds no method writes into), every cell has an owner that was
    handed out, every user-held object is live, and differently named user-held objects have
    different owners -/
theorem heap_separation (calls : List Call) : Inv (calls.foldl State.call {}) := inv_history calls

open BB.Heap in
/-- **independence**: after any history, whatever is then called on *other* objects — mutators,
    deriving calls binding other names, read-only calls on anything — everything observable of the
    object named `ty` (the whole tree hanging from it, validation caches aside) stays what it was -/
theorem heap_independent (hist later : List Call) (ty : String) (y : Addr)
    (hy : (ty, y) ∈ (hist.foldl State.call {}).vars)
    (hother : ∀ c ∈ later, match c with | .act tx _ => tx ≠ ty | .derive nm _ => nm ≠ ty | .query _ _ => True) (n : Nat) :
    unfold n (later.foldl State.call (hist.foldl State.call {})).heap y = unfold n (hist.foldl State.call {}).heap y :=
  independent hist later ty y hy hother n

open BB.Heap in
/-- a deriving call (copy, `+`, addBluePrint's stored copy, the sweep tools) leaves its sources —
    every object that existed — exactly as they were -/
theorem heap_derive_leaves_sources (st : State) (hi : Inv st) (name : String) (p : Prog Addr) (y : Addr)
    (cy : Cell) (hy : st.heap[y]? = some cy) (n : Nat) :
    unfold n (st.derive name p).heap y = unfold n st.heap y := derive_frame st hi name p y cy hy n

/-! non-vacuity: a concrete history through the modelled methods (blueprint, element, stored copy,
    element copy edited, sequence, forge) runs without fault and ends with four user-held objects -/

open BB.Heap in
def exHist : List Call :=
  [ .derive "b" bpNew, .act "b" (bpMutate 1), .derive "e" elNew,
    .act "e" (fun e => elAddBP e "1" 8), .derive "e2" (elCopy 11), .act "e2" (fun e => elMutateBP 2 e "1"),
    .derive "s" sqNew, .act "s" (fun s => sqAddElement 3 s "1" 11), .query "s" (sqForge 4) ]

open BB.Heap in
example : (exHist.foldl State.call {}).fault = false ∧
    (exHist.foldl State.call {}).vars = [("b", 8), ("e", 11), ("e2", 34), ("s", 39)] := by decide

end BB.C09
