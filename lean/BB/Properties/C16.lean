/-
  Property C16 — sequence concatenation is compositional, associative and retargets jumps;
  blueprint concatenation forges to the concatenation of the operands.

  `Sequence.add` is the model's `__add__` (checks, then `addCore`); `Gen.retargetGoto/Jump` are
  regenerated from the two `if newitem[...] > 0: += N` statements of the source.
-/
import BB.Proofs.Add
import BB.Proofs.Delay
import BB.Proofs.G5Add
import BB.Proofs.G5Markers
import BB.Model.Tools
import BB.Properties.C10
import BB.Proofs.G10ReadBack

namespace BB.C16
open BB BB.Sequence BB.G5

/-! ### the retarget rule (regenerated kernel) -/

/-- every positive goto is increased by `len(a)`; 0 ("next") and negative values keep their meaning -/
theorem retarget_goto (v N : ℤ) :
    (0 < v → Gen.retargetGoto v N = v + N) ∧ (v ≤ 0 → Gen.retargetGoto v N = v) := by
  unfold Gen.retargetGoto; constructor <;> intro h <;> simp <;> omega

/-- every positive jump target is increased by `len(a)`; 0 (off) and -1 keep their meaning -/
theorem retarget_jump (v N : ℤ) :
    (0 < v → Gen.retargetJump v N = v + N) ∧ (v ≤ 0 → Gen.retargetJump v N = v) := by
  unfold Gen.retargetJump; constructor <;> intro h <;> simp <;> omega

theorem retarget_special (N : ℤ) :
    Gen.retargetGoto 0 N = 0 ∧ Gen.retargetJump 0 N = 0 ∧ Gen.retargetJump (-1) N = -1 := by
  simp [Gen.retargetGoto, Gen.retargetJump]

/-- moving behind `M` and then behind `N` positions is moving behind `N + M` positions -/
theorem retargetSeq_comp (N M : ℤ) (hN : 0 ≤ N) (hM : 0 ≤ M) (q : SeqSet) :
    retargetSeq N (retargetSeq M q) = retargetSeq (N + M) q := by
  unfold retargetSeq Gen.retargetGoto Gen.retargetJump
  obtain ⟨a, b, c, d, e⟩ := q
  simp only [SeqSet.mk.injEq, true_and]
  constructor <;> (repeat' split) <;> omega

/-- only `goto` and `jump_target` are touched -/
theorem retargetSeq_frame (N : ℤ) (q : SeqSet) :
    (retargetSeq N q).twait = q.twait ∧ (retargetSeq N q).nrep = q.nrep ∧ (retargetSeq N q).jump_input = q.jump_input :=
  ⟨rfl, rfl, rfl⟩

/-! ### when `+` succeeds, and what it raises otherwise -/

/-- `a + b` returns a sequence iff both operands are consistent and carry equal AWG settings;
    then it is `addCore a b` -/
theorem add_ok_iff (a b s : Sequence) :
    a.add b = .ok s ↔ a.checkConsistency = .ok true ∧ b.checkConsistency = .ok true ∧
      Dict.eqBy (· == ·) a.awgspecs b.awgspecs = true ∧ s = addCore a b := by
  unfold Sequence.add
  constructor
  · intro h
    split at h
    · cases h
    · cases h
    · split at h
      · cases h
      · cases h
      · split at h
        · rename_i h1 _ h2 h3
          cases h
          exact ⟨h1, h2, h3, rfl⟩
        · cases h
  · rintro ⟨h1, h2, h3, rfl⟩
    simp [h1, h2, h3]

/-- an inconsistent operand (either side) is a SequenceConsistencyError, different AWG settings
    a SequenceCompatibilityError; nothing is returned -/
theorem add_errors (a b : Sequence) :
    (a.checkConsistency = .ok false → a.add b = .error .consistency) ∧
    (a.checkConsistency = .ok true → b.checkConsistency = .ok false → a.add b = .error .consistency) ∧
    (a.checkConsistency = .ok true → b.checkConsistency = .ok true →
      Dict.eqBy (· == ·) a.awgspecs b.awgspecs = false → a.add b = .error .compat) := by
  unfold Sequence.add
  refine ⟨fun h => by simp [h], fun h1 h2 => by simp [h1, h2], fun h1 h2 h3 => by simp [h1, h2, h3]⟩

/-- the settings of the sum are the operands' (which are equal) -/
theorem add_awgspecs (a b s : Sequence) (h : a.add b = .ok s) :
    s.awgspecs = b.awgspecs ∧ Dict.eqBy (· == ·) a.awgspecs s.awgspecs = true := by
  obtain ⟨_, _, h3, rfl⟩ := (add_ok_iff a b s).mp h
  exact ⟨rfl, h3⟩

/-- consistency implies that the positions are exactly 1..N -/
theorem positions_of_consistent (s : Sequence) (h : s.checkConsistency = .ok true) : Positions s.data := by
  apply positions_of_gapFree
  unfold Sequence.checkConsistency at h
  split at h
  · cases h
  · split at h
    · cases h
    · split at h
      · cases h
      · split at h
        · split at h <;> cases h
        · split at h
          · cases h
          · simpa using h

/-! ### the content of the sum -/

/-- shifted positions of `b` are new and distinct -/
theorem shifted_fresh {α β : Type} (A : Dict ℤ α) (B : Dict ℤ β) (hA : Positions A) (hB : Positions B) :
    (B.map (fun p => p.1 + (A.length : ℤ))).Nodup ∧ ∀ p ∈ B, p.1 + (A.length : ℤ) ∉ Dict.keys A := by
  constructor
  · have : (B.map (fun p => p.1 + (A.length : ℤ))) = (Dict.keys B).map (· + (A.length : ℤ)) := by
      simp [Dict.keys, List.map_map, Function.comp_def]
    rw [this]
    exact List.Nodup.map (fun x y h => by simpa using h) hB.wf
  · intro p hp hmem
    have h1 := (hA.mem _).mp hmem
    have h2 := (hB.mem p.1).mp (List.mem_map.mpr ⟨p, hp, rfl⟩)
    omega

/-- **store of the sum**: `a`'s entries (copied) under their own positions, followed by `b`'s
    entries (copied) under `position + len(a)` -/
theorem addCore_data (a b : Sequence) (ha : Positions a.data) (hb : Positions b.data) :
    (addCore a b).data = a.data.map (fun p => (p.1, copyEntry p.2)) ++
      b.data.map (fun p => (p.1 + (a.data.length : ℤ), copyEntry p.2)) := by
  unfold addCore
  simp only
  have hA' : Positions (a.data.map (fun p => (p.1, copyEntry p.2))) := by
    unfold Positions at *
    simpa [Dict.keys, List.map_map, Function.comp_def] using ha
  have hf := shifted_fresh (a.data.map (fun p => (p.1, copyEntry p.2))) b.data hA' hb
  simp only [List.length_map] at hf
  exact Dict.foldl_upsert_fresh b.data (· + (a.data.length : ℤ)) copyEntry _ (fun d p => rfl) _ hf.1 hf.2

/-- the sum has `len(a) + len(b)` positions, and they are again exactly 1..len(a)+len(b) -/
theorem addCore_positions (a b : Sequence) (ha : Positions a.data) (hb : Positions b.data) :
    (addCore a b).data.length = a.data.length + b.data.length ∧ Positions (addCore a b).data := by
  rw [addCore_data a b ha hb]
  refine ⟨by simp, ?_⟩
  unfold Positions at *
  simp only [Dict.keys, List.map_append, List.map_map, Function.comp_def, List.length_append, List.length_map]
  rw [oneTo_append]
  apply List.Perm.append
  · simpa [Dict.keys] using ha
  · have := hb.map (· + (a.data.length : ℤ))
    simpa [Dict.keys, List.map_map, Function.comp_def] using this

/-- position `p` of `a` holds (a copy of) the same entry in `a + b` -/
theorem addCore_get_left (a b : Sequence) (ha : Positions a.data) (hb : Positions b.data) (p : ℤ)
    (hp : p ∈ Dict.keys a.data) : Dict.get? (addCore a b).data p = (Dict.get? a.data p).map copyEntry := by
  rw [addCore_data a b ha hb, Dict.get?_append_left]
  · have := Dict.get?_map_key_val a.data id (fun _ _ h => h) copyEntry p
    simpa using this
  · simpa [Dict.keys, List.map_map, Function.comp_def] using hp

/-- position `p` of `b` is found (copied) at position `p + len(a)` of `a + b` -/
theorem addCore_get_right (a b : Sequence) (ha : Positions a.data) (hb : Positions b.data) (p : ℤ)
    (hp : p ∈ Dict.keys b.data) :
    Dict.get? (addCore a b).data (p + (a.data.length : ℤ)) = (Dict.get? b.data p).map copyEntry := by
  rw [addCore_data a b ha hb, Dict.get?_append_right]
  · exact Dict.get?_map_key_val b.data (· + (a.data.length : ℤ)) (fun _ _ h => by simpa using h) copyEntry p
  · intro hmem
    have h1 : p + (a.data.length : ℤ) ∈ Dict.keys a.data := by
      simpa [Dict.keys, List.map_map, Function.comp_def] using hmem
    have h2 := (ha.mem _).mp h1
    have h3 := (hb.mem p).mp hp
    omega

/-- the sequencing entries are stored under the same keys as the elements (true of every
    sequence built with addElement/addSubSequence and the setSequencingXXX methods) -/
def Aligned (s : Sequence) : Prop := Dict.keys s.sequencing = Dict.keys s.data

/-- **sequencing of the sum**: `a`'s entries unchanged, followed by `b`'s under
    `position + len(a)` with goto and jump target retargeted -/
theorem addCore_sequencing (a b : Sequence) (ha : Positions a.data) (hb : Positions b.data)
    (hsa : Aligned a) (hsb : Aligned b) :
    (addCore a b).sequencing = a.sequencing ++
      b.sequencing.map (fun p => (p.1 + (a.data.length : ℤ), retargetSeq (a.data.length : ℤ) p.2)) := by
  unfold addCore
  simp only
  have hlenA : a.sequencing.length = a.data.length := by
    have := congrArg List.length hsa; simpa [Dict.keys] using this
  have hlenB : b.sequencing.length = b.data.length := by
    have := congrArg List.length hsb; simpa [Dict.keys] using this
  have hA' : Positions a.sequencing := by unfold Positions at *; rw [hsa, hlenA]; exact ha
  have hB' : Positions b.sequencing := by unfold Positions at *; rw [hsb, hlenB]; exact hb
  have hf := shifted_fresh a.sequencing b.sequencing hA' hB'
  rw [hlenA] at hf
  exact Dict.foldl_upsert_fresh b.sequencing (· + (a.data.length : ℤ)) (retargetSeq (a.data.length : ℤ)) _
    (fun d p => rfl) _ hf.1 hf.2

theorem addCore_aligned (a b : Sequence) (ha : Positions a.data) (hb : Positions b.data)
    (hsa : Aligned a) (hsb : Aligned b) : Aligned (addCore a b) := by
  unfold Aligned at *
  rw [addCore_sequencing a b ha hb hsa hsb, addCore_data a b ha hb]
  simp only [Dict.keys, List.map_append, List.map_map, Function.comp_def] at *
  rw [hsa]
  congr 1
  have := congrArg (List.map (· + (a.data.length : ℤ))) hsb
  simpa [List.map_map, Function.comp_def] using this

theorem copyEntry_idem (e : Entry) : copyEntry (copyEntry e) = copyEntry e := by
  cases e <;> rfl

/-- **associativity**: `(a + b) + c` and `a + (b + c)` are the same sequence -/
theorem addCore_assoc (a b c : Sequence)
    (ha : Positions a.data) (hb : Positions b.data) (hc : Positions c.data)
    (hsa : Aligned a) (hsb : Aligned b) (hsc : Aligned c) :
    addCore (addCore a b) c = addCore a (addCore b c) := by
  have hab := addCore_positions a b ha hb
  have hbc := addCore_positions b c hb hc
  have e1 : (addCore (addCore a b) c).data = (addCore a (addCore b c)).data := by
    rw [addCore_data _ c hab.2 hc, addCore_data a b ha hb, addCore_data a _ ha hbc.2, addCore_data b c hb hc]
    simp only [List.map_append, List.map_map, Function.comp_def, List.length_append, List.length_map,
      copyEntry_idem, List.append_assoc]
    congr 2
    apply List.map_congr_left
    intro p _
    simp only [Prod.mk.injEq, and_true]
    push_cast; ring
  have e2 : (addCore (addCore a b) c).sequencing = (addCore a (addCore b c)).sequencing := by
    rw [addCore_sequencing _ c hab.2 hc (addCore_aligned a b ha hb hsa hsb) hsc,
      addCore_sequencing a b ha hb hsa hsb,
      addCore_sequencing a _ ha hbc.2 hsa (addCore_aligned b c hb hc hsb hsc),
      addCore_sequencing b c hb hc hsb hsc]
    simp only [List.map_append, List.map_map, Function.comp_def, List.append_assoc, hab.1]
    congr 2
    apply List.map_congr_left
    intro p _
    simp only [Prod.mk.injEq]
    constructor
    · push_cast; ring
    · rw [retargetSeq_comp _ _ (by positivity) (by positivity)]
      push_cast; rfl
  have e3 : (addCore (addCore a b) c).awgspecs = (addCore a (addCore b c)).awgspecs := rfl
  have e4 : (addCore (addCore a b) c).name = (addCore a (addCore b c)).name := rfl
  cases h1 : addCore (addCore a b) c
  cases h2 : addCore a (addCore b c)
  simp only [h1, h2] at e1 e2 e3 e4
  simp [e1, e2, e3, e4]

/-! ### blueprints -/

open BP in
/-- `b₁ + b₂` consists of the segments of `b₁` followed by those of `b₂`, names aside;
    segment-bound markers are part of the segment record and travel with it -/
theorem bp_add_segments (a b : BP) :
    (a.add b).segs.map Seg.body = (a.segs ++ b.segs).map Seg.body ∧
    (a.add b).segs.length = a.segs.length + b.segs.length ∧
    makeNamesUnique (a.add b).names = (a.add b).names ∧ (a.add b).SR = a.SR := by
  refine ⟨add_body a b, ?_, inv_add a b, rfl⟩
  have := congrArg List.length (add_body a b)
  simpa using this

/-- without waituntil segments the resolved durations do not depend on the elapsed time -/
theorem resolveGo_nowait (segs : List Seg) (hnw : ∀ s ∈ segs, s.fn.isWait = false) (el el' : ℚ) :
    BP.resolveGo segs el = BP.resolveGo segs el' := by
  induction segs generalizing el el' with
  | nil => rfl
  | cons s rest ih =>
    have hs : s.fn.isWait = false := hnw s (by simp)
    simp only [BP.resolveGo, hs, Bool.false_eq_true, if_false]
    split
    · rw [ih (fun t ht => hnw t (by simp [ht])) (el + _) (el' + _)]
    · rfl

theorem badSpecial_append (a b : BP) (c : BP) (hc : c.segs = a.segs ++ b.segs) :
    badSpecial c = (badSpecial a || badSpecial b) := by
  unfold badSpecial
  rw [hc, List.any_append]

/-- **blueprint concatenation forges to the concatenation**: if `b₁` forges at its sample rate and
    `b₂` (no waituntil segment) forges at the same rate, then `b₁ + b₂` forges, its waveform blocks
    are those of `b₁` followed by those of `b₂`, sample counts and segment durations likewise -/
theorem bp_add_forge (a b : BP) (sr : ℚ) (ha : a.SR = .num sr) (hb : b.SR = .num sr)
    (hnw : ∀ s ∈ b.segs, s.fn.isWait = false) (fa fb : Forged)
    (h1 : forgeBP a = .ok fa) (h2 : forgeBP b = .ok fb) :
    ∃ f, forgeBP (a.add b) = .ok f ∧ f.blocks = fa.blocks ++ fb.blocks ∧ f.N = fa.N + fb.N ∧
      f.newdurations = fa.newdurations ++ fb.newdurations ∧ f.SR = sr := by
  obtain ⟨sra, da, na, hsa, hda, hna, hba, rfl⟩ := (forge_ok_iff a fa).mp h1
  obtain ⟨srb, db, nb, hsb, hdb, hnb, hbb, rfl⟩ := (forge_ok_iff b fb).mp h2
  rw [ha] at hsa; cases hsa
  rw [hb] at hsb; cases hsb
  let c : BP := { segs := a.segs ++ b.segs, marker1 := a.marker1 ++ b.marker1, marker2 := a.marker2 ++ b.marker2, SR := a.SR }
  have hc : forgeBP (a.add b) = forgeBP c :=
    forgeBP_body _ _ (add_body a b) rfl rfl rfl
  have hres : c.resolveWaits = .ok (da ++ db) := by
    unfold BP.resolveWaits at *
    apply resolveGo_append a.segs b.segs 0 da db hda
    rw [resolveGo_nowait b.segs hnw _ 0]; exact hdb
  have hcnt := C10.countsGo_append sr da db na nb hna hnb
  have hbad : badSpecial c = false := by
    rw [badSpecial_append a b c rfl, hba, hbb]; rfl
  have hlen : na.length = a.segs.length := by
    rw [countsGo_length sr da na hna, resolveGo_length a.segs 0 da hda]
  refine ⟨assemble c sr (na ++ nb), ?_, ?_, ?_, ?_, rfl⟩
  · rw [hc, (forge_ok_iff c _)]
    exact ⟨sr, da ++ db, na ++ nb, ha, hres, hcnt, hbad, rfl⟩
  · simp only [assemble]
    exact C10.mkBlocks_append sr a.segs b.segs na nb hlen
  · simp only [assemble, sumN_append]
  · simp only [assemble, List.map_append]

/-! ### the sum of consistent sequences over the same channels is consistent -/

/-- "over the same channels" (the property's quantifier): every entry of `a` and every entry of `b`
    report the same sample rate and the same sorted channel list.  Trivially true for an empty
    left operand. -/
def SameShape (a b : Sequence) : Prop :=
  ∀ x ∈ Dict.vals a.data, ∀ y ∈ Dict.vals b.data,
    x.getSR = y.getSR ∧ x.channels.map channelListSorter = y.channels.map channelListSorter

instance (a b : Sequence) : Decidable (SameShape a b) := by unfold SameShape; infer_instance

/-- what `checkConsistency() == True` says, clause by clause -/
theorem consistent_iff (s : Sequence) :
    s.checkConsistency = .ok true ↔
      Dict.has s.awgspecs "SR" = true ∧ ∃ srs chans, (Dict.vals s.data).mapM Entry.getSR = .ok srs ∧
        Element.allSame srs = true ∧ (Dict.vals s.data).mapM Entry.channels = .ok chans ∧
        allEqLast (chans.map channelListSorter) = true ∧ gapFree (Dict.keys s.data) = true := by
  unfold Sequence.checkConsistency
  constructor
  · intro h
    split at h
    · cases h
    · rename_i hsr
      split at h
      · cases h
      · rename_i srs hsrs
        split at h
        · cases h
        · rename_i hall
          split at h
          · split at h <;> cases h
          · rename_i chans hch
            split at h
            · cases h
            · rename_i heq
              exact ⟨by simpa using hsr, srs, chans, hsrs, by simpa using hall, hch, by simpa using heq, by simpa using h⟩
  · rintro ⟨hsr, srs, chans, h1, h2, h3, h4, h5⟩
    simp [hsr, h1, h2, h3, h4, h5]

/-- helper: every result of a successful `mapM` comes from some input (used for the clause "a + b is consistent") -/
theorem mapM_mem_rev {α β : Type} (f : α → Except Err β) (l : List α) (r : List β) (h : l.mapM f = .ok r) (b : β)
    (hb : b ∈ r) : ∃ a ∈ l, f a = .ok b := by
  obtain ⟨i, hi, rfl⟩ := List.getElem_of_mem hb
  have hl := mapM_ok_length f l r h
  exact ⟨l[i]'(by omega), List.getElem_mem _, mapM_ok_getElem f l r h i (by omega) hi⟩

/-- the values stored in the sum: copies of `a`'s, then copies of `b`'s -/
theorem addCore_vals (a b : Sequence) (ha : Positions a.data) (hb : Positions b.data) :
    Dict.vals (addCore a b).data = (Dict.vals a.data).map copyEntry ++ (Dict.vals b.data).map copyEntry := by
  rw [addCore_data a b ha hb]
  simp [Dict.vals, List.map_map, Function.comp_def]

/-- **`a + b` is consistent**: for consistent `a`, `b` over the same channels (same sorted channel
    list, same element sample rate) the sequence `+` builds passes `checkConsistency` -/
theorem add_consistent (a b : Sequence) (ha : a.checkConsistency = .ok true) (hb : b.checkConsistency = .ok true)
    (hsh : SameShape a b) : (addCore a b).checkConsistency = .ok true := by
  have hpa := positions_of_consistent a ha
  have hpb := positions_of_consistent b hb
  obtain ⟨_, srsA, chA, a1, a2, a3, a4, _⟩ := (consistent_iff a).mp ha
  obtain ⟨hsr, srsB, chB, b1, b2, b3, b4, _⟩ := (consistent_iff b).mp hb
  rw [consistent_iff]
  refine ⟨hsr, srsA ++ srsB, chA ++ chB, ?_, ?_, ?_, ?_, ?_⟩
  · rw [addCore_vals a b hpa hpb]
    apply mapM_append_ok
    · rw [mapM_map_ok, mapM_congr_ok _ Entry.getSR _ (fun x _ => getSR_copyEntry x)]; exact a1
    · rw [mapM_map_ok, mapM_congr_ok _ Entry.getSR _ (fun x _ => getSR_copyEntry x)]; exact b1
  · rw [allSame_iff_forall] at a2 b2 ⊢
    have cross : ∀ x ∈ srsA, ∀ y ∈ srsB, x = y := by
      intro x hx y hy
      obtain ⟨ea, hea, fx⟩ := mapM_mem_rev _ _ _ a1 x hx
      obtain ⟨eb, heb, fy⟩ := mapM_mem_rev _ _ _ b1 y hy
      have := (hsh ea hea eb heb).1
      rw [fx, fy] at this
      exact Except.ok.inj this
    intro x hx y hy
    rcases List.mem_append.mp hx with hx | hx <;> rcases List.mem_append.mp hy with hy | hy
    · exact a2 x hx y hy
    · exact cross x hx y hy
    · exact (cross y hy x hx).symm
    · exact b2 x hx y hy
  · rw [addCore_vals a b hpa hpb]
    apply mapM_append_ok
    · rw [mapM_map_ok, mapM_congr_ok _ Entry.channels _ (fun x _ => channels_copyEntry x)]; exact a3
    · rw [mapM_map_ok, mapM_congr_ok _ Entry.channels _ (fun x _ => channels_copyEntry x)]; exact b3
  · rw [allEqLast_iff] at a4 b4 ⊢
    have cross : ∀ x ∈ chA.map channelListSorter, ∀ y ∈ chB.map channelListSorter, x = y := by
      intro x hx y hy
      obtain ⟨cx, hcx, rfl⟩ := List.mem_map.mp hx
      obtain ⟨cy, hcy, rfl⟩ := List.mem_map.mp hy
      obtain ⟨ea, hea, fx⟩ := mapM_mem_rev _ _ _ a3 cx hcx
      obtain ⟨eb, heb, fy⟩ := mapM_mem_rev _ _ _ b3 cy hcy
      have := (hsh ea hea eb heb).2
      rw [fx, fy] at this
      exact Except.ok.inj this
    intro x hx y hy
    rw [List.map_append] at hx hy
    rcases List.mem_append.mp hx with hx | hx <;> rcases List.mem_append.mp hy with hy | hy
    · exact a4 x hx y hy
    · exact cross x hx y hy
    · exact (cross y hy x hx).symm
    · exact b4 x hx y hy
  · exact gapFree_of_positions _ (addCore_positions a b hpa hpb).2

/-- the same at the level of `+`: the returned sequence is consistent -/
theorem add_result_consistent (a b s : Sequence) (h : a.add b = .ok s) (hsh : SameShape a b) :
    s.checkConsistency = .ok true := by
  obtain ⟨ha, hb, _, rfl⟩ := (add_ok_iff a b s).mp h
  exact add_consistent a b ha hb hsh

/-! ### length, positions and content of `a + b` (lifted to `Sequence.add`) -/

/-- **`a + b` has `len(a) + len(b)` positions**, exactly 1..len(a)+len(b); `a`'s entries are found
    (copied) under their own positions and `b`'s under `position + len(a)` -/
theorem add_positions (a b s : Sequence) (h : a.add b = .ok s) :
    s.data.length = a.data.length + b.data.length ∧ Positions s.data ∧
    s.data = a.data.map (fun p => (p.1, copyEntry p.2)) ++
      b.data.map (fun p => (p.1 + (a.data.length : ℤ), copyEntry p.2)) ∧
    (∀ p ∈ Dict.keys a.data, Dict.get? s.data p = (Dict.get? a.data p).map copyEntry) ∧
    (∀ p ∈ Dict.keys b.data, Dict.get? s.data (p + (a.data.length : ℤ)) = (Dict.get? b.data p).map copyEntry) := by
  obtain ⟨ha, hb, _, rfl⟩ := (add_ok_iff a b s).mp h
  have hpa := positions_of_consistent a ha
  have hpb := positions_of_consistent b hb
  exact ⟨(addCore_positions a b hpa hpb).1, (addCore_positions a b hpa hpb).2, addCore_data a b hpa hpb,
    fun p hp => addCore_get_left a b hpa hpb p hp, fun p hp => addCore_get_right a b hpa hpb p hp⟩

/-- **sequencing of `a + b`** (lifted to `Sequence.add`): `a`'s entries unchanged, followed by `b`'s
    under `position + len(a)` with goto and jump target retargeted; the result is aligned again -/
theorem add_sequencing (a b s : Sequence) (h : a.add b = .ok s) (ia : Aligned a) (ib : Aligned b) :
    s.sequencing = a.sequencing ++
      b.sequencing.map (fun p => (p.1 + (a.data.length : ℤ), retargetSeq (a.data.length : ℤ) p.2)) ∧
    Aligned s := by
  obtain ⟨ha, hb, _, rfl⟩ := (add_ok_iff a b s).mp h
  have hpa := positions_of_consistent a ha
  have hpb := positions_of_consistent b hb
  exact ⟨addCore_sequencing a b hpa hpb ia ib, addCore_aligned a b hpa hpb ia ib⟩

/-! ### `Aligned` (and a well-formed settings dictionary) is an invariant of the public interface -/

/-- the sequences that can be built through the public interface: the constructor, the setters for
    name, AWG settings, filter compensation and sequencing, `addElement`, `addSubSequence`, `copy`,
    `+`, an in-place edit of a stored element (`seq.element(pos).changeArg(..)` etc.), and the bare
    copy of the settings `repeatAndVarySequence` starts from -/
inductive Built : Sequence → Prop
  | empty : Built {}
  | setName (s : Sequence) (n : String) : Built s → Built { s with name := n }
  | setSpec (s : Sequence) (k : String) (v : Spec) : Built s → Built (s.setSpec k v)
  | setFilter (s : Sequence) (ch : Chan) (kind : String) (order : ℤ) (oi : Bool) (fc tau : Val) :
      Built s → Built (s.setChannelFilterCompensation ch kind order oi fc tau).st
  | addElement (s : Sequence) (pos : ℤ) (e : Element) : Built s → Built (s.addElement pos e).st
  | addSubSequence (s : Sequence) (pos : ℤ) (sub : Sequence) : Built s → Built (s.addSubSequence pos sub).st
  | setSequencing (s : Sequence) (pos : ℤ) (f : SeqSet → SeqSet) : Built s → Built (s.setSequencing pos f).st
  | copy (s : Sequence) : Built s → Built s.copy
  | add (a b s : Sequence) : Built a → Built b → a.add b = .ok s → Built s
  | modifyElement (s : Sequence) (pos : ℤ) (f : Element → Res Element) : Built s → Built (Tools.modifyElement s pos f).st
  | specsOf (s : Sequence) : Built s → Built { awgspecs := s.awgspecs }

/-- what the forge theorems need of a sequence: sequencing entries under the same keys as the
    entries, no setting stored twice -/
def SeqInv (s : Sequence) : Prop := Aligned s ∧ Dict.WF s.awgspecs

/-- **every sequence built through the public interface** keeps its sequencing entries under the
    keys of its entries (so `addCore_sequencing`, `addCore_assoc`, `forge_add` apply to it) -/
theorem built_inv (s : Sequence) (h : Built s) : SeqInv s := by
  induction h with
  | empty => exact ⟨rfl, Dict.wf_nil⟩
  | setName s n _ ih => exact ih
  | setSpec s k v _ ih => exact ⟨ih.1, Dict.wf_upsert ih.2 k v⟩
  | setFilter s ch kind order oi fc tau _ ih =>
    unfold SeqCore.setChannelFilterCompensation
    split
    · exact ih
    · split
      · exact ih
      · split
        · exact ih
        · exact ⟨ih.1, Dict.wf_upsert ih.2 _ _⟩
  | addElement s pos e _ ih =>
    unfold Sequence.addElement
    split
    · exact ih
    · exact ⟨G5.keys_upsert_congr _ _ _ _ _ ih.1, ih.2⟩
  | addSubSequence s pos sub _ ih =>
    unfold Sequence.addSubSequence
    split
    · exact ih
    · split
      · exact ih
      · exact ⟨G5.keys_upsert_congr _ _ _ _ _ ih.1, ih.2⟩
  | setSequencing s pos f _ ih =>
    unfold SeqCore.setSequencing
    split
    · exact ih
    · rename_i q hq
      refine ⟨?_, ih.2⟩
      show Dict.keys (Dict.upsert s.sequencing pos (f q)) = Dict.keys s.data
      rw [Dict.keys_upsert_of_mem _ _ _ ((Dict.get?_isSome_iff _ _).mp (by simp [hq]))]
      exact ih.1
  | copy s _ ih => exact ih
  | add a b s _ _ hadd iha ihb =>
    obtain ⟨ha, hb, _, rfl⟩ := (add_ok_iff a b s).mp hadd
    exact ⟨addCore_aligned a b (positions_of_consistent a ha) (positions_of_consistent b hb) iha.1 ihb.1, ihb.2⟩
  | modifyElement s pos f _ ih =>
    unfold Tools.modifyElement
    split
    · rename_i e he
      refine ⟨?_, ih.2⟩
      show Dict.keys s.sequencing = Dict.keys (Dict.upsert s.data pos _)
      rw [Dict.keys_upsert_of_mem _ _ _ ((Dict.get?_isSome_iff _ _).mp (by simp [he]))]
      exact ih.1
    · exact ih
    · exact ih
  | specsOf s _ ih => exact ⟨rfl, ih.2⟩

/-- clause "sequencing entries of a + b": `Aligned`, the hypothesis of `addCore_sequencing`, holds of every built sequence -/
theorem built_aligned (s : Sequence) (h : Built s) : Aligned s := (built_inv s h).1

/-! ### associativity at the level of `+` -/

theorem spec_beq_trans (x y z : Spec) (h1 : (x == y) = true) (h2 : (y == z) = true) : (x == z) = true := by
  simp only [beq_iff_eq] at *
  exact h1.trans h2

/-- **`(a + b) + c = a + (b + c)`**: for consistent `a`, `b`, `c` with equal AWG settings over the
    same channels both sums return, and they return the same sequence -/
theorem add_assoc (a b c : Sequence)
    (ha : a.checkConsistency = .ok true) (hb : b.checkConsistency = .ok true) (hc : c.checkConsistency = .ok true)
    (hab : Dict.eqBy (· == ·) a.awgspecs b.awgspecs = true) (hbc : Dict.eqBy (· == ·) b.awgspecs c.awgspecs = true)
    (sab : SameShape a b) (sbc : SameShape b c) (ia : Aligned a) (ib : Aligned b) (ic : Aligned c) :
    ∃ ab bc s, a.add b = .ok ab ∧ ab.add c = .ok s ∧ b.add c = .ok bc ∧ a.add bc = .ok s := by
  have hpa := positions_of_consistent a ha
  have hpb := positions_of_consistent b hb
  have hpc := positions_of_consistent c hc
  refine ⟨addCore a b, addCore b c, addCore (addCore a b) c, ?_, ?_, ?_, ?_⟩
  · exact (add_ok_iff a b _).mpr ⟨ha, hb, hab, rfl⟩
  · exact (add_ok_iff _ c _).mpr ⟨add_consistent a b ha hb sab, hc, hbc, rfl⟩
  · exact (add_ok_iff b c _).mpr ⟨hb, hc, hbc, rfl⟩
  · exact (add_ok_iff a _ _).mpr ⟨ha, add_consistent b c hb hc sbc,
      G5.eqBy_trans _ spec_beq_trans _ _ _ hab hbc, addCore_assoc a b c hpa hpb hpc ia ib ic⟩

/-! ### the forged output of `a + b` -/

/-- sequencing entry of position `p ≤ len(a)` of the sum: `a`'s, unchanged -/
theorem addCore_seq_left (a b : Sequence) (ha : Positions a.data) (hb : Positions b.data)
    (hsa : Aligned a) (hsb : Aligned b) (p : ℤ) (hp : p ∈ Dict.keys a.data) :
    Dict.get? (addCore a b).sequencing p = Dict.get? a.sequencing p := by
  rw [addCore_sequencing a b ha hb hsa hsb, Dict.get?_append_left]
  rw [hsa]; exact hp

/-- sequencing entry of position `len(a) + p` of the sum: `b`'s entry for `p`, retargeted -/
theorem addCore_seq_right (a b : Sequence) (ha : Positions a.data) (hb : Positions b.data)
    (hsa : Aligned a) (hsb : Aligned b) (p : ℤ) (hp : p ∈ Dict.keys b.data) :
    Dict.get? (addCore a b).sequencing (p + (a.data.length : ℤ)) =
      (Dict.get? b.sequencing p).map (retargetSeq (a.data.length : ℤ)) := by
  rw [addCore_sequencing a b ha hb hsa hsb, Dict.get?_append_right]
  · exact Dict.get?_map_key_val b.sequencing (· + (a.data.length : ℤ)) (fun _ _ h => by simpa using h) _ p
  · intro hmem
    rw [hsa] at hmem
    have h2 := (ha.mem _).mp hmem
    have h3 := (hb.mem p).mp hp
    omega

/-- a forged position of the right operand as it appears in the sum: re-labelled `len(a)` further,
    goto and jump target retargeted, content untouched -/
def shiftPos (N : ℕ) (r : ℕ × ForgedPos) : ℕ × ForgedPos :=
  (r.1 + N, { r.2 with sequencing := retargetSeq (N : ℤ) r.2.sequencing })

/-- helper: a key of a dictionary has a value (used for the forged-output clause) -/
theorem get_some_of_mem_keys {α : Type} (d : Dict ℤ α) (k : ℤ) (h : k ∈ Dict.keys d) : ∃ v, Dict.get? d k = some v :=
  Option.isSome_iff_exists.mp ((Dict.get?_isSome_iff d k).mpr h)

/-- the core of `forge_add`: the positions of the sum forge to `a`'s followed by `b`'s shifted, given
    the position-by-position results of the operands and the channel list of the sum -/
theorem forge_add_core (a b : Sequence) (ha : a.checkConsistency = .ok true) (hb : b.checkConsistency = .ok true)
    (hab : Dict.eqBy (· == ·) a.awgspecs b.awgspecs = true) (hsh : SameShape a b) (ia : SeqInv a) (ib : SeqInv b)
    (d f t : Bool) (fa fb : List (ℕ × ForgedPos))
    (hsa : (List.range a.data.length).mapM (forgeStep a d f t) = .ok fa)
    (hsb : (List.range b.data.length).mapM (forgeStep b d f t) = .ok fb)
    (hch : ∃ c, (addCore a b).channels = .ok c) :
    (addCore a b).forge d f t = .ok (fa ++ fb.map (shiftPos a.data.length)) := by
  have hpa := positions_of_consistent a ha
  have hpb := positions_of_consistent b hb
  have hcons := add_consistent a b ha hb hsh
  have hlen := (addCore_positions a b hpa hpb).1
  -- settings: the sum answers every look-up like `a` and like `b`
  have specA : SameSpecs (addCore a b) a := fun k => (G5.eqBy_get ia.2 ib.2 hab k).symm
  have specB : SameSpecs (addCore a b) b := fun _ => rfl
  rw [forge_ok_iff_steps]
  refine ⟨hcons, hch, ?_⟩
  · rw [hlen, List.range_add]
    apply mapM_append_ok
    · rw [← hsa]
      apply mapM_congr_ok
      intro i hi
      have hi' : i < a.data.length := List.mem_range.mp hi
      have hk : ((i + 1 : ℕ) : ℤ) ∈ Dict.keys a.data := (hpa.mem _).mpr (by push_cast; omega)
      obtain ⟨en, hen⟩ := get_some_of_mem_keys _ _ hk
      obtain ⟨q, hq⟩ := get_some_of_mem_keys a.sequencing _ (by rw [ia.1]; exact hk)
      have hq' : Dict.get? (addCore a b).sequencing ((i + 1 : ℕ) : ℤ) = some q := by
        rw [addCore_seq_left a b hpa hpb ia.1 ib.1 _ hk, hq]
      unfold forgeStep
      rw [addCore_get_left a b hpa hpb _ hk, hen]
      simp only [Option.map_some]
      rw [forgePos_copyEntry, forgePos_reseat _ a specA d f t (i + 1) (i + 1) q q hq' hq,
        forgePos_self_reseat a d f t (i + 1) q hq]
    · rw [mapM_map_ok]
      apply mapM_map_result (forgeStep b d f t) _ (shiftPos a.data.length) _ _ hsb
      intro j hj
      have hj' : j < b.data.length := List.mem_range.mp hj
      have hk : ((j + 1 : ℕ) : ℤ) ∈ Dict.keys b.data := (hpb.mem _).mpr (by push_cast; omega)
      obtain ⟨en, hen⟩ := get_some_of_mem_keys _ _ hk
      obtain ⟨q, hq⟩ := get_some_of_mem_keys b.sequencing _ (by rw [ib.1]; exact hk)
      have hcast : ((a.data.length + j + 1 : ℕ) : ℤ) = ((j + 1 : ℕ) : ℤ) + (a.data.length : ℤ) := by
        push_cast; ring
      have hq' : Dict.get? (addCore a b).sequencing ((a.data.length + j + 1 : ℕ) : ℤ) =
          some (retargetSeq (a.data.length : ℤ) q) := by
        rw [hcast, addCore_seq_right a b hpa hpb ia.1 ib.1 _ hk, hq]; rfl
      unfold forgeStep
      rw [hcast, addCore_get_right a b hpa hpb _ hk, hen]
      simp only [Option.map_some]
      rw [forgePos_copyEntry, forgePos_reseat _ b specB d f t (a.data.length + j + 1) (j + 1) _ q hq' hq]
      conv_rhs => rw [← forgePos_self_reseat b d f t (j + 1) q hq]
      cases b.forgePos d f t (j + 1) en with
      | error e => rfl
      | ok r =>
        simp only [Except.map, reseat, shiftPos, Except.ok.injEq, Prod.mk.injEq, and_true]
        omega

/-- **the forged output of `a + b` is that of `a` followed by that of `b`**: for operands built
    through the public interface (`SeqInv`) over the same channels, with every option combination
    of `forge`: the positions of `a` forge exactly as in `a` (content and sequencing), the positions
    of `b` appear `len(a)` further with the same content and retargeted goto/jump target -/
theorem forge_add (a b s : Sequence) (h : a.add b = .ok s) (hsh : SameShape a b) (ia : SeqInv a) (ib : SeqInv b)
    (d f t : Bool) (fa fb : List (ℕ × ForgedPos)) (hfa : a.forge d f t = .ok fa) (hfb : b.forge d f t = .ok fb) :
    s.forge d f t = .ok (fa ++ fb.map (shiftPos a.data.length)) := by
  obtain ⟨ha, hb, hab, rfl⟩ := (add_ok_iff a b s).mp h
  have hpa := positions_of_consistent a ha
  have hpb := positions_of_consistent b hb
  obtain ⟨_, ⟨ca, hca⟩, hsa⟩ := (forge_ok_iff_steps a d f t fa).mp hfa
  obtain ⟨_, _, hsb⟩ := (forge_ok_iff_steps b d f t fb).mp hfb
  have hcons := add_consistent a b ha hb hsh
  refine forge_add_core a b ha hb hab hsh ia ib d f t fa fb hsa hsb ?_
  -- `channels` of the sum: those of position 1, which is `a`'s position 1
  unfold Sequence.channels at hca ⊢
  simp only [ha, hcons, bind, Except.bind, Bool.not_true, Bool.false_eq_true, if_false] at hca ⊢
  cases h1 : Dict.get? a.data 1 with
  | none => rw [h1] at hca; cases hca
  | some en =>
    rw [h1] at hca
    have hk : (1 : ℤ) ∈ Dict.keys a.data := (Dict.get?_isSome_iff _ _).mp (by simp [h1])
    rw [addCore_get_left a b hpa hpb 1 hk, h1]
    simp only [Option.map_some, channels_copyEntry]
    exact ⟨ca, hca⟩

/-- helper for the empty-left-operand case of the forged-output clause: shifting by 0 positions changes nothing -/
theorem shiftPos_zero (r : ℕ × ForgedPos) : shiftPos 0 r = r := by
  obtain ⟨p, ⟨q, b, c⟩⟩ := r
  obtain ⟨q1, q2, q3, q4, q5⟩ := q
  simp only [shiftPos, retargetSeq, Gen.retargetGoto, Gen.retargetJump, Nat.cast_zero, add_zero, ite_self]

/-- **empty left operand** (e.g. the bare settings `repeatAndVarySequence` starts from): the sum
    forges exactly like the right operand -/
theorem forge_add_empty_left (a b s : Sequence) (h : a.add b = .ok s) (hempty : a.data = []) (ia : SeqInv a)
    (ib : SeqInv b) (d f t : Bool) (fb : List (ℕ × ForgedPos)) (hfb : b.forge d f t = .ok fb) :
    s.forge d f t = .ok fb := by
  obtain ⟨ha, hb, hab, rfl⟩ := (add_ok_iff a b s).mp h
  have hpa := positions_of_consistent a ha
  have hpb := positions_of_consistent b hb
  have hsh : SameShape a b := by intro x hx; rw [hempty] at hx; simp [Dict.vals] at hx
  obtain ⟨_, ⟨cb, hcb⟩, hsb⟩ := (forge_ok_iff_steps b d f t fb).mp hfb
  have hcons := add_consistent a b ha hb hsh
  have hsa : (List.range a.data.length).mapM (forgeStep a d f t) = .ok [] := by rw [hempty]; rfl
  have := forge_add_core a b ha hb hab hsh ia ib d f t [] fb hsa hsb ?_
  · rw [this, hempty]
    simp only [List.length_nil, List.nil_append]
    congr 1
    rw [List.map_congr_left (fun r _ => shiftPos_zero r), List.map_id']
  · unfold Sequence.channels at hcb ⊢
    simp only [hb, hcons, bind, Except.bind, Bool.not_true, Bool.false_eq_true, if_false] at hcb ⊢
    cases h1 : Dict.get? b.data 1 with
    | none => rw [h1] at hcb; cases hcb
    | some en =>
      rw [h1] at hcb
      have hk : (1 : ℤ) ∈ Dict.keys b.data := (Dict.get?_isSome_iff _ _).mp (by simp [h1])
      have := addCore_get_right a b hpa hpb 1 hk
      rw [hempty] at this
      simp only [List.length_nil, Nat.cast_zero, add_zero] at this
      skip
      rw [this, h1]
      simp only [Option.map_some, channels_copyEntry]
      exact ⟨cb, hcb⟩

/-! ### blueprint concatenation: markers, and a second operand with a waituntil -/

/-- the marker specifications (absolute ones, then the segment-bound ones converted to absolute
    time) a blueprint's marker `which` is painted from when it is forged with sample counts `ns` -/
def markSpecs (b : BP) (sr : ℚ) (ns : List ℕ) (which : ℕ) : List Mark :=
  if which = 1 then b.marker1 ++ segMarks sr (·.m1) b.segs (starts ns 0)
  else b.marker2 ++ segMarks sr (·.m2) b.segs (starts ns 0)

/-- the per-segment sample counts a blueprint is forged with (`[]` when it does not forge) -/
def countsOf (b : BP) (sr : ℚ) : List ℕ :=
  match b.resolveWaits with
  | .ok ds => (match countsGo sr ds with | .ok ns => ns | .error _ => [])
  | .error _ => []

/-- helper for the blueprint-marker clause: `countsOf` is the list of sample counts the forger computed -/
theorem countsOf_eq (b : BP) (sr : ℚ) (ds : List ℚ) (ns : List ℕ) (h1 : b.resolveWaits = .ok ds)
    (h2 : countsGo sr ds = .ok ns) : countsOf b sr = ns := by
  simp only [countsOf, h1, h2]

/-- the absolute markers of a blueprint -/
def absMarks (b : BP) (which : ℕ) : List Mark := if which = 1 then b.marker1 else b.marker2

/-- the segment-bound markers of a blueprint, as absolute specifications -/
def segSpecs (b : BP) (sr : ℚ) (ns : List ℕ) (which : ℕ) : List Mark :=
  if which = 1 then segMarks sr (·.m1) b.segs (starts ns 0) else segMarks sr (·.m2) b.segs (starts ns 0)

/-- marker `which` of a forged blueprint -/
def markerOf (f : Forged) (which : ℕ) : List ℕ := if which = 1 then f.m1 else f.m2

/-- helper for the blueprint-marker clause: a forged marker is the painting of its marker specifications -/
theorem markerOf_assemble (b : BP) (sr : ℚ) (ns : List ℕ) (which : ℕ) :
    markerOf (assemble b sr ns) which =
      paint (sumN ns) ((absMarks b which ++ segSpecs b sr ns which).map (window (sumN ns) sr)) := by
  unfold markerOf absMarks segSpecs assemble
  split <;> rfl

/-- **general form of blueprint concatenation** (second operand with or without waituntil): the
    segments of `b₂` are resolved with the elapsed time starting at the duration of `b₁` — a
    `waituntil t` inside `b₂` therefore waits until the absolute time `t` of the sum — and the sum
    forges from the two lists of sample counts: blocks side by side; marker `which` painted from
    `b₁`'s absolute markers, `b₂`'s absolute markers (unshifted), `b₁`'s segment-bound markers and
    `b₂`'s segment-bound markers moved `N₁/SR` later -/
theorem bp_add_forge_general (a b : BP) (sr : ℚ) (ha : a.SR = .num sr)
    (da db : List ℚ) (na nb : List ℕ)
    (hda : a.resolveWaits = .ok da) (hna : countsGo sr da = .ok na) (hba : badSpecial a = false)
    (hdb : BP.resolveGo b.segs (sumR da) = .ok db) (hnb : countsGo sr db = .ok nb) (hbb : badSpecial b = false) :
    ∃ f, forgeBP (a.add b) = .ok f ∧ f.blocks = mkBlocks sr a.segs na ++ mkBlocks sr b.segs nb ∧
      f.N = sumN na + sumN nb ∧ f.SR = sr ∧
      f.newdurations = (na ++ nb).map (fun (n : ℕ) => ((n : ℤ) : ℚ) / sr) ∧
      ∀ which, markerOf f which =
        paint (sumN na + sumN nb)
          ((absMarks a which ++ absMarks b which ++
            (segSpecs a sr na which ++
              (segSpecs b sr nb which).map (fun m => (m.1 + (((sumN na : ℕ) : ℤ) : ℚ) / sr, m.2)))).map
            (window (sumN na + sumN nb) sr)) := by
  let c : BP := { segs := a.segs ++ b.segs, marker1 := a.marker1 ++ b.marker1, marker2 := a.marker2 ++ b.marker2, SR := a.SR }
  have hc : forgeBP (a.add b) = forgeBP c := forgeBP_body _ _ (add_body a b) rfl rfl rfl
  have hres : c.resolveWaits = .ok (da ++ db) := by
    unfold BP.resolveWaits at *
    apply resolveGo_append a.segs b.segs 0 da db hda
    rw [zero_add]; exact hdb
  have hcnt := C10.countsGo_append sr da db na nb hna hnb
  have hbad : badSpecial c = false := by
    rw [badSpecial_append a b c rfl, hba, hbb]; rfl
  have hlen : na.length = a.segs.length := by
    rw [countsGo_length sr da na hna, resolveGo_length a.segs 0 da hda]
  have hst : (starts na 0).length = a.segs.length := by rw [starts_length, hlen]
  refine ⟨assemble c sr (na ++ nb), ?_, ?_, ?_, rfl, rfl, ?_⟩
  · rw [hc, (forge_ok_iff c _)]
    exact ⟨sr, da ++ db, na ++ nb, ha, hres, hcnt, hbad, rfl⟩
  · simp only [assemble]
    exact C10.mkBlocks_append sr a.segs b.segs na nb hlen
  · simp only [assemble, sumN_append]
  · intro which
    rw [markerOf_assemble, sumN_append]
    have key : ∀ sel : Seg → Mark, segMarks sr sel (a.segs ++ b.segs) (starts (na ++ nb) 0) =
        segMarks sr sel a.segs (starts na 0) ++
          (segMarks sr sel b.segs (starts nb 0)).map (fun m => (m.1 + (((sumN na : ℕ) : ℤ) : ℚ) / sr, m.2)) := by
      intro sel
      rw [G5.starts_append, G5.segMarks_append sr sel _ _ _ _ hst, Nat.zero_add,
        G5.segMarks_starts_shift sr sel b.segs nb (sumN na)]
    unfold absMarks segSpecs
    by_cases hw : which = 1
    · simp only [hw, if_true, c, key, List.append_assoc]
    · simp only [hw, if_false, c, key, List.append_assoc]

/-- **markers of `b₁ + b₂`** (no waituntil in `b₂`), formula: with `fa`, `fb` the forged operands,
    marker `which` of the sum is painted, on the joint axis of `fa.N + fb.N` samples, from `b₁`'s
    marker specifications, `b₂`'s absolute markers as they are (documented as absolute) and `b₂`'s
    segment-bound markers moved `fa.N / SR` later — they stay attached to their segments -/
theorem bp_add_forge_markers (a b : BP) (sr : ℚ) (ha : a.SR = .num sr) (hb : b.SR = .num sr)
    (hnw : ∀ s ∈ b.segs, s.fn.isWait = false) (fa fb : Forged)
    (h1 : forgeBP a = .ok fa) (h2 : forgeBP b = .ok fb) :
    ∃ f, forgeBP (a.add b) = .ok f ∧ fa = assemble a sr (countsOf a sr) ∧ fb = assemble b sr (countsOf b sr) ∧
      f.N = fa.N + fb.N ∧
      ∀ which, markerOf f which =
        paint (fa.N + fb.N)
          ((absMarks a which ++ absMarks b which ++
            (segSpecs a sr (countsOf a sr) which ++
              (segSpecs b sr (countsOf b sr) which).map (fun m => (m.1 + (((fa.N : ℕ) : ℤ) : ℚ) / sr, m.2)))).map
            (window (fa.N + fb.N) sr)) := by
  obtain ⟨sra, da, na, hsa, hda, hna, hba, rfl⟩ := (forge_ok_iff a fa).mp h1
  obtain ⟨srb, db, nb, hsb, hdb, hnb, hbb, rfl⟩ := (forge_ok_iff b fb).mp h2
  rw [ha] at hsa; cases hsa
  rw [hb] at hsb; cases hsb
  have hdb' : BP.resolveGo b.segs (sumR da) = .ok db := by
    rw [resolveGo_nowait b.segs hnw _ 0]; exact hdb
  obtain ⟨f, hf, _, hN, _, _, hm⟩ := bp_add_forge_general a b sr ha da db na nb hda hna hba hdb' hnb hbb
  rw [countsOf_eq a sr da na hda hna, countsOf_eq b sr db nb hdb hnb]
  exact ⟨f, hf, rfl, rfl, hN, hm⟩

/-- **the markers of `b₁ + b₂` are those of `b₁` followed by those of `b₂`** — on the property's
    domain (no waituntil and no absolute marker in `b₂`), for segment-bound markers of `b₂` with
    non-negative delay and duration, and provided `b₁`'s own windows are the same on the longer
    axis (they do not run into the end of `b₁`, where forging `b₁` alone would clip them) -/
theorem bp_add_markers_concat (a b : BP) (sr : ℚ) (hsr : 0 < sr) (ha : a.SR = .num sr) (hb : b.SR = .num sr)
    (hnw : ∀ s ∈ b.segs, s.fn.isWait = false) (which : ℕ) (hnoabs : absMarks b which = [])
    (hpos : ∀ s ∈ b.segs, 0 ≤ s.m1.1 ∧ 0 ≤ s.m1.2 ∧ 0 ≤ s.m2.1 ∧ 0 ≤ s.m2.2)
    (fa fb : Forged) (h1 : forgeBP a = .ok fa) (h2 : forgeBP b = .ok fb) (hne : b.segs ≠ [])
    (hfit : ∀ m ∈ absMarks a which ++ segSpecs a sr (countsOf a sr) which,
      window (fa.N + fb.N) sr m = window fa.N sr m) :
    ∃ f, forgeBP (a.add b) = .ok f ∧ markerOf f which = markerOf fa which ++ markerOf fb which := by
  obtain ⟨f, hf, hfa, hfb, hN, hm⟩ := bp_add_forge_markers a b sr ha hb hnw fa fb h1 h2
  generalize countsOf a sr = na at hfa hm hfit
  generalize countsOf b sr = nb at hfb hm
  refine ⟨f, hf, ?_⟩
  rw [hm which, hnoabs, List.append_nil, ← List.append_assoc, List.map_append]
  have hfit' := hfit
  rw [List.map_congr_left (f := window (fa.N + fb.N) sr) (g := window fa.N sr) hfit']
  -- the shifted windows of `b₂`
  have hNb : 0 < fb.N := by
    obtain ⟨srb, db, nb', hsb, hdb, hnb, _, rfl⟩ := (forge_ok_iff b fb).mp h2
    have hl : nb'.length = b.segs.length := by
      rw [countsGo_length srb db nb' hnb, resolveGo_length b.segs 0 db hdb]
    cases hnb' : nb' with
    | nil => rw [hnb'] at hl; exact absurd (List.eq_nil_of_length_eq_zero hl.symm) hne
    | cons n ns =>
      rw [hnb'] at hnb
      cases hdb' : db with
      | nil => rw [hdb'] at hnb; simp [countsGo] at hnb
      | cons d ds =>
        rw [hdb'] at hnb
        simp only [countsGo] at hnb
        split at hnb
        · cases hnb
        · rename_i hs
          split at hnb
          · cases hnb
          · simp only [Except.ok.injEq, List.cons.injEq] at hnb
            simp only [assemble, sumN]
            have : ¬ (segCount d srb < 2) := by simpa [Gen.segTooShort] using hs
            omega
  have hshift : ∀ m ∈ segSpecs b sr nb which,
      window (fa.N + fb.N) sr (m.1 + (((fa.N : ℕ) : ℤ) : ℚ) / sr, m.2) =
        ((window fb.N sr m).1 + fa.N, (window fb.N sr m).2 + fa.N) := by
    intro m hmem
    have hmem' : ∃ sel : Seg → Mark, (∀ s ∈ b.segs, 0 ≤ (sel s).1 ∧ 0 ≤ (sel s).2) ∧
        m ∈ segMarks sr sel b.segs (starts nb 0) := by
      unfold segSpecs at hmem
      by_cases hw : which = 1
      · simp only [hw, if_true] at hmem
        exact ⟨(·.m1), fun s hs => ⟨(hpos s hs).1, (hpos s hs).2.1⟩, hmem⟩
      · simp only [hw, if_false] at hmem
        exact ⟨(·.m2), fun s hs => ⟨(hpos s hs).2.2.1, (hpos s hs).2.2.2⟩, hmem⟩
    obtain ⟨sel, hsel, hmem2⟩ := hmem'
    have hlen : (starts nb 0).length = b.segs.length := by
      rw [starts_length]
      obtain ⟨srb, db, nb', hsb, hdb, hnb, _, hfb'⟩ := (forge_ok_iff b fb).mp h2
      rw [hb] at hsb; cases hsb
      -- `nb` and `nb'` produce the same forged blueprint, hence the same number of durations
      have h3 : (assemble b sr nb).newdurations.length = (assemble b sr nb').newdurations.length := by
        rw [← hfb, hfb']
      simp only [assemble, List.length_map] at h3
      rw [h3, countsGo_length sr db nb' hnb, resolveGo_length b.segs 0 db hdb]
    obtain ⟨i, hi1, hi2, _, rfl⟩ := (segMarks_mem sr sel b.segs _ hlen m).mp hmem2
    have hs := hsel b.segs[i] (List.getElem_mem _)
    apply G5.window_shift fa.N fb.N sr (ne_of_gt hsr) _ hNb
    · simp only
      have : (0 : ℚ) ≤ (((starts nb 0)[i] : ℕ) : ℤ) := by exact_mod_cast Nat.zero_le _
      have h0 : (0 : ℚ) ≤ (((starts nb 0)[i] : ℕ) : ℤ) / sr := div_nonneg this hsr.le
      exact mul_nonneg (add_nonneg h0 hs.1) hsr.le
    · simp only
      have := G5.rhe_nonneg ((sel b.segs[i]).2 * sr) (mul_nonneg hs.2 hsr.le)
      omega
  have this : ((segSpecs b sr nb which).map (fun m => (m.1 + (((fa.N : ℕ) : ℤ) : ℚ) / sr, m.2))).map
        (window (fa.N + fb.N) sr) =
      ((segSpecs b sr nb which).map (window fb.N sr)).map (fun w => (w.1 + fa.N, w.2 + fa.N)) := by
    rw [List.map_map, List.map_map]
    apply List.map_congr_left
    intro m hm
    simp only [Function.comp]
    exact hshift m hm
  rw [this, G5.paint_juxtaposed fa.N fb.N _ _ (fun w hw => by
    obtain ⟨m, _, rfl⟩ := List.mem_map.mp hw
    exact BB.window_clipped _ _ _)]
  congr 1
  · rw [hfa, markerOf_assemble]
    have : (assemble a sr na).N = sumN na := rfl
    rw [this]
  · rw [hfb, markerOf_assemble, show absMarks b which = [] from hnoabs, List.nil_append]
    have : (assemble b sr nb).N = sumN nb := rfl
    rw [this]

/-! ### non-vacuity, and the counterexamples -/

def exBP : BP :=
  { segs := [{ name := "ramp", fn := Fn.rampFn, args := [.num 0, .num 1], dur := .num 1 }], SR := .num 10 }

def exEl (ch : Chan) : Element := ⟨[(ch, { data := .bp exBP })], none⟩

/-- a one-position sequence on channel `ch`, built through the public interface, whose position
    carries goto = `g` and jump target -1 -/
def exSeq (ch : Chan) (g : ℤ) : Sequence :=
  (SeqCore.setSequencing (Sequence.addElement (SeqCore.setSR ({} : Sequence) (.num 10)) 1 (exEl ch)).st 1
    (fun q => { q with goto := g, jump_target := -1 })).st

/-- the example sequences are `Built`, hence satisfy `SeqInv` (non-vacuity of `built_inv`) -/
theorem exSeq_built (ch : Chan) (g : ℤ) : Built (exSeq ch g) :=
  .setSequencing _ _ _ (.addElement _ _ _ (.setSpec _ _ _ .empty))

/-- so is their sum (an instance of the `add` constructor) -/
example (s : Sequence) (h : (exSeq (.int 1) 1).add (exSeq (.int 1) 0) = .ok s) : SeqInv s :=
  built_inv s (.add _ _ s (exSeq_built _ _) (exSeq_built _ _) h)

/-- the hypotheses of `add_consistent`, `add_assoc`, `add_positions`, `forge_add` hold of concrete operands:
    consistent, over the same channels, equal settings, forgeable, and `+` returns -/
example : (exSeq (.int 1) 1).checkConsistency = .ok true ∧ SameShape (exSeq (.int 1) 1) (exSeq (.int 1) 0) ∧
    Dict.eqBy (· == ·) (exSeq (.int 1) 1).awgspecs (exSeq (.int 1) 0).awgspecs = true ∧
    ((exSeq (.int 1) 1).forge false false false).toOption.isSome = true ∧
    ((exSeq (.int 1) 1).add (exSeq (.int 1) 0)).toOption.isSome = true := by decide +kernel

/-- ... and the forged sum is as `forge_add` says: two positions; the right operand's goto 1 has
    become 2, its jump target -1 is still -1, the left operand's entries are unchanged -/
example : (((exSeq (.int 1) 1).add (exSeq (.int 1) 1)).bind (fun s => s.forge false false false)).map
      (fun out => out.map (fun r => (r.1, r.2.sequencing.goto, r.2.sequencing.jump_target))) =
    .ok [(1, 1, -1), (2, 2, -1)] := by decide +kernel

/-- an empty left operand carrying the settings (hypotheses of `forge_add_empty_left`) -/
example : ((Sequence.add { awgspecs := (exSeq (.int 1) 1).awgspecs } (exSeq (.int 1) 1)).bind
      (fun s => s.forge false false false)).toOption.isSome = true := by decide +kernel

/-- **without "over the same channels" associativity fails**: `+` never checks its result, so with
    `a` on channel 1 and `b`, `c` on channel 2 the sum `a + b` is returned but is inconsistent;
    `(a + b) + c` then raises SequenceConsistencyError while `a + (b + c)` returns a sequence -/
theorem add_assoc_needs_same_channels :
    (((exSeq (.int 1) 0).add (exSeq (.int 2) 0)).bind (fun ab => ab.add (exSeq (.int 2) 0))).map (fun _ => ()) =
      .error .consistency ∧
    (((exSeq (.int 2) 0).add (exSeq (.int 2) 0)).bind (fun bc => (exSeq (.int 1) 0).add bc)).map (fun _ => ()) =
      .ok () := by decide +kernel

/-- in that example only the same-channels hypothesis of `add_assoc` fails -/
example : ¬ SameShape (exSeq (.int 1) 0) (exSeq (.int 2) 0) ∧ (exSeq (.int 2) 0).checkConsistency = .ok true ∧
    Dict.eqBy (· == ·) (exSeq (.int 1) 0).awgspecs (exSeq (.int 2) 0).awgspecs = true := by decide +kernel

def exA : BP :=
  { segs := [{ name := "ramp", fn := Fn.rampFn, args := [.num 0, .num 1], dur := .num 1, m1 := (1/5, 3/10) }],
    SR := .num 10 }
def exB : BP :=
  { segs := [{ name := "ramp", fn := Fn.rampFn, args := [.num 1, .num 0], dur := .num 1, m1 := (1/10, 1/5) }],
    SR := .num 10 }
def exW : BP :=
  { segs := [{ name := "waituntil", fn := Fn.waitSpecial, args := [.num 2], dur := .none },
             { name := "ramp", fn := Fn.rampFn, args := [.num 1, .num 0], dur := .num 1 }],
    SR := .num 10 }
def exLong : BP :=
  { segs := [{ name := "ramp", fn := Fn.rampFn, args := [.num 0, .num 1], dur := .num 3 }], SR := .num 10 }

/-- the hypotheses of `bp_add_markers_concat` hold of `exA`, `exB` (marker 1): both forge, `exB` has
    no waituntil, no absolute marker, non-negative marker delays/durations, and `exA`'s window fits -/
example : (forgeBP exA).toOption.isSome = true ∧ (forgeBP exB).toOption.isSome = true ∧
    (∀ s ∈ exB.segs, s.fn.isWait = false) ∧ absMarks exB 1 = [] ∧
    (∀ s ∈ exB.segs, 0 ≤ s.m1.1 ∧ 0 ≤ s.m1.2 ∧ 0 ≤ s.m2.1 ∧ 0 ≤ s.m2.2) ∧
    (∀ m ∈ absMarks exA 1 ++ segSpecs exA 10 (countsOf exA 10) 1, window (10 + 10) 10 m = window 10 10 m) := by
  decide +kernel

/-- ... and the conclusion on that instance: marker 1 of the sum is `exA`'s followed by `exB`'s -/
example : (forgeBP exA).map (fun f => (f.N, f.m1)) = .ok (10, [0, 0, 1, 1, 1, 0, 0, 0, 0, 0]) ∧
    (forgeBP exB).map (fun f => (f.N, f.m1)) = .ok (10, [0, 1, 1, 0, 0, 0, 0, 0, 0, 0]) ∧
    (forgeBP (exA.add exB)).map (fun f => (f.N, f.m1)) =
      .ok (20, [0, 0, 1, 1, 1, 0, 0, 0, 0, 0, 0, 1, 1, 0, 0, 0, 0, 0, 0, 0]) := by decide +kernel

/-- **a second operand containing a waituntil does not concatenate** (`bp_add_forge_general` says
    what happens instead): `exW` alone waits until t = 2 s and forges to 30 samples; behind the 1 s
    blueprint `exA` the wait is only 1 s long, so the sum has 30 samples, not 10 + 30; behind a 3 s
    blueprint the wait target already lies in the past and forging raises ValueError -/
theorem bp_add_waituntil_counterexample :
    (forgeBP exA).map (·.N) = .ok 10 ∧ (forgeBP exW).map (·.N) = .ok 30 ∧
    (forgeBP (exA.add exW)).map (·.N) = .ok 30 ∧
    (forgeBP exLong).map (·.N) = .ok 30 ∧ (forgeBP (exLong.add exW)).map (·.N) = .error .value := by
  decide +kernel

end BB.C16

/-! ## read-back sequences, and "leaves both operands unchanged" (group G10) -/

namespace BB.C16
open BB BB.Sequence BB.G5

/-- **a sequence read back from a description satisfies the invariant the theorems about `+` need**:
    whatever `Sequence.sequence_from_description` returns (for any description it accepts — in
    particular the JSON round trip of C19) keeps its sequencing entries under the keys of its entries
    and stores no AWG setting twice.  So the clauses "sequencing entries of a + b"
    (`add_sequencing`), associativity (`add_assoc`) and "forged output of a + b" (`forge_add`) apply
    to read-back operands as they do to operands built with the setters. -/
theorem readback_inv (d : J) (s : Sequence) (h : Sequence.ofDesc d = .ok s) : SeqInv s := G10.ofDesc_inv d s h

/-- `Built` extended by the reader: the sequences that can be obtained through the public
    interface when `sequence_from_description` / `init_from_json` is one of the constructors -/
inductive BuiltRB : Sequence → Prop
  | readBack (d : J) (s : Sequence) : Sequence.ofDesc d = .ok s → BuiltRB s
  | empty : BuiltRB {}
  | setName (s : Sequence) (n : String) : BuiltRB s → BuiltRB { s with name := n }
  | setSpec (s : Sequence) (k : String) (v : Spec) : BuiltRB s → BuiltRB (s.setSpec k v)
  | setFilter (s : Sequence) (ch : Chan) (kind : String) (order : ℤ) (oi : Bool) (fc tau : Val) :
      BuiltRB s → BuiltRB (s.setChannelFilterCompensation ch kind order oi fc tau).st
  | addElement (s : Sequence) (pos : ℤ) (e : Element) : BuiltRB s → BuiltRB (s.addElement pos e).st
  | addSubSequence (s : Sequence) (pos : ℤ) (sub : Sequence) : BuiltRB s → BuiltRB (s.addSubSequence pos sub).st
  | setSequencing (s : Sequence) (pos : ℤ) (f : SeqSet → SeqSet) : BuiltRB s → BuiltRB (s.setSequencing pos f).st
  | copy (s : Sequence) : BuiltRB s → BuiltRB s.copy
  | add (a b s : Sequence) : BuiltRB a → BuiltRB b → a.add b = .ok s → BuiltRB s
  | modifyElement (s : Sequence) (pos : ℤ) (f : Element → Res Element) : BuiltRB s → BuiltRB (Tools.modifyElement s pos f).st
  | specsOf (s : Sequence) : BuiltRB s → BuiltRB { awgspecs := s.awgspecs }

/-- everything `Built` is `BuiltRB` (the extension only adds sequences; helper for `builtRB_inv`) -/
theorem built_builtRB (s : Sequence) (h : Built s) : BuiltRB s := by
  induction h with
  | empty => exact .empty
  | setName s n _ ih => exact .setName s n ih
  | setSpec s k v _ ih => exact .setSpec s k v ih
  | setFilter s ch kind order oi fc tau _ ih => exact .setFilter s ch kind order oi fc tau ih
  | addElement s pos e _ ih => exact .addElement s pos e ih
  | addSubSequence s pos sub _ ih => exact .addSubSequence s pos sub ih
  | setSequencing s pos f _ ih => exact .setSequencing s pos f ih
  | copy s _ ih => exact .copy s ih
  | add a b s _ _ hadd iha ihb => exact .add a b s iha ihb hadd
  | modifyElement s pos f _ ih => exact .modifyElement s pos f ih
  | specsOf s _ ih => exact .specsOf s ih

/-- **`built_inv` for the extended interface**: every sequence obtained from read-back sequences and
    fresh ones with the setters, `addElement`, `addSubSequence`, `copy`, `+`, in-place edits of stored
    elements, satisfies `SeqInv` (so `add_sequencing`, `add_assoc`, `forge_add` apply to it) -/
theorem builtRB_inv (s : Sequence) (h : BuiltRB s) : SeqInv s := by
  induction h with
  | readBack d s h => exact readback_inv d s h
  | empty => exact ⟨rfl, Dict.wf_nil⟩
  | setName s n _ ih => exact ih
  | setSpec s k v _ ih => exact ⟨ih.1, Dict.wf_upsert ih.2 k v⟩
  | setFilter s ch kind order oi fc tau _ ih =>
    unfold SeqCore.setChannelFilterCompensation
    split
    · exact ih
    · split
      · exact ih
      · split
        · exact ih
        · exact ⟨ih.1, Dict.wf_upsert ih.2 _ _⟩
  | addElement s pos e _ ih =>
    unfold Sequence.addElement
    split
    · exact ih
    · exact ⟨G5.keys_upsert_congr _ _ _ _ _ ih.1, ih.2⟩
  | addSubSequence s pos sub _ ih =>
    unfold Sequence.addSubSequence
    split
    · exact ih
    · split
      · exact ih
      · exact ⟨G5.keys_upsert_congr _ _ _ _ _ ih.1, ih.2⟩
  | setSequencing s pos f _ ih =>
    unfold SeqCore.setSequencing
    split
    · exact ih
    · rename_i q hq
      refine ⟨?_, ih.2⟩
      show Dict.keys (Dict.upsert s.sequencing pos (f q)) = Dict.keys s.data
      rw [Dict.keys_upsert_of_mem _ _ _ ((Dict.get?_isSome_iff _ _).mp (by simp [hq]))]
      exact ih.1
  | copy s _ ih => exact ih
  | add a b s _ _ hadd iha ihb =>
    obtain ⟨ha, hb, _, rfl⟩ := (add_ok_iff a b s).mp hadd
    exact ⟨addCore_aligned a b (positions_of_consistent a ha) (positions_of_consistent b hb) iha.1 ihb.1, ihb.2⟩
  | modifyElement s pos f _ ih =>
    unfold Tools.modifyElement
    split
    · rename_i e he
      refine ⟨?_, ih.2⟩
      show Dict.keys s.sequencing = Dict.keys (Dict.upsert s.data pos _)
      rw [Dict.keys_upsert_of_mem _ _ _ ((Dict.get?_isSome_iff _ _).mp (by simp [he]))]
      exact ih.1
    · exact ih
    · exact ih
  | specsOf s _ ih => exact ⟨rfl, ih.2⟩

/-- **forged output of `a + b` for read-back operands**: `a`, `b` read back from descriptions `da`, `db`
    (e.g. after `write_to_json` / `init_from_json`), over the same channels — the sum forges to `a`'s
    positions followed by `b`'s, re-keyed by `len(a)` with goto / jump target retargeted -/
theorem forge_add_readback (da db : J) (a b s : Sequence) (ha : Sequence.ofDesc da = .ok a)
    (hb : Sequence.ofDesc db = .ok b) (h : a.add b = .ok s) (hsh : SameShape a b)
    (d f t : Bool) (fa fb : List (ℕ × ForgedPos)) (hfa : a.forge d f t = .ok fa) (hfb : b.forge d f t = .ok fb) :
    s.forge d f t = .ok (fa ++ fb.map (shiftPos a.data.length)) :=
  forge_add a b s h hsh (readback_inv da a ha) (readback_inv db b hb) d f t fa fb hfa hfb

/-- **associativity for read-back operands**: `(a + b) + c` and `a + (b + c)` both return, and return
    the same sequence, for consistent read-back `a`, `b`, `c` with equal settings over the same channels -/
theorem add_assoc_readback (da db dc : J) (a b c : Sequence) (ra : Sequence.ofDesc da = .ok a)
    (rb : Sequence.ofDesc db = .ok b) (rc : Sequence.ofDesc dc = .ok c)
    (ha : a.checkConsistency = .ok true) (hb : b.checkConsistency = .ok true) (hc : c.checkConsistency = .ok true)
    (hab : Dict.eqBy (· == ·) a.awgspecs b.awgspecs = true) (hbc : Dict.eqBy (· == ·) b.awgspecs c.awgspecs = true)
    (sab : SameShape a b) (sbc : SameShape b c) :
    ∃ ab bc s, a.add b = .ok ab ∧ ab.add c = .ok s ∧ b.add c = .ok bc ∧ a.add bc = .ok s :=
  add_assoc a b c ha hb hc hab hbc sab sbc (readback_inv da a ra).1 (readback_inv db b rb).1 (readback_inv dc c rc).1

/-- **`a + b` leaves both operands unchanged** — what this clause amounts to in the value model.  The
    model's `__add__` is a function from the two operand values to a result (`Sequence.add`; no state
    is threaded: unlike the mutators, which return `Res`, it cannot change an operand by
    construction, and the correspondence check compares the operands' descriptions before and after
    the call).  What can and must be proved is that the sum is built from *copies*: every stored
    entry is `copyEntry` (= `element.copy()` / `subsequence.copy()`) of the operand's entry, the
    settings are `b`'s, the name is fresh, and both operands are (still) consistent sequences.
    The reference-level statement (no object reachable from the sum is shared with an operand, so no
    later public mutator of the sum changes anything observable of `a` or `b`, and vice versa) is
    `C09.heap_lib_independent` with `Heap.LibCall.sqAdd a b to` in the history: the sum is a
    deriving call bound to a new name, and the later calls target other names.  (C09 imports this
    file, so it is cited here rather than used; the instance for `+` is
    `G10.add_operands_independent_heap` in `BB/Proofs/G10AddIndep.lean`.) -/
theorem add_operands_unchanged (a b s : Sequence) (h : a.add b = .ok s) :
    (∀ p ∈ Dict.keys a.data, Dict.get? s.data p = (Dict.get? a.data p).map copyEntry) ∧
    (∀ p ∈ Dict.keys b.data, Dict.get? s.data (p + (a.data.length : ℤ)) = (Dict.get? b.data p).map copyEntry) ∧
    s.awgspecs = b.awgspecs ∧ s.name = "" ∧
    a.checkConsistency = .ok true ∧ b.checkConsistency = .ok true := by
  obtain ⟨_, _, _, h4, h5⟩ := add_positions a b s h
  obtain ⟨ha, hb, _, hs⟩ := (add_ok_iff a b s).mp h
  refine ⟨h4, h5, ?_, ?_, ha, hb⟩
  · rw [hs]; rfl
  · rw [hs]; rfl

/-- clause "leaves both operands unchanged", continued: the copies `+` stores are indistinguishable
    from the operands' entries for every observer of the model (sample rate, channels, points; and
    `forgePos_copyEntry` for the forged arrays): an element is stored as it is, a subsequence loses
    only its name -/
theorem copyEntry_observables (en : Entry) :
    (copyEntry en).getSR = en.getSR ∧ (copyEntry en).channels = en.channels ∧ (copyEntry en).points = en.points ∧
    (∀ e, en = .el e → copyEntry en = .el e) ∧
    (∀ sub, en = .sub sub → copyEntry en = .sub { sub with name := "" }) :=
  ⟨getSR_copyEntry en, channels_copyEntry en, points_copyEntry en, fun _ h => by rw [h]; rfl, fun _ h => by rw [h]; rfl⟩

/-- non-vacuity of `add_operands_unchanged`: the example operands add -/
example : ((exSeq (.int 1) 1).add (exSeq (.int 1) 0)).toOption.isSome = true := by decide +kernel

/-- `BuiltRB` contains the built examples (non-vacuity of `builtRB_inv`); a read-back witness — the
    JSON round trip of a concrete sequence returns a sequence, which then satisfies `SeqInv` and can
    be added to itself — is `G10.readback_seqInv_witness` in `BB/Proofs/G10Witness.lean` (string
    conversion is not kernel-reducible, so the witness comes from the round-trip theorem of C19,
    which this file cannot import) -/
example : BuiltRB (exSeq (.int 1) 1) := built_builtRB _ (exSeq_built _ _)

end BB.C16
