/-
  Property C16 — sequence concatenation is compositional, associative and retargets jumps;
  blueprint concatenation forges to the concatenation of the operands.

  `Sequence.add` is the model's `__add__` (checks, then `addCore`); `Gen.retargetGoto/Jump` are
  regenerated from the two `if newitem[...] > 0: += N` statements of the source.
-/
import BB.Proofs.Add
import BB.Proofs.Delay
import BB.Properties.C10

namespace BB.C16
open BB BB.Sequence

/-! ### the retarget rule (regenerated kernel) -/

/-- every positive goto is increased by `len(a)`; 0 ("next") and negative values keep their meaning -/
theorem retarget_goto (v N : ℤ) :
    (0 < v → Gen.retargetGoto v N = v + N) ∧ (v ≤ 0 → Gen.retargetGoto v N = v) := by
  unfold Gen.retargetGoto; constructor <;> intro h <;> simp <;> omega

/-- every positive jump target is increased by `len(a)`; 0 (off) and -1 keep their meaning -/
theorem retarget_jump (v N : ℤ) :
    (0 < v → Gen.retargetJump v N = v + N) ∧ (v ≤ 0 → Gen.retargetJump v N = v) := by
  unfold Gen.retargetJump; constructor <;> intro h <;> simp <;> omega

theorem retarget_special (N : ℤ) :
    Gen.retargetGoto 0 N = 0 ∧ Gen.retargetJump 0 N = 0 ∧ Gen.retargetJump (-1) N = -1 := by
  simp [Gen.retargetGoto, Gen.retargetJump]

/-- moving behind `M` and then behind `N` positions is moving behind `N + M` positions -/
theorem retargetSeq_comp (N M : ℤ) (hN : 0 ≤ N) (hM : 0 ≤ M) (q : SeqSet) :
    retargetSeq N (retargetSeq M q) = retargetSeq (N + M) q := by
  unfold retargetSeq Gen.retargetGoto Gen.retargetJump
  obtain ⟨a, b, c, d, e⟩ := q
  simp only [SeqSet.mk.injEq, true_and]
  constructor <;> (repeat' split) <;> omega

/-- only `goto` and `jump_target` are touched -/
theorem retargetSeq_frame (N : ℤ) (q : SeqSet) :
    (retargetSeq N q).twait = q.twait ∧ (retargetSeq N q).nrep = q.nrep ∧ (retargetSeq N q).jump_input = q.jump_input :=
  ⟨rfl, rfl, rfl⟩

/-! ### when `+` succeeds, and what it raises otherwise -/

/-- `a + b` returns a sequence iff both operands are consistent and carry equal AWG settings;
    then it is `addCore a b` -/
theorem add_ok_iff (a b s : Sequence) :
    a.add b = .ok s ↔ a.checkConsistency = .ok true ∧ b.checkConsistency = .ok true ∧
      Dict.eqBy (· == ·) a.awgspecs b.awgspecs = true ∧ s = addCore a b := by
  unfold Sequence.add
  constructor
  · intro h
    split at h
    · cases h
    · cases h
    · split at h
      · cases h
      · cases h
      · split at h
        · rename_i h1 _ h2 h3
          cases h
          exact ⟨h1, h2, h3, rfl⟩
        · cases h
  · rintro ⟨h1, h2, h3, rfl⟩
    simp [h1, h2, h3]

/-- an inconsistent operand (either side) is a SequenceConsistencyError, different AWG settings
    a SequenceCompatibilityError; nothing is returned -/
theorem add_errors (a b : Sequence) :
    (a.checkConsistency = .ok false → a.add b = .error .consistency) ∧
    (a.checkConsistency = .ok true → b.checkConsistency = .ok false → a.add b = .error .consistency) ∧
    (a.checkConsistency = .ok true → b.checkConsistency = .ok true →
      Dict.eqBy (· == ·) a.awgspecs b.awgspecs = false → a.add b = .error .compat) := by
  unfold Sequence.add
  refine ⟨fun h => by simp [h], fun h1 h2 => by simp [h1, h2], fun h1 h2 h3 => by simp [h1, h2, h3]⟩

/-- the settings of the sum are the operands' (which are equal) -/
theorem add_awgspecs (a b s : Sequence) (h : a.add b = .ok s) :
    s.awgspecs = b.awgspecs ∧ Dict.eqBy (· == ·) a.awgspecs s.awgspecs = true := by
  obtain ⟨_, _, h3, rfl⟩ := (add_ok_iff a b s).mp h
  exact ⟨rfl, h3⟩

/-- consistency implies that the positions are exactly 1..N -/
theorem positions_of_consistent (s : Sequence) (h : s.checkConsistency = .ok true) : Positions s.data := by
  apply positions_of_gapFree
  unfold Sequence.checkConsistency at h
  split at h
  · cases h
  · split at h
    · cases h
    · split at h
      · cases h
      · split at h
        · cases h
        · split at h
          · cases h
          · simpa using h

/-! ### the content of the sum -/

/-- shifted positions of `b` are new and distinct -/
theorem shifted_fresh {α β : Type} (A : Dict ℤ α) (B : Dict ℤ β) (hA : Positions A) (hB : Positions B) :
    (B.map (fun p => p.1 + (A.length : ℤ))).Nodup ∧ ∀ p ∈ B, p.1 + (A.length : ℤ) ∉ Dict.keys A := by
  constructor
  · have : (B.map (fun p => p.1 + (A.length : ℤ))) = (Dict.keys B).map (· + (A.length : ℤ)) := by
      simp [Dict.keys, List.map_map, Function.comp_def]
    rw [this]
    exact List.Nodup.map (fun x y h => by simpa using h) hB.wf
  · intro p hp hmem
    have h1 := (hA.mem _).mp hmem
    have h2 := (hB.mem p.1).mp (List.mem_map.mpr ⟨p, hp, rfl⟩)
    omega

/-- **store of the sum**: `a`'s entries (copied) under their own positions, followed by `b`'s
    entries (copied) under `position + len(a)` -/
theorem addCore_data (a b : Sequence) (ha : Positions a.data) (hb : Positions b.data) :
    (addCore a b).data = a.data.map (fun p => (p.1, copyEntry p.2)) ++
      b.data.map (fun p => (p.1 + (a.data.length : ℤ), copyEntry p.2)) := by
  unfold addCore
  simp only
  have hA' : Positions (a.data.map (fun p => (p.1, copyEntry p.2))) := by
    unfold Positions at *
    simpa [Dict.keys, List.map_map, Function.comp_def] using ha
  have hf := shifted_fresh (a.data.map (fun p => (p.1, copyEntry p.2))) b.data hA' hb
  simp only [List.length_map] at hf
  exact Dict.foldl_upsert_fresh b.data (· + (a.data.length : ℤ)) copyEntry _ (fun d p => rfl) _ hf.1 hf.2

/-- the sum has `len(a) + len(b)` positions, and they are again exactly 1..len(a)+len(b) -/
theorem addCore_positions (a b : Sequence) (ha : Positions a.data) (hb : Positions b.data) :
    (addCore a b).data.length = a.data.length + b.data.length ∧ Positions (addCore a b).data := by
  rw [addCore_data a b ha hb]
  refine ⟨by simp, ?_⟩
  unfold Positions at *
  simp only [Dict.keys, List.map_append, List.map_map, Function.comp_def, List.length_append, List.length_map]
  rw [oneTo_append]
  apply List.Perm.append
  · simpa [Dict.keys] using ha
  · have := hb.map (· + (a.data.length : ℤ))
    simpa [Dict.keys, List.map_map, Function.comp_def] using this

/-- position `p` of `a` holds (a copy of) the same entry in `a + b` -/
theorem addCore_get_left (a b : Sequence) (ha : Positions a.data) (hb : Positions b.data) (p : ℤ)
    (hp : p ∈ Dict.keys a.data) : Dict.get? (addCore a b).data p = (Dict.get? a.data p).map copyEntry := by
  rw [addCore_data a b ha hb, Dict.get?_append_left]
  · have := Dict.get?_map_key_val a.data id (fun _ _ h => h) copyEntry p
    simpa using this
  · simpa [Dict.keys, List.map_map, Function.comp_def] using hp

/-- position `p` of `b` is found (copied) at position `p + len(a)` of `a + b` -/
theorem addCore_get_right (a b : Sequence) (ha : Positions a.data) (hb : Positions b.data) (p : ℤ)
    (hp : p ∈ Dict.keys b.data) :
    Dict.get? (addCore a b).data (p + (a.data.length : ℤ)) = (Dict.get? b.data p).map copyEntry := by
  rw [addCore_data a b ha hb, Dict.get?_append_right]
  · exact Dict.get?_map_key_val b.data (· + (a.data.length : ℤ)) (fun _ _ h => by simpa using h) copyEntry p
  · intro hmem
    have h1 : p + (a.data.length : ℤ) ∈ Dict.keys a.data := by
      simpa [Dict.keys, List.map_map, Function.comp_def] using hmem
    have h2 := (ha.mem _).mp h1
    have h3 := (hb.mem p).mp hp
    omega

/-- the sequencing entries are stored under the same keys as the elements (true of every
    sequence built with addElement/addSubSequence and the setSequencingXXX methods) -/
def Aligned (s : Sequence) : Prop := Dict.keys s.sequencing = Dict.keys s.data

/-- **sequencing of the sum**: `a`'s entries unchanged, followed by `b`'s under
    `position + len(a)` with goto and jump target retargeted -/
theorem addCore_sequencing (a b : Sequence) (ha : Positions a.data) (hb : Positions b.data)
    (hsa : Aligned a) (hsb : Aligned b) :
    (addCore a b).sequencing = a.sequencing ++
      b.sequencing.map (fun p => (p.1 + (a.data.length : ℤ), retargetSeq (a.data.length : ℤ) p.2)) := by
  unfold addCore
  simp only
  have hlenA : a.sequencing.length = a.data.length := by
    have := congrArg List.length hsa; simpa [Dict.keys] using this
  have hlenB : b.sequencing.length = b.data.length := by
    have := congrArg List.length hsb; simpa [Dict.keys] using this
  have hA' : Positions a.sequencing := by unfold Positions at *; rw [hsa, hlenA]; exact ha
  have hB' : Positions b.sequencing := by unfold Positions at *; rw [hsb, hlenB]; exact hb
  have hf := shifted_fresh a.sequencing b.sequencing hA' hB'
  rw [hlenA] at hf
  exact Dict.foldl_upsert_fresh b.sequencing (· + (a.data.length : ℤ)) (retargetSeq (a.data.length : ℤ)) _
    (fun d p => rfl) _ hf.1 hf.2

theorem addCore_aligned (a b : Sequence) (ha : Positions a.data) (hb : Positions b.data)
    (hsa : Aligned a) (hsb : Aligned b) : Aligned (addCore a b) := by
  unfold Aligned at *
  rw [addCore_sequencing a b ha hb hsa hsb, addCore_data a b ha hb]
  simp only [Dict.keys, List.map_append, List.map_map, Function.comp_def] at *
  rw [hsa]
  congr 1
  have := congrArg (List.map (· + (a.data.length : ℤ))) hsb
  simpa [List.map_map, Function.comp_def] using this

theorem copyEntry_idem (e : Entry) : copyEntry (copyEntry e) = copyEntry e := by
  cases e <;> rfl

/-- **associativity**: `(a + b) + c` and `a + (b + c)` are the same sequence -/
theorem addCore_assoc (a b c : Sequence)
    (ha : Positions a.data) (hb : Positions b.data) (hc : Positions c.data)
    (hsa : Aligned a) (hsb : Aligned b) (hsc : Aligned c) :
    addCore (addCore a b) c = addCore a (addCore b c) := by
  have hab := addCore_positions a b ha hb
  have hbc := addCore_positions b c hb hc
  have e1 : (addCore (addCore a b) c).data = (addCore a (addCore b c)).data := by
    rw [addCore_data _ c hab.2 hc, addCore_data a b ha hb, addCore_data a _ ha hbc.2, addCore_data b c hb hc]
    simp only [List.map_append, List.map_map, Function.comp_def, List.length_append, List.length_map,
      copyEntry_idem, List.append_assoc]
    congr 2
    apply List.map_congr_left
    intro p _
    simp only [Prod.mk.injEq, and_true]
    push_cast; ring
  have e2 : (addCore (addCore a b) c).sequencing = (addCore a (addCore b c)).sequencing := by
    rw [addCore_sequencing _ c hab.2 hc (addCore_aligned a b ha hb hsa hsb) hsc,
      addCore_sequencing a b ha hb hsa hsb,
      addCore_sequencing a _ ha hbc.2 hsa (addCore_aligned b c hb hc hsb hsc),
      addCore_sequencing b c hb hc hsb hsc]
    simp only [List.map_append, List.map_map, Function.comp_def, List.append_assoc, hab.1]
    congr 2
    apply List.map_congr_left
    intro p _
    simp only [Prod.mk.injEq]
    constructor
    · push_cast; ring
    · rw [retargetSeq_comp _ _ (by positivity) (by positivity)]
      push_cast; rfl
  have e3 : (addCore (addCore a b) c).awgspecs = (addCore a (addCore b c)).awgspecs := rfl
  have e4 : (addCore (addCore a b) c).name = (addCore a (addCore b c)).name := rfl
  cases h1 : addCore (addCore a b) c
  cases h2 : addCore a (addCore b c)
  simp only [h1, h2] at e1 e2 e3 e4
  simp [e1, e2, e3, e4]

/-! ### blueprints -/

open BP in
/-- `b₁ + b₂` consists of the segments of `b₁` followed by those of `b₂`, names aside;
    segment-bound markers are part of the segment record and travel with it -/
theorem bp_add_segments (a b : BP) :
    (a.add b).segs.map Seg.body = (a.segs ++ b.segs).map Seg.body ∧
    (a.add b).segs.length = a.segs.length + b.segs.length ∧
    makeNamesUnique (a.add b).names = (a.add b).names ∧ (a.add b).SR = a.SR := by
  refine ⟨add_body a b, ?_, inv_add a b, rfl⟩
  have := congrArg List.length (add_body a b)
  simpa using this

/-- without waituntil segments the resolved durations do not depend on the elapsed time -/
theorem resolveGo_nowait (segs : List Seg) (hnw : ∀ s ∈ segs, s.fn.isWait = false) (el el' : ℚ) :
    BP.resolveGo segs el = BP.resolveGo segs el' := by
  induction segs generalizing el el' with
  | nil => rfl
  | cons s rest ih =>
    have hs : s.fn.isWait = false := hnw s (by simp)
    simp only [BP.resolveGo, hs, Bool.false_eq_true, if_false]
    split
    · rw [ih (fun t ht => hnw t (by simp [ht])) (el + _) (el' + _)]
    · rfl

theorem badSpecial_append (a b : BP) (c : BP) (hc : c.segs = a.segs ++ b.segs) :
    badSpecial c = (badSpecial a || badSpecial b) := by
  unfold badSpecial
  rw [hc, List.any_append]

/-- **blueprint concatenation forges to the concatenation**: if `b₁` forges at its sample rate and
    `b₂` (no waituntil segment) forges at the same rate, then `b₁ + b₂` forges, its waveform blocks
    are those of `b₁` followed by those of `b₂`, sample counts and segment durations likewise -/
theorem bp_add_forge (a b : BP) (sr : ℚ) (ha : a.SR = .num sr) (hb : b.SR = .num sr)
    (hnw : ∀ s ∈ b.segs, s.fn.isWait = false) (fa fb : Forged)
    (h1 : forgeBP a = .ok fa) (h2 : forgeBP b = .ok fb) :
    ∃ f, forgeBP (a.add b) = .ok f ∧ f.blocks = fa.blocks ++ fb.blocks ∧ f.N = fa.N + fb.N ∧
      f.newdurations = fa.newdurations ++ fb.newdurations ∧ f.SR = sr := by
  obtain ⟨sra, da, na, hsa, hda, hna, hba, rfl⟩ := (forge_ok_iff a fa).mp h1
  obtain ⟨srb, db, nb, hsb, hdb, hnb, hbb, rfl⟩ := (forge_ok_iff b fb).mp h2
  rw [ha] at hsa; cases hsa
  rw [hb] at hsb; cases hsb
  let c : BP := { segs := a.segs ++ b.segs, marker1 := a.marker1 ++ b.marker1, marker2 := a.marker2 ++ b.marker2, SR := a.SR }
  have hc : forgeBP (a.add b) = forgeBP c :=
    forgeBP_body _ _ (add_body a b) rfl rfl rfl
  have hres : c.resolveWaits = .ok (da ++ db) := by
    unfold BP.resolveWaits at *
    apply resolveGo_append a.segs b.segs 0 da db hda
    rw [resolveGo_nowait b.segs hnw _ 0]; exact hdb
  have hcnt := C10.countsGo_append sr da db na nb hna hnb
  have hbad : badSpecial c = false := by
    rw [badSpecial_append a b c rfl, hba, hbb]; rfl
  have hlen : na.length = a.segs.length := by
    rw [countsGo_length sr da na hna, resolveGo_length a.segs 0 da hda]
  refine ⟨assemble c sr (na ++ nb), ?_, ?_, ?_, ?_, rfl⟩
  · rw [hc, (forge_ok_iff c _)]
    exact ⟨sr, da ++ db, na ++ nb, ha, hres, hcnt, hbad, rfl⟩
  · simp only [assemble]
    exact C10.mkBlocks_append sr a.segs b.segs na nb hlen
  · simp only [assemble, sumN_append]
  · simp only [assemble, List.map_append]

end BB.C16
