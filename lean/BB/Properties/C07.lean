/-
  Property C07 — the consistency gate: only gap-free, homogeneous sequences produce output.
-/
import BB.Proofs.Sequence
import BB.Model.Tools
import BB.Proofs.G3Sort
import BB.Proofs.G3Prep
import BB.Proofs.G3Check
import BB.Proofs.G12Consistency
import BB.Proofs.G12Order

namespace BB.C07
open BB

/-- `checkConsistency` returns True exactly when (i) all entries have the same sample rate,
    (ii) all entries define the same set of channels (compared after int-before-str sorting) and
    (iii) the positions are exactly 1..N — in whatever order they were added. -/
theorem checkConsistency_iff (s : Sequence) (srs : List Val) (chans : List (List Chan))
    (hSR : Dict.has s.awgspecs "SR" = true)
    (h1 : (Dict.vals s.data).mapM Entry.getSR = .ok srs)
    (h2 : (Dict.vals s.data).mapM Entry.channels = .ok chans)
    (hne : Dict.keys s.data ≠ []) :
    s.checkConsistency = .ok true ↔
      Element.allSame srs = true ∧ allEqLast (chans.map channelListSorter) = true ∧
        (Dict.keys s.data).Perm (oneTo (Dict.keys s.data).length) := by
  unfold Sequence.checkConsistency
  simp only [hSR, Bool.not_true, Bool.false_eq_true, if_false, h1, h2]
  by_cases ha : Element.allSame srs = true
  · by_cases hb : allEqLast (chans.map channelListSorter) = true
    · simp only [ha, hb, Bool.not_true, Bool.false_eq_true, if_false, Except.ok.injEq, true_and]
      exact gapFree_iff _ hne
    · simp [ha, hb]
  · simp [ha]

/-- ... and False in every other case in which it returns at all (it raises KeyError when the
    sequence has no sample rate). -/
theorem checkConsistency_total (s : Sequence) (srs : List Val) (chans : List (List Chan))
    (hSR : Dict.has s.awgspecs "SR" = true)
    (h1 : (Dict.vals s.data).mapM Entry.getSR = .ok srs)
    (h2 : (Dict.vals s.data).mapM Entry.channels = .ok chans) :
    s.checkConsistency = .ok true ∨ s.checkConsistency = .ok false := by
  unfold Sequence.checkConsistency
  simp only [hSR, Bool.not_true, Bool.false_eq_true, if_false, h1, h2]
  by_cases ha : Element.allSame srs = true <;> by_cases hb : allEqLast (chans.map channelListSorter) = true <;>
    simp [ha, hb]

/-- The verdict on the positions does not depend on the order in which they were added. -/
theorem positions_order_irrelevant {k₁ k₂ : List ℤ} (h : k₁.Perm k₂) : gapFree k₁ = gapFree k₂ :=
  gapFree_of_perm h

/-- `_channelListSorter` puts ints (ascending) before strings (ascending), so two channel lists
    with the same ints and the same strings compare equal whatever their order. -/
theorem channelListSorter_spec (chs : List Chan) :
    channelListSorter chs =
      (sortBy (fun a b => decide (a ≤ b)) (chs.filterMap (fun c => match c with | .int n => some n | _ => none))).map Chan.int ++
      (sortBy (fun a b => decide (a ≤ b)) (chs.filterMap (fun c => match c with | .str s => some s | _ => none))).map Chan.str := rfl

/-! ### the gate: an inconsistent sequence produces no output -/

theorem forge_refuses (s : Sequence) (d f t : Bool) (h : s.checkConsistency = .ok false) :
    s.forge d f t = .error .value := by
  simp [Sequence.forge, h]

theorem channels_refuses (s : Sequence) (h : s.checkConsistency = .ok false) :
    s.channels = .error .consistency := by
  simp [Sequence.channels, h, bind, Except.bind, throw, throwThe, MonadExceptOf.throw]

theorem prepare_refuses (s : Sequence) (h : s.checkConsistency = .ok false) :
    s.prepareForOutputting = .error .value := by
  simp [Sequence.prepareForOutputting, h, bind, Except.bind, throw, throwThe, MonadExceptOf.throw]

theorem awg_refuses (s : Sequence) (h : s.checkConsistency = .ok false) :
    s.outputForAWGFile.toOption = none := by
  simp [Sequence.outputForAWGFile, prepare_refuses s h, bind, Except.bind, Except.toOption]

theorem seqx_refuses (s : Sequence) (h : s.checkConsistency = .ok false) :
    s.outputForSEQXFile.toOption = none ∧ s.outputForSEQXFileWithFlags.toOption = none := by
  simp [Sequence.outputForSEQXFile, Sequence.outputForSEQXFileWithFlags, prepare_refuses s h, bind, Except.bind,
    Except.toOption]

theorem add_refuses_left (a b : Sequence) (h : a.checkConsistency = .ok false) :
    a.add b = .error .consistency := by
  simp [Sequence.add, h, bind, Except.bind, throw, throwThe, MonadExceptOf.throw]

theorem add_refuses_right (a b : Sequence) (ha : a.checkConsistency = .ok true)
    (h : b.checkConsistency = .ok false) : a.add b = .error .consistency := by
  simp [Sequence.add, ha, h, bind, Except.bind, throw, throwThe, MonadExceptOf.throw]

theorem repeatAndVary_refuses (s : Sequence) (lens : List Nat) (poss : List Int) (vars : List Tools.Variation)
    (h : s.checkConsistency = .ok false) :
    Tools.repeatAndVarySequence s lens poss vars = .error .consistency := by
  simp [Tools.repeatAndVarySequence, h, bind, Except.bind, throw, throwThe, MonadExceptOf.throw]

/-- no sample rate: every one of these operations raises as well -/
theorem no_SR_raises (s : Sequence) (h : Dict.has s.awgspecs "SR" = false) :
    s.checkConsistency = .error .key ∧ (∀ d f t, s.forge d f t = .error .key) ∧
      s.prepareForOutputting = .error .key := by
  have hc : s.checkConsistency = .error .key := by simp [Sequence.checkConsistency, h]
  refine ⟨hc, ?_, ?_⟩
  · intro d f t; simp [Sequence.forge, hc]
  · simp [Sequence.prepareForOutputting, hc, bind, Except.bind]

/-! ### the gate, converse direction: whatever returns has passed `checkConsistency` -/

open BB.Sequence (Deferred AWGPkg SEQXPkg)

/-- `forge` returns only for a sequence on which `checkConsistency` returns True -/
theorem forge_ok_consistent (s : Sequence) (d f t : Bool) (out : List (Nat × ForgedPos))
    (h : s.forge d f t = .ok out) : s.checkConsistency = .ok true := by
  unfold Sequence.forge at h
  split at h
  · cases h
  · cases h
  · assumption

/-- the `channels` query returns only for a consistent sequence -/
theorem channels_ok_consistent (s : Sequence) (chs : List Chan) (h : s.channels = .ok chs) :
    s.checkConsistency = .ok true :=
  (G3.channels_inv s chs h).1

/-- `_prepareForOutputting` returns only for a consistent sequence -/
theorem prepare_ok_consistent (s : Sequence) (P : List (Dict Chan ChOutF))
    (h : s.prepareForOutputting = .ok P) : s.checkConsistency = .ok true := by
  obtain ⟨_, _, _, _, _, hcc, _⟩ := G3.prepare_inv s P h
  exact hcc

/-- every output method starts with `_prepareForOutputting` -/
theorem awg_ok_prepare (s : Sequence) (d : Deferred AWGPkg) (h : s.outputForAWGFile = .ok d) :
    ∃ P, s.prepareForOutputting = .ok P := by
  unfold Sequence.outputForAWGFile at h
  split at h
  · cases h
  · rename_i P hP; exact ⟨P, hP⟩

/-- every output method starts with `_prepareForOutputting` (SEQX) -/
theorem seqx_ok_prepare (s : Sequence) (d : Deferred SEQXPkg) (h : s.outputForSEQXFile = .ok d) :
    ∃ P, s.prepareForOutputting = .ok P := by
  unfold Sequence.outputForSEQXFile at h
  split at h
  · cases h
  · rename_i P hP; exact ⟨P, hP⟩

/-- every output method starts with `_prepareForOutputting` (SEQX with flags) -/
theorem seqxFlags_ok_prepare (s : Sequence) (d : Deferred SEQXPkg) (h : s.outputForSEQXFileWithFlags = .ok d) :
    ∃ P, s.prepareForOutputting = .ok P := by
  unfold Sequence.outputForSEQXFileWithFlags at h
  split at h
  · cases h
  · rename_i P hP; exact ⟨P, hP⟩

/-- `outputForAWGFile` returns (a package, or a package pending range obligations) only for a
    consistent sequence -/
theorem awg_ok_consistent (s : Sequence) (d : Deferred AWGPkg) (h : s.outputForAWGFile = .ok d) :
    s.checkConsistency = .ok true := by
  obtain ⟨P, hP⟩ := awg_ok_prepare s d h
  exact prepare_ok_consistent s P hP

/-- `outputForSEQXFile` returns only for a consistent sequence -/
theorem seqx_ok_consistent (s : Sequence) (d : Deferred SEQXPkg) (h : s.outputForSEQXFile = .ok d) :
    s.checkConsistency = .ok true := by
  obtain ⟨P, hP⟩ := seqx_ok_prepare s d h
  exact prepare_ok_consistent s P hP

/-- `outputForSEQXFileWithFlags` returns only for a consistent sequence -/
theorem seqxFlags_ok_consistent (s : Sequence) (d : Deferred SEQXPkg)
    (h : s.outputForSEQXFileWithFlags = .ok d) : s.checkConsistency = .ok true := by
  obtain ⟨P, hP⟩ := seqxFlags_ok_prepare s d h
  exact prepare_ok_consistent s P hP

/-- `a + b` returns only when BOTH operands are consistent (and their AWG settings compare equal);
    the result is then `addCore a b` -/
theorem add_ok_consistent (a b c : Sequence) (h : a.add b = .ok c) :
    a.checkConsistency = .ok true ∧ b.checkConsistency = .ok true ∧
      Dict.eqBy (· == ·) a.awgspecs b.awgspecs = true ∧ c = Sequence.addCore a b := by
  unfold Sequence.add at h
  split at h
  · cases h
  · cases h
  · rename_i ha
    split at h
    · cases h
    · cases h
    · rename_i hb
      split at h
      · rename_i heq
        simp only [Except.ok.injEq] at h
        exact ⟨ha, hb, heq, h.symm⟩
      · cases h

/-- `repeatAndVarySequence` returns only for a consistent input sequence -/
theorem repeatAndVary_ok_consistent (s out : Sequence) (lens : List Nat) (poss : List Int)
    (vars : List Tools.Variation) (h : Tools.repeatAndVarySequence s lens poss vars = .ok out) :
    s.checkConsistency = .ok true := by
  unfold Tools.repeatAndVarySequence at h
  split at h
  · cases h
  · cases h
  · assumption

/-- `makeVaryingSequence` hands out only a sequence that passed `checkConsistency` -/
theorem makeVarying_ok_consistent (base : Element) (lens : List Nat) (vars : List Tools.Variation) (out : Sequence)
    (h : Tools.makeVaryingSequence base lens vars = .ok out) : out.checkConsistency = .ok true := by
  unfold Tools.makeVaryingSequence at h
  split at h
  · cases h
  · split at h
    · cases h
    · split at h
      · cases h
      · split at h
        · cases h
        · split at h
          · cases h
          · cases h
          · rename_i hcc
            simp only [Except.ok.injEq] at h
            rw [← h]; exact hcc

/-- the gate as one statement: for a sequence on which `checkConsistency` does not return True
    (it returns False or raises), none of the operations returns -/
theorem gate (s : Sequence) (h : s.checkConsistency ≠ .ok true) :
    (∀ d f t, (s.forge d f t).toOption = none) ∧ s.channels.toOption = none ∧
    s.prepareForOutputting.toOption = none ∧ s.outputForAWGFile.toOption = none ∧
    s.outputForSEQXFile.toOption = none ∧ s.outputForSEQXFileWithFlags.toOption = none ∧
    (∀ b : Sequence, (s.add b).toOption = none) ∧ (∀ a : Sequence, (a.add s).toOption = none) ∧
    (∀ lens poss vars, (Tools.repeatAndVarySequence s lens poss vars).toOption = none) := by
  have none_of : ∀ {α : Type} (x : Except Err α), (∀ v, x = .ok v → False) → x.toOption = none := by
    intro α x hx
    cases x with
    | error e => rfl
    | ok v => exact absurd rfl (fun hh => hx v hh)
  refine ⟨fun d f t => none_of _ (fun v hv => h (forge_ok_consistent s d f t v hv)),
    none_of _ (fun v hv => h (channels_ok_consistent s v hv)),
    none_of _ (fun v hv => h (prepare_ok_consistent s v hv)),
    none_of _ (fun v hv => h (awg_ok_consistent s v hv)),
    none_of _ (fun v hv => h (seqx_ok_consistent s v hv)),
    none_of _ (fun v hv => h (seqxFlags_ok_consistent s v hv)),
    fun b => none_of _ (fun v hv => h (add_ok_consistent s b v hv).1),
    fun a => none_of _ (fun v hv => h (add_ok_consistent a s v hv).2.1),
    fun lens poss vars => none_of _ (fun v hv => h (repeatAndVary_ok_consistent s v lens poss vars hv))⟩

/-! ### required settings -/

/-- `_prepareForOutputting` (hence both output methods) returns only if the sequencing entries are
    keyed exactly by the positions 1..N (in any order) and every channel of `Sequence.channels` has
    an amplitude setting; it then holds one forged element per position -/
theorem prepare_ok_settings (s : Sequence) (P : List (Dict Chan ChOutF)) (h : s.prepareForOutputting = .ok P) :
    ∃ chans, s.channels = .ok chans ∧
      (Dict.keys s.sequencing).Perm (oneTo s.data.length) ∧
      (∀ ch ∈ chans, Dict.has s.awgspecs (keyOf ch "amplitude") = true) ∧
      P.length = s.data.length ∧ 0 < P.length := by
  obtain ⟨en, chans, _, _, _, hcc, hen, hchans, hseq, hamp, _⟩ := G3.prepare_inv s P h
  obtain ⟨chans', hch', hlen, hpos, _⟩ := G3.prepare_cells s P h
  have hch : s.channels = .ok chans := by rw [G3.channels_of_consistent s en hcc hen, hchans]
  refine ⟨chans, hch, ?_, hamp, hlen, hpos⟩
  rw [← hseq]
  exact (sortBy_perm _).symm

/-- sequencing entries that do not match the positions: ValueError -/
theorem prepare_refuses_sequencing (s : Sequence) (chans : List Chan) (hch : s.channels = .ok chans)
    (hseq : ¬ (Dict.keys s.sequencing).Perm (oneTo s.data.length)) :
    s.prepareForOutputting = .error .value := by
  obtain ⟨hcc, en, hen, hchans⟩ := G3.channels_inv s chans hch
  have hne : sortBy (fun a b => decide (a ≤ b)) (Dict.keys s.sequencing) ≠ oneTo s.data.length := by
    intro he
    apply hseq
    rw [← he]
    exact (sortBy_perm _).symm
  simp [Sequence.prepareForOutputting, hcc, hen, hchans, hne]

/-- a channel without amplitude setting: KeyError -/
theorem prepare_refuses_no_amplitude (s : Sequence) (chans : List Chan) (hch : s.channels = .ok chans)
    (hseq : (Dict.keys s.sequencing).Perm (oneTo s.data.length))
    (ch : Chan) (hmem : ch ∈ chans) (hno : Dict.has s.awgspecs (keyOf ch "amplitude") = false) :
    s.prepareForOutputting = .error .key := by
  obtain ⟨hcc, en, hen, hchans⟩ := G3.channels_inv s chans hch
  have he : sortBy (fun a b => decide (a ≤ b)) (Dict.keys s.sequencing) = oneTo s.data.length := by
    apply List.Perm.eq_of_pairwise' (r := (· ≤ ·)) (sortBy_sorted _) (oneTo_sorted _)
    exact (sortBy_perm _).trans hseq
  have hany : chans.any (fun ch => !(Dict.has s.awgspecs (keyOf ch "amplitude"))) = true := by
    simp only [List.any_eq_true, Bool.not_eq_true']
    exact ⟨ch, hmem, hno⟩
  simp only [Sequence.prepareForOutputting, hcc, hen, hchans, he, ne_eq, not_true_eq_false, if_false]
  rw [if_pos hany]

/-- `outputForAWGFile` returns only if every channel of `Sequence.channels` has a *numeric*
    amplitude and a *numeric* offset (a missing offset is a ValueError, a non-numeric setting a
    TypeError) -/
theorem awg_ok_settings (s : Sequence) (d : Deferred AWGPkg) (h : s.outputForAWGFile = .ok d) :
    ∃ chans, s.channels = .ok chans ∧
      ∀ ch ∈ chans, (∃ a, s.specNum (keyOf ch "amplitude") = some a) ∧ (∃ o, s.specNum (keyOf ch "offset") = some o) := by
  unfold Sequence.outputForAWGFile at h
  split at h
  · cases h
  · rename_i P hP
    obtain ⟨chans, hch, hlen, hpos, _⟩ := G3.prepare_cells s P hP
    obtain ⟨hcc, en, hen, hchans⟩ := G3.channels_inv s chans hch
    refine ⟨chans, hch, ?_⟩
    rw [hen] at h
    simp only [hchans] at h
    split at h
    · cases h
    · split at h
      · cases h
      · rename_i checked hchecked
        intro ch hmem
        have hz : 0 < (P.zip (List.range P.length)).length := by simp; exact hpos
        have hl := mapM_ok_length _ _ _ hchecked
        have e0 := mapM_ok_getElem _ _ _ hchecked 0 hz (by omega)
        obtain ⟨k, hk, rfl⟩ := List.getElem_of_mem hmem
        have hl0 := mapM_ok_length _ _ _ e0
        have ek := mapM_ok_getElem _ _ _ e0 k hk (by omega)
        unfold Sequence.awgCheckWave at ek
        split at ek
        · cases ek
        · rename_i a ha
          split at ek
          · cases ek
          · rename_i o ho
            exact ⟨⟨a, ha⟩, ⟨o, ho⟩⟩

/-- `outputForSEQXFile` returns only if every channel of `Sequence.channels` has a numeric amplitude -/
theorem seqx_ok_settings (s : Sequence) (d : Deferred SEQXPkg) (h : s.outputForSEQXFile = .ok d) :
    ∃ chans, s.channels = .ok chans ∧ ∀ ch ∈ chans, ∃ a, s.specNum (keyOf ch "amplitude") = some a := by
  unfold Sequence.outputForSEQXFile at h
  split at h
  · cases h
  · rename_i P hP
    obtain ⟨chans, hch, hlen, hpos, _⟩ := G3.prepare_cells s P hP
    obtain ⟨hcc, en, hen, hchans⟩ := G3.channels_inv s chans hch
    refine ⟨chans, hch, ?_⟩
    rw [hen] at h
    simp only [hchans] at h
    split at h
    · cases h
    · rename_i amps hamps
      intro ch hmem
      obtain ⟨k, hk, rfl⟩ := List.getElem_of_mem hmem
      have hl := mapM_ok_length _ _ _ hamps
      have ek := mapM_ok_getElem _ _ _ hamps k hk (by omega)
      split at ek
      · rename_i q hq; exact ⟨q, hq⟩
      · cases ek

/-- a channel without offset setting: `outputForAWGFile` raises ValueError -/
theorem awg_refuses_no_offset (s : Sequence) (P : List (Dict Chan ChOutF)) (hP : s.prepareForOutputting = .ok P)
    (chans : List Chan) (hch : s.channels = .ok chans)
    (ch : Chan) (hmem : ch ∈ chans) (hno : Dict.has s.awgspecs (keyOf ch "offset") = false) :
    s.outputForAWGFile = .error .value := by
  obtain ⟨hcc, en, hen, hchans⟩ := G3.channels_inv s chans hch
  have hany : chans.any (fun ch => !(Dict.has s.awgspecs (keyOf ch "offset"))) = true := by
    simp only [List.any_eq_true, Bool.not_eq_true']
    exact ⟨ch, hmem, hno⟩
  simp only [Sequence.outputForAWGFile, hP, hen, hchans]
  rw [if_pos hany]

/-! ### never partial output -/

/-- `outputForAWGFile` never returns partial output: whenever a later exception is pending
    (`thenErr`), there is no package; and when none is pending, the package is there -/
theorem awg_never_partial (s : Sequence) (d : Deferred AWGPkg) (h : s.outputForAWGFile = .ok d) :
    (d.thenErr ≠ none → d.pkg = none) ∧ (d.thenErr = none → d.pkg ≠ none) := by
  unfold Sequence.outputForAWGFile at h
  split at h
  · cases h
  · split at h
    · cases h
    · split at h
      · cases h
      · split at h
        · cases h
        · split at h
          · cases h
          · simp only at h
            split at h
            · split at h
              · cases h
              · cases h; simp
            · split at h
              · cases h
              · cases h; simp

/-- `outputForSEQXFile` never returns partial output -/
theorem seqx_never_partial (s : Sequence) (d : Deferred SEQXPkg) (h : s.outputForSEQXFile = .ok d) :
    (d.thenErr ≠ none → d.pkg = none) ∧ (d.thenErr = none → d.pkg ≠ none) := by
  unfold Sequence.outputForSEQXFile at h
  split at h
  · cases h
  · split at h
    · cases h
    · split at h
      · cases h
      · split at h
        · cases h
        · split at h
          · cases h
          · split at h
            · split at h
              · cases h
              · cases h; simp
            · cases h; simp

/-- `outputForSEQXFileWithFlags` never returns partial output -/
theorem seqxFlags_never_partial (s : Sequence) (d : Deferred SEQXPkg) (h : s.outputForSEQXFileWithFlags = .ok d) :
    (d.thenErr ≠ none → d.pkg = none) ∧ (d.thenErr = none → d.pkg ≠ none) := by
  unfold Sequence.outputForSEQXFileWithFlags at h
  split at h
  · cases h
  · split at h
    · cases h
    · split at h
      · cases h
      · split at h
        · cases h
        · split at h
          · cases h
          · rename_i d0 hd0
            cases h
            obtain ⟨h1, h2⟩ := seqx_never_partial s d0 hd0
            constructor
            · intro hne; simp [h1 hne]
            · intro hn
              have := h2 hn
              cases hp : d0.pkg with
              | none => exact absurd hp this
              | some p => simp

/-! ### no sample rate -/

/-- no sample rate: the output methods, the `channels` query, `+` (either operand) and
    `repeatAndVarySequence` raise KeyError as well -/
theorem no_SR_raises_all (s : Sequence) (h : Dict.has s.awgspecs "SR" = false) :
    s.channels = .error .key ∧ s.outputForAWGFile = .error .key ∧ s.outputForSEQXFile = .error .key ∧
      s.outputForSEQXFileWithFlags = .error .key ∧ (∀ b : Sequence, s.add b = .error .key) ∧
      (∀ a : Sequence, a.checkConsistency = .ok true → a.add s = .error .key) ∧
      (∀ lens poss vars, Tools.repeatAndVarySequence s lens poss vars = .error .key) := by
  obtain ⟨hc, _, hp⟩ := no_SR_raises s h
  refine ⟨?_, ?_, ?_, ?_, ?_, ?_, ?_⟩
  · simp [Sequence.channels, hc, bind, Except.bind]
  · simp [Sequence.outputForAWGFile, hp]
  · simp [Sequence.outputForSEQXFile, hp]
  · simp [Sequence.outputForSEQXFileWithFlags, hp]
  · intro b; simp [Sequence.add, hc]
  · intro a ha; simp [Sequence.add, ha, hc]
  · intro lens poss vars; simp [Tools.repeatAndVarySequence, hc]

/-! ### channel lists are compared as sets-with-multiplicity -/

/-- two channel lists compare equal after `_channelListSorter` exactly when they are permutations
    of each other -/
theorem channelListSorter_eq_iff_perm (a b : List Chan) :
    channelListSorter a = channelListSorter b ↔ a.Perm b :=
  ⟨G3.perm_of_channelListSorter_eq, G3.channelListSorter_of_perm⟩

example : channelListSorter [.str "b", .int 2, .str "a", .int 1] = [.int 1, .int 2, .str "a", .str "b"] := by
  decide +kernel

/-! ### non-vacuity: positions added as 2, 1 are consistent; 1, 3 are not -/

example : gapFree [2, 1] = true ∧ gapFree [1, 3] = false ∧ gapFree [3, 1, 2] = true := by decide +kernel

/-! ### non-vacuity of the gate / settings theorems (concrete sequences of `BB.G3.Ex`) -/

/-- the hypotheses of the `*_ok_consistent` theorems are satisfiable: on the two-position example
    (positions added as 2, 1; channels 1 and "A") every gated operation returns -/
example : (G3.Ex.seq.forge true true false).toOption.isSome = true ∧ G3.Ex.seq.channels.toOption.isSome = true ∧
    G3.Ex.seq.prepareForOutputting.toOption.isSome = true ∧ G3.Ex.seq.outputForAWGFile.toOption.isSome = true ∧
    (G3.Ex.seq.add G3.Ex.seq).toOption.isSome = true := by decide +kernel

/-- `repeatAndVarySequence` and `makeVaryingSequence` return on a blueprint example -/
example : (Tools.repeatAndVarySequence G3.Ex.bpSeq [1, 1, 1, 1, 1] [1] [G3.Ex.bpVar]).toOption.isSome = true ∧
    (Tools.makeVaryingSequence G3.Ex.bpEl [1, 1, 1, 1] [G3.Ex.bpVar]).toOption.isSome = true := by decide +kernel

/-- `gate`: a sequence with a hole (positions 1, 3) is not consistent, one without SR raises -/
example : G3.Ex.seqHole.checkConsistency ≠ .ok true ∧ G3.Ex.seqNoSR.checkConsistency ≠ .ok true := by
  have h1 : G3.Ex.seqHole.checkConsistency.toOption = some false := by decide +kernel
  have h2 : G3.Ex.seqNoSR.checkConsistency.toOption = none := by decide +kernel
  constructor
  · intro h; rw [h] at h1; cases h1
  · intro h; rw [h] at h2; cases h2

/-- `prepare_ok_settings`, `awg_ok_settings`, `awg_never_partial`, `awg_ok_prepare`: instance of the hypothesis -/
example : ∃ P d, G3.Ex.seq.prepareForOutputting = .ok P ∧ G3.Ex.seq.outputForAWGFile = .ok d := by
  obtain ⟨d, _, h, _⟩ := G3.Ex.seq_awg_ok
  exact ⟨_, d, G3.Ex.seq_prepare, h⟩

/-- `prepare_refuses_sequencing` applied: sequencing entries keyed 1, 3 for positions 1, 2 -/
example : G3.Ex.seqBadKeys.prepareForOutputting = .error .value :=
  prepare_refuses_sequencing G3.Ex.seqBadKeys G3.Ex.chans (G3.toOption_eq_some _ _ (by decide +kernel)) (by decide)

/-- `prepare_refuses_no_amplitude` applied: channel "A" without amplitude -/
example : G3.Ex.seqNoAmp.prepareForOutputting = .error .key :=
  prepare_refuses_no_amplitude G3.Ex.seqNoAmp G3.Ex.chans (G3.toOption_eq_some _ _ (by decide +kernel)) (by decide)
    (.str "A") (by decide) (by decide +kernel)

/-- `awg_refuses_no_offset` applied: channel "A" without offset -/
example : G3.Ex.seqNoOff.outputForAWGFile = .error .value :=
  awg_refuses_no_offset G3.Ex.seqNoOff _ (G3.Ex.prepare_eq _ (by decide +kernel)) G3.Ex.chans
    (G3.toOption_eq_some _ _ (by decide +kernel)) (.str "A") (by decide) (by decide +kernel)

/-- `no_SR_raises_all`: instance of the hypothesis -/
example : Dict.has G3.Ex.seqNoSR.awgspecs "SR" = false := by decide +kernel

end BB.C07

/-! ## G12: the verdict in terms of the stored entries, for everything the public API builds -/

namespace BB.C07
open BB
open BB.G12 (SameSR SameChannels SameChannelSet Filled SubsAnswer SubsSound NoHardError AddOp addAll)

/-- **clause 1, for every sequence, no side hypotheses** ("checkConsistency returns True exactly when
    positions 1..N are all filled with no gap (in whatever order they were added), all entries have
    the same sample rate and all entries define the same set of channels"): `checkConsistency`
    returns True iff a sample rate is set, every stored entry reports one and the same sample rate
    (`SameSR`), every stored entry reports a channel list and these lists agree up to order
    (`SameChannels`), and the stored positions are a permutation of 1..N (`Filled`).  The two
    `mapM`-succeeds hypotheses and the non-emptiness hypothesis of `checkConsistency_iff` are gone:
    they are part of the right-hand side (an entry that does not answer makes it false). -/
theorem checkConsistency_true_iff_conditions (s : Sequence) :
    s.checkConsistency = .ok true ↔
      Dict.has s.awgspecs "SR" = true ∧ SameSR s ∧ SameChannels s ∧ Filled s :=
  G12.checkConsistency_true_iff_entries s

/-- **clause 1 on API-built sequences, with channel *sets***: for every sequence built through the
    public API (`Sequence.ApiBuilt`) that has a sample rate, `checkConsistency` returns True iff all
    entries report the same sample rate, all entries define the same *set* of channels (no entry of
    such a sequence lists a channel twice, so "equal after `_channelListSorter`" is set equality) and
    the positions are exactly 1..N. -/
theorem checkConsistency_built_iff (s : Sequence) (hs : Sequence.ApiBuilt s)
    (hSR : Dict.has s.awgspecs "SR" = true) :
    s.checkConsistency = .ok true ↔ SameSR s ∧ SameChannelSet s ∧ Filled s := by
  rw [checkConsistency_true_iff_conditions, G12.sameChannels_iff_set (G12.apiBuilt_innerWF hs)]
  simp [hSR]

/-- the same with the three conditions spelled out: there are a sample rate `v` and a channel list
    `chs` such that every stored entry reports `v` and a channel list with exactly the members of
    `chs`; and position `k` is filled exactly for `1 ≤ k ≤ N`, `N` the number of stored entries -/
theorem checkConsistency_built_iff_spelled_out (s : Sequence) (hs : Sequence.ApiBuilt s)
    (hSR : Dict.has s.awgspecs "SR" = true) :
    s.checkConsistency = .ok true ↔
      (∃ v, ∀ x ∈ s.data, x.2.getSR = .ok v) ∧
      (∃ chs : List Chan, ∀ x ∈ s.data, ∃ c, x.2.channels = .ok c ∧ ∀ ch, ch ∈ c ↔ ch ∈ chs) ∧
      (∀ k : ℤ, (Dict.get? s.data k).isSome = true ↔ (1 ≤ k ∧ k ≤ s.data.length)) := by
  rw [checkConsistency_built_iff s hs hSR, G12.filled_iff_positions (G12.apiBuilt_data_wf hs)]
  rfl

/-- **"... and False otherwise", never an error** (after the two repairs of `checkConsistency`,
    D27 and D28: a stored subsequence that is itself inconsistent, holds no element or has no sample
    rate makes the answer False instead of raising SequenceConsistencyError / KeyError): EVERY
    API-built sequence with a sample rate gets a boolean from `checkConsistency` - neither of the
    two loops can fail: `addElement` validated every stored element, and the only exceptions a
    `channels` query of a stored subsequence can raise are SequenceConsistencyError and KeyError
    (`G12.subChannels_error_cases`), which are caught.  No side condition on the stored
    subsequences is left (before D28 this theorem needed `SubsSound`). -/
theorem checkConsistency_built_never_raises (s : Sequence) (hs : Sequence.ApiBuilt s)
    (hSR : Dict.has s.awgspecs "SR" = true) :
    s.checkConsistency = .ok true ∨ s.checkConsistency = .ok false := by
  have hv := G11.apiBuilt_innerValidated hs
  obtain ⟨b, hb⟩ := G12.checkConsistency_ok_of_validated hv hSR
  cases b
  · exact .inr hb
  · exact .inl hb

/-- **"... and False otherwise"**: under the same hypotheses `checkConsistency` returns False exactly
    when one of the three conditions fails (an inconsistent or empty stored subsequence answers no
    channel list, so it falsifies the channel condition) -/
theorem checkConsistency_built_false_iff (s : Sequence) (hs : Sequence.ApiBuilt s)
    (hSR : Dict.has s.awgspecs "SR" = true) :
    s.checkConsistency = .ok false ↔ ¬ (SameSR s ∧ SameChannelSet s ∧ Filled s) := by
  rw [← checkConsistency_built_iff s hs hSR]
  rcases checkConsistency_built_never_raises s hs hSR with h | h <;> simp [h]

/-- the case the quantifier names first - elements only: an API-built sequence with a sample rate
    that holds no subsequence gets True or False, never an exception -/
theorem checkConsistency_built_elements_never_raises (s : Sequence) (hs : Sequence.ApiBuilt s)
    (hSR : Dict.has s.awgspecs "SR" = true) (_hel : ∀ x ∈ s.data, ∃ e, x.2 = .el e) :
    s.checkConsistency = .ok true ∨ s.checkConsistency = .ok false :=
  checkConsistency_built_never_raises s hs hSR

/-- what "a stored subsequence answers its `channels` query" means: it is consistent itself and
    has an element at position 1, whose channels it reports -/
theorem subsequence_answers_iff (sub : SubSeq) (chs : List Chan) :
    sub.channels = .ok chs ↔
      sub.checkConsistency = .ok true ∧ ∃ e, Dict.get? sub.data 1 = some e ∧ e.channels = chs :=
  G12.subChannels_ok_iff sub chs

/-- **an inconsistent stored subsequence gives False** (the repaired behaviour, for every sequence):
    if a sample rate is set, the entries agree on the sample rate, and the first `channels` query
    that fails (in store order) raises SequenceConsistencyError, `checkConsistency` returns False -/
theorem checkConsistency_false_of_inconsistent_subsequence (s : Sequence) (srs : List Val)
    (hSR : Dict.has s.awgspecs "SR" = true)
    (h1 : (Dict.vals s.data).mapM Entry.getSR = .ok srs) (hs : Element.allSame srs = true)
    (h2 : (Dict.vals s.data).mapM Entry.channels = .error .consistency) :
    s.checkConsistency = .ok false := by
  rw [G12.checkConsistency_of_channels_error s srs .consistency hSR h1 hs h2]
  rfl

/-- **an empty stored subsequence (or one without a sample rate) gives False** (D28, for every
    sequence): if a sample rate is set, the entries agree on the sample rate, and the first
    `channels` query that fails (in store order) raises KeyError, `checkConsistency` returns False -/
theorem checkConsistency_false_of_empty_subsequence (s : Sequence) (srs : List Val)
    (hSR : Dict.has s.awgspecs "SR" = true)
    (h1 : (Dict.vals s.data).mapM Entry.getSR = .ok srs) (hs : Element.allSame srs = true)
    (h2 : (Dict.vals s.data).mapM Entry.channels = .error .key) :
    s.checkConsistency = .ok false := by
  rw [G12.checkConsistency_of_channels_error s srs .key hSR h1 hs h2]
  rfl

/-- the model's general statement of when `checkConsistency` raises (any sequence with a sample
    rate and validated entries): the entries agree on the sample rate and the first `channels`
    query that fails, in store order, raises something other than SequenceConsistencyError and
    KeyError ... -/
theorem checkConsistency_built_raises_iff (s : Sequence) (hs : Sequence.ApiBuilt s)
    (hSR : Dict.has s.awgspecs "SR" = true) :
    (∃ er, s.checkConsistency = .error er) ↔
      SameSR s ∧ ∃ er, ¬ (er = .consistency ∨ er = .key) ∧ (Dict.vals s.data).mapM Entry.channels = .error er :=
  G12.checkConsistency_raises_iff (G11.apiBuilt_innerValidated hs) hSR

/-- ... **which never happens on an API-built sequence**: with a sample rate set, `checkConsistency`
    raises nothing at all (before D28: KeyError from a stored subsequence without a sample rate or
    without any element) -/
theorem checkConsistency_built_no_exception (s : Sequence) (hs : Sequence.ApiBuilt s)
    (hSR : Dict.has s.awgspecs "SR" = true) (er : Err) : s.checkConsistency ≠ .error er := by
  intro h
  rcases checkConsistency_built_never_raises s hs hSR with h2 | h2 <;> rw [h2] at h <;> cases h

/-- **the empty sequence, as the code treats it**: with a sample rate set, an empty store counts as
    consistent (the code substitutes `[None]` / `[1]` for the empty lists) -/
theorem checkConsistency_empty (s : Sequence) (hSR : Dict.has s.awgspecs "SR" = true) (h : s.data = []) :
    s.checkConsistency = .ok true := by
  rw [checkConsistency_true_iff_conditions]
  refine ⟨hSR, ⟨.none, ?_⟩, ⟨[], ?_⟩, ?_⟩
  · intro x hx; rw [h] at hx; cases hx
  · intro x hx; rw [h] at hx; cases hx
  · unfold Filled; rw [h]; exact List.Perm.refl _

/-- **"in whatever order they were added", on the store**: two sequences with sample rates whose
    stores hold the same (position, entry) pairs in different orders give the same answer - with no
    proviso on the stored subsequences any more (before D28 an empty stored subsequence made the
    first failing `channels` query in store order decide between False and KeyError; see
    `checkConsistency_order_irrelevant_with_empty_subsequence` for the former counterexample). -/
theorem checkConsistency_store_order_irrelevant (a b : Sequence) (ha : Sequence.ApiBuilt a)
    (hp : a.data.Perm b.data) (hSRa : Dict.has a.awgspecs "SR" = true) (hSRb : Dict.has b.awgspecs "SR" = true) :
    a.checkConsistency = b.checkConsistency :=
  G12.checkConsistency_perm hp (G11.apiBuilt_innerValidated ha) hSRa hSRb
    (G12.noHardError_of_validated (G11.apiBuilt_innerValidated ha))

/-- **"in whatever order they were added", on API histories**: starting from any API-built sequence
    with a sample rate, two lists of `addElement` / `addSubSequence` calls (`AddOp`; each accepted or
    refused) that are permutations of each other and address pairwise distinct positions lead to
    the same answer of `checkConsistency`.  (With a position addressed twice the later call
    overwrites the earlier one, so there the order does matter.) -/
theorem checkConsistency_add_order_irrelevant (s : Sequence) (hs : Sequence.ApiBuilt s)
    (hSR : Dict.has s.awgspecs "SR" = true) (ops ops' : List AddOp) (hb : ∀ op ∈ ops, op.Built)
    (hp : ops.Perm ops') (hnd : (ops.map AddOp.pos).Nodup) :
    (addAll s ops).checkConsistency = (addAll s ops').checkConsistency := by
  apply checkConsistency_store_order_irrelevant _ _ (G12.addAll_built s hs ops hb)
    (G12.addAll_data_perm s (G12.apiBuilt_data_wf hs) hp hnd)
  · rw [G12.addAll_specs]; exact hSR
  · rw [G12.addAll_specs]; exact hSR

/-! ### non-vacuity and the counterexample (G12) -/

/-- a one-channel raw-array element (3 samples at the given rate) -/
def g12El (ch : Chan) (sr : ℚ) : Element := (({} : Element).addArray ch [0, 1, 0] (.num sr) []).st
/-- an empty sequence with sample rate 10 -/
def g12Base : Sequence := SeqCore.setSR {} (.num 10)
/-- positions filled as 2, 1 -/
def g12Ops21 : List AddOp := [.el 2 (g12El (.int 1) 10), .el 1 (g12El (.int 1) 10)]
/-- the same calls in the order 1, 2 -/
def g12Ops12 : List AddOp := [.el 1 (g12El (.int 1) 10), .el 2 (g12El (.int 1) 10)]
/-- a subsequence argument with a hole (only position 2 filled) -/
def g12SubHole : Sequence := addAll g12Base [.el 2 (g12El (.int 1) 10)]

theorem g12El_built (ch : Chan) (sr : ℚ) : Element.ApiBuilt (g12El ch sr) := .addArray _ _ _ _ _ .empty
theorem g12Base_built : Sequence.ApiBuilt g12Base := .setSpec _ _ _ .empty
theorem g12Ops21_built : ∀ op ∈ g12Ops21, op.Built := by
  intro op hop
  simp only [g12Ops21, List.mem_cons, List.not_mem_nil, or_false] at hop
  rcases hop with rfl | rfl <;> exact g12El_built _ _
theorem g12SubHole_built : Sequence.ApiBuilt g12SubHole :=
  G12.addAll_built _ g12Base_built _ (by
    intro op hop
    simp only [List.mem_cons, List.not_mem_nil, or_false] at hop
    subst hop
    exact g12El_built _ _)

/-- non-vacuity of `checkConsistency_built_iff` / `_never_raises` / `_false_iff` / `_elements_never_raises`:
    API-built sequences with a sample rate; positions added as 2, 1 give True; a hole (1, 3),
    deviating channels (1 vs "A") and deviating sample rates (10 vs 20) give False -/
example : Sequence.ApiBuilt (addAll g12Base g12Ops21) ∧ Dict.has (addAll g12Base g12Ops21).awgspecs "SR" = true ∧
    (∀ x ∈ (addAll g12Base g12Ops21).data, ∃ e, x.2 = .el e) ∧
    (addAll g12Base g12Ops21).checkConsistency = .ok true ∧
    (addAll g12Base [.el 1 (g12El (.int 1) 10), .el 3 (g12El (.int 1) 10)]).checkConsistency = .ok false ∧
    (addAll g12Base [.el 1 (g12El (.int 1) 10), .el 2 (g12El (.str "A") 10)]).checkConsistency = .ok false ∧
    (addAll g12Base [.el 1 (g12El (.int 1) 10), .el 2 (g12El (.int 1) 20)]).checkConsistency = .ok false := by
  refine ⟨G12.addAll_built _ g12Base_built _ g12Ops21_built, by decide +kernel, ?_, by decide +kernel,
    by decide +kernel, by decide +kernel, by decide +kernel⟩
  intro x hx
  have hall : (addAll g12Base g12Ops21).data.all
      (fun x => match x.2 with | .el _ => true | .sub _ => false) = true := by decide +kernel
  have hx' := List.all_eq_true.mp hall x hx
  cases hx2 : x.2 with
  | el e => exact ⟨e, rfl⟩
  | sub sq => rw [hx2] at hx'; cases hx'

/-- non-vacuity of `checkConsistency_empty` -/
example : Dict.has g12Base.awgspecs "SR" = true ∧ g12Base.data = [] ∧ g12Base.checkConsistency = .ok true := by
  decide +kernel

/-- non-vacuity of `checkConsistency_add_order_irrelevant`: the calls 2, 1 and 1, 2 -/
example : g12Ops21.Perm g12Ops12 ∧ (g12Ops21.map AddOp.pos).Nodup ∧
    Dict.keys (addAll g12Base g12Ops21).data = [2, 1] ∧ Dict.keys (addAll g12Base g12Ops12).data = [1, 2] := by
  refine ⟨List.Perm.swap _ _ _, by decide, by decide +kernel, by decide +kernel⟩

/-- **the former counterexample** (before the repair `checkConsistency` raised
    SequenceConsistencyError here): an API-built sequence with a sample rate that stores (at
    position 1) a subsequence with a hole now gets False -/
theorem checkConsistency_inconsistent_subsequence_is_false :
    ∃ s : Sequence, Sequence.ApiBuilt s ∧ Dict.has s.awgspecs "SR" = true ∧ SubsSound s ∧
      s.checkConsistency = .ok false := by
  refine ⟨addAll g12Base [.sub 1 g12SubHole],
    G12.addAll_built _ g12Base_built _ (by
      intro op hop
      simp only [List.mem_cons, List.not_mem_nil, or_false] at hop
      subst hop
      exact g12SubHole_built),
    by decide +kernel, ?_, by decide +kernel⟩
  intro x hx sub hx2
  have hall : (addAll g12Base [.sub 1 g12SubHole]).data.all (fun x => match x.2 with
      | .el _ => true
      | .sub q => Dict.has q.awgspecs "SR" && !q.data.isEmpty) = true := by decide +kernel
  have hx' := List.all_eq_true.mp hall x hx
  rw [hx2] at hx'
  simp only [Bool.and_eq_true, Bool.not_eq_eq_eq_not, Bool.not_true] at hx'
  refine ⟨hx'.1, fun hnil => ?_⟩
  rw [hnil] at hx'
  simp at hx'

/-- an empty sequence with sample rate 10, as a subsequence argument -/
def g12SubEmpty : Sequence := g12Base

/-- **the second former counterexample** (D28; before that repair the second line was
    `.error .key` and the store order mattered): an API-built parent with sample rate 10 storing a
    subsequence with a hole and an *empty* subsequence gets False in either store order; so does a
    parent holding an element and an empty subsequence, and one holding the empty subsequence alone -/
theorem checkConsistency_order_irrelevant_with_empty_subsequence :
    (addAll g12Base [.sub 1 g12SubHole, .sub 2 g12SubEmpty]).checkConsistency = .ok false ∧
    (addAll g12Base [.sub 2 g12SubEmpty, .sub 1 g12SubHole]).checkConsistency = .ok false ∧
    (addAll g12Base [.el 1 (g12El (.int 1) 10), .sub 2 g12SubEmpty]).checkConsistency = .ok false ∧
    (addAll g12Base [.sub 1 g12SubEmpty]).checkConsistency = .ok false := by
  refine ⟨?_, ?_, ?_, ?_⟩ <;> decide +kernel

/-- non-vacuity of `subsequence_answers_iff` / `SubsAnswer`: a stored consistent subsequence answers -/
example : (addAll g12Base [.sub 1 (addAll g12Base g12Ops21)]).checkConsistency = .ok true := by
  decide +kernel

end BB.C07
