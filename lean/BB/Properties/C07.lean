/-
  Property C07 — the consistency gate: only gap-free, homogeneous sequences produce output.
-/
import BB.Proofs.Sequence
import BB.Model.Tools

namespace BB.C07
open BB

/-- `checkConsistency` returns True exactly when (i) all entries have the same sample rate,
    (ii) all entries define the same set of channels (compared after int-before-str sorting) and
    (iii) the positions are exactly 1..N — in whatever order they were added. -/
theorem checkConsistency_iff (s : Sequence) (srs : List Val) (chans : List (List Chan))
    (hSR : Dict.has s.awgspecs "SR" = true)
    (h1 : (Dict.vals s.data).mapM Entry.getSR = .ok srs)
    (h2 : (Dict.vals s.data).mapM Entry.channels = .ok chans)
    (hne : Dict.keys s.data ≠ []) :
    s.checkConsistency = .ok true ↔
      Element.allSame srs = true ∧ allEqLast (chans.map channelListSorter) = true ∧
        (Dict.keys s.data).Perm (oneTo (Dict.keys s.data).length) := by
  unfold Sequence.checkConsistency
  simp only [hSR, Bool.not_true, Bool.false_eq_true, if_false, h1, h2]
  by_cases ha : Element.allSame srs = true
  · by_cases hb : allEqLast (chans.map channelListSorter) = true
    · simp only [ha, hb, Bool.not_true, Bool.false_eq_true, if_false, Except.ok.injEq, true_and]
      exact gapFree_iff _ hne
    · simp [ha, hb]
  · simp [ha]

/-- ... and False in every other case in which it returns at all (it raises KeyError when the
    sequence has no sample rate). -/
theorem checkConsistency_total (s : Sequence) (srs : List Val) (chans : List (List Chan))
    (hSR : Dict.has s.awgspecs "SR" = true)
    (h1 : (Dict.vals s.data).mapM Entry.getSR = .ok srs)
    (h2 : (Dict.vals s.data).mapM Entry.channels = .ok chans) :
    s.checkConsistency = .ok true ∨ s.checkConsistency = .ok false := by
  unfold Sequence.checkConsistency
  simp only [hSR, Bool.not_true, Bool.false_eq_true, if_false, h1, h2]
  by_cases ha : Element.allSame srs = true <;> by_cases hb : allEqLast (chans.map channelListSorter) = true <;>
    simp [ha, hb]

/-- The verdict on the positions does not depend on the order in which they were added. -/
theorem positions_order_irrelevant {k₁ k₂ : List ℤ} (h : k₁.Perm k₂) : gapFree k₁ = gapFree k₂ :=
  gapFree_of_perm h

/-- `_channelListSorter` puts ints (ascending) before strings (ascending), so two channel lists
    with the same ints and the same strings compare equal whatever their order. -/
theorem channelListSorter_spec (chs : List Chan) :
    channelListSorter chs =
      (sortBy (fun a b => decide (a ≤ b)) (chs.filterMap (fun c => match c with | .int n => some n | _ => none))).map Chan.int ++
      (sortBy (fun a b => decide (a ≤ b)) (chs.filterMap (fun c => match c with | .str s => some s | _ => none))).map Chan.str := rfl

/-! ### the gate: an inconsistent sequence produces no output -/

theorem forge_refuses (s : Sequence) (d f t : Bool) (h : s.checkConsistency = .ok false) :
    s.forge d f t = .error .value := by
  simp [Sequence.forge, h]

theorem channels_refuses (s : Sequence) (h : s.checkConsistency = .ok false) :
    s.channels = .error .consistency := by
  simp [Sequence.channels, h, bind, Except.bind, throw, throwThe, MonadExceptOf.throw]

theorem prepare_refuses (s : Sequence) (h : s.checkConsistency = .ok false) :
    s.prepareForOutputting = .error .value := by
  simp [Sequence.prepareForOutputting, h, bind, Except.bind, throw, throwThe, MonadExceptOf.throw]

theorem awg_refuses (s : Sequence) (h : s.checkConsistency = .ok false) :
    s.outputForAWGFile.toOption = none := by
  simp [Sequence.outputForAWGFile, prepare_refuses s h, bind, Except.bind, Except.toOption]

theorem seqx_refuses (s : Sequence) (h : s.checkConsistency = .ok false) :
    s.outputForSEQXFile.toOption = none ∧ s.outputForSEQXFileWithFlags.toOption = none := by
  simp [Sequence.outputForSEQXFile, Sequence.outputForSEQXFileWithFlags, prepare_refuses s h, bind, Except.bind,
    Except.toOption]

theorem add_refuses_left (a b : Sequence) (h : a.checkConsistency = .ok false) :
    a.add b = .error .consistency := by
  simp [Sequence.add, h, bind, Except.bind, throw, throwThe, MonadExceptOf.throw]

theorem add_refuses_right (a b : Sequence) (ha : a.checkConsistency = .ok true)
    (h : b.checkConsistency = .ok false) : a.add b = .error .consistency := by
  simp [Sequence.add, ha, h, bind, Except.bind, throw, throwThe, MonadExceptOf.throw]

theorem repeatAndVary_refuses (s : Sequence) (lens : List Nat) (poss : List Int) (vars : List Tools.Variation)
    (h : s.checkConsistency = .ok false) :
    Tools.repeatAndVarySequence s lens poss vars = .error .consistency := by
  simp [Tools.repeatAndVarySequence, h, bind, Except.bind, throw, throwThe, MonadExceptOf.throw]

/-- no sample rate: every one of these operations raises as well -/
theorem no_SR_raises (s : Sequence) (h : Dict.has s.awgspecs "SR" = false) :
    s.checkConsistency = .error .key ∧ (∀ d f t, s.forge d f t = .error .key) ∧
      s.prepareForOutputting = .error .key := by
  have hc : s.checkConsistency = .error .key := by simp [Sequence.checkConsistency, h]
  refine ⟨hc, ?_, ?_⟩
  · intro d f t; simp [Sequence.forge, hc]
  · simp [Sequence.prepareForOutputting, hc, bind, Except.bind]

/-! ### non-vacuity: positions added as 2, 1 are consistent; 1, 3 are not -/

example : gapFree [2, 1] = true ∧ gapFree [1, 3] = false ∧ gapFree [3, 1, 2] = true := by decide +kernel

end BB.C07
