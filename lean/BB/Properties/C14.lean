/-
  Property C14 — AWG5014 package: normalised in-range samples, faithful sequencing, exact slicing.

  `Gen.rescaler`, `Gen.awgMaxBad/MinBad/TwaitBad/NrepBad/JumpBad/GotoBad` are regenerated from
  `Sequence.outputForAWGFile`; `awgRangeCheck`, `awgSeqCheck`, `awgIndex`, `awgSlice` are the
  pieces the model's `outputForAWGFile` / `_AWGOutput.__getitem__` are made of.
-/
import Mathlib.Tactic.FieldSimp
import Mathlib.Tactic.Ring
import Mathlib.Tactic.Linarith
import BB.Model.Sequence
import BB.Proofs.Basic

namespace BB.C14
open BB BB.Sequence

/-- the code's rescaling expression is `(v - offset) / (amplitude / 2)` -/
theorem rescale_spec (v a o : ℚ) (ha : a ≠ 0) : Gen.rescaler v a o = (v - o) / (a / 2) := by
  unfold Gen.rescaler
  field_simp

/-- a voltage inside the channel range is mapped into [-1, 1] -/
theorem rescale_range (v a o : ℚ) (ha : 0 < a) (h1 : o - a / 2 ≤ v) (h2 : v ≤ o + a / 2) :
    -1 ≤ Gen.rescaler v a o ∧ Gen.rescaler v a o ≤ 1 := by
  rw [rescale_spec v a o (ne_of_gt ha)]
  have h : 0 < a / 2 := by linarith
  constructor
  · rw [le_div_iff₀ h]; linarith
  · rw [div_le_iff₀ h]; linarith

/-- the range ends are mapped exactly to -1 and +1 -/
theorem rescale_ends (a o : ℚ) (ha : 0 < a) :
    Gen.rescaler (o - a / 2) a o = -1 ∧ Gen.rescaler (o + a / 2) a o = 1 := by
  have : a ≠ 0 := ne_of_gt ha
  constructor <;> (unfold Gen.rescaler; field_simp; ring)

theorem le_maxR (xs : List ℚ) (x : ℚ) (h : x ∈ xs) : x ≤ maxR xs := by
  induction xs with
  | nil => simp at h
  | cons y ys ih =>
    cases ys with
    | nil => simp at h; subst h; simp [maxR]
    | cons z zs =>
      simp only [maxR]
      simp only [List.mem_cons] at h
      rcases h with rfl | h
      · split <;> rename_i hc
        · exact le_refl _
        · exact not_lt.mp hc
      · have := ih (by simpa using h)
        split <;> rename_i hc
        · exact le_of_lt (lt_of_le_of_lt this hc)
        · exact this

theorem maxR_mem (xs : List ℚ) (hne : xs ≠ []) : maxR xs ∈ xs := by
  induction xs with
  | nil => exact absurd rfl hne
  | cons y ys ih =>
    cases ys with
    | nil => simp [maxR]
    | cons z zs =>
      simp only [maxR]
      split
      · simp
      · exact List.mem_cons_of_mem _ (ih (by simp))

theorem minR_le (xs : List ℚ) (x : ℚ) (h : x ∈ xs) : minR xs ≤ x := by
  induction xs with
  | nil => simp at h
  | cons y ys ih =>
    cases ys with
    | nil => simp at h; subst h; simp [minR]
    | cons z zs =>
      simp only [minR]
      simp only [List.mem_cons] at h
      rcases h with rfl | h
      · split <;> rename_i hc
        · exact le_refl _
        · exact not_lt.mp hc
      · have := ih (by simpa using h)
        split <;> rename_i hc
        · exact le_of_lt (lt_of_lt_of_le hc this)
        · exact this

theorem minR_mem (xs : List ℚ) (hne : xs ≠ []) : minR xs ∈ xs := by
  induction xs with
  | nil => exact absurd rfl hne
  | cons y ys ih =>
    cases ys with
    | nil => simp [minR]
    | cons z zs =>
      simp only [minR]
      split
      · simp
      · exact List.mem_cons_of_mem _ (ih (by simp))

/-- The voltage check passes iff every sample lies in `[offset - amplitude/2, offset + amplitude/2]`;
    otherwise it is a ValueError — nothing is clipped. -/
theorem range_check_iff (xs : List ℚ) (a o : ℚ) (hne : xs ≠ []) :
    (awgRangeCheck xs a o = .ok () ↔ ∀ x ∈ xs, o - a / 2 ≤ x ∧ x ≤ o + a / 2) ∧
    (awgRangeCheck xs a o ≠ .ok () → awgRangeCheck xs a o = .error .value) := by
  unfold awgRangeCheck
  simp only [Gen.awgMaxBad, Gen.awgMinBad, decide_eq_true_eq, gt_iff_lt]
  constructor
  · constructor
    · intro h x hx
      by_cases h1 : a / 2 + o < maxR xs
      · simp [h1] at h
      · by_cases h2 : minR xs < -a / 2 + o
        · simp [h1, h2] at h
        · have := le_maxR xs x hx
          have := minR_le xs x hx
          constructor <;> linarith [not_lt.mp h1, not_lt.mp h2]
    · intro h
      have hmax := (h _ (maxR_mem xs hne)).2
      have hmin := (h _ (minR_mem xs hne)).1
      have h1 : ¬ a / 2 + o < maxR xs := by linarith
      have h2 : ¬ minR xs < -a / 2 + o := by linarith
      simp [h1, h2]
  · intro h
    by_cases h1 : a / 2 + o < maxR xs
    · simp [h1]
    · by_cases h2 : minR xs < -a / 2 + o
      · simp [h1, h2]
      · simp [h1, h2] at h

/-- every delivered (rescaled) sample lies in [-1, 1] -/
theorem delivered_in_unit (xs : List ℚ) (a o : ℚ) (ha : 0 < a) (hne : xs ≠ [])
    (h : awgRangeCheck xs a o = .ok ()) : ∀ x ∈ xs, -1 ≤ Gen.rescaler x a o ∧ Gen.rescaler x a o ≤ 1 := by
  intro x hx
  have := ((range_check_iff xs a o hne).1.mp h) x hx
  exact rescale_range x a o ha this.1 this.2

/-! the regenerated guards, read as ranges (these are the obligations re-checked whenever the
    source of `outputForAWGFile` changes) -/

theorem twait_ok_iff (t : ℤ) : Gen.awgTwaitBad t = false ↔ (t = 0 ∨ t = 1) := by
  simp [Gen.awgTwaitBad]; omega

theorem nrep_ok_iff (n : ℤ) : Gen.awgNrepBad n = false ↔ (0 ≤ n ∧ n ≤ 65536) := by
  simp [Gen.awgNrepBad]; omega

theorem jump_ok_iff (j N : ℤ) : Gen.awgJumpBad j N = false ↔ (-1 ≤ j ∧ j ≤ N) := by
  simp [Gen.awgJumpBad]; omega

theorem goto_ok_iff (g N : ℤ) : Gen.awgGotoBad g N = false ↔ (0 ≤ g ∧ g ≤ N) := by
  simp [Gen.awgGotoBad]; omega

/-- The sequencing check passes iff wait ∈ {0,1}, 0 ≤ repetitions ≤ 65536, -1 ≤ jump target ≤ N and
    0 ≤ goto ≤ N; otherwise it is a SequencingError — nothing is wrapped. -/
theorem seq_check_iff (q : SeqSet) (N : ℤ) :
    (awgSeqCheck q N = .ok () ↔
      (q.twait = 0 ∨ q.twait = 1) ∧ (0 ≤ q.nrep ∧ q.nrep ≤ 65536) ∧ (-1 ≤ q.jump_target ∧ q.jump_target ≤ N) ∧
        (0 ≤ q.goto ∧ q.goto ≤ N)) ∧
    (awgSeqCheck q N ≠ .ok () → awgSeqCheck q N = .error .sequencing) := by
  unfold awgSeqCheck
  rw [← twait_ok_iff, ← nrep_ok_iff, ← jump_ok_iff, ← goto_ok_iff]
  cases Gen.awgTwaitBad q.twait <;> cases Gen.awgNrepBad q.nrep <;> cases Gen.awgJumpBad q.jump_target N <;>
    cases Gen.awgGotoBad q.goto N <;> simp

/-! ### slicing -/

theorem pyRange_unit (a : ℤ) (n : ℕ) : pyRange a (a + n) 1 = (List.range n).map (fun (i : ℕ) => a + (i : ℤ)) := by
  unfold pyRange
  simp only [show (1 : ℤ) > 0 by omega, if_true]
  have : ((a + n - a + 1 - 1) / 1).toNat = n := by simp
  rw [this]
  apply List.map_congr_left; intro i _; ring

/-- `pkg[:]` selects every channel, in `Sequence.channels` order -/
theorem slice_all (n : ℕ) : awgSlice n none none none = .ok (List.range n) := by
  unfold awgSlice
  simp only [Option.getD_none, show (1 : ℤ) ≠ 0 by omega, if_false]
  have := pyRange_unit 0 n
  simp only [zero_add] at this
  rw [this]
  rw [mapM_ok_of_forall _ (fun i => i.toNat)]
  · simp [List.map_map, Function.comp_def]
  · intro x hx
    simp only [List.mem_map, List.mem_range] at hx
    obtain ⟨i, hi, rfl⟩ := hx
    have : (0 : ℤ) ≤ (i : ℤ) ∧ ((i : ℤ)) < (n : ℤ) := by omega
    simp [this]

/-- a slice selects exactly the channels `start, start+step, ... < stop` (all of which must exist) -/
theorem slice_spec (n : ℕ) (a b c : ℤ) (hc : c ≠ 0)
    (hall : ∀ i ∈ pyRange a b c, 0 ≤ i ∧ i < n) :
    awgSlice n (some a) (some b) (some c) = .ok ((pyRange a b c).map Int.toNat) := by
  unfold awgSlice
  simp only [Option.getD_some, hc, if_false]
  apply mapM_ok_of_forall
  intro x hx
  simp [hall x hx]

/-- `pkg[i]` selects channel `i` and equals `pkg[i:i+1]` -/
theorem index_eq_slice (n : ℕ) (i : ℤ) (h0 : 0 ≤ i) (h1 : i < n) :
    awgIndex n i = .ok [i.toNat] ∧ awgSlice n (some i) (some (i + 1)) none = .ok [i.toNat] := by
  constructor
  · simp [awgIndex, h0, h1]
  · unfold awgSlice
    simp only [Option.getD_some, Option.getD_none, show (1 : ℤ) ≠ 0 by omega, if_false]
    have := pyRange_unit i 1
    simp only [Nat.cast_one] at this
    rw [this]
    simp [List.mapM_cons, List.mapM_nil, h0, h1, bind, Except.bind, pure, Except.pure]

/-- an index outside `0..n-1` is a KeyError -/
theorem index_out_of_range (n : ℕ) (i : ℤ) (h : i < 0 ∨ (n : ℤ) ≤ i) : awgIndex n i = .error .key := by
  unfold awgIndex
  have : ¬ (0 ≤ i ∧ i < n) := by omega
  simp [this]

end BB.C14
