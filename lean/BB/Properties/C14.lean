/-
  Property C14 — AWG5014 package: normalised in-range samples, faithful sequencing, exact slicing.

  `Gen.rescaler`, `Gen.awgMaxBad/MinBad/TwaitBad/NrepBad/JumpBad/GotoBad` are regenerated from
  `Sequence.outputForAWGFile`; `awgRangeCheck`, `awgSeqCheck`, `awgIndex`, `awgSlice` are the
  pieces the model's `outputForAWGFile` / `_AWGOutput.__getitem__` are made of.
-/
import Mathlib.Tactic.FieldSimp
import Mathlib.Tactic.Ring
import Mathlib.Tactic.Linarith
import BB.Model.Sequence
import BB.Proofs.Basic

namespace BB.C14
open BB BB.Sequence

/-- the code's rescaling expression is `(v - offset) / (amplitude / 2)` -/
theorem rescale_spec (v a o : ℚ) (ha : a ≠ 0) : Gen.rescaler v a o = (v - o) / (a / 2) := by
  unfold Gen.rescaler
  field_simp

/-- a voltage inside the channel range is mapped into [-1, 1] -/
theorem rescale_range (v a o : ℚ) (ha : 0 < a) (h1 : o - a / 2 ≤ v) (h2 : v ≤ o + a / 2) :
    -1 ≤ Gen.rescaler v a o ∧ Gen.rescaler v a o ≤ 1 := by
  rw [rescale_spec v a o (ne_of_gt ha)]
  have h : 0 < a / 2 := by linarith
  constructor
  · rw [le_div_iff₀ h]; linarith
  · rw [div_le_iff₀ h]; linarith

/-- the range ends are mapped exactly to -1 and +1 -/
theorem rescale_ends (a o : ℚ) (ha : 0 < a) :
    Gen.rescaler (o - a / 2) a o = -1 ∧ Gen.rescaler (o + a / 2) a o = 1 := by
  have : a ≠ 0 := ne_of_gt ha
  constructor <;> (unfold Gen.rescaler; field_simp; ring)

theorem le_maxR (xs : List ℚ) (x : ℚ) (h : x ∈ xs) : x ≤ maxR xs := by
  induction xs with
  | nil => simp at h
  | cons y ys ih =>
    cases ys with
    | nil => simp at h; subst h; simp [maxR]
    | cons z zs =>
      simp only [maxR]
      simp only [List.mem_cons] at h
      rcases h with rfl | h
      · split <;> rename_i hc
        · exact le_refl _
        · exact not_lt.mp hc
      · have := ih (by simpa using h)
        split <;> rename_i hc
        · exact le_of_lt (lt_of_le_of_lt this hc)
        · exact this

theorem maxR_mem (xs : List ℚ) (hne : xs ≠ []) : maxR xs ∈ xs := by
  induction xs with
  | nil => exact absurd rfl hne
  | cons y ys ih =>
    cases ys with
    | nil => simp [maxR]
    | cons z zs =>
      simp only [maxR]
      split
      · simp
      · exact List.mem_cons_of_mem _ (ih (by simp))

theorem minR_le (xs : List ℚ) (x : ℚ) (h : x ∈ xs) : minR xs ≤ x := by
  induction xs with
  | nil => simp at h
  | cons y ys ih =>
    cases ys with
    | nil => simp at h; subst h; simp [minR]
    | cons z zs =>
      simp only [minR]
      simp only [List.mem_cons] at h
      rcases h with rfl | h
      · split <;> rename_i hc
        · exact le_refl _
        · exact not_lt.mp hc
      · have := ih (by simpa using h)
        split <;> rename_i hc
        · exact le_of_lt (lt_of_lt_of_le hc this)
        · exact this

theorem minR_mem (xs : List ℚ) (hne : xs ≠ []) : minR xs ∈ xs := by
  induction xs with
  | nil => exact absurd rfl hne
  | cons y ys ih =>
    cases ys with
    | nil => simp [minR]
    | cons z zs =>
      simp only [minR]
      split
      · simp
      · exact List.mem_cons_of_mem _ (ih (by simp))

/-- The voltage check passes iff every sample lies in `[offset - amplitude/2, offset + amplitude/2]`;
    otherwise it is a ValueError — nothing is clipped. -/
theorem range_check_iff (xs : List ℚ) (a o : ℚ) (hne : xs ≠ []) :
    (awgRangeCheck xs a o = .ok () ↔ ∀ x ∈ xs, o - a / 2 ≤ x ∧ x ≤ o + a / 2) ∧
    (awgRangeCheck xs a o ≠ .ok () → awgRangeCheck xs a o = .error .value) := by
  unfold awgRangeCheck
  simp only [Gen.awgMaxBad, Gen.awgMinBad, decide_eq_true_eq, gt_iff_lt]
  constructor
  · constructor
    · intro h x hx
      by_cases h1 : a / 2 + o < maxR xs
      · simp [h1] at h
      · by_cases h2 : minR xs < -a / 2 + o
        · simp [h1, h2] at h
        · have := le_maxR xs x hx
          have := minR_le xs x hx
          constructor <;> linarith [not_lt.mp h1, not_lt.mp h2]
    · intro h
      have hmax := (h _ (maxR_mem xs hne)).2
      have hmin := (h _ (minR_mem xs hne)).1
      have h1 : ¬ a / 2 + o < maxR xs := by linarith
      have h2 : ¬ minR xs < -a / 2 + o := by linarith
      simp [h1, h2]
  · intro h
    by_cases h1 : a / 2 + o < maxR xs
    · simp [h1]
    · by_cases h2 : minR xs < -a / 2 + o
      · simp [h1, h2]
      · simp [h1, h2] at h

/-- every delivered (rescaled) sample lies in [-1, 1] -/
theorem delivered_in_unit (xs : List ℚ) (a o : ℚ) (ha : 0 < a) (hne : xs ≠ [])
    (h : awgRangeCheck xs a o = .ok ()) : ∀ x ∈ xs, -1 ≤ Gen.rescaler x a o ∧ Gen.rescaler x a o ≤ 1 := by
  intro x hx
  have := ((range_check_iff xs a o hne).1.mp h) x hx
  exact rescale_range x a o ha this.1 this.2

/-! the regenerated guards, read as ranges (these are the obligations re-checked whenever the
    source of `outputForAWGFile` changes) -/

theorem twait_ok_iff (t : ℤ) : Gen.awgTwaitBad t = false ↔ (t = 0 ∨ t = 1) := by
  simp [Gen.awgTwaitBad]; omega

theorem nrep_ok_iff (n : ℤ) : Gen.awgNrepBad n = false ↔ (0 ≤ n ∧ n ≤ 65536) := by
  simp [Gen.awgNrepBad]; omega

theorem jump_ok_iff (j N : ℤ) : Gen.awgJumpBad j N = false ↔ (-1 ≤ j ∧ j ≤ N) := by
  simp [Gen.awgJumpBad]; omega

theorem goto_ok_iff (g N : ℤ) : Gen.awgGotoBad g N = false ↔ (0 ≤ g ∧ g ≤ N) := by
  simp [Gen.awgGotoBad]; omega

/-- The sequencing check passes iff wait ∈ {0,1}, 0 ≤ repetitions ≤ 65536, -1 ≤ jump target ≤ N and
    0 ≤ goto ≤ N; otherwise it is a SequencingError — nothing is wrapped. -/
theorem seq_check_iff (q : SeqSet) (N : ℤ) :
    (awgSeqCheck q N = .ok () ↔
      (q.twait = 0 ∨ q.twait = 1) ∧ (0 ≤ q.nrep ∧ q.nrep ≤ 65536) ∧ (-1 ≤ q.jump_target ∧ q.jump_target ≤ N) ∧
        (0 ≤ q.goto ∧ q.goto ≤ N)) ∧
    (awgSeqCheck q N ≠ .ok () → awgSeqCheck q N = .error .sequencing) := by
  unfold awgSeqCheck
  rw [← twait_ok_iff, ← nrep_ok_iff, ← jump_ok_iff, ← goto_ok_iff]
  cases Gen.awgTwaitBad q.twait <;> cases Gen.awgNrepBad q.nrep <;> cases Gen.awgJumpBad q.jump_target N <;>
    cases Gen.awgGotoBad q.goto N <;> simp

/-! ### slicing -/

theorem pyRange_unit (a : ℤ) (n : ℕ) : pyRange a (a + n) 1 = (List.range n).map (fun (i : ℕ) => a + (i : ℤ)) := by
  unfold pyRange
  simp only [show (1 : ℤ) > 0 by omega, if_true]
  have : ((a + n - a + 1 - 1) / 1).toNat = n := by simp
  rw [this]
  apply List.map_congr_left; intro i _; ring

/-- `pkg[:]` selects every channel, in `Sequence.channels` order -/
theorem slice_all (n : ℕ) : awgSlice n none none none = .ok (List.range n) := by
  unfold awgSlice
  simp only [Option.getD_none, show (1 : ℤ) ≠ 0 by omega, if_false]
  have := pyRange_unit 0 n
  simp only [zero_add] at this
  rw [this]
  rw [mapM_ok_of_forall _ (fun i => i.toNat)]
  · simp [List.map_map, Function.comp_def]
  · intro x hx
    simp only [List.mem_map, List.mem_range] at hx
    obtain ⟨i, hi, rfl⟩ := hx
    have : (0 : ℤ) ≤ (i : ℤ) ∧ ((i : ℤ)) < (n : ℤ) := by omega
    simp [this]

/-- a slice selects exactly the channels `start, start+step, ... < stop` (all of which must exist) -/
theorem slice_spec (n : ℕ) (a b c : ℤ) (hc : c ≠ 0)
    (hall : ∀ i ∈ pyRange a b c, 0 ≤ i ∧ i < n) :
    awgSlice n (some a) (some b) (some c) = .ok ((pyRange a b c).map Int.toNat) := by
  unfold awgSlice
  simp only [Option.getD_some, hc, if_false]
  apply mapM_ok_of_forall
  intro x hx
  simp [hall x hx]

/-- `pkg[i]` selects channel `i` and equals `pkg[i:i+1]` -/
theorem index_eq_slice (n : ℕ) (i : ℤ) (h0 : 0 ≤ i) (h1 : i < n) :
    awgIndex n i = .ok [i.toNat] ∧ awgSlice n (some i) (some (i + 1)) none = .ok [i.toNat] := by
  constructor
  · simp [awgIndex, h0, h1]
  · unfold awgSlice
    simp only [Option.getD_some, Option.getD_none, show (1 : ℤ) ≠ 0 by omega, if_false]
    have := pyRange_unit i 1
    simp only [Nat.cast_one] at this
    rw [this]
    simp [List.mapM_cons, List.mapM_nil, h0, h1, bind, Except.bind, pure, Except.pure]

/-- an index outside `0..n-1` is a KeyError -/
theorem index_out_of_range (n : ℕ) (i : ℤ) (h : i < 0 ∨ (n : ℤ) ≤ i) : awgIndex n i = .error .key := by
  unfold awgIndex
  have : ¬ (0 ≤ i ∧ i < n) := by omega
  simp [this]

/-! ### the package mirrors the forged elements, position by position and channel by channel -/

theorem transpose_getElem? {α : Type} (nCh : ℕ) (rows : List (List α)) (hall : ∀ r ∈ rows, r.length = nCh)
    (i : ℕ) (hi : i < nCh) (p : ℕ) (hp : p < rows.length) :
    ((transpose nCh rows)[i]?).bind (·[p]?) = (rows[p]?).bind (·[i]?) := by
  unfold transpose
  simp only [List.getElem?_map, List.getElem?_range hi, Option.map_some, Option.bind_some]
  have hfm : ∀ (dflt : α) (l : List (List α)), (∀ r ∈ l, r.length = nCh) →
      l.filterMap (fun r => r[i]?) = l.map (fun r => (r[i]?).getD dflt) := by
    intro dflt l
    induction l with
    | nil => intro _; rfl
    | cons r rs ih =>
      intro hl
      have hr : i < r.length := by rw [hl r (by simp)]; exact hi
      simp only [List.filterMap_cons, List.getElem?_eq_getElem hr, List.map_cons, Option.getD_some]
      rw [ih (fun r' hr' => hl r' (by simp [hr']))]
  have hr0 : i < (rows[p]).length := by rw [hall _ (List.getElem_mem hp)]; exact hi
  rw [hfm (rows[p][i]) rows hall]
  have hr : i < (rows[p]).length := hr0
  simp [List.getElem?_eq_getElem hp, List.getElem?_eq_getElem hr]

/-- a waveform passes phase 1 iff both AWG settings are numbers, the channel exists in the forged
    element and — when its samples are decidable in the model — they lie in the channel's range;
    the stored waveform is the forged one tagged with the rescaling (amplitude, offset) -/
theorem awgCheckWave_ok (s : Sequence) (pos : ℕ) (el : Dict Chan ChOutF) (ch : Chan) (ob : List RangeOb) (w : Wave)
    (h : awgCheckWave s pos el ch = .ok (ob, w)) :
    ∃ ampl off c w0, s.specNum (keyOf ch "amplitude") = some ampl ∧ s.specNum (keyOf ch "offset") = some off ∧
      lookupCh el ch = .ok c ∧ chWave c = .ok w0 ∧ w = { w0 with resc := some (ampl, off) } ∧
      (∀ xs, w0.eval? = some xs → awgRangeCheck xs ampl off = .ok () ∧ ob = []) ∧
      (w0.eval? = none → ob = [⟨pos, ch, w0, -ampl / 2 + off, ampl / 2 + off⟩]) := by
  unfold awgCheckWave at h
  split at h
  · cases h
  · rename_i ampl hampl
    split at h
    · cases h
    · rename_i off hoff
      split at h
      · cases h
      · rename_i c hc
        split at h
        · cases h
        · rename_i w0 hw0
          refine ⟨ampl, off, c, w0, hampl, hoff, hc, hw0, ?_⟩
          split at h
          · rename_i xs hxs
            cases hr : awgRangeCheck xs ampl off with
            | error e => rw [hr] at h; cases h
            | ok u =>
              rw [hr] at h
              simp only [Except.map, Except.ok.injEq, Prod.mk.injEq] at h
              refine ⟨h.2.symm, ?_, ?_⟩
              · intro xs' hxs'
                rw [hxs] at hxs'
                cases hxs'
                exact ⟨hr, h.1.symm⟩
              · intro hn; rw [hn] at hxs; cases hxs
          · rename_i hnone
            simp only [Except.ok.injEq, Prod.mk.injEq] at h
            refine ⟨h.2.symm, ?_, ?_⟩
            · intro xs hxs; rw [hnone] at hxs; cases hxs
            · intro _; exact h.1.symm

/-- **what `outputForAWGFile` delivers**: with `P` the per-position forged elements of
    `_prepareForOutputting` (equal to `forge(True, True)` by C10's `output_path_equals_forge`) and
    `chans` the channels of element 1 (each with an offset setting), the package holds for channel
    `i` and position `p` the waveform `awgCheckWave` accepted for `chans[i]` of `P[p]` (see
    `awgCheckWave_ok`: in range, tagged with the rescaling), marker 1 and marker 2 of that
    channel, and the four sequencing lists hold, in position order, the values of a sequencing
    entry that passed the AWG5014 checks -/
theorem awg_content (s : Sequence) (d : Deferred AWGPkg) (pkg : AWGPkg)
    (h : s.outputForAWGFile = .ok d) (hp : d.pkg = some pkg) :
    ∃ (P : List (Dict Chan ChOutF)) (chans : List Chan),
      s.prepareForOutputting = .ok P ∧ s.channels = .ok pkg.channels ∧
      (∀ ch ∈ chans, Dict.has s.awgspecs (keyOf ch "offset") = true) ∧
      (∀ i p, i < chans.length → p < P.length → ∃ ob w,
          (P[p]?).bind (fun el => (chans[i]?).map (awgCheckWave s (p + 1) el)) = some (.ok (ob, w)) ∧
          ((pkg.wfms[i]?).bind (·[p]?)) = some w) ∧
      (∀ p, p < P.length → ∃ m1 m2 q, (P[p]?).map (fun el => awgRow s chans (P.length : ℤ) (el, p)) = some (.ok (m1, m2, q)) ∧
          Dict.get? s.sequencing ((p + 1 : ℕ) : ℤ) = some q ∧ awgSeqCheck q (P.length : ℤ) = .ok () ∧
          m1.length = chans.length ∧ m2.length = chans.length ∧
          (∀ i, i < chans.length → (pkg.m1s[i]?).bind (·[p]?) = m1[i]? ∧ (pkg.m2s[i]?).bind (·[p]?) = m2[i]?) ∧
          pkg.trig_waits[p]? = some q.twait ∧ pkg.nreps[p]? = some q.nrep ∧
          pkg.jump_tos[p]? = some q.jump_target ∧ pkg.gotos[p]? = some q.goto) := by
  unfold outputForAWGFile at h
  split at h
  · cases h
  · rename_i P hP
    split at h
    · cases h
    · split at h
      · cases h
      · rename_i chans _
        split at h
        · cases h
        · rename_i hoffs
          split at h
          · cases h
          · rename_i checked hchecked
            simp only at h
            split at h
            · split at h
              · cases h
              · cases h; cases hp
            · rename_i rows hrows
              split at h
              · cases h
              · rename_i chs hchs
                cases h
                simp only [Option.some.injEq] at hp
                subst hp
                have hl := mapM_ok_length _ _ _ hrows
                have hlc := mapM_ok_length _ _ _ hchecked
                simp only [List.length_zip, List.length_range, Nat.min_self] at hl hlc
                refine ⟨P, chans, hP, hchs, ?_, ?_, ?_⟩
                · intro ch hch
                  simp only [List.any_eq_true, not_exists, not_and, Bool.not_eq_true', Bool.not_eq_true] at hoffs
                  have := hoffs ch hch
                  simpa using this
                · intro i p hi hpp
                  have hz : p < (P.zip (List.range P.length)).length := by simp; exact hpp
                  have hr : p < checked.length := by omega
                  have er := mapM_ok_getElem _ _ _ hchecked p hz hr
                  simp only [List.getElem_zip, List.getElem_range] at er
                  have hrl := mapM_ok_length _ _ _ er
                  have hi' : i < (checked[p]).length := by omega
                  have ec := mapM_ok_getElem _ _ _ er i hi hi'
                  refine ⟨(checked[p])[i].1, (checked[p])[i].2, ?_, ?_⟩
                  · simp [List.getElem?_eq_getElem hpp, List.getElem?_eq_getElem hi, ec]
                  · have hall : ∀ r ∈ checked.map (fun row => row.map (·.2)), r.length = chans.length := by
                      intro r hr'
                      obtain ⟨x, hx, rfl⟩ := List.mem_map.mp hr'
                      obtain ⟨k, hk, rfl⟩ := List.getElem_of_mem hx
                      have hzk : k < (P.zip (List.range P.length)).length := by simp; omega
                      have ek := mapM_ok_getElem _ _ _ hchecked k hzk hk
                      simp only [List.length_map]
                      exact mapM_ok_length _ _ _ ek
                    have := transpose_getElem? chans.length (checked.map (fun row => row.map (·.2))) hall i hi p (by simpa using hr)
                    simp only [awgPackage]
                    rw [this]
                    simp [List.getElem?_eq_getElem hr, List.getElem?_eq_getElem hi']
                · intro p hpp
                  have hz : p < (P.zip (List.range P.length)).length := by simp; exact hpp
                  have hr : p < rows.length := by omega
                  have er := mapM_ok_getElem _ _ _ hrows p hz hr
                  simp only [List.getElem_zip, List.getElem_range] at er
                  have er0 := er
                  unfold awgRow at er
                  simp only at er
                  split at er
                  · cases er
                  · rename_i m1 hm1
                    split at er
                    · cases er
                    · rename_i m2 hm2
                      split at er
                      · cases er
                      · rename_i q hq
                        split at er
                        · cases er
                        · rename_i hchk
                          simp only [Except.ok.injEq] at er
                          have hl1 := mapM_ok_length _ _ _ hm1
                          have hl2 := mapM_ok_length _ _ _ hm2
                          refine ⟨m1, m2, q, ?_, hq, hchk, hl1, hl2, ?_, ?_⟩
                          · simp only [List.getElem?_eq_getElem hpp, Option.map_some]
                            rw [er0, ← er]
                          · intro i hi
                            have rowlen : ∀ k (hk : k < rows.length), (rows[k]).1.length = chans.length ∧ (rows[k]).2.1.length = chans.length := by
                              intro k hk
                              have hzk : k < (P.zip (List.range P.length)).length := by simp; omega
                              have ek := mapM_ok_getElem _ _ _ hrows k hzk hk
                              unfold awgRow at ek
                              split at ek
                              · cases ek
                              · rename_i a ha
                                split at ek
                                · cases ek
                                · rename_i b hb
                                  split at ek
                                  · cases ek
                                  · split at ek
                                    · cases ek
                                    · simp only [Except.ok.injEq] at ek
                                      rw [← ek]
                                      exact ⟨mapM_ok_length _ _ _ ha, mapM_ok_length _ _ _ hb⟩
                            have hall1 : ∀ r ∈ rows.map (·.1), r.length = chans.length := by
                              intro r hr'
                              obtain ⟨x, hx, rfl⟩ := List.mem_map.mp hr'
                              obtain ⟨k, hk, rfl⟩ := List.getElem_of_mem hx
                              exact (rowlen k hk).1
                            have hall2 : ∀ r ∈ rows.map (·.2.1), r.length = chans.length := by
                              intro r hr'
                              obtain ⟨x, hx, rfl⟩ := List.mem_map.mp hr'
                              obtain ⟨k, hk, rfl⟩ := List.getElem_of_mem hx
                              exact (rowlen k hk).2
                            have t1 := transpose_getElem? chans.length (rows.map (·.1)) hall1 i hi p (by simpa using hr)
                            have t2 := transpose_getElem? chans.length (rows.map (·.2.1)) hall2 i hi p (by simpa using hr)
                            simp only [awgPackage]
                            rw [t1, t2]
                            simp [List.getElem?_eq_getElem hr, ← er]
                          · simp only [awgPackage, List.getElem?_map, List.getElem?_eq_getElem hr, ← er, Option.map_some]
                            exact ⟨trivial, trivial, trivial, trivial⟩

end BB.C14
