/-
  Property C14 — AWG5014 package: normalised in-range samples, faithful sequencing, exact slicing.

  `Gen.rescaler`, `Gen.awgMaxBad/MinBad/TwaitBad/NrepBad/JumpBad/GotoBad` are regenerated from
  `Sequence.outputForAWGFile`; `awgRangeCheck`, `awgSeqCheck`, `awgIndex`, `awgSlice` are the
  pieces the model's `outputForAWGFile` / `_AWGOutput.__getitem__` are made of.
-/
import Mathlib.Tactic.FieldSimp
import Mathlib.Tactic.Ring
import Mathlib.Tactic.Linarith
import BB.Model.Sequence
import BB.Proofs.Basic
import BB.Proofs.G3Awg
import BB.Model.Codec
import BB.Proofs.G3Check
import BB.Proofs.G3Cells
import BB.Properties.C10
import BB.Proofs.G9Cells
import BB.Proofs.G9Ex

namespace BB.C14
open BB BB.Sequence

/-- the code's rescaling expression is `(v - offset) / (amplitude / 2)` -/
theorem rescale_spec (v a o : ℚ) (ha : a ≠ 0) : Gen.rescaler v a o = (v - o) / (a / 2) := by
  unfold Gen.rescaler
  field_simp

/-- a voltage inside the channel range is mapped into [-1, 1] -/
theorem rescale_range (v a o : ℚ) (ha : 0 < a) (h1 : o - a / 2 ≤ v) (h2 : v ≤ o + a / 2) :
    -1 ≤ Gen.rescaler v a o ∧ Gen.rescaler v a o ≤ 1 := by
  rw [rescale_spec v a o (ne_of_gt ha)]
  have h : 0 < a / 2 := by linarith
  constructor
  · rw [le_div_iff₀ h]; linarith
  · rw [div_le_iff₀ h]; linarith

/-- the range ends are mapped exactly to -1 and +1 -/
theorem rescale_ends (a o : ℚ) (ha : 0 < a) :
    Gen.rescaler (o - a / 2) a o = -1 ∧ Gen.rescaler (o + a / 2) a o = 1 := by
  have : a ≠ 0 := ne_of_gt ha
  constructor <;> (unfold Gen.rescaler; field_simp; ring)

theorem le_maxR (xs : List ℚ) (x : ℚ) (h : x ∈ xs) : x ≤ maxR xs := by
  induction xs with
  | nil => simp at h
  | cons y ys ih =>
    cases ys with
    | nil => simp at h; subst h; simp [maxR]
    | cons z zs =>
      simp only [maxR]
      simp only [List.mem_cons] at h
      rcases h with rfl | h
      · split <;> rename_i hc
        · exact le_refl _
        · exact not_lt.mp hc
      · have := ih (by simpa using h)
        split <;> rename_i hc
        · exact le_of_lt (lt_of_le_of_lt this hc)
        · exact this

theorem maxR_mem (xs : List ℚ) (hne : xs ≠ []) : maxR xs ∈ xs := by
  induction xs with
  | nil => exact absurd rfl hne
  | cons y ys ih =>
    cases ys with
    | nil => simp [maxR]
    | cons z zs =>
      simp only [maxR]
      split
      · simp
      · exact List.mem_cons_of_mem _ (ih (by simp))

theorem minR_le (xs : List ℚ) (x : ℚ) (h : x ∈ xs) : minR xs ≤ x := by
  induction xs with
  | nil => simp at h
  | cons y ys ih =>
    cases ys with
    | nil => simp at h; subst h; simp [minR]
    | cons z zs =>
      simp only [minR]
      simp only [List.mem_cons] at h
      rcases h with rfl | h
      · split <;> rename_i hc
        · exact le_refl _
        · exact not_lt.mp hc
      · have := ih (by simpa using h)
        split <;> rename_i hc
        · exact le_of_lt (lt_of_lt_of_le hc this)
        · exact this

theorem minR_mem (xs : List ℚ) (hne : xs ≠ []) : minR xs ∈ xs := by
  induction xs with
  | nil => exact absurd rfl hne
  | cons y ys ih =>
    cases ys with
    | nil => simp [minR]
    | cons z zs =>
      simp only [minR]
      split
      · simp
      · exact List.mem_cons_of_mem _ (ih (by simp))

/-- The voltage check passes iff every sample lies in `[offset - amplitude/2, offset + amplitude/2]`;
    otherwise it is a ValueError — nothing is clipped. -/
theorem range_check_iff (xs : List ℚ) (a o : ℚ) (hne : xs ≠ []) :
    (awgRangeCheck xs a o = .ok () ↔ ∀ x ∈ xs, o - a / 2 ≤ x ∧ x ≤ o + a / 2) ∧
    (awgRangeCheck xs a o ≠ .ok () → awgRangeCheck xs a o = .error .value) := by
  unfold awgRangeCheck
  simp only [Gen.awgMaxBad, Gen.awgMinBad, decide_eq_true_eq, gt_iff_lt]
  constructor
  · constructor
    · intro h x hx
      by_cases h1 : a / 2 + o < maxR xs
      · simp [h1] at h
      · by_cases h2 : minR xs < -a / 2 + o
        · simp [h1, h2] at h
        · have := le_maxR xs x hx
          have := minR_le xs x hx
          constructor <;> linarith [not_lt.mp h1, not_lt.mp h2]
    · intro h
      have hmax := (h _ (maxR_mem xs hne)).2
      have hmin := (h _ (minR_mem xs hne)).1
      have h1 : ¬ a / 2 + o < maxR xs := by linarith
      have h2 : ¬ minR xs < -a / 2 + o := by linarith
      simp [h1, h2]
  · intro h
    by_cases h1 : a / 2 + o < maxR xs
    · simp [h1]
    · by_cases h2 : minR xs < -a / 2 + o
      · simp [h1, h2]
      · simp [h1, h2] at h

/-- every delivered (rescaled) sample lies in [-1, 1] -/
theorem delivered_in_unit (xs : List ℚ) (a o : ℚ) (ha : 0 < a) (hne : xs ≠ [])
    (h : awgRangeCheck xs a o = .ok ()) : ∀ x ∈ xs, -1 ≤ Gen.rescaler x a o ∧ Gen.rescaler x a o ≤ 1 := by
  intro x hx
  have := ((range_check_iff xs a o hne).1.mp h) x hx
  exact rescale_range x a o ha this.1 this.2

/-! the regenerated guards, read as ranges (these are the obligations re-checked whenever the
    source of `outputForAWGFile` changes) -/

theorem twait_ok_iff (t : ℤ) : Gen.awgTwaitBad t = false ↔ (t = 0 ∨ t = 1) := by
  simp [Gen.awgTwaitBad]; omega

theorem nrep_ok_iff (n : ℤ) : Gen.awgNrepBad n = false ↔ (0 ≤ n ∧ n ≤ 65536) := by
  simp [Gen.awgNrepBad]; omega

theorem jump_ok_iff (j N : ℤ) : Gen.awgJumpBad j N = false ↔ (-1 ≤ j ∧ j ≤ N) := by
  simp [Gen.awgJumpBad]; omega

theorem goto_ok_iff (g N : ℤ) : Gen.awgGotoBad g N = false ↔ (0 ≤ g ∧ g ≤ N) := by
  simp [Gen.awgGotoBad]; omega

/-- The sequencing check passes iff wait ∈ {0,1}, 0 ≤ repetitions ≤ 65536, -1 ≤ jump target ≤ N and
    0 ≤ goto ≤ N; otherwise it is a SequencingError — nothing is wrapped. -/
theorem seq_check_iff (q : SeqSet) (N : ℤ) :
    (awgSeqCheck q N = .ok () ↔
      (q.twait = 0 ∨ q.twait = 1) ∧ (0 ≤ q.nrep ∧ q.nrep ≤ 65536) ∧ (-1 ≤ q.jump_target ∧ q.jump_target ≤ N) ∧
        (0 ≤ q.goto ∧ q.goto ≤ N)) ∧
    (awgSeqCheck q N ≠ .ok () → awgSeqCheck q N = .error .sequencing) := by
  unfold awgSeqCheck
  rw [← twait_ok_iff, ← nrep_ok_iff, ← jump_ok_iff, ← goto_ok_iff]
  cases Gen.awgTwaitBad q.twait <;> cases Gen.awgNrepBad q.nrep <;> cases Gen.awgJumpBad q.jump_target N <;>
    cases Gen.awgGotoBad q.goto N <;> simp

/-! ### slicing -/

theorem pyRange_unit (a : ℤ) (n : ℕ) : pyRange a (a + n) 1 = (List.range n).map (fun (i : ℕ) => a + (i : ℤ)) := by
  unfold pyRange
  simp only [show (1 : ℤ) > 0 by omega, if_true]
  have : ((a + n - a + 1 - 1) / 1).toNat = n := by simp
  rw [this]
  apply List.map_congr_left; intro i _; ring

/-- `pkg[:]` selects every channel, in `Sequence.channels` order -/
theorem slice_all (n : ℕ) : awgSlice n none none none = .ok (List.range n) := by
  unfold awgSlice
  simp only [Option.getD_none, show (1 : ℤ) ≠ 0 by omega, if_false]
  have := pyRange_unit 0 n
  simp only [zero_add] at this
  rw [this]
  rw [mapM_ok_of_forall _ (fun i => i.toNat)]
  · simp [List.map_map, Function.comp_def]
  · intro x hx
    simp only [List.mem_map, List.mem_range] at hx
    obtain ⟨i, hi, rfl⟩ := hx
    have : (0 : ℤ) ≤ (i : ℤ) ∧ ((i : ℤ)) < (n : ℤ) := by omega
    simp [this]

/-- a slice selects exactly the channels `start, start+step, ... < stop` (all of which must exist) -/
theorem slice_spec (n : ℕ) (a b c : ℤ) (hc : c ≠ 0)
    (hall : ∀ i ∈ pyRange a b c, 0 ≤ i ∧ i < n) :
    awgSlice n (some a) (some b) (some c) = .ok ((pyRange a b c).map Int.toNat) := by
  unfold awgSlice
  simp only [Option.getD_some, hc, if_false]
  apply mapM_ok_of_forall
  intro x hx
  simp [hall x hx]

/-- `pkg[i]` selects channel `i` and equals `pkg[i:i+1]` -/
theorem index_eq_slice (n : ℕ) (i : ℤ) (h0 : 0 ≤ i) (h1 : i < n) :
    awgIndex n i = .ok [i.toNat] ∧ awgSlice n (some i) (some (i + 1)) none = .ok [i.toNat] := by
  constructor
  · simp [awgIndex, h0, h1]
  · unfold awgSlice
    simp only [Option.getD_some, Option.getD_none, show (1 : ℤ) ≠ 0 by omega, if_false]
    have := pyRange_unit i 1
    simp only [Nat.cast_one] at this
    rw [this]
    simp [List.mapM_cons, List.mapM_nil, h0, h1, bind, Except.bind, pure, Except.pure]

/-- an index outside `0..n-1` is a KeyError -/
theorem index_out_of_range (n : ℕ) (i : ℤ) (h : i < 0 ∨ (n : ℤ) ≤ i) : awgIndex n i = .error .key := by
  unfold awgIndex
  have : ¬ (0 ≤ i ∧ i < n) := by omega
  simp [this]

/-! ### the package mirrors the forged elements, position by position and channel by channel -/

theorem transpose_getElem? {α : Type} (nCh : ℕ) (rows : List (List α)) (hall : ∀ r ∈ rows, r.length = nCh)
    (i : ℕ) (hi : i < nCh) (p : ℕ) (hp : p < rows.length) :
    ((transpose nCh rows)[i]?).bind (·[p]?) = (rows[p]?).bind (·[i]?) := by
  unfold transpose
  simp only [List.getElem?_map, List.getElem?_range hi, Option.map_some, Option.bind_some]
  have hfm : ∀ (dflt : α) (l : List (List α)), (∀ r ∈ l, r.length = nCh) →
      l.filterMap (fun r => r[i]?) = l.map (fun r => (r[i]?).getD dflt) := by
    intro dflt l
    induction l with
    | nil => intro _; rfl
    | cons r rs ih =>
      intro hl
      have hr : i < r.length := by rw [hl r (by simp)]; exact hi
      simp only [List.filterMap_cons, List.getElem?_eq_getElem hr, List.map_cons, Option.getD_some]
      rw [ih (fun r' hr' => hl r' (by simp [hr']))]
  have hr0 : i < (rows[p]).length := by rw [hall _ (List.getElem_mem hp)]; exact hi
  rw [hfm (rows[p][i]) rows hall]
  have hr : i < (rows[p]).length := hr0
  simp [List.getElem?_eq_getElem hp, List.getElem?_eq_getElem hr]

/-- a waveform passes phase 1 iff both AWG settings are numbers, the channel exists in the forged
    element and — when its samples are decidable in the model — they lie in the channel's range;
    the stored waveform is the forged one tagged with the rescaling (amplitude, offset) -/
theorem awgCheckWave_ok (s : Sequence) (pos : ℕ) (el : Dict Chan ChOutF) (ch : Chan) (ob : List RangeOb) (w : Wave)
    (h : awgCheckWave s pos el ch = .ok (ob, w)) :
    ∃ ampl off c w0, s.specNum (keyOf ch "amplitude") = some ampl ∧ s.specNum (keyOf ch "offset") = some off ∧
      lookupCh el ch = .ok c ∧ chWave c = .ok w0 ∧ w = { w0 with resc := some (ampl, off) } ∧
      (∀ xs, w0.eval? = some xs → awgRangeCheck xs ampl off = .ok () ∧ ob = []) ∧
      (w0.eval? = none → ob = [⟨pos, ch, w0, -ampl / 2 + off, ampl / 2 + off⟩]) := by
  unfold awgCheckWave at h
  split at h
  · cases h
  · rename_i ampl hampl
    split at h
    · cases h
    · rename_i off hoff
      split at h
      · cases h
      · rename_i c hc
        split at h
        · cases h
        · rename_i w0 hw0
          refine ⟨ampl, off, c, w0, hampl, hoff, hc, hw0, ?_⟩
          split at h
          · rename_i xs hxs
            cases hr : awgRangeCheck xs ampl off with
            | error e => rw [hr] at h; cases h
            | ok u =>
              rw [hr] at h
              simp only [Except.map, Except.ok.injEq, Prod.mk.injEq] at h
              refine ⟨h.2.symm, ?_, ?_⟩
              · intro xs' hxs'
                rw [hxs] at hxs'
                cases hxs'
                exact ⟨hr, h.1.symm⟩
              · intro hn; rw [hn] at hxs; cases hxs
          · rename_i hnone
            simp only [Except.ok.injEq, Prod.mk.injEq] at h
            refine ⟨h.2.symm, ?_, ?_⟩
            · intro xs hxs; rw [hnone] at hxs; cases hxs
            · intro _; exact h.1.symm

/-- **what `outputForAWGFile` delivers**: with `P` the per-position forged elements of
    `_prepareForOutputting` (equal to `forge(True, True)` by C10's `output_path_equals_forge`) and
    `chans` the channels of element 1 (each with an offset setting), the package holds for channel
    `i` and position `p` the waveform `awgCheckWave` accepted for `chans[i]` of `P[p]` (see
    `awgCheckWave_ok`: in range, tagged with the rescaling), marker 1 and marker 2 of that
    channel, and the four sequencing lists hold, in position order, the values of a sequencing
    entry that passed the AWG5014 checks -/
theorem awg_content (s : Sequence) (d : Deferred AWGPkg) (pkg : AWGPkg)
    (h : s.outputForAWGFile = .ok d) (hp : d.pkg = some pkg) :
    ∃ (P : List (Dict Chan ChOutF)) (chans : List Chan),
      s.prepareForOutputting = .ok P ∧ s.channels = .ok pkg.channels ∧
      (∀ ch ∈ chans, Dict.has s.awgspecs (keyOf ch "offset") = true) ∧
      (∀ i p, i < chans.length → p < P.length → ∃ ob w,
          (P[p]?).bind (fun el => (chans[i]?).map (awgCheckWave s (p + 1) el)) = some (.ok (ob, w)) ∧
          ((pkg.wfms[i]?).bind (·[p]?)) = some w) ∧
      (∀ p, p < P.length → ∃ m1 m2 q, (P[p]?).map (fun el => awgRow s chans (P.length : ℤ) (el, p)) = some (.ok (m1, m2, q)) ∧
          Dict.get? s.sequencing ((p + 1 : ℕ) : ℤ) = some q ∧ awgSeqCheck q (P.length : ℤ) = .ok () ∧
          m1.length = chans.length ∧ m2.length = chans.length ∧
          (∀ i, i < chans.length → (pkg.m1s[i]?).bind (·[p]?) = m1[i]? ∧ (pkg.m2s[i]?).bind (·[p]?) = m2[i]?) ∧
          pkg.trig_waits[p]? = some q.twait ∧ pkg.nreps[p]? = some q.nrep ∧
          pkg.jump_tos[p]? = some q.jump_target ∧ pkg.gotos[p]? = some q.goto) := by
  unfold outputForAWGFile at h
  split at h
  · cases h
  · rename_i P hP
    split at h
    · cases h
    · split at h
      · cases h
      · rename_i chans _
        split at h
        · cases h
        · rename_i hoffs
          split at h
          · cases h
          · rename_i checked hchecked
            simp only at h
            split at h
            · split at h
              · cases h
              · cases h; cases hp
            · rename_i rows hrows
              split at h
              · cases h
              · rename_i chs hchs
                cases h
                simp only [Option.some.injEq] at hp
                subst hp
                have hl := mapM_ok_length _ _ _ hrows
                have hlc := mapM_ok_length _ _ _ hchecked
                simp only [List.length_zip, List.length_range, Nat.min_self] at hl hlc
                refine ⟨P, chans, hP, hchs, ?_, ?_, ?_⟩
                · intro ch hch
                  simp only [List.any_eq_true, not_exists, not_and, Bool.not_eq_true', Bool.not_eq_true] at hoffs
                  have := hoffs ch hch
                  simpa using this
                · intro i p hi hpp
                  have hz : p < (P.zip (List.range P.length)).length := by simp; exact hpp
                  have hr : p < checked.length := by omega
                  have er := mapM_ok_getElem _ _ _ hchecked p hz hr
                  simp only [List.getElem_zip, List.getElem_range] at er
                  have hrl := mapM_ok_length _ _ _ er
                  have hi' : i < (checked[p]).length := by omega
                  have ec := mapM_ok_getElem _ _ _ er i hi hi'
                  refine ⟨(checked[p])[i].1, (checked[p])[i].2, ?_, ?_⟩
                  · simp [List.getElem?_eq_getElem hpp, List.getElem?_eq_getElem hi, ec]
                  · have hall : ∀ r ∈ checked.map (fun row => row.map (·.2)), r.length = chans.length := by
                      intro r hr'
                      obtain ⟨x, hx, rfl⟩ := List.mem_map.mp hr'
                      obtain ⟨k, hk, rfl⟩ := List.getElem_of_mem hx
                      have hzk : k < (P.zip (List.range P.length)).length := by simp; omega
                      have ek := mapM_ok_getElem _ _ _ hchecked k hzk hk
                      simp only [List.length_map]
                      exact mapM_ok_length _ _ _ ek
                    have := transpose_getElem? chans.length (checked.map (fun row => row.map (·.2))) hall i hi p (by simpa using hr)
                    simp only [awgPackage]
                    rw [this]
                    simp [List.getElem?_eq_getElem hr, List.getElem?_eq_getElem hi']
                · intro p hpp
                  have hz : p < (P.zip (List.range P.length)).length := by simp; exact hpp
                  have hr : p < rows.length := by omega
                  have er := mapM_ok_getElem _ _ _ hrows p hz hr
                  simp only [List.getElem_zip, List.getElem_range] at er
                  have er0 := er
                  unfold awgRow at er
                  simp only at er
                  split at er
                  · cases er
                  · rename_i m1 hm1
                    split at er
                    · cases er
                    · rename_i m2 hm2
                      split at er
                      · cases er
                      · rename_i q hq
                        split at er
                        · cases er
                        · rename_i hchk
                          simp only [Except.ok.injEq] at er
                          have hl1 := mapM_ok_length _ _ _ hm1
                          have hl2 := mapM_ok_length _ _ _ hm2
                          refine ⟨m1, m2, q, ?_, hq, hchk, hl1, hl2, ?_, ?_⟩
                          · simp only [List.getElem?_eq_getElem hpp, Option.map_some]
                            rw [er0, ← er]
                          · intro i hi
                            have rowlen : ∀ k (hk : k < rows.length), (rows[k]).1.length = chans.length ∧ (rows[k]).2.1.length = chans.length := by
                              intro k hk
                              have hzk : k < (P.zip (List.range P.length)).length := by simp; omega
                              have ek := mapM_ok_getElem _ _ _ hrows k hzk hk
                              unfold awgRow at ek
                              split at ek
                              · cases ek
                              · rename_i a ha
                                split at ek
                                · cases ek
                                · rename_i b hb
                                  split at ek
                                  · cases ek
                                  · split at ek
                                    · cases ek
                                    · simp only [Except.ok.injEq] at ek
                                      rw [← ek]
                                      exact ⟨mapM_ok_length _ _ _ ha, mapM_ok_length _ _ _ hb⟩
                            have hall1 : ∀ r ∈ rows.map (·.1), r.length = chans.length := by
                              intro r hr'
                              obtain ⟨x, hx, rfl⟩ := List.mem_map.mp hr'
                              obtain ⟨k, hk, rfl⟩ := List.getElem_of_mem hx
                              exact (rowlen k hk).1
                            have hall2 : ∀ r ∈ rows.map (·.2.1), r.length = chans.length := by
                              intro r hr'
                              obtain ⟨x, hx, rfl⟩ := List.mem_map.mp hr'
                              obtain ⟨k, hk, rfl⟩ := List.getElem_of_mem hx
                              exact (rowlen k hk).2
                            have t1 := transpose_getElem? chans.length (rows.map (·.1)) hall1 i hi p (by simpa using hr)
                            have t2 := transpose_getElem? chans.length (rows.map (·.2.1)) hall2 i hi p (by simpa using hr)
                            simp only [awgPackage]
                            rw [t1, t2]
                            simp [List.getElem?_eq_getElem hr, ← er]
                          · simp only [awgPackage, List.getElem?_map, List.getElem?_eq_getElem hr, ← er, Option.map_some]
                            exact ⟨trivial, trivial, trivial, trivial⟩

/-! ### the delivered package: channel order, shape, content (channels tied to `Sequence.channels`) -/

/-- **shape of the delivered package**: its channel list is `Sequence.channels`; there is one
    waveform / marker-1 / marker-2 column per channel, each with one entry per position; the four
    sequencing lists have one entry per position -/
theorem awg_shape (s : Sequence) (d : Deferred AWGPkg) (pkg : AWGPkg)
    (h : s.outputForAWGFile = .ok d) (hp : d.pkg = some pkg) :
    ∃ P, s.prepareForOutputting = .ok P ∧ P.length = s.data.length ∧ s.channels = .ok pkg.channels ∧
      pkg.wfms.length = pkg.channels.length ∧ pkg.m1s.length = pkg.channels.length ∧
      pkg.m2s.length = pkg.channels.length ∧
      (∀ col ∈ pkg.wfms, col.length = P.length) ∧ (∀ col ∈ pkg.m1s, col.length = P.length) ∧
      (∀ col ∈ pkg.m2s, col.length = P.length) ∧
      pkg.nreps.length = P.length ∧ pkg.trig_waits.length = P.length ∧ pkg.gotos.length = P.length ∧
      pkg.jump_tos.length = P.length := by
  obtain ⟨P, chans, checked, hP, hch, _, hchecked, _, hcase⟩ := G3.awg_inv s d h
  rcases hcase with ⟨er, _, _, _, hnone⟩ | ⟨rows, hrows, _, hpkg⟩
  · rw [hnone] at hp; cases hp
  · rw [hpkg] at hp
    simp only [Option.some.injEq] at hp
    subst hp
    obtain ⟨_, _, hlen, _, _⟩ := G3.prepare_cells s P hP
    have hl := mapM_ok_length _ _ _ hrows
    have hlc := mapM_ok_length _ _ _ hchecked
    simp only [List.length_zip, List.length_range, Nat.min_self] at hl hlc
    have hallw : ∀ r ∈ checked.map (fun row => row.map (·.2)), r.length = chans.length := by
      intro r hr
      obtain ⟨x, hx, rfl⟩ := List.mem_map.mp hr
      obtain ⟨y, hy, hxy⟩ := G3.mapM_result_mem _ _ _ hchecked x hx
      simp only [List.length_map]
      exact mapM_ok_length _ _ _ hxy
    have hall1 : ∀ r ∈ rows.map (·.1), r.length = chans.length := by
      intro r hr
      obtain ⟨x, hx, rfl⟩ := List.mem_map.mp hr
      obtain ⟨y, hy, hxy⟩ := G3.mapM_result_mem _ _ _ hrows x hx
      exact mapM_ok_length _ _ _ (G3.awgRow_inv s chans _ y x hxy).1
    have hall2 : ∀ r ∈ rows.map (·.2.1), r.length = chans.length := by
      intro r hr
      obtain ⟨x, hx, rfl⟩ := List.mem_map.mp hr
      obtain ⟨y, hy, hxy⟩ := G3.mapM_result_mem _ _ _ hrows x hx
      exact mapM_ok_length _ _ _ (G3.awgRow_inv s chans _ y x hxy).2.1
    refine ⟨P, hP, hlen, hch, ?_, ?_, ?_, ?_, ?_, ?_, ?_, ?_, ?_, ?_⟩
    · simp [awgPackage, G3.transpose_length]
    · simp [awgPackage, G3.transpose_length]
    · simp [awgPackage, G3.transpose_length]
    · intro col hc
      have := G3.transpose_row_length _ _ hallw col hc
      simp only [List.length_map] at this
      omega
    · intro col hc
      have := G3.transpose_row_length _ _ hall1 col hc
      simp only [List.length_map] at this
      omega
    · intro col hc
      have := G3.transpose_row_length _ _ hall2 col hc
      simp only [List.length_map] at this
      omega
    · simp [awgPackage, hl]
    · simp [awgPackage, hl]
    · simp [awgPackage, hl]
    · simp [awgPackage, hl]

/-- **content of the delivered package, tied to `Sequence.channels`**: for channel `i` of
    `pkg.channels` (= `Sequence.channels`) and position `p` (0-based), `pkg.wfms[i][p]` is the
    waveform `awgCheckWave` accepted for that channel of the forged element `P[p]` (in range and
    tagged with the rescaling, see `awgCheckWave_ok`), `pkg.m1s[i][p]` / `pkg.m2s[i][p]` are the
    unmodified marker arrays of that channel, and the four sequencing lists hold at `p` the values
    of the sequencing entry of position `p + 1`, which passed the AWG5014 checks -/
theorem awg_content_channels (s : Sequence) (d : Deferred AWGPkg) (pkg : AWGPkg)
    (h : s.outputForAWGFile = .ok d) (hp : d.pkg = some pkg) :
    ∃ P, s.prepareForOutputting = .ok P ∧ s.channels = .ok pkg.channels ∧
      (∀ i (hi : i < pkg.channels.length) p (hpp : p < P.length), ∃ ob w c m1 m2,
          awgCheckWave s (p + 1) P[p] pkg.channels[i] = .ok (ob, w) ∧ (pkg.wfms[i]?).bind (·[p]?) = some w ∧
          lookupCh P[p] pkg.channels[i] = .ok c ∧ chMarker c 1 = .ok m1 ∧ chMarker c 2 = .ok m2 ∧
          (pkg.m1s[i]?).bind (·[p]?) = some m1 ∧ (pkg.m2s[i]?).bind (·[p]?) = some m2) ∧
      (∀ p (hpp : p < P.length), ∃ q, Dict.get? s.sequencing ((p + 1 : ℕ) : ℤ) = some q ∧
          awgSeqCheck q (P.length : ℤ) = .ok () ∧
          pkg.trig_waits[p]? = some q.twait ∧ pkg.nreps[p]? = some q.nrep ∧
          pkg.jump_tos[p]? = some q.jump_target ∧ pkg.gotos[p]? = some q.goto) := by
  obtain ⟨P, chans, checked, hP, hch, _, hchecked, _, hcase⟩ := G3.awg_inv s d h
  rcases hcase with ⟨er, _, _, _, hnone⟩ | ⟨rows, hrows, _, hpkg⟩
  · rw [hnone] at hp; cases hp
  · rw [hpkg] at hp
    simp only [Option.some.injEq] at hp
    subst hp
    have hl := mapM_ok_length _ _ _ hrows
    have hlc := mapM_ok_length _ _ _ hchecked
    simp only [List.length_zip, List.length_range, Nat.min_self] at hl hlc
    have hallw : ∀ r ∈ checked.map (fun row => row.map (·.2)), r.length = chans.length := by
      intro r hr
      obtain ⟨x, hx, rfl⟩ := List.mem_map.mp hr
      obtain ⟨y, hy, hxy⟩ := G3.mapM_result_mem _ _ _ hchecked x hx
      simp only [List.length_map]
      exact mapM_ok_length _ _ _ hxy
    have hall1 : ∀ r ∈ rows.map (·.1), r.length = chans.length := by
      intro r hr
      obtain ⟨x, hx, rfl⟩ := List.mem_map.mp hr
      obtain ⟨y, hy, hxy⟩ := G3.mapM_result_mem _ _ _ hrows x hx
      exact mapM_ok_length _ _ _ (G3.awgRow_inv s chans _ y x hxy).1
    have hall2 : ∀ r ∈ rows.map (·.2.1), r.length = chans.length := by
      intro r hr
      obtain ⟨x, hx, rfl⟩ := List.mem_map.mp hr
      obtain ⟨y, hy, hxy⟩ := G3.mapM_result_mem _ _ _ hrows x hx
      exact mapM_ok_length _ _ _ (G3.awgRow_inv s chans _ y x hxy).2.1
    refine ⟨P, hP, hch, ?_, ?_⟩
    · intro i hi p hpp
      have hi : i < chans.length := hi
      have hz : p < (P.zip (List.range P.length)).length := by simp; exact hpp
      have hr : p < checked.length := by omega
      have hr' : p < rows.length := by omega
      -- waveform
      have er := mapM_ok_getElem _ _ _ hchecked p hz hr
      simp only [List.getElem_zip, List.getElem_range] at er
      have hrl := mapM_ok_length _ _ _ er
      have hi' : i < (checked[p]).length := by omega
      have ec := mapM_ok_getElem _ _ _ er i hi hi'
      -- markers
      have erow := mapM_ok_getElem _ _ _ hrows p hz hr'
      simp only [List.getElem_zip, List.getElem_range] at erow
      obtain ⟨hm1, hm2, _, _⟩ := G3.awgRow_inv s chans _ _ _ erow
      have l1 := mapM_ok_length _ _ _ hm1
      have l2 := mapM_ok_length _ _ _ hm2
      have e1 := mapM_ok_getElem _ _ _ hm1 i hi (by omega)
      have e2 := mapM_ok_getElem _ _ _ hm2 i hi (by omega)
      simp only at e1 e2
      cases hc : lookupCh P[p] chans[i] with
      | error e => rw [hc] at e1; cases e1
      | ok c =>
        rw [hc] at e1 e2
        simp only at e1 e2
        refine ⟨(checked[p])[i].1, (checked[p])[i].2, c, _, _, ec, ?_, hc, e1, e2, ?_, ?_⟩
        · have := transpose_getElem? chans.length (checked.map (fun row => row.map (·.2))) hallw i hi p
            (by simpa using hr)
          show ((awgPackage chans chans.length _ rows).wfms[i]?).bind (·[p]?) = _
          simp only [awgPackage]
          rw [this]
          simp [List.getElem?_eq_getElem hr, List.getElem?_eq_getElem hi']
        · have := transpose_getElem? chans.length (rows.map (·.1)) hall1 i hi p (by simpa using hr')
          show ((awgPackage chans chans.length _ rows).m1s[i]?).bind (·[p]?) = _
          simp only [awgPackage]
          rw [this]
          simp [List.getElem?_eq_getElem hr', List.getElem?_eq_getElem (show i < (rows[p]).1.length by omega)]
        · have := transpose_getElem? chans.length (rows.map (·.2.1)) hall2 i hi p (by simpa using hr')
          show ((awgPackage chans chans.length _ rows).m2s[i]?).bind (·[p]?) = _
          simp only [awgPackage]
          rw [this]
          simp [List.getElem?_eq_getElem hr', List.getElem?_eq_getElem (show i < (rows[p]).2.1.length by omega)]
    · intro p hpp
      have hz : p < (P.zip (List.range P.length)).length := by simp; exact hpp
      have hr' : p < rows.length := by omega
      have erow := mapM_ok_getElem _ _ _ hrows p hz hr'
      simp only [List.getElem_zip, List.getElem_range] at erow
      obtain ⟨_, _, hq, hchk⟩ := G3.awgRow_inv s chans _ _ _ erow
      refine ⟨(rows[p]).2.2, hq, hchk, ?_⟩
      simp [awgPackage, List.getElem?_eq_getElem hr']

/-! ### indexing and slicing the package (`_AWGOutput.__getitem__`) -/

/-- the tuple `_AWGOutput.__getitem__` builds for the selected channel indices: the waveform and
    marker columns of those channels (`Codec.pick`, the function the executable model applies), the
    four sequencing lists as they are -/
def select (pkg : AWGPkg) (idx : List ℕ) : AWGPkg :=
  { pkg with wfms := Codec.pick pkg.wfms idx, m1s := Codec.pick pkg.m1s idx, m2s := Codec.pick pkg.m2s idx }

/-- `pkg[key]` for an int key (KeyError when the channel index does not exist) -/
def getItem (pkg : AWGPkg) (key : ℤ) : Except Err AWGPkg :=
  (awgIndex pkg.wfms.length key).map (select pkg)

/-- `pkg[start:stop:step]` (`none` = omitted bound) -/
def getSlice (pkg : AWGPkg) (start stop step : Option ℤ) : Except Err AWGPkg :=
  (awgSlice pkg.wfms.length start stop step).map (select pkg)

/-- indexing or slicing leaves the four sequencing lists (and the channel names) intact -/
theorem select_sequencing (pkg : AWGPkg) (idx : List ℕ) :
    (select pkg idx).nreps = pkg.nreps ∧ (select pkg idx).trig_waits = pkg.trig_waits ∧
    (select pkg idx).gotos = pkg.gotos ∧ (select pkg idx).jump_tos = pkg.jump_tos ∧
    (select pkg idx).channels = pkg.channels := ⟨rfl, rfl, rfl, rfl, rfl⟩

/-- ... so whatever `pkg[i]` / `pkg[a:b:c]` returns carries the sequencing lists of the package -/
theorem getItem_getSlice_sequencing (pkg r : AWGPkg) (key : ℤ) (a b c : Option ℤ)
    (h : getItem pkg key = .ok r ∨ getSlice pkg a b c = .ok r) :
    r.nreps = pkg.nreps ∧ r.trig_waits = pkg.trig_waits ∧ r.gotos = pkg.gotos ∧ r.jump_tos = pkg.jump_tos := by
  rcases h with h | h
  · unfold getItem at h
    cases hi : awgIndex pkg.wfms.length key with
    | error e => rw [hi] at h; simp [Except.map] at h
    | ok idx =>
      rw [hi] at h
      simp only [Except.map, Except.ok.injEq] at h
      subst h
      exact ⟨rfl, rfl, rfl, rfl⟩
  · unfold getSlice at h
    cases hi : awgSlice pkg.wfms.length a b c with
    | error e => rw [hi] at h; simp [Except.map] at h
    | ok idx =>
      rw [hi] at h
      simp only [Except.map, Except.ok.injEq] at h
      subst h
      exact ⟨rfl, rfl, rfl, rfl⟩

/-- slicing clause, list level: entry `k` of a selection is the entry of the `k`-th requested index -/
theorem pick_getElem {α : Type} (l : List α) (idx : List ℕ) (hall : ∀ i ∈ idx, i < l.length) (k : ℕ) :
    (Codec.pick l idx)[k]? = (idx[k]?).bind (fun i => l[i]?) := by
  unfold Codec.pick
  induction idx generalizing k with
  | nil => simp
  | cons i is ih =>
    have hi : i < l.length := hall i (by simp)
    simp only [List.filterMap_cons, List.getElem?_eq_getElem hi]
    cases k with
    | zero => simp [List.getElem?_eq_getElem hi]
    | succ k =>
      simp only [List.getElem?_cons_succ]
      exact ih (fun j hj => hall j (by simp [hj])) k

/-- slicing clause, list level: a selection of existing indices has one entry per requested index -/
theorem pick_length {α : Type} (l : List α) (idx : List ℕ) (hall : ∀ i ∈ idx, i < l.length) :
    (Codec.pick l idx).length = idx.length := by
  unfold Codec.pick
  induction idx with
  | nil => rfl
  | cons i is ih =>
    have hi : i < l.length := hall i (by simp)
    simp only [List.filterMap_cons, List.getElem?_eq_getElem hi, List.length_cons]
    rw [ih (fun j hj => hall j (by simp [hj]))]

/-- slicing clause, list level: selecting every index in order gives the list back (`pkg[:]`) -/
theorem pick_range {α : Type} (l : List α) : Codec.pick l (List.range l.length) = l := by
  apply List.ext_getElem?
  intro k
  rw [pick_getElem l _ (by intro i hi; simpa using hi)]
  by_cases hk : k < l.length
  · simp [List.getElem?_range hk]
  · have h1 : (List.range l.length)[k]? = none := by simp; omega
    have h2 : l[k]? = none := by simp; omega
    rw [h1, h2]; rfl

/-- slicing clause, list level: selecting one existing index gives that one entry (`pkg[i]`) -/
theorem pick_single {α : Type} (l : List α) (i : ℕ) (hi : i < l.length) : Codec.pick l [i] = [l[i]] := by
  simp [Codec.pick, List.getElem?_eq_getElem hi]

/-- **a selection holds exactly the selected channels, in the order asked for**: entry `k` of each
    of the three columns lists is the column of channel `idx[k]` of the package -/
theorem select_getElem (pkg : AWGPkg) (idx : List ℕ)
    (hm1 : pkg.m1s.length = pkg.wfms.length) (hm2 : pkg.m2s.length = pkg.wfms.length)
    (hall : ∀ i ∈ idx, i < pkg.wfms.length) (k : ℕ) :
    (select pkg idx).wfms[k]? = (idx[k]?).bind (fun i => pkg.wfms[i]?) ∧
    (select pkg idx).m1s[k]? = (idx[k]?).bind (fun i => pkg.m1s[i]?) ∧
    (select pkg idx).m2s[k]? = (idx[k]?).bind (fun i => pkg.m2s[i]?) ∧
    (select pkg idx).wfms.length = idx.length := by
  refine ⟨pick_getElem _ _ hall k, pick_getElem _ _ (by rw [hm1]; exact hall) k,
    pick_getElem _ _ (by rw [hm2]; exact hall) k, pick_length _ _ hall⟩

/-- **`pkg[i]` equals `pkg[i:i+1]`**, and both hold exactly channel `i` -/
theorem getItem_eq_getSlice (pkg : AWGPkg) (i : ℤ) (h0 : 0 ≤ i) (h1 : i < pkg.wfms.length) :
    getItem pkg i = getSlice pkg (some i) (some (i + 1)) none ∧
    getItem pkg i = .ok (select pkg [i.toNat]) ∧
    (select pkg [i.toNat]).wfms = [pkg.wfms[i.toNat]'(by omega)] := by
  obtain ⟨e1, e2⟩ := index_eq_slice pkg.wfms.length i h0 h1
  refine ⟨?_, ?_, ?_⟩
  · simp [getItem, getSlice, e1, e2]
  · simp [getItem, e1, Except.map]
  · exact pick_single _ _ _

/-- an index that is not a channel index: KeyError -/
theorem getItem_out_of_range (pkg : AWGPkg) (i : ℤ) (h : i < 0 ∨ (pkg.wfms.length : ℤ) ≤ i) :
    getItem pkg i = .error .key := by
  simp [getItem, index_out_of_range _ i h, Except.map]

/-- a slice whose indices all exist selects exactly the channels `start, start+step, ... < stop` -/
theorem getSlice_spec (pkg : AWGPkg) (a b c : ℤ) (hc : c ≠ 0)
    (hall : ∀ i ∈ pyRange a b c, 0 ≤ i ∧ i < pkg.wfms.length) :
    getSlice pkg (some a) (some b) (some c) = .ok (select pkg ((pyRange a b c).map Int.toNat)) := by
  simp [getSlice, slice_spec _ a b c hc hall, Except.map]

/-- **`pkg[:]` is everything**: for a package whose three column lists have one column per channel
    (see `awg_slice_all` for the delivered package) -/
theorem getSlice_all (pkg : AWGPkg) (hm1 : pkg.m1s.length = pkg.wfms.length) (hm2 : pkg.m2s.length = pkg.wfms.length) :
    getSlice pkg none none none = .ok pkg := by
  simp only [getSlice, slice_all, Except.map, select]
  have e1 := pick_range pkg.wfms
  have e2 := pick_range pkg.m1s
  have e3 := pick_range pkg.m2s
  rw [hm1] at e2
  rw [hm2] at e3
  rw [e1, e2, e3]

/-- **`pkg[:]` of the delivered package is the whole package** (every channel, in
    `Sequence.channels` order, see `awg_content_channels`) -/
theorem awg_slice_all (s : Sequence) (d : Deferred AWGPkg) (pkg : AWGPkg)
    (h : s.outputForAWGFile = .ok d) (hp : d.pkg = some pkg) : getSlice pkg none none none = .ok pkg := by
  obtain ⟨P, _, _, _, hw, h1, h2, _⟩ := awg_shape s d pkg h hp
  exact getSlice_all pkg (by omega) (by omega)

/-- for the delivered package `pkg[i]` = `pkg[i:i+1]` for every channel index `i` of `Sequence.channels` -/
theorem awg_index_eq_slice (s : Sequence) (d : Deferred AWGPkg) (pkg : AWGPkg)
    (h : s.outputForAWGFile = .ok d) (hp : d.pkg = some pkg) (chans : List Chan) (hch : s.channels = .ok chans)
    (i : ℕ) (hi : i < chans.length) :
    getItem pkg (i : ℤ) = getSlice pkg (some (i : ℤ)) (some ((i : ℤ) + 1)) none ∧
    getItem pkg (i : ℤ) = .ok (select pkg [i]) := by
  obtain ⟨P, _, _, hch', hw, _⟩ := awg_shape s d pkg h hp
  rw [hch] at hch'
  simp only [Except.ok.injEq] at hch'
  subst hch'
  obtain ⟨e1, e2, _⟩ := getItem_eq_getSlice pkg (i : ℤ) (by omega) (by omega)
  exact ⟨e1, by simpa using e2⟩

/-- the samples a delivered waveform holds: the forged voltages, mapped through the code's
    `rescaler` when the AWG5014 rescaling `(amplitude, offset)` was applied (`none`: the model cannot
    evaluate the waveform — symbolic pulse or filter compensation) -/
def deliveredSamples (w : Wave) : Option (List ℚ) :=
  match w.resc with
  | some (a, o) => w.eval?.map (fun xs => xs.map (fun v => Gen.rescaler v a o))
  | none => w.eval?

/-- **every delivered sample lies in [-1, 1]** (lift of `delivered_in_unit` to the package): for a
    delivered package with positive channel amplitudes, every waveform `pkg.wfms[i][p]` carries the
    rescaling (amplitude, offset) of channel `Sequence.channels[i]`; if the model can evaluate it,
    its voltages `xs` lie in `[offset - amplitude/2, offset + amplitude/2]`, the delivered samples
    are `(v - offset)/(amplitude/2)` and all lie in `[-1, 1]` -/
theorem awg_delivered_in_unit (s : Sequence) (d : Deferred AWGPkg) (pkg : AWGPkg)
    (h : s.outputForAWGFile = .ok d) (hp : d.pkg = some pkg)
    (i p : ℕ) (w : Wave) (hw : (pkg.wfms[i]?).bind (·[p]?) = some w) :
    ∃ (hi : i < pkg.channels.length) (a o : ℚ),
      s.specNum (keyOf pkg.channels[i] "amplitude") = some a ∧ s.specNum (keyOf pkg.channels[i] "offset") = some o ∧
      w.resc = some (a, o) ∧
      ∀ xs, w.eval? = some xs →
        (∀ x ∈ xs, o - a / 2 ≤ x ∧ x ≤ o + a / 2) ∧
        deliveredSamples w = some (xs.map (fun v => Gen.rescaler v a o)) ∧
        (0 < a → ∀ y ∈ xs.map (fun v => Gen.rescaler v a o), -1 ≤ y ∧ y ≤ 1) ∧
        (0 < a → xs.map (fun v => Gen.rescaler v a o) = xs.map (fun v => (v - o) / (a / 2))) := by
  obtain ⟨P, hP, _, _, hwl, _, _, hcol, _⟩ := awg_shape s d pkg h hp
  obtain ⟨P', hP', _, hcell, _⟩ := awg_content_channels s d pkg h hp
  have hPP : P' = P := by
    rw [hP] at hP'
    exact (Except.ok.inj hP').symm
  subst hPP
  have hi : i < pkg.wfms.length := by
    by_contra hn
    have : pkg.wfms[i]? = none := by simp; omega
    rw [this] at hw; cases hw
  have hcolp : p < (pkg.wfms[i]).length := by
    by_contra hn
    rw [List.getElem?_eq_getElem hi] at hw
    simp only [Option.bind_some] at hw
    have : (pkg.wfms[i])[p]? = none := by simp; omega
    rw [this] at hw; cases hw
  have hpp : p < P'.length := by rw [← hcol _ (List.getElem_mem hi)]; exact hcolp
  have hic : i < pkg.channels.length := by omega
  obtain ⟨ob, w', c, m1, m2, hck, hw', _⟩ := hcell i hic p hpp
  rw [hw] at hw'
  simp only [Option.some.injEq] at hw'
  subst hw'
  obtain ⟨a, o, c', w0, ha, ho, _, _, hweq, hev, _⟩ := awgCheckWave_ok s (p + 1) P'[p] pkg.channels[i] ob w hck
  refine ⟨hic, a, o, ha, ho, by rw [hweq], ?_⟩
  intro xs hxs
  have hxs0 : w0.eval? = some xs := by rw [hweq] at hxs; exact hxs
  obtain ⟨hrc, _⟩ := hev xs hxs0
  have hrange : ∀ x ∈ xs, o - a / 2 ≤ x ∧ x ≤ o + a / 2 := by
    intro x hx
    have hne : xs ≠ [] := by intro he; rw [he] at hx; simp at hx
    exact ((range_check_iff xs a o hne).1.mp hrc) x hx
  refine ⟨hrange, ?_, ?_, ?_⟩
  · unfold deliveredSamples
    rw [hweq]
    simp only
    show (Wave.eval? { w0 with resc := some (a, o) }).map _ = _
    have : Wave.eval? { w0 with resc := some (a, o) } = w0.eval? := rfl
    rw [this, hxs0]; rfl
  · intro hapos y hy
    obtain ⟨x, hx, rfl⟩ := List.mem_map.mp hy
    exact rescale_range x a o hapos (hrange x hx).1 (hrange x hx).2
  · intro hapos
    apply List.map_congr_left
    intro x _
    exact rescale_spec x a o (ne_of_gt hapos)

/-! ### the error direction, at the public operation -/

/-- every channel of the forged elements that is looked up holds a waveform and both marker
    arrays: true for every blueprint channel; a raw-array channel must have been given 'm1' and
    'm2' (its 'wfm' is always there) — otherwise the output methods raise KeyError -/
def CellsOk (P : List (Dict Chan ChOutF)) (chans : List Chan) : Prop :=
  ∀ el ∈ P, ∀ ch ∈ chans, ∀ c, lookupCh el ch = .ok c →
    (∃ w, chWave c = .ok w) ∧ (∃ m, chMarker c 1 = .ok m) ∧ (∃ m, chMarker c 2 = .ok m)

/-- blueprint channels always satisfy `CellsOk` -/
theorem cellsOk_of_forged (P : List (Dict Chan ChOutF)) (chans : List Chan)
    (h : ∀ el ∈ P, ∀ x ∈ el, ∃ f fl t, x.2.out = .forged f fl t) : CellsOk P chans := by
  intro el hel ch _ c hc
  unfold lookupCh at hc
  split at hc
  · rename_i c' hg
    simp only [Except.ok.injEq] at hc
    subst hc
    obtain ⟨f, fl, t, hf⟩ := h el hel _ (Dict.mem_of_get?_eq_some _ _ hg)
    simp only at hf
    simp [chWave, chMarker, hf]
  · cases hc

/-- ValueError clause: the voltage check either passes or raises ValueError, nothing else -/
theorem awgRangeCheck_total (xs : List ℚ) (a o : ℚ) :
    awgRangeCheck xs a o = .ok () ∨ awgRangeCheck xs a o = .error .value := by
  unfold awgRangeCheck
  split
  · exact .inr rfl
  · split
    · exact .inr rfl
    · exact .inl rfl

/-- ValueError clause, one waveform: with numeric amplitude/offset and a waveform on the channel, the
    phase-1 check of `outputForAWGFile` either accepts the waveform or raises ValueError; it raises when an
    evaluable waveform fails the voltage check and accepts when it passes or cannot be evaluated -/
theorem awgCheckWave_total (s : Sequence) (pos : ℕ) (el : Dict Chan ChOutF) (ch : Chan) (a o : ℚ) (c : ChOutF) (w : Wave)
    (ha : s.specNum (keyOf ch "amplitude") = some a) (ho : s.specNum (keyOf ch "offset") = some o)
    (hc : lookupCh el ch = .ok c) (hw : chWave c = .ok w) :
    ((∃ y, awgCheckWave s pos el ch = .ok y) ∨ awgCheckWave s pos el ch = .error .value) ∧
    (∀ xs, w.eval? = some xs → awgRangeCheck xs a o ≠ .ok () → awgCheckWave s pos el ch = .error .value) ∧
    (∀ xs, w.eval? = some xs → awgRangeCheck xs a o = .ok () → ∃ y, awgCheckWave s pos el ch = .ok y) ∧
    (w.eval? = none → ∃ y, awgCheckWave s pos el ch = .ok y) := by
  unfold awgCheckWave
  simp only [ha, ho, hc, hw]
  cases hxs : w.eval? with
  | none => simp
  | some xs =>
    simp only
    rcases awgRangeCheck_total xs a o with hr | hr
    · simp [hr, Except.map]
    · simp [hr, Except.map]

/-- **a voltage outside the channel range: ValueError** — for a sequence that passed
    `_prepareForOutputting`, with numeric amplitude and offset on every channel and a waveform on
    every looked-up channel, one evaluable waveform with one sample outside
    `[offset - amplitude/2, offset + amplitude/2]` makes `outputForAWGFile` raise ValueError
    (nothing is clipped, nothing is returned) -/
theorem awg_value_error (s : Sequence) (P : List (Dict Chan ChOutF)) (chans : List Chan)
    (hP : s.prepareForOutputting = .ok P) (hch : s.channels = .ok chans)
    (hnum : ∀ ch ∈ chans, (∃ a, s.specNum (keyOf ch "amplitude") = some a) ∧ (∃ o, s.specNum (keyOf ch "offset") = some o))
    (hwave : ∀ el ∈ P, ∀ ch ∈ chans, ∀ c, lookupCh el ch = .ok c → ∃ w, chWave c = .ok w)
    (p : ℕ) (hp : p < P.length) (ch : Chan) (hm : ch ∈ chans) (c : ChOutF) (w : Wave) (xs : List ℚ) (a o x : ℚ)
    (hc : lookupCh P[p] ch = .ok c) (hw : chWave c = .ok w) (hxs : w.eval? = some xs)
    (ha : s.specNum (keyOf ch "amplitude") = some a) (ho : s.specNum (keyOf ch "offset") = some o)
    (hx : x ∈ xs) (hout : x < o - a / 2 ∨ o + a / 2 < x) :
    s.outputForAWGFile = .error .value := by
  obtain ⟨hcc, en, hen, hchans⟩ := G3.channels_inv s chans hch
  obtain ⟨chans', hch', _, _, hcells⟩ := G3.prepare_cells s P hP
  rw [hch] at hch'
  simp only [Except.ok.injEq] at hch'
  subst hch'
  have hany : chans.any (fun ch => !(Dict.has s.awgspecs (keyOf ch "offset"))) = false := by
    simp only [List.any_eq_false, Bool.not_eq_true', Bool.not_eq_false]
    intro ch' hm'
    obtain ⟨_, o', ho'⟩ := hnum ch' hm'
    simpa using G3.has_of_specNum s _ o' ho'
  have hcell : ∀ p' (hp' : p' < P.length), ∀ ch' ∈ chans,
      (∃ y, awgCheckWave s (p' + 1) P[p'] ch' = .ok y) ∨ awgCheckWave s (p' + 1) P[p'] ch' = .error .value := by
    intro p' hp' ch' hm'
    obtain ⟨e, _, hl⟩ := hcells p' hp'
    obtain ⟨ent, c', _, hc', _⟩ := hl ch' hm'
    obtain ⟨w', hw'⟩ := hwave _ (List.getElem_mem hp') ch' hm' c' hc'
    obtain ⟨⟨a', ha'⟩, ⟨o', ho'⟩⟩ := hnum ch' hm'
    exact (awgCheckWave_total s (p' + 1) P[p'] ch' a' o' c' w' ha' ho' hc' hw').1
  have hbadcell : awgCheckWave s (p + 1) P[p] ch = .error .value := by
    apply (awgCheckWave_total s (p + 1) P[p] ch a o c w ha ho hc hw).2.1 xs hxs
    intro hok
    have hne : xs ≠ [] := by intro he; rw [he] at hx; simp at hx
    have := ((range_check_iff xs a o hne).1.mp hok) x hx
    rcases hout with h1 | h1 <;> linarith [this.1, this.2]
  have hmap : (P.zip (List.range P.length)).mapM (fun p => chans.mapM (awgCheckWave s (p.2 + 1) p.1)) = .error .value := by
    apply G3.mapM_error_of
    · intro x hx'
      obtain ⟨p', hp', rfl⟩ := G3.mem_zip_range P x hx'
      exact G3.mapM_ok_or_error _ _ _ (hcell p' hp')
    · refine ⟨(P[p], p), G3.zip_range_mem P p hp, ?_⟩
      exact G3.mapM_error_of _ _ _ (hcell p hp) ⟨ch, hm, hbadcell⟩
  simp only [Sequence.outputForAWGFile, hP, hen, hchans, hany, hmap, Bool.false_eq_true, if_false]

/-- SequencingError clause, one position: with both markers on every channel and a sequencing entry `q`,
    phase 2 of `outputForAWGFile` returns the row when `q` passes the AWG5014 checks and raises
    SequencingError otherwise -/
theorem awgRow_total (s : Sequence) (chans : List Chan) (N : ℤ) (el : Dict Chan ChOutF) (p : ℕ) (q : SeqSet)
    (hq : Dict.get? s.sequencing ((p + 1 : ℕ) : ℤ) = some q)
    (hmk : ∀ ch ∈ chans, ∃ c m1 m2, lookupCh el ch = .ok c ∧ chMarker c 1 = .ok m1 ∧ chMarker c 2 = .ok m2) :
    (awgSeqCheck q N = .ok () → ∃ y, awgRow s chans N (el, p) = .ok y) ∧
    (awgSeqCheck q N ≠ .ok () → awgRow s chans N (el, p) = .error .sequencing) := by
  unfold awgRow
  simp only
  split
  · rename_i e he
    exfalso
    obtain ⟨ch, hm, hf⟩ := G3.mapM_error_mem _ _ _ he
    obtain ⟨c, a, b, hc, ha, hb⟩ := hmk ch hm
    simp only [hc, ha] at hf
    cases hf
  · split
    · rename_i e he
      exfalso
      obtain ⟨ch, hm, hf⟩ := G3.mapM_error_mem _ _ _ he
      obtain ⟨c, a, b, hc, ha, hb⟩ := hmk ch hm
      simp only [hc, hb] at hf
      cases hf
    · simp only [hq]
      constructor
      · intro hok; rw [hok]; exact ⟨_, rfl⟩
      · intro hbad
        have := (seq_check_iff q N).2 hbad
        rw [this]

/-- **a sequencing setting outside the instrument ranges: SequencingError** — for a sequence that
    passed `_prepareForOutputting`, with numeric amplitude/offset, waveform and markers on every
    channel and every evaluable waveform in range, one position whose sequencing entry violates
    (wait ∈ {0,1}, 0 ≤ repetitions ≤ 65536, -1 ≤ jump target ≤ N, 0 ≤ goto ≤ N) makes
    `outputForAWGFile` raise SequencingError: at once when every waveform is evaluable in the
    model; otherwise the result says "ValueError if a deferred range obligation fails, else
    SequencingError" — in no case is a package returned, nothing is wrapped -/
theorem awg_sequencing_error (s : Sequence) (P : List (Dict Chan ChOutF)) (chans : List Chan)
    (hP : s.prepareForOutputting = .ok P) (hch : s.channels = .ok chans)
    (hnum : ∀ ch ∈ chans, (∃ a, s.specNum (keyOf ch "amplitude") = some a) ∧ (∃ o, s.specNum (keyOf ch "offset") = some o))
    (hcellsok : CellsOk P chans)
    (hrange : ∀ el ∈ P, ∀ ch ∈ chans, ∀ c w xs a o, lookupCh el ch = .ok c → chWave c = .ok w → w.eval? = some xs →
      s.specNum (keyOf ch "amplitude") = some a → s.specNum (keyOf ch "offset") = some o →
      xs ≠ [] ∧ ∀ x ∈ xs, o - a / 2 ≤ x ∧ x ≤ o + a / 2)
    (p : ℕ) (hp : p < P.length) (q : SeqSet) (hq : Dict.get? s.sequencing ((p + 1 : ℕ) : ℤ) = some q)
    (hbad : ¬ ((q.twait = 0 ∨ q.twait = 1) ∧ (0 ≤ q.nrep ∧ q.nrep ≤ 65536) ∧
      (-1 ≤ q.jump_target ∧ q.jump_target ≤ (P.length : ℤ)) ∧ (0 ≤ q.goto ∧ q.goto ≤ (P.length : ℤ)))) :
    (s.outputForAWGFile = .error .sequencing ∨
      ∃ d, s.outputForAWGFile = .ok d ∧ d.obligations ≠ [] ∧ d.thenErr = some .sequencing ∧ d.pkg = none) ∧
    ((∀ el ∈ P, ∀ ch ∈ chans, ∀ c w, lookupCh el ch = .ok c → chWave c = .ok w → w.eval? ≠ none) →
      s.outputForAWGFile = .error .sequencing) := by
  obtain ⟨hcc, en, hen, hchans⟩ := G3.channels_inv s chans hch
  obtain ⟨chans', hch', hlen, _, hcells⟩ := G3.prepare_cells s P hP
  rw [hch] at hch'
  simp only [Except.ok.injEq] at hch'
  subst hch'
  have hany : chans.any (fun ch => !(Dict.has s.awgspecs (keyOf ch "offset"))) = false := by
    simp only [List.any_eq_false, Bool.not_eq_true', Bool.not_eq_false]
    intro ch' hm'
    obtain ⟨_, o', ho'⟩ := hnum ch' hm'
    simpa using G3.has_of_specNum s _ o' ho'
  have hlook : ∀ p' (hp' : p' < P.length), ∀ ch' ∈ chans, ∃ c', lookupCh P[p'] ch' = .ok c' := by
    intro p' hp' ch' hm'
    obtain ⟨e, _, hl⟩ := hcells p' hp'
    obtain ⟨ent, c', _, hc', _⟩ := hl ch' hm'
    exact ⟨c', hc'⟩
  -- phase 1 passes
  obtain ⟨checked, hchecked⟩ := G3.mapM_ok_of_forall_ex
    (fun (p : Dict Chan ChOutF × ℕ) => chans.mapM (awgCheckWave s (p.2 + 1) p.1)) (P.zip (List.range P.length)) (by
      intro x hx
      obtain ⟨p', hp', rfl⟩ := G3.mem_zip_range P x hx
      apply G3.mapM_ok_of_forall_ex
      intro ch' hm'
      obtain ⟨c', hc'⟩ := hlook p' hp' ch' hm'
      obtain ⟨⟨w', hw'⟩, _, _⟩ := hcellsok _ (List.getElem_mem hp') ch' hm' c' hc'
      obtain ⟨⟨a', ha'⟩, ⟨o', ho'⟩⟩ := hnum ch' hm'
      have htot := awgCheckWave_total s (p' + 1) P[p'] ch' a' o' c' w' ha' ho' hc' hw'
      cases hev : w'.eval? with
      | none => exact htot.2.2.2 hev
      | some xs =>
        obtain ⟨hne, hr⟩ := hrange _ (List.getElem_mem hp') ch' hm' c' w' xs a' o' hc' hw' hev ha' ho'
        exact htot.2.2.1 xs hev ((range_check_iff xs a' o' hne).1.mpr hr))
  -- phase 2 raises SequencingError
  have hmk : ∀ p' (hp' : p' < P.length), ∀ ch' ∈ chans, ∃ c m1 m2,
      lookupCh P[p'] ch' = .ok c ∧ chMarker c 1 = .ok m1 ∧ chMarker c 2 = .ok m2 := by
    intro p' hp' ch' hm'
    obtain ⟨c', hc'⟩ := hlook p' hp' ch' hm'
    obtain ⟨_, ⟨m1, h1⟩, ⟨m2, h2⟩⟩ := hcellsok _ (List.getElem_mem hp') ch' hm' c' hc'
    exact ⟨c', m1, m2, hc', h1, h2⟩
  have hrows : (P.zip (List.range P.length)).mapM (awgRow s chans (P.length : ℤ)) = .error .sequencing := by
    apply G3.mapM_error_of
    · intro x hx
      obtain ⟨p', hp', rfl⟩ := G3.mem_zip_range P x hx
      obtain ⟨q', hq'⟩ := G3.prepare_sequencing_lookup s P hP ((p' + 1 : ℕ) : ℤ) (by omega) (by omega)
      have := awgRow_total s chans (P.length : ℤ) P[p'] p' q' hq' (hmk p' hp')
      by_cases hok : awgSeqCheck q' (P.length : ℤ) = .ok ()
      · exact .inl (this.1 hok)
      · exact .inr (this.2 hok)
    · refine ⟨(P[p], p), G3.zip_range_mem P p hp, ?_⟩
      apply (awgRow_total s chans (P.length : ℤ) P[p] p q hq (hmk p hp)).2
      intro hok
      exact hbad ((seq_check_iff q _).1.mp hok)
  constructor
  · simp only [Sequence.outputForAWGFile, hP, hen, hchans, hany, hchecked, hrows, Bool.false_eq_true, if_false]
    split
    · exact .inl rfl
    · rename_i hne
      refine .inr ⟨_, rfl, ?_, rfl, rfl⟩
      intro he
      apply hne
      simp only at he
      simp [he]
  · intro hev
    have hobs : ((checked.map (fun row => (row.map (·.1)).flatten)).flatten).isEmpty = true := by
      simp only [List.isEmpty_iff, List.flatten_eq_nil_iff, List.mem_map, forall_exists_index, and_imp,
        forall_apply_eq_imp_iff₂]
      intro row hrow cell hcell
      obtain ⟨x, hx, hxr⟩ := G3.mapM_result_mem _ _ _ hchecked row hrow
      obtain ⟨p', hp', rfl⟩ := G3.mem_zip_range P x hx
      obtain ⟨ch', hm', hcw⟩ := G3.mapM_result_mem _ _ _ hxr cell hcell
      obtain ⟨a', o', c', w0, _, _, hc', hw0, _, hsome, _⟩ :=
        awgCheckWave_ok s (p' + 1) P[p'] ch' cell.1 cell.2 hcw
      cases hxs : w0.eval? with
      | none => exact absurd hxs (hev _ (List.getElem_mem hp') ch' hm' c' w0 hc' hw0)
      | some xs => exact (hsome xs hxs).2
    simp only [Sequence.outputForAWGFile, hP, hen, hchans, hany, hchecked, hrows, Bool.false_eq_true, if_false]
    rw [if_pos hobs]

/-- **acceptance**: a sequence that passed `_prepareForOutputting`, with numeric amplitude and
    offset on every channel, waveform and markers on every channel, every evaluable waveform within
    `[offset - amplitude/2, offset + amplitude/2]` and every sequencing entry within the instrument
    ranges, gets its package from `outputForAWGFile` (no pending exception; range obligations remain
    only for waveforms the model cannot evaluate) -/
theorem awg_accepts (s : Sequence) (P : List (Dict Chan ChOutF)) (chans : List Chan)
    (hP : s.prepareForOutputting = .ok P) (hch : s.channels = .ok chans)
    (hnum : ∀ ch ∈ chans, (∃ a, s.specNum (keyOf ch "amplitude") = some a) ∧ (∃ o, s.specNum (keyOf ch "offset") = some o))
    (hcellsok : CellsOk P chans)
    (hrange : ∀ el ∈ P, ∀ ch ∈ chans, ∀ c w xs a o, lookupCh el ch = .ok c → chWave c = .ok w → w.eval? = some xs →
      s.specNum (keyOf ch "amplitude") = some a → s.specNum (keyOf ch "offset") = some o →
      xs ≠ [] ∧ ∀ x ∈ xs, o - a / 2 ≤ x ∧ x ≤ o + a / 2)
    (hseq : ∀ p, p < P.length → ∀ q, Dict.get? s.sequencing ((p + 1 : ℕ) : ℤ) = some q →
      (q.twait = 0 ∨ q.twait = 1) ∧ (0 ≤ q.nrep ∧ q.nrep ≤ 65536) ∧
      (-1 ≤ q.jump_target ∧ q.jump_target ≤ (P.length : ℤ)) ∧ (0 ≤ q.goto ∧ q.goto ≤ (P.length : ℤ))) :
    ∃ d pkg, s.outputForAWGFile = .ok d ∧ d.thenErr = none ∧ d.pkg = some pkg := by
  obtain ⟨hcc, en, hen, hchans⟩ := G3.channels_inv s chans hch
  obtain ⟨chans', hch', hlen, _, hcells⟩ := G3.prepare_cells s P hP
  rw [hch] at hch'
  simp only [Except.ok.injEq] at hch'
  subst hch'
  have hany : chans.any (fun ch => !(Dict.has s.awgspecs (keyOf ch "offset"))) = false := by
    simp only [List.any_eq_false, Bool.not_eq_true', Bool.not_eq_false]
    intro ch' hm'
    obtain ⟨_, o', ho'⟩ := hnum ch' hm'
    simpa using G3.has_of_specNum s _ o' ho'
  have hlook : ∀ p' (hp' : p' < P.length), ∀ ch' ∈ chans, ∃ c', lookupCh P[p'] ch' = .ok c' := by
    intro p' hp' ch' hm'
    obtain ⟨e, _, hl⟩ := hcells p' hp'
    obtain ⟨ent, c', _, hc', _⟩ := hl ch' hm'
    exact ⟨c', hc'⟩
  obtain ⟨checked, hchecked⟩ := G3.mapM_ok_of_forall_ex
    (fun (p : Dict Chan ChOutF × ℕ) => chans.mapM (awgCheckWave s (p.2 + 1) p.1)) (P.zip (List.range P.length)) (by
      intro x hx
      obtain ⟨p', hp', rfl⟩ := G3.mem_zip_range P x hx
      apply G3.mapM_ok_of_forall_ex
      intro ch' hm'
      obtain ⟨c', hc'⟩ := hlook p' hp' ch' hm'
      obtain ⟨⟨w', hw'⟩, _, _⟩ := hcellsok _ (List.getElem_mem hp') ch' hm' c' hc'
      obtain ⟨⟨a', ha'⟩, ⟨o', ho'⟩⟩ := hnum ch' hm'
      have htot := awgCheckWave_total s (p' + 1) P[p'] ch' a' o' c' w' ha' ho' hc' hw'
      cases hev : w'.eval? with
      | none => exact htot.2.2.2 hev
      | some xs =>
        obtain ⟨hne, hr⟩ := hrange _ (List.getElem_mem hp') ch' hm' c' w' xs a' o' hc' hw' hev ha' ho'
        exact htot.2.2.1 xs hev ((range_check_iff xs a' o' hne).1.mpr hr))
  have hmk : ∀ p' (hp' : p' < P.length), ∀ ch' ∈ chans, ∃ c m1 m2,
      lookupCh P[p'] ch' = .ok c ∧ chMarker c 1 = .ok m1 ∧ chMarker c 2 = .ok m2 := by
    intro p' hp' ch' hm'
    obtain ⟨c', hc'⟩ := hlook p' hp' ch' hm'
    obtain ⟨_, ⟨m1, h1⟩, ⟨m2, h2⟩⟩ := hcellsok _ (List.getElem_mem hp') ch' hm' c' hc'
    exact ⟨c', m1, m2, hc', h1, h2⟩
  obtain ⟨rows, hrows⟩ := G3.mapM_ok_of_forall_ex (awgRow s chans (P.length : ℤ)) (P.zip (List.range P.length)) (by
    intro x hx
    obtain ⟨p', hp', rfl⟩ := G3.mem_zip_range P x hx
    obtain ⟨q', hq'⟩ := G3.prepare_sequencing_lookup s P hP ((p' + 1 : ℕ) : ℤ) (by omega) (by omega)
    apply (awgRow_total s chans (P.length : ℤ) P[p'] p' q' hq' (hmk p' hp')).1
    exact (seq_check_iff q' _).1.mpr (hseq p' hp' q' hq'))
  refine ⟨⟨(checked.map (fun row => (row.map (·.1)).flatten)).flatten, none,
    some (awgPackage chans chans.length (checked.map (fun row => row.map (·.2))) rows)⟩, _, ?_, rfl, rfl⟩
  simp only [Sequence.outputForAWGFile, hP, hen, hchans, hany, hchecked, hrows, hch, Bool.false_eq_true, if_false]

/-! ### non-vacuity of the package theorems (concrete sequences of `BB.G3.Ex`) -/

/-- `CellsOk` from its decidable version -/
theorem cellsOk_of_check (P : List (Dict Chan ChOutF)) (chans : List Chan)
    (h : G3.cellCheck P chans G3.fullB = true) : CellsOk P chans := by
  intro el hel ch hch c hc
  have := G3.cellCheck_spec P chans _ h el hel ch hch c hc
  unfold G3.fullB at this
  simp only [Bool.and_eq_true] at this
  exact ⟨G3.isSome_toOption _ this.1.1, G3.isSome_toOption _ this.1.2, G3.isSome_toOption _ this.2⟩

/-- `awg_shape`, `awg_content_channels`, `awg_slice_all`, `awg_index_eq_slice`,
    `awg_delivered_in_unit`: their hypotheses hold for the two-position, two-channel example -/
example : ∃ d pkg, G3.Ex.seq.outputForAWGFile = .ok d ∧ d.pkg = some pkg := by
  obtain ⟨d, pkg, h, hp, _⟩ := G3.Ex.seq_awg_ok
  exact ⟨d, pkg, h, hp⟩

/-- ... and what is delivered there: channel 1 (amplitude 2, offset 1) holds 0, 1/2, 1 V at position
    1, delivered as -1, -1/2, 0; channel "A" (amplitude 1, offset 0) holds 0, -1/4, 1/4 V, delivered
    as 0, -1/2, 1/2; repetitions and goto in position order although position 2 was added first -/
example :
    (G3.Ex.seq.outputForAWGFile.toOption.bind (·.pkg)).map (·.channels) = some [.int 1, .str "A"] ∧
    (G3.Ex.seq.outputForAWGFile.toOption.bind (·.pkg)).map (fun pkg => pkg.wfms.map (·.map deliveredSamples)) =
      some [[some [-1, -1/2, 0], some [0, 1/2, 1]], [some [0, -1/2, 1/2], some [0, 0, 1/2]]] ∧
    (G3.Ex.seq.outputForAWGFile.toOption.bind (·.pkg)).map (fun pkg => (pkg.nreps, pkg.gotos)) =
      some ([5, 1], [0, 1]) := by decide +kernel

/-- `getItem_eq_getSlice`, `getSlice_all`, `select_getElem`: a package and an index meeting the hypotheses -/
example : ∃ (pkg : AWGPkg) (i : ℤ), 0 ≤ i ∧ i < pkg.wfms.length ∧ pkg.m1s.length = pkg.wfms.length ∧
    pkg.m2s.length = pkg.wfms.length ∧ ∀ j ∈ [1, 0], j < pkg.wfms.length := by
  obtain ⟨d, pkg, h, hp, _⟩ := G3.Ex.seq_awg_ok
  obtain ⟨P, _, _, hch, hw, h1, h2, _⟩ := awg_shape _ d pkg h hp
  have hc : pkg.channels = G3.Ex.chans := by
    rw [G3.Ex.seq_channels] at hch; exact (Except.ok.inj hch).symm
  have hl : pkg.wfms.length = 2 := by rw [hw, hc]; rfl
  refine ⟨pkg, 1, by omega, by omega, by omega, by omega, ?_⟩
  intro j hj
  simp only [List.mem_cons, List.not_mem_nil, or_false] at hj
  omega

/-- `getSlice_spec`: `pkg[0:2:1]` on a two-channel package -/
example : ∀ i ∈ pyRange 0 2 1, (0 : ℤ) ≤ i ∧ i < ((2 : ℕ) : ℤ) := by decide

/-- `getItem_out_of_range`: index 2 of a two-channel package -/
example : (2 : ℤ) < 0 ∨ ((2 : ℕ) : ℤ) ≤ 2 := by decide

/-- `awg_value_error` applied: channel 1 (range [0, 2]) reaches 2 + 1/1000 at position 2 -/
example : G3.Ex.seqBadV.outputForAWGFile = .error .value :=
  awg_value_error G3.Ex.seqBadV G3.Ex.PBadV G3.Ex.chans G3.Ex.seqBadV_prepare G3.Ex.seqBadV_channels
    (G3.numB_spec _ _ (by decide +kernel)) (G3.waveB_spec _ _ (by decide +kernel))
    1 (by decide +kernel) (.int 1) (by decide)
    { out := .arrays [("m1", [0, 0, 0]), ("m2", [1, 1, 1]), ("wfm", [1, 3/2, 2 + 1/1000])] none none }
    { blocks := [.raw [1, 3/2, 2 + 1/1000]] } [1, 3/2, 2 + 1/1000] 2 1 (2 + 1/1000)
    (G3.toOption_eq_some _ _ (by decide +kernel)) (by decide +kernel) (by decide +kernel)
    (by decide +kernel) (by decide +kernel) (by simp) (by norm_num)

/-- `awg_sequencing_error` applied: 65537 repetitions at position 2, every waveform evaluable -/
example : G3.Ex.seqBadRep.outputForAWGFile = .error .sequencing :=
  (awg_sequencing_error G3.Ex.seqBadRep G3.Ex.P G3.Ex.chans G3.Ex.seqBadRep_prepare G3.Ex.seqBadRep_channels
    (G3.numB_spec _ _ (by decide +kernel)) (cellsOk_of_check _ _ (by decide +kernel))
    (G3.awgRangeB_spec _ _ _ (by decide +kernel))
    1 (by decide +kernel) ⟨0, 65537, 0, 0, 1⟩ (by decide +kernel) (by decide)).2
    (G3.evalB_spec _ _ (by decide +kernel))

/-- `awg_accepts` applied: the two-position example meets every hypothesis -/
example : ∃ d pkg, G3.Ex.seq.outputForAWGFile = .ok d ∧ d.thenErr = none ∧ d.pkg = some pkg :=
  awg_accepts G3.Ex.seq G3.Ex.P G3.Ex.chans G3.Ex.seq_prepare G3.Ex.seq_channels
    (G3.numB_spec _ _ (by decide +kernel)) (cellsOk_of_check _ _ (by decide +kernel))
    (G3.awgRangeB_spec _ _ _ (by decide +kernel))
    (by
      have hl : G3.Ex.P.length = 2 := by decide +kernel
      have := G3.seqCheck_spec G3.Ex.seq 2 (fun q => decide ((q.twait = 0 ∨ q.twait = 1) ∧ (0 ≤ q.nrep ∧ q.nrep ≤ 65536) ∧
        (-1 ≤ q.jump_target ∧ q.jump_target ≤ 2) ∧ (0 ≤ q.goto ∧ q.goto ≤ 2))) (by decide +kernel)
      intro p hp q hq
      rw [hl] at hp ⊢
      simpa using this p hp q hq)

/-- `pkg[i]` holds exactly the three columns of channel `i` -/
theorem select_single (pkg : AWGPkg) (i : ℕ) (hi : i < pkg.wfms.length)
    (hm1 : pkg.m1s.length = pkg.wfms.length) (hm2 : pkg.m2s.length = pkg.wfms.length) :
    (select pkg [i]).wfms = [pkg.wfms[i]] ∧ (select pkg [i]).m1s = [pkg.m1s[i]'(by omega)] ∧
    (select pkg [i]).m2s = [pkg.m2s[i]'(by omega)] :=
  ⟨pick_single _ _ hi, pick_single _ _ (by omega), pick_single _ _ (by omega)⟩

/-- a slice reaching outside the existing channel indices (e.g. `pkg[0:5]` on two channels, or a
    negative index): KeyError, as `self._channels[ind]` raises in the code — nothing is truncated -/
theorem getSlice_out_of_range (pkg : AWGPkg) (a b c : ℤ) (hc : c ≠ 0)
    (i : ℤ) (hi : i ∈ pyRange a b c) (hout : i < 0 ∨ (pkg.wfms.length : ℤ) ≤ i) :
    getSlice pkg (some a) (some b) (some c) = .error .key := by
  have : awgSlice pkg.wfms.length (some a) (some b) (some c) = .error .key := by
    unfold awgSlice
    simp only [Option.getD_some, hc, if_false]
    apply G3.mapM_error_of
    · intro x _
      by_cases hx : 0 ≤ x ∧ x < (pkg.wfms.length : ℤ)
      · exact .inl ⟨x.toNat, by simp [hx]⟩
      · exact .inr (by simp [hx])
    · refine ⟨i, hi, ?_⟩
      have : ¬ (0 ≤ i ∧ i < (pkg.wfms.length : ℤ)) := by omega
      simp [this]
  simp [getSlice, this, Except.map]

/-- a zero step: ValueError (`range()` refuses it) -/
theorem getSlice_zero_step (pkg : AWGPkg) (a b : Option ℤ) : getSlice pkg a b (some 0) = .error .value := by
  simp [getSlice, awgSlice, Except.map]

/-- `getSlice_out_of_range`: `pkg[0:5]` on a two-channel package reaches index 2 -/
example : (2 : ℤ) ∈ pyRange 0 5 1 ∧ ((2 : ℤ) < 0 ∨ ((2 : ℕ) : ℤ) ≤ 2) := by decide

/-- **the side condition `CellsOk` in terms of what was stored**: if every channel of every stored
    element is a blueprint or a raw-array set given with 'm1' and 'm2' (`G3.entOkB`), the forged
    elements of `_prepareForOutputting` hold waveform and both markers on every channel — delays and
    filter compensation keep the kind of entry and the array names -/
theorem cellsOk_of_elements (s : Sequence) (P : List (Dict Chan ChOutF)) (chans : List Chan)
    (hP : s.prepareForOutputting = .ok P)
    (hst : ∀ p e ch ent, Dict.get? s.data p = some (.el e) → Dict.get? e.chans ch = some ent → G3.entOkB ent = true) :
    CellsOk P chans := by
  intro el hel ch _ c hc
  exact G3.prepare_cells_ok s P hP hst el hel ch c hc

/-- `cellsOk_of_elements` applied to the two-position raw-array example -/
example : CellsOk G3.Ex.P G3.Ex.chans :=
  cellsOk_of_elements G3.Ex.seq G3.Ex.P G3.Ex.chans G3.Ex.seq_prepare (G3.storedOkB_spec _ (by decide +kernel))

/-! ### model note: the empty waveform -/

/-- one position, one channel (amplitude 2, offset 0), raw arrays of length 0 -/
def emptySeq : Sequence :=
  { data := [(1, .el { chans := [(.int 1, { data := .arr [("m1", []), ("m2", []), ("wfm", [])] (.num 10) })] })],
    sequencing := [(1, ⟨0, 1, 0, 0, 0⟩)],
    awgspecs := [("SR", .val (.num 10)), ("channel1_amplitude", .val (.num 2)), ("channel1_offset", .val (.num 0))] }

/-- MODEL GAP (totalised `maxR [] = 0`): for an EMPTY raw waveform the model's `outputForAWGFile`
    delivers a package, whereas the code raises ValueError (`wfm.max()` of a zero-size numpy array;
    checked against broadbean: "zero-size array to reduction operation maximum which has no
    identity").  This is why `range_check_iff`, `awg_accepts` and `awg_sequencing_error` carry the
    guard `xs ≠ []`; `awg_delivered_in_unit` is vacuous (not wrong) for such a waveform. -/
example : (emptySeq.outputForAWGFile.toOption.map (fun d => (d.pkg.isSome, d.thenErr, d.obligations.length))) =
    some (true, none, 0) := by decide +kernel

end BB.C14

/-! ### capstone: the AWG5014 package is the forged sequence, rescaled (`outputForAWGFile` tied to `Sequence.forge`) -/
namespace BB.C14
open BB BB.Sequence

/-- helper (C14 first clause): evaluating a waveform does not look at the rescaling tag -/
theorem eval_resc (w : Wave) (r : Option (ℚ × ℚ)) : Wave.eval? { w with resc := r } = w.eval? := rfl

/-- helper (C14 first clause): the delivered samples of an evaluable, rescaled waveform -/
theorem deliveredSamples_resc (w : Wave) (a o : ℚ) (xs : List ℚ) (h : w.eval? = some xs) :
    deliveredSamples { w with resc := some (a, o) } = some (xs.map (fun v => Gen.rescaler v a o)) := by
  unfold deliveredSamples
  simp only [eval_resc, h, Option.map_some]

/-- **C14, first clause, end to end (`outputForAWGFile` vs. `Sequence.forge`)**: let the stored
    elements list no channel id twice (`ElemsWF`; true of everything the public API builds, see
    `awg_identical_to_forge`), let `outputForAWGFile` return (possibly with deferred range
    obligations) a package `pkg`, and let `forge(apply_delays=True, apply_filters=True)` return
    `out`.  Then `pkg.channels` is `Sequence.channels`, every column has one entry per forged
    position, and for every channel index `i` and position index `p`:
    `out[p]` is position `p + 1`, an element position with the single content entry 1; with `c` the
    channel `Sequence.channels[i]` of that entry, `w` its (delayed) waveform with its filter
    annotation (which is the call declared for that channel, `filterOf`) and `m1`, `m2` its marker
    arrays, the package holds at `[i][p]` exactly `w` tagged with the rescaling
    `(amplitude, offset)` of that channel and the *unmodified* `m1`, `m2`; and whenever `w` is
    evaluable (`xs`), every voltage lies in `[offset − amplitude/2, offset + amplitude/2]`, the
    delivered samples are `rescaler(v)`, which for a positive amplitude is `(v − offset)/(amplitude/2)`
    and lies in `[-1, 1]`. -/
theorem awg_identical_to_forge_wf (s : Sequence) (hwf : Sequence.ElemsWF s) (d : Deferred AWGPkg) (pkg : AWGPkg)
    (h : s.outputForAWGFile = .ok d) (hp : d.pkg = some pkg)
    (out : List (ℕ × ForgedPos)) (hF : s.forge true true false = .ok out) :
    s.channels = .ok pkg.channels ∧ out.length = s.data.length ∧
    pkg.wfms.length = pkg.channels.length ∧ pkg.m1s.length = pkg.channels.length ∧
    pkg.m2s.length = pkg.channels.length ∧
    (∀ col ∈ pkg.wfms, col.length = out.length) ∧ (∀ col ∈ pkg.m1s, col.length = out.length) ∧
    (∀ col ∈ pkg.m2s, col.length = out.length) ∧
    ∀ i (hi : i < pkg.channels.length) p (hpp : p < out.length), ∃ sq cont c w m1 m2 a o,
      out[p] = (p + 1, { sequencing := sq, isSub := false, content := [(1, cont, none)] }) ∧
      lookupCh cont pkg.channels[i] = .ok c ∧ chWave c = .ok w ∧ chMarker c 1 = .ok m1 ∧ chMarker c 2 = .ok m2 ∧
      s.filterOf pkg.channels[i] = .ok w.filt ∧
      s.specNum (keyOf pkg.channels[i] "amplitude") = some a ∧ s.specNum (keyOf pkg.channels[i] "offset") = some o ∧
      (pkg.wfms[i]?).bind (·[p]?) = some { w with resc := some (a, o) } ∧
      (pkg.m1s[i]?).bind (·[p]?) = some m1 ∧ (pkg.m2s[i]?).bind (·[p]?) = some m2 ∧
      ∀ xs, w.eval? = some xs →
        (∀ x ∈ xs, o - a / 2 ≤ x ∧ x ≤ o + a / 2) ∧
        deliveredSamples { w with resc := some (a, o) } = some (xs.map (fun v => Gen.rescaler v a o)) ∧
        (0 < a → xs.map (fun v => Gen.rescaler v a o) = xs.map (fun v => (v - o) / (a / 2)) ∧
          ∀ y ∈ xs.map (fun v => (v - o) / (a / 2)), -1 ≤ y ∧ y ≤ 1) := by
  obtain ⟨P, hP, hlen, hch, hwl, hm1l, hm2l, hcw, hc1, hc2, _⟩ := awg_shape s d pkg h hp
  obtain ⟨P', hP', _, hcell, _⟩ := awg_content_channels s d pkg h hp
  have hPP : P' = P := by
    rw [hP] at hP'
    exact (Except.ok.inj hP').symm
  subst hPP
  obtain ⟨hPF, hagree⟩ := C10.output_path_equals_forge s out P' hF hP (fun p e hg => hwf.get p e hg)
  refine ⟨hch, by omega, hwl, hm1l, hm2l, fun col hc => by rw [← hPF]; exact hcw col hc,
    fun col hc => by rw [← hPF]; exact hc1 col hc, fun col hc => by rw [← hPF]; exact hc2 col hc, ?_⟩
  intro i hi p hpp
  have hpP : p < P'.length := by omega
  obtain ⟨sq, _, hout⟩ := hagree p hpp hpP
  obtain ⟨ob, w', c, m1, m2, hck, hw', hc, hmk1, hmk2, hp1, hp2⟩ := hcell i hi p hpP
  obtain ⟨a, o, c', w0, ha, ho, hc', hw0, hweq, hev, _⟩ := awgCheckWave_ok s (p + 1) P'[p] pkg.channels[i] ob w' hck
  rw [hc] at hc'
  cases hc'
  have hfilt : s.filterOf pkg.channels[i] = .ok w0.filt := by
    have := Sequence.prepare_filters s P' hP p hpP (pkg.channels[i], c) (G9.lookup_mem _ _ _ hc)
    rw [G9.chWave_filt c w0 hw0]; exact this
  refine ⟨sq, P'[p], c, w0, m1, m2, a, o, hout, hc, hw0, hmk1, hmk2, hfilt, ha, ho, by rw [hw', hweq], hp1, hp2, ?_⟩
  intro xs hxs
  obtain ⟨hrc, _⟩ := hev xs hxs
  have hrange : ∀ x ∈ xs, o - a / 2 ≤ x ∧ x ≤ o + a / 2 := by
    intro x hx
    have hne : xs ≠ [] := by intro he; rw [he] at hx; simp at hx
    exact ((range_check_iff xs a o hne).1.mp hrc) x hx
  refine ⟨hrange, deliveredSamples_resc w0 a o xs hxs, fun hapos => ?_⟩
  have hmap : xs.map (fun v => Gen.rescaler v a o) = xs.map (fun v => (v - o) / (a / 2)) := by
    apply List.map_congr_left
    intro x _
    exact rescale_spec x a o (ne_of_gt hapos)
  refine ⟨hmap, ?_⟩
  rw [← hmap]
  intro y hy
  obtain ⟨x, hx, rfl⟩ := List.mem_map.mp hy
  exact rescale_range x a o hapos (hrange x hx).1 (hrange x hx).2

/-- **C14, first clause, end to end, for every sequence the public API builds**
    (`Sequence.ApiBuilt`): `awg_identical_to_forge_wf` without a hypothesis on the channel stores —
    the delivered cell `[i][p]` is the forged (delayed, compensated) waveform of channel
    `Sequence.channels[i]` at position `p + 1` tagged with that channel's rescaling, with the
    unmodified markers; evaluable waveforms are delivered as `(v − offset)/(amplitude/2)`, in `[-1, 1]` -/
theorem awg_identical_to_forge (s : Sequence) (hs : Sequence.ApiBuilt s) (d : Deferred AWGPkg) (pkg : AWGPkg)
    (h : s.outputForAWGFile = .ok d) (hp : d.pkg = some pkg)
    (out : List (ℕ × ForgedPos)) (hF : s.forge true true false = .ok out) :
    s.channels = .ok pkg.channels ∧ out.length = s.data.length ∧
    pkg.wfms.length = pkg.channels.length ∧ pkg.m1s.length = pkg.channels.length ∧
    pkg.m2s.length = pkg.channels.length ∧
    (∀ col ∈ pkg.wfms, col.length = out.length) ∧ (∀ col ∈ pkg.m1s, col.length = out.length) ∧
    (∀ col ∈ pkg.m2s, col.length = out.length) ∧
    ∀ i (hi : i < pkg.channels.length) p (hpp : p < out.length), ∃ sq cont c w m1 m2 a o,
      out[p] = (p + 1, { sequencing := sq, isSub := false, content := [(1, cont, none)] }) ∧
      lookupCh cont pkg.channels[i] = .ok c ∧ chWave c = .ok w ∧ chMarker c 1 = .ok m1 ∧ chMarker c 2 = .ok m2 ∧
      s.filterOf pkg.channels[i] = .ok w.filt ∧
      s.specNum (keyOf pkg.channels[i] "amplitude") = some a ∧ s.specNum (keyOf pkg.channels[i] "offset") = some o ∧
      (pkg.wfms[i]?).bind (·[p]?) = some { w with resc := some (a, o) } ∧
      (pkg.m1s[i]?).bind (·[p]?) = some m1 ∧ (pkg.m2s[i]?).bind (·[p]?) = some m2 ∧
      ∀ xs, w.eval? = some xs →
        (∀ x ∈ xs, o - a / 2 ≤ x ∧ x ≤ o + a / 2) ∧
        deliveredSamples { w with resc := some (a, o) } = some (xs.map (fun v => Gen.rescaler v a o)) ∧
        (0 < a → xs.map (fun v => Gen.rescaler v a o) = xs.map (fun v => (v - o) / (a / 2)) ∧
          ∀ y ∈ xs.map (fun v => (v - o) / (a / 2)), -1 ≤ y ∧ y ≤ 1) :=
  awg_identical_to_forge_wf s hs.elemsWF d pkg h hp out hF

/-- helper (C14 capstones): the stored elements of the raw-array example `G3.Ex.seq` list no channel id twice -/
theorem ex_seq_elemsWF : Sequence.ElemsWF G3.Ex.seq := by
  intro x hx e he
  simp only [G3.Ex.seq, List.mem_cons, List.not_mem_nil, or_false] at hx
  rcases hx with rfl | rfl <;> cases he <;> (unfold Dict.WF; decide)

/-- non-vacuity of `awg_identical_to_forge_wf`: the two-position raw-array example `G3.Ex.seq`
    (non-zero offset on channel 1) meets every hypothesis -/
example : Sequence.ElemsWF G3.Ex.seq ∧ (∃ d pkg, G3.Ex.seq.outputForAWGFile = .ok d ∧ d.pkg = some pkg) ∧
    (∃ out, G3.Ex.seq.forge true true false = .ok out) := by
  refine ⟨ex_seq_elemsWF, ?_, G3.isSome_toOption _ (by decide +kernel)⟩
  obtain ⟨d, pkg, h1, h2, _⟩ := G3.Ex.seq_awg_ok
  exact ⟨d, pkg, h1, h2⟩

/-- non-vacuity of `awg_identical_to_forge`: the example `G9Ex.awgSeq` — built through the public
    API, blueprint channel 1 delayed by two samples, raw channel "A", non-zero offset — meets
    every hypothesis -/
example : Sequence.ApiBuilt G9Ex.awgSeq ∧ (∃ d pkg, G9Ex.awgSeq.outputForAWGFile = .ok d ∧ d.pkg = some pkg) ∧
    (∃ out, G9Ex.awgSeq.forge true true false = .ok out) :=
  ⟨G9Ex.awgSeq_built, G9Ex.awgSeq_awg_ok, G9Ex.awgSeq_forge_ok⟩

/-- ... and what the theorem then says on it, computed: at position 1, channel 1 (amplitude 2,
    offset 1/2) is delivered as two zeros and the ramp 0 … 9/10 V, each mapped to `v − 1/2` -/
example : (G9Ex.awgSeq.outputForAWGFile.toOption.bind (·.pkg)).bind
      (fun pkg => ((pkg.wfms[0]?).bind (·[0]?)).bind deliveredSamples) =
    some [-1/2, -1/2, -1/2, -2/5, -3/10, -1/5, -1/10, 0, 1/10, 1/5, 3/10, 2/5] := by
  decide +kernel

/-! ### capstone: whole-sample delays, seen in the AWG5014 package -/

/-- **C14 first clause + C10, a delayed blueprint channel in the AWG5014 package**: under the
    hypotheses of `awg_identical_to_forge_wf`, let the element `e` at position `p + 1` hold on its
    `k`-th channel — which is `Sequence.channels[i]` — a blueprint `b` whose undelayed waveform
    evaluates to `ys`, and let the delay of that channel and the largest delay of the element's
    channels be the whole sample counts `D` and `M` (each padding absent or at least two samples).
    Then the delay is the one declared for that channel id, and the delivered waveform
    `pkg.wfms[i][p]` carries the channel's rescaling and declared filter call and consists of
    blocks that evaluate to `D` zeros, `ys`, `M − D` zeros; without a compensation (and with a
    positive amplitude) the delivered samples are exactly
    `(zeros D ++ ys ++ zeros (M − D))` mapped through `(v − offset)/(amplitude/2)`. -/
theorem awg_delayed_bp_channel_wf (s : Sequence) (hwf : Sequence.ElemsWF s) (d : Deferred AWGPkg) (pkg : AWGPkg)
    (h : s.outputForAWGFile = .ok d) (hp : d.pkg = some pkg)
    (out : List (ℕ × ForgedPos)) (hF : s.forge true true false = .ok out)
    (i : ℕ) (hi : i < pkg.channels.length) (p : ℕ) (hpp : p < s.data.length) (e : Element)
    (he : Dict.get? s.data ((p + 1 : ℕ) : ℤ) = some (.el e)) (ds : List ℚ) (hds : e.channels.mapM s.delayOf = .ok ds)
    (sr : ℚ) (hsr : e.getSR = .ok (.num sr)) (hsr0 : 0 < sr)
    (k : ℕ) (hk : k < e.chans.length) (hkd : k < ds.length) (hki : (e.chans[k]).1 = pkg.channels[i])
    (b : BP) (hb : (e.chans[k]).2.data = .bp b)
    (f : Forged) (hf : forgeBP b = .ok f) (ys : List ℚ) (hev : Wave.eval? { blocks := f.blocks } = some ys)
    (D M : ℕ) (hD : ds[k] * sr = D) (hM : maxR ds * sr = M)
    (hfront : D = 0 ∨ 2 ≤ D) (hback : M - D = 0 ∨ 2 ≤ M - D) :
    s.delayOf pkg.channels[i] = .ok ds[k] ∧ D ≤ M ∧
    ∃ w a o, (pkg.wfms[i]?).bind (·[p]?) = some w ∧
      s.specNum (keyOf pkg.channels[i] "amplitude") = some a ∧ s.specNum (keyOf pkg.channels[i] "offset") = some o ∧
      w.resc = some (a, o) ∧ s.filterOf pkg.channels[i] = .ok w.filt ∧
      Wave.eval? { blocks := w.blocks } = some (List.replicate D 0 ++ ys ++ List.replicate (M - D) 0) ∧
      (w.filt = none → 0 < a → deliveredSamples w =
        some ((List.replicate D 0 ++ ys ++ List.replicate (M - D) 0).map (fun v => (v - o) / (a / 2)))) := by
  obtain ⟨_, hlen, _, _, _, _, _, _, hcell⟩ := awg_identical_to_forge_wf s hwf d pkg h hp out hF
  have hpo : p < out.length := by omega
  obtain ⟨sq, cont, c, w, m1, m2, a, o, hout, hc, hw, _, _, hfilt, ha, ho, hcw, _, _, hxs⟩ := hcell i hi p hpo
  rw [← hki] at hc
  obtain ⟨hdel, hle, f', hco, _, hE⟩ := G9.cell_delayed_bp s true false out hF p hpo e he (hwf.get _ e he) ds hds sr hsr hsr0
    k hk hkd b hb f hf ys hev D M hD hM hfront hback sq cont hout c hc
  have hwb : w = { blocks := f'.blocks, filt := c.filt } := by
    simp only [chWave, hco, Except.ok.injEq] at hw
    exact hw.symm
  rw [hki] at hdel
  refine ⟨hdel, hle, { w with resc := some (a, o) }, a, o, hcw, ha, ho, rfl, hfilt, ?_, ?_⟩
  · rw [hwb]; exact hE
  · intro hnf hapos
    have hnf' : c.filt = none := by rw [hwb] at hnf; exact hnf
    have hev' : w.eval? = some (List.replicate D 0 ++ ys ++ List.replicate (M - D) 0) := by
      rw [hwb, hnf']; exact hE
    obtain ⟨_, hds', hmap⟩ := hxs _ hev'
    rw [hds', (hmap hapos).1]

/-- `awg_delayed_bp_channel_wf` for every sequence the public API builds -/
theorem awg_delayed_bp_channel (s : Sequence) (hs : Sequence.ApiBuilt s) (d : Deferred AWGPkg) (pkg : AWGPkg)
    (h : s.outputForAWGFile = .ok d) (hp : d.pkg = some pkg)
    (out : List (ℕ × ForgedPos)) (hF : s.forge true true false = .ok out)
    (i : ℕ) (hi : i < pkg.channels.length) (p : ℕ) (hpp : p < s.data.length) (e : Element)
    (he : Dict.get? s.data ((p + 1 : ℕ) : ℤ) = some (.el e)) (ds : List ℚ) (hds : e.channels.mapM s.delayOf = .ok ds)
    (sr : ℚ) (hsr : e.getSR = .ok (.num sr)) (hsr0 : 0 < sr)
    (k : ℕ) (hk : k < e.chans.length) (hkd : k < ds.length) (hki : (e.chans[k]).1 = pkg.channels[i])
    (b : BP) (hb : (e.chans[k]).2.data = .bp b)
    (f : Forged) (hf : forgeBP b = .ok f) (ys : List ℚ) (hev : Wave.eval? { blocks := f.blocks } = some ys)
    (D M : ℕ) (hD : ds[k] * sr = D) (hM : maxR ds * sr = M)
    (hfront : D = 0 ∨ 2 ≤ D) (hback : M - D = 0 ∨ 2 ≤ M - D) :
    s.delayOf pkg.channels[i] = .ok ds[k] ∧ D ≤ M ∧
    ∃ w a o, (pkg.wfms[i]?).bind (·[p]?) = some w ∧
      s.specNum (keyOf pkg.channels[i] "amplitude") = some a ∧ s.specNum (keyOf pkg.channels[i] "offset") = some o ∧
      w.resc = some (a, o) ∧ s.filterOf pkg.channels[i] = .ok w.filt ∧
      Wave.eval? { blocks := w.blocks } = some (List.replicate D 0 ++ ys ++ List.replicate (M - D) 0) ∧
      (w.filt = none → 0 < a → deliveredSamples w =
        some ((List.replicate D 0 ++ ys ++ List.replicate (M - D) 0).map (fun v => (v - o) / (a / 2)))) :=
  awg_delayed_bp_channel_wf s hs.elemsWF d pkg h hp out hF i hi p hpp e he ds hds sr hsr hsr0 k hk hkd hki b hb f hf ys hev
    D M hD hM hfront hback

/-- **... and a delayed raw-array channel in the AWG5014 package**: the delivered waveform
    `pkg.wfms[i][p]` is the single raw block `padArr D (M − D) wfm` — the stored 'wfm' array with `D`
    zeros in front and `M − D` behind — tagged with the channel's rescaling and declared filter
    call, and the delivered marker arrays are the stored 'm1' / 'm2' arrays padded the same way;
    without a compensation (and with a positive amplitude) the delivered samples are the padded
    array mapped through `(v − offset)/(amplitude/2)`. -/
theorem awg_delayed_raw_channel_wf (s : Sequence) (hwf : Sequence.ElemsWF s) (d : Deferred AWGPkg) (pkg : AWGPkg)
    (h : s.outputForAWGFile = .ok d) (hp : d.pkg = some pkg)
    (out : List (ℕ × ForgedPos)) (hF : s.forge true true false = .ok out)
    (i : ℕ) (hi : i < pkg.channels.length) (p : ℕ) (hpp : p < s.data.length) (e : Element)
    (he : Dict.get? s.data ((p + 1 : ℕ) : ℤ) = some (.el e)) (ds : List ℚ) (hds : e.channels.mapM s.delayOf = .ok ds)
    (sr : ℚ) (hsr : e.getSR = .ok (.num sr)) (hsr0 : 0 < sr)
    (k : ℕ) (hk : k < e.chans.length) (hkd : k < ds.length) (hki : (e.chans[k]).1 = pkg.channels[i])
    (arrs : Dict String (List ℚ)) (sv : Val) (ha : (e.chans[k]).2.data = .arr arrs sv)
    (D M : ℕ) (hD : ds[k] * sr = D) (hM : maxR ds * sr = M) :
    s.delayOf pkg.channels[i] = .ok ds[k] ∧
    ∃ w a o wfm r1 r2, (pkg.wfms[i]?).bind (·[p]?) = some w ∧
      s.specNum (keyOf pkg.channels[i] "amplitude") = some a ∧ s.specNum (keyOf pkg.channels[i] "offset") = some o ∧
      w.resc = some (a, o) ∧ s.filterOf pkg.channels[i] = .ok w.filt ∧
      Dict.get? arrs "wfm" = some wfm ∧ Dict.get? arrs "m1" = some r1 ∧ Dict.get? arrs "m2" = some r2 ∧
      w.blocks = [.raw (Element.padArr D (M - D) wfm)] ∧
      (pkg.m1s[i]?).bind (·[p]?) = some (Element.padArr D (M - D) r1) ∧
      (pkg.m2s[i]?).bind (·[p]?) = some (Element.padArr D (M - D) r2) ∧
      (w.filt = none → 0 < a → deliveredSamples w =
        some ((Element.padArr D (M - D) wfm).map (fun v => (v - o) / (a / 2)))) := by
  obtain ⟨_, hlen, _, _, _, _, _, _, hcell⟩ := awg_identical_to_forge_wf s hwf d pkg h hp out hF
  have hpo : p < out.length := by omega
  obtain ⟨sq, cont, c, w, m1, m2, a, o, hout, hc, hw, hmk1, hmk2, hfilt, ha', ho, hcw, hp1, hp2, hxs⟩ := hcell i hi p hpo
  rw [← hki] at hc
  obtain ⟨hdel, a', tm, hco, hget⟩ := G9.cell_delayed_raw s true false out hF p hpo e he (hwf.get _ e he) ds hds sr hsr hsr0
    k hk hkd arrs sv ha D M hD hM sq cont hout c hc
  rw [hki] at hdel
  -- the three arrays the output method reads
  have key : ∀ name xs, Dict.get? a' name = some xs → ∃ r, Dict.get? arrs name = some r ∧ xs = Element.padArr D (M - D) r := by
    intro name xs hx
    rw [hget name] at hx
    cases hr : Dict.get? arrs name with
    | none => rw [hr] at hx; cases hx
    | some r =>
      rw [hr] at hx
      simp only [Option.map_some, Option.some.injEq] at hx
      exact ⟨r, rfl, hx.symm⟩
  simp only [chWave, hco] at hw
  simp only [chMarker, hco, if_true] at hmk1
  simp only [chMarker, hco] at hmk2
  cases hgw : Dict.get? a' "wfm" with
  | none => rw [hgw] at hw; cases hw
  | some xs =>
    rw [hgw] at hw
    simp only [Except.ok.injEq] at hw
    cases hg1 : Dict.get? a' "m1" with
    | none => rw [hg1] at hmk1; cases hmk1
    | some x1 =>
      rw [hg1] at hmk1
      simp only [Except.ok.injEq] at hmk1
      have hne : (2 : ℕ) ≠ 1 := by decide
      simp only [hne, if_false] at hmk2
      cases hg2 : Dict.get? a' "m2" with
      | none => rw [hg2] at hmk2; cases hmk2
      | some x2 =>
        rw [hg2] at hmk2
        simp only [Except.ok.injEq] at hmk2
        obtain ⟨wfm, hwfm, rfl⟩ := key "wfm" xs hgw
        obtain ⟨r1, hr1, rfl⟩ := key "m1" x1 hg1
        obtain ⟨r2, hr2, rfl⟩ := key "m2" x2 hg2
        subst hmk1 hmk2
        refine ⟨hdel, { w with resc := some (a, o) }, a, o, wfm, r1, r2, hcw, ha', ho, rfl, hfilt, hwfm, hr1, hr2,
          by rw [← hw], hp1, hp2, ?_⟩
        intro hnf hapos
        have hev' : w.eval? = some (Element.padArr D (M - D) wfm) := by
          have hnf' : c.filt = none := by rw [← hw] at hnf; exact hnf
          rw [← hw, hnf']
          simp [Wave.eval?, Blk.eval?]
        obtain ⟨_, hds', hmap⟩ := hxs _ hev'
        rw [hds', (hmap hapos).1]

/-- `awg_delayed_raw_channel_wf` for every sequence the public API builds -/
theorem awg_delayed_raw_channel (s : Sequence) (hs : Sequence.ApiBuilt s) (d : Deferred AWGPkg) (pkg : AWGPkg)
    (h : s.outputForAWGFile = .ok d) (hp : d.pkg = some pkg)
    (out : List (ℕ × ForgedPos)) (hF : s.forge true true false = .ok out)
    (i : ℕ) (hi : i < pkg.channels.length) (p : ℕ) (hpp : p < s.data.length) (e : Element)
    (he : Dict.get? s.data ((p + 1 : ℕ) : ℤ) = some (.el e)) (ds : List ℚ) (hds : e.channels.mapM s.delayOf = .ok ds)
    (sr : ℚ) (hsr : e.getSR = .ok (.num sr)) (hsr0 : 0 < sr)
    (k : ℕ) (hk : k < e.chans.length) (hkd : k < ds.length) (hki : (e.chans[k]).1 = pkg.channels[i])
    (arrs : Dict String (List ℚ)) (sv : Val) (ha : (e.chans[k]).2.data = .arr arrs sv)
    (D M : ℕ) (hD : ds[k] * sr = D) (hM : maxR ds * sr = M) :
    s.delayOf pkg.channels[i] = .ok ds[k] ∧
    ∃ w a o wfm r1 r2, (pkg.wfms[i]?).bind (·[p]?) = some w ∧
      s.specNum (keyOf pkg.channels[i] "amplitude") = some a ∧ s.specNum (keyOf pkg.channels[i] "offset") = some o ∧
      w.resc = some (a, o) ∧ s.filterOf pkg.channels[i] = .ok w.filt ∧
      Dict.get? arrs "wfm" = some wfm ∧ Dict.get? arrs "m1" = some r1 ∧ Dict.get? arrs "m2" = some r2 ∧
      w.blocks = [.raw (Element.padArr D (M - D) wfm)] ∧
      (pkg.m1s[i]?).bind (·[p]?) = some (Element.padArr D (M - D) r1) ∧
      (pkg.m2s[i]?).bind (·[p]?) = some (Element.padArr D (M - D) r2) ∧
      (w.filt = none → 0 < a → deliveredSamples w =
        some ((Element.padArr D (M - D) wfm).map (fun v => (v - o) / (a / 2)))) :=
  awg_delayed_raw_channel_wf s hs.elemsWF d pkg h hp out hF i hi p hpp e he ds hds sr hsr hsr0 k hk hkd hki arrs sv ha D M hD hM

/-- helper (C14 capstones, non-vacuity): the package channels of the example are `[1, "A"]` -/
theorem ex_awgSeq_channels : G9Ex.awgSeq.channels = .ok [.int 1, .str "A"] :=
  G3.toOption_eq_some _ _ (by decide +kernel)

/-- non-vacuity of `awg_delayed_bp_channel` / `awg_delayed_raw_channel` on `G9Ex.awgSeq` (besides
    `ApiBuilt`, a delivered package and a successful `forge`, shown above): position 1 holds the
    example element; its channel 0 is `Sequence.channels[0]` and holds the ramp blueprint, whose
    undelayed waveform evaluates; its channel 1 is `Sequence.channels[1]` and holds raw arrays with
    'wfm', 'm1', 'm2'; the delays are `[1/5, 0]` s at 10 Sa/s: `D = 2, M = 2` for channel 1 and
    `D = 0, M = 2` for channel "A" -/
example : Dict.get? G9Ex.awgSeq.data ((0 + 1 : ℕ) : ℤ) = some (.el G9Ex.awgStored) ∧
    G9Ex.awgStored.channels.mapM G9Ex.awgSeq.delayOf = .ok [1/5, 0] ∧
    G9Ex.awgStored.getSR = .ok (.num 10) ∧
    G9Ex.awgStored.channels = [.int 1, .str "A"] ∧
    (G9Ex.awgStored.chans[0]'(by decide +kernel)).2.data = .bp G4Ex.exBP ∧
    (G9Ex.awgStored.chans[1]'(by decide +kernel)).2.data =
      .arr [("m1", List.replicate 10 0), ("m2", List.replicate 10 1), ("wfm", List.replicate 10 (1/4))] (.num 10) ∧
    (forgeBP G4Ex.exBP).toOption.bind (fun f => Wave.eval? { blocks := f.blocks }) =
      some [0, 1/10, 2/10, 3/10, 4/10, 5/10, 6/10, 7/10, 8/10, 9/10] ∧
    ((1 : ℚ) / 5) * 10 = (2 : ℕ) ∧ maxR [1/5, 0] * 10 = (2 : ℕ) ∧ (0 : ℚ) * 10 = (0 : ℕ) := by
  refine ⟨G9Ex.awgSeq_pos1, by decide +kernel, by decide +kernel, by decide +kernel, by decide +kernel,
    by decide +kernel, by decide +kernel, by norm_num, by decide +kernel, by norm_num⟩

/-- ... and the outcome, computed: channel "A" (amplitude 1, offset 0; 10 samples at 1/4 V, not
    delayed while channel 1 is delayed by 2 samples) is delivered as `2 · (1/4 ×10 ++ 0 ×2)`, its
    marker 2 as the stored ones followed by two zeros -/
example : (G9Ex.awgSeq.outputForAWGFile.toOption.bind (·.pkg)).map
      (fun pkg => (((pkg.wfms[1]?).bind (·[0]?)).bind deliveredSamples, (pkg.m2s[1]?).bind (·[0]?))) =
    some (some [1/2, 1/2, 1/2, 1/2, 1/2, 1/2, 1/2, 1/2, 1/2, 1/2, 0, 0], some [1, 1, 1, 1, 1, 1, 1, 1, 1, 1, 0, 0]) := by
  decide +kernel

end BB.C14

namespace BB.C14
open BB BB.Sequence

/-- `awg_delayed_bp_channel` applied to `G9Ex.awgSeq`: channel 1 (amplitude 2, offset 1/2, delayed by
    2 of 2 samples, no compensation) is delivered at position 1 as two zeros followed by the ramp,
    every voltage mapped through `(v − 1/2)/(2/2)` -/
example : ∃ d pkg w, G9Ex.awgSeq.outputForAWGFile = .ok d ∧ d.pkg = some pkg ∧ (pkg.wfms[0]?).bind (·[0]?) = some w ∧
    deliveredSamples w = some ((List.replicate 2 (0 : ℚ) ++ [0, 1/10, 2/10, 3/10, 4/10, 5/10, 6/10, 7/10, 8/10, 9/10] ++
      List.replicate (2 - 2) 0).map (fun v : ℚ => (v - 1/2) / (2 / 2))) := by
  obtain ⟨d, pkg, h, hp⟩ := G9Ex.awgSeq_awg_ok
  obtain ⟨out, hF⟩ := G9Ex.awgSeq_forge_ok
  have hch : pkg.channels = [.int 1, .str "A"] := by
    have := (awg_identical_to_forge G9Ex.awgSeq G9Ex.awgSeq_built d pkg h hp out hF).1
    rw [ex_awgSeq_channels] at this
    exact (Except.ok.inj this).symm
  have hi : 0 < pkg.channels.length := by rw [hch]; decide
  have h0 : pkg.channels[0] = .int 1 := by simp only [hch]; rfl
  obtain ⟨f, hf⟩ := G3.isSome_toOption (forgeBP G4Ex.exBP) (by decide +kernel)
  have hev : Wave.eval? { blocks := f.blocks } = some [0, 1/10, 2/10, 3/10, 4/10, 5/10, 6/10, 7/10, 8/10, 9/10] := by
    have : (forgeBP G4Ex.exBP).toOption.bind (fun f => Wave.eval? { blocks := f.blocks }) =
        some [0, 1/10, 2/10, 3/10, 4/10, 5/10, 6/10, 7/10, 8/10, 9/10] := by decide +kernel
    rw [hf] at this
    exact this
  obtain ⟨_, _, w, a, o, hw, ha, ho, _, hfl, _, hds⟩ :=
    awg_delayed_bp_channel G9Ex.awgSeq G9Ex.awgSeq_built d pkg h hp out hF 0 hi 0 (by decide +kernel)
      G9Ex.awgStored G9Ex.awgSeq_pos1 [1/5, 0] (by decide +kernel) 10 (by decide +kernel) (by norm_num)
      0 (by decide +kernel) (by decide) (by rw [h0]; decide +kernel) G4Ex.exBP (by decide +kernel) f hf _ hev 2 2
      (by norm_num) (by decide +kernel) (.inr (le_refl 2)) (.inl rfl)
  rw [h0] at ha ho hfl
  have ha' : a = 2 := by
    have : G9Ex.awgSeq.specNum (keyOf (.int 1) "amplitude") = some 2 := by decide +kernel
    rw [this] at ha; exact (Option.some.inj ha).symm
  have ho' : o = 1/2 := by
    have : G9Ex.awgSeq.specNum (keyOf (.int 1) "offset") = some (1/2) := by decide +kernel
    rw [this] at ho; exact (Option.some.inj ho).symm
  have hnf : w.filt = none := by
    have : G9Ex.awgSeq.filterOf (.int 1) = .ok none := by decide +kernel
    rw [this] at hfl; exact (Except.ok.inj hfl).symm
  subst ha' ho'
  exact ⟨d, pkg, w, h, hp, hw, hds hnf (by norm_num)⟩

/-! ### why the capstones assume that `forge` succeeds: negative delays -/

/-- the example `G9Ex.awgSeq` with the delay of channel 1 set to −1/5 s -/
def negDelaySeq : Sequence := SeqCore.setChannelDelay G9Ex.awgSeq (.int 1) (.num (-1/5))

/-- **the hypothesis `forge … = .ok out` of the capstone theorems cannot be derived from the success
    of the output method**: with a *negative* channel delay `forge` raises ValueError
    (`_applyDelays`: "Negative delays not allowed"), whereas `_prepareForOutputting` has no such
    check — `outputForAWGFile` delivers a package, in which channel 1 got `maxdelay − delay` = 2
    samples of zeros appended (12 points) while channel "A" keeps 10 points.  Checked against
    broadbean itself: `forge()` raises, `outputForAWGFile()` returns waveforms of 12 and 10 points.
    (Negative delays are outside C10's quantifier; the two paths agree whenever both succeed.) -/
example : (match negDelaySeq.forge true true false with | .error e => some e | .ok _ => none) = some Err.value ∧
    (negDelaySeq.outputForAWGFile.toOption.bind (·.pkg)).map (fun pkg => pkg.wfms.map (·.map Wave.len)) =
      some [[12, 12], [10, 10]] := by
  constructor <;> decide +kernel

end BB.C14
