/-
  Property C12 — ripasso filters multiply every DFT bin by the stated transfer function.

  `applyRCFilter(signal, SR, kind, f_cut, order, DCgain)` is
  `real(ifft(fft(signal) · _rcFilter(SR, N, f_cut, kind, order, DCgain)))`; in the model that is
  `DFT.applyTF x (RC.gridHP/gridLP …)`, where the grid is built from the kernels regenerated from
  `_rcFilter` (`BB.Gen.Real.rcHP/rcLP/rcPatch/rcPow/rcOrderForward/rcOrderInverse`).
  Signals are functions `ZMod N → ℂ` with real values; the theorems hold for every `N ≥ 1`, odd
  or even, every real signal, sample rate, cut-off, integer order and DC gain.
  Exact arithmetic; the floating-point evaluation by numpy is compared numerically by the
  correspondence check (partial w.r.t. floating point and FFT accuracy).
-/
import BB.Proofs.RC
import Mathlib.Data.Rat.Floor

namespace BB.C12
open ZMod Complex ComplexConjugate BB.Gen.Real BB.DFT BB.RC
variable {N : ℕ} [NeZero N]

/-! ### the filters as the code composes them -/

/-- `applyRCFilter(x, SR, 'HP', f_cut, order, DCgain)` -/
noncomputable def applyHP (x : ZMod N → ℂ) (SR fc DCgain : ℝ) (order : ℤ) : ZMod N → ℂ :=
  applyTF x (gridHP SR fc DCgain (rcOrderForward order))

/-- `applyRCFilter(x, SR, 'LP', f_cut, order)` -/
noncomputable def applyLP (x : ZMod N → ℂ) (SR fc : ℝ) (order : ℤ) : ZMod N → ℂ :=
  applyTF x (gridLP SR fc (rcOrderForward order))

/-- `applyInverseRCFilter(x, SR, 'HP', f_cut, order, DCgain)` -/
noncomputable def applyInvHP (x : ZMod N → ℂ) (SR fc DCgain : ℝ) (order : ℤ) : ZMod N → ℂ :=
  applyTF x (gridHP SR fc DCgain (rcOrderInverse order))

/-- `applyInverseRCFilter(x, SR, 'LP', f_cut, order)` -/
noncomputable def applyInvLP (x : ZMod N → ℂ) (SR fc : ℝ) (order : ℤ) : ZMod N → ℂ :=
  applyTF x (gridLP SR fc (rcOrderInverse order))

/-- the forward filter uses `+order`, the compensation `−order` (regenerated from the two calls
    of `_rcFilter`) -/
theorem order_signs (order : ℤ) : rcOrderForward order = order ∧ rcOrderInverse order = -order := ⟨rfl, rfl⟩

/-! ### the output: real, of the input length (a function on the same `ZMod N`) -/

theorem outputs_real (x : ZMod N → ℂ) (SR fc DCgain : ℝ) (order : ℤ) :
    IsReal (applyHP x SR fc DCgain order) ∧ IsReal (applyLP x SR fc order) ∧
    IsReal (applyInvHP x SR fc DCgain order) ∧ IsReal (applyInvLP x SR fc order) :=
  ⟨applyTF_real _ _, applyTF_real _ _, applyTF_real _ _, applyTF_real _ _⟩

/-! ### every bin below Nyquist is multiplied by H(f)^order -/

/-- high pass: bin `k ≠ Nyquist` of the output is the input's bin times `H(f_k)^order`, where
    `H` is the DC-patched first-order response on the fftfreq grid -/
theorem hp_bins (x : ZMod N → ℂ) (hx : IsReal x) (SR fc DCgain : ℝ) (order : ℤ) (k : ZMod N) (hny : 2 * k.val ≠ N) :
    𝓕 (applyHP x SR fc DCgain order) k = 𝓕 x k * (baseHP SR fc DCgain k) ^ order :=
  dft_applyTF x _ hx k (gridHP_herm SR fc DCgain _ k hny)

theorem lp_bins (x : ZMod N → ℂ) (hx : IsReal x) (SR fc : ℝ) (order : ℤ) (k : ZMod N) (hny : 2 * k.val ≠ N) :
    𝓕 (applyLP x SR fc order) k = 𝓕 x k * (baseLP SR fc k) ^ order :=
  dft_applyTF x _ hx k (gridLP_herm SR fc _ k hny)

/-- compensation: the same with `H(f)^(−order)` -/
theorem inv_hp_bins (x : ZMod N → ℂ) (hx : IsReal x) (SR fc DCgain : ℝ) (order : ℤ) (k : ZMod N) (hny : 2 * k.val ≠ N) :
    𝓕 (applyInvHP x SR fc DCgain order) k = 𝓕 x k * (baseHP SR fc DCgain k) ^ (-order) :=
  dft_applyTF x _ hx k (gridHP_herm SR fc DCgain _ k hny)

theorem inv_lp_bins (x : ZMod N → ℂ) (hx : IsReal x) (SR fc : ℝ) (order : ℤ) (k : ZMod N) (hny : 2 * k.val ≠ N) :
    𝓕 (applyInvLP x SR fc order) k = 𝓕 x k * (baseLP SR fc k) ^ (-order) :=
  dft_applyTF x _ hx k (gridLP_herm SR fc _ k hny)

/-- what `H` is: `i·ωτ/(1+i·ωτ)` for HP away from DC, the stated DC gain at `f = 0`,
    `1/(1+i·ωτ)` for LP; `ω = 2π f_k`, `τ = 1/f_cut`, `f_k` the fftfreq frequency of bin `k` -/
theorem H_values (SR fc DCgain : ℝ) (hSR : SR ≠ 0) (hfc : fc ≠ 0) (k : ZMod N) :
    (k ≠ 0 → baseHP SR fc DCgain k =
        (I * (2 * Real.pi * freq N SR k * (1 / fc) : ℝ)) / (1 + I * (2 * Real.pi * freq N SR k * (1 / fc) : ℝ))) ∧
    baseHP (N := N) SR fc DCgain 0 = DCgain ∧
    baseLP SR fc k = 1 / (1 + I * (2 * Real.pi * freq N SR k * (1 / fc) : ℝ)) := by
  refine ⟨fun hk => ?_, baseHP_dc SR fc DCgain, ?_⟩
  · rw [baseHP_value SR fc DCgain hSR hfc k hk, rcHP_value]
  · unfold baseLP; rw [rcLP_value]

/-- the frequency of bin `k` on the fftfreq grid: `k·SR/N` up to `(N−1)/2`, `(k−N)·SR/N` above -/
theorem freq_value (SR : ℝ) (k : ZMod N) :
    freq N SR k = (if k.val < (N + 1) / 2 then (k.val : ℝ) else (k.val : ℝ) - N) * SR / N := by
  unfold freq fftIdx
  split <;> simp

/-- at the Nyquist bin itself the input's (real) component is multiplied by the real part of the
    grid value -/
theorem hp_nyquist (x : ZMod N → ℂ) (hx : IsReal x) (SR fc DCgain : ℝ) (order : ℤ) (k : ZMod N) (hk : -k = k) :
    𝓕 (applyHP x SR fc DCgain order) k = 𝓕 x k * (((baseHP SR fc DCgain k) ^ order).re : ℂ) :=
  dft_applyTF_nyquist x _ hx k hk

/-! ### linearity in the signal -/

theorem hp_linear (x y : ZMod N → ℂ) (a b : ℝ) (SR fc DCgain : ℝ) (order : ℤ) :
    applyHP (fun j => (a : ℂ) * x j + (b : ℂ) * y j) SR fc DCgain order =
      fun j => (a : ℂ) * applyHP x SR fc DCgain order j + (b : ℂ) * applyHP y SR fc DCgain order j :=
  applyTF_linear x y _ a b

theorem lp_linear (x y : ZMod N → ℂ) (a b : ℝ) (SR fc : ℝ) (order : ℤ) :
    applyLP (fun j => (a : ℂ) * x j + (b : ℂ) * y j) SR fc order =
      fun j => (a : ℂ) * applyLP x SR fc order j + (b : ℂ) * applyLP y SR fc order j :=
  applyTF_linear x y _ a b

theorem inv_linear (x y : ZMod N → ℂ) (a b : ℝ) (SR fc DCgain : ℝ) (order : ℤ) :
    applyInvHP (fun j => (a : ℂ) * x j + (b : ℂ) * y j) SR fc DCgain order =
      (fun j => (a : ℂ) * applyInvHP x SR fc DCgain order j + (b : ℂ) * applyInvHP y SR fc DCgain order j) ∧
    applyInvLP (fun j => (a : ℂ) * x j + (b : ℂ) * y j) SR fc order =
      (fun j => (a : ℂ) * applyInvLP x SR fc order j + (b : ℂ) * applyInvLP y SR fc order j) :=
  ⟨applyTF_linear x y _ a b, applyTF_linear x y _ a b⟩

/-! ### custom transfer function -/

/-- the frequency axis as `applyCustomTransferFunction` splits and reassembles it:
    `interp(freqax[:(N+1)//2])` followed by `interp(-freqax[(N+1)//2:][::-1])[::-1]` -/
def customAssemble {α : Type} (interp : ℚ → α) (freqax : List ℚ) (N : ℕ) : List α :=
  let pos := freqax.take ((N + 1) / 2)
  let neg := freqax.drop ((N + 1) / 2)
  pos.map interp ++ ((neg.reverse.map (fun f => -f)).map interp).reverse

/-- … which is the transfer function interpolated at `f` on the first half and at `−f` on the
    second, bin by bin, for odd and even lengths alike -/
theorem customAssemble_spec {α : Type} (interp : ℚ → α) (freqax : List ℚ) (N : ℕ) :
    customAssemble interp freqax N =
      (freqax.take ((N + 1) / 2)).map interp ++ (freqax.drop ((N + 1) / 2)).map (fun f => interp (-f)) := by
  unfold customAssemble
  simp [List.map_reverse, List.map_map, Function.comp_def]

/-- the fftfreq axis as rationals -/
def freqaxQ (N : ℕ) (SR : ℚ) : List ℚ := (List.range N).map (fun j => (fftIdx N j : ℚ) * SR / N)

theorem fftIdx_nonneg_iff (N j : ℕ) (hj : j < N) : 0 ≤ fftIdx N j ↔ j < (N + 1) / 2 := by
  unfold fftIdx; split <;> omega

/-- **every bin gets the transfer function interpolated at |f|**: entry `j` of the assembled
    array is `interp |f_j|` (for `SR > 0`) -/
theorem custom_grid (interp : ℚ → ℚ) (N : ℕ) (SR : ℚ) (hSR : 0 < SR) (j : ℕ) (hj : j < N) :
    (customAssemble interp (freqaxQ N SR) N)[j]? = some (interp |(fftIdx N j : ℚ) * SR / N|) := by
  rw [customAssemble_spec]
  have hN : (0 : ℚ) < N := by exact_mod_cast (by omega : 0 < N)
  have hlen : (freqaxQ N SR).length = N := by simp [freqaxQ]
  by_cases h : j < (N + 1) / 2
  · rw [List.getElem?_append_left (by simp [hlen]; omega)]
    simp only [List.getElem?_map, List.getElem?_take, h, if_true]
    have : (freqaxQ N SR)[j]? = some ((fftIdx N j : ℚ) * SR / N) := by simp [freqaxQ, hj]
    rw [this]
    simp only [Option.map_some, Option.some.injEq]
    congr 1
    rw [abs_of_nonneg]
    have := (fftIdx_nonneg_iff N j hj).mpr h
    have h2 : (0 : ℚ) ≤ fftIdx N j := by exact_mod_cast this
    positivity
  · have hle : (N + 1) / 2 ≤ N := by omega
    rw [List.getElem?_append_right (by simp [hlen]; omega)]
    simp only [List.length_map, List.length_take, hlen, Nat.min_eq_left hle, List.getElem?_map, List.getElem?_drop]
    have e : (N + 1) / 2 + (j - (N + 1) / 2) = j := by omega
    rw [e]
    have : (freqaxQ N SR)[j]? = some ((fftIdx N j : ℚ) * SR / N) := by simp [freqaxQ, hj]
    rw [this]
    simp only [Option.map_some, Option.some.injEq]
    congr 1
    have hneg : fftIdx N j < 0 := by
      have := (fftIdx_nonneg_iff N j hj).not.mpr h
      omega
    have h2 : (fftIdx N j : ℚ) < 0 := by exact_mod_cast hneg
    rw [abs_of_neg]
    have : (fftIdx N j : ℚ) * SR < 0 := mul_neg_of_neg_of_pos h2 hSR
    exact div_neg_of_neg_of_pos this hN

/-- a real transfer function that depends on |f| only is Hermitian on the grid, so the custom
    filter multiplies (or, inverted, divides) every bin below Nyquist by it -/
theorem custom_bins (x : ZMod N → ℂ) (hx : IsReal x) (SR : ℝ) (T : ℝ → ℝ) (p : ℤ) (k : ZMod N)
    (hny : 2 * k.val ≠ N) :
    𝓕 (applyTF x (fun k => ((T |freq N SR k| : ℝ) : ℂ) ^ p)) k = 𝓕 x k * ((T |freq N SR k| : ℝ) : ℂ) ^ p := by
  apply dft_applyTF x _ hx k
  simp only [map_zpow₀, conj_ofReal]
  by_cases hk : k = 0
  · subst hk; simp
  · rw [freq_neg SR k hk hny, abs_neg]

theorem custom_linear (x y : ZMod N → ℂ) (a b : ℝ) (H : ZMod N → ℂ) :
    applyTF (fun j => (a : ℂ) * x j + (b : ℂ) * y j) H =
      fun j => (a : ℂ) * applyTF x H j + (b : ℂ) * applyTF y H j := applyTF_linear x y H a b

/-- the validation of the frequency axis: differences rounded to 6 decimals must all be positive
    and the last point must reach `SR/2` -/
def axisOk (tf_freqs : List ℚ) (SR : ℚ) (round6 : ℚ → ℚ) : Bool :=
  ((tf_freqs.zip tf_freqs.tail).all (fun (a, b) => 0 < round6 (b - a))) &&
  (match tf_freqs.getLast? with | some l => SR / 2 ≤ l | none => false)

/-- a strictly increasing axis whose increments survive the rounding and which reaches Nyquist is
    accepted; an axis with a non-increasing step or one that stops short is not -/
theorem axisOk_rejects (tf_freqs : List ℚ) (SR : ℚ) (round6 : ℚ → ℚ) :
    ((∃ p ∈ tf_freqs.zip tf_freqs.tail, round6 (p.2 - p.1) ≤ 0) → axisOk tf_freqs SR round6 = false) ∧
    ((∀ l, tf_freqs.getLast? = some l → l < SR / 2) → axisOk tf_freqs SR round6 = false) := by
  constructor
  · rintro ⟨p, hp, hle⟩
    unfold axisOk
    have : (tf_freqs.zip tf_freqs.tail).all (fun (a, b) => decide (0 < round6 (b - a))) = false := by
      rw [List.all_eq_false]
      exact ⟨p, hp, by simpa using hle⟩
    simp [this]
  · intro h
    unfold axisOk
    cases hl : tf_freqs.getLast? with
    | none => simp
    | some l =>
      have := h l hl
      simp only [Bool.and_eq_false_iff, decide_eq_false_iff_not, not_le]
      right; exact this

end BB.C12
