/-
  Property C12 — ripasso filters multiply every DFT bin by the stated transfer function.

  `applyRCFilter(signal, SR, kind, f_cut, order, DCgain)` is
  `real(ifft(fft(signal) · _rcFilter(SR, N, f_cut, kind, order, DCgain)))`; in the model that is
  `DFT.applyTF x (RC.gridHP/gridLP …)`, where the grid is built from the kernels regenerated from
  `_rcFilter` (`BB.Gen.Real.rcHP/rcLP/rcPatch/rcPow/rcOrderForward/rcOrderInverse`).
  Signals are functions `ZMod N → ℂ` with real values; the theorems hold for every `N ≥ 1`, odd
  or even, every real signal, sample rate, cut-off, integer order and DC gain.
  Exact arithmetic; the floating-point evaluation by numpy is compared numerically by the
  correspondence check (partial w.r.t. floating point and FFT accuracy).
-/
import BB.Proofs.RC
import BB.Proofs.G7Interp
import BB.Proofs.G7Round6
import BB.Model.Blueprint
import BB.Model.Ripasso
import Mathlib.Data.Rat.Floor

namespace BB.C12
open ZMod Complex ComplexConjugate BB.Gen.Real BB.DFT BB.RC
variable {N : ℕ} [NeZero N]

/-! ### the filters as the code composes them -/

/-- `applyRCFilter(x, SR, 'HP', f_cut, order, DCgain)` -/
noncomputable def applyHP (x : ZMod N → ℂ) (SR fc DCgain : ℝ) (order : ℤ) : ZMod N → ℂ :=
  applyTF x (gridHP SR fc DCgain (rcOrderForward order))

/-- `applyRCFilter(x, SR, 'LP', f_cut, order)` -/
noncomputable def applyLP (x : ZMod N → ℂ) (SR fc : ℝ) (order : ℤ) : ZMod N → ℂ :=
  applyTF x (gridLP SR fc (rcOrderForward order))

/-- `applyInverseRCFilter(x, SR, 'HP', f_cut, order, DCgain)` -/
noncomputable def applyInvHP (x : ZMod N → ℂ) (SR fc DCgain : ℝ) (order : ℤ) : ZMod N → ℂ :=
  applyTF x (gridHP SR fc DCgain (rcOrderInverse order))

/-- `applyInverseRCFilter(x, SR, 'LP', f_cut, order)` -/
noncomputable def applyInvLP (x : ZMod N → ℂ) (SR fc : ℝ) (order : ℤ) : ZMod N → ℂ :=
  applyTF x (gridLP SR fc (rcOrderInverse order))

/-- the forward filter uses `+order`, the compensation `−order` (regenerated from the two calls
    of `_rcFilter`) -/
theorem order_signs (order : ℤ) : rcOrderForward order = order ∧ rcOrderInverse order = -order := ⟨rfl, rfl⟩

/-! ### the output: real, of the input length (a function on the same `ZMod N`) -/

theorem outputs_real (x : ZMod N → ℂ) (SR fc DCgain : ℝ) (order : ℤ) :
    IsReal (applyHP x SR fc DCgain order) ∧ IsReal (applyLP x SR fc order) ∧
    IsReal (applyInvHP x SR fc DCgain order) ∧ IsReal (applyInvLP x SR fc order) :=
  ⟨applyTF_real _ _, applyTF_real _ _, applyTF_real _ _, applyTF_real _ _⟩

/-! ### every bin below Nyquist is multiplied by H(f)^order -/

/-- high pass: bin `k ≠ Nyquist` of the output is the input's bin times `H(f_k)^order`, where
    `H` is the DC-patched first-order response on the fftfreq grid -/
theorem hp_bins (x : ZMod N → ℂ) (hx : IsReal x) (SR fc DCgain : ℝ) (order : ℤ) (k : ZMod N) (hny : 2 * k.val ≠ N) :
    𝓕 (applyHP x SR fc DCgain order) k = 𝓕 x k * (baseHP SR fc DCgain k) ^ order :=
  dft_applyTF x _ hx k (gridHP_herm SR fc DCgain _ k hny)

theorem lp_bins (x : ZMod N → ℂ) (hx : IsReal x) (SR fc : ℝ) (order : ℤ) (k : ZMod N) (hny : 2 * k.val ≠ N) :
    𝓕 (applyLP x SR fc order) k = 𝓕 x k * (baseLP SR fc k) ^ order :=
  dft_applyTF x _ hx k (gridLP_herm SR fc _ k hny)

/-- compensation: the same with `H(f)^(−order)` -/
theorem inv_hp_bins (x : ZMod N → ℂ) (hx : IsReal x) (SR fc DCgain : ℝ) (order : ℤ) (k : ZMod N) (hny : 2 * k.val ≠ N) :
    𝓕 (applyInvHP x SR fc DCgain order) k = 𝓕 x k * (baseHP SR fc DCgain k) ^ (-order) :=
  dft_applyTF x _ hx k (gridHP_herm SR fc DCgain _ k hny)

theorem inv_lp_bins (x : ZMod N → ℂ) (hx : IsReal x) (SR fc : ℝ) (order : ℤ) (k : ZMod N) (hny : 2 * k.val ≠ N) :
    𝓕 (applyInvLP x SR fc order) k = 𝓕 x k * (baseLP SR fc k) ^ (-order) :=
  dft_applyTF x _ hx k (gridLP_herm SR fc _ k hny)

/-- what `H` is: `i·ωτ/(1+i·ωτ)` for HP away from DC, the stated DC gain at `f = 0`,
    `1/(1+i·ωτ)` for LP; `ω = 2π f_k`, `τ = 1/f_cut`, `f_k` the fftfreq frequency of bin `k` -/
theorem H_values (SR fc DCgain : ℝ) (hSR : SR ≠ 0) (hfc : fc ≠ 0) (k : ZMod N) :
    (k ≠ 0 → baseHP SR fc DCgain k =
        (I * (2 * Real.pi * freq N SR k * (1 / fc) : ℝ)) / (1 + I * (2 * Real.pi * freq N SR k * (1 / fc) : ℝ))) ∧
    baseHP (N := N) SR fc DCgain 0 = DCgain ∧
    baseLP SR fc k = 1 / (1 + I * (2 * Real.pi * freq N SR k * (1 / fc) : ℝ)) := by
  refine ⟨fun hk => ?_, baseHP_dc SR fc DCgain, ?_⟩
  · rw [baseHP_value SR fc DCgain hSR hfc k hk, rcHP_value]
  · unfold baseLP; rw [rcLP_value]

/-- the frequency of bin `k` on the fftfreq grid: `k·SR/N` up to `(N−1)/2`, `(k−N)·SR/N` above -/
theorem freq_value (SR : ℝ) (k : ZMod N) :
    freq N SR k = (if k.val < (N + 1) / 2 then (k.val : ℝ) else (k.val : ℝ) - N) * SR / N := by
  unfold freq fftIdx
  split <;> simp

/-- at the Nyquist bin itself the input's (real) component is multiplied by the real part of the
    grid value -/
theorem hp_nyquist (x : ZMod N → ℂ) (hx : IsReal x) (SR fc DCgain : ℝ) (order : ℤ) (k : ZMod N) (hk : -k = k) :
    𝓕 (applyHP x SR fc DCgain order) k = 𝓕 x k * (((baseHP SR fc DCgain k) ^ order).re : ℂ) :=
  dft_applyTF_nyquist x _ hx k hk

/-! ### linearity in the signal -/

theorem hp_linear (x y : ZMod N → ℂ) (a b : ℝ) (SR fc DCgain : ℝ) (order : ℤ) :
    applyHP (fun j => (a : ℂ) * x j + (b : ℂ) * y j) SR fc DCgain order =
      fun j => (a : ℂ) * applyHP x SR fc DCgain order j + (b : ℂ) * applyHP y SR fc DCgain order j :=
  applyTF_linear x y _ a b

theorem lp_linear (x y : ZMod N → ℂ) (a b : ℝ) (SR fc : ℝ) (order : ℤ) :
    applyLP (fun j => (a : ℂ) * x j + (b : ℂ) * y j) SR fc order =
      fun j => (a : ℂ) * applyLP x SR fc order j + (b : ℂ) * applyLP y SR fc order j :=
  applyTF_linear x y _ a b

theorem inv_linear (x y : ZMod N → ℂ) (a b : ℝ) (SR fc DCgain : ℝ) (order : ℤ) :
    applyInvHP (fun j => (a : ℂ) * x j + (b : ℂ) * y j) SR fc DCgain order =
      (fun j => (a : ℂ) * applyInvHP x SR fc DCgain order j + (b : ℂ) * applyInvHP y SR fc DCgain order j) ∧
    applyInvLP (fun j => (a : ℂ) * x j + (b : ℂ) * y j) SR fc order =
      (fun j => (a : ℂ) * applyInvLP x SR fc order j + (b : ℂ) * applyInvLP y SR fc order j) :=
  ⟨applyTF_linear x y _ a b, applyTF_linear x y _ a b⟩

/-! ### custom transfer function -/

/-- the frequency axis as `applyCustomTransferFunction` splits and reassembles it:
    `interp(freqax[:(N+1)//2])` followed by `interp(-freqax[(N+1)//2:][::-1])[::-1]` -/
def customAssemble {α : Type} (interp : ℚ → α) (freqax : List ℚ) (N : ℕ) : List α :=
  let pos := freqax.take ((N + 1) / 2)
  let neg := freqax.drop ((N + 1) / 2)
  pos.map interp ++ ((neg.reverse.map (fun f => -f)).map interp).reverse

/-- … which is the transfer function interpolated at `f` on the first half and at `−f` on the
    second, bin by bin, for odd and even lengths alike -/
theorem customAssemble_spec {α : Type} (interp : ℚ → α) (freqax : List ℚ) (N : ℕ) :
    customAssemble interp freqax N =
      (freqax.take ((N + 1) / 2)).map interp ++ (freqax.drop ((N + 1) / 2)).map (fun f => interp (-f)) := by
  unfold customAssemble
  simp [List.map_reverse, List.map_map, Function.comp_def]

/-- the fftfreq axis as rationals -/
def freqaxQ (N : ℕ) (SR : ℚ) : List ℚ := (List.range N).map (fun j => (fftIdx N j : ℚ) * SR / N)

theorem fftIdx_nonneg_iff (N j : ℕ) (hj : j < N) : 0 ≤ fftIdx N j ↔ j < (N + 1) / 2 := by
  unfold fftIdx; split <;> omega

/-- **every bin gets the transfer function interpolated at |f|**: entry `j` of the assembled
    array is `interp |f_j|` (for `SR > 0`) -/
theorem custom_grid (interp : ℚ → ℚ) (N : ℕ) (SR : ℚ) (hSR : 0 < SR) (j : ℕ) (hj : j < N) :
    (customAssemble interp (freqaxQ N SR) N)[j]? = some (interp |(fftIdx N j : ℚ) * SR / N|) := by
  rw [customAssemble_spec]
  have hN : (0 : ℚ) < N := by exact_mod_cast (by omega : 0 < N)
  have hlen : (freqaxQ N SR).length = N := by simp [freqaxQ]
  by_cases h : j < (N + 1) / 2
  · rw [List.getElem?_append_left (by simp [hlen]; omega)]
    simp only [List.getElem?_map, List.getElem?_take, h, if_true]
    have : (freqaxQ N SR)[j]? = some ((fftIdx N j : ℚ) * SR / N) := by simp [freqaxQ, hj]
    rw [this]
    simp only [Option.map_some, Option.some.injEq]
    congr 1
    rw [abs_of_nonneg]
    have := (fftIdx_nonneg_iff N j hj).mpr h
    have h2 : (0 : ℚ) ≤ fftIdx N j := by exact_mod_cast this
    positivity
  · have hle : (N + 1) / 2 ≤ N := by omega
    rw [List.getElem?_append_right (by simp [hlen]; omega)]
    simp only [List.length_map, List.length_take, hlen, Nat.min_eq_left hle, List.getElem?_map, List.getElem?_drop]
    have e : (N + 1) / 2 + (j - (N + 1) / 2) = j := by omega
    rw [e]
    have : (freqaxQ N SR)[j]? = some ((fftIdx N j : ℚ) * SR / N) := by simp [freqaxQ, hj]
    rw [this]
    simp only [Option.map_some, Option.some.injEq]
    congr 1
    have hneg : fftIdx N j < 0 := by
      have := (fftIdx_nonneg_iff N j hj).not.mpr h
      omega
    have h2 : (fftIdx N j : ℚ) < 0 := by exact_mod_cast hneg
    rw [abs_of_neg]
    have : (fftIdx N j : ℚ) * SR < 0 := mul_neg_of_neg_of_pos h2 hSR
    exact div_neg_of_neg_of_pos this hN

/-- a real transfer function that depends on |f| only is Hermitian on the grid, so the custom
    filter multiplies (or, inverted, divides) every bin below Nyquist by it -/
theorem custom_bins (x : ZMod N → ℂ) (hx : IsReal x) (SR : ℝ) (T : ℝ → ℝ) (p : ℤ) (k : ZMod N)
    (hny : 2 * k.val ≠ N) :
    𝓕 (applyTF x (fun k => ((T |freq N SR k| : ℝ) : ℂ) ^ p)) k = 𝓕 x k * ((T |freq N SR k| : ℝ) : ℂ) ^ p := by
  apply dft_applyTF x _ hx k
  simp only [map_zpow₀, conj_ofReal]
  by_cases hk : k = 0
  · subst hk; simp
  · rw [freq_neg SR k hk hny, abs_neg]

theorem custom_linear (x y : ZMod N → ℂ) (a b : ℝ) (H : ZMod N → ℂ) :
    applyTF (fun j => (a : ℂ) * x j + (b : ℂ) * y j) H =
      fun j => (a : ℂ) * applyTF x H j + (b : ℂ) * applyTF y H j := applyTF_linear x y H a b

/-- the validation of the frequency axis: differences rounded to 6 decimals must all be positive
    and the last point must reach `SR/2` -/
def axisOk (tf_freqs : List ℚ) (SR : ℚ) (round6 : ℚ → ℚ) : Bool :=
  ((tf_freqs.zip tf_freqs.tail).all (fun (a, b) => 0 < round6 (b - a))) &&
  (match tf_freqs.getLast? with | some l => SR / 2 ≤ l | none => false)

/-- a strictly increasing axis whose increments survive the rounding and which reaches Nyquist is
    accepted; an axis with a non-increasing step or one that stops short is not -/
theorem axisOk_rejects (tf_freqs : List ℚ) (SR : ℚ) (round6 : ℚ → ℚ) :
    ((∃ p ∈ tf_freqs.zip tf_freqs.tail, round6 (p.2 - p.1) ≤ 0) → axisOk tf_freqs SR round6 = false) ∧
    ((∀ l, tf_freqs.getLast? = some l → l < SR / 2) → axisOk tf_freqs SR round6 = false) := by
  constructor
  · rintro ⟨p, hp, hle⟩
    unfold axisOk
    have : (tf_freqs.zip tf_freqs.tail).all (fun (a, b) => decide (0 < round6 (b - a))) = false := by
      rw [List.all_eq_false]
      exact ⟨p, hp, by simpa using hle⟩
    simp [this]
  · intro h
    unfold axisOk
    cases hl : tf_freqs.getLast? with
    | none => simp
    | some l =>
      have := h l hl
      simp only [Bool.and_eq_false_iff, decide_eq_false_iff_not, not_le]
      right; exact this

/-! ## the public operations, with their argument checks (round 8)

  `applyRC inverse x SR kind f_cut order DCgain` is `applyRCFilter` (`inverse = false`) /
  `applyInverseRCFilter` (`inverse = true`) of ripasso.py in exact arithmetic: the two guards
  (`kind not in ["HP","LP"]`, `not DCgain > 0`, regenerated as `Gen.filterKinds` /
  `Gen.dcGainBad`), then `real(ifft(fft(x)·_rcFilter(SR, N, f_cut, kind, ±order, DCgain)))`.
  `applyCustomC x SR tf_freqs tf_amp invert` is `applyCustomTransferFunction`.
  Same shape as the executable `Float` model `BB.Rip.applyRC` / `BB.Rip.applyCustom`
  (Model/Ripasso.lean), which the correspondence check compares with the implementation. -/

open BB.G7

/-- the first-order response `_rcFilter` uses for a (checked) kind: `if kind == "HP": … elif
    kind == "LP": …` -/
noncomputable def rcBase (kind : String) (SR fc DCgain : ℝ) (k : ZMod N) : ℂ :=
  if kind = "HP" then baseHP SR fc DCgain k else baseLP SR fc k

/-- `_rcFilter(SR, N, f_cut, kind, order, DCgain)[k]` for a (checked) kind -/
noncomputable def rcGrid (kind : String) (SR fc DCgain : ℝ) (order : ℤ) (k : ZMod N) : ℂ :=
  if kind = "HP" then gridHP SR fc DCgain order k else gridLP SR fc order k

/-- `applyRCFilter` (`inverse = false`) and `applyInverseRCFilter` (`inverse = true`) -/
noncomputable def applyRC (inverse : Bool) (x : ZMod N → ℂ) (SR : ℝ) (kind : String) (fc : ℝ) (order : ℤ)
    (DCgain : ℚ) : Except Err (ZMod N → ℂ) :=
  if kind ∉ Gen.filterKinds then .error .value
  else if inverse && Gen.dcGainBad DCgain then .error .value
  else .ok (applyTF x (rcGrid kind SR fc (DCgain : ℝ)
        (if inverse then rcOrderInverse order else rcOrderForward order)))

/-- `applyRCFilter(signal, SR, kind, f_cut, order, DCgain=0)` -/
noncomputable def applyRCFilter (x : ZMod N → ℂ) (SR : ℝ) (kind : String) (fc : ℝ) (order : ℤ) (DCgain : ℚ := 0) :=
  applyRC false x SR kind fc order DCgain

/-- `applyInverseRCFilter(signal, SR, kind, f_cut, order, DCgain=1)` -/
noncomputable def applyInverseRCFilter (x : ZMod N → ℂ) (SR : ℝ) (kind : String) (fc : ℝ) (order : ℤ) (DCgain : ℚ := 1) :=
  applyRC true x SR kind fc order DCgain

omit [NeZero N] in
theorem rcGrid_eq_pow (kind : String) (SR fc DCgain : ℝ) (order : ℤ) (k : ZMod N) :
    rcGrid kind SR fc DCgain order k = (rcBase kind SR fc DCgain k) ^ order := by
  unfold rcGrid rcBase gridHP gridLP rcPow
  split <;> rfl

theorem rcGrid_herm (kind : String) (SR fc DCgain : ℝ) (order : ℤ) (k : ZMod N) (hny : 2 * k.val ≠ N) :
    conj (rcGrid kind SR fc DCgain order (-k)) = rcGrid kind SR fc DCgain order k := by
  unfold rcGrid
  split
  · exact gridHP_herm SR fc DCgain order k hny
  · exact gridLP_herm SR fc order k hny

omit [NeZero N] in
/-- the response the public operation uses is the high-pass response for `"HP"` and the low-pass
    response for `"LP"` (whose values `H_values` states) -/
theorem rcBase_kinds (SR fc DCgain : ℝ) (k : ZMod N) :
    rcBase "HP" SR fc DCgain k = baseHP SR fc DCgain k ∧ rcBase "LP" SR fc DCgain k = baseLP SR fc k := by
  constructor
  · simp [rcBase]
  · simp [rcBase]

/-- **what `H` is at the public operation**: `"HP"` → `i·ωτ/(1+i·ωτ)` away from DC and the stated
    DC gain at `f = 0`; `"LP"` → `1/(1+i·ωτ)`; `ω = 2π·f_k`, `τ = 1/f_cut` -/
theorem rcBase_values (SR fc DCgain : ℝ) (hSR : SR ≠ 0) (hfc : fc ≠ 0) (k : ZMod N) :
    (k ≠ 0 → rcBase "HP" SR fc DCgain k =
        (I * (2 * Real.pi * freq N SR k * (1 / fc) : ℝ)) / (1 + I * (2 * Real.pi * freq N SR k * (1 / fc) : ℝ))) ∧
    rcBase (N := N) "HP" SR fc DCgain 0 = DCgain ∧
    rcBase "LP" SR fc DCgain k = 1 / (1 + I * (2 * Real.pi * freq N SR k * (1 / fc) : ℝ)) := by
  rw [(rcBase_kinds SR fc DCgain k).1, (rcBase_kinds SR fc DCgain k).2, (rcBase_kinds SR fc DCgain 0).1]
  exact H_values SR fc DCgain hSR hfc k

/-- **dispatch on the kind**: the public operations are the four pipelines `applyHP`, `applyLP`,
    `applyInvHP`, `applyInvLP` of the first part of this file; the compensation needs a positive
    DC gain for both kinds (the check comes before the dispatch) -/
theorem applyRC_dispatch (x : ZMod N → ℂ) (SR fc : ℝ) (order : ℤ) (DCgain : ℚ) :
    applyRC false x SR "HP" fc order DCgain = .ok (applyHP x SR fc DCgain order) ∧
    applyRC false x SR "LP" fc order DCgain = .ok (applyLP x SR fc order) ∧
    (0 < DCgain → applyRC true x SR "HP" fc order DCgain = .ok (applyInvHP x SR fc DCgain order)) ∧
    (0 < DCgain → applyRC true x SR "LP" fc order DCgain = .ok (applyInvLP x SR fc order)) := by
  refine ⟨?_, ?_, fun h => ?_, fun h => ?_⟩
  · simp [applyRC, Gen.filterKinds, applyHP]; rfl
  · simp [applyRC, Gen.filterKinds, applyLP]; rfl
  · simp [applyRC, Gen.filterKinds, Gen.dcGainBad, h, applyInvHP]; rfl
  · simp [applyRC, Gen.filterKinds, Gen.dcGainBad, h, applyInvLP]; rfl

example : (0 : ℚ) < 1 := by decide

/-- the defaults: `applyRCFilter` has `DCgain = 0`, `applyInverseRCFilter` has `DCgain = 1` -/
theorem applyRC_defaults (x : ZMod N → ℂ) (SR fc : ℝ) (order : ℤ) :
    applyRCFilter x SR "HP" fc order = .ok (applyHP x SR fc 0 order) ∧
    applyInverseRCFilter x SR "HP" fc order = .ok (applyInvHP x SR fc 1 order) := by
  constructor
  · have := (applyRC_dispatch x SR fc order 0).1
    simpa [applyRCFilter] using this
  · have := (applyRC_dispatch x SR fc order 1).2.2.1 (by norm_num)
    simpa [applyInverseRCFilter] using this

/-- **when the public operation raises**: exactly for an unknown kind, or — compensation only — a
    DC gain that is not positive; it is always a `ValueError` -/
theorem applyRC_error_iff (inverse : Bool) (x : ZMod N → ℂ) (SR fc : ℝ) (kind : String) (order : ℤ) (DCgain : ℚ) :
    applyRC inverse x SR kind fc order DCgain = .error .value ↔
      (kind ≠ "HP" ∧ kind ≠ "LP") ∨ (inverse = true ∧ DCgain ≤ 0) := by
  unfold applyRC
  by_cases hk : kind ∈ Gen.filterKinds
  · have hk2 : ¬ (kind ≠ "HP" ∧ kind ≠ "LP") := by
      simp only [Gen.filterKinds, List.mem_cons, List.not_mem_nil, or_false] at hk
      tauto
    simp only [hk, not_true_eq_false, if_false, hk2, false_or]
    cases inverse
    · simp
    · simp [Gen.dcGainBad]
  · have hk2 : kind ≠ "HP" ∧ kind ≠ "LP" := by
      simp only [Gen.filterKinds, List.mem_cons, List.not_mem_nil, or_false, not_or] at hk
      exact hk
    simp [hk, hk2]

/-- … and otherwise it succeeds (no other exception) -/
theorem applyRC_ok_iff (inverse : Bool) (x : ZMod N → ℂ) (SR fc : ℝ) (kind : String) (order : ℤ) (DCgain : ℚ) :
    (∃ y, applyRC inverse x SR kind fc order DCgain = .ok y) ↔
      (kind = "HP" ∨ kind = "LP") ∧ (inverse = true → 0 < DCgain) := by
  unfold applyRC
  by_cases hk : kind ∈ Gen.filterKinds
  · have hk2 : kind = "HP" ∨ kind = "LP" := by
      simpa [Gen.filterKinds] using hk
    simp only [hk, not_true_eq_false, if_false, hk2, true_and]
    cases inverse
    · simp
    · by_cases hd : 0 < DCgain
      · simp [Gen.dcGainBad, hd]
      · simp [Gen.dcGainBad, hd]
  · have hk2 : ¬ (kind = "HP" ∨ kind = "LP") := by
      simpa [Gen.filterKinds] using hk
    simp [hk, hk2]

example : (∃ y, applyRC (N := 4) true (fun _ => 1) 10 "LP" 3 2 (1/2) = .ok y) :=
  (applyRC_ok_iff (N := 4) true _ 10 3 "LP" 2 (1/2)).mpr ⟨Or.inr rfl, fun _ => by norm_num⟩

/-- what a successful call returns -/
theorem applyRC_ok (inverse : Bool) (x y : ZMod N → ℂ) (SR fc : ℝ) (kind : String) (order : ℤ) (DCgain : ℚ)
    (h : applyRC inverse x SR kind fc order DCgain = .ok y) :
    y = applyTF x (rcGrid kind SR fc (DCgain : ℝ) (if inverse then -order else order)) := by
  unfold applyRC at h
  split at h
  · cases h
  · split at h
    · cases h
    · have := Except.ok.inj h
      rw [← this]
      cases inverse <;> rfl

/-- **C12, public statement for both kinds and both directions**: whenever
    `applyRCFilter` / `applyInverseRCFilter` returns, the result is a real signal of the input
    length and every bin other than Nyquist (in particular every bin below the Nyquist frequency)
    is the input's bin times `H(f_k)^order`, respectively `H(f_k)^(−order)`, with `H` the response
    of the requested kind -/
theorem applyRC_bins (inverse : Bool) (x y : ZMod N → ℂ) (hx : IsReal x) (SR fc : ℝ) (kind : String) (order : ℤ)
    (DCgain : ℚ) (h : applyRC inverse x SR kind fc order DCgain = .ok y) :
    IsReal y ∧ ∀ k : ZMod N, 2 * k.val ≠ N →
      𝓕 y k = 𝓕 x k * (rcBase kind SR fc (DCgain : ℝ) k) ^ (if inverse then -order else order) := by
  have hy := applyRC_ok inverse x y SR fc kind order DCgain h
  subst hy
  refine ⟨applyTF_real _ _, fun k hny => ?_⟩
  rw [dft_applyTF x _ hx k (rcGrid_herm kind SR fc _ _ k hny), rcGrid_eq_pow]

example : applyRC (N := 5) false (fun _ => 1) 10 "HP" 3 2 0 =
    .ok (applyTF (fun _ => 1) (rcGrid "HP" 10 3 ((0 : ℚ) : ℝ) 2)) := by
  simp [applyRC, Gen.filterKinds, rcOrderForward]

/-- at the Nyquist bin (even `N`, `k = N/2`) the public operation multiplies the input's real
    component by the real part of the grid value -/
theorem applyRC_nyquist (inverse : Bool) (x y : ZMod N → ℂ) (hx : IsReal x) (SR fc : ℝ) (kind : String) (order : ℤ)
    (DCgain : ℚ) (h : applyRC inverse x SR kind fc order DCgain = .ok y) (k : ZMod N) (hk : -k = k) :
    𝓕 y k = 𝓕 x k *
      ((((rcBase kind SR fc (DCgain : ℝ) k) ^ (if inverse then -order else order)).re : ℝ) : ℂ) := by
  have hy := applyRC_ok inverse x y SR fc kind order DCgain h
  subst hy
  rw [dft_applyTF_nyquist x _ hx k hk, rcGrid_eq_pow]

/-- **linearity** of the public operation: it accepts `a·x + b·y` whenever it accepts `x`
    (acceptance does not depend on the signal) and returns the same combination of the results -/
theorem applyRC_linear (inverse : Bool) (x y fx fy : ZMod N → ℂ) (a b : ℝ) (SR fc : ℝ) (kind : String) (order : ℤ)
    (DCgain : ℚ) (h1 : applyRC inverse x SR kind fc order DCgain = .ok fx)
    (h2 : applyRC inverse y SR kind fc order DCgain = .ok fy) :
    applyRC inverse (fun j => (a : ℂ) * x j + (b : ℂ) * y j) SR kind fc order DCgain =
      .ok (fun j => (a : ℂ) * fx j + (b : ℂ) * fy j) := by
  have e1 := applyRC_ok inverse x fx SR fc kind order DCgain h1
  have e2 := applyRC_ok inverse y fy SR fc kind order DCgain h2
  obtain ⟨z, hz⟩ := (applyRC_ok_iff inverse (fun j => (a : ℂ) * x j + (b : ℂ) * y j) SR fc kind order DCgain).mpr
    ((applyRC_ok_iff inverse x SR fc kind order DCgain).mp ⟨fx, h1⟩)
  rw [hz, applyRC_ok inverse _ z SR fc kind order DCgain hz, applyTF_linear, e1, e2]

/-! ### division by zero in `_rcFilter` (what Lean's `0⁻¹ = 0` would hide) -/

/-- the only zero of the patched response is the DC bin of a high pass with `DCgain = 0`; raised to
    a **negative** order (`applyRCFilter(…, order < 0)` with the default `DCgain = 0`) numpy
    computes `0j ** -n` = `inf+nanj` and the whole output is `nan`.  In Lean `0 ^ (−n) = 0`, so
    the theorems above say "the DC bin is removed" for that call: an artefact.  Guard:
    `DCgain ≠ 0 ∨ 0 ≤ order` (always true for `applyInverseRCFilter`, which requires
    `DCgain > 0`). -/
theorem hp_dc_negative_order_artifact (SR fc : ℝ) (order : ℤ) (ho : order < 0) :
    gridHP (N := N) SR fc 0 order 0 = 0 := by
  unfold gridHP rcPow
  rw [baseHP_dc]
  simp [zero_zpow _ (ne_of_lt ho)]

/-- under the guard no power of zero with a negative exponent is ever taken: every grid value
    is a non-zero number to an integer power, or zero to a non-negative power -/
theorem rc_no_zero_division (kind : String) (SR fc : ℝ) (DCgain : ℝ) (order : ℤ)
    (hg : DCgain ≠ 0 ∨ 0 ≤ order) (k : ZMod N) :
    rcBase kind SR fc DCgain k ≠ 0 ∨ 0 ≤ order := by
  unfold rcBase
  split
  · rcases hg with hg | hg
    · exact Or.inl (baseHP_ne_zero SR fc DCgain hg k)
    · exact Or.inr hg
  · exact Or.inl (baseLP_ne_zero SR fc k)

example : ((1 : ℝ) ≠ 0 ∨ (0 : ℤ) ≤ -2) := Or.inl one_ne_zero

/-- the compensation never meets the zero: a positive DC gain makes every grid value non-zero -/
theorem inverse_no_zero_division (kind : String) (SR fc : ℝ) (DCgain : ℚ) (hd : 0 < DCgain) (k : ZMod N) :
    rcBase kind SR fc (DCgain : ℝ) k ≠ 0 := by
  unfold rcBase
  split
  · exact baseHP_ne_zero SR fc _ (by exact_mod_cast hd.ne') k
  · exact baseLP_ne_zero SR fc k

/-! ### `applyCustomTransferFunction` -/

/-- the validation with numpy's own rounding: `np.diff(tf_freqs).round(6) > 0` everywhere and
    `tf_freqs[-1] >= SR/2` -/
def axisOk6 (tf_freqs : List ℚ) (SR : ℚ) : Bool := axisOk tf_freqs SR round6

/-- `transferfun = concatenate((interp(freqax_pos), interp(-freqax_neg[::-1])[::-1]))` -/
def customTF (N : ℕ) (SR : ℚ) (tfFreqs tfAmp : List ℚ) : List ℚ :=
  customAssemble (interpQ tfFreqs tfAmp) (freqaxQ N SR) N

/-- `applyCustomTransferFunction(signal, SR, tf_freqs, tf_amp, invert)`: the two axis checks
    (`ValueError`, then `IndexError` on an empty axis / `MissingFrequenciesError`), `np.interp`'s
    own length check (`ValueError`), then `real(ifft(fft(x) · transferfun**(±1)))` -/
noncomputable def applyCustomC (x : ZMod N → ℂ) (SR : ℚ) (tfFreqs tfAmp : List ℚ) (invert : Bool) :
    Except Err (ZMod N → ℂ) :=
  if !((tfFreqs.zip tfFreqs.tail).all (fun (a, b) => 0 < round6 (b - a))) then .error .value
  else match tfFreqs.getLast? with
    | none => .error .index
    | some l =>
      if ¬ (SR / 2 ≤ l) then .error .missingfreq
      else if tfAmp.length ≠ tfFreqs.length then .error .value
      else .ok (applyTF x (fun k => (((customTF N SR tfFreqs tfAmp).getD k.val 0 : ℚ) : ℂ) ^ (if invert then (-1 : ℤ) else 1)))

/-- **acceptance ⇔**: the axis is accepted exactly when every rounded difference is positive and
    the last point reaches `SR/2` -/
theorem axisOk_iff (tf_freqs : List ℚ) (SR : ℚ) (r : ℚ → ℚ) :
    axisOk tf_freqs SR r = true ↔
      (∀ p ∈ tf_freqs.zip tf_freqs.tail, 0 < r (p.2 - p.1)) ∧ ∃ l, tf_freqs.getLast? = some l ∧ SR / 2 ≤ l := by
  unfold axisOk
  rw [Bool.and_eq_true, List.all_eq_true]
  constructor
  · rintro ⟨h1, h2⟩
    refine ⟨fun p hp => by simpa using h1 p hp, ?_⟩
    cases hl : tf_freqs.getLast? with
    | none => simp [hl] at h2
    | some l => exact ⟨l, rfl, by simpa [hl] using h2⟩
  · rintro ⟨h1, l, hl, h2⟩
    exact ⟨fun p hp => by simpa using h1 p hp, by simpa [hl] using h2⟩

/-- with numpy's rounding to six decimals: accepted ⇔ every step exceeds `5·10⁻⁷` and the last
    point reaches `SR/2` -/
theorem axisOk6_iff (tf_freqs : List ℚ) (SR : ℚ) :
    axisOk6 tf_freqs SR = true ↔
      (∀ p ∈ tf_freqs.zip tf_freqs.tail, 1 / 2000000 < p.2 - p.1) ∧ ∃ l, tf_freqs.getLast? = some l ∧ SR / 2 ≤ l := by
  unfold axisOk6
  rw [axisOk_iff]
  simp only [round6_pos_iff]

example : axisOk6 [0, 1, 5] 10 = true := by decide +kernel

/-- `b ≤ a ⇒ rejected`: an axis with two consecutive points that do not increase is not accepted -/
theorem axisOk6_rejects_nonincreasing (tf_freqs : List ℚ) (SR : ℚ) (a b : ℚ)
    (hp : (a, b) ∈ tf_freqs.zip tf_freqs.tail) (hle : b ≤ a) : axisOk6 tf_freqs SR = false := by
  apply (axisOk_rejects tf_freqs SR round6).1
  exact ⟨(a, b), hp, round6_nonpos _ (by simpa using hle)⟩

example : ((2 : ℚ), (2 : ℚ)) ∈ ([0, 2, 2, 5] : List ℚ).zip ([0, 2, 2, 5] : List ℚ).tail := by decide

/-- an accepted axis is strictly increasing (so the interpolation specification applies) and not
    empty -/
theorem axisOk6_increasing (tf_freqs : List ℚ) (SR : ℚ) (h : axisOk6 tf_freqs SR = true) :
    tf_freqs.Pairwise (· < ·) ∧ tf_freqs ≠ [] := by
  obtain ⟨h1, l, hl, -⟩ := (axisOk6_iff tf_freqs SR).mp h
  refine ⟨pairwise_of_consecutive _ (fun p hp => ?_), ?_⟩
  · have := h1 p hp; linarith
  · rintro rfl; simp at hl

/-- **acceptance at the public operation**: it returns exactly when the axis passes the validation
    and `tf_amp` is as long as `tf_freqs` -/
theorem applyCustomC_ok_iff (x : ZMod N → ℂ) (SR : ℚ) (tfFreqs tfAmp : List ℚ) (invert : Bool) :
    (∃ y, applyCustomC x SR tfFreqs tfAmp invert = .ok y) ↔
      axisOk6 tfFreqs SR = true ∧ tfAmp.length = tfFreqs.length := by
  unfold applyCustomC axisOk6 axisOk
  by_cases h1 : (tfFreqs.zip tfFreqs.tail).all (fun (a, b) => decide (0 < round6 (b - a))) = true
  · simp only [h1, Bool.not_true, Bool.false_eq_true, if_false, Bool.true_and]
    cases hl : tfFreqs.getLast? with
    | none => simp
    | some l =>
      by_cases h2 : SR / 2 ≤ l
      · by_cases h3 : tfAmp.length = tfFreqs.length
        · simp [h2, h3]
        · simp [h2, h3]
      · simp [h2]
  · simp [h1]

/-- **rejection at the public operation**: a step that does not survive the rounding (in
    particular any `b ≤ a`) is a `ValueError`; an axis that stops short of `SR/2` is a
    `MissingFrequenciesError`; the checks come in this order -/
theorem applyCustomC_rejects (x : ZMod N → ℂ) (SR : ℚ) (tfFreqs tfAmp : List ℚ) (invert : Bool) :
    ((∃ p ∈ tfFreqs.zip tfFreqs.tail, p.2 ≤ p.1) → applyCustomC x SR tfFreqs tfAmp invert = .error .value) ∧
    ((∀ p ∈ tfFreqs.zip tfFreqs.tail, 1 / 2000000 < p.2 - p.1) →
      ∀ l, tfFreqs.getLast? = some l → l < SR / 2 → applyCustomC x SR tfFreqs tfAmp invert = .error .missingfreq) := by
  constructor
  · rintro ⟨p, hp, hle⟩
    have : (tfFreqs.zip tfFreqs.tail).all (fun (a, b) => decide (0 < round6 (b - a))) = false := by
      rw [List.all_eq_false]
      exact ⟨p, hp, by simpa using round6_nonpos _ (by linarith)⟩
    simp [applyCustomC, this]
  · intro h1 l hl hlt
    have : (tfFreqs.zip tfFreqs.tail).all (fun (a, b) => decide (0 < round6 (b - a))) = true := by
      rw [List.all_eq_true]
      intro p hp
      simpa using (round6_pos_iff _).mpr (h1 p hp)
    simp [applyCustomC, this, hl, not_le.mpr hlt]

example : ∀ p ∈ ([0, 1, 3] : List ℚ).zip ([0, 1, 3] : List ℚ).tail, 1 / 2000000 < p.2 - p.1 := by decide +kernel

theorem customTF_length (N : ℕ) (SR : ℚ) (tfFreqs tfAmp : List ℚ) : (customTF N SR tfFreqs tfAmp).length = N := by
  unfold customTF
  rw [customAssemble_spec]
  simp [freqaxQ]
  omega

/-- the magnitude of the fftfreq frequency of bin `k` -/
def absFreqQ (N : ℕ) (SR : ℚ) (k : ℕ) : ℚ := |(fftIdx N k : ℚ) * SR / N|

omit [NeZero N] in
/-- the rational frequency is the real one of `freq` -/
theorem absFreqQ_cast (SR : ℚ) (k : ZMod N) : ((absFreqQ N SR k.val : ℚ) : ℝ) = |freq N (SR : ℝ) k| := by
  unfold absFreqQ freq
  push_cast
  rfl

/-- `|f_{−k}| = |f_k|` for every bin (also DC and Nyquist) -/
theorem absFreqQ_neg (SR : ℚ) (k : ZMod N) : absFreqQ N SR (-k).val = absFreqQ N SR k.val := by
  by_cases hk : k = 0
  · subst hk; simp
  by_cases hny : 2 * k.val = N
  · have : -k = k := by
      have h2 : k + k = 0 := by
        have : ((k.val + k.val : ℕ) : ZMod N) = 0 := by
          rw [show k.val + k.val = N by omega]; exact ZMod.natCast_self N
        simpa using this
      exact neg_eq_of_add_eq_zero_left h2
    rw [this]
  · unfold absFreqQ
    rw [fftIdx_neg k hk hny]
    push_cast
    rw [neg_mul, neg_div, abs_neg]

/-- the transfer function the public operation multiplies with, bin by bin: the user's function
    linearly interpolated at `|f_k|` -/
theorem customTF_getD (SR : ℚ) (hSR : 0 < SR) (tfFreqs tfAmp : List ℚ) (k : ZMod N) :
    (customTF N SR tfFreqs tfAmp).getD k.val 0 = interpQ tfFreqs tfAmp (absFreqQ N SR k.val) := by
  unfold customTF absFreqQ
  rw [List.getD_eq_getElem?_getD, custom_grid _ N SR hSR k.val (ZMod.val_lt k)]
  rfl

/-- **C12, custom transfer function, public statement**: whenever
    `applyCustomTransferFunction` returns, the result is real and **every** bin `k` — odd and even
    lengths alike, the Nyquist bin included, because the interpolated function is real — is the
    input's bin times the user's transfer function linearly interpolated at `|f_k|`, to the power
    `−1` with `invert=True` -/
theorem applyCustomC_bins (x y : ZMod N → ℂ) (hx : IsReal x) (SR : ℚ) (hSR : 0 < SR) (tfFreqs tfAmp : List ℚ)
    (invert : Bool) (h : applyCustomC x SR tfFreqs tfAmp invert = .ok y) :
    IsReal y ∧ ∀ k : ZMod N,
      𝓕 y k = 𝓕 x k * ((interpQ tfFreqs tfAmp (absFreqQ N SR k.val) : ℚ) : ℂ) ^ (if invert then (-1 : ℤ) else 1) := by
  unfold applyCustomC at h
  split at h
  · cases h
  · split at h
    · cases h
    · split at h
      · cases h
      · split at h
        · cases h
        · have hy := Except.ok.inj h
          subst hy
          refine ⟨applyTF_real _ _, fun k => ?_⟩
          rw [dft_applyTF x _ hx k]
          · rw [customTF_getD SR hSR]
          · simp only [map_zpow₀]
            rw [customTF_getD SR hSR, customTF_getD SR hSR, absFreqQ_neg]
            congr 1
            exact map_ratCast (starRingEnd ℂ) _

/-- a successful call interpolates a strictly increasing, non-empty axis with as many amplitudes
    as frequencies — the hypotheses of the interpolation specification below -/
theorem applyCustomC_ok_axis (x y : ZMod N → ℂ) (SR : ℚ) (tfFreqs tfAmp : List ℚ) (invert : Bool)
    (h : applyCustomC x SR tfFreqs tfAmp invert = .ok y) :
    tfFreqs.Pairwise (· < ·) ∧ tfFreqs ≠ [] ∧ tfFreqs.length = tfAmp.length := by
  obtain ⟨h1, h2⟩ := (applyCustomC_ok_iff x SR tfFreqs tfAmp invert).mp ⟨y, h⟩
  obtain ⟨h3, h4⟩ := axisOk6_increasing tfFreqs SR h1
  exact ⟨h3, h4, h2.symm⟩

/-- **`np.interp` specification** for the function the public operation interpolates with (`xp`
    strictly increasing, `len(fp) = len(xp)`): it passes through the knots, is affine between
    adjacent knots, and is clamped to the first / last amplitude outside the axis -/
theorem interp_spec (xp fp : List ℚ) (hs : xp.Pairwise (· < ·)) (hlen : xp.length = fp.length) :
    (∀ i (hi : i < xp.length), interpQ xp fp xp[i] = fp[i]'(by omega)) ∧
    (∀ i (hi : i + 1 < xp.length) (x : ℚ), xp[i] ≤ x → x ≤ xp[i + 1] →
      interpQ xp fp x = (fp[i + 1]'(by omega) - fp[i]'(by omega)) / (xp[i + 1] - xp[i]) * (x - xp[i]) + fp[i]'(by omega)) ∧
    (∀ x0 f0, xp.head? = some x0 → fp.head? = some f0 → ∀ x, x ≤ x0 → interpQ xp fp x = f0) ∧
    (∀ xl fl, xp.getLast? = some xl → fp.getLast? = some fl → ∀ x, xl ≤ x → interpQ xp fp x = fl) :=
  ⟨fun i hi => interpQ_knot xp fp hs hlen i hi,
   fun i hi x h1 h2 => interpQ_segment xp fp hs hlen i hi x h1 h2,
   fun x0 f0 h0 hf x hx => interpQ_left xp fp x0 f0 h0 hf x hx,
   fun xl fl hxl hfl x hx => interpQ_right xp fp hs hlen xl fl hxl hfl x hx⟩

example : interpQ [0, 2, 4] [1, 3, 2] 1 = 2 ∧ interpQ [0, 2, 4] [1, 3, 2] 3 = 5 / 2 ∧
    interpQ [0, 2, 4] [1, 3, 2] (-1) = 1 ∧ interpQ [0, 2, 4] [1, 3, 2] 7 = 2 ∧ interpQ [0, 2, 4] [1, 3, 2] 2 = 3 := by
  decide +kernel

/-- **linearity** of the public custom operation -/
theorem applyCustomC_linear (x y fx fy : ZMod N → ℂ) (a b : ℝ) (SR : ℚ) (tfFreqs tfAmp : List ℚ) (invert : Bool)
    (h1 : applyCustomC x SR tfFreqs tfAmp invert = .ok fx) (h2 : applyCustomC y SR tfFreqs tfAmp invert = .ok fy) :
    applyCustomC (fun j => (a : ℂ) * x j + (b : ℂ) * y j) SR tfFreqs tfAmp invert =
      .ok (fun j => (a : ℂ) * fx j + (b : ℂ) * fy j) := by
  unfold applyCustomC at h1 h2 ⊢
  split
  · rename_i hc; simp [hc] at h1
  · rename_i hc
    simp only [hc, Bool.false_eq_true, if_false] at h1 h2
    split
    · rename_i hl; simp [hl] at h1
    · rename_i l hl
      simp only [hl] at h1 h2
      split
      · rename_i hc2; simp [hc2] at h1
      · rename_i hc2
        simp only [hc2, if_false] at h1 h2
        split
        · rename_i hc3; simp [hc3] at h1
        · rename_i hc3
          simp only [hc3, if_false] at h1 h2
          rw [← Except.ok.inj h1, ← Except.ok.inj h2, applyTF_linear]

/-- a strictly increasing axis whose step is at most `5·10⁻⁷` is **rejected** (the implementation
    rounds the differences to six decimals before it compares): "strictly increasing" alone does
    not imply acceptance -/
theorem tiny_step_rejected :
    ([0, 1 / 4000000, 5] : List ℚ).Pairwise (· < ·) ∧ axisOk6 [0, 1 / 4000000, 5] 10 = false := by
  constructor
  · decide +kernel
  · decide +kernel

/-! ### the executable `Float` model has the same skeleton

  `BB.Rip.applyRC` (Model/Ripasso.lean) is what the correspondence check runs against the
  implementation.  Floating-point arithmetic is opaque to the kernel, but the control skeleton is
  not: same kind guard (the regenerated `Gen.filterKinds`), same DC-gain guard position, same
  `±order`, same `fftfreq` index function as the exact operation `applyRC` above. -/

theorem rip_applyRC_skeleton (inverse : Bool) (x : Array Float) (SR : Float) (kind : String) (fc : Float)
    (order : ℤ) (dc : Float) :
    BB.Rip.applyRC inverse x SR kind fc order dc =
      if kind ∉ Gen.filterKinds then .error .value
      else if inverse && !(dc > 0) then .error .value
      else .ok (BB.Rip.applyTF x (BB.Rip.rcTF kind SR fc (if inverse then -order else order) dc x.size)) := by
  unfold BB.Rip.applyRC
  by_cases h1 : kind = "HP"
  · subst h1; simp [Gen.filterKinds]
  · by_cases h2 : kind = "LP"
    · subst h2; simp [Gen.filterKinds]
    · simp [Gen.filterKinds, h1, h2]

/-- the `fftfreq` index function of the executable model is the one of the theorems -/
theorem rip_fftIdx_eq : BB.Rip.fftIdx = BB.RC.fftIdx := rfl

end BB.C12
