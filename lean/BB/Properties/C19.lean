/-
  Property C19 — the description / JSON round trip loses nothing that affects output.

  `BP.toDesc`/`BP.ofDesc`, `Element.toDesc`/`ofDesc`, `Sequence.toDesc`/`ofDesc` are the model's
  `description` and `*_from_description`, as coded (tied to /repo by the correspondence check,
  which goes through real JSON files).  Python's `json` maps tuples to lists and keeps dict
  order and numbers, so writing and reading a file is the identity on the model's `J` values
  (trusted, DESIGN.md §6).

  Second part: `roundtrip_el_observables` / `roundtrip_seq_observables` (the read-back object
  compares equal, has the same description, and forges identically — via the forge congruence of
  BB.Proofs.G6Forge); `el_desc_serialisable` / `seq_desc_serialisable`, `el_desc_lists_segments` /
  `seq_desc_lists_positions`; and the side conditions `ChanOk` / `SeqOk` derived for everything the
  public builders produce (`ElBuilt`, `SeqBuilt`, `elBuilt_ok`, `seqBuilt_ok`, `roundtrip_el_built`,
  `roundtrip_seq_built`).
-/
import Std.Data.String.ToInt
import BB.Proofs.Basic
import BB.Proofs.DictEq
import BB.Proofs.Copy
import BB.Proofs.RoundTrip
import BB.Model.Describe
import BB.Proofs.G6Eq
import BB.Proofs.G6Forge
import BB.Proofs.G6Desc
import BB.Properties.C20
import BB.Proofs.G10Output

namespace BB.C19
open BB BB.BP

/-! ### every leaf value survives -/

/-- numbers, strings and None survive `description` → `from_description` -/
theorem val_roundtrip (v : Val) : J.toVal (J.ofVal v) = v := by
  cases v <;> rfl

/-- a marker tuple `(t, dur)` is written as a two-element list and read back as the same tuple -/
theorem mark_roundtrip (m : Mark) : J.toMark? (J.ofMark m) = some m := by
  obtain ⟨a, b⟩ := m; rfl

theorem marks_roundtrip (l : List Mark) : (l.map J.ofMark).mapM J.toMark? = some l := by
  induction l with
  | nil => rfl
  | cons m ms ih => simp [List.mapM_cons, mark_roundtrip, ih]

theorem int_roundtrip (n : Int) : J.toInt? (J.ofInt n) = some n := by
  simp [J.toInt?, J.ofInt]

/-- the five sequencing values of a position are written under their keys and read back -/
theorem seqset_roundtrip (q : SeqSet) :
    let l := match Sequence.seqSetJ q with | .obj l => l | _ => []
    ((l.lookup "Wait trigger").bind J.toInt?, (l.lookup "Repeat").bind J.toInt?,
     (l.lookup "jump_input").bind J.toInt?, (l.lookup "jump_target").bind J.toInt?,
     (l.lookup "Go to").bind J.toInt?) =
    (some q.twait, some q.nrep, some q.jump_input, some q.jump_target, some q.goto) := by
  simp [Sequence.seqSetJ, List.lookup, int_roundtrip]

/-- every AWG setting — sample rate, amplitude, offset, channel delay, filter compensation
    (kind, order, f_cut, tau) — is written and read back unchanged -/
theorem spec_roundtrip (s : Spec) : Sequence.specOfJ (Sequence.specJ s) = s := by
  cases s with
  | val v => cases v <;> rfl
  | filt f =>
    obtain ⟨k, o, fc, tau⟩ := f
    simp [Sequence.specJ, Sequence.specOfJ, List.lookup, int_roundtrip, val_roundtrip]

/-! ### names, including names with digits inside -/

/-- **name reconstruction**: `from_description` strips every name to its base and re-uniquifies;
    on a canonical name list (every reachable blueprint has one — C05) that gives back exactly the
    original names, digits inside a base included. -/
theorem names_reconstructed (ns : List String) (h : makeNamesUnique ns = ns) :
    makeNamesUnique (ns.map basename) = ns := by
  have : (ns.map basename).map basename = ns.map basename := by
    simp [List.map_map, Function.comp_def, basename_idem]
  rw [makeNamesUnique_congr _ _ this, h]

theorem names_reconstructed_reachable (h : Hist) :
    makeNamesUnique (h.eval.names.map basename) = h.eval.names :=
  names_reconstructed _ (inv_reachable h)

/-! ### the description lists every segment, in order, and is JSON-serialisable -/

/-- the record written for one segment -/
def segRecord (s : Seg) : J :=
  J.obj
    [ ("name", .str s.name), ("function", .str s.fn.qual), ("durations", J.ofVal s.dur)
    , ("arguments",
        if s.fn.isWait then J.obj [("waittime", .arr (s.args.map J.ofVal))]
        else J.obj ((s.fn.params.zip s.args).map (fun (p, a) => (p, J.ofVal a)))) ]

/-- `description` = one `segment_XX` record per segment, in segment order, followed by the four
    marker lists -/
theorem desc_shape (b : BP) :
    b.toDesc = J.obj (((b.segs.zip (List.range b.segs.length)).map (fun (s, i) => (segKey (i + 1), segRecord s))) ++
      [ ("marker1_abs", .arr (b.marker1.map J.ofMark)), ("marker2_abs", .arr (b.marker2.map J.ofMark))
      , ("marker1_rel", .arr (b.segs.map (fun s => J.ofMark s.m1)))
      , ("marker2_rel", .arr (b.segs.map (fun s => J.ofMark s.m2))) ]) := rfl

/-- the number of records equals the number of segments -/
theorem desc_segment_count (b : BP) :
    ((b.segs.zip (List.range b.segs.length)).map (fun (s, i) => (segKey (i + 1), segRecord s))).length
      = b.segs.length := by simp

/-- the i-th record is keyed `segment_{i+1:02d}` and describes the i-th segment -/
theorem desc_segment_at (b : BP) (i : Nat) (hi : i < b.segs.length) :
    ((b.segs.zip (List.range b.segs.length)).map (fun (s, i) => (segKey (i + 1), segRecord s)))[i]? =
      some (segKey (i + 1), segRecord b.segs[i]) := by
  simp [List.getElem?_map, List.getElem?_zip_eq_some, hi]

/-- a value that is a number, a string or None -/
def Val.plain : Val → Bool
  | .opq _ => false
  | _ => true

theorem ofVal_ser (v : Val) (h : Val.plain v = true) : (J.ofVal v).serialisable = true := by
  cases v <;> simp_all [J.ofVal, J.serialisable, Val.plain]

theorem serList_map_ofVal (l : List Val) (h : ∀ v ∈ l, Val.plain v = true) :
    J.serList (l.map J.ofVal) = true := by
  induction l with
  | nil => rfl
  | cons v vs ih =>
    simp only [List.map_cons, J.serList, Bool.and_eq_true]
    exact ⟨ofVal_ser v (h v (by simp)), ih (fun w hw => h w (by simp [hw]))⟩

theorem serList_map_ofMark (l : List Mark) : J.serList (l.map J.ofMark) = true := by
  induction l with
  | nil => rfl
  | cons v vs ih => simp [J.serList, J.ofMark, J.serialisable, ih]

theorem serFields_append (a b : List (String × J)) :
    J.serFields (a ++ b) = (J.serFields a && J.serFields b) := by
  induction a with
  | nil => simp [J.serFields]
  | cons x xs ih => obtain ⟨k, v⟩ := x; simp [J.serFields, ih, Bool.and_assoc]

theorem serFields_zip (ps : List String) (l : List Val) (h : ∀ v ∈ l, Val.plain v = true) :
    J.serFields ((ps.zip l).map (fun (p, a) => (p, J.ofVal a))) = true := by
  induction ps generalizing l with
  | nil => simp [J.serFields]
  | cons p ps ih =>
    cases l with
    | nil => simp [J.serFields]
    | cons v vs =>
      simp only [List.zip_cons_cons, List.map_cons, J.serFields, Bool.and_eq_true]
      exact ⟨ofVal_ser v (h v (by simp)), ih vs (fun w hw => h w (by simp [hw]))⟩

theorem segRecord_ser (s : Seg) (ha : ∀ v ∈ s.args, Val.plain v = true) (hd : Val.plain s.dur = true) :
    (segRecord s).serialisable = true := by
  unfold segRecord
  simp only [J.serialisable, J.serFields, Bool.and_true, Bool.true_and, Bool.and_eq_true]
  refine ⟨ofVal_ser _ hd, ?_⟩
  split
  · simp [J.serialisable, J.serFields, serList_map_ofVal _ ha]
  · simp [J.serialisable, serFields_zip _ _ ha]

theorem serFields_segs (l : List (Seg × Nat))
    (h : ∀ p ∈ l, (∀ v ∈ p.1.args, Val.plain v = true) ∧ Val.plain p.1.dur = true) :
    J.serFields (l.map (fun (s, i) => (segKey (i + 1), segRecord s))) = true := by
  induction l with
  | nil => rfl
  | cons p ps ih =>
    obtain ⟨s, i⟩ := p
    simp only [List.map_cons, J.serFields, Bool.and_eq_true]
    exact ⟨segRecord_ser s (h (s, i) (by simp)).1 (h (s, i) (by simp)).2, ih (fun p hp => h p (by simp [hp]))⟩

/-- **the description is always JSON-serialisable** when arguments and durations are plain
    values (numbers, strings, None) — which is what the built-in shapes take -/
theorem desc_serialisable (b : BP)
    (h : ∀ s ∈ b.segs, (∀ v ∈ s.args, Val.plain v = true) ∧ Val.plain s.dur = true) :
    b.toDesc.serialisable = true := by
  rw [desc_shape]
  simp only [J.serialisable, serFields_append, Bool.and_eq_true]
  refine ⟨serFields_segs _ ?_, ?_⟩
  · intro p hp
    exact h p.1 (List.of_mem_zip hp).1
  · have h1 := serList_map_ofMark (b.segs.map (·.m1))
    have h2 := serList_map_ofMark (b.segs.map (·.m2))
    simp only [List.map_map, Function.comp_def] at h1 h2
    simp [J.serFields, J.serialisable, serList_map_ofMark, h1, h2]

/-! ### the whole round trip of a blueprint -/

theorem record_eq (s : Seg) : record s = segRecord s := rfl

/-- the `segment_XX` records, and only they, are picked up as segments -/
theorem filter_segments (b : BP) (rest : List (String × J))
    (hrest : ∀ p ∈ rest, hasSub p.1 "segment" = false) :
    ((((b.segs.zip (List.range b.segs.length)).map (fun (s, i) => (segKey (i + 1), segRecord s))) ++ rest).filter
        (fun (kv : String × J) => hasSub kv.1 "segment")).map (fun (p : String × J) => p.2) = b.segs.map record := by
  rw [List.filter_append]
  have h1 : (((b.segs.zip (List.range b.segs.length)).map (fun (s, i) => (segKey (i + 1), segRecord s))).filter
      (fun (kv : String × J) => hasSub kv.1 "segment")) = (b.segs.zip (List.range b.segs.length)).map (fun (s, i) => (segKey (i + 1), segRecord s)) := by
    rw [List.filter_eq_self]
    intro p hp
    simp only [List.mem_map] at hp
    obtain ⟨⟨s, i⟩, _, rfl⟩ := hp
    exact hasSub_segKey _
  have h2 : rest.filter (fun (kv : String × J) => hasSub kv.1 "segment") = [] := by
    rw [List.filter_eq_nil_iff]
    intro p hp
    simp [hrest p hp]
  rw [h1, h2, List.append_nil, List.map_map]
  have : ∀ (l : List Seg) (k : Nat), ((l.zip (List.range' k l.length)).map ((fun (p : String × J) => p.2) ∘ fun (x : Seg × Nat) => (segKey (x.2 + 1), segRecord x.1))) = l.map record := by
    intro l
    induction l with
    | nil => intro k; rfl
    | cons x xs ih =>
      intro k
      simp only [List.length_cons, List.range'_succ, List.zip_cons_cons, List.map_cons, Function.comp, List.cons.injEq]
      exact ⟨rfl, ih (k + 1)⟩
  rw [List.range_eq_range']
  exact this b.segs 0

theorem setSegMarks_restore (l : List Seg) :
    setSegMarks (l.map (fun s => stripped s s.name)) (l.map (·.m1)) (l.map (·.m2)) = l := by
  induction l with
  | nil => rfl
  | cons s ss ih =>
    simp only [List.map_cons, setSegMarks, ih, List.cons.injEq, and_true]
    obtain ⟨n, f, a, d, p, q⟩ := s
    rfl

/-- after the loop, the renumbered segments are the original ones without their markers -/
theorem canon_stripped (b : BP) (h1 : Inv b) (l' : List Seg) (hlen : l'.length = b.segs.length)
    (hl' : ∀ j (h1 : j < l'.length) (h2 : j < b.segs.length), ∃ nm, basename nm = basename (b.segs[j]).name ∧
      l'[j] = stripped b.segs[j] nm) :
    canon l' = b.segs.map (fun s => stripped s s.name) := by
  have hk : l'.map key = (b.segs.map (fun s => stripped s s.name)).map key := by
    apply List.ext_getElem
    · simp [hlen]
    · intro j h1 h2
      simp only [List.getElem_map]
      have hj : j < l'.length := by simpa using h1
      have hj2 : j < b.segs.length := by simpa using h2
      obtain ⟨nm, hnm, he⟩ := hl' j hj hj2
      rw [he]
      simp [key, stripped, hnm]
  show renumber (l'.map key) = _
  rw [hk]
  have : canon (b.segs.map (fun s => stripped s s.name)) = b.segs.map (fun s => stripped s s.name) := by
    apply canon_of_inv
    have : (b.segs.map (fun s => stripped s s.name)).map (·.name) = b.names := by
      simp [List.map_map, Function.comp_def, stripped, names]
    rw [this]; exact h1
  exact this

theorem get_marker_fields (b : BP) (k : String) (v : J)
    (hk : hasSub k "segment" = false)
    (hv : List.lookup k [ ("marker1_abs", J.arr (b.marker1.map J.ofMark)), ("marker2_abs", .arr (b.marker2.map J.ofMark))
      , ("marker1_rel", .arr (b.segs.map (fun s => J.ofMark s.m1)))
      , ("marker2_rel", .arr (b.segs.map (fun s => J.ofMark s.m2))) ] = some v) :
    b.toDesc.get? k = some v := by
  rw [desc_shape]
  simp only [J.get?]
  rw [lookup_append_of_not_mem]
  · exact hv
  · intro p hp
    simp only [List.mem_map] at hp
    obtain ⟨⟨s, i⟩, _, rfl⟩ := hp
    intro e
    have := hasSub_segKey (i + 1)
    simp only at e
    rw [e, hk] at this
    cases this

theorem marksOf_arr (j : J) (k : String) (l : List Mark) (h : j.get? k = some (.arr (l.map J.ofMark))) :
    marksOf j k = .ok l := by
  unfold marksOf
  rw [h]
  simp only
  rw [marks_roundtrip]

theorem marksOf_desc (b : BP) :
    marksOf b.toDesc "marker1_abs" = .ok b.marker1 ∧ marksOf b.toDesc "marker2_abs" = .ok b.marker2 ∧
    marksOf b.toDesc "marker1_rel" = .ok (b.segs.map (·.m1)) ∧ marksOf b.toDesc "marker2_rel" = .ok (b.segs.map (·.m2)) := by
  have hm := hasSub_marker_keys
  refine ⟨?_, ?_, ?_, ?_⟩
  · exact marksOf_arr _ _ _ (get_marker_fields b "marker1_abs" _ hm.1 (by simp [List.lookup]))
  · exact marksOf_arr _ _ _ (get_marker_fields b "marker2_abs" _ hm.2.1 (by simp [List.lookup]))
  · apply marksOf_arr
    rw [get_marker_fields b "marker1_rel" (J.arr (b.segs.map (fun s => J.ofMark s.m1))) hm.2.2.1 (by simp [List.lookup])]
    simp [List.map_map, Function.comp_def]
  · apply marksOf_arr
    rw [get_marker_fields b "marker2_rel" (J.arr (b.segs.map (fun s => J.ofMark s.m2))) hm.2.2.2 (by simp [List.lookup])]
    simp [List.map_map, Function.comp_def]

/-- **the round trip**: reading back the description of a blueprint over the built-in shapes
    (reachable through the public API: both naming invariants hold) gives the same blueprint —
    every name (digits inside included), function, argument, duration, absolute and segment-bound
    marker — except for the sample rate, which a description does not carry -/
theorem roundtrip_bp (b : BP) (h1 : Inv b) (h2 : Inv2 b) (hok : ∀ s ∈ b.segs, SegOk s) :
    BP.ofDesc b.toDesc = .ok { b with SR := .none } := by
  obtain ⟨l', hlen, hl', hsum⟩ := sumSegs_records b.segs hok h2 0 {} (by rfl)
  have hfil := filter_segments b
    [ ("marker1_abs", J.arr (b.marker1.map J.ofMark)), ("marker2_abs", .arr (b.marker2.map J.ofMark))
    , ("marker1_rel", .arr (b.segs.map (fun s => J.ofMark s.m1)))
    , ("marker2_rel", .arr (b.segs.map (fun s => J.ofMark s.m2))) ]
    (by
      intro p hp
      have hm := hasSub_marker_keys
      simp only [List.mem_cons, List.not_mem_nil, or_false] at hp
      rcases hp with rfl | rfl | rfl | rfl
      · exact hm.1
      · exact hm.2.1
      · exact hm.2.2.1
      · exact hm.2.2.2)
  obtain ⟨m1, m2, m3, m4⟩ := marksOf_desc b
  have hc := canon_stripped b h1 l' hlen hl'
  have hd := desc_shape b
  unfold BP.ofDesc
  rw [hd] at m1 m2 m3 m4 ⊢
  simp only [hfil, hsum, m1, m2, m3, m4]
  simp only [List.nil_append, hc, setSegMarks_restore]

/-- … hence for every blueprint built through the public API from built-in shapes -/
theorem roundtrip_reachable (h : Hist) (hok : ∀ s ∈ h.eval.segs, SegOk s) :
    BP.ofDesc h.eval.toDesc = .ok { h.eval with SR := .none } :=
  roundtrip_bp _ (inv_reachable h) (inv2_reachable h) hok

/-- the read-back blueprint compares equal to the original, has the same description, and once
    given the same sample rate *is* the original (so it forges to identical arrays) -/
theorem roundtrip_observables (b b' : BP) (h : BP.ofDesc b.toDesc = .ok b') (h1 : Inv b) (h2 : Inv2 b)
    (hok : ∀ s ∈ b.segs, SegOk s) :
    b'.beq b = true ∧ b'.toDesc = b.toDesc ∧ ({ b' with SR := b.SR } : BP) = b := by
  rw [roundtrip_bp b h1 h2 hok] at h
  cases h
  refine ⟨?_, rfl, rfl⟩
  unfold BP.beq BP.names
  simp

/-! ### blueprint descriptions with extra fields (an element adds "flags") -/

/-- the fields of a blueprint description followed by further fields -/
def fieldsX (b : BP) (extra : List (String × J)) : List (String × J) :=
  ((b.segs.zip (List.range b.segs.length)).map (fun (s, i) => (segKey (i + 1), segRecord s))) ++
    ([ ("marker1_abs", J.arr (b.marker1.map J.ofMark)), ("marker2_abs", .arr (b.marker2.map J.ofMark))
     , ("marker1_rel", .arr (b.segs.map (fun s => J.ofMark s.m1)))
     , ("marker2_rel", .arr (b.segs.map (fun s => J.ofMark s.m2))) ] ++ extra)

theorem fieldsX_eq (b : BP) (extra : List (String × J)) (l : List (String × J)) (hl : b.toDesc = .obj l) :
    l ++ extra = fieldsX b extra := by
  rw [desc_shape] at hl
  simp only [J.obj.injEq] at hl
  subst hl
  unfold fieldsX
  rw [List.append_assoc]

theorem get_marker_fields_extra (b : BP) (k : String) (v : J) (extra : List (String × J))
    (hk : hasSub k "segment" = false)
    (hv : List.lookup k [ ("marker1_abs", J.arr (b.marker1.map J.ofMark)), ("marker2_abs", .arr (b.marker2.map J.ofMark))
      , ("marker1_rel", .arr (b.segs.map (fun s => J.ofMark s.m1)))
      , ("marker2_rel", .arr (b.segs.map (fun s => J.ofMark s.m2))) ] = some v) :
    (J.obj (fieldsX b extra)).get? k = some v := by
  simp only [J.get?, fieldsX]
  rw [lookup_append_of_not_mem]
  · rw [List.lookup_append, hv]; rfl
  · intro p hp
    simp only [List.mem_map] at hp
    obtain ⟨⟨s, i⟩, _, rfl⟩ := hp
    intro e
    have := hasSub_segKey (i + 1)
    simp only at e
    rw [e, hk] at this
    cases this

/-- the round trip is not disturbed by further fields whose keys do not contain "segment" -/
theorem roundtrip_bp_extra (b : BP) (h1 : Inv b) (h2 : Inv2 b) (hok : ∀ s ∈ b.segs, SegOk s)
    (extra : List (String × J)) (hex : ∀ p ∈ extra, hasSub p.1 "segment" = false)
    (l : List (String × J)) (hl : b.toDesc = .obj l) :
    BP.ofDesc (.obj (l ++ extra)) = .ok { b with SR := .none } := by
  obtain ⟨l', hlen, hl', hsum⟩ := sumSegs_records b.segs hok h2 0 {} (by rfl)
  have hm := hasSub_marker_keys
  have hfil : ((fieldsX b extra).filter (fun (kv : String × J) => hasSub kv.1 "segment")).map (fun (p : String × J) => p.2)
      = b.segs.map record := filter_segments b _
    (by
      intro p hp
      rw [List.mem_append] at hp
      rcases hp with hp | hp
      · simp only [List.mem_cons, List.not_mem_nil, or_false] at hp
        rcases hp with rfl | rfl | rfl | rfl
        · exact hm.1
        · exact hm.2.1
        · exact hm.2.2.1
        · exact hm.2.2.2
      · exact hex p hp)
  have m1 : marksOf (J.obj (fieldsX b extra)) "marker1_abs" = .ok b.marker1 :=
    marksOf_arr _ _ _ (get_marker_fields_extra b "marker1_abs" _ extra hm.1 (by simp [List.lookup]))
  have m2 : marksOf (J.obj (fieldsX b extra)) "marker2_abs" = .ok b.marker2 :=
    marksOf_arr _ _ _ (get_marker_fields_extra b "marker2_abs" _ extra hm.2.1 (by simp [List.lookup]))
  have m3 : marksOf (J.obj (fieldsX b extra)) "marker1_rel" = .ok (b.segs.map (·.m1)) := by
    apply marksOf_arr
    rw [get_marker_fields_extra b "marker1_rel" (J.arr (b.segs.map (fun s => J.ofMark s.m1))) extra hm.2.2.1 (by simp [List.lookup])]
    simp [List.map_map, Function.comp_def]
  have m4 : marksOf (J.obj (fieldsX b extra)) "marker2_rel" = .ok (b.segs.map (·.m2)) := by
    apply marksOf_arr
    rw [get_marker_fields_extra b "marker2_rel" (J.arr (b.segs.map (fun s => J.ofMark s.m2))) extra hm.2.2.2 (by simp [List.lookup])]
    simp [List.map_map, Function.comp_def]
  have hc := canon_stripped b h1 l' hlen hl'
  rw [fieldsX_eq b extra l hl]
  unfold BP.ofDesc
  simp only [hfil, hsum, m1, m2, m3, m4]
  simp only [List.nil_append, hc, setSegMarks_restore]

/-! ### the round trip of an element (blueprint channels, with or without flags) -/

section element
open BB.Element

theorem upsert_of_not_mem {κ α : Type} [DecidableEq κ] (d : Dict κ α) (k : κ) (v : α) (h : k ∉ Dict.keys d) :
    Dict.upsert d k v = d ++ [(k, v)] := by
  induction d with
  | nil => rfl
  | cons kv rest ih =>
    obtain ⟨k', w⟩ := kv
    unfold Dict.upsert
    have hk : k' ≠ k := by
      intro e; apply h; simp [Dict.keys, e]
    have hr : k ∉ Dict.keys rest := by
      intro hm; apply h; simp only [Dict.keys, List.map_cons, List.mem_cons]; right; exact hm
    simp only [hk, if_false, List.cons_append, ih hr]

theorem upsert_append_self {κ α : Type} [DecidableEq κ] (d : Dict κ α) (k : κ) (v v' : α) (h : k ∉ Dict.keys d) :
    Dict.upsert (d ++ [(k, v)]) k v' = d ++ [(k, v')] := by
  induction d with
  | nil => simp [Dict.upsert]
  | cons kv rest ih =>
    obtain ⟨k', w⟩ := kv
    have hk : k' ≠ k := by
      intro e; apply h; simp [Dict.keys, e]
    have hr : k ∉ Dict.keys rest := by
      intro hm; apply h; simp only [Dict.keys, List.map_cons, List.mem_cons]; right; exact hm
    simp only [List.cons_append, Dict.upsert, hk, if_false, ih hr]

theorem get?_append_self {κ α : Type} [DecidableEq κ] (d : Dict κ α) (k : κ) (v : α) (h : k ∉ Dict.keys d) :
    Dict.get? (d ++ [(k, v)]) k = some v := by
  rw [← upsert_of_not_mem d k v h]
  exact Dict.get?_upsert_self d k v

/-- what a description keeps of a channel entry: everything but the blueprint's sample rate -/
def stripSR (ent : ChEntry) : ChEntry :=
  match ent.data with
  | .bp b => { ent with data := .bp { b with SR := .none } }
  | _ => ent

/-- the text of an integer channel number parses back to it (`int(str(n)) == n`) -/
theorem parseChan_int (n : Int) : parseChan (Chan.int n).toStr = .ok (.int n) := by
  have : (toString n : String) = n.repr := rfl
  simp only [parseChan, Chan.toStr, this, Int.toInt?_repr]

/-- a channel that `element_from_description` can rebuild: an integer channel number (the code
    calls `int(key)`, so a string-named channel is refused), holding a blueprint reachable through
    the public API over the built-in shapes, with flags (if any) as `addFlags` stores them -/
def ChanOk (p : Chan × ChEntry) : Prop :=
  (∃ n, p.1 = Chan.int n) ∧
  ∃ b, p.2.data = .bp b ∧ Inv b ∧ Inv2 b ∧ (∀ s ∈ b.segs, SegOk s) ∧ b.segs ≠ [] ∧
    (∀ fl, p.2.flags = some fl → fl.length = 4 ∧ ∀ n ∈ fl, n ≤ 4)

theorem flagToken_num (n : Nat) (h : n ≤ 4) : flagToken? (J.toVal (J.num ((n : Int) : Rat))) = some n := by
  have : n = 0 ∨ n = 1 ∨ n = 2 ∨ n = 3 ∨ n = 4 := by omega
  rcases this with rfl | rfl | rfl | rfl | rfl <;> decide

theorem flags_back (fl : List Nat) (h : ∀ n ∈ fl, n ≤ 4) :
    ((fl.map (fun (n : Nat) => J.num ((n : Int) : Rat))).map J.toVal).mapM flagToken? = some fl := by
  induction fl with
  | nil => rfl
  | cons n ns ih =>
    simp only [List.map_cons, List.mapM_cons, flagToken_num n (h n (by simp)), ih (fun m hm => h m (by simp [hm]))]
    rfl

theorem no_flags_field (b : BP) : b.toDesc.get? "flags" = none := by
  rw [desc_shape]
  simp only [J.get?]
  rw [lookup_append_of_not_mem]
  · simp [List.lookup]
  · intro p hp
    simp only [List.mem_map] at hp
    obtain ⟨⟨s, i⟩, _, rfl⟩ := hp
    intro e
    have := hasSub_segKey (i + 1)
    simp only at e
    rw [e] at this
    revert this
    decide

theorem flags_field (b : BP) (l : List (String × J)) (hl : b.toDesc = .obj l) (v : J) :
    (J.obj (l ++ [("flags", v)])).get? "flags" = some v := by
  have hn := no_flags_field b
  rw [hl] at hn
  simp only [J.get?] at hn ⊢
  rw [List.lookup_append, hn]
  simp [List.lookup]

theorem chanDesc_plain (b : BP) : chanDesc ⟨.bp b, none⟩ = .ok b.toDesc := by
  unfold chanDesc
  rw [desc_shape]
  rfl

theorem chanDesc_flags (b : BP) (fl : List Nat) (l : List (String × J)) (hl : b.toDesc = .obj l) :
    chanDesc ⟨.bp b, some fl⟩ = .ok (J.obj (l ++ [("flags", flagsJ fl)])) := by
  unfold chanDesc
  simp only [hl]
  rfl

/-- a channel entry read back at sample rate `sr` (`none`: no sample rate known) -/
def reSR (sr : Option Val) (ent : ChEntry) : ChEntry :=
  match ent.data with
  | .bp b => { ent with data := .bp (withSR { b with SR := .none } sr) }
  | _ => ent

theorem reSR_none (ent : ChEntry) : reSR none ent = stripSR ent := by
  unfold reSR stripSR withSR
  cases ent.data <;> rfl

/-- one channel read back into an element that does not have it yet -/
theorem chanOfDesc_step_sr (e0 : Element) (p : Chan × ChEntry) (hp : ChanOk p) (hnew : p.1 ∉ Dict.keys e0.chans)
    (kd : String × J) (hkd : chanField p = .ok kd) (sr : Option Val) :
    chanOfDesc e0 kd.1 kd.2 sr = .ok { e0 with chans := e0.chans ++ [(p.1, reSR sr p.2)] } := by
  obtain ⟨ch, ent⟩ := p
  obtain ⟨⟨nch, hint⟩, b, hdata, h1, h2, hok, hne, hfl⟩ := hp
  obtain ⟨dat, flags⟩ := ent
  simp only at hdata hfl hint hnew
  have hparse : parseChan ch.toStr = .ok ch := by rw [hint]; exact parseChan_int nch
  subst hdata
  have hb' : BP.copy (withSR { b with SR := Val.none } sr) = withSR { b with SR := Val.none } sr := by
    cases sr <;> exact copy_eq_self h1 h2
  have hempty : (withSR { b with SR := Val.none } sr).segs.isEmpty = false := by
    cases sr <;> simpa [withSR, List.isEmpty_iff] using hne
  obtain ⟨l, hl⟩ : ∃ l, b.toDesc = .obj l := ⟨_, desc_shape b⟩
  cases flags with
  | none =>
    have : kd = (ch.toStr, b.toDesc) := by
      simp only [chanField, chanDesc_plain, Except.ok.injEq] at hkd
      exact hkd.symm
    subst this
    simp only [chanOfDesc, hparse, roundtrip_bp b h1 h2 hok, addBluePrint, hempty, Bool.false_eq_true, if_false,
      no_flags_field b, hb', reSR]
    rw [upsert_of_not_mem _ _ _ hnew]
  | some fl =>
    obtain ⟨hlen, hle⟩ := hfl fl rfl
    have : kd = (ch.toStr, J.obj (l ++ [("flags", flagsJ fl)])) := by
      simp only [chanField, chanDesc_flags b fl l hl, Except.ok.injEq] at hkd
      exact hkd.symm
    subst this
    have hrt := roundtrip_bp_extra b h1 h2 hok [("flags", flagsJ fl)] (by
      intro p hp
      simp only [List.mem_singleton] at hp
      subst hp
      show hasSub "flags" "segment" = false
      decide) l hl
    simp only [flagsJ] at hrt
    have hlenb : Gen.flagsLenBad (List.map J.toVal (fl.map (fun (n : Nat) => J.num ((n : Int) : Rat)))).length = false := by
      simp [Gen.flagsLenBad, hlen]
    simp only [chanOfDesc, hparse, hrt, addBluePrint, hempty, Bool.false_eq_true, if_false,
      flags_field b l hl, flagsJ, addFlags, hlenb, flags_back fl hle, hb', reSR]
    rw [upsert_of_not_mem _ _ _ hnew, get?_append_self _ _ _ hnew]
    simp only [upsert_append_self _ _ _ _ hnew]

theorem chanOfDesc_step (e0 : Element) (p : Chan × ChEntry) (hp : ChanOk p) (hnew : p.1 ∉ Dict.keys e0.chans)
    (kd : String × J) (hkd : chanField p = .ok kd) :
    chanOfDesc e0 kd.1 kd.2 none = .ok { e0 with chans := e0.chans ++ [(p.1, stripSR p.2)] } := by
  rw [chanOfDesc_step_sr e0 p hp hnew kd hkd none, reSR_none]

/-- **the round trip of an element**: an element whose channels are integer-numbered blueprint
    channels (blueprints reachable through the public API over the built-in shapes, flags as
    `addFlags` stores them) is rebuilt by `element_from_description` from its own description
    with the same channels in the same order, the same blueprints — every segment, argument,
    duration, marker — and the same flags; only the blueprints' sample rate is not carried. -/
theorem roundtrip_el (chans : Dict Chan ChEntry) (cache : Option (Val × Rat))
    (hnd : (Dict.keys chans).Nodup) (hok : ∀ p ∈ chans, ChanOk p) (d : J)
    (hd : (⟨chans, cache⟩ : Element).toDesc = .ok d) :
    Element.ofDesc d = .ok ⟨chans.map (fun p => (p.1, stripSR p.2)), none⟩ := by
  unfold Element.toDesc at hd
  split at hd
  · cases hd
  · rename_i fields hfields
    simp only [Except.ok.injEq] at hd
    subst hd
    simp only [Element.ofDesc]
    -- generalise the accumulator
    have gen : ∀ (rest : Dict Chan ChEntry) (fs : List (String × J)) (acc : Dict Chan ChEntry),
        rest.mapM chanField = .ok fs → (Dict.keys (acc ++ rest)).Nodup → (∀ p ∈ rest, ChanOk p) →
        fs.foldlM (fun e kd => chanOfDesc e kd.1 kd.2 none) (⟨acc, none⟩ : Element) =
          .ok ⟨acc ++ rest.map (fun p => (p.1, stripSR p.2)), none⟩ := by
      intro rest
      induction rest with
      | nil =>
        intro fs acc hfs _ _
        simp only [List.mapM_nil, pure, Except.pure, Except.ok.injEq] at hfs
        subst hfs
        simp [List.foldlM, pure, Except.pure]
      | cons p ps ih =>
        intro fs acc hfs hnd hok
        rw [mapM_cons_eq] at hfs
        cases hp : chanField p with
        | error er => rw [hp] at hfs; cases hfs
        | ok kd =>
          rw [hp] at hfs
          cases hps : ps.mapM chanField with
          | error er => rw [hps] at hfs; cases hfs
          | ok fs' =>
            rw [hps] at hfs
            simp only [Except.ok.injEq] at hfs
            subst hfs
            have hnew : p.1 ∉ Dict.keys acc := by
              intro hm
              simp only [Dict.keys, List.map_append, List.map_cons] at hnd hm
              have := List.nodup_append.mp hnd
              exact this.2.2 _ hm _ (by simp) rfl
            have hstep := chanOfDesc_step ⟨acc, none⟩ p (hok p (by simp)) hnew kd hp
            simp only [List.foldlM_cons, bind, Except.bind, hstep]
            have := ih fs' (acc ++ [(p.1, stripSR p.2)]) hps
              (by
                simp only [Dict.keys, List.map_append, List.map_cons, List.map_nil, List.append_assoc, List.cons_append,
                  List.nil_append] at hnd ⊢
                exact hnd)
              (fun q hq => hok q (by simp [hq]))
            rw [this]
            simp
    have := gen chans fields [] hfields (by simpa using hnd) hok
    simpa using this

theorem chanField_strip (p : Chan × ChEntry) : chanField (p.1, stripSR p.2) = chanField p := by
  obtain ⟨ch, dat, fl⟩ := p
  cases dat <;> rfl

/-- … so the read-back element has the same description (and the same channels in the same order)
    as the original: describing, reading back and describing again is the identity on descriptions -/
theorem roundtrip_el_desc (chans : Dict Chan ChEntry) (cache : Option (Val × Rat))
    (hnd : (Dict.keys chans).Nodup) (hok : ∀ p ∈ chans, ChanOk p) (d : J)
    (hd : (⟨chans, cache⟩ : Element).toDesc = .ok d) :
    ∃ e', Element.ofDesc d = .ok e' ∧ e'.toDesc = .ok d ∧ Dict.keys e'.chans = Dict.keys chans := by
  refine ⟨_, roundtrip_el chans cache hnd hok d hd, ?_, ?_⟩
  · unfold Element.toDesc at hd ⊢
    have : (chans.map (fun p => (p.1, stripSR p.2))).mapM chanField = chans.mapM chanField := by
      rw [List.mapM_map]
      congr 1
      funext p
      exact chanField_strip p
    simp only [this]
    exact hd
  · simp [Dict.keys, List.map_map, Function.comp_def]

/-! non-vacuity: an element with two integer channels, one of them with flags, meets the premises -/

def exFn : Fn := { special := false, name := "ramp", qual := "function PulseAtoms.ramp",
                   params := ["start", "stop", "SR", "npts"], shape := .ramp }
def exBP : BP := { segs := [{ name := "ramp", fn := exFn, args := [.num 0, .num 1], dur := .num 1 },
                            { name := "ramp2", fn := exFn, args := [.num 1, .num 0], dur := .num 2 }], SR := .num 10 }

def exChans : Dict Chan ChEntry := [(Chan.int 1, ⟨.bp exBP, none⟩), (Chan.int 2, ⟨.bp exBP, some [0, 3, 0, 1]⟩)]

theorem exChans_ok : ∀ p ∈ exChans, ChanOk p := by
  unfold exChans
  have hinv : BP.Inv exBP := by unfold BP.Inv; decide +kernel
  have hinv2 : Inv2 exBP := by unfold Inv2 NameOk; decide +kernel
  have hseg : ∀ s ∈ exBP.segs, SegOk s := by
    intro s hs
    simp only [exBP, List.mem_cons, List.not_mem_nil, or_false] at hs
    rcases hs with rfl | rfl <;> exact ⟨fun h => absurd h (by decide), fun _ => ⟨by decide +kernel, by decide⟩⟩
  intro p hp
  simp only [List.mem_cons, List.not_mem_nil, or_false] at hp
  rcases hp with rfl | rfl
  · exact ⟨⟨1, rfl⟩, exBP, rfl, hinv, hinv2, hseg, by decide, by intro fl h; cases h⟩
  · refine ⟨⟨2, rfl⟩, exBP, rfl, hinv, hinv2, hseg, by decide, ?_⟩
    intro fl h
    cases h
    exact ⟨rfl, by decide⟩

end element

/-! ### the round trip of a sequence -/

section sequence
open BB.Element BB.Sequence

theorem chanField_key (p : Chan × ChEntry) (kd : String × J) (h : chanField p = .ok kd) : kd.1 = p.1.toStr := by
  unfold chanField at h
  split at h
  · cases h
  · simp only [Except.ok.injEq] at h
    rw [← h]

/-- amplitude and offset of the given channels carried over from the description's settings -/
def carryAll (specs : List (String × J)) (s : Sequence) (chs : List Chan) : Sequence :=
  chs.foldl (fun s ch =>
    (s.setChannelAmplitude ch (J.toVal ((specs.lookup (keyOf ch "amplitude")).getD .null))).setChannelOffset ch
      (J.toVal ((specs.lookup (keyOf ch "offset")).getD .null))) s

/-- the channels of one position, read back one after the other -/
theorem chan_fold (specs : List (String × J)) (sr : Val) :
    ∀ (rest : Dict Chan ChEntry) (fs : List (String × J)) (acc : Dict Chan ChEntry) (s0 : Sequence),
      rest.mapM chanField = .ok fs → (Dict.keys (acc ++ rest)).Nodup → (∀ p ∈ rest, ChanOk p) →
      (∀ p ∈ rest, (specs.lookup (keyOf p.1 "amplitude")).isSome ∧ (specs.lookup (keyOf p.1 "offset")).isSome) →
      fs.foldlM (chanStep specs sr) ((⟨acc, none⟩ : Element), s0) =
        .ok ((⟨acc ++ rest.map (fun p => (p.1, reSR (some sr) p.2)), none⟩ : Element), carryAll specs s0 (rest.map (·.1))) := by
  intro rest
  induction rest with
  | nil =>
    intro fs acc s0 hfs _ _ _
    simp only [List.mapM_nil, pure, Except.pure, Except.ok.injEq] at hfs
    subst hfs
    simp [List.foldlM, pure, Except.pure, carryAll]
  | cons p ps ih =>
    intro fs acc s0 hfs hnd hok hsp
    rw [mapM_cons_eq] at hfs
    cases hp : chanField p with
    | error er => rw [hp] at hfs; cases hfs
    | ok kd =>
      rw [hp] at hfs
      cases hps : ps.mapM chanField with
      | error er => rw [hps] at hfs; cases hfs
      | ok fs' =>
        rw [hps] at hfs
        simp only [Except.ok.injEq] at hfs
        subst hfs
        have hnew : p.1 ∉ Dict.keys acc := by
          intro hm
          simp only [Dict.keys, List.map_append, List.map_cons] at hnd hm
          have := List.nodup_append.mp hnd
          exact this.2.2 _ hm _ (by simp) rfl
        have hcok := hok p (by simp)
        have hstep := chanOfDesc_step_sr ⟨acc, none⟩ p hcok hnew kd hp (some sr)
        obtain ⟨nch, hint⟩ := hcok.1
        have hparse : parseChan kd.1 = .ok p.1 := by
          rw [chanField_key p kd hp, hint]; exact parseChan_int nch
        obtain ⟨ha, ho⟩ := hsp p (by simp)
        obtain ⟨a, ha⟩ := Option.isSome_iff_exists.mp ha
        obtain ⟨o, ho⟩ := Option.isSome_iff_exists.mp ho
        have hone : chanStep specs sr ((⟨acc, none⟩ : Element), s0) kd =
            .ok ((⟨acc ++ [(p.1, reSR (some sr) p.2)], none⟩ : Element),
                 (s0.setChannelAmplitude p.1 (J.toVal a)).setChannelOffset p.1 (J.toVal o)) := by
          simp only [chanStep, hstep, hparse, ha, ho]
        simp only [List.foldlM_cons, bind, Except.bind, hone]
        have := ih fs' (acc ++ [(p.1, reSR (some sr) p.2)]) ((s0.setChannelAmplitude p.1 (J.toVal a)).setChannelOffset p.1 (J.toVal o)) hps
          (by
            simp only [Dict.keys, List.map_append, List.map_cons, List.map_nil, List.append_assoc, List.cons_append,
              List.nil_append] at hnd ⊢
            exact hnd)
          (fun q hq => hok q (by simp [hq])) (fun q hq => hsp q (by simp [hq]))
        rw [this]
        simp [carryAll, ha, ho]

theorem carryAll_data (specs : List (String × J)) (s : Sequence) (chs : List Chan) :
    (carryAll specs s chs).data = s.data ∧ (carryAll specs s chs).sequencing = s.sequencing ∧ (carryAll specs s chs).name = s.name := by
  induction chs generalizing s with
  | nil => exact ⟨rfl, rfl, rfl⟩
  | cons c cs ih =>
    simp only [carryAll, List.foldl_cons]
    exact ih _

theorem toString_toInt (n : Int) : (toString n).toInt? = some n := by
  have : (toString n : String) = n.repr := rfl
  rw [this, Int.toInt?_repr]

theorem seqSetOfJ_back (q : SeqSet) (l : List (String × J)) (h : seqSetJ q = .obj l) : seqSetOfJ l = .ok q := by
  have := seqset_roundtrip q
  simp only [h] at this
  simp only [Prod.mk.injEq] at this
  obtain ⟨h1, h2, h3, h4, h5⟩ := this
  simp only [seqSetOfJ, h1, h2, h3, h4, h5]

/-- one position read back -/
theorem posStep_el (s : Sequence) (specs : List (String × J)) (sr : Val) (s0 : Sequence)
    (pos : Int) (chans : Dict Chan ChEntry) (cache : Option (Val × Rat)) (kd : String × J) (q : SeqSet) (m : Val × Rat)
    (hfield : posField s (pos, .el ⟨chans, cache⟩) = .ok kd)
    (hnd : (Dict.keys chans).Nodup) (hok : ∀ p ∈ chans, ChanOk p)
    (hsr : ∀ p ∈ chans, reSR (some sr) p.2 = p.2)
    (hsp : ∀ p ∈ chans, (specs.lookup (keyOf p.1 "amplitude")).isSome ∧ (specs.lookup (keyOf p.1 "offset")).isSome)
    (hval : Element.validate ⟨chans, none⟩ = .ok m)
    (hq : Dict.get? s.sequencing pos = some q) :
    posStep specs sr s0 kd =
      .ok { carryAll specs s0 (chans.map (·.1)) with
            data := Dict.upsert (carryAll specs s0 (chans.map (·.1))).data pos (.el ⟨chans, some m⟩)
            sequencing := Dict.upsert (Dict.upsert (carryAll specs s0 (chans.map (·.1))).sequencing pos defaultSeqEl) pos q } := by
  unfold posField at hfield
  simp only [Element.toDesc] at hfield
  cases hfs : chans.mapM chanField with
  | error er => rw [hfs] at hfield; cases hfield
  | ok fields =>
    rw [hfs] at hfield
    simp only [Except.ok.injEq] at hfield
    subst hfield
    have hfold := chan_fold specs sr chans fields [] s0 hfs (by simpa using hnd) hok hsp
    have hmap : chans.map (fun p => (p.1, reSR (some sr) p.2)) = chans := by
      conv => rhs; rw [← List.map_id chans]
      apply List.map_congr_left
      intro p hp
      rw [hsr p hp]; rfl
    rw [List.nil_append, hmap] at hfold
    obtain ⟨ql, hql⟩ : ∃ ql, seqSetJ q = .obj ql := ⟨_, rfl⟩
    have hseqn : seqnJ s pos = .obj ql := by
      unfold seqnJ; rw [hq]; exact hql
    have hne : ("sequencing" == "channels") = false := by decide
    simp only [posStep, J.get?, List.lookup, beq_self_eq_true, hfold, toString_toInt,
      Sequence.addElement, hval, hseqn, hne, seqSetOfJ_back q ql hql]

/-- `A` holds nothing `B` does not hold -/
def SubMap (A B : Dict String Spec) : Prop := ∀ k v, Dict.get? A k = some v → Dict.get? B k = some v

theorem SubMap.upsert {A B : Dict String Spec} (h : SubMap A B) (k : String) (v : Spec) (hv : Dict.get? B k = some v) :
    SubMap (Dict.upsert A k v) B := by
  intro k' v' hk'
  by_cases he : k' = k
  · subst he
    rw [Dict.get?_upsert_self] at hk'
    cases hk'; exact hv
  · rw [Dict.get?_upsert_other _ _ _ _ he] at hk'
    exact h k' v' hk'

/-- the description's settings are the sequence's, key by key -/
theorem lookup_awgspecsJ (B : Dict String Spec) (k : String) :
    (B.map (fun kv => (kv.1, specJ kv.2))).lookup k = (Dict.get? B k).map specJ := by
  induction B with
  | nil => rfl
  | cons p ps ih =>
    obtain ⟨k', v⟩ := p
    simp only [List.map_cons, List.lookup, Dict.get?, List.find?_cons]
    by_cases he : k' = k
    · subst he; simp
    · have h1 : (k == k') = false := by simpa using fun e => he e.symm
      have h2 : decide (k' = k) = false := by simpa using he
      simp only [h1, h2]
      simpa [Dict.get?] using ih

theorem awgspecsJ_fields (B : Dict String Spec) : awgspecsJ B = .obj (B.map (fun kv => (kv.1, specJ kv.2))) := by
  unfold awgspecsJ
  congr 1

/-- carrying amplitude and offset over keeps the settings inside the original's -/
theorem carryAll_sub (B : Dict String Spec) (s0 : Sequence) (chs : List Chan) (hsub : SubMap s0.awgspecs B)
    (hch : ∀ ch ∈ chs, (∃ a, Dict.get? B (keyOf ch "amplitude") = some (.val a)) ∧ ∃ o, Dict.get? B (keyOf ch "offset") = some (.val o)) :
    SubMap (carryAll (B.map (fun kv => (kv.1, specJ kv.2))) s0 chs).awgspecs B := by
  induction chs generalizing s0 with
  | nil => exact hsub
  | cons c cs ih =>
    simp only [carryAll, List.foldl_cons]
    apply ih
    · obtain ⟨⟨a, ha⟩, ⟨o, ho⟩⟩ := hch c (by simp)
      have h1 : List.lookup (keyOf c "amplitude") (B.map (fun kv => (kv.1, specJ kv.2))) = some (J.ofVal a) := by
        rw [lookup_awgspecsJ, ha]; rfl
      have h2 : List.lookup (keyOf c "offset") (B.map (fun kv => (kv.1, specJ kv.2))) = some (J.ofVal o) := by
        rw [lookup_awgspecsJ, ho]; rfl
      simp only [h1, h2, Option.getD_some, val_roundtrip,
        SeqCore.setChannelOffset, SeqCore.setChannelAmplitude, SeqCore.setSpec]
      exact (hsub.upsert _ _ ha).upsert _ _ ho
    · exact fun ch hc => hch ch (by simp [hc])

/-- what a sequence must be like for `sequence_from_description` to rebuild it: every position
    holds an element as `addElement` stored it (validated, cache filled) whose channels are
    integer-numbered blueprint channels at the sequence's sample rate with amplitude and offset
    set; sequencing entries in position order; a sample rate -/
structure SeqOk (s : Sequence) (sr : Val) : Prop where
  posNodup : (Dict.keys s.data).Nodup
  seqKeys : Dict.keys s.sequencing = Dict.keys s.data
  specsNodup : (Dict.keys s.awgspecs).Nodup
  srSet : Dict.get? s.awgspecs "SR" = some (.val sr)
  noName : s.name = ""
  entries : ∀ pe ∈ s.data, ∃ (chans : Dict Chan ChEntry) (m : Val × Rat),
    pe.2 = .el ⟨chans, some m⟩ ∧ Element.validate ⟨chans, none⟩ = .ok m ∧ (Dict.keys chans).Nodup ∧
    ∀ p ∈ chans, ChanOk p ∧ reSR (some sr) p.2 = p.2 ∧
      (∃ a, Dict.get? s.awgspecs (keyOf p.1 "amplitude") = some (.val a)) ∧
      (∃ o, Dict.get? s.awgspecs (keyOf p.1 "offset") = some (.val o))

theorem get?_of_keys_eq {α β : Type} (d1 : Dict Int α) (d2 : Dict Int β) (h : Dict.keys d1 = Dict.keys d2) (k : Int)
    (hk : k ∈ Dict.keys d2) : ∃ v, Dict.get? d1 k = some v := by
  have : k ∈ Dict.keys d1 := by rw [h]; exact hk
  exact Option.isSome_iff_exists.mp ((Dict.get?_isSome_iff d1 k).mpr this)

/-- the positions, read back one after the other -/
theorem pos_fold (s : Sequence) (sr : Val) (hs : SeqOk s sr) :
    ∀ (rest : Dict Int Entry) (pre : Dict Int Entry) (fs : List (String × J)) (s0 : Sequence),
      s.data = pre ++ rest → rest.mapM (posField s) = .ok fs →
      s0.data = pre → Dict.keys s0.sequencing = Dict.keys pre → SubMap s0.awgspecs s.awgspecs →
      ∃ sf, fs.foldlM (posStep (s.awgspecs.map (fun kv => (kv.1, specJ kv.2))) sr) s0 = .ok sf ∧
        sf.data = s.data ∧ Dict.keys sf.sequencing = Dict.keys s.data ∧
        (∀ pe ∈ rest, Dict.get? sf.sequencing pe.1 = Dict.get? s.sequencing pe.1) ∧
        (∀ k, k ∈ Dict.keys pre → Dict.get? sf.sequencing k = Dict.get? s0.sequencing k) ∧
        SubMap sf.awgspecs s.awgspecs ∧ sf.name = s0.name := by
  intro rest
  induction rest with
  | nil =>
    intro pre fs s0 hdata hfs hd hq hsub
    simp only [List.mapM_nil, pure, Except.pure, Except.ok.injEq] at hfs
    subst hfs
    refine ⟨s0, rfl, by rw [hd, hdata, List.append_nil], by rw [hq, hdata, List.append_nil], by simp, fun _ _ => rfl, hsub, rfl⟩
  | cons pe ps ih =>
    intro pre fs s0 hdata hfs hd hq hsub
    rw [mapM_cons_eq] at hfs
    cases hp : posField s pe with
    | error er => rw [hp] at hfs; cases hfs
    | ok kd =>
      rw [hp] at hfs
      cases hps : ps.mapM (posField s) with
      | error er => rw [hps] at hfs; cases hfs
      | ok fs' =>
        rw [hps] at hfs
        simp only [Except.ok.injEq] at hfs
        subst hfs
        obtain ⟨pos, ent⟩ := pe
        have hmem : (pos, ent) ∈ s.data := by rw [hdata]; simp
        obtain ⟨chans, m, hent, hval, hnd, hch⟩ := hs.entries (pos, ent) hmem
        simp only at hent
        subst hent
        -- the sequencing entry of this position
        obtain ⟨q, hq'⟩ := get?_of_keys_eq s.sequencing s.data hs.seqKeys pos (by
          simp only [Dict.keys, hdata, List.map_append, List.map_cons, List.mem_append, List.mem_cons]; right; left; trivial)
        have hstep := posStep_el s (s.awgspecs.map (fun kv => (kv.1, specJ kv.2))) sr s0 pos chans (some m) kd q m hp hnd
          (fun p hp => (hch p hp).1) (fun p hp => (hch p hp).2.1)
          (fun p hp => by
            obtain ⟨_, _, ⟨a, ha⟩, ⟨o, ho⟩⟩ := hch p hp
            simp [lookup_awgspecsJ, ha, ho])
          hval hq'
        -- pos is new for the accumulator
        have hnodup := hs.posNodup
        rw [hdata] at hnodup
        simp only [Dict.keys, List.map_append, List.map_cons] at hnodup
        have hnew : pos ∉ Dict.keys pre := by
          intro hm
          exact (List.nodup_append.mp hnodup).2.2 _ hm _ (by simp) rfl
        obtain ⟨hcd, hcq, hcn⟩ := carryAll_data (s.awgspecs.map (fun kv => (kv.1, specJ kv.2))) s0 (chans.map (·.1))
        let s1 : Sequence :=
          { carryAll (s.awgspecs.map (fun kv => (kv.1, specJ kv.2))) s0 (chans.map (·.1)) with
            data := Dict.upsert (carryAll (s.awgspecs.map (fun kv => (kv.1, specJ kv.2))) s0 (chans.map (·.1))).data pos (.el ⟨chans, some m⟩)
            sequencing := Dict.upsert (Dict.upsert (carryAll (s.awgspecs.map (fun kv => (kv.1, specJ kv.2))) s0 (chans.map (·.1))).sequencing pos defaultSeqEl) pos q }
        have hs1d : s1.data = pre ++ [(pos, .el ⟨chans, some m⟩)] := by
          show Dict.upsert _ pos _ = _
          rw [hcd, hd, upsert_of_not_mem _ _ _ hnew]
        have hnewq : pos ∉ Dict.keys s0.sequencing := by rw [hq]; exact hnew
        have hs1q : s1.sequencing = s0.sequencing ++ [(pos, q)] := by
          show Dict.upsert (Dict.upsert _ pos _) pos _ = _
          rw [hcq, upsert_of_not_mem _ _ _ hnewq, upsert_append_self _ _ _ _ hnewq]
        have hs1sub : SubMap s1.awgspecs s.awgspecs :=
          carryAll_sub s.awgspecs s0 (chans.map (·.1)) hsub (by
            intro ch hc
            obtain ⟨p, hpm, rfl⟩ := List.mem_map.mp hc
            exact ⟨(hch p hpm).2.2.1, (hch p hpm).2.2.2⟩)
        obtain ⟨sf, hsf, hsfd, hsfk, hsfq, hsfpre, hsfsub, hsfn⟩ := ih (pre ++ [(pos, .el ⟨chans, some m⟩)]) fs' s1
          (by rw [hdata]; simp) hps hs1d
          (by rw [hs1q]; simp only [Dict.keys, List.map_append, List.map_cons, List.map_nil]; rw [show s0.sequencing.map (·.1) = pre.map (·.1) from hq])
          hs1sub
        refine ⟨sf, ?_, hsfd, hsfk, ?_, ?_, hsfsub, ?_⟩
        · simp only [List.foldlM_cons, bind, Except.bind, hstep]
          exact hsf
        · intro pe' hpe'
          simp only [List.mem_cons] at hpe'
          rcases hpe' with h | h
          · subst h
            simp only
            rw [hsfpre pos (by simp [Dict.keys]), hs1q, get?_append_self _ _ _ hnewq, hq']
          · exact hsfq pe' h
        · intro k hk
          rw [hsfpre k (by simp only [Dict.keys, List.map_append, List.mem_append]; left; exact hk), hs1q]
          have hne : k ≠ pos := fun e => hnew (e ▸ hk)
          rw [← upsert_of_not_mem _ _ _ hnewq, Dict.get?_upsert_other _ _ _ _ hne]
        · rw [hsfn]; exact hcn

theorem has_eq_isSome {α : Type} (d : Dict String α) (k : String) : Dict.has d k = (Dict.get? d k).isSome := by
  induction d with
  | nil => rfl
  | cons p ps ih =>
    simp only [Dict.has, List.any_cons, Dict.get?, List.find?_cons] at ih ⊢
    by_cases he : p.1 = k
    · simp [he]
    · simp only [he, decide_false, Bool.false_or]
      exact ih

/-- `setdefault` of every remaining setting -/
theorem restSpecs_sub (B : Dict String Spec) :
    ∀ (l : Dict String Spec) (A0 : Sequence), (∀ kv ∈ l, Dict.get? B kv.1 = some kv.2) → SubMap A0.awgspecs B →
      SubMap (restSpecs A0 (l.map (fun kv => (kv.1, specJ kv.2)))).awgspecs B ∧
      (∀ kv ∈ l, (Dict.get? (restSpecs A0 (l.map (fun kv => (kv.1, specJ kv.2)))).awgspecs kv.1).isSome = true) ∧
      (∀ k, (Dict.get? A0.awgspecs k).isSome = true → (Dict.get? (restSpecs A0 (l.map (fun kv => (kv.1, specJ kv.2)))).awgspecs k).isSome = true) ∧
      (restSpecs A0 (l.map (fun kv => (kv.1, specJ kv.2)))).data = A0.data ∧
      (restSpecs A0 (l.map (fun kv => (kv.1, specJ kv.2)))).sequencing = A0.sequencing ∧
      (restSpecs A0 (l.map (fun kv => (kv.1, specJ kv.2)))).name = A0.name := by
  intro l
  induction l with
  | nil => intro A0 _ hsub; exact ⟨hsub, by simp, fun _ h => h, rfl, rfl, rfl⟩
  | cons p ps ih =>
    intro A0 hl hsub
    obtain ⟨k, v⟩ := p
    simp only [restSpecs, List.map_cons, List.foldl_cons]
    have hB := hl (k, v) (by simp)
    simp only at hB
    by_cases hhas : Dict.has A0.awgspecs k = true
    · simp only [hhas, if_true]
      obtain ⟨h1, h2, h3, h4, h5, h6⟩ := ih A0 (fun kv hkv => hl kv (by simp [hkv])) hsub
      refine ⟨h1, ?_, h3, h4, h5, h6⟩
      intro kv hkv
      simp only [List.mem_cons] at hkv
      rcases hkv with h | h
      · subst h
        apply h3
        rw [← has_eq_isSome]; exact hhas
      · exact h2 kv h
    · simp only [hhas, Bool.false_eq_true, if_false]
      have hsub' : SubMap (A0.setSpec k (specOfJ (specJ v))).awgspecs B := by
        rw [spec_roundtrip]
        exact hsub.upsert k v hB
      obtain ⟨h1, h2, h3, h4, h5, h6⟩ := ih (A0.setSpec k (specOfJ (specJ v))) (fun kv hkv => hl kv (by simp [hkv])) hsub'
      refine ⟨h1, ?_, ?_, h4, h5, h6⟩
      · intro kv hkv
        simp only [List.mem_cons] at hkv
        rcases hkv with h | h
        · subst h
          apply h3
          simp [SeqCore.setSpec, Dict.get?_upsert_self]
        · exact h2 kv h
      · intro k' hk'
        apply h3
        by_cases he : k' = k
        · subst he; simp [SeqCore.setSpec, Dict.get?_upsert_self]
        · simp only [SeqCore.setSpec]
          rw [Dict.get?_upsert_other _ _ _ _ he]
          exact hk'

theorem toString_ne_awgspecs (n : Int) : toString n ≠ "awgspecs" := by
  intro h
  have h1 := toString_toInt n
  rw [h] at h1
  rw [String.toInt?_eq_some_iff] at h1
  rcases h1 with ⟨b, hb, _⟩ | ⟨t, ht, _⟩
  · have hn := String.isNat_of_toNat?_eq_some hb
    rw [String.isNat_iff] at hn
    have := hn.2.1 'a' (by decide)
    revert this; decide
  · have := congrArg (fun s => s.toList.head?) ht
    simp only [String.toList_append] at this
    have h2 : ("-".toList ++ t.toList).head? = some '-' := by
      have : "-".toList = ['-'] := by decide
      rw [this]; rfl
    rw [h2] at this
    revert this; decide

theorem posField_key (s : Sequence) (pe : Int × Entry) (kd : String × J) (h : posField s pe = .ok kd) : kd.1 = toString pe.1 := by
  unfold posField at h
  split at h
  · cases h
  · simp only [Except.ok.injEq] at h
    rw [← h]

theorem lookup_fields_awgspecs (s : Sequence) :
    ∀ (l : Dict Int Entry) (fs : List (String × J)) (x : J), l.mapM (posField s) = .ok fs →
      (fs ++ [("awgspecs", x)]).lookup "awgspecs" = some x := by
  intro l
  induction l with
  | nil =>
    intro fs x h
    simp only [List.mapM_nil, pure, Except.pure, Except.ok.injEq] at h
    subst h
    simp [List.lookup]
  | cons pe ps ih =>
    intro fs x h
    rw [mapM_cons_eq] at h
    cases hp : posField s pe with
    | error er => rw [hp] at h; cases h
    | ok kd =>
      rw [hp] at h
      cases hps : ps.mapM (posField s) with
      | error er => rw [hps] at h; cases h
      | ok fs' =>
        rw [hps] at h
        simp only [Except.ok.injEq] at h
        subst h
        have hk := posField_key s pe kd hp
        have hne : ("awgspecs" == kd.1) = false := by
          rw [hk]
          simpa using fun e => toString_ne_awgspecs pe.1 e.symm
        obtain ⟨k, v⟩ := kd
        simp only [List.cons_append, List.lookup]
        simp only at hne
        rw [hne]
        exact ih fs' x hps

/-- **the round trip of a sequence**: a sequence as the public API builds it over the built-in
    shapes (`SeqOk`: elements stored by `addElement`, integer channels at the sequence's sample
    rate with amplitude and offset set, sequencing in position order, a sample rate) is rebuilt by
    `sequence_from_description` from its own description with the same elements at the same
    positions — every blueprint, flag and cached validation —, the same sequencing entry for
    every position and the same AWG settings key by key (sample rate, amplitudes, offsets, channel
    delays, filter compensations; only their order may differ) -/
theorem roundtrip_seq (s : Sequence) (sr : Val) (hs : SeqOk s sr) (d : J) (hd : s.toDesc = .ok d) :
    ∃ s', Sequence.ofDesc d = .ok s' ∧ s'.data = s.data ∧ Dict.keys s'.sequencing = Dict.keys s.sequencing ∧
      (∀ pe ∈ s.data, Dict.get? s'.sequencing pe.1 = Dict.get? s.sequencing pe.1) ∧
      (∀ k, Dict.get? s'.awgspecs k = Dict.get? s.awgspecs k) ∧ s'.name = s.name := by
  unfold Sequence.toDesc at hd
  split at hd
  · cases hd
  · rename_i fields hfields
    simp only [Except.ok.injEq] at hd
    subst hd
    have hget : (J.obj (fields ++ [("awgspecs", awgspecsJ s.awgspecs)])).get? "awgspecs" = some (awgspecsJ s.awgspecs) := by
      simp only [J.get?]
      exact lookup_fields_awgspecs s s.data fields _ hfields
    have hsrl : (s.awgspecs.map (fun kv => (kv.1, specJ kv.2))).lookup "SR" = some (J.ofVal sr) := by
      rw [lookup_awgspecsJ, hs.srSet]; rfl
    obtain ⟨sf, hsf, hsfd, hsfk, hsfq, _, hsfsub, hsfn⟩ :=
      pos_fold s sr hs s.data [] fields {} (by simp) hfields rfl rfl (fun k v h => by simp [Dict.get?] at h)
    have hwf : ∀ kv ∈ s.awgspecs, Dict.get? s.awgspecs kv.1 = some kv.2 :=
      fun kv hkv => Dict.get?_eq_some_of_mem hs.specsNodup kv.1 kv.2 hkv
    obtain ⟨r1, r2, r3, r4, r5, r6⟩ := restSpecs_sub s.awgspecs s.awgspecs sf hwf hsfsub
    refine ⟨(restSpecs sf (s.awgspecs.map (fun kv => (kv.1, specJ kv.2)))).setSR sr, ?_, ?_, ?_, ?_, ?_, ?_⟩
    · rw [awgspecsJ_fields] at hget
      rw [awgspecsJ_fields]
      simp only [Sequence.ofDesc, hget, hsrl, List.dropLast_concat, val_roundtrip, hsf]
    · show (restSpecs sf _).data = s.data
      rw [r4, hsfd]
    · show Dict.keys (restSpecs sf _).sequencing = _
      rw [r5, hsfk, hs.seqKeys]
    · intro pe hpe
      show Dict.get? (restSpecs sf _).sequencing pe.1 = _
      rw [r5]; exact hsfq pe hpe
    · intro k
      show Dict.get? (Dict.upsert (restSpecs sf _).awgspecs "SR" (.val sr)) k = _
      -- the settings after `setdefault` are the original's, key by key
      have hall : ∀ k, Dict.get? (restSpecs sf (s.awgspecs.map (fun kv => (kv.1, specJ kv.2)))).awgspecs k = Dict.get? s.awgspecs k := by
        intro k
        cases hB : Dict.get? s.awgspecs k with
        | some v =>
          have hmem := Dict.mem_of_get?_eq_some k v hB
          have := r2 (k, v) hmem
          obtain ⟨v', hv'⟩ := Option.isSome_iff_exists.mp this
          simp only at hv'
          rw [hv', ← hB]
          exact (r1 k v' hv').symm
        | none =>
          cases hA : Dict.get? (restSpecs sf (s.awgspecs.map (fun kv => (kv.1, specJ kv.2)))).awgspecs k with
          | none => rfl
          | some v' => rw [r1 k v' hA] at hB; cases hB
      by_cases he : k = "SR"
      · subst he
        rw [Dict.get?_upsert_self, hs.srSet]
      · rw [Dict.get?_upsert_other _ _ _ _ he]
        exact hall k
    · show (restSpecs sf _).name = s.name
      rw [r6, hsfn, hs.noName]

/-! non-vacuity: a two-position sequence with flags, a channel delay and a filter compensation
    meets `SeqOk` -/

def exM : Val × Rat := (.num 10, 3)

theorem exValidate : Element.validate ⟨exChans, none⟩ = .ok exM := by
  have h : (Element.validate ⟨exChans, none⟩).toOption = some exM := by decide +kernel
  cases hv : Element.validate ⟨exChans, none⟩ with
  | error e => rw [hv] at h; cases h
  | ok m => rw [hv] at h; simp only [Except.toOption, Option.some.injEq] at h; rw [h]

def exSeq : Sequence :=
  { data := [(1, .el ⟨exChans, some exM⟩), (2, .el ⟨exChans, some exM⟩)],
    sequencing := [(1, ⟨0, 1, 0, 0, 0⟩), (2, ⟨1, 5, 0, 1, 1⟩)],
    awgspecs := [("SR", .val (.num 10)), ("channel1_amplitude", .val (.num 2)), ("channel1_offset", .val (.num 0)),
                 ("channel2_amplitude", .val (.num 1)), ("channel2_offset", .val (.num 0)),
                 ("channel1_delay", .val (.num 0)), ("channel2_filtercompensation", .filt ⟨"HP", 1, .num 1, .none⟩)] }

example : SeqOk exSeq (.num 10) := by
  refine ⟨by decide, by decide, by decide, by decide, rfl, ?_⟩
  intro pe hpe
  refine ⟨exChans, exM, ?_, exValidate, by decide, ?_⟩
  · simp only [exSeq, List.mem_cons, List.not_mem_nil, or_false] at hpe
    rcases hpe with rfl | rfl <;> rfl
  · intro p hp
    refine ⟨exChans_ok p hp, ?_, ?_, ?_⟩
    · simp only [exChans, List.mem_cons, List.not_mem_nil, or_false] at hp
      rcases hp with rfl | rfl <;> decide
    · simp only [exChans, List.mem_cons, List.not_mem_nil, or_false] at hp
      rcases hp with rfl | rfl
      · exact ⟨.num 2, by decide⟩
      · exact ⟨.num 1, by decide⟩
    · simp only [exChans, List.mem_cons, List.not_mem_nil, or_false] at hp
      rcases hp with rfl | rfl <;> exact ⟨.num 0, by decide⟩

end sequence

/-! ## second part: the read-back object compares equal, describes and forges like the original -/

section observables
open BB.Element BB.Sequence BB.C20

theorem get?_map_val {κ α β : Type} [DecidableEq κ] (d : Dict κ α) (g : α → β) (k : κ) :
    Dict.get? (d.map (fun p => (p.1, g p.2))) k = (Dict.get? d k).map g := by
  induction d with
  | nil => rfl
  | cons p ps ih =>
    simp only [Dict.get?, List.map_cons, List.find?_cons] at ih ⊢
    by_cases he : p.1 = k
    · simp [he]
    · simp only [he, decide_false]
      exact ih

/-- helper: mapping the values keeps the keys -/
theorem keys_map_val {κ α β : Type} (d : Dict κ α) (g : κ × α → β) :
    Dict.keys (d.map (fun p => (p.1, g p))) = Dict.keys d := by
  simp [Dict.keys, List.map_map, Function.comp_def]

/-- an entry without its blueprint's sample rate still compares equal to the entry -/
theorem entEq_stripSR (ent : ChEntry) : entEq (stripSR ent) ent = true ∧ entEq ent (stripSR ent) = true := by
  obtain ⟨d, fl⟩ := ent
  cases d with
  | bp b =>
    simp only [stripSR, entEq, Bool.and_eq_true, beq_self_eq_true, and_true]
    exact ⟨(bp_eq_iff _ _).mpr ⟨rfl, rfl, rfl⟩, (bp_eq_iff _ _).mpr ⟨rfl, rfl, rfl⟩⟩
  | arr a s => exact ⟨entEq_refl _, entEq_refl _⟩
  | broken => exact ⟨entEq_refl _, entEq_refl _⟩

/-- helper for `roundtrip_el_observables`: giving a sample rate forgets the old one -/
theorem reSR_stripSR (sr : Option Val) (ent : ChEntry) : reSR sr (stripSR ent) = reSR sr ent := by
  obtain ⟨d, fl⟩ := ent
  cases d <;> rfl

/-- `bp.setSR(sr)` on the blueprint of every channel of an element -/
def giveSR (sr : Val) (e : Element) : Element :=
  { e with chans := e.chans.map (fun p => (p.1, reSR (some sr) p.2)) }

/-- **the read-back element is observably the original** (`roundtrip_el` with the side conditions
    of `roundtrip_el`): it compares equal to the original (both ways round), has the same
    description and the same channels in the same order, and once every blueprint is given the
    sample rate `sr` the original's channels have, it has the very same channel store — hence the
    same `getArrays` (waveforms, markers, flags, time axes), the same `validateDurations` verdict,
    the same duration and number of points -/
theorem roundtrip_el_observables (chans : Dict Chan ChEntry) (cache : Option (Val × Rat))
    (hnd : (Dict.keys chans).Nodup) (hok : ∀ p ∈ chans, ChanOk p) (d : J)
    (hd : (⟨chans, cache⟩ : Element).toDesc = .ok d) :
    ∃ e', Element.ofDesc d = .ok e' ∧
      e'.beq ⟨chans, cache⟩ = true ∧ Element.beq ⟨chans, cache⟩ e' = true ∧
      e'.toDesc = .ok d ∧ e'.channels = Dict.keys chans ∧
      ∀ sr, (∀ p ∈ chans, reSR (some sr) p.2 = p.2) →
        (giveSR sr e').chans = chans ∧
        (∀ t, (giveSR sr e').getArrays t = Element.getArrays ⟨chans, cache⟩ t) ∧
        (giveSR sr e').validate = Element.validate ⟨chans, cache⟩ ∧
        (giveSR sr e').duration = Element.duration ⟨chans, cache⟩ ∧
        (giveSR sr e').points = Element.points ⟨chans, cache⟩ := by
  obtain ⟨e', he', hdesc, hkeys⟩ := roundtrip_el_desc chans cache hnd hok d hd
  have hch : e' = ⟨chans.map (fun p => (p.1, stripSR p.2)), none⟩ := by
    have := roundtrip_el chans cache hnd hok d hd
    rw [he'] at this
    exact Except.ok.inj this
  have hwf : Dict.WF chans := hnd
  have hwf' : Dict.WF (chans.map (fun p => (p.1, stripSR p.2))) := by
    unfold Dict.WF; rw [keys_map_val chans (fun p => stripSR p.2)]; exact hnd
  refine ⟨e', he', ?_, ?_, hdesc, hkeys, ?_⟩
  · subst hch
    refine (Dict.eqBy_iff _ hwf').mpr ⟨by simp, fun k v hk => ?_⟩
    rw [get?_map_val chans stripSR k] at hk
    cases hg : Dict.get? chans k with
    | none => rw [hg] at hk; cases hk
    | some w =>
      rw [hg] at hk
      simp only [Option.map_some, Option.some.injEq] at hk
      subst hk
      exact ⟨w, rfl, (entEq_stripSR w).1⟩
  · subst hch
    refine (Dict.eqBy_iff _ hwf).mpr ⟨by simp, fun k v hk => ?_⟩
    refine ⟨stripSR v, ?_, (entEq_stripSR v).2⟩
    show Dict.get? (chans.map (fun p => (p.1, stripSR p.2))) k = _
    rw [get?_map_val chans stripSR k, hk]
    rfl
  · intro sr hsr
    have hc : (giveSR sr e').chans = chans := by
      subst hch
      simp only [giveSR, List.map_map, Function.comp_def, reSR_stripSR]
      conv => rhs; rw [← List.map_id chans]
      apply List.map_congr_left
      intro p hp
      rw [hsr p hp]
      rfl
    have hrel : ElRel (giveSR sr e') ⟨chans, cache⟩ := hc
    refine ⟨hc, fun t => hrel.getArrays t, ?_, ?_, ?_⟩
    · rw [hrel.eq_cache]; rfl
    · rw [hrel.eq_cache]; rfl
    · rw [hrel.eq_cache]; rfl

/-- non-vacuity: the example element meets the premises, at sample rate 10 -/
example : (∀ p ∈ exChans, ChanOk p) ∧ (Dict.keys exChans).Nodup ∧ (∀ p ∈ exChans, reSR (some (.num 10)) p.2 = p.2) :=
  ⟨exChans_ok, by decide, by decide⟩

/-! #### sequences -/

/-- helper for `ofDesc_specs_wf`: an invariant of every step is an invariant of the loop -/
theorem foldlM_inv {σ α : Type} (P : σ → Prop) (F : σ → α → Except Err σ)
    (hF : ∀ s x s', P s → F s x = .ok s' → P s') :
    ∀ (l : List α) (s sf : σ), P s → l.foldlM F s = .ok sf → P sf := by
  intro l
  induction l with
  | nil =>
    intro s sf hs h
    simp only [List.foldlM_nil, pure, Except.pure, Except.ok.injEq] at h
    subst h
    exact hs
  | cons x xs ih =>
    intro s sf hs h
    simp only [List.foldlM_cons, bind, Except.bind] at h
    cases hx : F s x with
    | error e => rw [hx] at h; cases h
    | ok s1 =>
      rw [hx] at h
      exact ih s1 sf (hF s x s1 hs hx) h

/-- helper for `ofDesc_specs_wf`: reading back one channel keeps every AWG setting stored once -/
theorem chanStep_wf (specs : List (String × J)) (sr : Val) (es es' : Element × Sequence) (kd : String × J)
    (h : Dict.WF es.2.awgspecs) (hs : chanStep specs sr es kd = .ok es') : Dict.WF es'.2.awgspecs := by
  unfold chanStep at hs
  split at hs
  · cases hs
  · split at hs
    · cases hs
    · split at hs
      · cases hs
      · split at hs
        · cases hs
        · simp only [Except.ok.injEq] at hs
          subst hs
          exact Dict.wf_upsert (Dict.wf_upsert h _ _) _ _

/-- helper for `ofDesc_specs_wf`: reading back one position keeps every AWG setting stored once -/
theorem posStep_wf (specs : List (String × J)) (sr : Val) (s s' : Sequence) (kd : String × J)
    (h : Dict.WF s.awgspecs) (hs : posStep specs sr s kd = .ok s') : Dict.WF s'.awgspecs := by
  unfold posStep at hs
  split at hs
  · split at hs
    · cases hs
    · rename_i es hes
      have hwf : Dict.WF es.2.awgspecs :=
        foldlM_inv (fun (es : Element × Sequence) => Dict.WF es.2.awgspecs) (chanStep specs sr)
          (fun a x b ha hab => chanStep_wf specs sr a b x ha hab) _ _ _ h hes
      split at hs
      · cases hs
      · split at hs
        · cases hs
        · split at hs
          · split at hs
            · cases hs
            · simp only [Except.ok.injEq] at hs
              subst hs
              simp only
              unfold Sequence.addElement
              split <;> exact hwf
          · cases hs
  · cases hs

/-- helper for `ofDesc_specs_wf`: `setdefault` of the remaining settings keeps every setting stored once -/
theorem restSpecs_wf (specs : List (String × J)) : ∀ (s : Sequence), Dict.WF s.awgspecs → Dict.WF (restSpecs s specs).awgspecs := by
  induction specs with
  | nil => intro s h; exact h
  | cons kv rest ih =>
    intro s h
    simp only [restSpecs, List.foldl_cons]
    split
    · exact ih s h
    · exact ih _ (Dict.wf_upsert h _ _)

/-- whatever `sequence_from_description` returns holds every AWG setting once -/
theorem ofDesc_specs_wf (d : J) (s' : Sequence) (h : Sequence.ofDesc d = .ok s') : Dict.WF s'.awgspecs := by
  unfold Sequence.ofDesc at h
  split at h
  · split at h
    · split at h
      · cases h
      · split at h
        · cases h
        · rename_i s0 hs0
          simp only [Except.ok.injEq] at h
          subst h
          refine Dict.wf_upsert (restSpecs_wf _ s0 ?_) _ _
          exact foldlM_inv (fun (s : Sequence) => Dict.WF s.awgspecs) _
            (fun a x b ha hab => posStep_wf _ _ a b x ha hab) _ _ _ Dict.wf_nil hs0
    · cases h
  · cases h

/-- a sequence as `SeqOk` describes it is well-formed -/
theorem seqOk_wf (s : Sequence) (sr : Val) (hs : SeqOk s sr) : SeqWF s := by
  refine ⟨hs.posNodup, hs.specsNodup, by unfold Dict.WF; rw [hs.seqKeys]; exact hs.posNodup, ?_⟩
  intro en hen
  obtain ⟨pe, hpe, rfl⟩ := List.mem_map.mp hen
  obtain ⟨chans, m, hent, _, hnd, _⟩ := hs.entries pe hpe
  rw [hent]
  exact hnd

/-- helper for `roundtrip_seq_observables`: every entry agrees with itself up to caches -/
theorem entRel_refl (x : Entry) : EntRel x x := by
  cases x with
  | el e => exact rfl
  | sub s => exact ⟨Dict.Rel.refl _ _ (fun _ _ => rfl), fun _ => rfl, fun _ => rfl⟩

/-- **the read-back sequence is observably the original**: it compares equal to the original (both
    ways round), forges to the very same result for every combination of `apply_delays`,
    `apply_filters` and `includetime` (arrays of every position and channel, attached filters,
    sequencing — or the same exception), and its own description is the description it was read
    from except that the AWG settings may be listed in a different order (`J.DictEq`: equal as
    Python compares dicts; spelled out: the same position fields, settings a permutation) -/
theorem roundtrip_seq_observables (s : Sequence) (sr : Val) (hs : SeqOk s sr) (d : J) (hd : s.toDesc = .ok d) :
    ∃ s', Sequence.ofDesc d = .ok s' ∧
      s'.beq s = true ∧ s.beq s' = true ∧
      (∀ dl f t, s'.forge dl f t = s.forge dl f t) ∧
      (∃ d', s'.toDesc = .ok d' ∧ J.DictEq d' d ∧
        ∃ fields, d = .obj (fields ++ [("awgspecs", awgspecsJ s.awgspecs)]) ∧
          d' = .obj (fields ++ [("awgspecs", awgspecsJ s'.awgspecs)]) ∧ s'.awgspecs.Perm s.awgspecs) := by
  obtain ⟨s', hs', hdata, hqk, hq, hsp, hname⟩ := roundtrip_seq s sr hs d hd
  have hwf := seqOk_wf s sr hs
  have hspwf : Dict.WF s'.awgspecs := ofDesc_specs_wf d s' hs'
  have hqwf : Dict.WF s'.sequencing := by unfold Dict.WF; rw [hqk]; exact hwf.sequencing
  have hlq : LookEq s'.sequencing s.sequencing := by
    intro k
    by_cases hk : k ∈ Dict.keys s.sequencing
    · rw [hs.seqKeys] at hk
      obtain ⟨pe, hpe, rfl⟩ := List.mem_map.mp hk
      exact hq pe hpe
    · have h1 := (Dict.get?_eq_none_iff s.sequencing k).mpr hk
      have h2 := (Dict.get?_eq_none_iff s'.sequencing k).mpr (by rw [hqk]; exact hk)
      rw [h1, h2]
  have hwf' : SeqWF s' := ⟨by rw [hdata]; exact hwf.data, hspwf, hqwf, by rw [hdata]; exact hwf.entries⟩
  have hbeq : s'.beq s = true := by
    rw [seq_eq_iff]
    refine ⟨?_, Dict.eqBy_of_get?_eq hspwf hwf.specs hsp, Dict.eqBy_of_get?_eq hqwf hwf.sequencing hlq⟩
    rw [hdata]
    exact Dict.eqBy_refl_mem _ hwf.data (fun x hx => entry_eq_refl_wf x (hwf.entries x hx))
  have hperm : s'.awgspecs.Perm s.awgspecs :=
    Dict.eqBy_beq_perm hspwf hwf.specs (Dict.eqBy_of_get?_eq hspwf hwf.specs hsp)
  refine ⟨s', hs', hbeq, seq_eq_symm s' s hwf' hwf hbeq, ?_, ?_⟩
  · intro dl f t
    apply Sequence.forge_congr s' s ?_ hsp hlq
    rw [hdata]
    exact Dict.Rel.refl _ _ (fun x _ => entRel_refl x)
  · unfold Sequence.toDesc at hd ⊢
    have hfields : s'.data.mapM (posField s') = s.data.mapM (posField s) := by
      rw [hdata]
      apply mapM_congr_mem
      intro pe hpe
      unfold posField seqnJ
      rw [hq pe hpe]
    rw [hfields]
    cases hm : s.data.mapM (posField s) with
    | error er => rw [hm] at hd; cases hd
    | ok fields =>
      rw [hm] at hd
      simp only [Except.ok.injEq] at hd
      subst hd
      refine ⟨_, rfl, ?_, fields, rfl, rfl, hperm⟩
      refine J.DictEq.of_forall2 (l2' := fields ++ [("awgspecs", awgspecsJ s.awgspecs)])
        (forall2_append (forall2_refl _ _ (fun _ _ => ⟨rfl, J.DictEq.refl _⟩))
          (List.Forall₂.cons ⟨rfl, ?_⟩ List.Forall₂.nil)) (List.Perm.refl _)
      unfold awgspecsJ
      exact J.DictEq.of_perm (hperm.map _)

/-- non-vacuity of `roundtrip_seq_observables`: the example sequence meets `SeqOk` (shown above)
    and has a description -/
example : exSeq.toDesc.toOption.isSome = true := by decide +kernel

/-- … and forging it succeeds, so the forge equality is about arrays, not about a common error -/
example : (exSeq.forge true true false).toOption.isSome = true := by decide +kernel

end observables

/-! ### descriptions of elements and sequences: JSON-serialisable, every segment listed in order -/

section serialisable
open BB.Element BB.Sequence

/-- every argument and duration of the channel's blueprint (if it holds one) is a number, a string
    or None — what the built-in shapes take -/
def ChanPlain (ent : ChEntry) : Prop :=
  ∀ b, ent.data = .bp b → ∀ s ∈ b.segs, (∀ v ∈ s.args, Val.plain v = true) ∧ Val.plain s.dur = true

/-- an AWG setting holding numbers, strings or None only -/
def SpecPlain : Spec → Prop
  | .val v => Val.plain v = true
  | .filt f => Val.plain f.f_cut = true ∧ Val.plain f.tau = true

/-- helper for `el_desc_serialisable`: a flags list is serialisable -/
theorem flagsJ_ser (fl : List Nat) : (flagsJ fl).serialisable = true := by
  unfold flagsJ
  simp only [J.serialisable]
  induction fl with
  | nil => rfl
  | cons n ns ih => simp [J.serList, J.serialisable, ih]

/-- C19 "the description is always JSON-serialisable", for one channel entry -/
theorem chanDesc_ser (ent : ChEntry) (h : ChanPlain ent) (d : J) (hd : chanDesc ent = .ok d) :
    d.serialisable = true := by
  obtain ⟨dat, fl⟩ := ent
  cases dat with
  | bp b =>
    have hb := desc_serialisable b (h b rfl)
    cases fl with
    | none =>
      rw [chanDesc_plain] at hd
      cases hd
      exact hb
    | some fl =>
      rw [chanDesc_flags b fl _ (desc_shape b)] at hd
      cases hd
      rw [desc_shape] at hb
      simp only [J.serialisable] at hb ⊢
      rw [serFields_append, hb]
      simp [J.serFields, flagsJ_ser]
  | arr a s =>
    cases fl with
    | none => simp only [chanDesc] at hd; cases hd; rfl
    | some _ => simp only [chanDesc] at hd; cases hd
  | broken =>
    cases fl with
    | none => simp only [chanDesc] at hd; cases hd; rfl
    | some _ => simp only [chanDesc] at hd; cases hd

/-- helper for `el_desc_serialisable`: fields with serialisable values are serialisable -/
theorem serFields_of_mapM {α : Type} (F : α → Except Err (String × J)) :
    ∀ (l : List α) (fs : List (String × J)), l.mapM F = .ok fs →
      (∀ x ∈ l, ∀ kv, F x = .ok kv → kv.2.serialisable = true) → J.serFields fs = true := by
  intro l
  induction l with
  | nil =>
    intro fs h _
    rw [mapM_nil_ok_iff] at h
    subst h
    rfl
  | cons a t ih =>
    intro fs h hall
    obtain ⟨b, bs, hb, hbs, rfl⟩ := (mapM_cons_ok_iff F a t fs).mp h
    obtain ⟨k, v⟩ := b
    simp only [J.serFields, Bool.and_eq_true]
    exact ⟨hall a (by simp) (k, v) hb, ih bs hbs (fun x hx => hall x (by simp [hx]))⟩

/-- **`Element.description` is JSON-serialisable** whenever it exists and the blueprint channels
    hold plain values (any channel names, with or without flags, raw-array channels included) -/
theorem el_desc_serialisable (e : Element) (h : ∀ p ∈ e.chans, ChanPlain p.2) (d : J) (hd : e.toDesc = .ok d) :
    d.serialisable = true := by
  unfold Element.toDesc at hd
  cases hm : e.chans.mapM chanField with
  | error er => rw [hm] at hd; cases hd
  | ok fields =>
    rw [hm] at hd
    cases hd
    simp only [J.serialisable]
    refine serFields_of_mapM chanField _ _ hm ?_
    intro p hp kv hkv
    unfold chanField at hkv
    cases hc : chanDesc p.2 with
    | error er => rw [hc] at hkv; cases hkv
    | ok dd =>
      rw [hc] at hkv
      cases hkv
      exact chanDesc_ser p.2 (h p hp) dd hc

/-- helper for `seq_desc_serialisable`: a sequencing entry is serialisable -/
theorem seqSetJ_ser (q : SeqSet) : (seqSetJ q).serialisable = true := by
  simp [seqSetJ, J.serialisable, J.serFields, J.ofInt]

/-- helper for `seq_desc_serialisable`: a plain AWG setting is serialisable -/
theorem specJ_ser (v : Spec) (h : SpecPlain v) : (specJ v).serialisable = true := by
  cases v with
  | val v => exact ofVal_ser v h
  | filt f => simp [specJ, J.serialisable, J.serFields, J.ofInt, ofVal_ser _ h.1, ofVal_ser _ h.2]

/-- helper for `seq_desc_serialisable`: plain AWG settings are serialisable -/
theorem awgspecsJ_ser (specs : Dict String Spec) (h : ∀ kv ∈ specs, SpecPlain kv.2) :
    (awgspecsJ specs).serialisable = true := by
  unfold awgspecsJ
  simp only [J.serialisable]
  induction specs with
  | nil => rfl
  | cons kv rest ih =>
    obtain ⟨k, v⟩ := kv
    simp only [List.map_cons, J.serFields, Bool.and_eq_true]
    exact ⟨specJ_ser v (h (k, v) (by simp)), ih (fun p hp => h p (by simp [hp]))⟩

/-- the common shape: positions with serialisable contents and sequencing, plain settings -/
theorem toDescG_ser {α : Type} (desc : α → Except Err J) (seqn : Int → J) (data : Dict Int α) (specs : Dict String Spec)
    (hdesc : ∀ x ∈ Dict.vals data, ∀ d, desc x = .ok d → d.serialisable = true)
    (hseqn : ∀ k, (seqn k).serialisable = true) (hspecs : ∀ kv ∈ specs, SpecPlain kv.2)
    (d : J) (hd : toDescG desc seqn data specs = .ok d) : d.serialisable = true := by
  unfold toDescG at hd
  cases hm : data.mapM (posFieldG desc seqn) with
  | error er => rw [hm] at hd; cases hd
  | ok fields =>
    rw [hm] at hd
    cases hd
    simp only [J.serialisable, serFields_append, Bool.and_eq_true]
    refine ⟨serFields_of_mapM _ _ _ hm ?_, by simp [J.serFields, awgspecsJ_ser specs hspecs]⟩
    intro pe hpe kv hkv
    unfold posFieldG at hkv
    cases hc : desc pe.2 with
    | error er => rw [hc] at hkv; cases hkv
    | ok dd =>
      rw [hc] at hkv
      cases hkv
      simp [J.serialisable, J.serFields, hseqn, hdesc pe.2 (List.mem_map.mpr ⟨pe, hpe, rfl⟩) dd hc]

/-- every blueprint channel of every element of the entry holds plain values -/
def EntryPlain : Entry → Prop
  | .el e => ∀ p ∈ e.chans, ChanPlain p.2
  | .sub s => (∀ e ∈ Dict.vals s.data, ∀ p ∈ e.chans, ChanPlain p.2) ∧ ∀ kv ∈ s.awgspecs, SpecPlain kv.2

/-- C19 "the description is always JSON-serialisable", for what sits at one position (element or subsequence) -/
theorem entryDesc_ser (x : Entry) (h : EntryPlain x) (d : J) (hd : entryDesc x = .ok d) : d.serialisable = true := by
  cases x with
  | el e => exact el_desc_serialisable e h d hd
  | sub s =>
    simp only [entryDesc] at hd
    rw [subToDesc_eq_G] at hd
    refine toDescG_ser _ _ _ _ (fun e he dd hdd => el_desc_serialisable e (h.1 e he) dd hdd) ?_ h.2 d hd
    intro k
    unfold subSeqnJ
    split
    · exact seqSetJ_ser _
    · rfl

/-- **`Sequence.description` is JSON-serialisable** whenever it exists, the blueprint channels
    hold plain values and the AWG settings are numbers, strings or None (subsequences included) -/
theorem seq_desc_serialisable (s : Sequence) (h : ∀ en ∈ Dict.vals s.data, EntryPlain en)
    (hspecs : ∀ kv ∈ s.awgspecs, SpecPlain kv.2) (d : J) (hd : s.toDesc = .ok d) : d.serialisable = true := by
  rw [toDesc_eq_G] at hd
  refine toDescG_ser _ _ _ _ (fun x hx dd hdd => entryDesc_ser x (h x hx) dd hdd) ?_ hspecs d hd
  intro k
  unfold seqnJ
  split
  · exact seqSetJ_ser _
  · rfl

/-- **`Element.description` lists every channel in order and, for a blueprint channel, every
    segment in order**: the `i`-th field is keyed by the `i`-th channel; if that channel holds a
    blueprint the field is an object whose `j`-th entry is `segment_{j+1:02d}` describing the
    blueprint's `j`-th segment (name, function, arguments, duration) -/
theorem el_desc_lists_segments (e : Element) (d : J) (hd : e.toDesc = .ok d) :
    ∃ fields, d = .obj fields ∧ fields.length = e.chans.length ∧
      ∀ i (hi : i < e.chans.length) (b : BP), (e.chans[i]).2.data = .bp b →
        ∃ l, fields[i]? = some ((e.chans[i]).1.toStr, .obj l) ∧
          ∀ j (hj : j < b.segs.length), l[j]? = some (segKey (j + 1), segRecord b.segs[j]) := by
  unfold Element.toDesc at hd
  cases hm : e.chans.mapM chanField with
  | error er => rw [hm] at hd; cases hd
  | ok fields =>
    rw [hm] at hd
    cases hd
    have hlen := mapM_ok_length _ _ _ hm
    refine ⟨fields, rfl, hlen, fun i hi b hb => ?_⟩
    have hfi := mapM_ok_getElem _ _ _ hm i hi (by omega)
    generalize e.chans[i] = p at hb hfi ⊢
    obtain ⟨ch, dat, fl⟩ := p
    simp only at hb
    subst hb
    have hseg : ∀ (extra : List (String × J)) j (hj : j < b.segs.length),
        (fieldsX b extra)[j]? = some (segKey (j + 1), segRecord b.segs[j]) := by
      intro extra j hj
      unfold fieldsX
      rw [List.getElem?_append_left (by simpa using hj)]
      exact desc_segment_at b j hj
    obtain ⟨l, hl⟩ : ∃ l, b.toDesc = .obj l := ⟨_, desc_shape b⟩
    cases fl with
    | none =>
      simp only [chanField, chanDesc_plain] at hfi
      refine ⟨fieldsX b [], ?_, hseg []⟩
      rw [List.getElem?_eq_getElem (by omega), ← Except.ok.inj hfi, hl, ← fieldsX_eq b [] l hl, List.append_nil]
    | some fl =>
      simp only [chanField, chanDesc_flags b fl l hl] at hfi
      refine ⟨fieldsX b [("flags", flagsJ fl)], ?_, hseg _⟩
      rw [List.getElem?_eq_getElem (by omega), ← Except.ok.inj hfi, fieldsX_eq b _ l hl]

/-- **`Sequence.description` lists every position in store order**: the `i`-th field is keyed by
    the `i`-th stored position and holds the description of what sits there (for an element:
    `Element.description`, which lists every segment of every channel — `el_desc_lists_segments`)
    and the position's sequencing entry; the AWG settings come last -/
theorem seq_desc_lists_positions (s : Sequence) (d : J) (hd : s.toDesc = .ok d) :
    ∃ fields, d = .obj (fields ++ [("awgspecs", awgspecsJ s.awgspecs)]) ∧ fields.length = s.data.length ∧
      ∀ i (hi : i < s.data.length), ∃ chd, entryDesc (s.data[i]).2 = .ok chd ∧
        fields[i]? = some (toString (s.data[i]).1, .obj [("channels", chd), ("sequencing", seqnJ s (s.data[i]).1)]) := by
  rw [toDesc_eq_G] at hd
  unfold toDescG at hd
  cases hm : s.data.mapM (posFieldG entryDesc (seqnJ s)) with
  | error er => rw [hm] at hd; cases hd
  | ok fields =>
    rw [hm] at hd
    cases hd
    have hlen := mapM_ok_length _ _ _ hm
    refine ⟨fields, rfl, hlen, fun i hi => ?_⟩
    have hfi := mapM_ok_getElem _ _ _ hm i hi (by omega)
    unfold posFieldG at hfi
    cases hc : entryDesc (s.data[i]).2 with
    | error er => rw [hc] at hfi; cases hfi
    | ok chd =>
      rw [hc] at hfi
      refine ⟨chd, rfl, ?_⟩
      rw [List.getElem?_eq_getElem (by omega), ← Except.ok.inj hfi]

/-- non-vacuity: the example sequence holds plain values only -/
example : (∀ en ∈ Dict.vals exSeq.data, EntryPlain en) ∧ (∀ kv ∈ exSeq.awgspecs, SpecPlain kv.2) := by
  constructor
  · intro en hen
    simp only [exSeq, Dict.vals, List.map_cons, List.map_nil, List.mem_cons, List.not_mem_nil, or_false, or_self] at hen
    subst hen
    intro p hp b hb s hs
    simp only [exChans, List.mem_cons, List.not_mem_nil, or_false] at hp
    rcases hp with rfl | rfl <;>
    · simp only [ChData.bp.injEq] at hb
      subst hb
      simp only [exBP, List.mem_cons, List.not_mem_nil, or_false] at hs
      rcases hs with rfl | rfl <;> exact ⟨by decide, by decide⟩
  · intro kv hkv
    simp only [exSeq, List.mem_cons, List.not_mem_nil, or_false] at hkv
    rcases hkv with rfl | rfl | rfl | rfl | rfl | rfl | rfl <;> simp [SpecPlain, Val.plain]

end serialisable

/-! ### the side conditions `ChanOk` / `SeqOk` hold for everything the public builders produce -/

section builders
open BB.Element BB.Sequence BB.C20

/-- helper for `elBuilt_ok`: `addFlags` stores numbers 0..4 -/
theorem flagToken_le (v : Val) (n : Nat) (h : flagToken? v = some n) : n ≤ 4 := by
  cases v with
  | num q =>
    simp only [flagToken?] at h
    split at h
    · rename_i hc
      have hmem : q.num = 0 ∨ q.num = 1 ∨ q.num = 2 ∨ q.num = 3 ∨ q.num = 4 := by
        simpa [Gen.flagAllowedInt] using hc.2
      rcases hmem with e | e | e | e | e <;> rw [e] at h <;> simp [Gen.flagAliasInt, List.lookup] at h <;> omega
    · cases h
  | str s =>
    simp only [flagToken?] at h
    split at h
    · rename_i hc
      have hmem : s = "" ∨ s = "H" ∨ s = "L" ∨ s = "T" ∨ s = "P" := by
        simpa [Gen.flagAllowedStr] using hc
      rcases hmem with e | e | e | e | e <;> subst e <;> simp [Gen.flagAliasStr, List.lookup] at h <;> omega
    · cases h
  | none => simp [flagToken?] at h
  | opq _ => simp [flagToken?] at h

/-- helper for `elBuilt_ok`: what a successful `mapM` in `Option` returns -/
theorem optMapM_spec {α β : Type} (f : α → Option β) :
    ∀ (l : List α) (r : List β), l.mapM f = some r → r.length = l.length ∧ ∀ y ∈ r, ∃ x ∈ l, f x = some y := by
  intro l
  induction l with
  | nil =>
    intro r h
    simp only [List.mapM_nil, pure, Option.some.injEq] at h
    subst h
    exact ⟨rfl, by simp⟩
  | cons a t ih =>
    intro r h
    rw [List.mapM_cons] at h
    cases hfa : f a with
    | none => rw [hfa] at h; simp [bind] at h
    | some b =>
      cases ht : t.mapM f with
      | none => rw [hfa, ht] at h; simp [bind] at h
      | some bs =>
        rw [hfa, ht] at h
        simp only [bind, Option.bind, pure, Option.some.injEq] at h
        subst h
        obtain ⟨h1, h2⟩ := ih bs ht
        refine ⟨by simp [h1], ?_⟩
        intro y hy
        rcases List.mem_cons.mp hy with rfl | hy
        · exact ⟨a, by simp, hfa⟩
        · obtain ⟨x, hx, hfx⟩ := h2 y hy
          exact ⟨x, by simp [hx], hfx⟩

/-- helper for `elBuilt_ok`: the entries after `d[k] = v` are `(k, v)` and old entries -/
theorem mem_upsert {κ α : Type} [DecidableEq κ] (d : Dict κ α) (k : κ) (v : α) (p : κ × α)
    (h : p ∈ Dict.upsert d k v) : p = (k, v) ∨ p ∈ d := by
  induction d with
  | nil => simp [Dict.upsert] at h; exact Or.inl h
  | cons q rest ih =>
    obtain ⟨k', v'⟩ := q
    unfold Dict.upsert at h
    split at h
    · rcases List.mem_cons.mp h with h | h
      · exact Or.inl h
      · exact Or.inr (by simp [h])
    · rcases List.mem_cons.mp h with h | h
      · exact Or.inr (by simp [h])
      · rcases ih h with h | h
        · exact Or.inl h
        · exact Or.inr (by simp [h])

/-- **elements as the public API builds them** over integer channel numbers: from the empty element
    by `addBluePrint` (of any blueprint obtained through the public blueprint API — `Hist` — over
    the built-in shapes) and `addFlags`, in any order, accepted or refused -/
inductive ElBuilt : Element → Prop
  | empty : ElBuilt {}
  | addBluePrint (e : Element) (n : Int) (h : Hist) (hok : ∀ s ∈ h.eval.segs, SegOk s) :
      ElBuilt e → ElBuilt (e.addBluePrint (.int n) h.eval).st
  | addFlags (e : Element) (ch : Chan) (fl : List Val) : ElBuilt e → ElBuilt (e.addFlags ch fl).st

/-- **`ChanOk` is a reachable invariant**: every channel of a built element meets the side
    condition of `roundtrip_el`, and no channel is listed twice -/
theorem elBuilt_ok (e : Element) (h : ElBuilt e) : (Dict.keys e.chans).Nodup ∧ ∀ p ∈ e.chans, ChanOk p := by
  induction h with
  | empty => exact ⟨List.nodup_nil, by intro p hp; simp at hp⟩
  | addBluePrint e n h hok _ ih =>
    unfold Element.addBluePrint
    split
    · exact ih
    · rename_i hne
      refine ⟨Dict.wf_upsert ih.1 _ _, fun p hp => ?_⟩
      rcases mem_upsert _ _ _ _ hp with rfl | hp
      · refine ⟨⟨n, rfl⟩, h.eval.copy, rfl, inv_copy _, inv2_copy (inv2_reachable h), ?_, ?_, ?_⟩
        · rw [copy_reachable]; exact hok
        · rw [copy_reachable]
          intro he
          rw [he] at hne
          exact hne rfl
        · intro fl hfl; cases hfl
      · exact ih.2 p hp
  | addFlags e ch fl _ ih =>
    unfold Element.addFlags
    split
    · exact ih
    · rename_i hlen
      split
      · exact ih
      · rename_i fl' hfl'
        split
        · exact ih
        · rename_i ent hent
          refine ⟨Dict.wf_upsert ih.1 _ _, fun p hp => ?_⟩
          rcases mem_upsert _ _ _ _ hp with rfl | hp
          · obtain ⟨hint, b, hdata, h1, h2, hok, hne, _⟩ := ih.2 (ch, ent) (Dict.mem_of_get?_eq_some ch ent hent)
            refine ⟨hint, b, hdata, h1, h2, hok, hne, ?_⟩
            intro fl2 hfl2
            simp only [Option.some.injEq] at hfl2
            subst hfl2
            obtain ⟨hl, hall⟩ := optMapM_spec flagToken? fl fl' hfl'
            refine ⟨?_, fun n hn => ?_⟩
            · rw [hl]
              simp only [Gen.flagsLenBad, decide_eq_true_eq, ne_eq, Decidable.not_not] at hlen
              exact_mod_cast hlen
            · obtain ⟨v, _, hv⟩ := hall n hn
              exact flagToken_le v n hv
          · exact ih.2 p hp

/-- **sequences as the public API builds them**: from the empty sequence by `addElement` (of a
    built element), `setSR`, `setChannelAmplitude/Offset/Delay`, `setChannelFilterCompensation`
    and the `setSequencing…` setters, in any order, accepted or refused -/
inductive SeqBuilt : Sequence → Prop
  | empty : SeqBuilt {}
  | addElement (s : Sequence) (pos : Int) (e : Element) : SeqBuilt s → ElBuilt e → SeqBuilt (s.addElement pos e).st
  | setSR (s : Sequence) (v : Val) : SeqBuilt s → SeqBuilt (s.setSR v)
  | setChannelAmplitude (s : Sequence) (ch : Chan) (v : Val) : SeqBuilt s → SeqBuilt (s.setChannelAmplitude ch v)
  | setChannelOffset (s : Sequence) (ch : Chan) (v : Val) : SeqBuilt s → SeqBuilt (s.setChannelOffset ch v)
  | setChannelDelay (s : Sequence) (ch : Chan) (v : Val) : SeqBuilt s → SeqBuilt (s.setChannelDelay ch v)
  | setChannelFilterCompensation (s : Sequence) (ch : Chan) (kind : String) (order : Int) (isInt : Bool) (fc tau : Val) :
      SeqBuilt s → SeqBuilt (s.setChannelFilterCompensation ch kind order isInt fc tau).st
  | setSequencing (s : Sequence) (pos : Int) (f : SeqSet → SeqSet) : SeqBuilt s → SeqBuilt (s.setSequencing pos f).st

/-- the part of `SeqOk` that every built sequence has -/
structure SeqInv (s : Sequence) : Prop where
  posNodup : (Dict.keys s.data).Nodup
  seqKeys : Dict.keys s.sequencing = Dict.keys s.data
  specsNodup : (Dict.keys s.awgspecs).Nodup
  noName : s.name = ""
  entries : ∀ pe ∈ s.data, ∃ (chans : Dict Chan ChEntry) (m : Val × Rat),
    pe.2 = .el ⟨chans, some m⟩ ∧ Element.validate ⟨chans, none⟩ = .ok m ∧ (Dict.keys chans).Nodup ∧
    ∀ p ∈ chans, ChanOk p

/-- helper for `seqBuilt_inv`: setting an AWG setting keeps the invariant -/
theorem seqInv_setSpec (s : Sequence) (h : SeqInv s) (k : String) (v : Spec) : SeqInv (s.setSpec k v) :=
  ⟨h.posNodup, h.seqKeys, Dict.wf_upsert h.specsNodup _ _, h.noName, h.entries⟩

/-- C19 side conditions derived: every sequence built through the public API has the structural part of `SeqOk` -/
theorem seqBuilt_inv (s : Sequence) (h : SeqBuilt s) : SeqInv s := by
  induction h with
  | empty => exact ⟨List.nodup_nil, rfl, List.nodup_nil, rfl, by intro pe hpe; simp at hpe⟩
  | addElement s pos e _ he ih =>
    unfold Sequence.addElement
    split
    · exact ih
    · rename_i m hm
      obtain ⟨hnd, hok⟩ := elBuilt_ok e he
      refine ⟨Dict.wf_upsert ih.posNodup _ _, ?_, ih.specsNodup, ih.noName, ?_⟩
      · simp only
        by_cases hk : pos ∈ Dict.keys s.data
        · rw [Dict.keys_upsert_of_mem _ _ _ hk, Dict.keys_upsert_of_mem _ _ _ (by rw [ih.seqKeys]; exact hk), ih.seqKeys]
        · rw [Dict.keys_upsert_of_not_mem _ _ _ hk, Dict.keys_upsert_of_not_mem _ _ _ (by rw [ih.seqKeys]; exact hk),
            ih.seqKeys]
      · intro pe hpe
        rcases mem_upsert _ _ _ _ hpe with rfl | hpe
        · exact ⟨e.chans, m, rfl, hm, hnd, hok⟩
        · exact ih.entries pe hpe
  | setSR s v _ ih => exact seqInv_setSpec s ih _ _
  | setChannelAmplitude s ch v _ ih => exact seqInv_setSpec s ih _ _
  | setChannelOffset s ch v _ ih => exact seqInv_setSpec s ih _ _
  | setChannelDelay s ch v _ ih => exact seqInv_setSpec s ih _ _
  | setChannelFilterCompensation s ch kind order isInt fc tau _ ih =>
    unfold SeqCore.setChannelFilterCompensation
    split
    · exact ih
    · split
      · exact ih
      · split
        · exact ih
        · exact seqInv_setSpec s ih _ _
  | setSequencing s pos f _ ih =>
    unfold SeqCore.setSequencing
    split
    · exact ih
    · rename_i q hq
      refine ⟨ih.posNodup, ?_, ih.specsNodup, ih.noName, ih.entries⟩
      simp only
      rw [Dict.keys_upsert_of_mem _ _ _ ((Dict.get?_isSome_iff _ _).mp (by rw [hq]; rfl)), ih.seqKeys]

/-- helper for `seqBuilt_ok`: a channel blueprint that has sample rate `sr` is unchanged by being given `sr` -/
theorem reSR_of_chanSR (p : Chan × ChEntry) (hp : ChanOk p) (sr : Val) (h : chanSR p.2 = .ok sr) :
    reSR (some sr) p.2 = p.2 := by
  obtain ⟨ch, dat, fl⟩ := p
  obtain ⟨_, b, hdata, _⟩ := hp
  simp only at hdata
  subst hdata
  simp only [chanSR, Except.ok.injEq] at h
  obtain ⟨segs, m1, m2, SR⟩ := b
  simp only at h
  subst h
  rfl

/-- **`SeqOk` is derived, not assumed**: a sequence built through the public API meets the side
    condition of `roundtrip_seq` as soon as the three things a user must do before
    `outputForAWGFile` anyway are done — the sequence has its sample rate, every channel blueprint
    has that sample rate, and every channel has its amplitude and offset set (all decidable) -/
theorem seqBuilt_ok (s : Sequence) (hb : SeqBuilt s) (sr : Val)
    (hsr : Dict.get? s.awgspecs "SR" = some (.val sr))
    (hch : ∀ pe ∈ s.data, ∀ e, pe.2 = .el e → ∀ p ∈ e.chans, chanSR p.2 = .ok sr ∧
      (∃ a, Dict.get? s.awgspecs (keyOf p.1 "amplitude") = some (.val a)) ∧
      (∃ o, Dict.get? s.awgspecs (keyOf p.1 "offset") = some (.val o))) :
    SeqOk s sr := by
  have hi := seqBuilt_inv s hb
  refine ⟨hi.posNodup, hi.seqKeys, hi.specsNodup, hsr, hi.noName, ?_⟩
  intro pe hpe
  obtain ⟨chans, m, hent, hval, hnd, hok⟩ := hi.entries pe hpe
  refine ⟨chans, m, hent, hval, hnd, fun p hp => ?_⟩
  obtain ⟨h1, h2, h3⟩ := hch pe hpe _ hent p hp
  exact ⟨hok p hp, reSR_of_chanSR p (hok p hp) sr h1, h2, h3⟩

/-- **the element round trip without assumed side conditions**: for every element built through
    the public API (`ElBuilt`) that has a description -/
theorem roundtrip_el_built (e : Element) (hb : ElBuilt e) (d : J) (hd : e.toDesc = .ok d) :
    ∃ e', Element.ofDesc d = .ok e' ∧ e'.beq e = true ∧ e.beq e' = true ∧ e'.toDesc = .ok d ∧
      e'.channels = e.channels ∧
      ∀ sr, (∀ p ∈ e.chans, chanSR p.2 = .ok sr) → ∀ t, (giveSR sr e').getArrays t = e.getArrays t := by
  obtain ⟨hnd, hok⟩ := elBuilt_ok e hb
  obtain ⟨e', h1, h2, h3, h4, h5, h6⟩ := roundtrip_el_observables e.chans e.cache hnd hok d hd
  exact ⟨e', h1, h2, h3, h4, h5, fun sr hsr t =>
    ((h6 sr (fun p hp => reSR_of_chanSR p (hok p hp) sr (hsr p hp))).2.1 t)⟩

/-- **the sequence round trip without assumed side conditions**: for every sequence built through
    the public API (`SeqBuilt`) with sample rate, amplitudes and offsets set -/
theorem roundtrip_seq_built (s : Sequence) (hb : SeqBuilt s) (sr : Val)
    (hsr : Dict.get? s.awgspecs "SR" = some (.val sr))
    (hch : ∀ pe ∈ s.data, ∀ e, pe.2 = .el e → ∀ p ∈ e.chans, chanSR p.2 = .ok sr ∧
      (∃ a, Dict.get? s.awgspecs (keyOf p.1 "amplitude") = some (.val a)) ∧
      (∃ o, Dict.get? s.awgspecs (keyOf p.1 "offset") = some (.val o)))
    (d : J) (hd : s.toDesc = .ok d) :
    ∃ s', Sequence.ofDesc d = .ok s' ∧ s'.beq s = true ∧ s.beq s' = true ∧
      (∀ dl f t, s'.forge dl f t = s.forge dl f t) ∧ ∃ d', s'.toDesc = .ok d' ∧ J.DictEq d' d := by
  obtain ⟨s', h1, h2, h3, h4, d', h5, h6, _⟩ := roundtrip_seq_observables s sr (seqBuilt_ok s hb sr hsr hch) d hd
  exact ⟨s', h1, h2, h3, h4, d', h5, h6⟩

/-! non-vacuity: a sequence built with the public operations only -/

/-- non-vacuity: a blueprint built with `insertSegment` twice and `setSR` -/
def builtHist : Hist :=
  .op (.op (.op .empty (.insert 0 exFn [.num 0, .num 1] (.num 1) .none)) (.insert 1 exFn [.num 1, .num 0] (.num 2) (.str "down")))
    (.setSR (.num 10))

/-- non-vacuity: its two segments -/
theorem builtHist_segs : builtHist.eval.segs =
    [{ name := "ramp", fn := exFn, args := [.num 0, .num 1], dur := .num 1 },
     { name := "down", fn := exFn, args := [.num 1, .num 0], dur := .num 2 }] := by decide +kernel

/-- non-vacuity: … are built-in shapes -/
theorem builtHist_ok : ∀ s ∈ builtHist.eval.segs, SegOk s := by
  rw [builtHist_segs]
  intro s hs
  simp only [List.mem_cons, List.not_mem_nil, or_false] at hs
  rcases hs with rfl | rfl <;> exact ⟨fun h => absurd h (by decide), fun _ => ⟨by decide +kernel, by decide⟩⟩

/-- non-vacuity: an element built with `addBluePrint` twice and `addFlags` -/
def builtEl : Element :=
  (((({} : Element).addBluePrint (.int 1) builtHist.eval).st.addBluePrint (.int 2) builtHist.eval).st.addFlags (.int 2)
    [.num 0, .str "T", .num 0, .num 1]).st

/-- non-vacuity: … is `ElBuilt` -/
theorem builtEl_built : ElBuilt builtEl :=
  .addFlags _ _ _ (.addBluePrint _ 2 builtHist builtHist_ok (.addBluePrint _ 1 builtHist builtHist_ok .empty))

/-- non-vacuity: `Sequence()` then `setSR(10)` -/
def builtSeq0 : Sequence := ({} : Sequence).setSR (.num 10)
/-- non-vacuity: … `addElement(1, …)` -/
def builtSeq1 : Sequence := (Sequence.addElement builtSeq0 1 builtEl).st
/-- non-vacuity: … `addElement(2, …)` -/
def builtSeq2 : Sequence := (Sequence.addElement builtSeq1 2 builtEl).st
/-- non-vacuity: … amplitudes, offsets and a channel delay -/
def builtSeq3 : Sequence :=
  ((((builtSeq2.setChannelAmplitude (.int 1) (.num 2)).setChannelOffset (.int 1) (.num 0)).setChannelAmplitude (.int 2)
    (.num 1)).setChannelOffset (.int 2) (.num 0)).setChannelDelay (.int 1) (.num 0)
/-- non-vacuity: … and `setSequencingNumberOfRepetitions(2, 5)` -/
def builtSeq : Sequence := (builtSeq3.setSequencing 2 (fun q => { q with nrep := 5 })).st

/-- non-vacuity: … is `SeqBuilt` -/
theorem builtSeq_built : SeqBuilt builtSeq :=
  .setSequencing _ _ _ (.setChannelDelay _ _ _ (.setChannelOffset _ _ _ (.setChannelAmplitude _ _ _ (.setChannelOffset _ _ _
    (.setChannelAmplitude _ _ _ (.addElement _ 2 _ (.addElement _ 1 _ (.setSR _ _ .empty) builtEl_built) builtEl_built))))))

/-- the decidable form of the channel conditions of `seqBuilt_ok` -/
def chanCheck (s : Sequence) (sr : Val) : Bool :=
  s.data.all (fun pe =>
    match pe.2 with
    | .el e => e.chans.all (fun p =>
        (chanSR p.2).toOption == some sr &&
        (match Dict.get? s.awgspecs (keyOf p.1 "amplitude") with | some (.val _) => true | _ => false) &&
        (match Dict.get? s.awgspecs (keyOf p.1 "offset") with | some (.val _) => true | _ => false))
    | .sub _ => true)

/-- the decidable check implies the channel conditions of `seqBuilt_ok` -/
theorem chanCheck_spec (s : Sequence) (sr : Val) (h : chanCheck s sr = true) :
    ∀ pe ∈ s.data, ∀ e, pe.2 = .el e → ∀ p ∈ e.chans, chanSR p.2 = .ok sr ∧
      (∃ a, Dict.get? s.awgspecs (keyOf p.1 "amplitude") = some (.val a)) ∧
      (∃ o, Dict.get? s.awgspecs (keyOf p.1 "offset") = some (.val o)) := by
  intro pe hpe e he p hp
  unfold chanCheck at h
  rw [List.all_eq_true] at h
  have h1 := h pe hpe
  rw [he] at h1
  simp only [List.all_eq_true] at h1
  have h2 := h1 p hp
  simp only [Bool.and_eq_true, beq_iff_eq] at h2
  obtain ⟨⟨ha, hb⟩, hc⟩ := h2
  refine ⟨?_, ?_, ?_⟩
  · cases hs : chanSR p.2 with
    | error er => rw [hs] at ha; cases ha
    | ok v => rw [hs] at ha; simp only [Except.toOption, Option.some.injEq] at ha; rw [ha]
  · split at hb
    · rename_i a hga; exact ⟨a, hga⟩
    · cases hb
  · split at hc
    · rename_i a hga; exact ⟨a, hga⟩
    · cases hc

/-- `seqBuilt_ok` with all remaining hypotheses decidable -/
theorem seqBuilt_ok_check (s : Sequence) (hb : SeqBuilt s) (sr : Val)
    (hsr : Dict.get? s.awgspecs "SR" = some (.val sr)) (hch : chanCheck s sr = true) : SeqOk s sr :=
  seqBuilt_ok s hb sr hsr (chanCheck_spec s sr hch)

example : SeqOk builtSeq (.num 10) :=
  seqBuilt_ok_check builtSeq builtSeq_built (.num 10) (by decide +kernel) (by decide +kernel)

example : builtSeq.toDesc.toOption.isSome = true ∧ builtSeq.data.length = 2 := by decide +kernel

end builders

/-! ### non-vacuity -/

example : makeNamesUnique (["pi2pulse", "pi2pulse2", "a1b", "ramp"].map basename) =
    ["pi2pulse", "pi2pulse2", "a1b", "ramp"] := by decide +kernel

end BB.C19

/-! ## the read-back sequence and the output methods; read-back sequences under `+` (group G10) -/

namespace BB.C19
open BB BB.BP BB.Element BB.Sequence BB.C20

/-- **the read-back sequence gives the same output for the instruments** (`roundtrip_seq_observables`
    composed with the output methods): `_prepareForOutputting`, `outputForAWGFile`,
    `outputForSEQXFile` and `outputForSEQXFileWithFlags` of the sequence read back from its own
    description return exactly what they return for the original — the same waveforms, markers,
    flags, sequencing lists, amplitudes, channel list, sequence name and deferred voltage-range
    obligations, or the same exception.  (Via the congruences of `BB/Proofs/G10Output.lean`: the
    output methods read the settings and the sequencing through look-ups only.) -/
theorem roundtrip_seq_outputs (s : Sequence) (sr : Val) (hs : SeqOk s sr) (d : J) (hd : s.toDesc = .ok d) :
    ∃ s', Sequence.ofDesc d = .ok s' ∧
      s'.prepareForOutputting = s.prepareForOutputting ∧
      s'.outputForAWGFile = s.outputForAWGFile ∧
      s'.outputForSEQXFile = s.outputForSEQXFile ∧
      s'.outputForSEQXFileWithFlags = s.outputForSEQXFileWithFlags := by
  obtain ⟨s', hs', hdata, hqk, hq, hsp, hname⟩ := roundtrip_seq s sr hs d hd
  have hlq : LookEq s'.sequencing s.sequencing := by
    intro k
    by_cases hk : k ∈ Dict.keys s.sequencing
    · rw [hs.seqKeys] at hk
      obtain ⟨pe, hpe, rfl⟩ := List.mem_map.mp hk
      exact hq pe hpe
    · have h1 := (Dict.get?_eq_none_iff s.sequencing k).mpr hk
      have h2 := (Dict.get?_eq_none_iff s'.sequencing k).mpr (by rw [hqk]; exact hk)
      rw [h1, h2]
  have hrel : Dict.Rel EntRel s'.data s.data := by
    rw [hdata]
    exact Dict.Rel.refl _ _ (fun x _ => entRel_refl x)
  have hperm : (Dict.keys s'.sequencing).Perm (Dict.keys s.sequencing) := by rw [hqk]
  exact ⟨s', hs', G10.prepareForOutputting_congr s' s hrel hsp hperm,
    G10.outputForAWGFile_congr s' s hrel hsp hlq hperm,
    G10.outputForSEQXFile_congr s' s hrel hsp hlq hperm hname,
    G10.outputForSEQXFileWithFlags_congr s' s hrel hsp hlq hperm hname⟩

/-- the same without assumed side conditions: for every sequence built through the public API
    (`SeqBuilt`) with sample rate, amplitudes and offsets set (`seqBuilt_ok`) the read-back sequence
    gives the same `outputForAWGFile` / `outputForSEQXFile` / `outputForSEQXFileWithFlags` result -/
theorem roundtrip_seq_outputs_built (s : Sequence) (hb : SeqBuilt s) (sr : Val)
    (hsr : Dict.get? s.awgspecs "SR" = some (.val sr))
    (hch : ∀ pe ∈ s.data, ∀ e, pe.2 = .el e → ∀ p ∈ e.chans, chanSR p.2 = .ok sr ∧
      (∃ a, Dict.get? s.awgspecs (keyOf p.1 "amplitude") = some (.val a)) ∧
      (∃ o, Dict.get? s.awgspecs (keyOf p.1 "offset") = some (.val o)))
    (d : J) (hd : s.toDesc = .ok d) :
    ∃ s', Sequence.ofDesc d = .ok s' ∧ s'.outputForAWGFile = s.outputForAWGFile ∧
      s'.outputForSEQXFile = s.outputForSEQXFile ∧ s'.outputForSEQXFileWithFlags = s.outputForSEQXFileWithFlags := by
  obtain ⟨s', h1, _, h3, h4, h5⟩ := roundtrip_seq_outputs s sr (seqBuilt_ok s hb sr hsr hch) d hd
  exact ⟨s', h1, h3, h4, h5⟩

/-- the example sequence meets `SeqOk` (named, for the witnesses below; non-vacuity of `roundtrip_seq_outputs`) -/
theorem exSeq_ok : SeqOk exSeq (.num 10) := by
  refine ⟨by decide, by decide, by decide, by decide, rfl, ?_⟩
  intro pe hpe
  refine ⟨exChans, exM, ?_, exValidate, by decide, ?_⟩
  · simp only [exSeq, List.mem_cons, List.not_mem_nil, or_false] at hpe
    rcases hpe with rfl | rfl <;> rfl
  · intro p hp
    refine ⟨exChans_ok p hp, ?_, ?_, ?_⟩
    · simp only [exChans, List.mem_cons, List.not_mem_nil, or_false] at hp
      rcases hp with rfl | rfl <;> decide
    · simp only [exChans, List.mem_cons, List.not_mem_nil, or_false] at hp
      rcases hp with rfl | rfl
      · exact ⟨.num 2, by decide⟩
      · exact ⟨.num 1, by decide⟩
    · simp only [exChans, List.mem_cons, List.not_mem_nil, or_false] at hp
      rcases hp with rfl | rfl <;> exact ⟨.num 0, by decide⟩

/-- non-vacuity of `roundtrip_seq_outputs`: the example sequence (two positions, flags, a channel
    delay, a filter compensation) has a description, and `outputForAWGFile` returns a package for it
    with two deferred range obligations (the filtered channel) — so that equality is about packages,
    not about a common exception; the SEQX methods raise ValueError for it (30 points are fewer than
    the instrument's minimum of 2400), the "errors included" case -/
example : exSeq.toDesc.toOption.isSome = true ∧
    exSeq.outputForAWGFile.toOption.map (fun d => (d.pkg.isSome, d.thenErr, d.obligations.length)) = some (true, none, 2) ∧
    (match exSeq.outputForSEQXFile with | .error e => some e | .ok _ => none) = some Err.value ∧
    (match exSeq.outputForSEQXFileWithFlags with | .error e => some e | .ok _ => none) = some Err.value := by
  decide +kernel

/-- a one-channel blueprint of 2400 points (the minimum the AWG70000A accepts) -/
def exBPL : BP := { segs := [{ name := "ramp", fn := exFn, args := [.num 0, .num 1], dur := .num 240 }], SR := .num 10 }
def exChansL : Dict Chan ChEntry := [(Chan.int 1, ⟨.bp exBPL, some [1, 0, 2, 0]⟩)]
def exML : Val × Rat := (.num 10, 240)

/-- a one-position sequence long enough for the SEQX methods -/
def exSeqL : Sequence :=
  { data := [(1, .el ⟨exChansL, some exML⟩)], sequencing := [(1, ⟨0, 1, 0, 0, 0⟩)],
    awgspecs := [("SR", .val (.num 10)), ("channel1_amplitude", .val (.num 2)), ("channel1_offset", .val (.num 0)),
                 ("channel1_filtercompensation", .filt ⟨"HP", 1, .num 1, .none⟩)] }

/-- the long example meets `SeqOk` (non-vacuity of `roundtrip_seq_outputs`, SEQX part) -/
theorem exSeqL_ok : SeqOk exSeqL (.num 10) := by
  have hval : Element.validate ⟨exChansL, none⟩ = .ok exML := by
    have h : (Element.validate ⟨exChansL, none⟩).toOption = some exML := by decide +kernel
    cases hv : Element.validate ⟨exChansL, none⟩ with
    | error e => rw [hv] at h; cases h
    | ok m => rw [hv] at h; simp only [Except.toOption, Option.some.injEq] at h; rw [h]
  refine ⟨by decide, by decide, by decide, by decide, rfl, ?_⟩
  intro pe hpe
  refine ⟨exChansL, exML, ?_, hval, by decide, ?_⟩
  · simp only [exSeqL, List.mem_cons, List.not_mem_nil, or_false] at hpe
    rw [hpe]
  · intro p hp
    simp only [exChansL, List.mem_cons, List.not_mem_nil, or_false] at hp
    subst hp
    refine ⟨⟨⟨1, rfl⟩, exBPL, rfl, by unfold BP.Inv; decide +kernel, by unfold Inv2 NameOk; decide +kernel, ?_, by decide, ?_⟩,
      by decide, ⟨.num 2, by decide⟩, ⟨.num 0, by decide⟩⟩
    · intro s hs
      simp only [exBPL, List.mem_cons, List.not_mem_nil, or_false] at hs
      subst hs
      exact ⟨fun h => absurd h (by decide), fun _ => ⟨by decide +kernel, by decide⟩⟩
    · intro fl h
      cases h
      exact ⟨rfl, by decide⟩

/-- ... and on it all three output methods return a package with one deferred range obligation (so
    the SEQX equalities of `roundtrip_seq_outputs` are about packages too), the flags included -/
example : exSeqL.toDesc.toOption.isSome = true ∧
    exSeqL.outputForAWGFile.toOption.map (fun d => (d.pkg.isSome, d.thenErr, d.obligations.length)) = some (true, none, 1) ∧
    exSeqL.outputForSEQXFile.toOption.map (fun d => (d.pkg.isSome, d.thenErr, d.obligations.length)) = some (true, none, 1) ∧
    exSeqL.outputForSEQXFileWithFlags.toOption.map (fun d => (d.pkg.bind (·.flags), d.thenErr)) =
      some (some [[[1, 0, 2, 0]]], none) :=
  ⟨by decide +kernel, by decide +kernel, by decide +kernel, by decide +kernel⟩

end BB.C19
