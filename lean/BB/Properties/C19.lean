/-
  Property C19 — the description / JSON round trip loses nothing that affects output.

  `BP.toDesc`/`BP.ofDesc`, `Element.toDesc`/`ofDesc`, `Sequence.toDesc`/`ofDesc` are the model's
  `description` and `*_from_description`, as coded (tied to /repo by the correspondence check,
  which goes through real JSON files).  Python's `json` maps tuples to lists and keeps dict
  order and numbers, so writing and reading a file is the identity on the model's `J` values
  (trusted, DESIGN.md §6).
-/
import BB.Proofs.Copy
import BB.Proofs.RoundTrip
import BB.Model.Describe

namespace BB.C19
open BB BB.BP

/-! ### every leaf value survives -/

/-- numbers, strings and None survive `description` → `from_description` -/
theorem val_roundtrip (v : Val) : J.toVal (J.ofVal v) = v := by
  cases v <;> rfl

/-- a marker tuple `(t, dur)` is written as a two-element list and read back as the same tuple -/
theorem mark_roundtrip (m : Mark) : J.toMark? (J.ofMark m) = some m := by
  obtain ⟨a, b⟩ := m; rfl

theorem marks_roundtrip (l : List Mark) : (l.map J.ofMark).mapM J.toMark? = some l := by
  induction l with
  | nil => rfl
  | cons m ms ih => simp [List.mapM_cons, mark_roundtrip, ih]

theorem int_roundtrip (n : Int) : J.toInt? (J.ofInt n) = some n := by
  simp [J.toInt?, J.ofInt]

/-- the five sequencing values of a position are written under their keys and read back -/
theorem seqset_roundtrip (q : SeqSet) :
    let l := match Sequence.seqSetJ q with | .obj l => l | _ => []
    ((l.lookup "Wait trigger").bind J.toInt?, (l.lookup "Repeat").bind J.toInt?,
     (l.lookup "jump_input").bind J.toInt?, (l.lookup "jump_target").bind J.toInt?,
     (l.lookup "Go to").bind J.toInt?) =
    (some q.twait, some q.nrep, some q.jump_input, some q.jump_target, some q.goto) := by
  simp [Sequence.seqSetJ, List.lookup, int_roundtrip]

/-- every AWG setting — sample rate, amplitude, offset, channel delay, filter compensation
    (kind, order, f_cut, tau) — is written and read back unchanged -/
theorem spec_roundtrip (s : Spec) : Sequence.specOfJ (Sequence.specJ s) = s := by
  cases s with
  | val v => cases v <;> rfl
  | filt f =>
    obtain ⟨k, o, fc, tau⟩ := f
    simp [Sequence.specJ, Sequence.specOfJ, List.lookup, int_roundtrip, val_roundtrip]

/-! ### names, including names with digits inside -/

/-- **name reconstruction**: `from_description` strips every name to its base and re-uniquifies;
    on a canonical name list (every reachable blueprint has one — C05) that gives back exactly the
    original names, digits inside a base included. -/
theorem names_reconstructed (ns : List String) (h : makeNamesUnique ns = ns) :
    makeNamesUnique (ns.map basename) = ns := by
  have : (ns.map basename).map basename = ns.map basename := by
    simp [List.map_map, Function.comp_def, basename_idem]
  rw [makeNamesUnique_congr _ _ this, h]

theorem names_reconstructed_reachable (h : Hist) :
    makeNamesUnique (h.eval.names.map basename) = h.eval.names :=
  names_reconstructed _ (inv_reachable h)

/-! ### the description lists every segment, in order, and is JSON-serialisable -/

/-- the record written for one segment -/
def segRecord (s : Seg) : J :=
  J.obj
    [ ("name", .str s.name), ("function", .str s.fn.qual), ("durations", J.ofVal s.dur)
    , ("arguments",
        if s.fn.isWait then J.obj [("waittime", .arr (s.args.map J.ofVal))]
        else J.obj ((s.fn.params.zip s.args).map (fun (p, a) => (p, J.ofVal a)))) ]

/-- `description` = one `segment_XX` record per segment, in segment order, followed by the four
    marker lists -/
theorem desc_shape (b : BP) :
    b.toDesc = J.obj (((b.segs.zip (List.range b.segs.length)).map (fun (s, i) => (segKey (i + 1), segRecord s))) ++
      [ ("marker1_abs", .arr (b.marker1.map J.ofMark)), ("marker2_abs", .arr (b.marker2.map J.ofMark))
      , ("marker1_rel", .arr (b.segs.map (fun s => J.ofMark s.m1)))
      , ("marker2_rel", .arr (b.segs.map (fun s => J.ofMark s.m2))) ]) := rfl

/-- the number of records equals the number of segments -/
theorem desc_segment_count (b : BP) :
    ((b.segs.zip (List.range b.segs.length)).map (fun (s, i) => (segKey (i + 1), segRecord s))).length
      = b.segs.length := by simp

/-- the i-th record is keyed `segment_{i+1:02d}` and describes the i-th segment -/
theorem desc_segment_at (b : BP) (i : Nat) (hi : i < b.segs.length) :
    ((b.segs.zip (List.range b.segs.length)).map (fun (s, i) => (segKey (i + 1), segRecord s)))[i]? =
      some (segKey (i + 1), segRecord b.segs[i]) := by
  simp [List.getElem?_map, List.getElem?_zip_eq_some, hi]

/-- a value that is a number, a string or None -/
def Val.plain : Val → Bool
  | .opq _ => false
  | _ => true

theorem ofVal_ser (v : Val) (h : Val.plain v = true) : (J.ofVal v).serialisable = true := by
  cases v <;> simp_all [J.ofVal, J.serialisable, Val.plain]

theorem serList_map_ofVal (l : List Val) (h : ∀ v ∈ l, Val.plain v = true) :
    J.serList (l.map J.ofVal) = true := by
  induction l with
  | nil => rfl
  | cons v vs ih =>
    simp only [List.map_cons, J.serList, Bool.and_eq_true]
    exact ⟨ofVal_ser v (h v (by simp)), ih (fun w hw => h w (by simp [hw]))⟩

theorem serList_map_ofMark (l : List Mark) : J.serList (l.map J.ofMark) = true := by
  induction l with
  | nil => rfl
  | cons v vs ih => simp [J.serList, J.ofMark, J.serialisable, ih]

theorem serFields_append (a b : List (String × J)) :
    J.serFields (a ++ b) = (J.serFields a && J.serFields b) := by
  induction a with
  | nil => simp [J.serFields]
  | cons x xs ih => obtain ⟨k, v⟩ := x; simp [J.serFields, ih, Bool.and_assoc]

theorem serFields_zip (ps : List String) (l : List Val) (h : ∀ v ∈ l, Val.plain v = true) :
    J.serFields ((ps.zip l).map (fun (p, a) => (p, J.ofVal a))) = true := by
  induction ps generalizing l with
  | nil => simp [J.serFields]
  | cons p ps ih =>
    cases l with
    | nil => simp [J.serFields]
    | cons v vs =>
      simp only [List.zip_cons_cons, List.map_cons, J.serFields, Bool.and_eq_true]
      exact ⟨ofVal_ser v (h v (by simp)), ih vs (fun w hw => h w (by simp [hw]))⟩

theorem segRecord_ser (s : Seg) (ha : ∀ v ∈ s.args, Val.plain v = true) (hd : Val.plain s.dur = true) :
    (segRecord s).serialisable = true := by
  unfold segRecord
  simp only [J.serialisable, J.serFields, Bool.and_true, Bool.true_and, Bool.and_eq_true]
  refine ⟨ofVal_ser _ hd, ?_⟩
  split
  · simp [J.serialisable, J.serFields, serList_map_ofVal _ ha]
  · simp [J.serialisable, serFields_zip _ _ ha]

theorem serFields_segs (l : List (Seg × Nat))
    (h : ∀ p ∈ l, (∀ v ∈ p.1.args, Val.plain v = true) ∧ Val.plain p.1.dur = true) :
    J.serFields (l.map (fun (s, i) => (segKey (i + 1), segRecord s))) = true := by
  induction l with
  | nil => rfl
  | cons p ps ih =>
    obtain ⟨s, i⟩ := p
    simp only [List.map_cons, J.serFields, Bool.and_eq_true]
    exact ⟨segRecord_ser s (h (s, i) (by simp)).1 (h (s, i) (by simp)).2, ih (fun p hp => h p (by simp [hp]))⟩

/-- **the description is always JSON-serialisable** when arguments and durations are plain
    values (numbers, strings, None) — which is what the built-in shapes take -/
theorem desc_serialisable (b : BP)
    (h : ∀ s ∈ b.segs, (∀ v ∈ s.args, Val.plain v = true) ∧ Val.plain s.dur = true) :
    b.toDesc.serialisable = true := by
  rw [desc_shape]
  simp only [J.serialisable, serFields_append, Bool.and_eq_true]
  refine ⟨serFields_segs _ ?_, ?_⟩
  · intro p hp
    exact h p.1 (List.of_mem_zip hp).1
  · have h1 := serList_map_ofMark (b.segs.map (·.m1))
    have h2 := serList_map_ofMark (b.segs.map (·.m2))
    simp only [List.map_map, Function.comp_def] at h1 h2
    simp [J.serFields, J.serialisable, serList_map_ofMark, h1, h2]

/-! ### the whole round trip of a blueprint -/

theorem record_eq (s : Seg) : record s = segRecord s := rfl

/-- the `segment_XX` records, and only they, are picked up as segments -/
theorem filter_segments (b : BP) (rest : List (String × J))
    (hrest : ∀ p ∈ rest, hasSub p.1 "segment" = false) :
    ((((b.segs.zip (List.range b.segs.length)).map (fun (s, i) => (segKey (i + 1), segRecord s))) ++ rest).filter
        (fun (kv : String × J) => hasSub kv.1 "segment")).map (fun (p : String × J) => p.2) = b.segs.map record := by
  rw [List.filter_append]
  have h1 : (((b.segs.zip (List.range b.segs.length)).map (fun (s, i) => (segKey (i + 1), segRecord s))).filter
      (fun (kv : String × J) => hasSub kv.1 "segment")) = (b.segs.zip (List.range b.segs.length)).map (fun (s, i) => (segKey (i + 1), segRecord s)) := by
    rw [List.filter_eq_self]
    intro p hp
    simp only [List.mem_map] at hp
    obtain ⟨⟨s, i⟩, _, rfl⟩ := hp
    exact hasSub_segKey _
  have h2 : rest.filter (fun (kv : String × J) => hasSub kv.1 "segment") = [] := by
    rw [List.filter_eq_nil_iff]
    intro p hp
    simp [hrest p hp]
  rw [h1, h2, List.append_nil, List.map_map]
  have : ∀ (l : List Seg) (k : Nat), ((l.zip (List.range' k l.length)).map ((fun (p : String × J) => p.2) ∘ fun (x : Seg × Nat) => (segKey (x.2 + 1), segRecord x.1))) = l.map record := by
    intro l
    induction l with
    | nil => intro k; rfl
    | cons x xs ih =>
      intro k
      simp only [List.length_cons, List.range'_succ, List.zip_cons_cons, List.map_cons, Function.comp, List.cons.injEq]
      exact ⟨rfl, ih (k + 1)⟩
  rw [List.range_eq_range']
  exact this b.segs 0

theorem setSegMarks_restore (l : List Seg) :
    setSegMarks (l.map (fun s => stripped s s.name)) (l.map (·.m1)) (l.map (·.m2)) = l := by
  induction l with
  | nil => rfl
  | cons s ss ih =>
    simp only [List.map_cons, setSegMarks, ih, List.cons.injEq, and_true]
    obtain ⟨n, f, a, d, p, q⟩ := s
    rfl

/-- after the loop, the renumbered segments are the original ones without their markers -/
theorem canon_stripped (b : BP) (h1 : Inv b) (l' : List Seg) (hlen : l'.length = b.segs.length)
    (hl' : ∀ j (h1 : j < l'.length) (h2 : j < b.segs.length), ∃ nm, basename nm = basename (b.segs[j]).name ∧
      l'[j] = stripped b.segs[j] nm) :
    canon l' = b.segs.map (fun s => stripped s s.name) := by
  have hk : l'.map key = (b.segs.map (fun s => stripped s s.name)).map key := by
    apply List.ext_getElem
    · simp [hlen]
    · intro j h1 h2
      simp only [List.getElem_map]
      have hj : j < l'.length := by simpa using h1
      have hj2 : j < b.segs.length := by simpa using h2
      obtain ⟨nm, hnm, he⟩ := hl' j hj hj2
      rw [he]
      simp [key, stripped, hnm]
  show renumber (l'.map key) = _
  rw [hk]
  have : canon (b.segs.map (fun s => stripped s s.name)) = b.segs.map (fun s => stripped s s.name) := by
    apply canon_of_inv
    have : (b.segs.map (fun s => stripped s s.name)).map (·.name) = b.names := by
      simp [List.map_map, Function.comp_def, stripped, names]
    rw [this]; exact h1
  exact this

theorem get_marker_fields (b : BP) (k : String) (v : J)
    (hk : hasSub k "segment" = false)
    (hv : List.lookup k [ ("marker1_abs", J.arr (b.marker1.map J.ofMark)), ("marker2_abs", .arr (b.marker2.map J.ofMark))
      , ("marker1_rel", .arr (b.segs.map (fun s => J.ofMark s.m1)))
      , ("marker2_rel", .arr (b.segs.map (fun s => J.ofMark s.m2))) ] = some v) :
    b.toDesc.get? k = some v := by
  rw [desc_shape]
  simp only [J.get?]
  rw [lookup_append_of_not_mem]
  · exact hv
  · intro p hp
    simp only [List.mem_map] at hp
    obtain ⟨⟨s, i⟩, _, rfl⟩ := hp
    intro e
    have := hasSub_segKey (i + 1)
    simp only at e
    rw [e, hk] at this
    cases this

theorem marksOf_arr (j : J) (k : String) (l : List Mark) (h : j.get? k = some (.arr (l.map J.ofMark))) :
    marksOf j k = .ok l := by
  unfold marksOf
  rw [h]
  simp only
  rw [marks_roundtrip]

theorem marksOf_desc (b : BP) :
    marksOf b.toDesc "marker1_abs" = .ok b.marker1 ∧ marksOf b.toDesc "marker2_abs" = .ok b.marker2 ∧
    marksOf b.toDesc "marker1_rel" = .ok (b.segs.map (·.m1)) ∧ marksOf b.toDesc "marker2_rel" = .ok (b.segs.map (·.m2)) := by
  have hm := hasSub_marker_keys
  refine ⟨?_, ?_, ?_, ?_⟩
  · exact marksOf_arr _ _ _ (get_marker_fields b "marker1_abs" _ hm.1 (by simp [List.lookup]))
  · exact marksOf_arr _ _ _ (get_marker_fields b "marker2_abs" _ hm.2.1 (by simp [List.lookup]))
  · apply marksOf_arr
    rw [get_marker_fields b "marker1_rel" (J.arr (b.segs.map (fun s => J.ofMark s.m1))) hm.2.2.1 (by simp [List.lookup])]
    simp [List.map_map, Function.comp_def]
  · apply marksOf_arr
    rw [get_marker_fields b "marker2_rel" (J.arr (b.segs.map (fun s => J.ofMark s.m2))) hm.2.2.2 (by simp [List.lookup])]
    simp [List.map_map, Function.comp_def]

/-- **the round trip**: reading back the description of a blueprint over the built-in shapes
    (reachable through the public API: both naming invariants hold) gives the same blueprint —
    every name (digits inside included), function, argument, duration, absolute and segment-bound
    marker — except for the sample rate, which a description does not carry -/
theorem roundtrip_bp (b : BP) (h1 : Inv b) (h2 : Inv2 b) (hok : ∀ s ∈ b.segs, SegOk s) :
    BP.ofDesc b.toDesc = .ok { b with SR := .none } := by
  obtain ⟨l', hlen, hl', hsum⟩ := sumSegs_records b.segs hok h2 0 {} (by rfl)
  have hfil := filter_segments b
    [ ("marker1_abs", J.arr (b.marker1.map J.ofMark)), ("marker2_abs", .arr (b.marker2.map J.ofMark))
    , ("marker1_rel", .arr (b.segs.map (fun s => J.ofMark s.m1)))
    , ("marker2_rel", .arr (b.segs.map (fun s => J.ofMark s.m2))) ]
    (by
      intro p hp
      have hm := hasSub_marker_keys
      simp only [List.mem_cons, List.not_mem_nil, or_false] at hp
      rcases hp with rfl | rfl | rfl | rfl
      · exact hm.1
      · exact hm.2.1
      · exact hm.2.2.1
      · exact hm.2.2.2)
  obtain ⟨m1, m2, m3, m4⟩ := marksOf_desc b
  have hc := canon_stripped b h1 l' hlen hl'
  have hd := desc_shape b
  unfold BP.ofDesc
  rw [hd] at m1 m2 m3 m4 ⊢
  simp only [hfil, hsum, m1, m2, m3, m4]
  simp only [List.nil_append, hc, setSegMarks_restore]

/-- … hence for every blueprint built through the public API from built-in shapes -/
theorem roundtrip_reachable (h : Hist) (hok : ∀ s ∈ h.eval.segs, SegOk s) :
    BP.ofDesc h.eval.toDesc = .ok { h.eval with SR := .none } :=
  roundtrip_bp _ (inv_reachable h) (inv2_reachable h) hok

/-- the read-back blueprint compares equal to the original, has the same description, and once
    given the same sample rate *is* the original (so it forges to identical arrays) -/
theorem roundtrip_observables (b b' : BP) (h : BP.ofDesc b.toDesc = .ok b') (h1 : Inv b) (h2 : Inv2 b)
    (hok : ∀ s ∈ b.segs, SegOk s) :
    b'.beq b = true ∧ b'.toDesc = b.toDesc ∧ ({ b' with SR := b.SR } : BP) = b := by
  rw [roundtrip_bp b h1 h2 hok] at h
  cases h
  refine ⟨?_, rfl, rfl⟩
  unfold BP.beq BP.names
  simp

/-! ### non-vacuity -/

example : makeNamesUnique (["pi2pulse", "pi2pulse2", "a1b", "ramp"].map basename) =
    ["pi2pulse", "pi2pulse2", "a1b", "ramp"] := by decide +kernel

end BB.C19
