/-
  Property C19 — the description / JSON round trip loses nothing that affects output.

  `BP.toDesc`/`BP.ofDesc`, `Element.toDesc`/`ofDesc`, `Sequence.toDesc`/`ofDesc` are the model's
  `description` and `*_from_description`, as coded (tied to /repo by the correspondence check,
  which goes through real JSON files).  Python's `json` maps tuples to lists and keeps dict
  order and numbers, so writing and reading a file is the identity on the model's `J` values
  (trusted, DESIGN.md §6).
-/
import Std.Data.String.ToInt
import BB.Proofs.Basic
import BB.Proofs.Copy
import BB.Proofs.RoundTrip
import BB.Model.Describe

namespace BB.C19
open BB BB.BP

/-! ### every leaf value survives -/

/-- numbers, strings and None survive `description` → `from_description` -/
theorem val_roundtrip (v : Val) : J.toVal (J.ofVal v) = v := by
  cases v <;> rfl

/-- a marker tuple `(t, dur)` is written as a two-element list and read back as the same tuple -/
theorem mark_roundtrip (m : Mark) : J.toMark? (J.ofMark m) = some m := by
  obtain ⟨a, b⟩ := m; rfl

theorem marks_roundtrip (l : List Mark) : (l.map J.ofMark).mapM J.toMark? = some l := by
  induction l with
  | nil => rfl
  | cons m ms ih => simp [List.mapM_cons, mark_roundtrip, ih]

theorem int_roundtrip (n : Int) : J.toInt? (J.ofInt n) = some n := by
  simp [J.toInt?, J.ofInt]

/-- the five sequencing values of a position are written under their keys and read back -/
theorem seqset_roundtrip (q : SeqSet) :
    let l := match Sequence.seqSetJ q with | .obj l => l | _ => []
    ((l.lookup "Wait trigger").bind J.toInt?, (l.lookup "Repeat").bind J.toInt?,
     (l.lookup "jump_input").bind J.toInt?, (l.lookup "jump_target").bind J.toInt?,
     (l.lookup "Go to").bind J.toInt?) =
    (some q.twait, some q.nrep, some q.jump_input, some q.jump_target, some q.goto) := by
  simp [Sequence.seqSetJ, List.lookup, int_roundtrip]

/-- every AWG setting — sample rate, amplitude, offset, channel delay, filter compensation
    (kind, order, f_cut, tau) — is written and read back unchanged -/
theorem spec_roundtrip (s : Spec) : Sequence.specOfJ (Sequence.specJ s) = s := by
  cases s with
  | val v => cases v <;> rfl
  | filt f =>
    obtain ⟨k, o, fc, tau⟩ := f
    simp [Sequence.specJ, Sequence.specOfJ, List.lookup, int_roundtrip, val_roundtrip]

/-! ### names, including names with digits inside -/

/-- **name reconstruction**: `from_description` strips every name to its base and re-uniquifies;
    on a canonical name list (every reachable blueprint has one — C05) that gives back exactly the
    original names, digits inside a base included. -/
theorem names_reconstructed (ns : List String) (h : makeNamesUnique ns = ns) :
    makeNamesUnique (ns.map basename) = ns := by
  have : (ns.map basename).map basename = ns.map basename := by
    simp [List.map_map, Function.comp_def, basename_idem]
  rw [makeNamesUnique_congr _ _ this, h]

theorem names_reconstructed_reachable (h : Hist) :
    makeNamesUnique (h.eval.names.map basename) = h.eval.names :=
  names_reconstructed _ (inv_reachable h)

/-! ### the description lists every segment, in order, and is JSON-serialisable -/

/-- the record written for one segment -/
def segRecord (s : Seg) : J :=
  J.obj
    [ ("name", .str s.name), ("function", .str s.fn.qual), ("durations", J.ofVal s.dur)
    , ("arguments",
        if s.fn.isWait then J.obj [("waittime", .arr (s.args.map J.ofVal))]
        else J.obj ((s.fn.params.zip s.args).map (fun (p, a) => (p, J.ofVal a)))) ]

/-- `description` = one `segment_XX` record per segment, in segment order, followed by the four
    marker lists -/
theorem desc_shape (b : BP) :
    b.toDesc = J.obj (((b.segs.zip (List.range b.segs.length)).map (fun (s, i) => (segKey (i + 1), segRecord s))) ++
      [ ("marker1_abs", .arr (b.marker1.map J.ofMark)), ("marker2_abs", .arr (b.marker2.map J.ofMark))
      , ("marker1_rel", .arr (b.segs.map (fun s => J.ofMark s.m1)))
      , ("marker2_rel", .arr (b.segs.map (fun s => J.ofMark s.m2))) ]) := rfl

/-- the number of records equals the number of segments -/
theorem desc_segment_count (b : BP) :
    ((b.segs.zip (List.range b.segs.length)).map (fun (s, i) => (segKey (i + 1), segRecord s))).length
      = b.segs.length := by simp

/-- the i-th record is keyed `segment_{i+1:02d}` and describes the i-th segment -/
theorem desc_segment_at (b : BP) (i : Nat) (hi : i < b.segs.length) :
    ((b.segs.zip (List.range b.segs.length)).map (fun (s, i) => (segKey (i + 1), segRecord s)))[i]? =
      some (segKey (i + 1), segRecord b.segs[i]) := by
  simp [List.getElem?_map, List.getElem?_zip_eq_some, hi]

/-- a value that is a number, a string or None -/
def Val.plain : Val → Bool
  | .opq _ => false
  | _ => true

theorem ofVal_ser (v : Val) (h : Val.plain v = true) : (J.ofVal v).serialisable = true := by
  cases v <;> simp_all [J.ofVal, J.serialisable, Val.plain]

theorem serList_map_ofVal (l : List Val) (h : ∀ v ∈ l, Val.plain v = true) :
    J.serList (l.map J.ofVal) = true := by
  induction l with
  | nil => rfl
  | cons v vs ih =>
    simp only [List.map_cons, J.serList, Bool.and_eq_true]
    exact ⟨ofVal_ser v (h v (by simp)), ih (fun w hw => h w (by simp [hw]))⟩

theorem serList_map_ofMark (l : List Mark) : J.serList (l.map J.ofMark) = true := by
  induction l with
  | nil => rfl
  | cons v vs ih => simp [J.serList, J.ofMark, J.serialisable, ih]

theorem serFields_append (a b : List (String × J)) :
    J.serFields (a ++ b) = (J.serFields a && J.serFields b) := by
  induction a with
  | nil => simp [J.serFields]
  | cons x xs ih => obtain ⟨k, v⟩ := x; simp [J.serFields, ih, Bool.and_assoc]

theorem serFields_zip (ps : List String) (l : List Val) (h : ∀ v ∈ l, Val.plain v = true) :
    J.serFields ((ps.zip l).map (fun (p, a) => (p, J.ofVal a))) = true := by
  induction ps generalizing l with
  | nil => simp [J.serFields]
  | cons p ps ih =>
    cases l with
    | nil => simp [J.serFields]
    | cons v vs =>
      simp only [List.zip_cons_cons, List.map_cons, J.serFields, Bool.and_eq_true]
      exact ⟨ofVal_ser v (h v (by simp)), ih vs (fun w hw => h w (by simp [hw]))⟩

theorem segRecord_ser (s : Seg) (ha : ∀ v ∈ s.args, Val.plain v = true) (hd : Val.plain s.dur = true) :
    (segRecord s).serialisable = true := by
  unfold segRecord
  simp only [J.serialisable, J.serFields, Bool.and_true, Bool.true_and, Bool.and_eq_true]
  refine ⟨ofVal_ser _ hd, ?_⟩
  split
  · simp [J.serialisable, J.serFields, serList_map_ofVal _ ha]
  · simp [J.serialisable, serFields_zip _ _ ha]

theorem serFields_segs (l : List (Seg × Nat))
    (h : ∀ p ∈ l, (∀ v ∈ p.1.args, Val.plain v = true) ∧ Val.plain p.1.dur = true) :
    J.serFields (l.map (fun (s, i) => (segKey (i + 1), segRecord s))) = true := by
  induction l with
  | nil => rfl
  | cons p ps ih =>
    obtain ⟨s, i⟩ := p
    simp only [List.map_cons, J.serFields, Bool.and_eq_true]
    exact ⟨segRecord_ser s (h (s, i) (by simp)).1 (h (s, i) (by simp)).2, ih (fun p hp => h p (by simp [hp]))⟩

/-- **the description is always JSON-serialisable** when arguments and durations are plain
    values (numbers, strings, None) — which is what the built-in shapes take -/
theorem desc_serialisable (b : BP)
    (h : ∀ s ∈ b.segs, (∀ v ∈ s.args, Val.plain v = true) ∧ Val.plain s.dur = true) :
    b.toDesc.serialisable = true := by
  rw [desc_shape]
  simp only [J.serialisable, serFields_append, Bool.and_eq_true]
  refine ⟨serFields_segs _ ?_, ?_⟩
  · intro p hp
    exact h p.1 (List.of_mem_zip hp).1
  · have h1 := serList_map_ofMark (b.segs.map (·.m1))
    have h2 := serList_map_ofMark (b.segs.map (·.m2))
    simp only [List.map_map, Function.comp_def] at h1 h2
    simp [J.serFields, J.serialisable, serList_map_ofMark, h1, h2]

/-! ### the whole round trip of a blueprint -/

theorem record_eq (s : Seg) : record s = segRecord s := rfl

/-- the `segment_XX` records, and only they, are picked up as segments -/
theorem filter_segments (b : BP) (rest : List (String × J))
    (hrest : ∀ p ∈ rest, hasSub p.1 "segment" = false) :
    ((((b.segs.zip (List.range b.segs.length)).map (fun (s, i) => (segKey (i + 1), segRecord s))) ++ rest).filter
        (fun (kv : String × J) => hasSub kv.1 "segment")).map (fun (p : String × J) => p.2) = b.segs.map record := by
  rw [List.filter_append]
  have h1 : (((b.segs.zip (List.range b.segs.length)).map (fun (s, i) => (segKey (i + 1), segRecord s))).filter
      (fun (kv : String × J) => hasSub kv.1 "segment")) = (b.segs.zip (List.range b.segs.length)).map (fun (s, i) => (segKey (i + 1), segRecord s)) := by
    rw [List.filter_eq_self]
    intro p hp
    simp only [List.mem_map] at hp
    obtain ⟨⟨s, i⟩, _, rfl⟩ := hp
    exact hasSub_segKey _
  have h2 : rest.filter (fun (kv : String × J) => hasSub kv.1 "segment") = [] := by
    rw [List.filter_eq_nil_iff]
    intro p hp
    simp [hrest p hp]
  rw [h1, h2, List.append_nil, List.map_map]
  have : ∀ (l : List Seg) (k : Nat), ((l.zip (List.range' k l.length)).map ((fun (p : String × J) => p.2) ∘ fun (x : Seg × Nat) => (segKey (x.2 + 1), segRecord x.1))) = l.map record := by
    intro l
    induction l with
    | nil => intro k; rfl
    | cons x xs ih =>
      intro k
      simp only [List.length_cons, List.range'_succ, List.zip_cons_cons, List.map_cons, Function.comp, List.cons.injEq]
      exact ⟨rfl, ih (k + 1)⟩
  rw [List.range_eq_range']
  exact this b.segs 0

theorem setSegMarks_restore (l : List Seg) :
    setSegMarks (l.map (fun s => stripped s s.name)) (l.map (·.m1)) (l.map (·.m2)) = l := by
  induction l with
  | nil => rfl
  | cons s ss ih =>
    simp only [List.map_cons, setSegMarks, ih, List.cons.injEq, and_true]
    obtain ⟨n, f, a, d, p, q⟩ := s
    rfl

/-- after the loop, the renumbered segments are the original ones without their markers -/
theorem canon_stripped (b : BP) (h1 : Inv b) (l' : List Seg) (hlen : l'.length = b.segs.length)
    (hl' : ∀ j (h1 : j < l'.length) (h2 : j < b.segs.length), ∃ nm, basename nm = basename (b.segs[j]).name ∧
      l'[j] = stripped b.segs[j] nm) :
    canon l' = b.segs.map (fun s => stripped s s.name) := by
  have hk : l'.map key = (b.segs.map (fun s => stripped s s.name)).map key := by
    apply List.ext_getElem
    · simp [hlen]
    · intro j h1 h2
      simp only [List.getElem_map]
      have hj : j < l'.length := by simpa using h1
      have hj2 : j < b.segs.length := by simpa using h2
      obtain ⟨nm, hnm, he⟩ := hl' j hj hj2
      rw [he]
      simp [key, stripped, hnm]
  show renumber (l'.map key) = _
  rw [hk]
  have : canon (b.segs.map (fun s => stripped s s.name)) = b.segs.map (fun s => stripped s s.name) := by
    apply canon_of_inv
    have : (b.segs.map (fun s => stripped s s.name)).map (·.name) = b.names := by
      simp [List.map_map, Function.comp_def, stripped, names]
    rw [this]; exact h1
  exact this

theorem get_marker_fields (b : BP) (k : String) (v : J)
    (hk : hasSub k "segment" = false)
    (hv : List.lookup k [ ("marker1_abs", J.arr (b.marker1.map J.ofMark)), ("marker2_abs", .arr (b.marker2.map J.ofMark))
      , ("marker1_rel", .arr (b.segs.map (fun s => J.ofMark s.m1)))
      , ("marker2_rel", .arr (b.segs.map (fun s => J.ofMark s.m2))) ] = some v) :
    b.toDesc.get? k = some v := by
  rw [desc_shape]
  simp only [J.get?]
  rw [lookup_append_of_not_mem]
  · exact hv
  · intro p hp
    simp only [List.mem_map] at hp
    obtain ⟨⟨s, i⟩, _, rfl⟩ := hp
    intro e
    have := hasSub_segKey (i + 1)
    simp only at e
    rw [e, hk] at this
    cases this

theorem marksOf_arr (j : J) (k : String) (l : List Mark) (h : j.get? k = some (.arr (l.map J.ofMark))) :
    marksOf j k = .ok l := by
  unfold marksOf
  rw [h]
  simp only
  rw [marks_roundtrip]

theorem marksOf_desc (b : BP) :
    marksOf b.toDesc "marker1_abs" = .ok b.marker1 ∧ marksOf b.toDesc "marker2_abs" = .ok b.marker2 ∧
    marksOf b.toDesc "marker1_rel" = .ok (b.segs.map (·.m1)) ∧ marksOf b.toDesc "marker2_rel" = .ok (b.segs.map (·.m2)) := by
  have hm := hasSub_marker_keys
  refine ⟨?_, ?_, ?_, ?_⟩
  · exact marksOf_arr _ _ _ (get_marker_fields b "marker1_abs" _ hm.1 (by simp [List.lookup]))
  · exact marksOf_arr _ _ _ (get_marker_fields b "marker2_abs" _ hm.2.1 (by simp [List.lookup]))
  · apply marksOf_arr
    rw [get_marker_fields b "marker1_rel" (J.arr (b.segs.map (fun s => J.ofMark s.m1))) hm.2.2.1 (by simp [List.lookup])]
    simp [List.map_map, Function.comp_def]
  · apply marksOf_arr
    rw [get_marker_fields b "marker2_rel" (J.arr (b.segs.map (fun s => J.ofMark s.m2))) hm.2.2.2 (by simp [List.lookup])]
    simp [List.map_map, Function.comp_def]

/-- **the round trip**: reading back the description of a blueprint over the built-in shapes
    (reachable through the public API: both naming invariants hold) gives the same blueprint —
    every name (digits inside included), function, argument, duration, absolute and segment-bound
    marker — except for the sample rate, which a description does not carry -/
theorem roundtrip_bp (b : BP) (h1 : Inv b) (h2 : Inv2 b) (hok : ∀ s ∈ b.segs, SegOk s) :
    BP.ofDesc b.toDesc = .ok { b with SR := .none } := by
  obtain ⟨l', hlen, hl', hsum⟩ := sumSegs_records b.segs hok h2 0 {} (by rfl)
  have hfil := filter_segments b
    [ ("marker1_abs", J.arr (b.marker1.map J.ofMark)), ("marker2_abs", .arr (b.marker2.map J.ofMark))
    , ("marker1_rel", .arr (b.segs.map (fun s => J.ofMark s.m1)))
    , ("marker2_rel", .arr (b.segs.map (fun s => J.ofMark s.m2))) ]
    (by
      intro p hp
      have hm := hasSub_marker_keys
      simp only [List.mem_cons, List.not_mem_nil, or_false] at hp
      rcases hp with rfl | rfl | rfl | rfl
      · exact hm.1
      · exact hm.2.1
      · exact hm.2.2.1
      · exact hm.2.2.2)
  obtain ⟨m1, m2, m3, m4⟩ := marksOf_desc b
  have hc := canon_stripped b h1 l' hlen hl'
  have hd := desc_shape b
  unfold BP.ofDesc
  rw [hd] at m1 m2 m3 m4 ⊢
  simp only [hfil, hsum, m1, m2, m3, m4]
  simp only [List.nil_append, hc, setSegMarks_restore]

/-- … hence for every blueprint built through the public API from built-in shapes -/
theorem roundtrip_reachable (h : Hist) (hok : ∀ s ∈ h.eval.segs, SegOk s) :
    BP.ofDesc h.eval.toDesc = .ok { h.eval with SR := .none } :=
  roundtrip_bp _ (inv_reachable h) (inv2_reachable h) hok

/-- the read-back blueprint compares equal to the original, has the same description, and once
    given the same sample rate *is* the original (so it forges to identical arrays) -/
theorem roundtrip_observables (b b' : BP) (h : BP.ofDesc b.toDesc = .ok b') (h1 : Inv b) (h2 : Inv2 b)
    (hok : ∀ s ∈ b.segs, SegOk s) :
    b'.beq b = true ∧ b'.toDesc = b.toDesc ∧ ({ b' with SR := b.SR } : BP) = b := by
  rw [roundtrip_bp b h1 h2 hok] at h
  cases h
  refine ⟨?_, rfl, rfl⟩
  unfold BP.beq BP.names
  simp

/-! ### blueprint descriptions with extra fields (an element adds "flags") -/

/-- the fields of a blueprint description followed by further fields -/
def fieldsX (b : BP) (extra : List (String × J)) : List (String × J) :=
  ((b.segs.zip (List.range b.segs.length)).map (fun (s, i) => (segKey (i + 1), segRecord s))) ++
    ([ ("marker1_abs", J.arr (b.marker1.map J.ofMark)), ("marker2_abs", .arr (b.marker2.map J.ofMark))
     , ("marker1_rel", .arr (b.segs.map (fun s => J.ofMark s.m1)))
     , ("marker2_rel", .arr (b.segs.map (fun s => J.ofMark s.m2))) ] ++ extra)

theorem fieldsX_eq (b : BP) (extra : List (String × J)) (l : List (String × J)) (hl : b.toDesc = .obj l) :
    l ++ extra = fieldsX b extra := by
  rw [desc_shape] at hl
  simp only [J.obj.injEq] at hl
  subst hl
  unfold fieldsX
  rw [List.append_assoc]

theorem get_marker_fields_extra (b : BP) (k : String) (v : J) (extra : List (String × J))
    (hk : hasSub k "segment" = false)
    (hv : List.lookup k [ ("marker1_abs", J.arr (b.marker1.map J.ofMark)), ("marker2_abs", .arr (b.marker2.map J.ofMark))
      , ("marker1_rel", .arr (b.segs.map (fun s => J.ofMark s.m1)))
      , ("marker2_rel", .arr (b.segs.map (fun s => J.ofMark s.m2))) ] = some v) :
    (J.obj (fieldsX b extra)).get? k = some v := by
  simp only [J.get?, fieldsX]
  rw [lookup_append_of_not_mem]
  · rw [List.lookup_append, hv]; rfl
  · intro p hp
    simp only [List.mem_map] at hp
    obtain ⟨⟨s, i⟩, _, rfl⟩ := hp
    intro e
    have := hasSub_segKey (i + 1)
    simp only at e
    rw [e, hk] at this
    cases this

/-- the round trip is not disturbed by further fields whose keys do not contain "segment" -/
theorem roundtrip_bp_extra (b : BP) (h1 : Inv b) (h2 : Inv2 b) (hok : ∀ s ∈ b.segs, SegOk s)
    (extra : List (String × J)) (hex : ∀ p ∈ extra, hasSub p.1 "segment" = false)
    (l : List (String × J)) (hl : b.toDesc = .obj l) :
    BP.ofDesc (.obj (l ++ extra)) = .ok { b with SR := .none } := by
  obtain ⟨l', hlen, hl', hsum⟩ := sumSegs_records b.segs hok h2 0 {} (by rfl)
  have hm := hasSub_marker_keys
  have hfil : ((fieldsX b extra).filter (fun (kv : String × J) => hasSub kv.1 "segment")).map (fun (p : String × J) => p.2)
      = b.segs.map record := filter_segments b _
    (by
      intro p hp
      rw [List.mem_append] at hp
      rcases hp with hp | hp
      · simp only [List.mem_cons, List.not_mem_nil, or_false] at hp
        rcases hp with rfl | rfl | rfl | rfl
        · exact hm.1
        · exact hm.2.1
        · exact hm.2.2.1
        · exact hm.2.2.2
      · exact hex p hp)
  have m1 : marksOf (J.obj (fieldsX b extra)) "marker1_abs" = .ok b.marker1 :=
    marksOf_arr _ _ _ (get_marker_fields_extra b "marker1_abs" _ extra hm.1 (by simp [List.lookup]))
  have m2 : marksOf (J.obj (fieldsX b extra)) "marker2_abs" = .ok b.marker2 :=
    marksOf_arr _ _ _ (get_marker_fields_extra b "marker2_abs" _ extra hm.2.1 (by simp [List.lookup]))
  have m3 : marksOf (J.obj (fieldsX b extra)) "marker1_rel" = .ok (b.segs.map (·.m1)) := by
    apply marksOf_arr
    rw [get_marker_fields_extra b "marker1_rel" (J.arr (b.segs.map (fun s => J.ofMark s.m1))) extra hm.2.2.1 (by simp [List.lookup])]
    simp [List.map_map, Function.comp_def]
  have m4 : marksOf (J.obj (fieldsX b extra)) "marker2_rel" = .ok (b.segs.map (·.m2)) := by
    apply marksOf_arr
    rw [get_marker_fields_extra b "marker2_rel" (J.arr (b.segs.map (fun s => J.ofMark s.m2))) extra hm.2.2.2 (by simp [List.lookup])]
    simp [List.map_map, Function.comp_def]
  have hc := canon_stripped b h1 l' hlen hl'
  rw [fieldsX_eq b extra l hl]
  unfold BP.ofDesc
  simp only [hfil, hsum, m1, m2, m3, m4]
  simp only [List.nil_append, hc, setSegMarks_restore]

/-! ### the round trip of an element (blueprint channels, with or without flags) -/

section element
open BB.Element

theorem upsert_of_not_mem {α : Type} (d : Dict Chan α) (k : Chan) (v : α) (h : k ∉ Dict.keys d) :
    Dict.upsert d k v = d ++ [(k, v)] := by
  induction d with
  | nil => rfl
  | cons kv rest ih =>
    obtain ⟨k', w⟩ := kv
    unfold Dict.upsert
    have hk : k' ≠ k := by
      intro e; apply h; simp [Dict.keys, e]
    have hr : k ∉ Dict.keys rest := by
      intro hm; apply h; simp only [Dict.keys, List.map_cons, List.mem_cons]; right; exact hm
    simp only [hk, if_false, List.cons_append, ih hr]

theorem upsert_append_self {α : Type} (d : Dict Chan α) (k : Chan) (v v' : α) (h : k ∉ Dict.keys d) :
    Dict.upsert (d ++ [(k, v)]) k v' = d ++ [(k, v')] := by
  induction d with
  | nil => simp [Dict.upsert]
  | cons kv rest ih =>
    obtain ⟨k', w⟩ := kv
    have hk : k' ≠ k := by
      intro e; apply h; simp [Dict.keys, e]
    have hr : k ∉ Dict.keys rest := by
      intro hm; apply h; simp only [Dict.keys, List.map_cons, List.mem_cons]; right; exact hm
    simp only [List.cons_append, Dict.upsert, hk, if_false, ih hr]

theorem get?_append_self {α : Type} (d : Dict Chan α) (k : Chan) (v : α) (h : k ∉ Dict.keys d) :
    Dict.get? (d ++ [(k, v)]) k = some v := by
  rw [← upsert_of_not_mem d k v h]
  exact Dict.get?_upsert_self d k v

/-- what a description keeps of a channel entry: everything but the blueprint's sample rate -/
def stripSR (ent : ChEntry) : ChEntry :=
  match ent.data with
  | .bp b => { ent with data := .bp { b with SR := .none } }
  | _ => ent

/-- the text of an integer channel number parses back to it (`int(str(n)) == n`) -/
theorem parseChan_int (n : Int) : parseChan (Chan.int n).toStr = .ok (.int n) := by
  have : (toString n : String) = n.repr := rfl
  simp only [parseChan, Chan.toStr, this, Int.toInt?_repr]

/-- a channel that `element_from_description` can rebuild: an integer channel number (the code
    calls `int(key)`, so a string-named channel is refused), holding a blueprint reachable through
    the public API over the built-in shapes, with flags (if any) as `addFlags` stores them -/
def ChanOk (p : Chan × ChEntry) : Prop :=
  (∃ n, p.1 = Chan.int n) ∧
  ∃ b, p.2.data = .bp b ∧ Inv b ∧ Inv2 b ∧ (∀ s ∈ b.segs, SegOk s) ∧ b.segs ≠ [] ∧
    (∀ fl, p.2.flags = some fl → fl.length = 4 ∧ ∀ n ∈ fl, n ≤ 4)

theorem flagToken_num (n : Nat) (h : n ≤ 4) : flagToken? (J.toVal (J.num ((n : Int) : Rat))) = some n := by
  have : n = 0 ∨ n = 1 ∨ n = 2 ∨ n = 3 ∨ n = 4 := by omega
  rcases this with rfl | rfl | rfl | rfl | rfl <;> decide

theorem flags_back (fl : List Nat) (h : ∀ n ∈ fl, n ≤ 4) :
    ((fl.map (fun (n : Nat) => J.num ((n : Int) : Rat))).map J.toVal).mapM flagToken? = some fl := by
  induction fl with
  | nil => rfl
  | cons n ns ih =>
    simp only [List.map_cons, List.mapM_cons, flagToken_num n (h n (by simp)), ih (fun m hm => h m (by simp [hm]))]
    rfl

theorem no_flags_field (b : BP) : b.toDesc.get? "flags" = none := by
  rw [desc_shape]
  simp only [J.get?]
  rw [lookup_append_of_not_mem]
  · simp [List.lookup]
  · intro p hp
    simp only [List.mem_map] at hp
    obtain ⟨⟨s, i⟩, _, rfl⟩ := hp
    intro e
    have := hasSub_segKey (i + 1)
    simp only at e
    rw [e] at this
    revert this
    decide

theorem flags_field (b : BP) (l : List (String × J)) (hl : b.toDesc = .obj l) (v : J) :
    (J.obj (l ++ [("flags", v)])).get? "flags" = some v := by
  have hn := no_flags_field b
  rw [hl] at hn
  simp only [J.get?] at hn ⊢
  rw [List.lookup_append, hn]
  simp [List.lookup]

theorem chanDesc_plain (b : BP) : chanDesc ⟨.bp b, none⟩ = .ok b.toDesc := by
  unfold chanDesc
  rw [desc_shape]
  rfl

theorem chanDesc_flags (b : BP) (fl : List Nat) (l : List (String × J)) (hl : b.toDesc = .obj l) :
    chanDesc ⟨.bp b, some fl⟩ = .ok (J.obj (l ++ [("flags", flagsJ fl)])) := by
  unfold chanDesc
  simp only [hl]
  rfl

/-- one channel read back into an element that does not have it yet -/
theorem chanOfDesc_step (e0 : Element) (p : Chan × ChEntry) (hp : ChanOk p) (hnew : p.1 ∉ Dict.keys e0.chans)
    (kd : String × J) (hkd : chanField p = .ok kd) :
    chanOfDesc e0 kd.1 kd.2 none = .ok { e0 with chans := e0.chans ++ [(p.1, stripSR p.2)] } := by
  obtain ⟨ch, ent⟩ := p
  obtain ⟨⟨nch, hint⟩, b, hdata, h1, h2, hok, hne, hfl⟩ := hp
  obtain ⟨dat, flags⟩ := ent
  simp only at hdata hfl hint hnew
  have hparse : parseChan ch.toStr = .ok ch := by rw [hint]; exact parseChan_int nch
  subst hdata
  have hb' : BP.copy { b with SR := Val.none } = { b with SR := Val.none } := copy_eq_self h1 h2
  have hempty : ({ b with SR := Val.none } : BP).segs.isEmpty = false := by
    simpa [List.isEmpty_iff] using hne
  obtain ⟨l, hl⟩ : ∃ l, b.toDesc = .obj l := ⟨_, desc_shape b⟩
  cases flags with
  | none =>
    have : kd = (ch.toStr, b.toDesc) := by
      simp only [chanField, chanDesc_plain, Except.ok.injEq] at hkd
      exact hkd.symm
    subst this
    simp only [chanOfDesc, hparse, roundtrip_bp b h1 h2 hok, withSR, addBluePrint, hempty, Bool.false_eq_true, if_false,
      no_flags_field b, hb', stripSR]
    rw [upsert_of_not_mem _ _ _ hnew]
  | some fl =>
    obtain ⟨hlen, hle⟩ := hfl fl rfl
    have : kd = (ch.toStr, J.obj (l ++ [("flags", flagsJ fl)])) := by
      simp only [chanField, chanDesc_flags b fl l hl, Except.ok.injEq] at hkd
      exact hkd.symm
    subst this
    have hrt := roundtrip_bp_extra b h1 h2 hok [("flags", flagsJ fl)] (by
      intro p hp
      simp only [List.mem_singleton] at hp
      subst hp
      show hasSub "flags" "segment" = false
      decide) l hl
    simp only [flagsJ] at hrt
    have hlenb : Gen.flagsLenBad (List.map J.toVal (fl.map (fun (n : Nat) => J.num ((n : Int) : Rat)))).length = false := by
      simp [Gen.flagsLenBad, hlen]
    simp only [chanOfDesc, hparse, hrt, withSR, addBluePrint, hempty, Bool.false_eq_true, if_false,
      flags_field b l hl, flagsJ, addFlags, hlenb, flags_back fl hle, hb', stripSR]
    rw [upsert_of_not_mem _ _ _ hnew, get?_append_self _ _ _ hnew]
    simp only [upsert_append_self _ _ _ _ hnew]

/-- **the round trip of an element**: an element whose channels are integer-numbered blueprint
    channels (blueprints reachable through the public API over the built-in shapes, flags as
    `addFlags` stores them) is rebuilt by `element_from_description` from its own description
    with the same channels in the same order, the same blueprints — every segment, argument,
    duration, marker — and the same flags; only the blueprints' sample rate is not carried. -/
theorem roundtrip_el (chans : Dict Chan ChEntry) (cache : Option (Val × Rat))
    (hnd : (Dict.keys chans).Nodup) (hok : ∀ p ∈ chans, ChanOk p) (d : J)
    (hd : (⟨chans, cache⟩ : Element).toDesc = .ok d) :
    Element.ofDesc d = .ok ⟨chans.map (fun p => (p.1, stripSR p.2)), none⟩ := by
  unfold Element.toDesc at hd
  split at hd
  · cases hd
  · rename_i fields hfields
    simp only [Except.ok.injEq] at hd
    subst hd
    simp only [Element.ofDesc]
    -- generalise the accumulator
    have gen : ∀ (rest : Dict Chan ChEntry) (fs : List (String × J)) (acc : Dict Chan ChEntry),
        rest.mapM chanField = .ok fs → (Dict.keys (acc ++ rest)).Nodup → (∀ p ∈ rest, ChanOk p) →
        fs.foldlM (fun e kd => chanOfDesc e kd.1 kd.2 none) (⟨acc, none⟩ : Element) =
          .ok ⟨acc ++ rest.map (fun p => (p.1, stripSR p.2)), none⟩ := by
      intro rest
      induction rest with
      | nil =>
        intro fs acc hfs _ _
        simp only [List.mapM_nil, pure, Except.pure, Except.ok.injEq] at hfs
        subst hfs
        simp [List.foldlM, pure, Except.pure]
      | cons p ps ih =>
        intro fs acc hfs hnd hok
        rw [mapM_cons_eq] at hfs
        cases hp : chanField p with
        | error er => rw [hp] at hfs; cases hfs
        | ok kd =>
          rw [hp] at hfs
          cases hps : ps.mapM chanField with
          | error er => rw [hps] at hfs; cases hfs
          | ok fs' =>
            rw [hps] at hfs
            simp only [Except.ok.injEq] at hfs
            subst hfs
            have hnew : p.1 ∉ Dict.keys acc := by
              intro hm
              simp only [Dict.keys, List.map_append, List.map_cons] at hnd hm
              have := List.nodup_append.mp hnd
              exact this.2.2 _ hm _ (by simp) rfl
            have hstep := chanOfDesc_step ⟨acc, none⟩ p (hok p (by simp)) hnew kd hp
            simp only [List.foldlM_cons, bind, Except.bind, hstep]
            have := ih fs' (acc ++ [(p.1, stripSR p.2)]) hps
              (by
                simp only [Dict.keys, List.map_append, List.map_cons, List.map_nil, List.append_assoc, List.cons_append,
                  List.nil_append] at hnd ⊢
                exact hnd)
              (fun q hq => hok q (by simp [hq]))
            rw [this]
            simp
    have := gen chans fields [] hfields (by simpa using hnd) hok
    simpa using this

theorem chanField_strip (p : Chan × ChEntry) : chanField (p.1, stripSR p.2) = chanField p := by
  obtain ⟨ch, dat, fl⟩ := p
  cases dat <;> rfl

/-- … so the read-back element has the same description (and the same channels in the same order)
    as the original: describing, reading back and describing again is the identity on descriptions -/
theorem roundtrip_el_desc (chans : Dict Chan ChEntry) (cache : Option (Val × Rat))
    (hnd : (Dict.keys chans).Nodup) (hok : ∀ p ∈ chans, ChanOk p) (d : J)
    (hd : (⟨chans, cache⟩ : Element).toDesc = .ok d) :
    ∃ e', Element.ofDesc d = .ok e' ∧ e'.toDesc = .ok d ∧ Dict.keys e'.chans = Dict.keys chans := by
  refine ⟨_, roundtrip_el chans cache hnd hok d hd, ?_, ?_⟩
  · unfold Element.toDesc at hd ⊢
    have : (chans.map (fun p => (p.1, stripSR p.2))).mapM chanField = chans.mapM chanField := by
      rw [List.mapM_map]
      congr 1
      funext p
      exact chanField_strip p
    simp only [this]
    exact hd
  · simp [Dict.keys, List.map_map, Function.comp_def]

/-! non-vacuity: an element with two integer channels, one of them with flags, meets the premises -/

def exFn : Fn := { special := false, name := "ramp", qual := "function PulseAtoms.ramp",
                   params := ["start", "stop", "SR", "npts"], shape := .ramp }
def exBP : BP := { segs := [{ name := "ramp", fn := exFn, args := [.num 0, .num 1], dur := .num 1 },
                            { name := "ramp2", fn := exFn, args := [.num 1, .num 0], dur := .num 2 }], SR := .num 10 }

example : ∀ p ∈ ([(Chan.int 1, ⟨.bp exBP, none⟩), (Chan.int 2, ⟨.bp exBP, some [0, 3, 0, 1]⟩)] : Dict Chan ChEntry), ChanOk p := by
  have hinv : BP.Inv exBP := by unfold BP.Inv; decide +kernel
  have hinv2 : Inv2 exBP := by unfold Inv2 NameOk; decide +kernel
  have hseg : ∀ s ∈ exBP.segs, SegOk s := by
    intro s hs
    simp only [exBP, List.mem_cons, List.not_mem_nil, or_false] at hs
    rcases hs with rfl | rfl <;> exact ⟨fun h => absurd h (by decide), fun _ => ⟨by decide +kernel, by decide⟩⟩
  intro p hp
  simp only [List.mem_cons, List.not_mem_nil, or_false] at hp
  rcases hp with rfl | rfl
  · exact ⟨⟨1, rfl⟩, exBP, rfl, hinv, hinv2, hseg, by decide, by intro fl h; cases h⟩
  · refine ⟨⟨2, rfl⟩, exBP, rfl, hinv, hinv2, hseg, by decide, ?_⟩
    intro fl h
    cases h
    exact ⟨rfl, by decide⟩

end element

/-! ### non-vacuity -/

example : makeNamesUnique (["pi2pulse", "pi2pulse2", "a1b", "ramp"].map basename) =
    ["pi2pulse", "pi2pulse2", "a1b", "ramp"] := by decide +kernel

end BB.C19
