/-
  Property C19 — the description / JSON round trip loses nothing that affects output.

  `BP.toDesc`/`BP.ofDesc`, `Element.toDesc`/`ofDesc`, `Sequence.toDesc`/`ofDesc` are the model's
  `description` and `*_from_description`, as coded (tied to /repo by the correspondence check,
  which goes through real JSON files).  Python's `json` maps tuples to lists and keeps dict
  order and numbers, so writing and reading a file is the identity on the model's `J` values
  (trusted, DESIGN.md §6).
-/
import BB.Proofs.Copy
import BB.Model.Describe

namespace BB.C19
open BB BB.BP

/-! ### every leaf value survives -/

/-- numbers, strings and None survive `description` → `from_description` -/
theorem val_roundtrip (v : Val) : J.toVal (J.ofVal v) = v := by
  cases v <;> rfl

/-- a marker tuple `(t, dur)` is written as a two-element list and read back as the same tuple -/
theorem mark_roundtrip (m : Mark) : J.toMark? (J.ofMark m) = some m := by
  obtain ⟨a, b⟩ := m; rfl

theorem marks_roundtrip (l : List Mark) : (l.map J.ofMark).mapM J.toMark? = some l := by
  induction l with
  | nil => rfl
  | cons m ms ih => simp [List.mapM_cons, mark_roundtrip, ih]

theorem int_roundtrip (n : Int) : J.toInt? (J.ofInt n) = some n := by
  simp [J.toInt?, J.ofInt]

/-- the five sequencing values of a position are written under their keys and read back -/
theorem seqset_roundtrip (q : SeqSet) :
    let l := match Sequence.seqSetJ q with | .obj l => l | _ => []
    ((l.lookup "Wait trigger").bind J.toInt?, (l.lookup "Repeat").bind J.toInt?,
     (l.lookup "jump_input").bind J.toInt?, (l.lookup "jump_target").bind J.toInt?,
     (l.lookup "Go to").bind J.toInt?) =
    (some q.twait, some q.nrep, some q.jump_input, some q.jump_target, some q.goto) := by
  simp [Sequence.seqSetJ, List.lookup, int_roundtrip]

/-- every AWG setting — sample rate, amplitude, offset, channel delay, filter compensation
    (kind, order, f_cut, tau) — is written and read back unchanged -/
theorem spec_roundtrip (s : Spec) : Sequence.specOfJ (Sequence.specJ s) = s := by
  cases s with
  | val v => cases v <;> rfl
  | filt f =>
    obtain ⟨k, o, fc, tau⟩ := f
    simp [Sequence.specJ, Sequence.specOfJ, List.lookup, int_roundtrip, val_roundtrip]

/-! ### names, including names with digits inside -/

/-- **name reconstruction**: `from_description` strips every name to its base and re-uniquifies;
    on a canonical name list (every reachable blueprint has one — C05) that gives back exactly the
    original names, digits inside a base included. -/
theorem names_reconstructed (ns : List String) (h : makeNamesUnique ns = ns) :
    makeNamesUnique (ns.map basename) = ns := by
  have : (ns.map basename).map basename = ns.map basename := by
    simp [List.map_map, Function.comp_def, basename_idem]
  rw [makeNamesUnique_congr _ _ this, h]

theorem names_reconstructed_reachable (h : Hist) :
    makeNamesUnique (h.eval.names.map basename) = h.eval.names :=
  names_reconstructed _ (inv_reachable h)

/-! ### the description lists every segment, in order, and is JSON-serialisable -/

/-- the record written for one segment -/
def segRecord (s : Seg) : J :=
  J.obj
    [ ("name", .str s.name), ("function", .str s.fn.qual), ("durations", J.ofVal s.dur)
    , ("arguments",
        if s.fn.isWait then J.obj [("waittime", .arr (s.args.map J.ofVal))]
        else J.obj ((s.fn.params.zip s.args).map (fun (p, a) => (p, J.ofVal a)))) ]

/-- `description` = one `segment_XX` record per segment, in segment order, followed by the four
    marker lists -/
theorem desc_shape (b : BP) :
    b.toDesc = J.obj (((b.segs.zip (List.range b.segs.length)).map (fun (s, i) => (segKey (i + 1), segRecord s))) ++
      [ ("marker1_abs", .arr (b.marker1.map J.ofMark)), ("marker2_abs", .arr (b.marker2.map J.ofMark))
      , ("marker1_rel", .arr (b.segs.map (fun s => J.ofMark s.m1)))
      , ("marker2_rel", .arr (b.segs.map (fun s => J.ofMark s.m2))) ]) := rfl

/-- the number of records equals the number of segments -/
theorem desc_segment_count (b : BP) :
    ((b.segs.zip (List.range b.segs.length)).map (fun (s, i) => (segKey (i + 1), segRecord s))).length
      = b.segs.length := by simp

/-- the i-th record is keyed `segment_{i+1:02d}` and describes the i-th segment -/
theorem desc_segment_at (b : BP) (i : Nat) (hi : i < b.segs.length) :
    ((b.segs.zip (List.range b.segs.length)).map (fun (s, i) => (segKey (i + 1), segRecord s)))[i]? =
      some (segKey (i + 1), segRecord b.segs[i]) := by
  simp [List.getElem?_map, List.getElem?_zip_eq_some, hi]

/-- a value that is a number, a string or None -/
def Val.plain : Val → Bool
  | .opq _ => false
  | _ => true

theorem ofVal_ser (v : Val) (h : Val.plain v = true) : (J.ofVal v).serialisable = true := by
  cases v <;> simp_all [J.ofVal, J.serialisable, Val.plain]

theorem serList_map_ofVal (l : List Val) (h : ∀ v ∈ l, Val.plain v = true) :
    J.serList (l.map J.ofVal) = true := by
  induction l with
  | nil => rfl
  | cons v vs ih =>
    simp only [List.map_cons, J.serList, Bool.and_eq_true]
    exact ⟨ofVal_ser v (h v (by simp)), ih (fun w hw => h w (by simp [hw]))⟩

theorem serList_map_ofMark (l : List Mark) : J.serList (l.map J.ofMark) = true := by
  induction l with
  | nil => rfl
  | cons v vs ih => simp [J.serList, J.ofMark, J.serialisable, ih]

theorem serFields_append (a b : List (String × J)) :
    J.serFields (a ++ b) = (J.serFields a && J.serFields b) := by
  induction a with
  | nil => simp [J.serFields]
  | cons x xs ih => obtain ⟨k, v⟩ := x; simp [J.serFields, ih, Bool.and_assoc]

theorem serFields_zip (ps : List String) (l : List Val) (h : ∀ v ∈ l, Val.plain v = true) :
    J.serFields ((ps.zip l).map (fun (p, a) => (p, J.ofVal a))) = true := by
  induction ps generalizing l with
  | nil => simp [J.serFields]
  | cons p ps ih =>
    cases l with
    | nil => simp [J.serFields]
    | cons v vs =>
      simp only [List.zip_cons_cons, List.map_cons, J.serFields, Bool.and_eq_true]
      exact ⟨ofVal_ser v (h v (by simp)), ih vs (fun w hw => h w (by simp [hw]))⟩

theorem segRecord_ser (s : Seg) (ha : ∀ v ∈ s.args, Val.plain v = true) (hd : Val.plain s.dur = true) :
    (segRecord s).serialisable = true := by
  unfold segRecord
  simp only [J.serialisable, J.serFields, Bool.and_true, Bool.true_and, Bool.and_eq_true]
  refine ⟨ofVal_ser _ hd, ?_⟩
  split
  · simp [J.serialisable, J.serFields, serList_map_ofVal _ ha]
  · simp [J.serialisable, serFields_zip _ _ ha]

theorem serFields_segs (l : List (Seg × Nat))
    (h : ∀ p ∈ l, (∀ v ∈ p.1.args, Val.plain v = true) ∧ Val.plain p.1.dur = true) :
    J.serFields (l.map (fun (s, i) => (segKey (i + 1), segRecord s))) = true := by
  induction l with
  | nil => rfl
  | cons p ps ih =>
    obtain ⟨s, i⟩ := p
    simp only [List.map_cons, J.serFields, Bool.and_eq_true]
    exact ⟨segRecord_ser s (h (s, i) (by simp)).1 (h (s, i) (by simp)).2, ih (fun p hp => h p (by simp [hp]))⟩

/-- **the description is always JSON-serialisable** when arguments and durations are plain
    values (numbers, strings, None) — which is what the built-in shapes take -/
theorem desc_serialisable (b : BP)
    (h : ∀ s ∈ b.segs, (∀ v ∈ s.args, Val.plain v = true) ∧ Val.plain s.dur = true) :
    b.toDesc.serialisable = true := by
  rw [desc_shape]
  simp only [J.serialisable, serFields_append, Bool.and_eq_true]
  refine ⟨serFields_segs _ ?_, ?_⟩
  · intro p hp
    exact h p.1 (List.of_mem_zip hp).1
  · have h1 := serList_map_ofMark (b.segs.map (·.m1))
    have h2 := serList_map_ofMark (b.segs.map (·.m2))
    simp only [List.map_map, Function.comp_def] at h1 h2
    simp [J.serFields, J.serialisable, serList_map_ofMark, h1, h2]

/-! ### non-vacuity -/

example : makeNamesUnique (["pi2pulse", "pi2pulse2", "a1b", "ramp"].map basename) =
    ["pi2pulse", "pi2pulse2", "a1b", "ramp"] := by decide +kernel

end BB.C19
