/-
  Property C19 — the description / JSON round trip loses nothing that affects output.

  `BP.toDesc`/`BP.ofDesc`, `Element.toDesc`/`ofDesc`, `Sequence.toDesc`/`ofDesc` are the model's
  `description` and `*_from_description`, as coded (tied to /repo by the correspondence check,
  which goes through real JSON files).  Python's `json` maps tuples to lists and keeps dict
  order and numbers, so writing and reading a file is the identity on the model's `J` values
  (trusted, DESIGN.md §6).
-/
import Std.Data.String.ToInt
import BB.Proofs.Basic
import BB.Proofs.DictEq
import BB.Proofs.Copy
import BB.Proofs.RoundTrip
import BB.Model.Describe

namespace BB.C19
open BB BB.BP

/-! ### every leaf value survives -/

/-- numbers, strings and None survive `description` → `from_description` -/
theorem val_roundtrip (v : Val) : J.toVal (J.ofVal v) = v := by
  cases v <;> rfl

/-- a marker tuple `(t, dur)` is written as a two-element list and read back as the same tuple -/
theorem mark_roundtrip (m : Mark) : J.toMark? (J.ofMark m) = some m := by
  obtain ⟨a, b⟩ := m; rfl

theorem marks_roundtrip (l : List Mark) : (l.map J.ofMark).mapM J.toMark? = some l := by
  induction l with
  | nil => rfl
  | cons m ms ih => simp [List.mapM_cons, mark_roundtrip, ih]

theorem int_roundtrip (n : Int) : J.toInt? (J.ofInt n) = some n := by
  simp [J.toInt?, J.ofInt]

/-- the five sequencing values of a position are written under their keys and read back -/
theorem seqset_roundtrip (q : SeqSet) :
    let l := match Sequence.seqSetJ q with | .obj l => l | _ => []
    ((l.lookup "Wait trigger").bind J.toInt?, (l.lookup "Repeat").bind J.toInt?,
     (l.lookup "jump_input").bind J.toInt?, (l.lookup "jump_target").bind J.toInt?,
     (l.lookup "Go to").bind J.toInt?) =
    (some q.twait, some q.nrep, some q.jump_input, some q.jump_target, some q.goto) := by
  simp [Sequence.seqSetJ, List.lookup, int_roundtrip]

/-- every AWG setting — sample rate, amplitude, offset, channel delay, filter compensation
    (kind, order, f_cut, tau) — is written and read back unchanged -/
theorem spec_roundtrip (s : Spec) : Sequence.specOfJ (Sequence.specJ s) = s := by
  cases s with
  | val v => cases v <;> rfl
  | filt f =>
    obtain ⟨k, o, fc, tau⟩ := f
    simp [Sequence.specJ, Sequence.specOfJ, List.lookup, int_roundtrip, val_roundtrip]

/-! ### names, including names with digits inside -/

/-- **name reconstruction**: `from_description` strips every name to its base and re-uniquifies;
    on a canonical name list (every reachable blueprint has one — C05) that gives back exactly the
    original names, digits inside a base included. -/
theorem names_reconstructed (ns : List String) (h : makeNamesUnique ns = ns) :
    makeNamesUnique (ns.map basename) = ns := by
  have : (ns.map basename).map basename = ns.map basename := by
    simp [List.map_map, Function.comp_def, basename_idem]
  rw [makeNamesUnique_congr _ _ this, h]

theorem names_reconstructed_reachable (h : Hist) :
    makeNamesUnique (h.eval.names.map basename) = h.eval.names :=
  names_reconstructed _ (inv_reachable h)

/-! ### the description lists every segment, in order, and is JSON-serialisable -/

/-- the record written for one segment -/
def segRecord (s : Seg) : J :=
  J.obj
    [ ("name", .str s.name), ("function", .str s.fn.qual), ("durations", J.ofVal s.dur)
    , ("arguments",
        if s.fn.isWait then J.obj [("waittime", .arr (s.args.map J.ofVal))]
        else J.obj ((s.fn.params.zip s.args).map (fun (p, a) => (p, J.ofVal a)))) ]

/-- `description` = one `segment_XX` record per segment, in segment order, followed by the four
    marker lists -/
theorem desc_shape (b : BP) :
    b.toDesc = J.obj (((b.segs.zip (List.range b.segs.length)).map (fun (s, i) => (segKey (i + 1), segRecord s))) ++
      [ ("marker1_abs", .arr (b.marker1.map J.ofMark)), ("marker2_abs", .arr (b.marker2.map J.ofMark))
      , ("marker1_rel", .arr (b.segs.map (fun s => J.ofMark s.m1)))
      , ("marker2_rel", .arr (b.segs.map (fun s => J.ofMark s.m2))) ]) := rfl

/-- the number of records equals the number of segments -/
theorem desc_segment_count (b : BP) :
    ((b.segs.zip (List.range b.segs.length)).map (fun (s, i) => (segKey (i + 1), segRecord s))).length
      = b.segs.length := by simp

/-- the i-th record is keyed `segment_{i+1:02d}` and describes the i-th segment -/
theorem desc_segment_at (b : BP) (i : Nat) (hi : i < b.segs.length) :
    ((b.segs.zip (List.range b.segs.length)).map (fun (s, i) => (segKey (i + 1), segRecord s)))[i]? =
      some (segKey (i + 1), segRecord b.segs[i]) := by
  simp [List.getElem?_map, List.getElem?_zip_eq_some, hi]

/-- a value that is a number, a string or None -/
def Val.plain : Val → Bool
  | .opq _ => false
  | _ => true

theorem ofVal_ser (v : Val) (h : Val.plain v = true) : (J.ofVal v).serialisable = true := by
  cases v <;> simp_all [J.ofVal, J.serialisable, Val.plain]

theorem serList_map_ofVal (l : List Val) (h : ∀ v ∈ l, Val.plain v = true) :
    J.serList (l.map J.ofVal) = true := by
  induction l with
  | nil => rfl
  | cons v vs ih =>
    simp only [List.map_cons, J.serList, Bool.and_eq_true]
    exact ⟨ofVal_ser v (h v (by simp)), ih (fun w hw => h w (by simp [hw]))⟩

theorem serList_map_ofMark (l : List Mark) : J.serList (l.map J.ofMark) = true := by
  induction l with
  | nil => rfl
  | cons v vs ih => simp [J.serList, J.ofMark, J.serialisable, ih]

theorem serFields_append (a b : List (String × J)) :
    J.serFields (a ++ b) = (J.serFields a && J.serFields b) := by
  induction a with
  | nil => simp [J.serFields]
  | cons x xs ih => obtain ⟨k, v⟩ := x; simp [J.serFields, ih, Bool.and_assoc]

theorem serFields_zip (ps : List String) (l : List Val) (h : ∀ v ∈ l, Val.plain v = true) :
    J.serFields ((ps.zip l).map (fun (p, a) => (p, J.ofVal a))) = true := by
  induction ps generalizing l with
  | nil => simp [J.serFields]
  | cons p ps ih =>
    cases l with
    | nil => simp [J.serFields]
    | cons v vs =>
      simp only [List.zip_cons_cons, List.map_cons, J.serFields, Bool.and_eq_true]
      exact ⟨ofVal_ser v (h v (by simp)), ih vs (fun w hw => h w (by simp [hw]))⟩

theorem segRecord_ser (s : Seg) (ha : ∀ v ∈ s.args, Val.plain v = true) (hd : Val.plain s.dur = true) :
    (segRecord s).serialisable = true := by
  unfold segRecord
  simp only [J.serialisable, J.serFields, Bool.and_true, Bool.true_and, Bool.and_eq_true]
  refine ⟨ofVal_ser _ hd, ?_⟩
  split
  · simp [J.serialisable, J.serFields, serList_map_ofVal _ ha]
  · simp [J.serialisable, serFields_zip _ _ ha]

theorem serFields_segs (l : List (Seg × Nat))
    (h : ∀ p ∈ l, (∀ v ∈ p.1.args, Val.plain v = true) ∧ Val.plain p.1.dur = true) :
    J.serFields (l.map (fun (s, i) => (segKey (i + 1), segRecord s))) = true := by
  induction l with
  | nil => rfl
  | cons p ps ih =>
    obtain ⟨s, i⟩ := p
    simp only [List.map_cons, J.serFields, Bool.and_eq_true]
    exact ⟨segRecord_ser s (h (s, i) (by simp)).1 (h (s, i) (by simp)).2, ih (fun p hp => h p (by simp [hp]))⟩

/-- **the description is always JSON-serialisable** when arguments and durations are plain
    values (numbers, strings, None) — which is what the built-in shapes take -/
theorem desc_serialisable (b : BP)
    (h : ∀ s ∈ b.segs, (∀ v ∈ s.args, Val.plain v = true) ∧ Val.plain s.dur = true) :
    b.toDesc.serialisable = true := by
  rw [desc_shape]
  simp only [J.serialisable, serFields_append, Bool.and_eq_true]
  refine ⟨serFields_segs _ ?_, ?_⟩
  · intro p hp
    exact h p.1 (List.of_mem_zip hp).1
  · have h1 := serList_map_ofMark (b.segs.map (·.m1))
    have h2 := serList_map_ofMark (b.segs.map (·.m2))
    simp only [List.map_map, Function.comp_def] at h1 h2
    simp [J.serFields, J.serialisable, serList_map_ofMark, h1, h2]

/-! ### the whole round trip of a blueprint -/

theorem record_eq (s : Seg) : record s = segRecord s := rfl

/-- the `segment_XX` records, and only they, are picked up as segments -/
theorem filter_segments (b : BP) (rest : List (String × J))
    (hrest : ∀ p ∈ rest, hasSub p.1 "segment" = false) :
    ((((b.segs.zip (List.range b.segs.length)).map (fun (s, i) => (segKey (i + 1), segRecord s))) ++ rest).filter
        (fun (kv : String × J) => hasSub kv.1 "segment")).map (fun (p : String × J) => p.2) = b.segs.map record := by
  rw [List.filter_append]
  have h1 : (((b.segs.zip (List.range b.segs.length)).map (fun (s, i) => (segKey (i + 1), segRecord s))).filter
      (fun (kv : String × J) => hasSub kv.1 "segment")) = (b.segs.zip (List.range b.segs.length)).map (fun (s, i) => (segKey (i + 1), segRecord s)) := by
    rw [List.filter_eq_self]
    intro p hp
    simp only [List.mem_map] at hp
    obtain ⟨⟨s, i⟩, _, rfl⟩ := hp
    exact hasSub_segKey _
  have h2 : rest.filter (fun (kv : String × J) => hasSub kv.1 "segment") = [] := by
    rw [List.filter_eq_nil_iff]
    intro p hp
    simp [hrest p hp]
  rw [h1, h2, List.append_nil, List.map_map]
  have : ∀ (l : List Seg) (k : Nat), ((l.zip (List.range' k l.length)).map ((fun (p : String × J) => p.2) ∘ fun (x : Seg × Nat) => (segKey (x.2 + 1), segRecord x.1))) = l.map record := by
    intro l
    induction l with
    | nil => intro k; rfl
    | cons x xs ih =>
      intro k
      simp only [List.length_cons, List.range'_succ, List.zip_cons_cons, List.map_cons, Function.comp, List.cons.injEq]
      exact ⟨rfl, ih (k + 1)⟩
  rw [List.range_eq_range']
  exact this b.segs 0

theorem setSegMarks_restore (l : List Seg) :
    setSegMarks (l.map (fun s => stripped s s.name)) (l.map (·.m1)) (l.map (·.m2)) = l := by
  induction l with
  | nil => rfl
  | cons s ss ih =>
    simp only [List.map_cons, setSegMarks, ih, List.cons.injEq, and_true]
    obtain ⟨n, f, a, d, p, q⟩ := s
    rfl

/-- after the loop, the renumbered segments are the original ones without their markers -/
theorem canon_stripped (b : BP) (h1 : Inv b) (l' : List Seg) (hlen : l'.length = b.segs.length)
    (hl' : ∀ j (h1 : j < l'.length) (h2 : j < b.segs.length), ∃ nm, basename nm = basename (b.segs[j]).name ∧
      l'[j] = stripped b.segs[j] nm) :
    canon l' = b.segs.map (fun s => stripped s s.name) := by
  have hk : l'.map key = (b.segs.map (fun s => stripped s s.name)).map key := by
    apply List.ext_getElem
    · simp [hlen]
    · intro j h1 h2
      simp only [List.getElem_map]
      have hj : j < l'.length := by simpa using h1
      have hj2 : j < b.segs.length := by simpa using h2
      obtain ⟨nm, hnm, he⟩ := hl' j hj hj2
      rw [he]
      simp [key, stripped, hnm]
  show renumber (l'.map key) = _
  rw [hk]
  have : canon (b.segs.map (fun s => stripped s s.name)) = b.segs.map (fun s => stripped s s.name) := by
    apply canon_of_inv
    have : (b.segs.map (fun s => stripped s s.name)).map (·.name) = b.names := by
      simp [List.map_map, Function.comp_def, stripped, names]
    rw [this]; exact h1
  exact this

theorem get_marker_fields (b : BP) (k : String) (v : J)
    (hk : hasSub k "segment" = false)
    (hv : List.lookup k [ ("marker1_abs", J.arr (b.marker1.map J.ofMark)), ("marker2_abs", .arr (b.marker2.map J.ofMark))
      , ("marker1_rel", .arr (b.segs.map (fun s => J.ofMark s.m1)))
      , ("marker2_rel", .arr (b.segs.map (fun s => J.ofMark s.m2))) ] = some v) :
    b.toDesc.get? k = some v := by
  rw [desc_shape]
  simp only [J.get?]
  rw [lookup_append_of_not_mem]
  · exact hv
  · intro p hp
    simp only [List.mem_map] at hp
    obtain ⟨⟨s, i⟩, _, rfl⟩ := hp
    intro e
    have := hasSub_segKey (i + 1)
    simp only at e
    rw [e, hk] at this
    cases this

theorem marksOf_arr (j : J) (k : String) (l : List Mark) (h : j.get? k = some (.arr (l.map J.ofMark))) :
    marksOf j k = .ok l := by
  unfold marksOf
  rw [h]
  simp only
  rw [marks_roundtrip]

theorem marksOf_desc (b : BP) :
    marksOf b.toDesc "marker1_abs" = .ok b.marker1 ∧ marksOf b.toDesc "marker2_abs" = .ok b.marker2 ∧
    marksOf b.toDesc "marker1_rel" = .ok (b.segs.map (·.m1)) ∧ marksOf b.toDesc "marker2_rel" = .ok (b.segs.map (·.m2)) := by
  have hm := hasSub_marker_keys
  refine ⟨?_, ?_, ?_, ?_⟩
  · exact marksOf_arr _ _ _ (get_marker_fields b "marker1_abs" _ hm.1 (by simp [List.lookup]))
  · exact marksOf_arr _ _ _ (get_marker_fields b "marker2_abs" _ hm.2.1 (by simp [List.lookup]))
  · apply marksOf_arr
    rw [get_marker_fields b "marker1_rel" (J.arr (b.segs.map (fun s => J.ofMark s.m1))) hm.2.2.1 (by simp [List.lookup])]
    simp [List.map_map, Function.comp_def]
  · apply marksOf_arr
    rw [get_marker_fields b "marker2_rel" (J.arr (b.segs.map (fun s => J.ofMark s.m2))) hm.2.2.2 (by simp [List.lookup])]
    simp [List.map_map, Function.comp_def]

/-- **the round trip**: reading back the description of a blueprint over the built-in shapes
    (reachable through the public API: both naming invariants hold) gives the same blueprint —
    every name (digits inside included), function, argument, duration, absolute and segment-bound
    marker — except for the sample rate, which a description does not carry -/
theorem roundtrip_bp (b : BP) (h1 : Inv b) (h2 : Inv2 b) (hok : ∀ s ∈ b.segs, SegOk s) :
    BP.ofDesc b.toDesc = .ok { b with SR := .none } := by
  obtain ⟨l', hlen, hl', hsum⟩ := sumSegs_records b.segs hok h2 0 {} (by rfl)
  have hfil := filter_segments b
    [ ("marker1_abs", J.arr (b.marker1.map J.ofMark)), ("marker2_abs", .arr (b.marker2.map J.ofMark))
    , ("marker1_rel", .arr (b.segs.map (fun s => J.ofMark s.m1)))
    , ("marker2_rel", .arr (b.segs.map (fun s => J.ofMark s.m2))) ]
    (by
      intro p hp
      have hm := hasSub_marker_keys
      simp only [List.mem_cons, List.not_mem_nil, or_false] at hp
      rcases hp with rfl | rfl | rfl | rfl
      · exact hm.1
      · exact hm.2.1
      · exact hm.2.2.1
      · exact hm.2.2.2)
  obtain ⟨m1, m2, m3, m4⟩ := marksOf_desc b
  have hc := canon_stripped b h1 l' hlen hl'
  have hd := desc_shape b
  unfold BP.ofDesc
  rw [hd] at m1 m2 m3 m4 ⊢
  simp only [hfil, hsum, m1, m2, m3, m4]
  simp only [List.nil_append, hc, setSegMarks_restore]

/-- … hence for every blueprint built through the public API from built-in shapes -/
theorem roundtrip_reachable (h : Hist) (hok : ∀ s ∈ h.eval.segs, SegOk s) :
    BP.ofDesc h.eval.toDesc = .ok { h.eval with SR := .none } :=
  roundtrip_bp _ (inv_reachable h) (inv2_reachable h) hok

/-- the read-back blueprint compares equal to the original, has the same description, and once
    given the same sample rate *is* the original (so it forges to identical arrays) -/
theorem roundtrip_observables (b b' : BP) (h : BP.ofDesc b.toDesc = .ok b') (h1 : Inv b) (h2 : Inv2 b)
    (hok : ∀ s ∈ b.segs, SegOk s) :
    b'.beq b = true ∧ b'.toDesc = b.toDesc ∧ ({ b' with SR := b.SR } : BP) = b := by
  rw [roundtrip_bp b h1 h2 hok] at h
  cases h
  refine ⟨?_, rfl, rfl⟩
  unfold BP.beq BP.names
  simp

/-! ### blueprint descriptions with extra fields (an element adds "flags") -/

/-- the fields of a blueprint description followed by further fields -/
def fieldsX (b : BP) (extra : List (String × J)) : List (String × J) :=
  ((b.segs.zip (List.range b.segs.length)).map (fun (s, i) => (segKey (i + 1), segRecord s))) ++
    ([ ("marker1_abs", J.arr (b.marker1.map J.ofMark)), ("marker2_abs", .arr (b.marker2.map J.ofMark))
     , ("marker1_rel", .arr (b.segs.map (fun s => J.ofMark s.m1)))
     , ("marker2_rel", .arr (b.segs.map (fun s => J.ofMark s.m2))) ] ++ extra)

theorem fieldsX_eq (b : BP) (extra : List (String × J)) (l : List (String × J)) (hl : b.toDesc = .obj l) :
    l ++ extra = fieldsX b extra := by
  rw [desc_shape] at hl
  simp only [J.obj.injEq] at hl
  subst hl
  unfold fieldsX
  rw [List.append_assoc]

theorem get_marker_fields_extra (b : BP) (k : String) (v : J) (extra : List (String × J))
    (hk : hasSub k "segment" = false)
    (hv : List.lookup k [ ("marker1_abs", J.arr (b.marker1.map J.ofMark)), ("marker2_abs", .arr (b.marker2.map J.ofMark))
      , ("marker1_rel", .arr (b.segs.map (fun s => J.ofMark s.m1)))
      , ("marker2_rel", .arr (b.segs.map (fun s => J.ofMark s.m2))) ] = some v) :
    (J.obj (fieldsX b extra)).get? k = some v := by
  simp only [J.get?, fieldsX]
  rw [lookup_append_of_not_mem]
  · rw [List.lookup_append, hv]; rfl
  · intro p hp
    simp only [List.mem_map] at hp
    obtain ⟨⟨s, i⟩, _, rfl⟩ := hp
    intro e
    have := hasSub_segKey (i + 1)
    simp only at e
    rw [e, hk] at this
    cases this

/-- the round trip is not disturbed by further fields whose keys do not contain "segment" -/
theorem roundtrip_bp_extra (b : BP) (h1 : Inv b) (h2 : Inv2 b) (hok : ∀ s ∈ b.segs, SegOk s)
    (extra : List (String × J)) (hex : ∀ p ∈ extra, hasSub p.1 "segment" = false)
    (l : List (String × J)) (hl : b.toDesc = .obj l) :
    BP.ofDesc (.obj (l ++ extra)) = .ok { b with SR := .none } := by
  obtain ⟨l', hlen, hl', hsum⟩ := sumSegs_records b.segs hok h2 0 {} (by rfl)
  have hm := hasSub_marker_keys
  have hfil : ((fieldsX b extra).filter (fun (kv : String × J) => hasSub kv.1 "segment")).map (fun (p : String × J) => p.2)
      = b.segs.map record := filter_segments b _
    (by
      intro p hp
      rw [List.mem_append] at hp
      rcases hp with hp | hp
      · simp only [List.mem_cons, List.not_mem_nil, or_false] at hp
        rcases hp with rfl | rfl | rfl | rfl
        · exact hm.1
        · exact hm.2.1
        · exact hm.2.2.1
        · exact hm.2.2.2
      · exact hex p hp)
  have m1 : marksOf (J.obj (fieldsX b extra)) "marker1_abs" = .ok b.marker1 :=
    marksOf_arr _ _ _ (get_marker_fields_extra b "marker1_abs" _ extra hm.1 (by simp [List.lookup]))
  have m2 : marksOf (J.obj (fieldsX b extra)) "marker2_abs" = .ok b.marker2 :=
    marksOf_arr _ _ _ (get_marker_fields_extra b "marker2_abs" _ extra hm.2.1 (by simp [List.lookup]))
  have m3 : marksOf (J.obj (fieldsX b extra)) "marker1_rel" = .ok (b.segs.map (·.m1)) := by
    apply marksOf_arr
    rw [get_marker_fields_extra b "marker1_rel" (J.arr (b.segs.map (fun s => J.ofMark s.m1))) extra hm.2.2.1 (by simp [List.lookup])]
    simp [List.map_map, Function.comp_def]
  have m4 : marksOf (J.obj (fieldsX b extra)) "marker2_rel" = .ok (b.segs.map (·.m2)) := by
    apply marksOf_arr
    rw [get_marker_fields_extra b "marker2_rel" (J.arr (b.segs.map (fun s => J.ofMark s.m2))) extra hm.2.2.2 (by simp [List.lookup])]
    simp [List.map_map, Function.comp_def]
  have hc := canon_stripped b h1 l' hlen hl'
  rw [fieldsX_eq b extra l hl]
  unfold BP.ofDesc
  simp only [hfil, hsum, m1, m2, m3, m4]
  simp only [List.nil_append, hc, setSegMarks_restore]

/-! ### the round trip of an element (blueprint channels, with or without flags) -/

section element
open BB.Element

theorem upsert_of_not_mem {κ α : Type} [DecidableEq κ] (d : Dict κ α) (k : κ) (v : α) (h : k ∉ Dict.keys d) :
    Dict.upsert d k v = d ++ [(k, v)] := by
  induction d with
  | nil => rfl
  | cons kv rest ih =>
    obtain ⟨k', w⟩ := kv
    unfold Dict.upsert
    have hk : k' ≠ k := by
      intro e; apply h; simp [Dict.keys, e]
    have hr : k ∉ Dict.keys rest := by
      intro hm; apply h; simp only [Dict.keys, List.map_cons, List.mem_cons]; right; exact hm
    simp only [hk, if_false, List.cons_append, ih hr]

theorem upsert_append_self {κ α : Type} [DecidableEq κ] (d : Dict κ α) (k : κ) (v v' : α) (h : k ∉ Dict.keys d) :
    Dict.upsert (d ++ [(k, v)]) k v' = d ++ [(k, v')] := by
  induction d with
  | nil => simp [Dict.upsert]
  | cons kv rest ih =>
    obtain ⟨k', w⟩ := kv
    have hk : k' ≠ k := by
      intro e; apply h; simp [Dict.keys, e]
    have hr : k ∉ Dict.keys rest := by
      intro hm; apply h; simp only [Dict.keys, List.map_cons, List.mem_cons]; right; exact hm
    simp only [List.cons_append, Dict.upsert, hk, if_false, ih hr]

theorem get?_append_self {κ α : Type} [DecidableEq κ] (d : Dict κ α) (k : κ) (v : α) (h : k ∉ Dict.keys d) :
    Dict.get? (d ++ [(k, v)]) k = some v := by
  rw [← upsert_of_not_mem d k v h]
  exact Dict.get?_upsert_self d k v

/-- what a description keeps of a channel entry: everything but the blueprint's sample rate -/
def stripSR (ent : ChEntry) : ChEntry :=
  match ent.data with
  | .bp b => { ent with data := .bp { b with SR := .none } }
  | _ => ent

/-- the text of an integer channel number parses back to it (`int(str(n)) == n`) -/
theorem parseChan_int (n : Int) : parseChan (Chan.int n).toStr = .ok (.int n) := by
  have : (toString n : String) = n.repr := rfl
  simp only [parseChan, Chan.toStr, this, Int.toInt?_repr]

/-- a channel that `element_from_description` can rebuild: an integer channel number (the code
    calls `int(key)`, so a string-named channel is refused), holding a blueprint reachable through
    the public API over the built-in shapes, with flags (if any) as `addFlags` stores them -/
def ChanOk (p : Chan × ChEntry) : Prop :=
  (∃ n, p.1 = Chan.int n) ∧
  ∃ b, p.2.data = .bp b ∧ Inv b ∧ Inv2 b ∧ (∀ s ∈ b.segs, SegOk s) ∧ b.segs ≠ [] ∧
    (∀ fl, p.2.flags = some fl → fl.length = 4 ∧ ∀ n ∈ fl, n ≤ 4)

theorem flagToken_num (n : Nat) (h : n ≤ 4) : flagToken? (J.toVal (J.num ((n : Int) : Rat))) = some n := by
  have : n = 0 ∨ n = 1 ∨ n = 2 ∨ n = 3 ∨ n = 4 := by omega
  rcases this with rfl | rfl | rfl | rfl | rfl <;> decide

theorem flags_back (fl : List Nat) (h : ∀ n ∈ fl, n ≤ 4) :
    ((fl.map (fun (n : Nat) => J.num ((n : Int) : Rat))).map J.toVal).mapM flagToken? = some fl := by
  induction fl with
  | nil => rfl
  | cons n ns ih =>
    simp only [List.map_cons, List.mapM_cons, flagToken_num n (h n (by simp)), ih (fun m hm => h m (by simp [hm]))]
    rfl

theorem no_flags_field (b : BP) : b.toDesc.get? "flags" = none := by
  rw [desc_shape]
  simp only [J.get?]
  rw [lookup_append_of_not_mem]
  · simp [List.lookup]
  · intro p hp
    simp only [List.mem_map] at hp
    obtain ⟨⟨s, i⟩, _, rfl⟩ := hp
    intro e
    have := hasSub_segKey (i + 1)
    simp only at e
    rw [e] at this
    revert this
    decide

theorem flags_field (b : BP) (l : List (String × J)) (hl : b.toDesc = .obj l) (v : J) :
    (J.obj (l ++ [("flags", v)])).get? "flags" = some v := by
  have hn := no_flags_field b
  rw [hl] at hn
  simp only [J.get?] at hn ⊢
  rw [List.lookup_append, hn]
  simp [List.lookup]

theorem chanDesc_plain (b : BP) : chanDesc ⟨.bp b, none⟩ = .ok b.toDesc := by
  unfold chanDesc
  rw [desc_shape]
  rfl

theorem chanDesc_flags (b : BP) (fl : List Nat) (l : List (String × J)) (hl : b.toDesc = .obj l) :
    chanDesc ⟨.bp b, some fl⟩ = .ok (J.obj (l ++ [("flags", flagsJ fl)])) := by
  unfold chanDesc
  simp only [hl]
  rfl

/-- a channel entry read back at sample rate `sr` (`none`: no sample rate known) -/
def reSR (sr : Option Val) (ent : ChEntry) : ChEntry :=
  match ent.data with
  | .bp b => { ent with data := .bp (withSR { b with SR := .none } sr) }
  | _ => ent

theorem reSR_none (ent : ChEntry) : reSR none ent = stripSR ent := by
  unfold reSR stripSR withSR
  cases ent.data <;> rfl

/-- one channel read back into an element that does not have it yet -/
theorem chanOfDesc_step_sr (e0 : Element) (p : Chan × ChEntry) (hp : ChanOk p) (hnew : p.1 ∉ Dict.keys e0.chans)
    (kd : String × J) (hkd : chanField p = .ok kd) (sr : Option Val) :
    chanOfDesc e0 kd.1 kd.2 sr = .ok { e0 with chans := e0.chans ++ [(p.1, reSR sr p.2)] } := by
  obtain ⟨ch, ent⟩ := p
  obtain ⟨⟨nch, hint⟩, b, hdata, h1, h2, hok, hne, hfl⟩ := hp
  obtain ⟨dat, flags⟩ := ent
  simp only at hdata hfl hint hnew
  have hparse : parseChan ch.toStr = .ok ch := by rw [hint]; exact parseChan_int nch
  subst hdata
  have hb' : BP.copy (withSR { b with SR := Val.none } sr) = withSR { b with SR := Val.none } sr := by
    cases sr <;> exact copy_eq_self h1 h2
  have hempty : (withSR { b with SR := Val.none } sr).segs.isEmpty = false := by
    cases sr <;> simpa [withSR, List.isEmpty_iff] using hne
  obtain ⟨l, hl⟩ : ∃ l, b.toDesc = .obj l := ⟨_, desc_shape b⟩
  cases flags with
  | none =>
    have : kd = (ch.toStr, b.toDesc) := by
      simp only [chanField, chanDesc_plain, Except.ok.injEq] at hkd
      exact hkd.symm
    subst this
    simp only [chanOfDesc, hparse, roundtrip_bp b h1 h2 hok, addBluePrint, hempty, Bool.false_eq_true, if_false,
      no_flags_field b, hb', reSR]
    rw [upsert_of_not_mem _ _ _ hnew]
  | some fl =>
    obtain ⟨hlen, hle⟩ := hfl fl rfl
    have : kd = (ch.toStr, J.obj (l ++ [("flags", flagsJ fl)])) := by
      simp only [chanField, chanDesc_flags b fl l hl, Except.ok.injEq] at hkd
      exact hkd.symm
    subst this
    have hrt := roundtrip_bp_extra b h1 h2 hok [("flags", flagsJ fl)] (by
      intro p hp
      simp only [List.mem_singleton] at hp
      subst hp
      show hasSub "flags" "segment" = false
      decide) l hl
    simp only [flagsJ] at hrt
    have hlenb : Gen.flagsLenBad (List.map J.toVal (fl.map (fun (n : Nat) => J.num ((n : Int) : Rat)))).length = false := by
      simp [Gen.flagsLenBad, hlen]
    simp only [chanOfDesc, hparse, hrt, addBluePrint, hempty, Bool.false_eq_true, if_false,
      flags_field b l hl, flagsJ, addFlags, hlenb, flags_back fl hle, hb', reSR]
    rw [upsert_of_not_mem _ _ _ hnew, get?_append_self _ _ _ hnew]
    simp only [upsert_append_self _ _ _ _ hnew]

theorem chanOfDesc_step (e0 : Element) (p : Chan × ChEntry) (hp : ChanOk p) (hnew : p.1 ∉ Dict.keys e0.chans)
    (kd : String × J) (hkd : chanField p = .ok kd) :
    chanOfDesc e0 kd.1 kd.2 none = .ok { e0 with chans := e0.chans ++ [(p.1, stripSR p.2)] } := by
  rw [chanOfDesc_step_sr e0 p hp hnew kd hkd none, reSR_none]

/-- **the round trip of an element**: an element whose channels are integer-numbered blueprint
    channels (blueprints reachable through the public API over the built-in shapes, flags as
    `addFlags` stores them) is rebuilt by `element_from_description` from its own description
    with the same channels in the same order, the same blueprints — every segment, argument,
    duration, marker — and the same flags; only the blueprints' sample rate is not carried. -/
theorem roundtrip_el (chans : Dict Chan ChEntry) (cache : Option (Val × Rat))
    (hnd : (Dict.keys chans).Nodup) (hok : ∀ p ∈ chans, ChanOk p) (d : J)
    (hd : (⟨chans, cache⟩ : Element).toDesc = .ok d) :
    Element.ofDesc d = .ok ⟨chans.map (fun p => (p.1, stripSR p.2)), none⟩ := by
  unfold Element.toDesc at hd
  split at hd
  · cases hd
  · rename_i fields hfields
    simp only [Except.ok.injEq] at hd
    subst hd
    simp only [Element.ofDesc]
    -- generalise the accumulator
    have gen : ∀ (rest : Dict Chan ChEntry) (fs : List (String × J)) (acc : Dict Chan ChEntry),
        rest.mapM chanField = .ok fs → (Dict.keys (acc ++ rest)).Nodup → (∀ p ∈ rest, ChanOk p) →
        fs.foldlM (fun e kd => chanOfDesc e kd.1 kd.2 none) (⟨acc, none⟩ : Element) =
          .ok ⟨acc ++ rest.map (fun p => (p.1, stripSR p.2)), none⟩ := by
      intro rest
      induction rest with
      | nil =>
        intro fs acc hfs _ _
        simp only [List.mapM_nil, pure, Except.pure, Except.ok.injEq] at hfs
        subst hfs
        simp [List.foldlM, pure, Except.pure]
      | cons p ps ih =>
        intro fs acc hfs hnd hok
        rw [mapM_cons_eq] at hfs
        cases hp : chanField p with
        | error er => rw [hp] at hfs; cases hfs
        | ok kd =>
          rw [hp] at hfs
          cases hps : ps.mapM chanField with
          | error er => rw [hps] at hfs; cases hfs
          | ok fs' =>
            rw [hps] at hfs
            simp only [Except.ok.injEq] at hfs
            subst hfs
            have hnew : p.1 ∉ Dict.keys acc := by
              intro hm
              simp only [Dict.keys, List.map_append, List.map_cons] at hnd hm
              have := List.nodup_append.mp hnd
              exact this.2.2 _ hm _ (by simp) rfl
            have hstep := chanOfDesc_step ⟨acc, none⟩ p (hok p (by simp)) hnew kd hp
            simp only [List.foldlM_cons, bind, Except.bind, hstep]
            have := ih fs' (acc ++ [(p.1, stripSR p.2)]) hps
              (by
                simp only [Dict.keys, List.map_append, List.map_cons, List.map_nil, List.append_assoc, List.cons_append,
                  List.nil_append] at hnd ⊢
                exact hnd)
              (fun q hq => hok q (by simp [hq]))
            rw [this]
            simp
    have := gen chans fields [] hfields (by simpa using hnd) hok
    simpa using this

theorem chanField_strip (p : Chan × ChEntry) : chanField (p.1, stripSR p.2) = chanField p := by
  obtain ⟨ch, dat, fl⟩ := p
  cases dat <;> rfl

/-- … so the read-back element has the same description (and the same channels in the same order)
    as the original: describing, reading back and describing again is the identity on descriptions -/
theorem roundtrip_el_desc (chans : Dict Chan ChEntry) (cache : Option (Val × Rat))
    (hnd : (Dict.keys chans).Nodup) (hok : ∀ p ∈ chans, ChanOk p) (d : J)
    (hd : (⟨chans, cache⟩ : Element).toDesc = .ok d) :
    ∃ e', Element.ofDesc d = .ok e' ∧ e'.toDesc = .ok d ∧ Dict.keys e'.chans = Dict.keys chans := by
  refine ⟨_, roundtrip_el chans cache hnd hok d hd, ?_, ?_⟩
  · unfold Element.toDesc at hd ⊢
    have : (chans.map (fun p => (p.1, stripSR p.2))).mapM chanField = chans.mapM chanField := by
      rw [List.mapM_map]
      congr 1
      funext p
      exact chanField_strip p
    simp only [this]
    exact hd
  · simp [Dict.keys, List.map_map, Function.comp_def]

/-! non-vacuity: an element with two integer channels, one of them with flags, meets the premises -/

def exFn : Fn := { special := false, name := "ramp", qual := "function PulseAtoms.ramp",
                   params := ["start", "stop", "SR", "npts"], shape := .ramp }
def exBP : BP := { segs := [{ name := "ramp", fn := exFn, args := [.num 0, .num 1], dur := .num 1 },
                            { name := "ramp2", fn := exFn, args := [.num 1, .num 0], dur := .num 2 }], SR := .num 10 }

def exChans : Dict Chan ChEntry := [(Chan.int 1, ⟨.bp exBP, none⟩), (Chan.int 2, ⟨.bp exBP, some [0, 3, 0, 1]⟩)]

theorem exChans_ok : ∀ p ∈ exChans, ChanOk p := by
  unfold exChans
  have hinv : BP.Inv exBP := by unfold BP.Inv; decide +kernel
  have hinv2 : Inv2 exBP := by unfold Inv2 NameOk; decide +kernel
  have hseg : ∀ s ∈ exBP.segs, SegOk s := by
    intro s hs
    simp only [exBP, List.mem_cons, List.not_mem_nil, or_false] at hs
    rcases hs with rfl | rfl <;> exact ⟨fun h => absurd h (by decide), fun _ => ⟨by decide +kernel, by decide⟩⟩
  intro p hp
  simp only [List.mem_cons, List.not_mem_nil, or_false] at hp
  rcases hp with rfl | rfl
  · exact ⟨⟨1, rfl⟩, exBP, rfl, hinv, hinv2, hseg, by decide, by intro fl h; cases h⟩
  · refine ⟨⟨2, rfl⟩, exBP, rfl, hinv, hinv2, hseg, by decide, ?_⟩
    intro fl h
    cases h
    exact ⟨rfl, by decide⟩

end element

/-! ### the round trip of a sequence -/

section sequence
open BB.Element BB.Sequence

theorem chanField_key (p : Chan × ChEntry) (kd : String × J) (h : chanField p = .ok kd) : kd.1 = p.1.toStr := by
  unfold chanField at h
  split at h
  · cases h
  · simp only [Except.ok.injEq] at h
    rw [← h]

/-- amplitude and offset of the given channels carried over from the description's settings -/
def carryAll (specs : List (String × J)) (s : Sequence) (chs : List Chan) : Sequence :=
  chs.foldl (fun s ch =>
    (s.setChannelAmplitude ch (J.toVal ((specs.lookup (keyOf ch "amplitude")).getD .null))).setChannelOffset ch
      (J.toVal ((specs.lookup (keyOf ch "offset")).getD .null))) s

/-- the channels of one position, read back one after the other -/
theorem chan_fold (specs : List (String × J)) (sr : Val) :
    ∀ (rest : Dict Chan ChEntry) (fs : List (String × J)) (acc : Dict Chan ChEntry) (s0 : Sequence),
      rest.mapM chanField = .ok fs → (Dict.keys (acc ++ rest)).Nodup → (∀ p ∈ rest, ChanOk p) →
      (∀ p ∈ rest, (specs.lookup (keyOf p.1 "amplitude")).isSome ∧ (specs.lookup (keyOf p.1 "offset")).isSome) →
      fs.foldlM (chanStep specs sr) ((⟨acc, none⟩ : Element), s0) =
        .ok ((⟨acc ++ rest.map (fun p => (p.1, reSR (some sr) p.2)), none⟩ : Element), carryAll specs s0 (rest.map (·.1))) := by
  intro rest
  induction rest with
  | nil =>
    intro fs acc s0 hfs _ _ _
    simp only [List.mapM_nil, pure, Except.pure, Except.ok.injEq] at hfs
    subst hfs
    simp [List.foldlM, pure, Except.pure, carryAll]
  | cons p ps ih =>
    intro fs acc s0 hfs hnd hok hsp
    rw [mapM_cons_eq] at hfs
    cases hp : chanField p with
    | error er => rw [hp] at hfs; cases hfs
    | ok kd =>
      rw [hp] at hfs
      cases hps : ps.mapM chanField with
      | error er => rw [hps] at hfs; cases hfs
      | ok fs' =>
        rw [hps] at hfs
        simp only [Except.ok.injEq] at hfs
        subst hfs
        have hnew : p.1 ∉ Dict.keys acc := by
          intro hm
          simp only [Dict.keys, List.map_append, List.map_cons] at hnd hm
          have := List.nodup_append.mp hnd
          exact this.2.2 _ hm _ (by simp) rfl
        have hcok := hok p (by simp)
        have hstep := chanOfDesc_step_sr ⟨acc, none⟩ p hcok hnew kd hp (some sr)
        obtain ⟨nch, hint⟩ := hcok.1
        have hparse : parseChan kd.1 = .ok p.1 := by
          rw [chanField_key p kd hp, hint]; exact parseChan_int nch
        obtain ⟨ha, ho⟩ := hsp p (by simp)
        obtain ⟨a, ha⟩ := Option.isSome_iff_exists.mp ha
        obtain ⟨o, ho⟩ := Option.isSome_iff_exists.mp ho
        have hone : chanStep specs sr ((⟨acc, none⟩ : Element), s0) kd =
            .ok ((⟨acc ++ [(p.1, reSR (some sr) p.2)], none⟩ : Element),
                 (s0.setChannelAmplitude p.1 (J.toVal a)).setChannelOffset p.1 (J.toVal o)) := by
          simp only [chanStep, hstep, hparse, ha, ho]
        simp only [List.foldlM_cons, bind, Except.bind, hone]
        have := ih fs' (acc ++ [(p.1, reSR (some sr) p.2)]) ((s0.setChannelAmplitude p.1 (J.toVal a)).setChannelOffset p.1 (J.toVal o)) hps
          (by
            simp only [Dict.keys, List.map_append, List.map_cons, List.map_nil, List.append_assoc, List.cons_append,
              List.nil_append] at hnd ⊢
            exact hnd)
          (fun q hq => hok q (by simp [hq])) (fun q hq => hsp q (by simp [hq]))
        rw [this]
        simp [carryAll, ha, ho]

theorem carryAll_data (specs : List (String × J)) (s : Sequence) (chs : List Chan) :
    (carryAll specs s chs).data = s.data ∧ (carryAll specs s chs).sequencing = s.sequencing ∧ (carryAll specs s chs).name = s.name := by
  induction chs generalizing s with
  | nil => exact ⟨rfl, rfl, rfl⟩
  | cons c cs ih =>
    simp only [carryAll, List.foldl_cons]
    exact ih _

theorem toString_toInt (n : Int) : (toString n).toInt? = some n := by
  have : (toString n : String) = n.repr := rfl
  rw [this, Int.toInt?_repr]

theorem seqSetOfJ_back (q : SeqSet) (l : List (String × J)) (h : seqSetJ q = .obj l) : seqSetOfJ l = .ok q := by
  have := seqset_roundtrip q
  simp only [h] at this
  simp only [Prod.mk.injEq] at this
  obtain ⟨h1, h2, h3, h4, h5⟩ := this
  simp only [seqSetOfJ, h1, h2, h3, h4, h5]

/-- one position read back -/
theorem posStep_el (s : Sequence) (specs : List (String × J)) (sr : Val) (s0 : Sequence)
    (pos : Int) (chans : Dict Chan ChEntry) (cache : Option (Val × Rat)) (kd : String × J) (q : SeqSet) (m : Val × Rat)
    (hfield : posField s (pos, .el ⟨chans, cache⟩) = .ok kd)
    (hnd : (Dict.keys chans).Nodup) (hok : ∀ p ∈ chans, ChanOk p)
    (hsr : ∀ p ∈ chans, reSR (some sr) p.2 = p.2)
    (hsp : ∀ p ∈ chans, (specs.lookup (keyOf p.1 "amplitude")).isSome ∧ (specs.lookup (keyOf p.1 "offset")).isSome)
    (hval : Element.validate ⟨chans, none⟩ = .ok m)
    (hq : Dict.get? s.sequencing pos = some q) :
    posStep specs sr s0 kd =
      .ok { carryAll specs s0 (chans.map (·.1)) with
            data := Dict.upsert (carryAll specs s0 (chans.map (·.1))).data pos (.el ⟨chans, some m⟩)
            sequencing := Dict.upsert (Dict.upsert (carryAll specs s0 (chans.map (·.1))).sequencing pos defaultSeqEl) pos q } := by
  unfold posField at hfield
  simp only [Element.toDesc] at hfield
  cases hfs : chans.mapM chanField with
  | error er => rw [hfs] at hfield; cases hfield
  | ok fields =>
    rw [hfs] at hfield
    simp only [Except.ok.injEq] at hfield
    subst hfield
    have hfold := chan_fold specs sr chans fields [] s0 hfs (by simpa using hnd) hok hsp
    have hmap : chans.map (fun p => (p.1, reSR (some sr) p.2)) = chans := by
      conv => rhs; rw [← List.map_id chans]
      apply List.map_congr_left
      intro p hp
      rw [hsr p hp]; rfl
    rw [List.nil_append, hmap] at hfold
    obtain ⟨ql, hql⟩ : ∃ ql, seqSetJ q = .obj ql := ⟨_, rfl⟩
    have hseqn : seqnJ s pos = .obj ql := by
      unfold seqnJ; rw [hq]; exact hql
    have hne : ("sequencing" == "channels") = false := by decide
    simp only [posStep, J.get?, List.lookup, beq_self_eq_true, hfold, toString_toInt,
      Sequence.addElement, hval, hseqn, hne, seqSetOfJ_back q ql hql]

/-- `A` holds nothing `B` does not hold -/
def SubMap (A B : Dict String Spec) : Prop := ∀ k v, Dict.get? A k = some v → Dict.get? B k = some v

theorem SubMap.upsert {A B : Dict String Spec} (h : SubMap A B) (k : String) (v : Spec) (hv : Dict.get? B k = some v) :
    SubMap (Dict.upsert A k v) B := by
  intro k' v' hk'
  by_cases he : k' = k
  · subst he
    rw [Dict.get?_upsert_self] at hk'
    cases hk'; exact hv
  · rw [Dict.get?_upsert_other _ _ _ _ he] at hk'
    exact h k' v' hk'

/-- the description's settings are the sequence's, key by key -/
theorem lookup_awgspecsJ (B : Dict String Spec) (k : String) :
    (B.map (fun kv => (kv.1, specJ kv.2))).lookup k = (Dict.get? B k).map specJ := by
  induction B with
  | nil => rfl
  | cons p ps ih =>
    obtain ⟨k', v⟩ := p
    simp only [List.map_cons, List.lookup, Dict.get?, List.find?_cons]
    by_cases he : k' = k
    · subst he; simp
    · have h1 : (k == k') = false := by simpa using fun e => he e.symm
      have h2 : decide (k' = k) = false := by simpa using he
      simp only [h1, h2]
      simpa [Dict.get?] using ih

theorem awgspecsJ_fields (B : Dict String Spec) : awgspecsJ B = .obj (B.map (fun kv => (kv.1, specJ kv.2))) := by
  unfold awgspecsJ
  congr 1

/-- carrying amplitude and offset over keeps the settings inside the original's -/
theorem carryAll_sub (B : Dict String Spec) (s0 : Sequence) (chs : List Chan) (hsub : SubMap s0.awgspecs B)
    (hch : ∀ ch ∈ chs, (∃ a, Dict.get? B (keyOf ch "amplitude") = some (.val a)) ∧ ∃ o, Dict.get? B (keyOf ch "offset") = some (.val o)) :
    SubMap (carryAll (B.map (fun kv => (kv.1, specJ kv.2))) s0 chs).awgspecs B := by
  induction chs generalizing s0 with
  | nil => exact hsub
  | cons c cs ih =>
    simp only [carryAll, List.foldl_cons]
    apply ih
    · obtain ⟨⟨a, ha⟩, ⟨o, ho⟩⟩ := hch c (by simp)
      have h1 : List.lookup (keyOf c "amplitude") (B.map (fun kv => (kv.1, specJ kv.2))) = some (J.ofVal a) := by
        rw [lookup_awgspecsJ, ha]; rfl
      have h2 : List.lookup (keyOf c "offset") (B.map (fun kv => (kv.1, specJ kv.2))) = some (J.ofVal o) := by
        rw [lookup_awgspecsJ, ho]; rfl
      simp only [h1, h2, Option.getD_some, val_roundtrip,
        SeqCore.setChannelOffset, SeqCore.setChannelAmplitude, SeqCore.setSpec]
      exact (hsub.upsert _ _ ha).upsert _ _ ho
    · exact fun ch hc => hch ch (by simp [hc])

/-- what a sequence must be like for `sequence_from_description` to rebuild it: every position
    holds an element as `addElement` stored it (validated, cache filled) whose channels are
    integer-numbered blueprint channels at the sequence's sample rate with amplitude and offset
    set; sequencing entries in position order; a sample rate -/
structure SeqOk (s : Sequence) (sr : Val) : Prop where
  posNodup : (Dict.keys s.data).Nodup
  seqKeys : Dict.keys s.sequencing = Dict.keys s.data
  specsNodup : (Dict.keys s.awgspecs).Nodup
  srSet : Dict.get? s.awgspecs "SR" = some (.val sr)
  noName : s.name = ""
  entries : ∀ pe ∈ s.data, ∃ (chans : Dict Chan ChEntry) (m : Val × Rat),
    pe.2 = .el ⟨chans, some m⟩ ∧ Element.validate ⟨chans, none⟩ = .ok m ∧ (Dict.keys chans).Nodup ∧
    ∀ p ∈ chans, ChanOk p ∧ reSR (some sr) p.2 = p.2 ∧
      (∃ a, Dict.get? s.awgspecs (keyOf p.1 "amplitude") = some (.val a)) ∧
      (∃ o, Dict.get? s.awgspecs (keyOf p.1 "offset") = some (.val o))

theorem get?_of_keys_eq {α β : Type} (d1 : Dict Int α) (d2 : Dict Int β) (h : Dict.keys d1 = Dict.keys d2) (k : Int)
    (hk : k ∈ Dict.keys d2) : ∃ v, Dict.get? d1 k = some v := by
  have : k ∈ Dict.keys d1 := by rw [h]; exact hk
  exact Option.isSome_iff_exists.mp ((Dict.get?_isSome_iff d1 k).mpr this)

/-- the positions, read back one after the other -/
theorem pos_fold (s : Sequence) (sr : Val) (hs : SeqOk s sr) :
    ∀ (rest : Dict Int Entry) (pre : Dict Int Entry) (fs : List (String × J)) (s0 : Sequence),
      s.data = pre ++ rest → rest.mapM (posField s) = .ok fs →
      s0.data = pre → Dict.keys s0.sequencing = Dict.keys pre → SubMap s0.awgspecs s.awgspecs →
      ∃ sf, fs.foldlM (posStep (s.awgspecs.map (fun kv => (kv.1, specJ kv.2))) sr) s0 = .ok sf ∧
        sf.data = s.data ∧ Dict.keys sf.sequencing = Dict.keys s.data ∧
        (∀ pe ∈ rest, Dict.get? sf.sequencing pe.1 = Dict.get? s.sequencing pe.1) ∧
        (∀ k, k ∈ Dict.keys pre → Dict.get? sf.sequencing k = Dict.get? s0.sequencing k) ∧
        SubMap sf.awgspecs s.awgspecs ∧ sf.name = s0.name := by
  intro rest
  induction rest with
  | nil =>
    intro pre fs s0 hdata hfs hd hq hsub
    simp only [List.mapM_nil, pure, Except.pure, Except.ok.injEq] at hfs
    subst hfs
    refine ⟨s0, rfl, by rw [hd, hdata, List.append_nil], by rw [hq, hdata, List.append_nil], by simp, fun _ _ => rfl, hsub, rfl⟩
  | cons pe ps ih =>
    intro pre fs s0 hdata hfs hd hq hsub
    rw [mapM_cons_eq] at hfs
    cases hp : posField s pe with
    | error er => rw [hp] at hfs; cases hfs
    | ok kd =>
      rw [hp] at hfs
      cases hps : ps.mapM (posField s) with
      | error er => rw [hps] at hfs; cases hfs
      | ok fs' =>
        rw [hps] at hfs
        simp only [Except.ok.injEq] at hfs
        subst hfs
        obtain ⟨pos, ent⟩ := pe
        have hmem : (pos, ent) ∈ s.data := by rw [hdata]; simp
        obtain ⟨chans, m, hent, hval, hnd, hch⟩ := hs.entries (pos, ent) hmem
        simp only at hent
        subst hent
        -- the sequencing entry of this position
        obtain ⟨q, hq'⟩ := get?_of_keys_eq s.sequencing s.data hs.seqKeys pos (by
          simp only [Dict.keys, hdata, List.map_append, List.map_cons, List.mem_append, List.mem_cons]; right; left; trivial)
        have hstep := posStep_el s (s.awgspecs.map (fun kv => (kv.1, specJ kv.2))) sr s0 pos chans (some m) kd q m hp hnd
          (fun p hp => (hch p hp).1) (fun p hp => (hch p hp).2.1)
          (fun p hp => by
            obtain ⟨_, _, ⟨a, ha⟩, ⟨o, ho⟩⟩ := hch p hp
            simp [lookup_awgspecsJ, ha, ho])
          hval hq'
        -- pos is new for the accumulator
        have hnodup := hs.posNodup
        rw [hdata] at hnodup
        simp only [Dict.keys, List.map_append, List.map_cons] at hnodup
        have hnew : pos ∉ Dict.keys pre := by
          intro hm
          exact (List.nodup_append.mp hnodup).2.2 _ hm _ (by simp) rfl
        obtain ⟨hcd, hcq, hcn⟩ := carryAll_data (s.awgspecs.map (fun kv => (kv.1, specJ kv.2))) s0 (chans.map (·.1))
        let s1 : Sequence :=
          { carryAll (s.awgspecs.map (fun kv => (kv.1, specJ kv.2))) s0 (chans.map (·.1)) with
            data := Dict.upsert (carryAll (s.awgspecs.map (fun kv => (kv.1, specJ kv.2))) s0 (chans.map (·.1))).data pos (.el ⟨chans, some m⟩)
            sequencing := Dict.upsert (Dict.upsert (carryAll (s.awgspecs.map (fun kv => (kv.1, specJ kv.2))) s0 (chans.map (·.1))).sequencing pos defaultSeqEl) pos q }
        have hs1d : s1.data = pre ++ [(pos, .el ⟨chans, some m⟩)] := by
          show Dict.upsert _ pos _ = _
          rw [hcd, hd, upsert_of_not_mem _ _ _ hnew]
        have hnewq : pos ∉ Dict.keys s0.sequencing := by rw [hq]; exact hnew
        have hs1q : s1.sequencing = s0.sequencing ++ [(pos, q)] := by
          show Dict.upsert (Dict.upsert _ pos _) pos _ = _
          rw [hcq, upsert_of_not_mem _ _ _ hnewq, upsert_append_self _ _ _ _ hnewq]
        have hs1sub : SubMap s1.awgspecs s.awgspecs :=
          carryAll_sub s.awgspecs s0 (chans.map (·.1)) hsub (by
            intro ch hc
            obtain ⟨p, hpm, rfl⟩ := List.mem_map.mp hc
            exact ⟨(hch p hpm).2.2.1, (hch p hpm).2.2.2⟩)
        obtain ⟨sf, hsf, hsfd, hsfk, hsfq, hsfpre, hsfsub, hsfn⟩ := ih (pre ++ [(pos, .el ⟨chans, some m⟩)]) fs' s1
          (by rw [hdata]; simp) hps hs1d
          (by rw [hs1q]; simp only [Dict.keys, List.map_append, List.map_cons, List.map_nil]; rw [show s0.sequencing.map (·.1) = pre.map (·.1) from hq])
          hs1sub
        refine ⟨sf, ?_, hsfd, hsfk, ?_, ?_, hsfsub, ?_⟩
        · simp only [List.foldlM_cons, bind, Except.bind, hstep]
          exact hsf
        · intro pe' hpe'
          simp only [List.mem_cons] at hpe'
          rcases hpe' with h | h
          · subst h
            simp only
            rw [hsfpre pos (by simp [Dict.keys]), hs1q, get?_append_self _ _ _ hnewq, hq']
          · exact hsfq pe' h
        · intro k hk
          rw [hsfpre k (by simp only [Dict.keys, List.map_append, List.mem_append]; left; exact hk), hs1q]
          have hne : k ≠ pos := fun e => hnew (e ▸ hk)
          rw [← upsert_of_not_mem _ _ _ hnewq, Dict.get?_upsert_other _ _ _ _ hne]
        · rw [hsfn]; exact hcn

theorem has_eq_isSome {α : Type} (d : Dict String α) (k : String) : Dict.has d k = (Dict.get? d k).isSome := by
  induction d with
  | nil => rfl
  | cons p ps ih =>
    simp only [Dict.has, List.any_cons, Dict.get?, List.find?_cons] at ih ⊢
    by_cases he : p.1 = k
    · simp [he]
    · simp only [he, decide_false, Bool.false_or]
      exact ih

/-- `setdefault` of every remaining setting -/
theorem restSpecs_sub (B : Dict String Spec) :
    ∀ (l : Dict String Spec) (A0 : Sequence), (∀ kv ∈ l, Dict.get? B kv.1 = some kv.2) → SubMap A0.awgspecs B →
      SubMap (restSpecs A0 (l.map (fun kv => (kv.1, specJ kv.2)))).awgspecs B ∧
      (∀ kv ∈ l, (Dict.get? (restSpecs A0 (l.map (fun kv => (kv.1, specJ kv.2)))).awgspecs kv.1).isSome = true) ∧
      (∀ k, (Dict.get? A0.awgspecs k).isSome = true → (Dict.get? (restSpecs A0 (l.map (fun kv => (kv.1, specJ kv.2)))).awgspecs k).isSome = true) ∧
      (restSpecs A0 (l.map (fun kv => (kv.1, specJ kv.2)))).data = A0.data ∧
      (restSpecs A0 (l.map (fun kv => (kv.1, specJ kv.2)))).sequencing = A0.sequencing ∧
      (restSpecs A0 (l.map (fun kv => (kv.1, specJ kv.2)))).name = A0.name := by
  intro l
  induction l with
  | nil => intro A0 _ hsub; exact ⟨hsub, by simp, fun _ h => h, rfl, rfl, rfl⟩
  | cons p ps ih =>
    intro A0 hl hsub
    obtain ⟨k, v⟩ := p
    simp only [restSpecs, List.map_cons, List.foldl_cons]
    have hB := hl (k, v) (by simp)
    simp only at hB
    by_cases hhas : Dict.has A0.awgspecs k = true
    · simp only [hhas, if_true]
      obtain ⟨h1, h2, h3, h4, h5, h6⟩ := ih A0 (fun kv hkv => hl kv (by simp [hkv])) hsub
      refine ⟨h1, ?_, h3, h4, h5, h6⟩
      intro kv hkv
      simp only [List.mem_cons] at hkv
      rcases hkv with h | h
      · subst h
        apply h3
        rw [← has_eq_isSome]; exact hhas
      · exact h2 kv h
    · simp only [hhas, Bool.false_eq_true, if_false]
      have hsub' : SubMap (A0.setSpec k (specOfJ (specJ v))).awgspecs B := by
        rw [spec_roundtrip]
        exact hsub.upsert k v hB
      obtain ⟨h1, h2, h3, h4, h5, h6⟩ := ih (A0.setSpec k (specOfJ (specJ v))) (fun kv hkv => hl kv (by simp [hkv])) hsub'
      refine ⟨h1, ?_, ?_, h4, h5, h6⟩
      · intro kv hkv
        simp only [List.mem_cons] at hkv
        rcases hkv with h | h
        · subst h
          apply h3
          simp [SeqCore.setSpec, Dict.get?_upsert_self]
        · exact h2 kv h
      · intro k' hk'
        apply h3
        by_cases he : k' = k
        · subst he; simp [SeqCore.setSpec, Dict.get?_upsert_self]
        · simp only [SeqCore.setSpec]
          rw [Dict.get?_upsert_other _ _ _ _ he]
          exact hk'

theorem toString_ne_awgspecs (n : Int) : toString n ≠ "awgspecs" := by
  intro h
  have h1 := toString_toInt n
  rw [h] at h1
  rw [String.toInt?_eq_some_iff] at h1
  rcases h1 with ⟨b, hb, _⟩ | ⟨t, ht, _⟩
  · have hn := String.isNat_of_toNat?_eq_some hb
    rw [String.isNat_iff] at hn
    have := hn.2.1 'a' (by decide)
    revert this; decide
  · have := congrArg (fun s => s.toList.head?) ht
    simp only [String.toList_append] at this
    have h2 : ("-".toList ++ t.toList).head? = some '-' := by
      have : "-".toList = ['-'] := by decide
      rw [this]; rfl
    rw [h2] at this
    revert this; decide

theorem posField_key (s : Sequence) (pe : Int × Entry) (kd : String × J) (h : posField s pe = .ok kd) : kd.1 = toString pe.1 := by
  unfold posField at h
  split at h
  · cases h
  · simp only [Except.ok.injEq] at h
    rw [← h]

theorem lookup_fields_awgspecs (s : Sequence) :
    ∀ (l : Dict Int Entry) (fs : List (String × J)) (x : J), l.mapM (posField s) = .ok fs →
      (fs ++ [("awgspecs", x)]).lookup "awgspecs" = some x := by
  intro l
  induction l with
  | nil =>
    intro fs x h
    simp only [List.mapM_nil, pure, Except.pure, Except.ok.injEq] at h
    subst h
    simp [List.lookup]
  | cons pe ps ih =>
    intro fs x h
    rw [mapM_cons_eq] at h
    cases hp : posField s pe with
    | error er => rw [hp] at h; cases h
    | ok kd =>
      rw [hp] at h
      cases hps : ps.mapM (posField s) with
      | error er => rw [hps] at h; cases h
      | ok fs' =>
        rw [hps] at h
        simp only [Except.ok.injEq] at h
        subst h
        have hk := posField_key s pe kd hp
        have hne : ("awgspecs" == kd.1) = false := by
          rw [hk]
          simpa using fun e => toString_ne_awgspecs pe.1 e.symm
        obtain ⟨k, v⟩ := kd
        simp only [List.cons_append, List.lookup]
        simp only at hne
        rw [hne]
        exact ih fs' x hps

/-- **the round trip of a sequence**: a sequence as the public API builds it over the built-in
    shapes (`SeqOk`: elements stored by `addElement`, integer channels at the sequence's sample
    rate with amplitude and offset set, sequencing in position order, a sample rate) is rebuilt by
    `sequence_from_description` from its own description with the same elements at the same
    positions — every blueprint, flag and cached validation —, the same sequencing entry for
    every position and the same AWG settings key by key (sample rate, amplitudes, offsets, channel
    delays, filter compensations; only their order may differ) -/
theorem roundtrip_seq (s : Sequence) (sr : Val) (hs : SeqOk s sr) (d : J) (hd : s.toDesc = .ok d) :
    ∃ s', Sequence.ofDesc d = .ok s' ∧ s'.data = s.data ∧ Dict.keys s'.sequencing = Dict.keys s.sequencing ∧
      (∀ pe ∈ s.data, Dict.get? s'.sequencing pe.1 = Dict.get? s.sequencing pe.1) ∧
      (∀ k, Dict.get? s'.awgspecs k = Dict.get? s.awgspecs k) ∧ s'.name = s.name := by
  unfold Sequence.toDesc at hd
  split at hd
  · cases hd
  · rename_i fields hfields
    simp only [Except.ok.injEq] at hd
    subst hd
    have hget : (J.obj (fields ++ [("awgspecs", awgspecsJ s.awgspecs)])).get? "awgspecs" = some (awgspecsJ s.awgspecs) := by
      simp only [J.get?]
      exact lookup_fields_awgspecs s s.data fields _ hfields
    have hsrl : (s.awgspecs.map (fun kv => (kv.1, specJ kv.2))).lookup "SR" = some (J.ofVal sr) := by
      rw [lookup_awgspecsJ, hs.srSet]; rfl
    obtain ⟨sf, hsf, hsfd, hsfk, hsfq, _, hsfsub, hsfn⟩ :=
      pos_fold s sr hs s.data [] fields {} (by simp) hfields rfl rfl (fun k v h => by simp [Dict.get?] at h)
    have hwf : ∀ kv ∈ s.awgspecs, Dict.get? s.awgspecs kv.1 = some kv.2 :=
      fun kv hkv => Dict.get?_eq_some_of_mem hs.specsNodup kv.1 kv.2 hkv
    obtain ⟨r1, r2, r3, r4, r5, r6⟩ := restSpecs_sub s.awgspecs s.awgspecs sf hwf hsfsub
    refine ⟨(restSpecs sf (s.awgspecs.map (fun kv => (kv.1, specJ kv.2)))).setSR sr, ?_, ?_, ?_, ?_, ?_, ?_⟩
    · rw [awgspecsJ_fields] at hget
      rw [awgspecsJ_fields]
      simp only [Sequence.ofDesc, hget, hsrl, List.dropLast_concat, val_roundtrip, hsf]
    · show (restSpecs sf _).data = s.data
      rw [r4, hsfd]
    · show Dict.keys (restSpecs sf _).sequencing = _
      rw [r5, hsfk, hs.seqKeys]
    · intro pe hpe
      show Dict.get? (restSpecs sf _).sequencing pe.1 = _
      rw [r5]; exact hsfq pe hpe
    · intro k
      show Dict.get? (Dict.upsert (restSpecs sf _).awgspecs "SR" (.val sr)) k = _
      -- the settings after `setdefault` are the original's, key by key
      have hall : ∀ k, Dict.get? (restSpecs sf (s.awgspecs.map (fun kv => (kv.1, specJ kv.2)))).awgspecs k = Dict.get? s.awgspecs k := by
        intro k
        cases hB : Dict.get? s.awgspecs k with
        | some v =>
          have hmem := Dict.mem_of_get?_eq_some k v hB
          have := r2 (k, v) hmem
          obtain ⟨v', hv'⟩ := Option.isSome_iff_exists.mp this
          simp only at hv'
          rw [hv', ← hB]
          exact (r1 k v' hv').symm
        | none =>
          cases hA : Dict.get? (restSpecs sf (s.awgspecs.map (fun kv => (kv.1, specJ kv.2)))).awgspecs k with
          | none => rfl
          | some v' => rw [r1 k v' hA] at hB; cases hB
      by_cases he : k = "SR"
      · subst he
        rw [Dict.get?_upsert_self, hs.srSet]
      · rw [Dict.get?_upsert_other _ _ _ _ he]
        exact hall k
    · show (restSpecs sf _).name = s.name
      rw [r6, hsfn, hs.noName]

/-! non-vacuity: a two-position sequence with flags, a channel delay and a filter compensation
    meets `SeqOk` -/

def exM : Val × Rat := (.num 10, 3)

theorem exValidate : Element.validate ⟨exChans, none⟩ = .ok exM := by
  have h : (Element.validate ⟨exChans, none⟩).toOption = some exM := by decide +kernel
  cases hv : Element.validate ⟨exChans, none⟩ with
  | error e => rw [hv] at h; cases h
  | ok m => rw [hv] at h; simp only [Except.toOption, Option.some.injEq] at h; rw [h]

def exSeq : Sequence :=
  { data := [(1, .el ⟨exChans, some exM⟩), (2, .el ⟨exChans, some exM⟩)],
    sequencing := [(1, ⟨0, 1, 0, 0, 0⟩), (2, ⟨1, 5, 0, 1, 1⟩)],
    awgspecs := [("SR", .val (.num 10)), ("channel1_amplitude", .val (.num 2)), ("channel1_offset", .val (.num 0)),
                 ("channel2_amplitude", .val (.num 1)), ("channel2_offset", .val (.num 0)),
                 ("channel1_delay", .val (.num 0)), ("channel2_filtercompensation", .filt ⟨"HP", 1, .num 1, .none⟩)] }

example : SeqOk exSeq (.num 10) := by
  refine ⟨by decide, by decide, by decide, by decide, rfl, ?_⟩
  intro pe hpe
  refine ⟨exChans, exM, ?_, exValidate, by decide, ?_⟩
  · simp only [exSeq, List.mem_cons, List.not_mem_nil, or_false] at hpe
    rcases hpe with rfl | rfl <;> rfl
  · intro p hp
    refine ⟨exChans_ok p hp, ?_, ?_, ?_⟩
    · simp only [exChans, List.mem_cons, List.not_mem_nil, or_false] at hp
      rcases hp with rfl | rfl <;> decide
    · simp only [exChans, List.mem_cons, List.not_mem_nil, or_false] at hp
      rcases hp with rfl | rfl
      · exact ⟨.num 2, by decide⟩
      · exact ⟨.num 1, by decide⟩
    · simp only [exChans, List.mem_cons, List.not_mem_nil, or_false] at hp
      rcases hp with rfl | rfl <;> exact ⟨.num 0, by decide⟩

end sequence

/-! ### non-vacuity -/

example : makeNamesUnique (["pi2pulse", "pi2pulse2", "a1b", "ramp"].map basename) =
    ["pi2pulse", "pi2pulse2", "a1b", "ramp"] := by decide +kernel

end BB.C19
