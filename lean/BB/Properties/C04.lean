/-
  Property C04 — a waituntil(t) segment pads with zeros so that the next segment starts at time t.
-/
import BB.Proofs.Forge

namespace BB.C04
open BB

/-- A waituntil segment is forged by `PulseAtoms.waituntil`, whose samples are all zero
    (`Gen.waituntil` is regenerated from the source). -/
theorem wait_block_zero (args : List Val) (sr : Rat) (n : Nat) :
    forgeFn Fn.waitSpecial = Fn.waitCallable ∧
    Blk.eval? (.call Fn.waitCallable args sr n) = some (List.replicate n 0) := by
  refine ⟨by decide, ?_⟩
  have : Fn.waitCallable.shape = .zeros := rfl
  simp only [Blk.eval?, this, Gen.waituntil]
  congr 1
  apply List.ext_getElem <;> simp

/-- The wait ends exactly at absolute time `t`: the resolved durations of everything up to and
    including the waituntil segment add up to `t` (whatever the preceding durations are, and
    however many earlier waituntils there are). -/
theorem wait_ends_at_t (pre : List Seg) (w : Seg) (post : List Seg) (t : Rat) (tl : List Val) (ds : List Rat)
    (hw : w.fn.isWait = true) (ha : w.args = .num t :: tl)
    (b : BP) (hb : b.segs = pre ++ w :: post) (h : b.resolveWaits = .ok ds) :
    sumR (ds.take (pre.length + 1)) = t := by
  unfold BP.resolveWaits at h
  rw [hb] at h
  have := resolveGo_wait_sum pre w post 0 t ds tl hw ha h
  simpa using this

/-- The segment following the wait starts at sample `round(t·SR)`: if the preceding resolved
    durations are whole numbers of samples and `t·SR` is within 0.4 of the integer `T`, the sample
    counts of segments `0..k` (k = the waituntil) add up to `T = round(t·SR)`. -/
theorem next_segment_start (sr t : Rat) (ds : List Rat) (k : Nat) (hk : k < ds.length) (T : Int)
    (hsum : sumR (ds.take (k + 1)) = t)
    (hal : ∀ d ∈ ds.take k, ∃ m : Nat, d * sr = m)
    (ht : |t * sr - T| ≤ 2/5)
    (hpad : 0 ≤ rhe (ds[k] * sr)) :
    ((sumN ((ds.take (k + 1)).map (fun d => (rhe (d * sr)).toNat)) : Nat) : Int) = T ∧ rhe (t * sr) = T := by
  refine ⟨?_, rhe_near _ T ht⟩
  have htake : ds.take (k + 1) = ds.take k ++ [ds[k]] := by
    rw [List.take_succ_eq_append_getElem hk]
  have hS : sumR (ds.take k) + ds[k] = t := by
    rw [htake, sumR_append] at hsum
    simpa [sumR] using hsum
  have hM := aligned_counts sr (ds.take k) hal
  set M := sumN ((ds.take k).map (fun d => (rhe (d * sr)).toNat)) with hMdef
  have hwait : ds[k] * sr = t * sr - (M : ℚ) := by
    have : ds[k] = t - sumR (ds.take k) := by linarith
    rw [this, sub_mul, hM]
  have hcnt : rhe (ds[k] * sr) = T - (M : ℤ) := by
    rw [hwait]
    have := rhe_near_add (t * sr) T (-(M : ℤ)) ht
    have e : t * sr - (M : ℚ) = t * sr + ((-(M : ℤ) : ℤ) : ℚ) := by push_cast; ring
    rw [e, this]; ring
  rw [htake, List.map_append, sumN_append]
  simp only [List.map_cons, List.map_nil, sumN, Nat.add_zero]
  rw [hcnt] at hpad ⊢
  push_cast
  rw [Int.toNat_of_nonneg hpad]
  rw [← hMdef]
  ring

/-- The start sample of segment `k+1` in the forged waveform is that sum (`starts`). -/
theorem start_is_sum (ns : List Nat) (k : Nat) (h : k + 1 < (starts ns 0).length) :
    (starts ns 0)[k + 1] = sumN (ns.take (k + 1)) := by
  rw [starts_getElem]; simp

/-- The blueprint's reported duration and point count include the filled time: they are the sum
    of the resolved durations (`t` for a blueprint ending in the waituntil). -/
theorem duration_includes_fill (b : BP) (ds : List Rat) (h : b.resolveWaits = .ok ds) :
    b.duration = .ok (sumR ds) ∧ (∀ sr, b.SR = .num sr → b.points = .ok (rhe (sumR ds * sr))) := by
  refine ⟨by simp [BP.duration, h, Except.map], ?_⟩
  intro sr hsr
  simp [BP.points, hsr, h, Except.map]

theorem duration_ending_in_wait (pre : List Seg) (w : Seg) (t : Rat) (tl : List Val) (ds : List Rat)
    (hw : w.fn.isWait = true) (ha : w.args = .num t :: tl)
    (b : BP) (hb : b.segs = pre ++ [w]) (h : b.resolveWaits = .ok ds) : b.duration = .ok t := by
  have hlen := resolveGo_length _ _ _ (show BP.resolveGo b.segs 0 = .ok ds from h)
  have hs := wait_ends_at_t pre w [] t tl ds hw ha b hb h
  have : ds.take (pre.length + 1) = ds := by
    apply List.take_of_length_le
    rw [hlen, hb]; simp
  rw [this] at hs
  rw [(duration_includes_fill b ds h).1, hs]

/-- If the preceding segments already extend beyond `t`, forging and the duration / points
    queries all raise (ValueError) — no shortened or overlapping waveform is produced. -/
theorem overrun_raises (b : BP) (pre : List Seg) (w : Seg) (post : List Seg) (t : Rat) (tl : List Val)
    (hb : b.segs = pre ++ w :: post)
    (hw : w.fn.isWait = true) (ha : w.args = .num t :: tl)
    (hpre : ∀ s ∈ pre, s.fn.isWait = false ∧ ∃ d, s.dur = .num d)
    (hover : t < sumR (pre.filterMap durOf?)) :
    b.duration = .error .value ∧
    (∀ sr, b.SR = .num sr → b.points = .error .value ∧ forgeBP b = .error .value) := by
  have hr : b.resolveWaits = .error .value := by
    unfold BP.resolveWaits
    rw [hb]
    exact resolveGo_overrun pre w post 0 t tl hw ha hpre (by simpa using hover)
  refine ⟨by simp [BP.duration, hr, Except.map], ?_⟩
  intro sr hsr
  exact ⟨by simp [BP.points, hsr, hr, Except.map], by simp [forgeBP, hsr, hr]⟩

/-! ### non-vacuity -/

def exampleBP : BP :=
  { segs := [ { name := "ramp", fn := Fn.rampFn, args := [.num 0, .num 1], dur := .num 2 },
              { name := "waituntil", fn := Fn.waitSpecial, args := [.num (51/10)], dur := .none },
              { name := "ramp2", fn := Fn.rampFn, args := [.num 1, .num 0], dur := .num 1 } ],
    SR := .num 10 }

example : exampleBP.resolveWaits = .ok [2, 31/10, 1] := by decide +kernel
example : (forgeBP exampleBP).toOption.map (fun f => f.blocks.map Blk.len) = some [20, 31, 10] := by
  decide +kernel
example : (forgeBP { exampleBP with segs := exampleBP.segs.map (fun s => if s.name = "ramp" then { s with dur := .num 6 } else s) })
    = .error .value := by decide +kernel

end BB.C04
