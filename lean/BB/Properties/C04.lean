/-
  Property C04 — a waituntil(t) segment pads with zeros so that the next segment starts at time t.
-/
import BB.Proofs.Forge
import BB.Proofs.G1Flat
import BB.Proofs.G1Wait

namespace BB.C04
open BB

/-- A waituntil segment is forged by `PulseAtoms.waituntil`, whose samples are all zero
    (`Gen.waituntil` is regenerated from the source). -/
theorem wait_block_zero (args : List Val) (sr : Rat) (n : Nat) :
    forgeFn Fn.waitSpecial = Fn.waitCallable ∧
    Blk.eval? (.call Fn.waitCallable args sr n) = some (List.replicate n 0) := by
  refine ⟨by decide, ?_⟩
  have : Fn.waitCallable.shape = .zeros := rfl
  simp only [Blk.eval?, this, Gen.waituntil]
  congr 1
  apply List.ext_getElem <;> simp

/-- The wait ends exactly at absolute time `t`: the resolved durations of everything up to and
    including the waituntil segment add up to `t` (whatever the preceding durations are, and
    however many earlier waituntils there are). -/
theorem wait_ends_at_t (pre : List Seg) (w : Seg) (post : List Seg) (t : Rat) (tl : List Val) (ds : List Rat)
    (hw : w.fn.isWait = true) (ha : w.args = .num t :: tl)
    (b : BP) (hb : b.segs = pre ++ w :: post) (h : b.resolveWaits = .ok ds) :
    sumR (ds.take (pre.length + 1)) = t := by
  unfold BP.resolveWaits at h
  rw [hb] at h
  have := resolveGo_wait_sum pre w post 0 t ds tl hw ha h
  simpa using this

/-- The segment following the wait starts at sample `round(t·SR)`: if the preceding resolved
    durations are whole numbers of samples and `t·SR` is within 0.4 of the integer `T`, the sample
    counts of segments `0..k` (k = the waituntil) add up to `T = round(t·SR)`. -/
theorem next_segment_start (sr t : Rat) (ds : List Rat) (k : Nat) (hk : k < ds.length) (T : Int)
    (hsum : sumR (ds.take (k + 1)) = t)
    (hal : ∀ d ∈ ds.take k, ∃ m : Nat, d * sr = m)
    (ht : |t * sr - T| ≤ 2/5)
    (hpad : 0 ≤ rhe (ds[k] * sr)) :
    ((sumN ((ds.take (k + 1)).map (fun d => (rhe (d * sr)).toNat)) : Nat) : Int) = T ∧ rhe (t * sr) = T := by
  refine ⟨?_, rhe_near _ T ht⟩
  have htake : ds.take (k + 1) = ds.take k ++ [ds[k]] := by
    rw [List.take_succ_eq_append_getElem hk]
  have hS : sumR (ds.take k) + ds[k] = t := by
    rw [htake, sumR_append] at hsum
    simpa [sumR] using hsum
  have hM := aligned_counts sr (ds.take k) hal
  set M := sumN ((ds.take k).map (fun d => (rhe (d * sr)).toNat)) with hMdef
  have hwait : ds[k] * sr = t * sr - (M : ℚ) := by
    have : ds[k] = t - sumR (ds.take k) := by linarith
    rw [this, sub_mul, hM]
  have hcnt : rhe (ds[k] * sr) = T - (M : ℤ) := by
    rw [hwait]
    have := rhe_near_add (t * sr) T (-(M : ℤ)) ht
    have e : t * sr - (M : ℚ) = t * sr + ((-(M : ℤ) : ℤ) : ℚ) := by push_cast; ring
    rw [e, this]; ring
  rw [htake, List.map_append, sumN_append]
  simp only [List.map_cons, List.map_nil, sumN, Nat.add_zero]
  rw [hcnt] at hpad ⊢
  push_cast
  rw [Int.toNat_of_nonneg hpad]
  rw [← hMdef]
  ring

/-- The start sample of segment `k+1` in the forged waveform is that sum (`starts`). -/
theorem start_is_sum (ns : List Nat) (k : Nat) (h : k + 1 < (starts ns 0).length) :
    (starts ns 0)[k + 1] = sumN (ns.take (k + 1)) := by
  rw [starts_getElem]; simp

/-- The blueprint's reported duration and point count include the filled time: they are the sum
    of the resolved durations (`t` for a blueprint ending in the waituntil). -/
theorem duration_includes_fill (b : BP) (ds : List Rat) (h : b.resolveWaits = .ok ds) :
    b.duration = .ok (sumR ds) ∧ (∀ sr, b.SR = .num sr → b.points = .ok (rhe (sumR ds * sr))) := by
  refine ⟨by simp [BP.duration, h, Except.map], ?_⟩
  intro sr hsr
  simp [BP.points, hsr, h, Except.map]

theorem duration_ending_in_wait (pre : List Seg) (w : Seg) (t : Rat) (tl : List Val) (ds : List Rat)
    (hw : w.fn.isWait = true) (ha : w.args = .num t :: tl)
    (b : BP) (hb : b.segs = pre ++ [w]) (h : b.resolveWaits = .ok ds) : b.duration = .ok t := by
  have hlen := resolveGo_length _ _ _ (show BP.resolveGo b.segs 0 = .ok ds from h)
  have hs := wait_ends_at_t pre w [] t tl ds hw ha b hb h
  have : ds.take (pre.length + 1) = ds := by
    apply List.take_of_length_le
    rw [hlen, hb]; simp
  rw [this] at hs
  rw [(duration_includes_fill b ds h).1, hs]

/-- If the preceding segments already extend beyond `t`, forging and the duration / points
    queries all raise (ValueError) — no shortened or overlapping waveform is produced. -/
theorem overrun_raises (b : BP) (pre : List Seg) (w : Seg) (post : List Seg) (t : Rat) (tl : List Val)
    (hb : b.segs = pre ++ w :: post)
    (hw : w.fn.isWait = true) (ha : w.args = .num t :: tl)
    (hpre : ∀ s ∈ pre, s.fn.isWait = false ∧ ∃ d, s.dur = .num d)
    (hover : t < sumR (pre.filterMap durOf?)) :
    b.duration = .error .value ∧
    (∀ sr, b.SR = .num sr → b.points = .error .value ∧ forgeBP b = .error .value) := by
  have hr : b.resolveWaits = .error .value := by
    unfold BP.resolveWaits
    rw [hb]
    exact resolveGo_overrun pre w post 0 t tl hw ha hpre (by simpa using hover)
  refine ⟨by simp [BP.duration, hr, Except.map], ?_⟩
  intro sr hsr
  exact ⟨by simp [BP.points, hsr, hr, Except.map], by simp [forgeBP, hsr, hr]⟩

/-! ### non-vacuity -/

def exampleBP : BP :=
  { segs := [ { name := "ramp", fn := Fn.rampFn, args := [.num 0, .num 1], dur := .num 2 },
              { name := "waituntil", fn := Fn.waitSpecial, args := [.num (51/10)], dur := .none },
              { name := "ramp2", fn := Fn.rampFn, args := [.num 1, .num 0], dur := .num 1 } ],
    SR := .num 10 }

example : exampleBP.resolveWaits = .ok [2, 31/10, 1] := by decide +kernel
example : (forgeBP exampleBP).toOption.map (fun f => f.blocks.map Blk.len) = some [20, 31, 10] := by
  decide +kernel
example : (forgeBP { exampleBP with segs := exampleBP.segs.map (fun s => if s.name = "ramp" then { s with dur := .num 6 } else s) })
    = .error .value := by decide +kernel

/-! ### audit round: every waituntil, general overrun, duration formula, end to end -/

/-- `wait_block_zero` for *every* function the forger treats as a waituntil (`isWait`), not only
    the canonical record `Fn.waitSpecial`: the forger substitutes `PulseAtoms.waituntil`, whose
    samples are all zero, whatever the arguments, sample rate and length. -/
theorem wait_block_zero_all (fn : Fn) (hw : fn.isWait = true) (args : List Val) (sr : Rat) (n : Nat) :
    forgeFn fn = Fn.waitCallable ∧
    Blk.eval? (.call (forgeFn fn) args sr n) = some (List.replicate n 0) := by
  refine ⟨forgeFn_wait fn hw, ?_⟩
  rw [forgeFn_wait fn hw]
  exact Blk.evalZeros _ _ _ _ rfl

example : ({ special := true, name := "waituntil", qual := "anything", params := ["x"], shape := .call } : Fn).isWait = true := by
  decide

/-- **General overrun.**  Whatever precedes the waituntil - ordinary segments and earlier
    waituntils alike - if those segments resolve (to durations `dp`) and already extend beyond `t`,
    then `duration`, `points` and forging all raise ValueError. -/
theorem overrun_raises_general (b : BP) (pre : List Seg) (w : Seg) (post : List Seg) (t : Rat) (tl : List Val)
    (dp : List Rat) (hb : b.segs = pre ++ w :: post)
    (hw : w.fn.isWait = true) (ha : w.args = .num t :: tl)
    (hpre : BP.resolveGo pre 0 = .ok dp) (hover : t < sumR dp) :
    b.duration = .error .value ∧
    (∀ sr, b.SR = .num sr → b.points = .error .value ∧ forgeBP b = .error .value) := by
  have hr : b.resolveWaits = .error .value := by
    unfold BP.resolveWaits
    rw [hb]
    exact resolveGo_overrun_general pre w post 0 t tl dp hw ha hpre (by simpa using hover)
  refine ⟨by simp [BP.duration, hr, Except.map], ?_⟩
  intro sr hsr
  exact ⟨by simp [BP.points, hsr, hr, Except.map], by simp [forgeBP, hsr, hr]⟩

/-- a prefix with an earlier waituntil: ramp(2 s), waituntil(3), ramp(2 s) has run for 5 s -/
def overrunPre : List Seg :=
  [ { name := "ramp", fn := Fn.rampFn, args := [.num 0, .num 1], dur := .num 2 },
    { name := "waituntil", fn := Fn.waitSpecial, args := [.num 3], dur := .none },
    { name := "ramp2", fn := Fn.rampFn, args := [.num 0, .num 1], dur := .num 2 } ]

example : BP.resolveGo overrunPre 0 = .ok [2, 1, 2] ∧ (4 : Rat) < sumR [2, 1, 2] := by decide +kernel

/-- Conversely, when the whole blueprint resolves, the waituntil got the non-negative duration
    `t - elapsed`, where `elapsed` is the sum of the resolved durations before it. -/
theorem wait_duration_is_t_minus_elapsed (b : BP) (pre : List Seg) (w : Seg) (post : List Seg) (t : Rat)
    (tl : List Val) (ds : List Rat) (hb : b.segs = pre ++ w :: post)
    (hw : w.fn.isWait = true) (ha : w.args = .num t :: tl) (h : b.resolveWaits = .ok ds) :
    ∃ hk : pre.length < ds.length, ds[pre.length] = t - sumR (ds.take pre.length) ∧
      sumR (ds.take pre.length) ≤ t := by
  unfold BP.resolveWaits at h
  rw [hb] at h
  obtain ⟨dp, dpost, _, hl, hle, _, rfl⟩ := resolveGo_wait_split pre w post 0 t tl ds hw ha h
  refine ⟨by simp; omega, ?_, ?_⟩
  · rw [List.getElem_append_right (by omega)]
    simp [hl]
  · simpa [hl] using hle

/-- **The reported duration is `t` plus what follows.**  For a blueprint `pre ++ waituntil(t) ::
    post` that resolves, `duration` is `t` plus the resolved durations of `post` (resolved from
    absolute time `t` on, so later waituntils count from there), and `points` is that duration
    times the sample rate, rounded: both include the filled time, whatever `pre` is. -/
theorem duration_is_t_plus_rest (b : BP) (pre : List Seg) (w : Seg) (post : List Seg) (t : Rat)
    (tl : List Val) (ds : List Rat) (hb : b.segs = pre ++ w :: post)
    (hw : w.fn.isWait = true) (ha : w.args = .num t :: tl) (h : b.resolveWaits = .ok ds) :
    ∃ dpost, BP.resolveGo post t = .ok dpost ∧ ds.drop (pre.length + 1) = dpost ∧
      b.duration = .ok (t + sumR dpost) ∧
      (∀ sr, b.SR = .num sr → b.points = .ok (rhe ((t + sumR dpost) * sr))) := by
  have h0 := h
  unfold BP.resolveWaits at h
  rw [hb] at h
  obtain ⟨dp, dpost, _, hl, _, hpost, hds⟩ := resolveGo_wait_split pre w post 0 t tl ds hw ha h
  have hsum : sumR ds = t + sumR dpost := by
    rw [hds, sumR_append]; simp only [sumR]; ring
  refine ⟨dpost, hpost, ?_, ?_, ?_⟩
  · rw [hds, ← hl]; simp
  · rw [(duration_includes_fill b ds h0).1, hsum]
  · intro sr hsr
    rw [(duration_includes_fill b ds h0).2 sr hsr, hsum]

/-- **End to end.**  In a successfully forged blueprint `pre ++ waituntil(t) :: post` whose
    resolved durations before the waituntil are whole numbers of samples, and with `t·SR` within
    0.4 of the integer `T`:
    the waituntil's block (block `i = |pre|`) evaluates to zeros only, the blocks `0..i` together
    have exactly `T = round(t·SR)` samples, and hence block `i+1` (if there is one) starts at sample
    `T` of the element - `starts` being the offsets at which the blocks sit in the flat waveform
    (`C01.flat_spec`). -/
theorem wait_end_to_end (b : BP) (f : Forged) (h : forgeBP b = .ok f)
    (pre : List Seg) (w : Seg) (post : List Seg) (t : Rat) (tl : List Val)
    (hb : b.segs = pre ++ w :: post) (hw : w.fn.isWait = true) (ha : w.args = .num t :: tl)
    (sr : Rat) (ds : List Rat) (hsr : b.SR = .num sr) (hds : b.resolveWaits = .ok ds)
    (hal : ∀ d ∈ ds.take pre.length, ∃ m : Nat, d * sr = m) (T : Int) (ht : |t * sr - T| ≤ 2/5) :
    rhe (t * sr) = T ∧
    ((sumN ((f.blocks.map Blk.len).take (pre.length + 1)) : Nat) : Int) = T ∧
    (∀ hs : pre.length + 1 < (starts (f.blocks.map Blk.len) 0).length,
      (((starts (f.blocks.map Blk.len) 0)[pre.length + 1] : Nat) : Int) = T) ∧
    ∃ hbk : pre.length < f.blocks.length,
      f.blocks[pre.length].eval? = some (List.replicate f.blocks[pre.length].len 0) := by
  obtain ⟨sr', durs, ns, hsr', hd, hn, _, hf⟩ := (forge_ok_iff b f).mp h
  have e1 : sr' = sr := by rw [hsr] at hsr'; cases hsr'; rfl
  have e2 : durs = ds := by rw [hds] at hd; cases hd; rfl
  subst e1 e2
  obtain ⟨h2, hns⟩ := countsGo_ok sr' durs ns hn
  have hlen := resolveGo_length _ _ _ hd
  have hk : pre.length < durs.length := by rw [hlen, hb]; simp
  have hnl : ns.length = b.segs.length := by rw [countsGo_length sr' durs ns hn, hlen]
  have hlens : f.blocks.map Blk.len = durs.map (fun d => (rhe (d * sr')).toNat) := by
    rw [hf]; simp only [assemble]; rw [mkBlocks_lens sr' b.segs ns hnl, hns]; rfl
  have hsum := wait_ends_at_t pre w post t tl durs hw ha b hb hd
  have hpad : 0 ≤ rhe (durs[pre.length] * sr') := by
    have := h2 _ (List.getElem_mem hk); simp only [segCount] at this; omega
  obtain ⟨hT, hr⟩ := next_segment_start sr' t durs pre.length hk T hsum hal ht hpad
  have hT' : ((sumN ((f.blocks.map Blk.len).take (pre.length + 1)) : Nat) : Int) = T := by
    rw [hlens, ← List.map_take]; exact hT
  refine ⟨hr, hT', ?_, ?_⟩
  · intro hs
    rw [starts_getElem]
    simpa using hT'
  · have hi : pre.length < b.segs.length := by rw [hb]; simp
    have hseg : b.segs[pre.length] = w := by
      have : b.segs[pre.length]? = some w := by rw [hb]; simp
      rw [List.getElem?_eq_getElem hi] at this
      exact Option.some.inj this
    exact forge_wait_block_zeros b f h pre.length hi (by rw [hseg]; exact hw)

/-- the hypotheses of `wait_end_to_end` on the example: ramp(2 s), waituntil(5.1), ramp(1 s) at
    10 Sa/s; the ramp after the wait starts at sample 51 -/
example : exampleBP.resolveWaits = .ok [2, 31/10, 1] ∧ (2 : Rat) * 10 = (20 : Nat) ∧
    |(51/10 : Rat) * 10 - (51 : Int)| ≤ 2/5 := by
  refine ⟨by decide +kernel, by norm_num, by norm_num⟩

example : (forgeBP exampleBP).toOption.map (fun f => starts (f.blocks.map Blk.len) 0) = some [0, 20, 51] := by
  decide +kernel

/-- the "not at a rounding tie" hypothesis on `t·SR` cannot be dropped: with 3 samples in front and
    `t·SR = 10.5` the wait gets `round(7.5) = 8` samples, so the next segment starts at sample 11,
    while `round(t·SR) = round(10.5) = 10` (round-half-even, as Python's `round`) -/
def tieBP : BP :=
  { segs := [ { name := "ramp", fn := Fn.rampFn, args := [.num 0, .num 1], dur := .num (3/10) },
              { name := "waituntil", fn := Fn.waitSpecial, args := [.num (21/20)], dur := .none },
              { name := "ramp2", fn := Fn.rampFn, args := [.num 1, .num 0], dur := .num 1 } ],
    SR := .num 10 }

example : (forgeBP tieBP).toOption.map (fun f => starts (f.blocks.map Blk.len) 0) = some [0, 3, 11] ∧
    rhe ((21/20 : Rat) * 10) = 10 := by decide +kernel

/-- `wait_end_to_end` with the alignment hypothesis put on the *segments*, for a prefix of
    ordinary segments (no earlier waituntil) whose stored durations are whole numbers of samples. -/
theorem wait_end_to_end_plain (b : BP) (f : Forged) (h : forgeBP b = .ok f)
    (pre : List Seg) (w : Seg) (post : List Seg) (t : Rat) (tl : List Val)
    (hb : b.segs = pre ++ w :: post) (hw : w.fn.isWait = true) (ha : w.args = .num t :: tl)
    (sr : Rat) (hsr : b.SR = .num sr)
    (hpre : ∀ s ∈ pre, s.fn.isWait = false ∧ ∃ (d : Rat) (m : Nat), s.dur = .num d ∧ d * sr = m)
    (T : Int) (ht : |t * sr - T| ≤ 2/5) :
    rhe (t * sr) = T ∧
    ((sumN ((f.blocks.map Blk.len).take (pre.length + 1)) : Nat) : Int) = T ∧
    (∀ hs : pre.length + 1 < (starts (f.blocks.map Blk.len) 0).length,
      (((starts (f.blocks.map Blk.len) 0)[pre.length + 1] : Nat) : Int) = T) ∧
    ∃ hbk : pre.length < f.blocks.length,
      f.blocks[pre.length].eval? = some (List.replicate f.blocks[pre.length].len 0) := by
  obtain ⟨sr', ds, ns, hsr', hd, _, _, _⟩ := (forge_ok_iff b f).mp h
  have e1 : sr' = sr := by rw [hsr] at hsr'; cases hsr'; rfl
  subst e1
  apply wait_end_to_end b f h pre w post t tl hb hw ha sr' ds hsr hd _ T ht
  have hd' := hd
  unfold BP.resolveWaits at hd'
  rw [hb] at hd'
  obtain ⟨dp, dpost, hp, hl, _, _, rfl⟩ := resolveGo_wait_split pre w post 0 t tl ds hw ha hd'
  have hplain := resolveGo_plain pre 0 (fun s hs => ⟨(hpre s hs).1, by
    obtain ⟨d, _, hd, _⟩ := (hpre s hs).2; exact ⟨d, hd⟩⟩)
  rw [hplain] at hp
  cases hp
  intro d hd
  rw [← hl, List.take_left'] at hd
  · obtain ⟨s, hs, hsd⟩ := List.mem_filterMap.mp hd
    obtain ⟨_, d', m, hd', hm⟩ := hpre s hs
    simp only [durOf?, hd', Option.some.injEq] at hsd
    subst hsd
    exact ⟨m, hm⟩
  · rfl

/-- **... no matter how the preceding durations are later changed.**  After any `changeDuration`
    call (accepted or refused, on any segment) the blueprint is still split around the same
    waituntil, so if it still forges and the preceding resolved durations are whole numbers of
    samples, the segment after the wait still starts at sample `round(t·SR)` and the padding is
    still zeros. -/
theorem wait_start_after_changeDuration (b : BP) (name : String) (dur : Val) (all : Bool)
    (pre : List Seg) (w : Seg) (post : List Seg) (t : Rat) (tl : List Val)
    (hb : b.segs = pre ++ w :: post) (hw : w.fn.isWait = true) (ha : w.args = .num t :: tl)
    (f : Forged) (h : forgeBP (b.changeDuration name dur all).st = .ok f)
    (sr : Rat) (ds : List Rat) (hsr : b.SR = .num sr)
    (hds : (b.changeDuration name dur all).st.resolveWaits = .ok ds)
    (hal : ∀ d ∈ ds.take pre.length, ∃ m : Nat, d * sr = m) (T : Int) (ht : |t * sr - T| ≤ 2/5) :
    rhe (t * sr) = T ∧
    ((sumN ((f.blocks.map Blk.len).take (pre.length + 1)) : Nat) : Int) = T ∧
    (∀ hs : pre.length + 1 < (starts (f.blocks.map Blk.len) 0).length,
      (((starts (f.blocks.map Blk.len) 0)[pre.length + 1] : Nat) : Int) = T) ∧
    ∃ hbk : pre.length < f.blocks.length,
      f.blocks[pre.length].eval? = some (List.replicate f.blocks[pre.length].len 0) := by
  obtain ⟨pre', w', post', hsegs, hl, _, hfn, hargs, hSR⟩ := changeDuration_split b name dur all pre w post hb
  have := wait_end_to_end _ f h pre' w' post' t tl hsegs (by rw [hfn]; exact hw) (by rw [hargs]; exact ha)
    sr ds (by rw [hSR]; exact hsr) hds (by rw [hl]; exact hal) T ht
  rw [hl] at this
  exact this

/-- ... and if the change makes the preceding segments overrun `t`, duration, points and forging
    raise ValueError. -/
theorem overrun_after_changeDuration (b : BP) (name : String) (dur : Val) (all : Bool)
    (pre : List Seg) (w : Seg) (post : List Seg) (t : Rat) (tl : List Val)
    (hb : b.segs = pre ++ w :: post) (hw : w.fn.isWait = true) (ha : w.args = .num t :: tl)
    (dp : List Rat)
    (hpre : BP.resolveGo ((b.changeDuration name dur all).st.segs.take pre.length) 0 = .ok dp)
    (hover : t < sumR dp) :
    (b.changeDuration name dur all).st.duration = .error .value ∧
    (∀ sr, b.SR = .num sr → (b.changeDuration name dur all).st.points = .error .value ∧
      forgeBP (b.changeDuration name dur all).st = .error .value) := by
  obtain ⟨pre', w', post', hsegs, hl, _, hfn, hargs, hSR⟩ := changeDuration_split b name dur all pre w post hb
  have htake : (b.changeDuration name dur all).st.segs.take pre.length = pre' := by
    rw [hsegs, ← hl]; simp
  rw [htake] at hpre
  have := overrun_raises_general _ pre' w' post' t tl dp hsegs (by rw [hfn]; exact hw)
    (by rw [hargs]; exact ha) hpre hover
  exact ⟨this.1, fun sr hsr => this.2 sr (by rw [hSR]; exact hsr)⟩

example : (exampleBP.changeDuration "ramp" (.num 6) false).err = none ∧
    BP.resolveGo ((exampleBP.changeDuration "ramp" (.num 6) false).st.segs.take 1) 0 = .ok [6] ∧
    (51/10 : Rat) < sumR [6] := by decide +kernel

example : (exampleBP.changeDuration "ramp" (.num 3) false).err = none ∧
    (exampleBP.changeDuration "ramp" (.num 3) false).st.resolveWaits = .ok [3, 21/10, 1] ∧
    (forgeBP (exampleBP.changeDuration "ramp" (.num 3) false).st).toOption.map
      (fun f => starts (f.blocks.map Blk.len) 0) = some [0, 30, 51] := by decide +kernel

/-! ### G11: the waituntil absorbs what happens in front of it -/

/-- `wait_end_to_end` for a blueprint whose segment list is `pre ++ waituntil(t) :: post` *up to
    segment names* (`BP.Seg.body`) - the form in which `insertSegment`, `removeSegment`, `copy` and `+`
    leave a blueprint, since they renumber the names. -/
theorem wait_end_to_end_body (b : BP) (f : Forged) (h : forgeBP b = .ok f)
    (pre : List Seg) (w : Seg) (post : List Seg) (t : Rat) (tl : List Val)
    (hb : b.segs.map BP.Seg.body = (pre ++ w :: post).map BP.Seg.body) (hw : w.fn.isWait = true)
    (ha : w.args = .num t :: tl)
    (sr : Rat) (ds : List Rat) (hsr : b.SR = .num sr) (hds : b.resolveWaits = .ok ds)
    (hal : ∀ d ∈ ds.take pre.length, ∃ m : Nat, d * sr = m) (T : Int) (ht : |t * sr - T| ≤ 2/5) :
    rhe (t * sr) = T ∧
    ((sumN ((f.blocks.map Blk.len).take (pre.length + 1)) : Nat) : Int) = T ∧
    (∀ hs : pre.length + 1 < (starts (f.blocks.map Blk.len) 0).length,
      (((starts (f.blocks.map Blk.len) 0)[pre.length + 1] : Nat) : Int) = T) ∧
    ∃ hbk : pre.length < f.blocks.length,
      f.blocks[pre.length].eval? = some (List.replicate f.blocks[pre.length].len 0) := by
  have hfe : forgeBP { b with segs := pre ++ w :: post } = .ok f := by
    rw [← forgeBP_body b { b with segs := pre ++ w :: post } hb rfl rfl rfl]; exact h
  have hde : BP.resolveWaits { b with segs := pre ++ w :: post } = .ok ds := by
    have : BP.resolveWaits { b with segs := pre ++ w :: post } = b.resolveWaits :=
      (resolveGo_body _ _ 0 hb).symm
    rw [this]; exact hds
  exact wait_end_to_end { b with segs := pre ++ w :: post } f hfe pre w post t tl rfl hw ha sr ds hsr hde hal T ht

/-- non-vacuity: a copy of the example (names renumbered by `copy`) is such a blueprint -/
example : exampleBP.copy.segs.map BP.Seg.body = ([exampleBP.segs[0]] ++ exampleBP.segs[1] :: [exampleBP.segs[2]]).map BP.Seg.body ∧
    (forgeBP exampleBP.copy).toOption.isSome = true := by
  constructor <;> decide +kernel

/-- the block lengths of a forged blueprint are the rounded resolved durations -/
theorem forged_lens_are_counts (b : BP) (f : Forged) (h : forgeBP b = .ok f) (sr : Rat) (ds : List Rat)
    (hsr : b.SR = .num sr) (hds : b.resolveWaits = .ok ds) :
    f.blocks.map Blk.len = ds.map (fun d => (rhe (d * sr)).toNat) ∧ f.N = sumN (f.blocks.map Blk.len) := by
  obtain ⟨sr', durs, ns, hsr', hd, hn, _, hf⟩ := (forge_ok_iff b f).mp h
  have e1 : sr' = sr := by rw [hsr] at hsr'; cases hsr'; rfl
  have e2 : durs = ds := by rw [hds] at hd; cases hd; rfl
  subst e1 e2
  obtain ⟨_, hns⟩ := countsGo_ok sr' durs ns hn
  have hlen := resolveGo_length _ _ _ hd
  have hnl : ns.length = b.segs.length := by rw [countsGo_length sr' durs ns hn, hlen]
  have hlens : f.blocks.map Blk.len = ns := by
    rw [hf]; simp only [assemble]; exact mkBlocks_lens sr' b.segs ns hnl
  refine ⟨by rw [hlens, hns]; rfl, ?_⟩
  rw [hlens, hf]; rfl

/-- **The waituntil absorbs whatever differs in front of it.**  Two blueprints at the same sample
    rate whose segment lists are (up to names) `pre₁ ++ waituntil(t) :: post` and
    `pre₂ ++ waituntil(t) :: post` - the same `post` behind a waituntil with the same target, any
    fronts (e.g. before and after inserting, removing or re-timing segments in front of the wait) -
    both forging, with fronts that resolve to whole numbers of samples:
    the blocks of `post` have the same lengths in both, `post` starts at sample `T = round(t·SR)`
    in both, and both waveforms have the same total number of samples. -/
theorem wait_absorbs (b1 b2 : BP) (pre1 pre2 : List Seg) (w1 w2 : Seg) (post : List Seg) (t : Rat)
    (tl1 tl2 : List Val)
    (h1 : b1.segs.map BP.Seg.body = (pre1 ++ w1 :: post).map BP.Seg.body)
    (h2 : b2.segs.map BP.Seg.body = (pre2 ++ w2 :: post).map BP.Seg.body)
    (hw1 : w1.fn.isWait = true) (hw2 : w2.fn.isWait = true)
    (ha1 : w1.args = .num t :: tl1) (ha2 : w2.args = .num t :: tl2)
    (sr : Rat) (hs1 : b1.SR = .num sr) (hs2 : b2.SR = .num sr)
    (f1 f2 : Forged) (hf1 : forgeBP b1 = .ok f1) (hf2 : forgeBP b2 = .ok f2)
    (ds1 ds2 : List Rat) (hd1 : b1.resolveWaits = .ok ds1) (hd2 : b2.resolveWaits = .ok ds2)
    (hal1 : ∀ d ∈ ds1.take pre1.length, ∃ m : Nat, d * sr = m)
    (hal2 : ∀ d ∈ ds2.take pre2.length, ∃ m : Nat, d * sr = m)
    (T : Int) (ht : |t * sr - T| ≤ 2/5) :
    (f1.blocks.map Blk.len).drop (pre1.length + 1) = (f2.blocks.map Blk.len).drop (pre2.length + 1) ∧
    ((sumN ((f1.blocks.map Blk.len).take (pre1.length + 1)) : Nat) : Int) = T ∧
    ((sumN ((f2.blocks.map Blk.len).take (pre2.length + 1)) : Nat) : Int) = T ∧
    f1.N = f2.N := by
  obtain ⟨_, hT1, _, _⟩ := wait_end_to_end_body b1 f1 hf1 pre1 w1 post t tl1 h1 hw1 ha1 sr ds1 hs1 hd1 hal1 T ht
  obtain ⟨_, hT2, _, _⟩ := wait_end_to_end_body b2 f2 hf2 pre2 w2 post t tl2 h2 hw2 ha2 sr ds2 hs2 hd2 hal2 T ht
  obtain ⟨hl1, hN1⟩ := forged_lens_are_counts b1 f1 hf1 sr ds1 hs1 hd1
  obtain ⟨hl2, hN2⟩ := forged_lens_are_counts b2 f2 hf2 sr ds2 hs2 hd2
  have hr1 : BP.resolveGo (pre1 ++ w1 :: post) 0 = .ok ds1 := by
    rw [← resolveGo_body b1.segs _ 0 h1]; exact hd1
  have hr2 : BP.resolveGo (pre2 ++ w2 :: post) 0 = .ok ds2 := by
    rw [← resolveGo_body b2.segs _ 0 h2]; exact hd2
  obtain ⟨dp1, dq1, _, hpl1, _, hq1, e1⟩ := resolveGo_wait_split pre1 w1 post 0 t tl1 ds1 hw1 ha1 hr1
  obtain ⟨dp2, dq2, _, hpl2, _, hq2, e2⟩ := resolveGo_wait_split pre2 w2 post 0 t tl2 ds2 hw2 ha2 hr2
  have hdq : dq1 = dq2 := by rw [hq1] at hq2; cases hq2; rfl
  subst hdq
  have hdrop : ∀ (dp : List Rat) (x : Rat) (p : Nat), dp.length = p →
      ((dp ++ x :: dq1).map (fun d => (rhe (d * sr)).toNat)).drop (p + 1) =
        dq1.map (fun d => (rhe (d * sr)).toNat) := by
    intro dp x p hp
    have : (dp ++ x :: dq1).map (fun d => (rhe (d * sr)).toNat) =
        (dp ++ [x]).map (fun d => (rhe (d * sr)).toNat) ++ dq1.map (fun d => (rhe (d * sr)).toNat) := by simp
    rw [this]
    exact List.drop_left' (by simp [hp])
  have hD : (f1.blocks.map Blk.len).drop (pre1.length + 1) = (f2.blocks.map Blk.len).drop (pre2.length + 1) := by
    rw [hl1, hl2, e1, e2, hdrop dp1 _ _ hpl1, hdrop dp2 _ _ hpl2]
  refine ⟨hD, hT1, hT2, ?_⟩
  have hsplit : ∀ (l : List Nat) (k : Nat), sumN l = sumN (l.take k) + sumN (l.drop k) := by
    intro l k
    rw [← sumN_append, List.take_append_drop]
  rw [hN1, hN2, hsplit _ (pre1.length + 1), hsplit (f2.blocks.map Blk.len) (pre2.length + 1), hD]
  have : sumN ((f1.blocks.map Blk.len).take (pre1.length + 1)) =
      sumN ((f2.blocks.map Blk.len).take (pre2.length + 1)) := by
    have := hT1.trans hT2.symm
    exact_mod_cast this
  rw [this]

/-- a `changeDuration` call that addresses no segment behind the waituntil leaves those segments
    literally as they are -/
theorem changeDuration_keeps_behind_wait (b : BP) (name : String) (dur : Val) (all : Bool)
    (pre : List Seg) (w : Seg) (post : List Seg) (hb : b.segs = pre ++ w :: post)
    (hnt : ∀ s ∈ post, (b.targets name all).2.contains s.name = false) :
    ∃ pre' w', (b.changeDuration name dur all).st.segs = pre' ++ w' :: post ∧
      pre'.length = pre.length ∧ w'.fn = w.fn ∧ w'.args = w.args ∧
      (b.changeDuration name dur all).st.SR = b.SR := by
  unfold BP.changeDuration
  split
  · rename_i d
    split
    · exact ⟨pre, w, hb, rfl, rfl, rfl, rfl⟩
    · split
      · exact ⟨pre, w, hb, rfl, rfl, rfl, rfl⟩
      · split
        · exact ⟨pre, w, hb, rfl, rfl, rfl, rfl⟩
        · refine ⟨pre.map (BP.setDur (b.targets name all).2 d), BP.setDur (b.targets name all).2 d w,
            ?_, by simp, (setDur_fn_args _ _ _).1, (setDur_fn_args _ _ _).2, rfl⟩
          simp only [hb, List.map_append, List.map_cons, List.append_cancel_left_eq, List.cons.injEq, true_and]
          conv_rhs => rw [← List.map_id post]
          apply List.map_congr_left
          intro s hs
          unfold BP.setDur
          rw [if_neg (by rw [hnt s hs]; simp)]
          rfl
  · exact ⟨pre, w, hb, rfl, rfl, rfl, rfl⟩

/-- **... no matter how the preceding durations are later changed, nothing behind the wait moves.**
    `b = pre ++ waituntil(t) :: post`; a `changeDuration` call (any name, `replaceeverywhere` or
    not, accepted or refused) that addresses no segment of `post`; the blueprint forges before and
    after and the fronts resolve to whole numbers of samples.  Then every block of `post` keeps its
    length, `post` starts at sample `T = round(t·SR)` before and after, and the waveform keeps its
    total number of samples: the waituntil absorbs the change completely. -/
theorem wait_absorbs_changeDuration (b : BP) (name : String) (dur : Val) (all : Bool)
    (pre : List Seg) (w : Seg) (post : List Seg) (t : Rat) (tl : List Val)
    (hb : b.segs = pre ++ w :: post) (hw : w.fn.isWait = true) (ha : w.args = .num t :: tl)
    (hnt : ∀ s ∈ post, (b.targets name all).2.contains s.name = false)
    (sr : Rat) (hsr : b.SR = .num sr)
    (f f' : Forged) (hf : forgeBP b = .ok f) (hf' : forgeBP (b.changeDuration name dur all).st = .ok f')
    (ds ds' : List Rat) (hds : b.resolveWaits = .ok ds)
    (hds' : (b.changeDuration name dur all).st.resolveWaits = .ok ds')
    (hal : ∀ d ∈ ds.take pre.length, ∃ m : Nat, d * sr = m)
    (hal' : ∀ d ∈ ds'.take pre.length, ∃ m : Nat, d * sr = m)
    (T : Int) (ht : |t * sr - T| ≤ 2/5) :
    (f'.blocks.map Blk.len).drop (pre.length + 1) = (f.blocks.map Blk.len).drop (pre.length + 1) ∧
    ((sumN ((f.blocks.map Blk.len).take (pre.length + 1)) : Nat) : Int) = T ∧
    ((sumN ((f'.blocks.map Blk.len).take (pre.length + 1)) : Nat) : Int) = T ∧
    f'.N = f.N := by
  obtain ⟨pre', w', hsegs, hl, hfn, hargs, hSR⟩ := changeDuration_keeps_behind_wait b name dur all pre w post hb hnt
  have := wait_absorbs b (b.changeDuration name dur all).st pre pre' w w' post t tl tl
    (by rw [hb]) (by rw [hsegs]) hw (by rw [hfn]; exact hw) ha (by rw [hargs]; exact ha) sr hsr
    (by rw [hSR]; exact hsr) f f' hf hf' ds ds' hds hds' hal (by rw [hl]; exact hal') T ht
  rw [hl] at this
  exact ⟨this.1.symm, this.2.1, this.2.2.1, this.2.2.2.symm⟩

/-- non-vacuity: lengthen `ramp` from 2 s to 3 s in front of `waituntil(5.1)`: the wait shrinks from
    31 to 21 samples, `ramp2` still starts at sample 51, the total stays 61 -/
example : exampleBP.segs = [exampleBP.segs[0]] ++ exampleBP.segs[1] :: [exampleBP.segs[2]] ∧
    (∀ s ∈ [exampleBP.segs[2]], (exampleBP.targets "ramp" false).2.contains s.name = false) ∧
    exampleBP.resolveWaits = .ok [2, 31/10, 1] ∧
    (exampleBP.changeDuration "ramp" (.num 3) false).st.resolveWaits = .ok [3, 21/10, 1] ∧
    (2 : Rat) * 10 = (20 : Nat) ∧ (3 : Rat) * 10 = (30 : Nat) ∧ |(51/10 : Rat) * 10 - (51 : Int)| ≤ 2/5 ∧
    (forgeBP exampleBP).toOption.map (fun f => (f.blocks.map Blk.len, f.N)) = some ([20, 31, 10], 61) ∧
    (forgeBP (exampleBP.changeDuration "ramp" (.num 3) false).st).toOption.map
      (fun f => (f.blocks.map Blk.len, f.N)) = some ([30, 21, 10], 61) := by
  refine ⟨by decide +kernel, by decide +kernel, by decide +kernel, by decide +kernel, by norm_num, by norm_num,
    by norm_num, by decide +kernel, by decide +kernel⟩

end BB.C04
