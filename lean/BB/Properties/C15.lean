/-
  Property C15 — the SEQX package mirrors the forged sequence and enforces AWG70000A limits.

  Guards (`Gen.seqx*Bad`), the flag tables (`Gen.flagAllowed*`, `Gen.flagAlias*`) and
  `Gen.flagsLenBad` are regenerated from `Sequence.outputForSEQXFile` / `Element.addFlags`.
-/
import BB.Proofs.Basic
import Mathlib.Tactic.Linarith
import BB.Properties.C14
import BB.Proofs.G3Awg
import BB.Proofs.G3Wave
import BB.Proofs.G3Check
import BB.Properties.C10
import BB.Proofs.G9Cells
import BB.Proofs.G9Ex

namespace BB.C15
open BB BB.Sequence

theorem len_ok_iff (n : ℤ) : Gen.seqxLenBad n = false ↔ 2400 ≤ n := by
  simp [Gen.seqxLenBad]

theorem twait_ok_iff (t : ℤ) : Gen.seqxTwaitBad t = false ↔ (0 ≤ t ∧ t ≤ 3) := by
  simp [Gen.seqxTwaitBad]; omega

theorem jumpstate_ok_iff (t : ℤ) : Gen.seqxJumpStateBad t = false ↔ (0 ≤ t ∧ t ≤ 3) := by
  simp [Gen.seqxJumpStateBad]; omega

theorem nrep_ok_iff (n : ℤ) : Gen.seqxNrepBad n = false ↔ (0 ≤ n ∧ n ≤ 16383) := by
  simp [Gen.seqxNrepBad]; omega

theorem jump_ok_iff (j N : ℤ) : Gen.seqxJumpBad j N = false ↔ (-1 ≤ j ∧ j ≤ N) := by
  simp [Gen.seqxJumpBad]; omega

theorem goto_ok_iff (g N : ℤ) : Gen.seqxGotoBad g N = false ↔ (0 ≤ g ∧ g ≤ N) := by
  simp [Gen.seqxGotoBad]; omega

/-- The sequencing check passes iff wait and event input are in 0..3, repetitions in 0..16383,
    jump target in -1..N and goto in 0..N; otherwise SequencingError. -/
theorem seq_check_iff (q : SeqSet) (N : ℤ) :
    (seqxSeqCheck q N = .ok () ↔
      (0 ≤ q.twait ∧ q.twait ≤ 3) ∧ (0 ≤ q.jump_input ∧ q.jump_input ≤ 3) ∧ (0 ≤ q.nrep ∧ q.nrep ≤ 16383) ∧
        (-1 ≤ q.jump_target ∧ q.jump_target ≤ N) ∧ (0 ≤ q.goto ∧ q.goto ≤ N)) ∧
    (seqxSeqCheck q N ≠ .ok () → seqxSeqCheck q N = .error .sequencing) := by
  unfold seqxSeqCheck
  rw [← twait_ok_iff, ← jumpstate_ok_iff, ← nrep_ok_iff, ← jump_ok_iff, ← goto_ok_iff]
  cases Gen.seqxTwaitBad q.twait <;> cases Gen.seqxJumpStateBad q.jump_input <;> cases Gen.seqxNrepBad q.nrep <;>
    cases Gen.seqxJumpBad q.jump_target N <;> cases Gen.seqxGotoBad q.goto N <;> simp

/-- The voltage check passes iff every sample lies within ±amplitude/2 (no offset); else ValueError. -/
theorem range_check_iff (xs : List ℚ) (a : ℚ) (hne : xs ≠ []) :
    (seqxRangeCheck xs a = .ok () ↔ ∀ x ∈ xs, -a / 2 ≤ x ∧ x ≤ a / 2) ∧
    (seqxRangeCheck xs a ≠ .ok () → seqxRangeCheck xs a = .error .value) := by
  unfold seqxRangeCheck
  simp only [Gen.seqxMaxBad, Gen.seqxMinBad, decide_eq_true_eq, gt_iff_lt]
  constructor
  · constructor
    · intro h x hx
      by_cases h1 : a / 2 < maxR xs
      · simp [h1] at h
      · by_cases h2 : minR xs < -a / 2
        · simp [h1, h2] at h
        · have := C14.le_maxR xs x hx
          have := C14.minR_le xs x hx
          constructor <;> linarith [not_lt.mp h1, not_lt.mp h2]
    · intro h
      have hmax := (h _ (C14.maxR_mem xs hne)).2
      have hmin := (h _ (C14.minR_mem xs hne)).1
      have h1 : ¬ a / 2 < maxR xs := by linarith
      have h2 : ¬ minR xs < -a / 2 := by linarith
      simp [h1, h2]
  · intro h
    by_cases h1 : a / 2 < maxR xs
    · simp [h1]
    · by_cases h2 : minR xs < -a / 2
      · simp [h1, h2]
      · simp [h1, h2] at h

/-- amplitudes: in channel order, padded with one 0 for a single channel -/
theorem amplitudes_padding (amps : List ℚ) :
    padAmplitudes amps = if amps.length = 1 then amps ++ [0] else amps := rfl

/-! ### flags -/

/-- `addFlags` accepts exactly the tokens 0-4 and '', 'H', 'L', 'T', 'P', which mean 0-4. -/
theorem flag_token_table :
    (∀ n : ℤ, 0 ≤ n → n ≤ 4 → flagToken? (.num n) = some n.toNat) ∧
    (∀ n : ℤ, (n < 0 ∨ 4 < n) → flagToken? (.num n) = none) ∧
    flagToken? (.str "") = some 0 ∧ flagToken? (.str "H") = some 1 ∧
    flagToken? (.str "L") = some 2 ∧ flagToken? (.str "T") = some 3 ∧
    flagToken? (.str "P") = some 4 ∧
    (∀ s : String, s ∉ ["", "H", "L", "T", "P"] → flagToken? (.str s) = none) ∧
    flagToken? .none = none := by
  refine ⟨?_, ?_, by decide, by decide, by decide, by decide, by decide, ?_, rfl⟩
  · intro n h0 h4
    have : n = 0 ∨ n = 1 ∨ n = 2 ∨ n = 3 ∨ n = 4 := by omega
    rcases this with rfl | rfl | rfl | rfl | rfl <;> decide
  · intro n h
    unfold flagToken?
    have hm : n ∉ Gen.flagAllowedInt := by
      simp [Gen.flagAllowedInt]; omega
    simp [hm]
  · intro s hs
    unfold flagToken?
    have hm : s ∉ Gen.flagAllowedStr := by
      simpa [Gen.flagAllowedStr] using hs
    simp [hm]

/-- a flag list must have exactly four entries -/
theorem flags_length (e : Element) (ch : Chan) (fl : List Val) (h : fl.length ≠ 4) :
    (e.addFlags ch fl).err = some .value ∧ (e.addFlags ch fl).st = e := by
  unfold Element.addFlags
  have : Gen.flagsLenBad fl.length = true := by simp [Gen.flagsLenBad]; omega
  simp [this]

/-- accepted flags are stored as the four integers -/
theorem flags_stored (e : Element) (ch : Chan) (fl : List Val) (ent : ChEntry) (ints : List ℕ)
    (hl : fl.length = 4) (ht : fl.mapM flagToken? = some ints) (hc : Dict.get? e.chans ch = some ent) :
    (e.addFlags ch fl).err = none ∧
    Dict.get? (e.addFlags ch fl).st.chans ch = some { ent with flags := some ints } := by
  unfold Element.addFlags
  have : Gen.flagsLenBad fl.length = false := by simp [Gen.flagsLenBad, hl]
  simp only [this, Bool.false_eq_true, if_false, ht, hc]
  exact ⟨trivial, Dict.get?_upsert_self _ _ _⟩

/-- where no flags were set, the flags variant reports [0, 0, 0, 0] -/
theorem default_flags (c : ChOutF) (h : chFlags c = none) : (chFlags c).getD [0, 0, 0, 0] = [0, 0, 0, 0] := by
  simp [h]

/-! ### the package mirrors the forged elements, position by position and channel by channel -/

/-- **what `outputForSEQXFile` delivers**: with `P` the per-position forged elements of
    `_prepareForOutputting` (equal to `forge(True, True)` by C10's `output_path_equals_forge`) and
    `chans` the channels of element 1, the package holds for channel `i` and position `p` exactly
    the (waveform in volts, marker 1, marker 2) of channel `chans[i]` of `P[p]`; the five
    sequencing lists hold, in position order, the values of a sequencing entry that passed the
    AWG70000A checks; the amplitudes are the channel amplitudes in channel order (padded for a
    single channel); the name is the sequence's name -/
theorem seqx_content (s : Sequence) (d : Deferred SEQXPkg) (pkg : SEQXPkg)
    (h : s.outputForSEQXFile = .ok d) (hp : d.pkg = some pkg) :
    ∃ (P : List (Dict Chan ChOutF)) (chans : List Chan) (amps : List ℚ),
      s.prepareForOutputting = .ok P ∧
      pkg.amplitudes = padAmplitudes amps ∧ amps.length = chans.length ∧ pkg.seqname = s.name ∧ pkg.flags = none ∧
      (∀ i p, i < chans.length → p < P.length → ∃ cell, (P[p]?).bind (fun el => (chans[i]?).map (seqxCell el)) = some (.ok cell) ∧
          ((pkg.wfms[i]?).bind (·[p]?)) = some cell) ∧
      (∀ p, p < P.length → ∃ q, Dict.get? s.sequencing ((p + 1 : ℕ) : ℤ) = some q ∧ seqxSeqCheck q (P.length : ℤ) = .ok () ∧
          pkg.trig_waits[p]? = some q.twait ∧ pkg.nreps[p]? = some q.nrep ∧ pkg.event_jumps[p]? = some q.jump_input ∧
          pkg.event_jump_to[p]? = some q.jump_target ∧ pkg.go_to[p]? = some q.goto) := by
  unfold outputForSEQXFile at h
  split at h
  · cases h
  · rename_i P hP
    split at h
    · cases h
    · split at h
      · cases h
      · rename_i chans _
        split at h
        · cases h
        · rename_i amps hamps
          split at h
          · cases h
          · rename_i obs _
            split at h
            · split at h
              · cases h
              · cases h; cases hp
            · rename_i rows hrows
              cases h
              simp only [Option.some.injEq] at hp
              subst hp
              have hl := mapM_ok_length _ _ _ hrows
              have hla := mapM_ok_length _ _ _ hamps
              simp only [List.length_zip, List.length_range, Nat.min_self] at hl
              refine ⟨P, chans, amps, hP, rfl, hla, rfl, rfl, ?_, ?_⟩
              · intro i p hi hpp
                have hz : p < (P.zip (List.range P.length)).length := by simp; exact hpp
                have hr : p < rows.length := by omega
                have er := mapM_ok_getElem _ _ _ hrows p hz hr
                simp only [List.getElem_zip, List.getElem_range] at er
                unfold seqxRow at er
                simp only at er
                cases hrow : chans.mapM (seqxCell P[p]) with
                | error e => rw [hrow] at er; cases er
                | ok row =>
                  rw [hrow] at er
                  simp only at er
                  have hrl := mapM_ok_length _ _ _ hrow
                  have hi' : i < row.length := by omega
                  have ec := mapM_ok_getElem _ _ _ hrow i hi hi'
                  refine ⟨row[i], ?_, ?_⟩
                  · simp [List.getElem?_eq_getElem hpp, List.getElem?_eq_getElem hi, ec]
                  · -- the row stored for position p is `row`
                    have hrowp : (rows[p]).1 = row := by
                      split at er
                      · cases er
                      · split at er
                        · cases er
                        · simp only [Except.ok.injEq] at er
                          rw [← er]
                    -- every stored row has one cell per channel
                    have hall : ∀ r ∈ rows.map (·.1), r.length = chans.length := by
                      intro r hr'
                      obtain ⟨x, hx, rfl⟩ := List.mem_map.mp hr'
                      obtain ⟨k, hk, rfl⟩ := List.getElem_of_mem hx
                      have hzk : k < (P.zip (List.range P.length)).length := by simp; omega
                      have ek := mapM_ok_getElem _ _ _ hrows k hzk hk
                      unfold seqxRow at ek
                      split at ek
                      · cases ek
                      · rename_i rowk hrowk
                        split at ek
                        · cases ek
                        · split at ek
                          · cases ek
                          · simp only [Except.ok.injEq] at ek
                            rw [← ek]
                            exact mapM_ok_length _ _ _ hrowk
                    have := C14.transpose_getElem? chans.length (rows.map (·.1)) hall i hi p (by simpa using hr)
                    simp only [seqxPackage]
                    rw [this]
                    simp [List.getElem?_eq_getElem hr, hrowp, List.getElem?_eq_getElem hi']
              · intro p hpp
                have hz : p < (P.zip (List.range P.length)).length := by simp; exact hpp
                have hr : p < rows.length := by omega
                have er := mapM_ok_getElem _ _ _ hrows p hz hr
                simp only [List.getElem_zip, List.getElem_range] at er
                unfold seqxRow at er
                simp only at er
                split at er
                · cases er
                · split at er
                  · cases er
                  · rename_i q hq
                    split at er
                    · cases er
                    · rename_i hchk
                      simp only [Except.ok.injEq] at er
                      refine ⟨q, hq, hchk, ?_⟩
                      simp only [seqxPackage, List.getElem?_map, List.getElem?_eq_getElem hr, ← er, Option.map_some]
                      exact ⟨trivial, trivial, trivial, trivial, trivial⟩

/-- **the flags variant**: the same package as `outputForSEQXFile` plus, for channel `i` and
    position `p`, the four flags of channel `chans[i]` of `P[p]` (`[0, 0, 0, 0]` where unset) -/
theorem seqx_flags_content (s : Sequence) (d : Deferred SEQXPkg) (pkg : SEQXPkg)
    (h : s.outputForSEQXFileWithFlags = .ok d) (hp : d.pkg = some pkg) :
    ∃ (P : List (Dict Chan ChOutF)) (chans : List Chan) (d0 : Deferred SEQXPkg) (pkg0 : SEQXPkg) (flags : List (List (List ℕ))),
      s.prepareForOutputting = .ok P ∧ s.outputForSEQXFile = .ok d0 ∧ d0.pkg = some pkg0 ∧
      pkg = { pkg0 with flags := some flags } ∧ flags.length = chans.length ∧
      (∀ i p, i < chans.length → p < P.length → ∃ c, (P[p]?).bind (fun el => (chans[i]?).map (lookupCh el)) = some (.ok c) ∧
          ((flags[i]?).bind (·[p]?)) = some ((chFlags c).getD [0, 0, 0, 0])) := by
  unfold outputForSEQXFileWithFlags at h
  split at h
  · cases h
  · rename_i P hP
    split at h
    · cases h
    · split at h
      · cases h
      · rename_i chans _
        split at h
        · cases h
        · rename_i flags hflags
          split at h
          · cases h
          · rename_i d0 hd0
            cases h
            simp only [Option.map_eq_some_iff] at hp
            obtain ⟨pkg0, hpkg0, rfl⟩ := hp
            have hl := mapM_ok_length _ _ _ hflags
            refine ⟨P, chans, d0, pkg0, flags, hP, hd0, hpkg0, rfl, hl, ?_⟩
            intro i p hi hpp
            have hi' : i < flags.length := by omega
            have er := mapM_ok_getElem _ _ _ hflags i hi hi'
            have hrl := mapM_ok_length _ _ _ er
            have hp' : p < (flags[i]).length := by omega
            have ec := mapM_ok_getElem _ _ _ er p hpp hp'
            unfold seqxFlagCell at ec
            split at ec
            · cases ec
            · rename_i c hc
              simp only [Except.ok.injEq] at ec
              refine ⟨c, ?_, ?_⟩
              · simp [List.getElem?_eq_getElem hpp, List.getElem?_eq_getElem hi, hc]
              · simp [List.getElem?_eq_getElem hi', List.getElem?_eq_getElem hp', ec]

/-! ### the delivered package, tied to `Sequence.channels` and the amplitude settings -/

/-- **content and shape of the SEQX package, tied to `Sequence.channels`**: with `chans` =
    `Sequence.channels` and `P` the forged elements, `amplitudes` is the list of the numeric
    amplitude settings of `chans[0], chans[1], ...` (padded with one 0 for a single channel);
    there is one waveform column per channel with one entry per position; `wfms[i][p]` is
    (waveform in volts, marker 1, marker 2) of channel `chans[i]` of `P[p]`; the five sequencing
    lists have one entry per position, holding the values of the sequencing entry of position
    `p + 1`, which passed the AWG70000A checks; `seqname` is the sequence's name -/
theorem seqx_content_channels (s : Sequence) (d : Deferred SEQXPkg) (pkg : SEQXPkg)
    (h : s.outputForSEQXFile = .ok d) (hp : d.pkg = some pkg) :
    ∃ (P : List (Dict Chan ChOutF)) (chans : List Chan) (amps : List ℚ),
      s.prepareForOutputting = .ok P ∧ P.length = s.data.length ∧ s.channels = .ok chans ∧
      pkg.amplitudes = padAmplitudes amps ∧ amps.length = chans.length ∧
      (∀ i (hi : i < chans.length) (hi' : i < amps.length), s.specNum (keyOf chans[i] "amplitude") = some amps[i]) ∧
      pkg.seqname = s.name ∧ pkg.flags = none ∧
      pkg.wfms.length = chans.length ∧ (∀ col ∈ pkg.wfms, col.length = P.length) ∧
      pkg.trig_waits.length = P.length ∧ pkg.nreps.length = P.length ∧ pkg.event_jumps.length = P.length ∧
      pkg.event_jump_to.length = P.length ∧ pkg.go_to.length = P.length ∧
      (∀ i (hi : i < chans.length) p (hpp : p < P.length), ∃ c w m1 m2,
          lookupCh P[p] chans[i] = .ok c ∧ chWave c = .ok w ∧ chMarker c 1 = .ok m1 ∧ chMarker c 2 = .ok m2 ∧
          (pkg.wfms[i]?).bind (·[p]?) = some (w, m1, m2)) ∧
      (∀ p (hpp : p < P.length), ∃ q, Dict.get? s.sequencing ((p + 1 : ℕ) : ℤ) = some q ∧
          seqxSeqCheck q (P.length : ℤ) = .ok () ∧
          pkg.trig_waits[p]? = some q.twait ∧ pkg.nreps[p]? = some q.nrep ∧ pkg.event_jumps[p]? = some q.jump_input ∧
          pkg.event_jump_to[p]? = some q.jump_target ∧ pkg.go_to[p]? = some q.goto) := by
  obtain ⟨P, chans, amps, hP, hch, hamps, _, hcase⟩ := G3.seqx_inv s d h
  rcases hcase with ⟨er, _, _, _, hnone⟩ | ⟨rows, hrows, _, hpkg⟩
  · rw [hnone] at hp; cases hp
  · rw [hpkg] at hp
    simp only [Option.some.injEq] at hp
    subst hp
    obtain ⟨_, _, hlen, _, _⟩ := G3.prepare_cells s P hP
    obtain ⟨hla, hspec⟩ := G3.amps_spec s chans amps hamps
    have hl := mapM_ok_length _ _ _ hrows
    simp only [List.length_zip, List.length_range, Nat.min_self] at hl
    have hall : ∀ r ∈ rows.map (·.1), r.length = chans.length := by
      intro r hr
      obtain ⟨x, hx, rfl⟩ := List.mem_map.mp hr
      obtain ⟨y, hy, hxy⟩ := G3.mapM_result_mem _ _ _ hrows x hx
      exact mapM_ok_length _ _ _ (G3.seqxRow_inv s chans _ y x hxy).1
    refine ⟨P, chans, amps, hP, hlen, hch, rfl, hla, hspec, rfl, rfl, ?_, ?_, ?_, ?_, ?_, ?_, ?_, ?_, ?_⟩
    · simp [seqxPackage, G3.transpose_length]
    · intro col hc
      have := G3.transpose_row_length _ _ hall col hc
      simp only [List.length_map] at this
      omega
    · simp [seqxPackage, hl]
    · simp [seqxPackage, hl]
    · simp [seqxPackage, hl]
    · simp [seqxPackage, hl]
    · simp [seqxPackage, hl]
    · intro i hi p hpp
      have hz : p < (P.zip (List.range P.length)).length := by simp; exact hpp
      have hr' : p < rows.length := by omega
      have erow := mapM_ok_getElem _ _ _ hrows p hz hr'
      simp only [List.getElem_zip, List.getElem_range] at erow
      obtain ⟨hrow, _, _⟩ := G3.seqxRow_inv s chans _ _ _ erow
      have l1 := mapM_ok_length _ _ _ hrow
      have e1 := mapM_ok_getElem _ _ _ hrow i hi (by omega)
      simp only at e1
      unfold seqxCell at e1
      split at e1
      · cases e1
      · rename_i c hc
        split at e1
        · cases e1
        · rename_i w hw
          split at e1
          · cases e1
          · rename_i m1 hm1
            split at e1
            · cases e1
            · rename_i m2 hm2
              simp only [Except.ok.injEq] at e1
              refine ⟨c, w, m1, m2, hc, hw, hm1, hm2, ?_⟩
              have := C14.transpose_getElem? chans.length (rows.map (·.1)) hall i hi p (by simpa using hr')
              show ((seqxPackage s chans.length amps rows).wfms[i]?).bind (·[p]?) = _
              simp only [seqxPackage]
              rw [this]
              simp [List.getElem?_eq_getElem hr', List.getElem?_eq_getElem (show i < (rows[p]).1.length by omega), ← e1]
    · intro p hpp
      have hz : p < (P.zip (List.range P.length)).length := by simp; exact hpp
      have hr' : p < rows.length := by omega
      have erow := mapM_ok_getElem _ _ _ hrows p hz hr'
      simp only [List.getElem_zip, List.getElem_range] at erow
      obtain ⟨_, hq, hchk⟩ := G3.seqxRow_inv s chans _ _ _ erow
      refine ⟨(rows[p]).2, hq, hchk, ?_⟩
      simp [seqxPackage, List.getElem?_eq_getElem hr']

/-! ### success implies the AWG70000A limits -/

/-- ValueError clause: the SEQX voltage check either passes or raises ValueError, nothing else -/
theorem seqxRangeCheck_total (xs : List ℚ) (a : ℚ) :
    seqxRangeCheck xs a = .ok () ∨ seqxRangeCheck xs a = .error .value := by
  unfold seqxRangeCheck
  split
  · exact .inr rfl
  · split
    · exact .inr rfl
    · exact .inl rfl

/-- what passing the SEQX phase-1 check means for one waveform -/
theorem seqxCheckWave_inv (pos : ℕ) (el : Dict Chan ChOutF) (x : Chan × ℚ) (obs : List RangeOb)
    (h : seqxCheckWave pos el x = .ok obs) :
    ∃ c w, lookupCh el x.1 = .ok c ∧ chWave c = .ok w ∧ 2400 ≤ w.len ∧
      (∀ xs, w.eval? = some xs → seqxRangeCheck xs x.2 = .ok () ∧ obs = []) ∧
      (w.eval? = none → obs = [⟨pos, x.1, w, -x.2 / 2, x.2 / 2⟩]) := by
  unfold seqxCheckWave at h
  split at h
  · cases h
  · rename_i c hc
    split at h
    · cases h
    · rename_i w hw
      split at h
      · cases h
      · rename_i hlen
        have hl : 2400 ≤ w.len := by
          have := (len_ok_iff (w.len : ℤ)).mp (by simpa using hlen)
          exact_mod_cast this
        refine ⟨c, w, hc, hw, hl, ?_⟩
        split at h
        · rename_i xs hxs
          cases hr : seqxRangeCheck xs x.2 with
          | error e => rw [hr] at h; simp [Except.map] at h
          | ok u =>
            rw [hr] at h
            simp only [Except.map, Except.ok.injEq] at h
            refine ⟨?_, ?_⟩
            · intro xs' hxs'
              rw [hxs] at hxs'
              cases hxs'
              exact ⟨hr, h.symm⟩
            · intro hn; rw [hn] at hxs; cases hxs
        · rename_i hnone
          simp only [Except.ok.injEq] at h
          refine ⟨?_, ?_⟩
          · intro xs hxs; rw [hnone] at hxs; cases hxs
          · intro _; exact h.symm

/-- every (position, channel) cell of a passed phase 1 passed `seqxCheckWave` -/
theorem seqxPhase1_cell (P : List (Dict Chan ChOutF)) (chans : List Chan) (amps : List ℚ) (obs : List RangeOb)
    (h : seqxPhase1 P chans amps = .ok obs) (hla : amps.length = chans.length)
    (p : ℕ) (hp : p < P.length) (i : ℕ) (hi : i < chans.length) (hi' : i < amps.length) :
    ∃ ob, seqxCheckWave (p + 1) P[p] (chans[i], amps[i]) = .ok ob := by
  unfold seqxPhase1 at h
  cases hm : (P.zip (List.range P.length)).mapM (fun p =>
      ((chans.zip amps).mapM (seqxCheckWave (p.2 + 1) p.1)).map List.flatten) with
  | error e => rw [hm] at h; simp [Except.map] at h
  | ok rows =>
    have hz : p < (P.zip (List.range P.length)).length := by simp; exact hp
    have hl := mapM_ok_length _ _ _ hm
    have er := mapM_ok_getElem _ _ _ hm p hz (by omega)
    simp only [List.getElem_zip, List.getElem_range] at er
    cases hin : (chans.zip amps).mapM (seqxCheckWave (p + 1) P[p]) with
    | error e => rw [hin] at er; simp [Except.map] at er
    | ok r =>
      have hzi : i < (chans.zip amps).length := by simp; omega
      have hl2 := mapM_ok_length _ _ _ hin
      have ei := mapM_ok_getElem _ _ _ hin i hzi (by omega)
      simp only [List.getElem_zip] at ei
      exact ⟨_, ei⟩

/-- **a returning `outputForSEQXFile` implies the limits**: with `chans` = `Sequence.channels`,
    every channel has a numeric amplitude `a`, and the forged waveform of every channel at every
    position has at least 2400 points and — when the model can evaluate it — exactly that many
    samples, all within `[-a/2, a/2]` -/
theorem seqx_ok_limits (s : Sequence) (d : Deferred SEQXPkg) (h : s.outputForSEQXFile = .ok d) :
    ∃ (P : List (Dict Chan ChOutF)) (chans : List Chan),
      s.prepareForOutputting = .ok P ∧ s.channels = .ok chans ∧
      ∀ i (hi : i < chans.length) p (hpp : p < P.length), ∃ a c w,
        s.specNum (keyOf chans[i] "amplitude") = some a ∧ lookupCh P[p] chans[i] = .ok c ∧ chWave c = .ok w ∧
        2400 ≤ w.len ∧
        ∀ xs, w.eval? = some xs → xs.length = w.len ∧ ∀ x ∈ xs, -a / 2 ≤ x ∧ x ≤ a / 2 := by
  obtain ⟨P, chans, amps, hP, hch, hamps, hph1, _⟩ := G3.seqx_inv s d h
  obtain ⟨hla, hspec⟩ := G3.amps_spec s chans amps hamps
  refine ⟨P, chans, hP, hch, ?_⟩
  intro i hi p hpp
  have hi' : i < amps.length := by omega
  obtain ⟨ob, hob⟩ := seqxPhase1_cell P chans amps _ hph1 hla p hpp i hi hi'
  obtain ⟨c, w, hc, hw, hlen, hev, _⟩ := seqxCheckWave_inv _ _ _ _ hob
  refine ⟨amps[i], c, w, hspec i hi hi', hc, hw, hlen, ?_⟩
  intro xs hxs
  have hxl := G3.wave_eval_length w xs hxs
  refine ⟨hxl, ?_⟩
  have hne : xs ≠ [] := by
    intro he
    rw [he] at hxl
    simp at hxl
    omega
  exact (range_check_iff xs amps[i] hne).1.mp (hev xs hxs).1

/-- ... in particular every waveform of a delivered package: `wfms[i][p] = (w, m1, m2)` has
    `w.len ≥ 2400` points and evaluable samples within ± amplitude/2 of channel `chans[i]` -/
theorem seqx_delivered_limits (s : Sequence) (d : Deferred SEQXPkg) (pkg : SEQXPkg)
    (h : s.outputForSEQXFile = .ok d) (hp : d.pkg = some pkg) (chans : List Chan) (hch : s.channels = .ok chans)
    (i p : ℕ) (cell : Wave × List ℚ × List ℚ) (hw : (pkg.wfms[i]?).bind (·[p]?) = some cell) :
    ∃ (hi : i < chans.length) (a : ℚ), s.specNum (keyOf chans[i] "amplitude") = some a ∧
      2400 ≤ cell.1.len ∧ ∀ xs, cell.1.eval? = some xs → xs.length = cell.1.len ∧ ∀ x ∈ xs, -a / 2 ≤ x ∧ x ≤ a / 2 := by
  obtain ⟨P, chans', amps, hP, _, hch', _, _, _, _, _, hwl, hcol, _, _, _, _, _, hcell, _⟩ :=
    seqx_content_channels s d pkg h hp
  rw [hch] at hch'
  simp only [Except.ok.injEq] at hch'
  subst hch'
  obtain ⟨P', chans'', hP', hch'', hlim⟩ := seqx_ok_limits s d h
  rw [hP] at hP'
  have hPP := Except.ok.inj hP'
  subst hPP
  rw [hch] at hch''
  simp only [Except.ok.injEq] at hch''
  subst hch''
  have hi : i < pkg.wfms.length := by
    by_contra hn
    have : pkg.wfms[i]? = none := by simp; omega
    rw [this] at hw; cases hw
  have hcolp : p < (pkg.wfms[i]).length := by
    by_contra hn
    rw [List.getElem?_eq_getElem hi] at hw
    simp only [Option.bind_some] at hw
    have : (pkg.wfms[i])[p]? = none := by simp; omega
    rw [this] at hw; cases hw
  have hpp : p < P.length := by rw [← hcol _ (List.getElem_mem hi)]; exact hcolp
  have hic : i < chans.length := by omega
  obtain ⟨c, w, m1, m2, hc, hcw, _, _, hcellw⟩ := hcell i hic p hpp
  rw [hw] at hcellw
  simp only [Option.some.injEq] at hcellw
  subst hcellw
  obtain ⟨a, c', w', ha, hc', hw', hlen, hxs⟩ := hlim i hic p hpp
  rw [hc] at hc'
  have hcc := Except.ok.inj hc'
  subst hcc
  rw [hcw] at hw'
  have hww := Except.ok.inj hw'
  subst hww
  exact ⟨hic, a, ha, hlen, hxs⟩

/-! ### the error direction, at the public operation -/

/-- ValueError clause, one waveform: the phase-1 check of `outputForSEQXFile` either accepts the waveform or
    raises ValueError; it raises for fewer than 2400 points or an evaluable waveform failing the voltage
    check, and accepts a long enough waveform that passes it or cannot be evaluated -/
theorem seqxCheckWave_total (pos : ℕ) (el : Dict Chan ChOutF) (x : Chan × ℚ) (c : ChOutF) (w : Wave)
    (hc : lookupCh el x.1 = .ok c) (hw : chWave c = .ok w) :
    ((∃ y, seqxCheckWave pos el x = .ok y) ∨ seqxCheckWave pos el x = .error .value) ∧
    (w.len < 2400 → seqxCheckWave pos el x = .error .value) ∧
    (∀ xs, w.eval? = some xs → seqxRangeCheck xs x.2 ≠ .ok () → seqxCheckWave pos el x = .error .value) ∧
    (2400 ≤ w.len → (∀ xs, w.eval? = some xs → seqxRangeCheck xs x.2 = .ok ()) → ∃ y, seqxCheckWave pos el x = .ok y) := by
  unfold seqxCheckWave
  simp only [hc, hw]
  by_cases hlen : w.len < 2400
  · have : Gen.seqxLenBad (w.len : ℤ) = true := by
      simp only [Gen.seqxLenBad, decide_eq_true_eq]; omega
    simp only [this, if_true]
    refine ⟨?_, ?_, ?_, ?_⟩
    · simp
    · simp
    · simp
    · intro h; omega
  · have : Gen.seqxLenBad (w.len : ℤ) = false := by
      simp only [Gen.seqxLenBad, decide_eq_false_iff_not]; omega
    simp only [this, Bool.false_eq_true, if_false]
    cases hxs : w.eval? with
    | none => simp [hlen]
    | some xs =>
      simp only
      rcases seqxRangeCheck_total xs x.2 with hr | hr
      · simp [hr, Except.map, hlen]
      · simp [hr, Except.map, hlen]

/-- helper for the ValueError clause: mapping over a result keeps "returns or raises `e`" -/
theorem except_map_ok_or_error {α β : Type} (x : Except Err α) (f : α → β) (e : Err)
    (h : (∃ y, x = .ok y) ∨ x = .error e) : (∃ y, x.map f = .ok y) ∨ x.map f = .error e := by
  rcases h with ⟨y, rfl⟩ | rfl
  · exact .inl ⟨f y, rfl⟩
  · exact .inr rfl

/-- **a waveform that is too short or leaves ± amplitude/2: ValueError** — for a sequence that
    passed `_prepareForOutputting`, with a numeric amplitude on every channel and a waveform on
    every looked-up channel, one waveform with fewer than 2400 points, or one evaluable waveform
    with a sample outside `[-amplitude/2, amplitude/2]`, makes `outputForSEQXFile` (and the flags
    variant) raise ValueError -/
theorem seqx_value_error (s : Sequence) (P : List (Dict Chan ChOutF)) (chans : List Chan)
    (hP : s.prepareForOutputting = .ok P) (hch : s.channels = .ok chans)
    (hnum : ∀ ch ∈ chans, ∃ a, s.specNum (keyOf ch "amplitude") = some a)
    (hwave : ∀ el ∈ P, ∀ ch ∈ chans, ∀ c, lookupCh el ch = .ok c → ∃ w, chWave c = .ok w)
    (p : ℕ) (hp : p < P.length) (ch : Chan) (hm : ch ∈ chans) (c : ChOutF) (w : Wave) (a : ℚ)
    (hc : lookupCh P[p] ch = .ok c) (hw : chWave c = .ok w) (ha : s.specNum (keyOf ch "amplitude") = some a)
    (hbad : w.len < 2400 ∨ ∃ xs x, w.eval? = some xs ∧ x ∈ xs ∧ (x < -a / 2 ∨ a / 2 < x)) :
    s.outputForSEQXFile = .error .value := by
  obtain ⟨hcc, en, hen, hchans⟩ := G3.channels_inv s chans hch
  obtain ⟨chans', hch', _, _, hcells⟩ := G3.prepare_cells s P hP
  rw [hch] at hch'
  simp only [Except.ok.injEq] at hch'
  subst hch'
  unfold outputForSEQXFile
  simp only [hP, hen, hchans]
  split
  · rename_i e he
    exfalso
    obtain ⟨ch', hm', hf⟩ := G3.mapM_error_mem _ _ _ he
    obtain ⟨a', ha'⟩ := hnum ch' hm'
    simp only [ha'] at hf
    cases hf
  · rename_i amps hamps
    obtain ⟨hla, hspec⟩ := G3.amps_spec s chans amps hamps
    have hcell : ∀ p' (hp' : p' < P.length), ∀ x ∈ chans.zip amps,
        (∃ y, seqxCheckWave (p' + 1) P[p'] x = .ok y) ∨ seqxCheckWave (p' + 1) P[p'] x = .error .value := by
      intro p' hp' x hx
      have hx1 : x.1 ∈ chans := (List.of_mem_zip hx).1
      obtain ⟨e, _, hl⟩ := hcells p' hp'
      obtain ⟨ent, c', _, hc', _⟩ := hl x.1 hx1
      obtain ⟨w', hw'⟩ := hwave _ (List.getElem_mem hp') x.1 hx1 c' hc'
      exact (seqxCheckWave_total (p' + 1) P[p'] x c' w' hc' hw').1
    have hbadcell : ∃ x ∈ chans.zip amps, seqxCheckWave (p + 1) P[p] x = .error .value := by
      obtain ⟨i, hi, rfl⟩ := List.getElem_of_mem hm
      have hi' : i < amps.length := by omega
      have hai : amps[i] = a := by
        have := hspec i hi hi'
        rw [ha] at this
        exact (Option.some.inj this).symm
      refine ⟨(chans[i], amps[i]), ?_, ?_⟩
      · have hz : i < (chans.zip amps).length := by simp; omega
        have := List.getElem_mem hz
        simpa using this
      · have htot := seqxCheckWave_total (p + 1) P[p] (chans[i], amps[i]) c w hc hw
        rcases hbad with hlen | ⟨xs, x, hxs, hx, hout⟩
        · exact htot.2.1 hlen
        · apply htot.2.2.1 xs hxs
          intro hok
          have hne : xs ≠ [] := by intro he; rw [he] at hx; simp at hx
          have := ((range_check_iff xs amps[i] hne).1.mp hok) x hx
          rw [hai] at this
          rcases hout with h1 | h1 <;> linarith [this.1, this.2]
    have hph : seqxPhase1 P chans amps = .error .value := by
      unfold seqxPhase1
      have : (P.zip (List.range P.length)).mapM (fun p =>
          ((chans.zip amps).mapM (seqxCheckWave (p.2 + 1) p.1)).map List.flatten) = .error .value := by
        apply G3.mapM_error_of
        · intro x hx'
          obtain ⟨p', hp', rfl⟩ := G3.mem_zip_range P x hx'
          exact except_map_ok_or_error _ _ _ (G3.mapM_ok_or_error _ _ _ (hcell p' hp'))
        · refine ⟨(P[p], p), G3.zip_range_mem P p hp, ?_⟩
          have := G3.mapM_error_of _ _ _ (hcell p hp) hbadcell
          simp only [this, Except.map]
      rw [this]; rfl
    simp only [hph]

/-- the flag collection of the flags variant never fails on a prepared sequence -/
theorem flags_collect_ok (s : Sequence) (P : List (Dict Chan ChOutF)) (chans : List Chan)
    (hP : s.prepareForOutputting = .ok P) (hch : s.channels = .ok chans) :
    ∃ flags, chans.mapM (fun ch => P.mapM (fun el => seqxFlagCell el ch)) = .ok flags := by
  obtain ⟨chans', hch', _, _, hcells⟩ := G3.prepare_cells s P hP
  rw [hch] at hch'
  simp only [Except.ok.injEq] at hch'
  subst hch'
  apply G3.mapM_ok_of_forall_ex
  intro ch hm
  apply G3.mapM_ok_of_forall_ex
  intro el hel
  obtain ⟨p, hp, rfl⟩ := List.getElem_of_mem hel
  obtain ⟨e, _, hl⟩ := hcells p hp
  obtain ⟨ent, c, _, hc, _⟩ := hl ch hm
  exact ⟨(chFlags c).getD [0, 0, 0, 0], by simp only [seqxFlagCell, hc]⟩

/-- **the flags variant raises exactly what `outputForSEQXFile` raises** (too short, out of range,
    bad sequencing, missing settings, inconsistent sequence) -/
theorem seqxFlags_error_of_seqx (s : Sequence) (e : Err) (h : s.outputForSEQXFile = .error e) :
    s.outputForSEQXFileWithFlags = .error e := by
  unfold outputForSEQXFileWithFlags
  cases hP : s.prepareForOutputting with
  | error e' =>
    simp only
    unfold outputForSEQXFile at h
    rw [hP] at h
    exact h
  | ok P =>
    simp only
    obtain ⟨chans, hch, _⟩ := G3.prepare_cells s P hP
    obtain ⟨hcc, en, hen, hchans⟩ := G3.channels_inv s chans hch
    obtain ⟨flags, hflags⟩ := flags_collect_ok s P chans hP hch
    simp only [hen, hchans, hflags, h]

/-- **the flags variant returns exactly when `outputForSEQXFile` does**, with the same obligations
    and pending exception, and the same package plus the flags -/
theorem seqxFlags_ok_of_seqx (s : Sequence) (d0 : Deferred SEQXPkg) (h : s.outputForSEQXFile = .ok d0) :
    ∃ flags, s.outputForSEQXFileWithFlags =
      .ok { d0 with pkg := d0.pkg.map (fun p => { p with flags := some flags }) } := by
  obtain ⟨P, chans, amps, hP, hch, _⟩ := G3.seqx_inv s d0 h
  obtain ⟨hcc, en, hen, hchans⟩ := G3.channels_inv s chans hch
  obtain ⟨flags, hflags⟩ := flags_collect_ok s P chans hP hch
  refine ⟨flags, ?_⟩
  unfold outputForSEQXFileWithFlags
  simp only [hP, hen, hchans, hflags, h]

/-- SequencingError clause, one position: with waveform and both markers on every channel and a
    sequencing entry `q`, phase 2 of `outputForSEQXFile` returns the row when `q` passes the AWG70000A
    checks and raises SequencingError otherwise -/
theorem seqxRow_total (s : Sequence) (chans : List Chan) (N : ℤ) (el : Dict Chan ChOutF) (p : ℕ) (q : SeqSet)
    (hq : Dict.get? s.sequencing ((p + 1 : ℕ) : ℤ) = some q)
    (hmk : ∀ ch ∈ chans, ∃ c w m1 m2, lookupCh el ch = .ok c ∧ chWave c = .ok w ∧ chMarker c 1 = .ok m1 ∧ chMarker c 2 = .ok m2) :
    (seqxSeqCheck q N = .ok () → ∃ y, seqxRow s chans N (el, p) = .ok y) ∧
    (seqxSeqCheck q N ≠ .ok () → seqxRow s chans N (el, p) = .error .sequencing) := by
  obtain ⟨row, hrow⟩ := G3.mapM_ok_of_forall_ex (seqxCell el) chans (by
    intro ch hm
    obtain ⟨c, w, m1, m2, hc, hw, h1, h2⟩ := hmk ch hm
    exact ⟨(w, m1, m2), by simp only [seqxCell, hc, hw, h1, h2]⟩)
  unfold seqxRow
  simp only [hrow, hq]
  constructor
  · intro hok; rw [hok]; exact ⟨_, rfl⟩
  · intro hbad
    have := (seq_check_iff q N).2 hbad
    rw [this]

/-- no obligations are deferred when every waveform is evaluable -/
theorem seqxPhase1_obs_nil (P : List (Dict Chan ChOutF)) (chans : List Chan) (amps : List ℚ) (obs : List RangeOb)
    (h : seqxPhase1 P chans amps = .ok obs)
    (hev : ∀ el ∈ P, ∀ ch ∈ chans, ∀ c w, lookupCh el ch = .ok c → chWave c = .ok w → w.eval? ≠ none) : obs = [] := by
  unfold seqxPhase1 at h
  cases hm : (P.zip (List.range P.length)).mapM (fun p =>
      ((chans.zip amps).mapM (seqxCheckWave (p.2 + 1) p.1)).map List.flatten) with
  | error e => rw [hm] at h; simp [Except.map] at h
  | ok rows =>
    rw [hm] at h
    simp only [Except.map, Except.ok.injEq] at h
    subst h
    simp only [List.flatten_eq_nil_iff]
    intro row hrow
    obtain ⟨x, hx, hxr⟩ := G3.mapM_result_mem _ _ _ hm row hrow
    obtain ⟨p, hp, rfl⟩ := G3.mem_zip_range P x hx
    simp only at hxr
    cases hin : (chans.zip amps).mapM (seqxCheckWave (p + 1) P[p]) with
    | error e => rw [hin] at hxr; simp [Except.map] at hxr
    | ok r =>
      rw [hin] at hxr
      simp only [Except.map, Except.ok.injEq] at hxr
      subst hxr
      simp only [List.flatten_eq_nil_iff]
      intro ob hob
      obtain ⟨y, hy, hyo⟩ := G3.mapM_result_mem _ _ _ hin ob hob
      obtain ⟨c, w, hc, hw, _, hsome, _⟩ := seqxCheckWave_inv _ _ _ _ hyo
      cases hxs : w.eval? with
      | none => exact absurd hxs (hev _ (List.getElem_mem hp) y.1 (List.of_mem_zip hy).1 c w hc hw)
      | some xs => exact (hsome xs hxs).2

/-- **a sequencing setting outside the instrument ranges: SequencingError** — for a sequence that
    passed `_prepareForOutputting`, with numeric amplitudes, waveform and markers on every channel,
    every waveform ≥ 2400 points and every evaluable waveform within ± amplitude/2, one position
    whose sequencing entry violates (wait, event input ∈ 0..3, repetitions ∈ 0..16383, jump target
    ∈ -1..N, goto ∈ 0..N) makes `outputForSEQXFile` raise SequencingError: at once when every
    waveform is evaluable in the model; otherwise the result says "ValueError if a deferred range
    obligation fails, else SequencingError" — in no case is a package returned -/
theorem seqx_sequencing_error (s : Sequence) (P : List (Dict Chan ChOutF)) (chans : List Chan)
    (hP : s.prepareForOutputting = .ok P) (hch : s.channels = .ok chans)
    (hnum : ∀ ch ∈ chans, ∃ a, s.specNum (keyOf ch "amplitude") = some a)
    (hcellsok : C14.CellsOk P chans)
    (hlim : ∀ el ∈ P, ∀ ch ∈ chans, ∀ c w a, lookupCh el ch = .ok c → chWave c = .ok w →
      s.specNum (keyOf ch "amplitude") = some a →
      2400 ≤ w.len ∧ ∀ xs, w.eval? = some xs → ∀ x ∈ xs, -a / 2 ≤ x ∧ x ≤ a / 2)
    (p : ℕ) (hp : p < P.length) (q : SeqSet) (hq : Dict.get? s.sequencing ((p + 1 : ℕ) : ℤ) = some q)
    (hbad : ¬ ((0 ≤ q.twait ∧ q.twait ≤ 3) ∧ (0 ≤ q.jump_input ∧ q.jump_input ≤ 3) ∧ (0 ≤ q.nrep ∧ q.nrep ≤ 16383) ∧
      (-1 ≤ q.jump_target ∧ q.jump_target ≤ (P.length : ℤ)) ∧ (0 ≤ q.goto ∧ q.goto ≤ (P.length : ℤ)))) :
    (s.outputForSEQXFile = .error .sequencing ∨
      ∃ d, s.outputForSEQXFile = .ok d ∧ d.obligations ≠ [] ∧ d.thenErr = some .sequencing ∧ d.pkg = none) ∧
    ((∀ el ∈ P, ∀ ch ∈ chans, ∀ c w, lookupCh el ch = .ok c → chWave c = .ok w → w.eval? ≠ none) →
      s.outputForSEQXFile = .error .sequencing) := by
  obtain ⟨hcc, en, hen, hchans⟩ := G3.channels_inv s chans hch
  obtain ⟨chans', hch', hlen, _, hcells⟩ := G3.prepare_cells s P hP
  rw [hch] at hch'
  simp only [Except.ok.injEq] at hch'
  subst hch'
  have hlook : ∀ p' (hp' : p' < P.length), ∀ ch' ∈ chans, ∃ c', lookupCh P[p'] ch' = .ok c' := by
    intro p' hp' ch' hm'
    obtain ⟨e, _, hl⟩ := hcells p' hp'
    obtain ⟨ent, c', _, hc', _⟩ := hl ch' hm'
    exact ⟨c', hc'⟩
  have hmk : ∀ p' (hp' : p' < P.length), ∀ ch' ∈ chans, ∃ c w m1 m2,
      lookupCh P[p'] ch' = .ok c ∧ chWave c = .ok w ∧ chMarker c 1 = .ok m1 ∧ chMarker c 2 = .ok m2 := by
    intro p' hp' ch' hm'
    obtain ⟨c', hc'⟩ := hlook p' hp' ch' hm'
    obtain ⟨⟨w, hw⟩, ⟨m1, h1⟩, ⟨m2, h2⟩⟩ := hcellsok _ (List.getElem_mem hp') ch' hm' c' hc'
    exact ⟨c', w, m1, m2, hc', hw, h1, h2⟩
  have hrows : (P.zip (List.range P.length)).mapM (seqxRow s chans (P.length : ℤ)) = .error .sequencing := by
    apply G3.mapM_error_of
    · intro x hx
      obtain ⟨p', hp', rfl⟩ := G3.mem_zip_range P x hx
      obtain ⟨q', hq'⟩ := G3.prepare_sequencing_lookup s P hP ((p' + 1 : ℕ) : ℤ) (by omega) (by omega)
      have := seqxRow_total s chans (P.length : ℤ) P[p'] p' q' hq' (hmk p' hp')
      by_cases hok : seqxSeqCheck q' (P.length : ℤ) = .ok ()
      · exact .inl (this.1 hok)
      · exact .inr (this.2 hok)
    · refine ⟨(P[p], p), G3.zip_range_mem P p hp, ?_⟩
      apply (seqxRow_total s chans (P.length : ℤ) P[p] p q hq (hmk p hp)).2
      intro hok
      exact hbad ((seq_check_iff q _).1.mp hok)
  unfold outputForSEQXFile
  simp only [hP, hen, hchans]
  split
  · rename_i e he
    exfalso
    obtain ⟨ch', hm', hf⟩ := G3.mapM_error_mem _ _ _ he
    obtain ⟨a', ha'⟩ := hnum ch' hm'
    simp only [ha'] at hf
    cases hf
  · rename_i amps hamps
    obtain ⟨hla, hspec⟩ := G3.amps_spec s chans amps hamps
    -- phase 1 passes
    have hph : ∃ obs, seqxPhase1 P chans amps = .ok obs := by
      unfold seqxPhase1
      obtain ⟨rows, hrowsok⟩ := G3.mapM_ok_of_forall_ex (fun (p : Dict Chan ChOutF × ℕ) =>
          ((chans.zip amps).mapM (seqxCheckWave (p.2 + 1) p.1)).map List.flatten) (P.zip (List.range P.length)) (by
        intro x hx
        obtain ⟨p', hp', rfl⟩ := G3.mem_zip_range P x hx
        obtain ⟨r, hr⟩ := G3.mapM_ok_of_forall_ex (seqxCheckWave (p' + 1) P[p']) (chans.zip amps) (by
          intro y hy
          obtain ⟨i, hi, rfl⟩ := List.getElem_of_mem hy
          have hic : i < chans.length := by simp at hi; omega
          have hia : i < amps.length := by simp at hi; omega
          simp only [List.getElem_zip]
          obtain ⟨c', w', _, _, hc', hw', _, _⟩ := hmk p' hp' chans[i] (List.getElem_mem hic)
          obtain ⟨hl2400, hxs⟩ := hlim _ (List.getElem_mem hp') chans[i] (List.getElem_mem hic) c' w' amps[i] hc' hw'
            (hspec i hic hia)
          apply (seqxCheckWave_total (p' + 1) P[p'] (chans[i], amps[i]) c' w' hc' hw').2.2.2 hl2400
          intro xs hev
          have hxl := G3.wave_eval_length w' xs hev
          have hne : xs ≠ [] := by
            intro he; rw [he] at hxl; simp at hxl; omega
          exact (range_check_iff xs amps[i] hne).1.mpr (hxs xs hev))
        exact ⟨r.flatten, by simp only [hr, Except.map]⟩)
      exact ⟨rows.flatten, by rw [hrowsok]; rfl⟩
    obtain ⟨obs, hobs⟩ := hph
    simp only [hobs, hrows]
    constructor
    · split
      · exact .inl rfl
      · rename_i hne
        refine .inr ⟨_, rfl, ?_, rfl, rfl⟩
        intro he
        apply hne
        simp only at he
        simp [he]
    · intro hev
      have := seqxPhase1_obs_nil P chans amps obs hobs hev
      subst this
      simp

/-! ### flags, end to end -/

/-- an accepted flag token means an integer 0..4 -/
theorem flagToken_le (v : Val) (n : ℕ) (h : flagToken? v = some n) : n ≤ 4 := by
  have keyI : ∀ k ∈ Gen.flagAllowedInt, (((Gen.flagAliasInt.lookup k).map Int.toNat).all (fun n => decide (n ≤ 4))) = true := by
    decide
  have keyS : ∀ s ∈ Gen.flagAllowedStr, (((Gen.flagAliasStr.lookup s).map Int.toNat).all (fun n => decide (n ≤ 4))) = true := by
    decide
  unfold flagToken? at h
  split at h
  · rename_i q
    split at h
    · rename_i hq
      have hm : q.num ∈ Gen.flagAllowedInt := by simpa using hq.2
      have := keyI _ hm
      rw [h] at this
      simpa using this
    · cases h
  · rename_i s
    split at h
    · rename_i hs
      have hm : s ∈ Gen.flagAllowedStr := by simpa using hs
      have := keyS _ hm
      rw [h] at this
      simpa using this
    · cases h
  · cases h

/-- **what an accepted `addFlags` stores**: the call is accepted exactly when the channel exists,
    there are four tokens and every token is one of 0-4, '', 'H', 'L', 'T', 'P'; the channel then
    holds four integers, each 0..4, the `k`-th being the meaning of the `k`-th token -/
theorem addFlags_ok_spec (e : Element) (ch : Chan) (fl : List Val) (h : (e.addFlags ch fl).err = none) :
    ∃ ent ints, Dict.get? e.chans ch = some ent ∧ fl.length = 4 ∧ fl.mapM flagToken? = some ints ∧
      ints.length = 4 ∧ (∀ n ∈ ints, n ≤ 4) ∧
      (∀ k (hk : k < fl.length) (hk' : k < ints.length), flagToken? fl[k] = some ints[k]) ∧
      Dict.get? (e.addFlags ch fl).st.chans ch = some { ent with flags := some ints } := by
  by_cases hl : fl.length = 4
  · cases ht : fl.mapM flagToken? with
    | none =>
      have : Gen.flagsLenBad fl.length = false := by simp [Gen.flagsLenBad, hl]
      simp [Element.addFlags, this, ht] at h
    | some ints =>
      cases hc : Dict.get? e.chans ch with
      | none =>
        have : Gen.flagsLenBad fl.length = false := by simp [Gen.flagsLenBad, hl]
        simp [Element.addFlags, this, ht, hc] at h
      | some ent =>
        obtain ⟨l1, l2, l3⟩ := G3.optMapM_some _ _ _ ht
        refine ⟨ent, ints, rfl, hl, rfl, by omega, ?_, l3, (flags_stored e ch fl ent ints hl ht hc).2⟩
        intro n hn
        obtain ⟨v, _, hv⟩ := l2 n hn
        exact flagToken_le v n hv
  · have := (flags_length e ch fl hl).1
    rw [this] at h; cases h

/-- **a bad flag token is rejected**: ValueError, and the element is unchanged -/
theorem flags_bad_token (e : Element) (ch : Chan) (fl : List Val) (v : Val) (hv : v ∈ fl)
    (hbad : flagToken? v = none) : (e.addFlags ch fl).err = some .value ∧ (e.addFlags ch fl).st = e := by
  unfold Element.addFlags
  split
  · exact ⟨rfl, rfl⟩
  · have : fl.mapM flagToken? = none := (G3.optMapM_none_iff _ _).mpr ⟨v, hv, hbad⟩
    simp only [this]
    exact ⟨trivial, trivial⟩

/-- `addFlags` on a channel the element does not have: KeyError, element unchanged -/
theorem flags_unknown_channel (e : Element) (ch : Chan) (fl : List Val) (ints : List ℕ) (hl : fl.length = 4)
    (ht : fl.mapM flagToken? = some ints) (hc : Dict.get? e.chans ch = none) :
    (e.addFlags ch fl).err = some .key ∧ (e.addFlags ch fl).st = e := by
  unfold Element.addFlags
  have : Gen.flagsLenBad fl.length = false := by simp [Gen.flagsLenBad, hl]
  simp only [this, Bool.false_eq_true, if_false, ht, hc]
  exact ⟨trivial, trivial⟩

/-- **flags, end to end**: `outputForSEQXFileWithFlags` delivers, for channel `i` of
    `Sequence.channels` and position `p + 1`, exactly the flags stored on that channel of the
    element at that position (`[0, 0, 0, 0]` where none were stored) — delays and filter
    compensation do not touch them; there is one list per channel with one entry per position -/
theorem seqx_flags_end_to_end (s : Sequence) (d : Deferred SEQXPkg) (pkg : SEQXPkg)
    (h : s.outputForSEQXFileWithFlags = .ok d) (hp : d.pkg = some pkg) :
    ∃ (chans : List Chan) (flags : List (List (List ℕ))) (d0 : Deferred SEQXPkg) (pkg0 : SEQXPkg),
      s.channels = .ok chans ∧ s.outputForSEQXFile = .ok d0 ∧ d0.pkg = some pkg0 ∧
      pkg = { pkg0 with flags := some flags } ∧
      flags.length = chans.length ∧ (∀ col ∈ flags, col.length = s.data.length) ∧
      ∀ i (hi : i < chans.length) p (hpp : p < s.data.length), ∃ e ent,
        Dict.get? s.data ((p + 1 : ℕ) : ℤ) = some (.el e) ∧ Dict.get? e.chans chans[i] = some ent ∧
        (flags[i]?).bind (·[p]?) = some (ent.flags.getD [0, 0, 0, 0]) := by
  unfold outputForSEQXFileWithFlags at h
  cases hP : s.prepareForOutputting with
  | error e => rw [hP] at h; cases h
  | ok P =>
    rw [hP] at h
    simp only at h
    obtain ⟨chans, hch, hlen, _, hcells⟩ := G3.prepare_cells s P hP
    obtain ⟨hcc, en, hen, hchans⟩ := G3.channels_inv s chans hch
    simp only [hen, hchans] at h
    split at h
    · cases h
    · rename_i flags hflags
      split at h
      · cases h
      · rename_i d0 hd0
        cases h
        simp only [Option.map_eq_some_iff] at hp
        obtain ⟨pkg0, hpkg0, rfl⟩ := hp
        have hl := mapM_ok_length _ _ _ hflags
        refine ⟨chans, flags, d0, pkg0, hch, hd0, hpkg0, rfl, hl, ?_, ?_⟩
        · intro col hcol
          obtain ⟨ch, _, hc⟩ := G3.mapM_result_mem _ _ _ hflags col hcol
          rw [← hlen]
          exact mapM_ok_length _ _ _ hc
        · intro i hi p hpp
          have hpP : p < P.length := by omega
          have hi' : i < flags.length := by omega
          have er := mapM_ok_getElem _ _ _ hflags i hi hi'
          have hrl := mapM_ok_length _ _ _ er
          have hp' : p < (flags[i]).length := by omega
          have ec := mapM_ok_getElem _ _ _ er p hpP hp'
          obtain ⟨e, he, hl'⟩ := hcells p hpP
          obtain ⟨ent, c, hent, hc, hfl, _⟩ := hl' chans[i] (List.getElem_mem hi)
          refine ⟨e, ent, he, hent, ?_⟩
          simp only [seqxFlagCell, hc, Except.ok.injEq] at ec
          simp [List.getElem?_eq_getElem hi', List.getElem?_eq_getElem hp', ← ec, hfl]

/-- **flags given to `addFlags` come out of the flags variant**: if the element at position `p + 1`
    holds, on channel `chans[i]`, what an accepted `addFlags(chans[i], tokens)` stored, the package
    reports for (channel `i`, position `p`) four integers, each 0..4, the `k`-th being the meaning
    of the `k`-th token (aliases '', H, L, T, P = 0..4) -/
theorem seqx_flags_of_addFlags (s : Sequence) (d : Deferred SEQXPkg) (pkg : SEQXPkg)
    (h : s.outputForSEQXFileWithFlags = .ok d) (hp : d.pkg = some pkg)
    (chans : List Chan) (hch : s.channels = .ok chans) (i : ℕ) (hi : i < chans.length) (p : ℕ) (hpp : p < s.data.length)
    (e0 e : Element) (tokens : List Val) (hacc : (e0.addFlags chans[i] tokens).err = none)
    (hst : e.chans = (e0.addFlags chans[i] tokens).st.chans)
    (hpos : Dict.get? s.data ((p + 1 : ℕ) : ℤ) = some (.el e)) :
    ∃ flags ints, pkg.flags = some flags ∧ (flags[i]?).bind (·[p]?) = some ints ∧ ints.length = 4 ∧
      (∀ n ∈ ints, n ≤ 4) ∧ tokens.mapM flagToken? = some ints := by
  obtain ⟨chans', flags, d0, pkg0, hch', _, _, hpkg, _, _, hcell⟩ := seqx_flags_end_to_end s d pkg h hp
  rw [hch] at hch'
  simp only [Except.ok.injEq] at hch'
  subst hch'
  obtain ⟨e', ent', he', hent', hfl⟩ := hcell i hi p hpp
  rw [hpos] at he'
  simp only [Option.some.injEq, Entry.el.injEq] at he'
  subst he'
  obtain ⟨ent, ints, _, _, htok, hlen, hle, _, hstored⟩ := addFlags_ok_spec e0 chans[i] tokens hacc
  rw [hst, hstored] at hent'
  simp only [Option.some.injEq] at hent'
  subst hent'
  refine ⟨flags, ints, by rw [hpkg], ?_, hlen, hle, htok⟩
  simpa using hfl

/-- **acceptance**: a sequence that passed `_prepareForOutputting`, with a numeric amplitude,
    waveform and markers on every channel, every waveform ≥ 2400 points, every evaluable waveform
    within ± amplitude/2 and every sequencing entry within the instrument ranges, gets its package
    from `outputForSEQXFile` (no pending exception) — and, with the flags added, from
    `outputForSEQXFileWithFlags` -/
theorem seqx_accepts (s : Sequence) (P : List (Dict Chan ChOutF)) (chans : List Chan)
    (hP : s.prepareForOutputting = .ok P) (hch : s.channels = .ok chans)
    (hnum : ∀ ch ∈ chans, ∃ a, s.specNum (keyOf ch "amplitude") = some a)
    (hcellsok : C14.CellsOk P chans)
    (hlim : ∀ el ∈ P, ∀ ch ∈ chans, ∀ c w a, lookupCh el ch = .ok c → chWave c = .ok w →
      s.specNum (keyOf ch "amplitude") = some a →
      2400 ≤ w.len ∧ ∀ xs, w.eval? = some xs → ∀ x ∈ xs, -a / 2 ≤ x ∧ x ≤ a / 2)
    (hseq : ∀ p, p < P.length → ∀ q, Dict.get? s.sequencing ((p + 1 : ℕ) : ℤ) = some q →
      (0 ≤ q.twait ∧ q.twait ≤ 3) ∧ (0 ≤ q.jump_input ∧ q.jump_input ≤ 3) ∧ (0 ≤ q.nrep ∧ q.nrep ≤ 16383) ∧
      (-1 ≤ q.jump_target ∧ q.jump_target ≤ (P.length : ℤ)) ∧ (0 ≤ q.goto ∧ q.goto ≤ (P.length : ℤ))) :
    (∃ d pkg, s.outputForSEQXFile = .ok d ∧ d.thenErr = none ∧ d.pkg = some pkg) ∧
    (∃ d pkg, s.outputForSEQXFileWithFlags = .ok d ∧ d.thenErr = none ∧ d.pkg = some pkg) := by
  have main : ∃ d pkg, s.outputForSEQXFile = .ok d ∧ d.thenErr = none ∧ d.pkg = some pkg := by
    obtain ⟨hcc, en, hen, hchans⟩ := G3.channels_inv s chans hch
    obtain ⟨chans', hch', hlen, _, hcells⟩ := G3.prepare_cells s P hP
    rw [hch] at hch'
    simp only [Except.ok.injEq] at hch'
    subst hch'
    have hmk : ∀ p' (hp' : p' < P.length), ∀ ch' ∈ chans, ∃ c w m1 m2,
        lookupCh P[p'] ch' = .ok c ∧ chWave c = .ok w ∧ chMarker c 1 = .ok m1 ∧ chMarker c 2 = .ok m2 := by
      intro p' hp' ch' hm'
      obtain ⟨e, _, hl⟩ := hcells p' hp'
      obtain ⟨ent, c', _, hc', _⟩ := hl ch' hm'
      obtain ⟨⟨w, hw⟩, ⟨m1, h1⟩, ⟨m2, h2⟩⟩ := hcellsok _ (List.getElem_mem hp') ch' hm' c' hc'
      exact ⟨c', w, m1, m2, hc', hw, h1, h2⟩
    obtain ⟨rows, hrows⟩ := G3.mapM_ok_of_forall_ex (seqxRow s chans (P.length : ℤ)) (P.zip (List.range P.length)) (by
      intro x hx
      obtain ⟨p', hp', rfl⟩ := G3.mem_zip_range P x hx
      obtain ⟨q', hq'⟩ := G3.prepare_sequencing_lookup s P hP ((p' + 1 : ℕ) : ℤ) (by omega) (by omega)
      apply (seqxRow_total s chans (P.length : ℤ) P[p'] p' q' hq' (hmk p' hp')).1
      exact (seq_check_iff q' _).1.mpr (hseq p' hp' q' hq'))
    unfold outputForSEQXFile
    simp only [hP, hen, hchans]
    split
    · rename_i e he
      exfalso
      obtain ⟨ch', hm', hf⟩ := G3.mapM_error_mem _ _ _ he
      obtain ⟨a', ha'⟩ := hnum ch' hm'
      simp only [ha'] at hf
      cases hf
    · rename_i amps hamps
      obtain ⟨hla, hspec⟩ := G3.amps_spec s chans amps hamps
      have hph : ∃ obs, seqxPhase1 P chans amps = .ok obs := by
        unfold seqxPhase1
        obtain ⟨rows', hrowsok⟩ := G3.mapM_ok_of_forall_ex (fun (p : Dict Chan ChOutF × ℕ) =>
            ((chans.zip amps).mapM (seqxCheckWave (p.2 + 1) p.1)).map List.flatten) (P.zip (List.range P.length)) (by
          intro x hx
          obtain ⟨p', hp', rfl⟩ := G3.mem_zip_range P x hx
          obtain ⟨r, hr⟩ := G3.mapM_ok_of_forall_ex (seqxCheckWave (p' + 1) P[p']) (chans.zip amps) (by
            intro y hy
            obtain ⟨i, hi, rfl⟩ := List.getElem_of_mem hy
            have hic : i < chans.length := by simp at hi; omega
            have hia : i < amps.length := by simp at hi; omega
            simp only [List.getElem_zip]
            obtain ⟨c', w', _, _, hc', hw', _, _⟩ := hmk p' hp' chans[i] (List.getElem_mem hic)
            obtain ⟨hl2400, hxs⟩ := hlim _ (List.getElem_mem hp') chans[i] (List.getElem_mem hic) c' w' amps[i] hc' hw'
              (hspec i hic hia)
            apply (seqxCheckWave_total (p' + 1) P[p'] (chans[i], amps[i]) c' w' hc' hw').2.2.2 hl2400
            intro xs hev
            have hxl := G3.wave_eval_length w' xs hev
            have hne : xs ≠ [] := by
              intro he; rw [he] at hxl; simp at hxl; omega
            exact (range_check_iff xs amps[i] hne).1.mpr (hxs xs hev))
          exact ⟨r.flatten, by simp only [hr, Except.map]⟩)
        exact ⟨rows'.flatten, by rw [hrowsok]; rfl⟩
      obtain ⟨obs, hobs⟩ := hph
      simp only [hobs, hrows]
      exact ⟨_, _, rfl, rfl, rfl⟩
  refine ⟨main, ?_⟩
  obtain ⟨d, pkg, hd, hte, hpk⟩ := main
  obtain ⟨flags, hfl⟩ := seqxFlags_ok_of_seqx s d hd
  exact ⟨_, { pkg with flags := some flags }, hfl, hte, by simp [hpk]⟩

/-! ### non-vacuity of the SEQX theorems (concrete sequences of `BB.G3.Ex`, 2400 points per waveform) -/

/-- `seqx_accepts` applied: the two-position, two-channel example with 2400-point waveforms meets
    every hypothesis, so both variants return a package -/
theorem ex_seqx_ok :
    (∃ d pkg, G3.Ex.xseq.outputForSEQXFile = .ok d ∧ d.thenErr = none ∧ d.pkg = some pkg) ∧
    (∃ d pkg, G3.Ex.xseq.outputForSEQXFileWithFlags = .ok d ∧ d.thenErr = none ∧ d.pkg = some pkg) :=
  seqx_accepts G3.Ex.xseq G3.Ex.XP G3.Ex.chans G3.Ex.xseq_prepare G3.Ex.xseq_channels
    (G3.numB_spec_amp _ _ false (by decide +kernel)) (C14.cellsOk_of_check _ _ (by decide +kernel))
    (G3.seqxLimB_spec _ _ _ (by decide +kernel))
    (by
      have hl : G3.Ex.XP.length = 2 := by decide +kernel
      have := G3.seqCheck_spec G3.Ex.xseq 2 (fun q => decide ((0 ≤ q.twait ∧ q.twait ≤ 3) ∧
        (0 ≤ q.jump_input ∧ q.jump_input ≤ 3) ∧ (0 ≤ q.nrep ∧ q.nrep ≤ 16383) ∧
        (-1 ≤ q.jump_target ∧ q.jump_target ≤ 2) ∧ (0 ≤ q.goto ∧ q.goto ≤ 2))) (by decide +kernel)
      intro p hp q hq
      rw [hl] at hp ⊢
      simpa using this p hp q hq)

/-- `seqx_content_channels`, `seqx_ok_limits`, `seqx_delivered_limits`, `seqxFlags_ok_of_seqx`: instance of
    the hypothesis -/
example : ∃ d pkg, G3.Ex.xseq.outputForSEQXFile = .ok d ∧ d.pkg = some pkg := by
  obtain ⟨d, pkg, h, _, hp⟩ := ex_seqx_ok.1
  exact ⟨d, pkg, h, hp⟩

/-- `seqx_flags_end_to_end`: instance of the hypothesis -/
example : ∃ d pkg, G3.Ex.xseq.outputForSEQXFileWithFlags = .ok d ∧ d.pkg = some pkg := by
  obtain ⟨d, pkg, h, _, hp⟩ := ex_seqx_ok.2
  exact ⟨d, pkg, h, hp⟩

/-- `seqx_value_error` applied (too short): 2399 points on channel 1 of position 2 -/
example : G3.Ex.xseqShort.outputForSEQXFile = .error .value :=
  seqx_value_error G3.Ex.xseqShort G3.Ex.XPShort G3.Ex.chans G3.Ex.xseqShort_prepare G3.Ex.xseqShort_channels
    (G3.numB_spec_amp _ _ false (by decide +kernel)) (G3.waveB_spec _ _ (by decide +kernel))
    1 (by decide +kernel) (.int 1) (by decide)
    { out := .arrays [("m1", (G3.Ex.long 1 2399).map (fun _ => 0)), ("m2", (G3.Ex.long 1 2399).map (fun _ => 1)),
        ("wfm", G3.Ex.long 1 2399)] none none }
    { blocks := [.raw (G3.Ex.long 1 2399)] } 2
    (G3.toOption_eq_some _ _ (by decide +kernel)) (by decide +kernel) (by decide +kernel)
    (.inl (by decide +kernel))

/-- `seqx_value_error` applied (out of range): channel "A" (amplitude 1) sits at 1/2 + 1/1000 at position 2;
    by `seqxFlags_error_of_seqx` the flags variant raises the same -/
example : G3.Ex.xseqBadV.outputForSEQXFile = .error .value ∧ G3.Ex.xseqBadV.outputForSEQXFileWithFlags = .error .value := by
  have h : G3.Ex.xseqBadV.outputForSEQXFile = .error .value :=
    seqx_value_error G3.Ex.xseqBadV G3.Ex.XPBadV G3.Ex.chans G3.Ex.xseqBadV_prepare G3.Ex.xseqBadV_channels
      (G3.numB_spec_amp _ _ false (by decide +kernel)) (G3.waveB_spec _ _ (by decide +kernel))
      1 (by decide +kernel) (.str "A") (by decide)
      { out := .arrays [("m1", (G3.Ex.long (1/2 + 1/1000)).map (fun _ => 0)), ("m2", (G3.Ex.long (1/2 + 1/1000)).map (fun _ => 1)),
          ("wfm", G3.Ex.long (1/2 + 1/1000))] none none }
      { blocks := [.raw (G3.Ex.long (1/2 + 1/1000))] } 1
      (G3.toOption_eq_some _ _ (by decide +kernel)) (by decide +kernel) (by decide +kernel)
      (.inr ⟨G3.Ex.long (1/2 + 1/1000), 1/2 + 1/1000, by decide +kernel,
        List.mem_replicate.mpr ⟨by decide, rfl⟩, .inr (by norm_num)⟩)
  exact ⟨h, seqxFlags_error_of_seqx _ _ h⟩

/-- `seqx_sequencing_error` applied: 16384 repetitions at position 1, every waveform evaluable -/
example : G3.Ex.xseqBadRep.outputForSEQXFile = .error .sequencing :=
  (seqx_sequencing_error G3.Ex.xseqBadRep G3.Ex.XPBadRep G3.Ex.chans G3.Ex.xseqBadRep_prepare G3.Ex.xseqBadRep_channels
    (G3.numB_spec_amp _ _ false (by decide +kernel)) (C14.cellsOk_of_check _ _ (by decide +kernel))
    (G3.seqxLimB_spec _ _ _ (by decide +kernel))
    0 (by decide +kernel) ⟨3, 16384, 0, 2, 0⟩ (by decide +kernel) (by decide)).2
    (G3.evalB_spec _ _ (by decide +kernel))

/-- `addFlags_ok_spec`: an accepted call (letter aliases and ints mixed) -/
example : (G3.Ex.xel0.addFlags (.str "A") G3.Ex.tokens).err = none := by decide +kernel

/-- `flags_bad_token` applied: the token 'X' -/
example : (G3.Ex.el1.addFlags (.str "A") [.str "H", .str "X", .num 0, .num 0]).err = some .value ∧
    (G3.Ex.el1.addFlags (.str "A") [.str "H", .str "X", .num 0, .num 0]).st = G3.Ex.el1 :=
  flags_bad_token _ _ _ (.str "X") (by simp) (by decide)

/-- `flags_unknown_channel`: instance of the hypotheses -/
example : Dict.get? G3.Ex.el1.chans (.str "B") = none ∧ G3.Ex.tokens.mapM flagToken? = some [1, 0, 4, 2] := by
  decide +kernel

/-- `seqx_flags_of_addFlags` applied: the tokens H, 0, P, 2 given to `addFlags` on channel "A" of the
    element at position 1 come out as `flags[1][0] = [1, 0, 4, 2]` -/
example : ∃ d pkg flags, G3.Ex.xseq.outputForSEQXFileWithFlags = .ok d ∧ d.pkg = some pkg ∧ pkg.flags = some flags ∧
    (flags[1]?).bind (·[0]?) = some [1, 0, 4, 2] := by
  obtain ⟨d, pkg, h, _, hp⟩ := ex_seqx_ok.2
  obtain ⟨flags, ints, hf, hcell, _, _, htok⟩ :=
    seqx_flags_of_addFlags G3.Ex.xseq d pkg h hp G3.Ex.chans G3.Ex.xseq_channels 1 (by decide) 0 (by decide)
      G3.Ex.xel0 G3.Ex.xel1 G3.Ex.tokens (by decide +kernel) rfl rfl
  have : G3.Ex.tokens.mapM flagToken? = some [1, 0, 4, 2] := by decide +kernel
  rw [this] at htok
  cases htok
  exact ⟨d, pkg, flags, h, hp, hf, hcell⟩

/-! ### model note: order of the amplitude type check and the length check -/

/-- one position, one channel with a 1-point waveform and a non-numeric amplitude (`None`) -/
def shortNoneSeq : Sequence :=
  { data := [(1, .el { chans := [(.int 1, { data := .arr [("m1", [0]), ("m2", [0]), ("wfm", [0])] (.num 10) })] })],
    sequencing := [(1, ⟨0, 1, 0, 0, 0⟩)],
    awgspecs := [("SR", .val (.num 10)), ("channel1_amplitude", .val .none)] }

/-- MODEL GAP (error kind only): with a non-numeric amplitude AND a waveform shorter than 2400 points the
    model's `outputForSEQXFile` raises TypeError (it converts the amplitudes first), whereas the code raises
    ValueError "Waveform too short" (it divides `ampl / 2` only after the length check; checked against
    broadbean with amplitude `None` and `"x"`).  Both raise; `seqx_value_error` assumes numeric
    amplitudes (`hnum`) and is not affected. -/
example : (match shortNoneSeq.outputForSEQXFile with | .error e => some e | .ok _ => none) = some Err.type := by
  decide +kernel

end BB.C15

/-! ### capstone: the SEQX package is the forged sequence (`outputForSEQXFile` tied to `Sequence.forge`) -/
namespace BB.C15
open BB BB.Sequence

/-- **C15, first clause, end to end (`outputForSEQXFile` vs. `Sequence.forge`)**: let the stored
    elements list no channel id twice (`ElemsWF`; true of everything the public API builds, see
    `seqx_identical_to_forge`), let `outputForSEQXFile` return (possibly with deferred range
    obligations) a package `pkg`, and let `forge(apply_delays=True, apply_filters=True)` return
    `out`.  Then with `chans = Sequence.channels` there is one waveform column per channel with one
    entry per forged position, and for every channel index `i` and position index `p`:
    `out[p]` is position `p + 1`, an element position with the single content entry 1, and
    `pkg.wfms[i][p]` is exactly (waveform with its filter annotation, marker 1, marker 2) of channel
    `chans[i]` of that entry — identical to the forged output; the annotation is the filter call
    declared for that channel (`filterOf`). -/
theorem seqx_identical_to_forge_wf (s : Sequence) (hwf : Sequence.ElemsWF s) (d : Deferred SEQXPkg) (pkg : SEQXPkg)
    (h : s.outputForSEQXFile = .ok d) (hp : d.pkg = some pkg)
    (out : List (ℕ × ForgedPos)) (hF : s.forge true true false = .ok out) :
    ∃ chans, s.channels = .ok chans ∧ out.length = s.data.length ∧ pkg.wfms.length = chans.length ∧
      (∀ col ∈ pkg.wfms, col.length = out.length) ∧
      ∀ i (hi : i < chans.length) p (hpp : p < out.length), ∃ sq cont c w m1 m2,
        out[p] = (p + 1, { sequencing := sq, isSub := false, content := [(1, cont, none)] }) ∧
        lookupCh cont chans[i] = .ok c ∧ chWave c = .ok w ∧ chMarker c 1 = .ok m1 ∧ chMarker c 2 = .ok m2 ∧
        s.filterOf chans[i] = .ok w.filt ∧
        (pkg.wfms[i]?).bind (·[p]?) = some (w, m1, m2) := by
  obtain ⟨P, chans, amps, hP, hlen, hch, _, _, _, _, _, hwl, hcol, _, _, _, _, _, hcell, _⟩ :=
    seqx_content_channels s d pkg h hp
  obtain ⟨hPF, hagree⟩ := C10.output_path_equals_forge s out P hF hP (fun p e hg => hwf.get p e hg)
  refine ⟨chans, hch, by omega, hwl, fun col hc => by rw [← hPF]; exact hcol col hc, ?_⟩
  intro i hi p hpp
  have hpP : p < P.length := by omega
  obtain ⟨sq, _, hout⟩ := hagree p hpp hpP
  obtain ⟨c, w, m1, m2, hc, hw, hm1, hm2, hcl⟩ := hcell i hi p hpP
  have hfilt : s.filterOf chans[i] = .ok w.filt := by
    have := Sequence.prepare_filters s P hP p hpP (chans[i], c) (G9.lookup_mem _ _ _ hc)
    rw [G9.chWave_filt c w hw]; exact this
  exact ⟨sq, P[p], c, w, m1, m2, hout, hc, hw, hm1, hm2, hfilt, hcl⟩

/-- **C15, first clause, end to end, for every sequence the public API builds**
    (`Sequence.ApiBuilt`): `wfms[i][p]` of the delivered SEQX package is the (waveform with its
    filter annotation, marker 1, marker 2) of `forge(True, True)`'s entry at position `p + 1`,
    content 1, channel `Sequence.channels[i]` — "identical to the forged output" -/
theorem seqx_identical_to_forge (s : Sequence) (hs : Sequence.ApiBuilt s) (d : Deferred SEQXPkg) (pkg : SEQXPkg)
    (h : s.outputForSEQXFile = .ok d) (hp : d.pkg = some pkg)
    (out : List (ℕ × ForgedPos)) (hF : s.forge true true false = .ok out) :
    ∃ chans, s.channels = .ok chans ∧ out.length = s.data.length ∧ pkg.wfms.length = chans.length ∧
      (∀ col ∈ pkg.wfms, col.length = out.length) ∧
      ∀ i (hi : i < chans.length) p (hpp : p < out.length), ∃ sq cont c w m1 m2,
        out[p] = (p + 1, { sequencing := sq, isSub := false, content := [(1, cont, none)] }) ∧
        lookupCh cont chans[i] = .ok c ∧ chWave c = .ok w ∧ chMarker c 1 = .ok m1 ∧ chMarker c 2 = .ok m2 ∧
        s.filterOf chans[i] = .ok w.filt ∧
        (pkg.wfms[i]?).bind (·[p]?) = some (w, m1, m2) :=
  seqx_identical_to_forge_wf s hs.elemsWF d pkg h hp out hF

/-- **the flags variant, tied to `forge`**: `outputForSEQXFileWithFlags` delivers the package of
    `outputForSEQXFile` (so `seqx_identical_to_forge` describes its waveforms) plus, for channel `i`
    of `Sequence.channels` and position index `p`, the four flags the forged output carries on that
    channel of position `p + 1` (`[0, 0, 0, 0]` where it carries none) -/
theorem seqx_flags_identical_to_forge_wf (s : Sequence) (hwf : Sequence.ElemsWF s) (d : Deferred SEQXPkg) (pkg : SEQXPkg)
    (h : s.outputForSEQXFileWithFlags = .ok d) (hp : d.pkg = some pkg)
    (out : List (ℕ × ForgedPos)) (hF : s.forge true true false = .ok out) :
    ∃ chans flags d0 pkg0, s.channels = .ok chans ∧ s.outputForSEQXFile = .ok d0 ∧ d0.pkg = some pkg0 ∧
      pkg = { pkg0 with flags := some flags } ∧ flags.length = chans.length ∧ (∀ col ∈ flags, col.length = out.length) ∧
      ∀ i (hi : i < chans.length) p (hpp : p < out.length), ∃ sq cont c,
        out[p] = (p + 1, { sequencing := sq, isSub := false, content := [(1, cont, none)] }) ∧
        lookupCh cont chans[i] = .ok c ∧
        (flags[i]?).bind (·[p]?) = some ((chFlags c).getD [0, 0, 0, 0]) := by
  obtain ⟨chans, flags, d0, pkg0, hch, hd0, hpkg0, hpk, hfl, hfcol, hfcell⟩ := seqx_flags_end_to_end s d pkg h hp
  obtain ⟨P, chans', _, hP, hlen, hch', _⟩ := seqx_content_channels s d0 pkg0 hd0 hpkg0
  rw [hch] at hch'
  cases hch'
  obtain ⟨chans'', hch'', _, _, hcells⟩ := G3.prepare_cells s P hP
  rw [hch] at hch''
  cases hch''
  obtain ⟨hPF, hagree⟩ := C10.output_path_equals_forge s out P hF hP (fun p e hg => hwf.get p e hg)
  refine ⟨chans, flags, d0, pkg0, hch, hd0, hpkg0, hpk, hfl, fun col hc => by rw [hfcol col hc]; omega, ?_⟩
  intro i hi p hpp
  have hpP : p < P.length := by omega
  obtain ⟨sq, _, hout⟩ := hagree p hpp hpP
  obtain ⟨e, ent, he, hent, hcellf⟩ := hfcell i hi p (by omega)
  obtain ⟨e', he', hl'⟩ := hcells p hpP
  rw [he] at he'
  cases he'
  obtain ⟨ent', c, hent', hc, hcf, _⟩ := hl' chans[i] (List.getElem_mem hi)
  rw [hent] at hent'
  cases hent'
  exact ⟨sq, P[p], c, hout, hc, by rw [hcellf, hcf]⟩

/-- `seqx_flags_identical_to_forge_wf` for every sequence the public API builds -/
theorem seqx_flags_identical_to_forge (s : Sequence) (hs : Sequence.ApiBuilt s) (d : Deferred SEQXPkg) (pkg : SEQXPkg)
    (h : s.outputForSEQXFileWithFlags = .ok d) (hp : d.pkg = some pkg)
    (out : List (ℕ × ForgedPos)) (hF : s.forge true true false = .ok out) :
    ∃ chans flags d0 pkg0, s.channels = .ok chans ∧ s.outputForSEQXFile = .ok d0 ∧ d0.pkg = some pkg0 ∧
      pkg = { pkg0 with flags := some flags } ∧ flags.length = chans.length ∧ (∀ col ∈ flags, col.length = out.length) ∧
      ∀ i (hi : i < chans.length) p (hpp : p < out.length), ∃ sq cont c,
        out[p] = (p + 1, { sequencing := sq, isSub := false, content := [(1, cont, none)] }) ∧
        lookupCh cont chans[i] = .ok c ∧
        (flags[i]?).bind (·[p]?) = some ((chFlags c).getD [0, 0, 0, 0]) :=
  seqx_flags_identical_to_forge_wf s hs.elemsWF d pkg h hp out hF

/-- helper (C15 capstones): the stored elements of the raw-array example `G3.Ex.xseq` list no channel id twice -/
theorem ex_xseq_elemsWF : Sequence.ElemsWF G3.Ex.xseq := by
  intro x hx e he
  simp only [G3.Ex.xseq, List.mem_cons, List.not_mem_nil, or_false] at hx
  rcases hx with rfl | rfl <;> cases he <;> (unfold Dict.WF; decide +kernel)

/-- non-vacuity of `seqx_identical_to_forge_wf` and `seqx_flags_identical_to_forge_wf`: the
    two-position raw-array example `G3.Ex.xseq` (2400 points, flags on channel "A" of position 1)
    meets every hypothesis -/
example : Sequence.ElemsWF G3.Ex.xseq ∧ (∃ d pkg, G3.Ex.xseq.outputForSEQXFile = .ok d ∧ d.pkg = some pkg) ∧
    (∃ d pkg, G3.Ex.xseq.outputForSEQXFileWithFlags = .ok d ∧ d.pkg = some pkg) ∧
    (∃ out, G3.Ex.xseq.forge true true false = .ok out) := by
  refine ⟨ex_xseq_elemsWF, ?_, ?_, G3.isSome_toOption _ (by decide +kernel)⟩
  · obtain ⟨d, pkg, h1, _, h2⟩ := ex_seqx_ok.1
    exact ⟨d, pkg, h1, h2⟩
  · obtain ⟨d, pkg, h1, _, h2⟩ := ex_seqx_ok.2
    exact ⟨d, pkg, h1, h2⟩

/-- non-vacuity of `seqx_identical_to_forge` and `seqx_flags_identical_to_forge`: the example
    `G9Ex.seqxSeqF` — built through the public API; two positions of 2400 + 2 points; blueprint
    channel 1 delayed by two samples; raw channel "A" with a declared high-pass compensation —
    meets every hypothesis (the package comes with a deferred range obligation for channel "A") -/
example : Sequence.ApiBuilt G9Ex.seqxSeqF ∧ (∃ d pkg, G9Ex.seqxSeqF.outputForSEQXFile = .ok d ∧ d.pkg = some pkg) ∧
    (∃ d pkg, G9Ex.seqxSeqF.outputForSEQXFileWithFlags = .ok d ∧ d.pkg = some pkg) ∧
    (∃ out, G9Ex.seqxSeqF.forge true true false = .ok out) := by
  refine ⟨G9Ex.seqxSeqF_built, G9Ex.seqxSeqF_seqx_ok, ?_, G9Ex.seqxSeqF_forge_ok⟩
  obtain ⟨d, pkg, h1, h2⟩ := G9Ex.seqxSeqF_seqx_ok
  obtain ⟨flags, hfl⟩ := seqxFlags_ok_of_seqx _ d h1
  exact ⟨_, { pkg with flags := some flags }, hfl, by simp [h2]⟩

/-! ### capstone: whole-sample delays, seen in the SEQX package -/

/-- **C15 first clause + C10, a delayed blueprint channel in the SEQX package**: under the
    hypotheses of `seqx_identical_to_forge_wf`, let the element `e` at position `p + 1` hold on its
    `k`-th channel — which is `Sequence.channels[i]` — a blueprint `b` whose undelayed waveform
    evaluates to `ys`, and let the delay of that channel and the largest delay of the element's
    channels be the whole sample counts `D` and `M` (each padding absent or at least two samples).
    Then the delay is the one declared for that channel id, and the waveform of `pkg.wfms[i][p]`
    carries the channel's declared filter call, has `ys.length + M` points and consists of blocks
    that evaluate to `D` zeros, `ys`, `M − D` zeros; without a compensation that is the delivered
    waveform in volts. -/
theorem seqx_delayed_bp_channel_wf (s : Sequence) (hwf : Sequence.ElemsWF s) (d : Deferred SEQXPkg) (pkg : SEQXPkg)
    (h : s.outputForSEQXFile = .ok d) (hp : d.pkg = some pkg)
    (out : List (ℕ × ForgedPos)) (hF : s.forge true true false = .ok out)
    (chans : List Chan) (hch : s.channels = .ok chans)
    (i : ℕ) (hi : i < chans.length) (p : ℕ) (hpp : p < s.data.length) (e : Element)
    (he : Dict.get? s.data ((p + 1 : ℕ) : ℤ) = some (.el e)) (ds : List ℚ) (hds : e.channels.mapM s.delayOf = .ok ds)
    (sr : ℚ) (hsr : e.getSR = .ok (.num sr)) (hsr0 : 0 < sr)
    (k : ℕ) (hk : k < e.chans.length) (hkd : k < ds.length) (hki : (e.chans[k]).1 = chans[i])
    (b : BP) (hb : (e.chans[k]).2.data = .bp b)
    (f : Forged) (hf : forgeBP b = .ok f) (ys : List ℚ) (hev : Wave.eval? { blocks := f.blocks } = some ys)
    (D M : ℕ) (hD : ds[k] * sr = D) (hM : maxR ds * sr = M)
    (hfront : D = 0 ∨ 2 ≤ D) (hback : M - D = 0 ∨ 2 ≤ M - D) :
    s.delayOf chans[i] = .ok ds[k] ∧ D ≤ M ∧
    ∃ w m1 m2, (pkg.wfms[i]?).bind (·[p]?) = some (w, m1, m2) ∧ s.filterOf chans[i] = .ok w.filt ∧
      w.len = ys.length + M ∧
      Wave.eval? { blocks := w.blocks } = some (List.replicate D 0 ++ ys ++ List.replicate (M - D) 0) ∧
      (w.filt = none → w.eval? = some (List.replicate D 0 ++ ys ++ List.replicate (M - D) 0)) := by
  obtain ⟨chans', hch', hlen, _, _, hcell⟩ := seqx_identical_to_forge_wf s hwf d pkg h hp out hF
  rw [hch] at hch'
  cases hch'
  have hpo : p < out.length := by omega
  obtain ⟨sq, cont, c, w, m1, m2, hout, hc, hw, _, _, hfilt, hcw⟩ := hcell i hi p hpo
  rw [← hki] at hc
  obtain ⟨hdel, hle, f', hco, _, hE⟩ := G9.cell_delayed_bp s true false out hF p hpo e he (hwf.get _ e he) ds hds sr hsr hsr0
    k hk hkd b hb f hf ys hev D M hD hM hfront hback sq cont hout c hc
  have hwb : w = { blocks := f'.blocks, filt := c.filt } := by
    simp only [chWave, hco, Except.ok.injEq] at hw
    exact hw.symm
  rw [hki] at hdel
  refine ⟨hdel, hle, w, m1, m2, hcw, hfilt, ?_, by rw [hwb]; exact hE, ?_⟩
  · have := G3.wave_eval_length { blocks := f'.blocks } _ hE
    have hl : w.len = Wave.len { blocks := f'.blocks } := by rw [hwb]; rfl
    rw [hl, ← this]
    simp only [List.length_append, List.length_replicate]
    omega
  · intro hnf
    have hnf' : c.filt = none := by rw [hwb] at hnf; exact hnf
    rw [hwb, hnf']; exact hE

/-- `seqx_delayed_bp_channel_wf` for every sequence the public API builds -/
theorem seqx_delayed_bp_channel (s : Sequence) (hs : Sequence.ApiBuilt s) (d : Deferred SEQXPkg) (pkg : SEQXPkg)
    (h : s.outputForSEQXFile = .ok d) (hp : d.pkg = some pkg)
    (out : List (ℕ × ForgedPos)) (hF : s.forge true true false = .ok out)
    (chans : List Chan) (hch : s.channels = .ok chans)
    (i : ℕ) (hi : i < chans.length) (p : ℕ) (hpp : p < s.data.length) (e : Element)
    (he : Dict.get? s.data ((p + 1 : ℕ) : ℤ) = some (.el e)) (ds : List ℚ) (hds : e.channels.mapM s.delayOf = .ok ds)
    (sr : ℚ) (hsr : e.getSR = .ok (.num sr)) (hsr0 : 0 < sr)
    (k : ℕ) (hk : k < e.chans.length) (hkd : k < ds.length) (hki : (e.chans[k]).1 = chans[i])
    (b : BP) (hb : (e.chans[k]).2.data = .bp b)
    (f : Forged) (hf : forgeBP b = .ok f) (ys : List ℚ) (hev : Wave.eval? { blocks := f.blocks } = some ys)
    (D M : ℕ) (hD : ds[k] * sr = D) (hM : maxR ds * sr = M)
    (hfront : D = 0 ∨ 2 ≤ D) (hback : M - D = 0 ∨ 2 ≤ M - D) :
    s.delayOf chans[i] = .ok ds[k] ∧ D ≤ M ∧
    ∃ w m1 m2, (pkg.wfms[i]?).bind (·[p]?) = some (w, m1, m2) ∧ s.filterOf chans[i] = .ok w.filt ∧
      w.len = ys.length + M ∧
      Wave.eval? { blocks := w.blocks } = some (List.replicate D 0 ++ ys ++ List.replicate (M - D) 0) ∧
      (w.filt = none → w.eval? = some (List.replicate D 0 ++ ys ++ List.replicate (M - D) 0)) :=
  seqx_delayed_bp_channel_wf s hs.elemsWF d pkg h hp out hF chans hch i hi p hpp e he ds hds sr hsr hsr0 k hk hkd hki b hb
    f hf ys hev D M hD hM hfront hback

/-- **... and a delayed raw-array channel in the SEQX package**: `pkg.wfms[i][p]` holds the single
    raw block `padArr D (M − D) wfm` — the stored 'wfm' array with `D` zeros in front and `M − D`
    behind — with the channel's declared filter call, and the stored 'm1' / 'm2' arrays padded the
    same way; without a compensation the padded array is the delivered waveform in volts. -/
theorem seqx_delayed_raw_channel_wf (s : Sequence) (hwf : Sequence.ElemsWF s) (d : Deferred SEQXPkg) (pkg : SEQXPkg)
    (h : s.outputForSEQXFile = .ok d) (hp : d.pkg = some pkg)
    (out : List (ℕ × ForgedPos)) (hF : s.forge true true false = .ok out)
    (chans : List Chan) (hch : s.channels = .ok chans)
    (i : ℕ) (hi : i < chans.length) (p : ℕ) (hpp : p < s.data.length) (e : Element)
    (he : Dict.get? s.data ((p + 1 : ℕ) : ℤ) = some (.el e)) (ds : List ℚ) (hds : e.channels.mapM s.delayOf = .ok ds)
    (sr : ℚ) (hsr : e.getSR = .ok (.num sr)) (hsr0 : 0 < sr)
    (k : ℕ) (hk : k < e.chans.length) (hkd : k < ds.length) (hki : (e.chans[k]).1 = chans[i])
    (arrs : Dict String (List ℚ)) (sv : Val) (ha : (e.chans[k]).2.data = .arr arrs sv)
    (D M : ℕ) (hD : ds[k] * sr = D) (hM : maxR ds * sr = M) :
    s.delayOf chans[i] = .ok ds[k] ∧
    ∃ w wfm r1 r2, Dict.get? arrs "wfm" = some wfm ∧ Dict.get? arrs "m1" = some r1 ∧ Dict.get? arrs "m2" = some r2 ∧
      (pkg.wfms[i]?).bind (·[p]?) = some (w, Element.padArr D (M - D) r1, Element.padArr D (M - D) r2) ∧
      s.filterOf chans[i] = .ok w.filt ∧ w.blocks = [.raw (Element.padArr D (M - D) wfm)] ∧
      (w.filt = none → w.eval? = some (Element.padArr D (M - D) wfm)) := by
  obtain ⟨chans', hch', hlen, _, _, hcell⟩ := seqx_identical_to_forge_wf s hwf d pkg h hp out hF
  rw [hch] at hch'
  cases hch'
  have hpo : p < out.length := by omega
  obtain ⟨sq, cont, c, w, m1, m2, hout, hc, hw, hmk1, hmk2, hfilt, hcw⟩ := hcell i hi p hpo
  rw [← hki] at hc
  obtain ⟨hdel, a', tm, hco, hget⟩ := G9.cell_delayed_raw s true false out hF p hpo e he (hwf.get _ e he) ds hds sr hsr hsr0
    k hk hkd arrs sv ha D M hD hM sq cont hout c hc
  rw [hki] at hdel
  have key : ∀ name xs, Dict.get? a' name = some xs → ∃ r, Dict.get? arrs name = some r ∧ xs = Element.padArr D (M - D) r := by
    intro name xs hx
    rw [hget name] at hx
    cases hr : Dict.get? arrs name with
    | none => rw [hr] at hx; cases hx
    | some r =>
      rw [hr] at hx
      simp only [Option.map_some, Option.some.injEq] at hx
      exact ⟨r, rfl, hx.symm⟩
  simp only [chWave, hco] at hw
  simp only [chMarker, hco, if_true] at hmk1
  simp only [chMarker, hco] at hmk2
  cases hgw : Dict.get? a' "wfm" with
  | none => rw [hgw] at hw; cases hw
  | some xs =>
    rw [hgw] at hw
    simp only [Except.ok.injEq] at hw
    cases hg1 : Dict.get? a' "m1" with
    | none => rw [hg1] at hmk1; cases hmk1
    | some x1 =>
      rw [hg1] at hmk1
      simp only [Except.ok.injEq] at hmk1
      have hne : (2 : ℕ) ≠ 1 := by decide
      simp only [hne, if_false] at hmk2
      cases hg2 : Dict.get? a' "m2" with
      | none => rw [hg2] at hmk2; cases hmk2
      | some x2 =>
        rw [hg2] at hmk2
        simp only [Except.ok.injEq] at hmk2
        obtain ⟨wfm, hwfm, rfl⟩ := key "wfm" xs hgw
        obtain ⟨r1, hr1, rfl⟩ := key "m1" x1 hg1
        obtain ⟨r2, hr2, rfl⟩ := key "m2" x2 hg2
        subst hmk1 hmk2
        refine ⟨hdel, w, wfm, r1, r2, hwfm, hr1, hr2, hcw, hfilt, by rw [← hw], ?_⟩
        intro hnf
        have hnf' : c.filt = none := by rw [← hw] at hnf; exact hnf
        rw [← hw, hnf']
        simp [Wave.eval?, Blk.eval?]

/-- `seqx_delayed_raw_channel_wf` for every sequence the public API builds -/
theorem seqx_delayed_raw_channel (s : Sequence) (hs : Sequence.ApiBuilt s) (d : Deferred SEQXPkg) (pkg : SEQXPkg)
    (h : s.outputForSEQXFile = .ok d) (hp : d.pkg = some pkg)
    (out : List (ℕ × ForgedPos)) (hF : s.forge true true false = .ok out)
    (chans : List Chan) (hch : s.channels = .ok chans)
    (i : ℕ) (hi : i < chans.length) (p : ℕ) (hpp : p < s.data.length) (e : Element)
    (he : Dict.get? s.data ((p + 1 : ℕ) : ℤ) = some (.el e)) (ds : List ℚ) (hds : e.channels.mapM s.delayOf = .ok ds)
    (sr : ℚ) (hsr : e.getSR = .ok (.num sr)) (hsr0 : 0 < sr)
    (k : ℕ) (hk : k < e.chans.length) (hkd : k < ds.length) (hki : (e.chans[k]).1 = chans[i])
    (arrs : Dict String (List ℚ)) (sv : Val) (ha : (e.chans[k]).2.data = .arr arrs sv)
    (D M : ℕ) (hD : ds[k] * sr = D) (hM : maxR ds * sr = M) :
    s.delayOf chans[i] = .ok ds[k] ∧
    ∃ w wfm r1 r2, Dict.get? arrs "wfm" = some wfm ∧ Dict.get? arrs "m1" = some r1 ∧ Dict.get? arrs "m2" = some r2 ∧
      (pkg.wfms[i]?).bind (·[p]?) = some (w, Element.padArr D (M - D) r1, Element.padArr D (M - D) r2) ∧
      s.filterOf chans[i] = .ok w.filt ∧ w.blocks = [.raw (Element.padArr D (M - D) wfm)] ∧
      (w.filt = none → w.eval? = some (Element.padArr D (M - D) wfm)) :=
  seqx_delayed_raw_channel_wf s hs.elemsWF d pkg h hp out hF chans hch i hi p hpp e he ds hds sr hsr hsr0 k hk hkd hki
    arrs sv ha D M hD hM

/-- non-vacuity of `seqx_delayed_bp_channel` / `seqx_delayed_raw_channel` on `G9Ex.seqxSeqF` (besides
    `ApiBuilt`, a delivered package and a successful `forge`, shown above): `Sequence.channels` is
    `[1, "A"]`; position 1 holds the example element; its channel 0 is channel 1 and holds the
    2400-point blueprint, whose undelayed waveform evaluates (10 ramp samples, 2390 zeros); its
    channel 1 is channel "A" and holds raw arrays with 'wfm', 'm1', 'm2'; the delays are `[1/5, 0]` s
    at 10 Sa/s: `D = 2, M = 2` for channel 1 and `D = 0, M = 2` for channel "A" -/
example : G9Ex.seqxSeqF.channels = .ok [.int 1, .str "A"] ∧
    Dict.get? G9Ex.seqxSeqF.data ((0 + 1 : ℕ) : ℤ) = some (.el G9Ex.seqxStored) ∧
    G9Ex.seqxStored.channels.mapM G9Ex.seqxSeqF.delayOf = .ok [1/5, 0] ∧
    G9Ex.seqxStored.getSR = .ok (.num 10) ∧
    G9Ex.seqxStored.channels = [.int 1, .str "A"] ∧
    (G9Ex.seqxStored.chans[0]'(by decide +kernel)).2.data = .bp G9Ex.longBP ∧
    (G9Ex.seqxStored.chans[1]'(by decide +kernel)).2.data =
      .arr [("m1", List.replicate 2400 0), ("m2", List.replicate 2400 1), ("wfm", List.replicate 2400 (1/4))] (.num 10) ∧
    ((forgeBP G9Ex.longBP).toOption.bind (fun f => Wave.eval? { blocks := f.blocks })).map (fun ys => (ys.take 11, ys.length)) =
      some ([0, 1/10, 2/10, 3/10, 4/10, 5/10, 6/10, 7/10, 8/10, 9/10, 0], 2400) ∧
    ((1 : ℚ) / 5) * 10 = (2 : ℕ) ∧ maxR [1/5, 0] * 10 = (2 : ℕ) ∧ (0 : ℚ) * 10 = (0 : ℕ) := by
  refine ⟨G3.toOption_eq_some _ _ (by decide +kernel), G9Ex.seqxSeqF_pos1, by decide +kernel, by decide +kernel,
    by decide +kernel, by decide +kernel, by decide +kernel, by decide +kernel, by norm_num, by decide +kernel, by norm_num⟩

end BB.C15

namespace BB.C15
open BB BB.Sequence

/-- `seqx_delayed_bp_channel` and `seqx_delayed_raw_channel` applied to `G9Ex.seqxSeqF`, position 1:
    channel 1 (delayed by 2 of 2 samples, no compensation) is delivered with 2402 points, two
    zeros followed by the undelayed 2400 samples; channel "A" (not delayed, high-pass compensation
    declared) is delivered as the stored 2400 samples followed by two zeros, annotated with its
    filter call, its markers padded the same way -/
example : ∃ d pkg w1 m1 m2 wA ys, G9Ex.seqxSeqF.outputForSEQXFile = .ok d ∧ d.pkg = some pkg ∧
    (pkg.wfms[0]?).bind (·[0]?) = some (w1, m1, m2) ∧ w1.len = 2402 ∧ ys.length = 2400 ∧
    w1.eval? = some (List.replicate 2 0 ++ ys ++ List.replicate (2 - 2) 0) ∧
    (pkg.wfms[1]?).bind (·[0]?) = some (wA, Element.padArr 0 (2 - 0) (List.replicate 2400 0),
      Element.padArr 0 (2 - 0) (List.replicate 2400 1)) ∧
    wA.blocks = [.raw (Element.padArr 0 (2 - 0) (List.replicate 2400 (1/4)))] ∧
    wA.filt = some ⟨"HP", 1, 1, .num 10⟩ := by
  obtain ⟨d, pkg, h, hp⟩ := G9Ex.seqxSeqF_seqx_ok
  obtain ⟨out, hF⟩ := G9Ex.seqxSeqF_forge_ok
  have hch : G9Ex.seqxSeqF.channels = .ok [.int 1, .str "A"] := G3.toOption_eq_some _ _ (by decide +kernel)
  obtain ⟨f, hf⟩ := G3.isSome_toOption (forgeBP G9Ex.longBP) (by decide +kernel)
  obtain ⟨ys, hev⟩ : ∃ ys, Wave.eval? { blocks := f.blocks } = some ys := by
    have : ((forgeBP G9Ex.longBP).toOption.bind (fun f => Wave.eval? { blocks := f.blocks })).isSome = true := by
      decide +kernel
    rw [hf] at this
    exact Option.isSome_iff_exists.mp this
  have hyl : ys.length = 2400 := by
    have : ((forgeBP G9Ex.longBP).toOption.bind (fun f => Wave.eval? { blocks := f.blocks })).map List.length = some 2400 := by
      decide +kernel
    rw [hf] at this
    simp only [Except.toOption, Option.bind_some, hev, Option.map_some, Option.some.injEq] at this
    exact this
  obtain ⟨_, _, w1, m1, m2, hw1, hfl1, hlen1, _, hev1⟩ :=
    seqx_delayed_bp_channel G9Ex.seqxSeqF G9Ex.seqxSeqF_built d pkg h hp out hF _ hch 0 (by decide) 0 (by decide +kernel)
      G9Ex.seqxStored G9Ex.seqxSeqF_pos1 [1/5, 0] (by decide +kernel) 10 (by decide +kernel) (by norm_num)
      0 (by decide +kernel) (by decide) (by decide +kernel) G9Ex.longBP (by decide +kernel) f hf ys hev 2 2
      (by norm_num) (by decide +kernel) (.inr (le_refl 2)) (.inl rfl)
  have hnf : w1.filt = none := by
    have : G9Ex.seqxSeqF.filterOf (.int 1) = .ok none := by decide +kernel
    have h2 : G9Ex.seqxSeqF.filterOf (.int 1) = .ok w1.filt := hfl1
    rw [this] at h2; exact (Except.ok.inj h2).symm
  obtain ⟨_, wA, wfm, r1, r2, hwfm, hr1, hr2, hwA, hflA, hblk, _⟩ :=
    seqx_delayed_raw_channel G9Ex.seqxSeqF G9Ex.seqxSeqF_built d pkg h hp out hF _ hch 1 (by decide) 0 (by decide +kernel)
      G9Ex.seqxStored G9Ex.seqxSeqF_pos1 [1/5, 0] (by decide +kernel) 10 (by decide +kernel) (by norm_num)
      1 (by decide +kernel) (by decide) (by decide +kernel)
      [("m1", List.replicate 2400 0), ("m2", List.replicate 2400 1), ("wfm", List.replicate 2400 (1/4))] (.num 10)
      (by decide +kernel) 0 2 (by norm_num) (by decide +kernel)
  have e0 : wfm = List.replicate 2400 (1/4) := by
    have : Dict.get? [("m1", List.replicate 2400 (0 : ℚ)), ("m2", List.replicate 2400 1), ("wfm", List.replicate 2400 (1/4))] "wfm" =
        some (List.replicate 2400 (1/4)) := by decide +kernel
    rw [this] at hwfm; exact (Option.some.inj hwfm).symm
  have e1 : r1 = List.replicate 2400 0 := by
    have : Dict.get? [("m1", List.replicate 2400 (0 : ℚ)), ("m2", List.replicate 2400 1), ("wfm", List.replicate 2400 (1/4))] "m1" =
        some (List.replicate 2400 0) := by decide +kernel
    rw [this] at hr1; exact (Option.some.inj hr1).symm
  have e2 : r2 = List.replicate 2400 1 := by
    have : Dict.get? [("m1", List.replicate 2400 (0 : ℚ)), ("m2", List.replicate 2400 1), ("wfm", List.replicate 2400 (1/4))] "m2" =
        some (List.replicate 2400 1) := by decide +kernel
    rw [this] at hr2; exact (Option.some.inj hr2).symm
  have hfA : wA.filt = some ⟨"HP", 1, 1, .num 10⟩ := by
    have : G9Ex.seqxSeqF.filterOf (.str "A") = .ok (some ⟨"HP", 1, 1, .num 10⟩) := by decide +kernel
    have h2 : G9Ex.seqxSeqF.filterOf (.str "A") = .ok wA.filt := hflA
    rw [this] at h2; exact (Except.ok.inj h2).symm
  subst e0 e1 e2
  refine ⟨d, pkg, w1, m1, m2, wA, ys, h, hp, hw1, ?_, hyl, hev1 hnf, hwA, hblk, hfA⟩
  rw [hlen1, hyl]

end BB.C15
