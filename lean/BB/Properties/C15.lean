/-
  Property C15 — the SEQX package mirrors the forged sequence and enforces AWG70000A limits.

  Guards (`Gen.seqx*Bad`), the flag tables (`Gen.flagAllowed*`, `Gen.flagAlias*`) and
  `Gen.flagsLenBad` are regenerated from `Sequence.outputForSEQXFile` / `Element.addFlags`.
-/
import BB.Proofs.Basic
import Mathlib.Tactic.Linarith
import BB.Properties.C14

namespace BB.C15
open BB BB.Sequence

theorem len_ok_iff (n : ℤ) : Gen.seqxLenBad n = false ↔ 2400 ≤ n := by
  simp [Gen.seqxLenBad]

theorem twait_ok_iff (t : ℤ) : Gen.seqxTwaitBad t = false ↔ (0 ≤ t ∧ t ≤ 3) := by
  simp [Gen.seqxTwaitBad]; omega

theorem jumpstate_ok_iff (t : ℤ) : Gen.seqxJumpStateBad t = false ↔ (0 ≤ t ∧ t ≤ 3) := by
  simp [Gen.seqxJumpStateBad]; omega

theorem nrep_ok_iff (n : ℤ) : Gen.seqxNrepBad n = false ↔ (0 ≤ n ∧ n ≤ 16383) := by
  simp [Gen.seqxNrepBad]; omega

theorem jump_ok_iff (j N : ℤ) : Gen.seqxJumpBad j N = false ↔ (-1 ≤ j ∧ j ≤ N) := by
  simp [Gen.seqxJumpBad]; omega

theorem goto_ok_iff (g N : ℤ) : Gen.seqxGotoBad g N = false ↔ (0 ≤ g ∧ g ≤ N) := by
  simp [Gen.seqxGotoBad]; omega

/-- The sequencing check passes iff wait and event input are in 0..3, repetitions in 0..16383,
    jump target in -1..N and goto in 0..N; otherwise SequencingError. -/
theorem seq_check_iff (q : SeqSet) (N : ℤ) :
    (seqxSeqCheck q N = .ok () ↔
      (0 ≤ q.twait ∧ q.twait ≤ 3) ∧ (0 ≤ q.jump_input ∧ q.jump_input ≤ 3) ∧ (0 ≤ q.nrep ∧ q.nrep ≤ 16383) ∧
        (-1 ≤ q.jump_target ∧ q.jump_target ≤ N) ∧ (0 ≤ q.goto ∧ q.goto ≤ N)) ∧
    (seqxSeqCheck q N ≠ .ok () → seqxSeqCheck q N = .error .sequencing) := by
  unfold seqxSeqCheck
  rw [← twait_ok_iff, ← jumpstate_ok_iff, ← nrep_ok_iff, ← jump_ok_iff, ← goto_ok_iff]
  cases Gen.seqxTwaitBad q.twait <;> cases Gen.seqxJumpStateBad q.jump_input <;> cases Gen.seqxNrepBad q.nrep <;>
    cases Gen.seqxJumpBad q.jump_target N <;> cases Gen.seqxGotoBad q.goto N <;> simp

/-- The voltage check passes iff every sample lies within ±amplitude/2 (no offset); else ValueError. -/
theorem range_check_iff (xs : List ℚ) (a : ℚ) (hne : xs ≠ []) :
    (seqxRangeCheck xs a = .ok () ↔ ∀ x ∈ xs, -a / 2 ≤ x ∧ x ≤ a / 2) ∧
    (seqxRangeCheck xs a ≠ .ok () → seqxRangeCheck xs a = .error .value) := by
  unfold seqxRangeCheck
  simp only [Gen.seqxMaxBad, Gen.seqxMinBad, decide_eq_true_eq, gt_iff_lt]
  constructor
  · constructor
    · intro h x hx
      by_cases h1 : a / 2 < maxR xs
      · simp [h1] at h
      · by_cases h2 : minR xs < -a / 2
        · simp [h1, h2] at h
        · have := C14.le_maxR xs x hx
          have := C14.minR_le xs x hx
          constructor <;> linarith [not_lt.mp h1, not_lt.mp h2]
    · intro h
      have hmax := (h _ (C14.maxR_mem xs hne)).2
      have hmin := (h _ (C14.minR_mem xs hne)).1
      have h1 : ¬ a / 2 < maxR xs := by linarith
      have h2 : ¬ minR xs < -a / 2 := by linarith
      simp [h1, h2]
  · intro h
    by_cases h1 : a / 2 < maxR xs
    · simp [h1]
    · by_cases h2 : minR xs < -a / 2
      · simp [h1, h2]
      · simp [h1, h2] at h

/-- amplitudes: in channel order, padded with one 0 for a single channel -/
theorem amplitudes_padding (amps : List ℚ) :
    padAmplitudes amps = if amps.length = 1 then amps ++ [0] else amps := rfl

/-! ### flags -/

/-- `addFlags` accepts exactly the tokens 0-4 and '', 'H', 'L', 'T', 'P', which mean 0-4. -/
theorem flag_token_table :
    (∀ n : ℤ, 0 ≤ n → n ≤ 4 → flagToken? (.num n) = some n.toNat) ∧
    (∀ n : ℤ, (n < 0 ∨ 4 < n) → flagToken? (.num n) = none) ∧
    flagToken? (.str "") = some 0 ∧ flagToken? (.str "H") = some 1 ∧
    flagToken? (.str "L") = some 2 ∧ flagToken? (.str "T") = some 3 ∧
    flagToken? (.str "P") = some 4 ∧
    (∀ s : String, s ∉ ["", "H", "L", "T", "P"] → flagToken? (.str s) = none) ∧
    flagToken? .none = none := by
  refine ⟨?_, ?_, by decide, by decide, by decide, by decide, by decide, ?_, rfl⟩
  · intro n h0 h4
    have : n = 0 ∨ n = 1 ∨ n = 2 ∨ n = 3 ∨ n = 4 := by omega
    rcases this with rfl | rfl | rfl | rfl | rfl <;> decide
  · intro n h
    unfold flagToken?
    have hm : n ∉ Gen.flagAllowedInt := by
      simp [Gen.flagAllowedInt]; omega
    simp [hm]
  · intro s hs
    unfold flagToken?
    have hm : s ∉ Gen.flagAllowedStr := by
      simpa [Gen.flagAllowedStr] using hs
    simp [hm]

/-- a flag list must have exactly four entries -/
theorem flags_length (e : Element) (ch : Chan) (fl : List Val) (h : fl.length ≠ 4) :
    (e.addFlags ch fl).err = some .value ∧ (e.addFlags ch fl).st = e := by
  unfold Element.addFlags
  have : Gen.flagsLenBad fl.length = true := by simp [Gen.flagsLenBad]; omega
  simp [this]

/-- accepted flags are stored as the four integers -/
theorem flags_stored (e : Element) (ch : Chan) (fl : List Val) (ent : ChEntry) (ints : List ℕ)
    (hl : fl.length = 4) (ht : fl.mapM flagToken? = some ints) (hc : Dict.get? e.chans ch = some ent) :
    (e.addFlags ch fl).err = none ∧
    Dict.get? (e.addFlags ch fl).st.chans ch = some { ent with flags := some ints } := by
  unfold Element.addFlags
  have : Gen.flagsLenBad fl.length = false := by simp [Gen.flagsLenBad, hl]
  simp only [this, Bool.false_eq_true, if_false, ht, hc]
  exact ⟨trivial, Dict.get?_upsert_self _ _ _⟩

/-- where no flags were set, the flags variant reports [0, 0, 0, 0] -/
theorem default_flags (c : ChOutF) (h : chFlags c = none) : (chFlags c).getD [0, 0, 0, 0] = [0, 0, 0, 0] := by
  simp [h]

/-! ### the package mirrors the forged elements, position by position and channel by channel -/

/-- **what `outputForSEQXFile` delivers**: with `P` the per-position forged elements of
    `_prepareForOutputting` (equal to `forge(True, True)` by C10's `output_path_equals_forge`) and
    `chans` the channels of element 1, the package holds for channel `i` and position `p` exactly
    the (waveform in volts, marker 1, marker 2) of channel `chans[i]` of `P[p]`; the five
    sequencing lists hold, in position order, the values of a sequencing entry that passed the
    AWG70000A checks; the amplitudes are the channel amplitudes in channel order (padded for a
    single channel); the name is the sequence's name -/
theorem seqx_content (s : Sequence) (d : Deferred SEQXPkg) (pkg : SEQXPkg)
    (h : s.outputForSEQXFile = .ok d) (hp : d.pkg = some pkg) :
    ∃ (P : List (Dict Chan ChOutF)) (chans : List Chan) (amps : List ℚ),
      s.prepareForOutputting = .ok P ∧
      pkg.amplitudes = padAmplitudes amps ∧ amps.length = chans.length ∧ pkg.seqname = s.name ∧ pkg.flags = none ∧
      (∀ i p, i < chans.length → p < P.length → ∃ cell, (P[p]?).bind (fun el => (chans[i]?).map (seqxCell el)) = some (.ok cell) ∧
          ((pkg.wfms[i]?).bind (·[p]?)) = some cell) ∧
      (∀ p, p < P.length → ∃ q, Dict.get? s.sequencing ((p + 1 : ℕ) : ℤ) = some q ∧ seqxSeqCheck q (P.length : ℤ) = .ok () ∧
          pkg.trig_waits[p]? = some q.twait ∧ pkg.nreps[p]? = some q.nrep ∧ pkg.event_jumps[p]? = some q.jump_input ∧
          pkg.event_jump_to[p]? = some q.jump_target ∧ pkg.go_to[p]? = some q.goto) := by
  unfold outputForSEQXFile at h
  split at h
  · cases h
  · rename_i P hP
    split at h
    · cases h
    · split at h
      · cases h
      · rename_i chans _
        split at h
        · cases h
        · rename_i amps hamps
          split at h
          · cases h
          · rename_i obs _
            split at h
            · split at h
              · cases h
              · cases h; cases hp
            · rename_i rows hrows
              cases h
              simp only [Option.some.injEq] at hp
              subst hp
              have hl := mapM_ok_length _ _ _ hrows
              have hla := mapM_ok_length _ _ _ hamps
              simp only [List.length_zip, List.length_range, Nat.min_self] at hl
              refine ⟨P, chans, amps, hP, rfl, hla, rfl, rfl, ?_, ?_⟩
              · intro i p hi hpp
                have hz : p < (P.zip (List.range P.length)).length := by simp; exact hpp
                have hr : p < rows.length := by omega
                have er := mapM_ok_getElem _ _ _ hrows p hz hr
                simp only [List.getElem_zip, List.getElem_range] at er
                unfold seqxRow at er
                simp only at er
                cases hrow : chans.mapM (seqxCell P[p]) with
                | error e => rw [hrow] at er; cases er
                | ok row =>
                  rw [hrow] at er
                  simp only at er
                  have hrl := mapM_ok_length _ _ _ hrow
                  have hi' : i < row.length := by omega
                  have ec := mapM_ok_getElem _ _ _ hrow i hi hi'
                  refine ⟨row[i], ?_, ?_⟩
                  · simp [List.getElem?_eq_getElem hpp, List.getElem?_eq_getElem hi, ec]
                  · -- the row stored for position p is `row`
                    have hrowp : (rows[p]).1 = row := by
                      split at er
                      · cases er
                      · split at er
                        · cases er
                        · simp only [Except.ok.injEq] at er
                          rw [← er]
                    -- every stored row has one cell per channel
                    have hall : ∀ r ∈ rows.map (·.1), r.length = chans.length := by
                      intro r hr'
                      obtain ⟨x, hx, rfl⟩ := List.mem_map.mp hr'
                      obtain ⟨k, hk, rfl⟩ := List.getElem_of_mem hx
                      have hzk : k < (P.zip (List.range P.length)).length := by simp; omega
                      have ek := mapM_ok_getElem _ _ _ hrows k hzk hk
                      unfold seqxRow at ek
                      split at ek
                      · cases ek
                      · rename_i rowk hrowk
                        split at ek
                        · cases ek
                        · split at ek
                          · cases ek
                          · simp only [Except.ok.injEq] at ek
                            rw [← ek]
                            exact mapM_ok_length _ _ _ hrowk
                    have := C14.transpose_getElem? chans.length (rows.map (·.1)) hall i hi p (by simpa using hr)
                    simp only [seqxPackage]
                    rw [this]
                    simp [List.getElem?_eq_getElem hr, hrowp, List.getElem?_eq_getElem hi']
              · intro p hpp
                have hz : p < (P.zip (List.range P.length)).length := by simp; exact hpp
                have hr : p < rows.length := by omega
                have er := mapM_ok_getElem _ _ _ hrows p hz hr
                simp only [List.getElem_zip, List.getElem_range] at er
                unfold seqxRow at er
                simp only at er
                split at er
                · cases er
                · split at er
                  · cases er
                  · rename_i q hq
                    split at er
                    · cases er
                    · rename_i hchk
                      simp only [Except.ok.injEq] at er
                      refine ⟨q, hq, hchk, ?_⟩
                      simp only [seqxPackage, List.getElem?_map, List.getElem?_eq_getElem hr, ← er, Option.map_some]
                      exact ⟨trivial, trivial, trivial, trivial, trivial⟩

/-- **the flags variant**: the same package as `outputForSEQXFile` plus, for channel `i` and
    position `p`, the four flags of channel `chans[i]` of `P[p]` (`[0, 0, 0, 0]` where unset) -/
theorem seqx_flags_content (s : Sequence) (d : Deferred SEQXPkg) (pkg : SEQXPkg)
    (h : s.outputForSEQXFileWithFlags = .ok d) (hp : d.pkg = some pkg) :
    ∃ (P : List (Dict Chan ChOutF)) (chans : List Chan) (d0 : Deferred SEQXPkg) (pkg0 : SEQXPkg) (flags : List (List (List ℕ))),
      s.prepareForOutputting = .ok P ∧ s.outputForSEQXFile = .ok d0 ∧ d0.pkg = some pkg0 ∧
      pkg = { pkg0 with flags := some flags } ∧ flags.length = chans.length ∧
      (∀ i p, i < chans.length → p < P.length → ∃ c, (P[p]?).bind (fun el => (chans[i]?).map (lookupCh el)) = some (.ok c) ∧
          ((flags[i]?).bind (·[p]?)) = some ((chFlags c).getD [0, 0, 0, 0])) := by
  unfold outputForSEQXFileWithFlags at h
  split at h
  · cases h
  · rename_i P hP
    split at h
    · cases h
    · split at h
      · cases h
      · rename_i chans _
        split at h
        · cases h
        · rename_i flags hflags
          split at h
          · cases h
          · rename_i d0 hd0
            cases h
            simp only [Option.map_eq_some_iff] at hp
            obtain ⟨pkg0, hpkg0, rfl⟩ := hp
            have hl := mapM_ok_length _ _ _ hflags
            refine ⟨P, chans, d0, pkg0, flags, hP, hd0, hpkg0, rfl, hl, ?_⟩
            intro i p hi hpp
            have hi' : i < flags.length := by omega
            have er := mapM_ok_getElem _ _ _ hflags i hi hi'
            have hrl := mapM_ok_length _ _ _ er
            have hp' : p < (flags[i]).length := by omega
            have ec := mapM_ok_getElem _ _ _ er p hpp hp'
            unfold seqxFlagCell at ec
            split at ec
            · cases ec
            · rename_i c hc
              simp only [Except.ok.injEq] at ec
              refine ⟨c, ?_, ?_⟩
              · simp [List.getElem?_eq_getElem hpp, List.getElem?_eq_getElem hi, hc]
              · simp [List.getElem?_eq_getElem hi', List.getElem?_eq_getElem hp', ec]

end BB.C15
