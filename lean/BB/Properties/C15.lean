/-
  Property C15 — the SEQX package mirrors the forged sequence and enforces AWG70000A limits.

  Guards (`Gen.seqx*Bad`), the flag tables (`Gen.flagAllowed*`, `Gen.flagAlias*`) and
  `Gen.flagsLenBad` are regenerated from `Sequence.outputForSEQXFile` / `Element.addFlags`.
-/
import Mathlib.Tactic.Linarith
import BB.Properties.C14

namespace BB.C15
open BB BB.Sequence

theorem len_ok_iff (n : ℤ) : Gen.seqxLenBad n = false ↔ 2400 ≤ n := by
  simp [Gen.seqxLenBad]

theorem twait_ok_iff (t : ℤ) : Gen.seqxTwaitBad t = false ↔ (0 ≤ t ∧ t ≤ 3) := by
  simp [Gen.seqxTwaitBad]; omega

theorem jumpstate_ok_iff (t : ℤ) : Gen.seqxJumpStateBad t = false ↔ (0 ≤ t ∧ t ≤ 3) := by
  simp [Gen.seqxJumpStateBad]; omega

theorem nrep_ok_iff (n : ℤ) : Gen.seqxNrepBad n = false ↔ (0 ≤ n ∧ n ≤ 16383) := by
  simp [Gen.seqxNrepBad]; omega

theorem jump_ok_iff (j N : ℤ) : Gen.seqxJumpBad j N = false ↔ (-1 ≤ j ∧ j ≤ N) := by
  simp [Gen.seqxJumpBad]; omega

theorem goto_ok_iff (g N : ℤ) : Gen.seqxGotoBad g N = false ↔ (0 ≤ g ∧ g ≤ N) := by
  simp [Gen.seqxGotoBad]; omega

/-- The sequencing check passes iff wait and event input are in 0..3, repetitions in 0..16383,
    jump target in -1..N and goto in 0..N; otherwise SequencingError. -/
theorem seq_check_iff (q : SeqSet) (N : ℤ) :
    (seqxSeqCheck q N = .ok () ↔
      (0 ≤ q.twait ∧ q.twait ≤ 3) ∧ (0 ≤ q.jump_input ∧ q.jump_input ≤ 3) ∧ (0 ≤ q.nrep ∧ q.nrep ≤ 16383) ∧
        (-1 ≤ q.jump_target ∧ q.jump_target ≤ N) ∧ (0 ≤ q.goto ∧ q.goto ≤ N)) ∧
    (seqxSeqCheck q N ≠ .ok () → seqxSeqCheck q N = .error .sequencing) := by
  unfold seqxSeqCheck
  rw [← twait_ok_iff, ← jumpstate_ok_iff, ← nrep_ok_iff, ← jump_ok_iff, ← goto_ok_iff]
  cases Gen.seqxTwaitBad q.twait <;> cases Gen.seqxJumpStateBad q.jump_input <;> cases Gen.seqxNrepBad q.nrep <;>
    cases Gen.seqxJumpBad q.jump_target N <;> cases Gen.seqxGotoBad q.goto N <;> simp

/-- The voltage check passes iff every sample lies within ±amplitude/2 (no offset); else ValueError. -/
theorem range_check_iff (xs : List ℚ) (a : ℚ) (hne : xs ≠ []) :
    (seqxRangeCheck xs a = .ok () ↔ ∀ x ∈ xs, -a / 2 ≤ x ∧ x ≤ a / 2) ∧
    (seqxRangeCheck xs a ≠ .ok () → seqxRangeCheck xs a = .error .value) := by
  unfold seqxRangeCheck
  simp only [Gen.seqxMaxBad, Gen.seqxMinBad, decide_eq_true_eq, gt_iff_lt]
  constructor
  · constructor
    · intro h x hx
      by_cases h1 : a / 2 < maxR xs
      · simp [h1] at h
      · by_cases h2 : minR xs < -a / 2
        · simp [h1, h2] at h
        · have := C14.le_maxR xs x hx
          have := C14.minR_le xs x hx
          constructor <;> linarith [not_lt.mp h1, not_lt.mp h2]
    · intro h
      have hmax := (h _ (C14.maxR_mem xs hne)).2
      have hmin := (h _ (C14.minR_mem xs hne)).1
      have h1 : ¬ a / 2 < maxR xs := by linarith
      have h2 : ¬ minR xs < -a / 2 := by linarith
      simp [h1, h2]
  · intro h
    by_cases h1 : a / 2 < maxR xs
    · simp [h1]
    · by_cases h2 : minR xs < -a / 2
      · simp [h1, h2]
      · simp [h1, h2] at h

/-- amplitudes: in channel order, padded with one 0 for a single channel -/
theorem amplitudes_padding (amps : List ℚ) :
    padAmplitudes amps = if amps.length = 1 then amps ++ [0] else amps := rfl

/-! ### flags -/

/-- `addFlags` accepts exactly the tokens 0-4 and '', 'H', 'L', 'T', 'P', which mean 0-4. -/
theorem flag_token_table :
    (∀ n : ℤ, 0 ≤ n → n ≤ 4 → flagToken? (.num n) = some n.toNat) ∧
    (∀ n : ℤ, (n < 0 ∨ 4 < n) → flagToken? (.num n) = none) ∧
    flagToken? (.str "") = some 0 ∧ flagToken? (.str "H") = some 1 ∧
    flagToken? (.str "L") = some 2 ∧ flagToken? (.str "T") = some 3 ∧
    flagToken? (.str "P") = some 4 ∧
    (∀ s : String, s ∉ ["", "H", "L", "T", "P"] → flagToken? (.str s) = none) ∧
    flagToken? .none = none := by
  refine ⟨?_, ?_, by decide, by decide, by decide, by decide, by decide, ?_, rfl⟩
  · intro n h0 h4
    have : n = 0 ∨ n = 1 ∨ n = 2 ∨ n = 3 ∨ n = 4 := by omega
    rcases this with rfl | rfl | rfl | rfl | rfl <;> decide
  · intro n h
    unfold flagToken?
    have hm : n ∉ Gen.flagAllowedInt := by
      simp [Gen.flagAllowedInt]; omega
    simp [hm]
  · intro s hs
    unfold flagToken?
    have hm : s ∉ Gen.flagAllowedStr := by
      simpa [Gen.flagAllowedStr] using hs
    simp [hm]

/-- a flag list must have exactly four entries -/
theorem flags_length (e : Element) (ch : Chan) (fl : List Val) (h : fl.length ≠ 4) :
    (e.addFlags ch fl).err = some .value ∧ (e.addFlags ch fl).st = e := by
  unfold Element.addFlags
  have : Gen.flagsLenBad fl.length = true := by simp [Gen.flagsLenBad]; omega
  simp [this]

/-- accepted flags are stored as the four integers -/
theorem flags_stored (e : Element) (ch : Chan) (fl : List Val) (ent : ChEntry) (ints : List ℕ)
    (hl : fl.length = 4) (ht : fl.mapM flagToken? = some ints) (hc : Dict.get? e.chans ch = some ent) :
    (e.addFlags ch fl).err = none ∧
    Dict.get? (e.addFlags ch fl).st.chans ch = some { ent with flags := some ints } := by
  unfold Element.addFlags
  have : Gen.flagsLenBad fl.length = false := by simp [Gen.flagsLenBad, hl]
  simp only [this, Bool.false_eq_true, if_false, ht, hc]
  exact ⟨trivial, Dict.get?_upsert_self _ _ _⟩

/-- where no flags were set, the flags variant reports [0, 0, 0, 0] -/
theorem default_flags (c : ChOutF) (h : chFlags c = none) : (chFlags c).getD [0, 0, 0, 0] = [0, 0, 0, 0] := by
  simp [h]

end BB.C15
