/-
  Property C08 — forging, output and queries are read-only and repeatable.

  In the model every read-only operation is a *function of the state* (`Sequence → Except Err _`):
  it has no way of returning a changed sequence, so "leaves the state unchanged" and "repeating
  it gives the same result" are typing facts of the specification and carry no proof content.
  Whether the Python methods behave like such functions (no write-through to the stored blueprints,
  no cache observable through `==`, no `includetime` leaking into stored arrays) is runtime
  behaviour a value model cannot exhibit; it is decided by the refinement check
  (harness/props/c08.py): random interleavings of read-only calls, with the full public snapshot
  compared against the model — whose state cannot have changed — after every call.

  The theorems below are the part that *is* logic: the one read-only method that does write
  (`validateDurations`, which fills a cache) writes nothing observable, and the forge options do
  not interact.  Level: proof of the specification side + refinement check — partial.
-/
import BB.Model.Describe
import BB.Proofs.Basic
import BB.Proofs.Heap

namespace BB.C08
open BB

/-! ### the validation cache is not observable -/

/-- `validateDurations` changes nothing but the cache -/
theorem validate_writes_cache_only (e : Element) : (e.validateDurations).st.chans = e.chans := by
  unfold Element.validateDurations; split <;> rfl

/-- no observable of an element depends on the cache: description, arrays (with and without time
    axis), validation verdict, sample rate, points, duration, channels, and `==` on either side -/
theorem cache_unobservable (e : Element) (c : Option (Val × Rat)) (t : Bool) (o : Element) :
    ({ e with cache := c } : Element).toDesc = e.toDesc ∧
    ({ e with cache := c } : Element).getArrays t = e.getArrays t ∧
    ({ e with cache := c } : Element).validate = e.validate ∧
    ({ e with cache := c } : Element).getSR = e.getSR ∧
    ({ e with cache := c } : Element).points = e.points ∧
    ({ e with cache := c } : Element).duration = e.duration ∧
    ({ e with cache := c } : Element).channels = e.channels ∧
    ({ e with cache := c } : Element).beq o = e.beq o ∧ o.beq { e with cache := c } = o.beq e :=
  ⟨rfl, rfl, rfl, rfl, rfl, rfl, rfl, rfl, rfl⟩

/-- validating twice is validating once -/
theorem validate_idempotent (e : Element) :
    ((e.validateDurations).st.validateDurations).st = (e.validateDurations).st := by
  unfold Element.validateDurations
  cases h : e.validate with
  | error er => simp [h]
  | ok m =>
    have : ({ e with cache := some m } : Element).validate = .ok m := h
    simp [this]

/-! ### the time-axis option only adds the time axis -/

/-- for a blueprint channel `includetime` flips one flag of the delivered record: waveform
    blocks, markers, flags and the error behaviour are the same -/
theorem chanOut_time_bp (b : BP) (fl : Option (List Nat)) :
    (Element.chanOut true ⟨.bp b, fl⟩ = (forgeBP b).map (fun f => Element.ChOut.forged f fl true)) ∧
    (Element.chanOut false ⟨.bp b, fl⟩ = (forgeBP b).map (fun f => Element.ChOut.forged f fl false)) :=
  ⟨rfl, rfl⟩

/-- for a raw-array channel the stored arrays and flags are delivered as they are, with or
    without the time axis -/
theorem chanOut_time_arr (a : Dict String (List Rat)) (sr : Val) (fl : Option (List Nat)) (o : Element.ChOut)
    (h : Element.chanOut true ⟨.arr a sr, fl⟩ = .ok o) :
    ∃ tm, o = .arrays a fl tm ∧ Element.chanOut false ⟨.arr a sr, fl⟩ = .ok (.arrays a fl none) := by
  unfold Element.chanOut at *
  simp only at *
  split at h
  · split at h
    · split at h
      · cases h
      · cases h; exact ⟨_, rfl, by simp⟩
    · cases h
  · cases h; exact ⟨_, rfl, by simp⟩

/-! ### filters off: nothing is attached -/

theorem attach_off (s : Sequence) (x : Chan × Element.ChOut) :
    s.attach false x = .ok (x.1, { out := x.2, filt := none }) := rfl

/-- with filters applied the delivered arrays are the same records; only the filter annotation of
    channels that declare one is added -/
theorem attach_on_out (s : Sequence) (x : Chan × Element.ChOut) (y : Chan × ChOutF)
    (h : s.attach true x = .ok y) : y.1 = x.1 ∧ y.2.out = x.2 := by
  unfold Sequence.attach at h
  simp only [if_true] at h
  split at h
  · cases h; exact ⟨rfl, rfl⟩
  · cases h

/-! ### the reference level (BB.Model.Heap): read-only calls write nothing that existed -/

open BB.Heap in
/-- a read-only call — a program that may allocate, write what it allocated itself and fill
    validation caches (`forge` deep-copies the element store and edits the copy) — leaves every
    user-held object, its own receiver included, exactly as it was -/
theorem heap_query_frame (st : State) (hi : Inv st) (x : Addr) (p : Prog Unit) (y : Addr)
    (cy : Cell) (hy : st.heap[y]? = some cy) (n : Nat) :
    unfold n (st.query x p).heap y = unfold n st.heap y := query_frame st hi x p y cy hy n

open BB.Heap in
/-- after any history, any interleaving of read-only calls on any objects leaves everything
    observable of every user-held object unchanged -/
theorem heap_readonly (hist later : List Call) (ty : String) (y : Addr)
    (hy : (ty, y) ∈ (hist.foldl State.call {}).vars)
    (hro : ∀ c ∈ later, ∃ t p, c = Call.query t p) (n : Nat) :
    unfold n (later.foldl State.call (hist.foldl State.call {})).heap y = unfold n (hist.foldl State.call {}).heap y :=
  readonly_unobservable hist later ty y hy hro n

end BB.C08
