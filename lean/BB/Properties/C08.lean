/-
  Property C08 — forging, output and queries are read-only and repeatable.

  In the model every read-only operation is a *function of the state* (`Sequence → Except Err _`):
  it has no way of returning a changed sequence, so "leaves the state unchanged" and "repeating
  it gives the same result" are typing facts of the specification and carry no proof content.
  Whether the Python methods behave like such functions (no write-through to the stored blueprints,
  no cache observable through `==`, no `includetime` leaking into stored arrays) is runtime
  behaviour a value model cannot exhibit; it is decided by the refinement check
  (harness/props/c08.py): random interleavings of read-only calls, with the full public snapshot
  compared against the model — whose state cannot have changed — after every call.

  The theorems below are the part that *is* logic: the one read-only method that does write
  (`validateDurations`, which fills a cache) writes nothing observable, and the forge options do
  not interact.  Level: proof of the specification side + refinement check — partial.
-/
import BB.Model.Describe
import BB.Proofs.Basic
import BB.Proofs.Heap
import BB.Proofs.G8Examples
import BB.Proofs.G8Value08

namespace BB.C08
open BB

/-! ### the validation cache is not observable -/

/-- `validateDurations` changes nothing but the cache -/
theorem validate_writes_cache_only (e : Element) : (e.validateDurations).st.chans = e.chans := by
  unfold Element.validateDurations; split <;> rfl

/-- no observable of an element depends on the cache: description, arrays (with and without time
    axis), validation verdict, sample rate, points, duration, channels, and `==` on either side -/
theorem cache_unobservable (e : Element) (c : Option (Val × Rat)) (t : Bool) (o : Element) :
    ({ e with cache := c } : Element).toDesc = e.toDesc ∧
    ({ e with cache := c } : Element).getArrays t = e.getArrays t ∧
    ({ e with cache := c } : Element).validate = e.validate ∧
    ({ e with cache := c } : Element).getSR = e.getSR ∧
    ({ e with cache := c } : Element).points = e.points ∧
    ({ e with cache := c } : Element).duration = e.duration ∧
    ({ e with cache := c } : Element).channels = e.channels ∧
    ({ e with cache := c } : Element).beq o = e.beq o ∧ o.beq { e with cache := c } = o.beq e :=
  ⟨rfl, rfl, rfl, rfl, rfl, rfl, rfl, rfl, rfl⟩

/-- validating twice is validating once -/
theorem validate_idempotent (e : Element) :
    ((e.validateDurations).st.validateDurations).st = (e.validateDurations).st := by
  unfold Element.validateDurations
  cases h : e.validate with
  | error er => simp [h]
  | ok m =>
    have : ({ e with cache := some m } : Element).validate = .ok m := h
    simp [this]

/-! ### the time-axis option only adds the time axis -/

/-- for a blueprint channel `includetime` flips one flag of the delivered record: waveform
    blocks, markers, flags and the error behaviour are the same -/
theorem chanOut_time_bp (b : BP) (fl : Option (List Nat)) :
    (Element.chanOut true ⟨.bp b, fl⟩ = (forgeBP b).map (fun f => Element.ChOut.forged f fl true)) ∧
    (Element.chanOut false ⟨.bp b, fl⟩ = (forgeBP b).map (fun f => Element.ChOut.forged f fl false)) :=
  ⟨rfl, rfl⟩

/-- for a raw-array channel the stored arrays and flags are delivered as they are, with or
    without the time axis -/
theorem chanOut_time_arr (a : Dict String (List Rat)) (sr : Val) (fl : Option (List Nat)) (o : Element.ChOut)
    (h : Element.chanOut true ⟨.arr a sr, fl⟩ = .ok o) :
    ∃ tm, o = .arrays a fl tm ∧ Element.chanOut false ⟨.arr a sr, fl⟩ = .ok (.arrays a fl none) := by
  unfold Element.chanOut at *
  simp only at *
  split at h
  · split at h
    · split at h
      · cases h
      · cases h; exact ⟨_, rfl, by simp⟩
    · cases h
  · cases h; exact ⟨_, rfl, by simp⟩

/-! ### filters off: nothing is attached -/

theorem attach_off (s : Sequence) (x : Chan × Element.ChOut) :
    s.attach false x = .ok (x.1, { out := x.2, filt := none }) := rfl

/-- with filters applied the delivered arrays are the same records; only the filter annotation of
    channels that declare one is added -/
theorem attach_on_out (s : Sequence) (x : Chan × Element.ChOut) (y : Chan × ChOutF)
    (h : s.attach true x = .ok y) : y.1 = x.1 ∧ y.2.out = x.2 := by
  unfold Sequence.attach at h
  simp only [if_true] at h
  split at h
  · cases h; exact ⟨rfl, rfl⟩
  · cases h

/-! ### the reference level (BB.Model.Heap): read-only calls write nothing that existed -/

open BB.Heap in
/-- a read-only call — a program that may allocate, write what it allocated itself and fill
    validation caches (`forge` deep-copies the element store and edits the copy) — leaves every
    user-held object, its own receiver included, exactly as it was -/
theorem heap_query_frame (st : State) (hi : Inv st) (x : Addr) (p : Prog Unit) (y : Addr)
    (cy : Cell) (hy : st.heap[y]? = some cy) (n : Nat) :
    unfold n (st.query x p).heap y = unfold n st.heap y := query_frame st hi x p y cy hy n

open BB.Heap in
/-- after any history, any interleaving of read-only calls on any objects leaves everything
    observable of every user-held object unchanged -/
theorem heap_readonly (hist later : List Call) (ty : String) (y : Addr)
    (hy : (ty, y) ∈ (hist.foldl State.call {}).vars)
    (hro : ∀ c ∈ later, ∃ t p, c = Call.query t p) (n : Nat) :
    unfold n (later.foldl State.call (hist.foldl State.call {})).heap y = unfold n (hist.foldl State.call {}).heap y :=
  readonly_unobservable hist later ty y hy hro n

/-! ### the reference level, for the library's own programs: no call faults (G8)

`heap_query_frame` / `heap_readonly` above hold for every program, but say nothing useful about a
program that breaks the ownership discipline (it *faults*, and then nothing changes).  The theorems
below are about the programs that model broadbean's methods (`BB.Heap.LibCall`, one constructor
per method program of BB.Model.Heap, made on user-held variables): on a *shaped* state
(`BB.Heap.Shaped`: `Inv`, every cell holds what its kind allows, every variable points to a
BluePrint / Element / Sequence graph of bounded nesting) a call whose guard holds
(`LibCall.ok`: live variables of the right class, existing channel / position where the Python
raises `KeyError`) does not fault and leaves the state shaped.  Proofs: BB/Proofs/G8*.lean. -/

open BB.Heap in
/-- the empty state is shaped, and a guarded library call — a read-only one (`elValidate` for
    `validateDurations` and the queries built on it, `sqForge` for `forge` and the output
    methods) or any other — keeps a shaped state shaped; in particular **it does not fault** -/
theorem heap_lib_step (st : State) (c : LibCall) (hs : Shaped st) (hok : c.ok st = true) :
    Shaped (c.run st) ∧ (c.run st).fault = false :=
  ⟨lib_step st c hs hok, (lib_step st c hs hok).nofault⟩

open BB.Heap in
example : Shaped (runLib {} exLibB) ∧ (LibCall.sqForge 14 "s").ok (runLib {} exLibB) = true :=
  ⟨(lib_history exLibB exLibB_guarded).1, by decide +kernel⟩

open BB.Heap in
/-- **the read-only programs never fault on shaped states**: `forge` / the output methods on a
    variable bound to a sequence, `validateDurations` / `SR` / `points` / `duration` on a variable
    bound to an element — no further hypothesis — run through `State.query` without fault, keep the
    state shaped and leave everything observable of *every* user-held object (the receiver
    included) exactly as it was -/
theorem heap_query_nofault (st : State) (hs : Shaped st) (tok : Nat) (t : String) :
    (st.isVar t .sqObj = true →
      ((LibCall.sqForge tok t).run st).fault = false ∧ Shaped ((LibCall.sqForge tok t).run st) ∧
      ∀ p ∈ st.vars, ∀ n, unfold n ((LibCall.sqForge tok t).run st).heap p.2 = unfold n st.heap p.2) ∧
    (st.isVar t .elObj = true →
      ((LibCall.elValidate tok t).run st).fault = false ∧ Shaped ((LibCall.elValidate tok t).run st) ∧
      ∀ p ∈ st.vars, ∀ n, unfold n ((LibCall.elValidate tok t).run st).heap p.2 = unfold n st.heap p.2) := by
  constructor
  · intro hv
    have h1 := lib_step st (.sqForge tok t) hs hv
    refine ⟨h1.nofault, h1, ?_⟩
    intro p hp n
    obtain ⟨cy, hcy⟩ := hs.inv.live p hp
    obtain ⟨x, c, hl, hc, hk⟩ := isVar_spec hv
    simp only [LibCall.run, LibCall.toCall, State.call, hl]
    exact query_frame st hs.inv x _ p.2 cy hcy n
  · intro hv
    have h1 := lib_step st (.elValidate tok t) hs hv
    refine ⟨h1.nofault, h1, ?_⟩
    intro p hp n
    obtain ⟨cy, hcy⟩ := hs.inv.live p hp
    obtain ⟨x, c, hl, hc, hk⟩ := isVar_spec hv
    simp only [LibCall.run, LibCall.toCall, State.call, hl]
    exact query_frame st hs.inv x _ p.2 cy hcy n

open BB.Heap in
example : (runLib {} exLibB).isVar "s" .sqObj = true ∧ (runLib {} exLibB).isVar "e" .elObj = true := by
  decide +kernel

open BB.Heap in
/-- **no history of guarded library calls ever faults**, and its final state is shaped -/
theorem heap_lib_history (cs : List LibCall) (hg : guarded {} cs = true) :
    Shaped (runLib {} cs) ∧ (runLib {} cs).fault = false := lib_history cs hg

open BB.Heap in
example : guarded {} exLibC = true := exLibC_guarded

open BB.Heap in
/-- **read-only histories, for the library's programs, without a no-fault assumption**: after
    any guarded history of library calls, any guarded interleaving of read-only library calls —
    forging / output / queries / validation, on whichever objects, in whichever order — does not
    fault and leaves everything observable of every user-held object unchanged -/
theorem heap_lib_readonly (hist later : List LibCall) (hg : guarded {} (hist ++ later) = true)
    (hro : ∀ c ∈ later, c.isQuery = true) (ty : String) (y : Addr) (hy : (ty, y) ∈ (runLib {} hist).vars) (n : Nat) :
    (runLib {} (hist ++ later)).fault = false ∧
    unfold n (runLib {} (hist ++ later)).heap y = unfold n (runLib {} hist).heap y :=
  lib_readonly hist later hg hro ty y hy n

open BB.Heap in
example : guarded {} (exLibB ++ [.sqForge 14 "s", .elValidate 15 "e", .sqForge 16 "s"]) = true ∧
    (∀ c ∈ [LibCall.sqForge 14 "s", .elValidate 15 "e", .sqForge 16 "s"], c.isQuery = true) ∧
    ("s", 26) ∈ (runLib {} exLibB).vars := by decide +kernel

/-! ### the time-axis option of `forge` only adds the time field (G8, value level) -/

/-- **`forge(…, includetime=True)` and `forge(…, includetime=False)` differ only in the time
    field**: for every sequence and every combination of the other options they raise the same
    exception, or succeed alike and the results agree once the time information
    (`C08V.eraseTime`: the `time` component of every forged channel and of every raw-array
    record, at every position, also inside subsequences) is erased -/
theorem forge_time_only (s : Sequence) (d f : Bool) :
    (s.forge d f true).map C08V.eraseTime = s.forge d f false ∧
    (∀ e, s.forge d f true = .error e ↔ s.forge d f false = .error e) ∧
    (∀ out, s.forge d f true = .ok out → s.forge d f false = .ok (C08V.eraseTime out)) ∧
    (∀ out, s.forge d f false = .ok out → ∃ out2, s.forge d f true = .ok out2 ∧ C08V.eraseTime out2 = out) :=
  ⟨C08V.forge_time_erase s d f, C08V.forge_time_error_iff s d f, C08V.forge_time_ok s d f,
    C08V.forge_notime_ok s d f⟩

example : (C08V.exSeq.forge true true true).toOption.isSome = true := by decide +kernel

/-- what the erasure keeps of a forged channel: waveform, markers, flags, filter annotation -/
theorem forge_time_keeps (c : ChOutF) (w : Nat) :
    Sequence.chWave (C08V.eraseF c) = Sequence.chWave c ∧ Sequence.chMarker (C08V.eraseF c) w = Sequence.chMarker c w ∧
    Sequence.chFlags (C08V.eraseF c) = Sequence.chFlags c ∧ (C08V.eraseF c).filt = c.filt := C08V.eraseF_keeps c w

/-- the element-level version holds for every validated element … -/
theorem getArrays_time_only (e : Element) (m : Val × Rat) (h : e.validate = .ok m) :
    (e.getArrays true).map C08V.eraseArrays = e.getArrays false := C08V.getArrays_time_validated e m h

example : (⟨[(.int 1, { data := .arr [("wfm", [1, 2])] (.num 1) })], none⟩ : Element).validate = .ok (.num 1, 2) := by
  decide +kernel

/-- … and is FALSE without validation: a raw-array channel whose sample rate is not a number
    delivers its arrays without the time axis but raises `TypeError` with it -/
theorem getArrays_time_unvalidated_differs :
    (⟨[(.int 1, { data := .arr [("wfm", [1, 2])] .none })], none⟩ : Element).getArrays true = .error .type ∧
    (⟨[(.int 1, { data := .arr [("wfm", [1, 2])] .none })], none⟩ : Element).getArrays false =
      .ok [(.int 1, .arrays [("wfm", [1, 2])] none none)] := C08V.getArrays_time_unvalidated_counterexample

/-! ### validation caches of stored elements are unobservable at the sequence level (G8) -/

/-- **sequences whose stored elements differ only in their validation caches** (`C08V.CacheEq`:
    same positions in the same order, same sequencing, settings and name, entries equal once the
    cache of every element — also inside stored subsequences — is wiped) **give the same result
    for every read-only operation**: forge under every option combination, description,
    consistency verdict, points, duration, channels, `==` on either side, and the three output
    methods -/
theorem caches_unobservable (s1 s2 : Sequence) (h : C08V.CacheEq s1 s2) (d f t : Bool) (o : Sequence) :
    s1.forge d f t = s2.forge d f t ∧ s1.toDesc = s2.toDesc ∧
    s1.checkConsistency = s2.checkConsistency ∧ s1.points = s2.points ∧ s1.duration = s2.duration ∧
    s1.channels = s2.channels ∧ s1.beq o = s2.beq o ∧ o.beq s1 = o.beq s2 ∧
    s1.prepareForOutputting = s2.prepareForOutputting ∧
    s1.outputForAWGFile = s2.outputForAWGFile ∧ s1.outputForSEQXFile = s2.outputForSEQXFile ∧
    s1.outputForSEQXFileWithFlags = s2.outputForSEQXFileWithFlags := C08V.cacheEq_unobservable s1 s2 h d f t o

example : C08V.CacheEq C08V.exSeq C08V.exSeqCached := rfl

/-- the relation spelled out -/
theorem cacheEq_spelled (s1 s2 : Sequence) :
    C08V.CacheEq s1 s2 ↔
      List.Forall₂ (fun a b => a.1 = b.1 ∧ C08V.dropCacheEntry a.2 = C08V.dropCacheEntry b.2) s1.data s2.data ∧
      s1.sequencing = s2.sequencing ∧ s1.awgspecs = s2.awgspecs ∧ s1.name = s2.name := C08V.cacheEq_iff s1 s2

/-- validating a stored element (the one read-only call that writes) keeps the sequence in its
    class: nothing any read-only operation returns can change -/
theorem validate_stored_unobservable (s : Sequence) (pos : Int) (e : Element) :
    C08V.CacheEq { s with data := Dict.upsert s.data pos (.el (e.validateDurations).st) }
      { s with data := Dict.upsert s.data pos (.el e) } := C08V.validate_stored_cacheEq s pos e

/-- what `addElement` stores (the element with its cache filled) is indistinguishable, by every
    read-only operation of the sequence, from the element stored with any other cache -/
theorem addElement_cache_unobservable (s : Sequence) (pos : Int) (e : Element) (m : Val × Rat)
    (hv : e.validate = .ok m) (c : Option (Val × Rat)) (d f t : Bool) (o : Sequence) :
    let stored := (s.addElement pos e).st
    let other : Sequence := { s with data := Dict.upsert s.data pos (.el { e with cache := c })
                                     sequencing := Dict.upsert s.sequencing pos Sequence.defaultSeqEl }
    stored.forge d f t = other.forge d f t ∧ stored.toDesc = other.toDesc ∧
    stored.checkConsistency = other.checkConsistency ∧ stored.points = other.points ∧
    stored.duration = other.duration ∧ stored.channels = other.channels ∧
    stored.beq o = other.beq o ∧ o.beq stored = o.beq other ∧
    stored.outputForAWGFile = other.outputForAWGFile ∧ stored.outputForSEQXFile = other.outputForSEQXFile :=
  C08V.addElement_cache_unobservable s pos e m hv c d f t o

example : (⟨[(.int 1, { data := .arr [("wfm", [1, 2])] (.num 1) })], none⟩ : Element).validate = .ok (.num 1, 2) := by
  decide +kernel

end BB.C08
